import DudModel.PipeSpec
import DudModel.Lemmas.PipeRun
/-!
# Lemmas for the `Hence` clause of C09, commit side (pipelines of file artifacts)

* `FileMatch`, `fileStatus_cm_iff`, `matchShort_file`: when `ch.Status` says that a FILE artifact
  matches its recorded checksum; `fileMatch_content`: then the logical content at its path is the
  regular file whose bytes hash to the recorded checksum;
* `commitFile_post`, `commitArtW_file`: committing a file artifact records the hash of the logical
  content found, leaves that logical content as it is, and afterwards the artifact matches;
* `CStep`: what a sequence of such commits does to the workspace and the cache;
* `commitAct_files`: one stage; `CommitFInv`, `commitFInv_step`, `cmdCommit_files`: the traversal.
-/
namespace Dud

open WT

variable {κ : Type}

/-! ## logical files -/

/-- the logical content at the component path `q` is the regular file with bytes `c` -/
def FileAtC (cfg : Cfg κ) (w : World κ) (q : List Name) (c : κ) : Prop :=
  (getPath w.ws q).map (deref cfg.ctx w.store) = some (.file c)

theorem fileAt_iff (cfg : Cfg κ) (w : World κ) (p : Bytes) (c : κ) :
    FileAt cfg w p c ↔ FileAtC cfg w (Path.comps p) c := Iff.rfl

/-- a node whose logical content is a regular file keeps it when the cache grows -/
theorem deref_file_le (ctx : Ctx κ) {s s' : Store κ} (hle : Store.le ctx s s') {n : Node κ} {c : κ}
    (h : deref ctx s n = .file c) : deref ctx s' n = .file c := by
  rw [deref_le ctx hle n (by rw [h]; rfl)]
  exact h

theorem FileAtC.mono {cfg : Cfg κ} {w w' : World κ} {q : List Name} {c : κ}
    (hg : getPath w'.ws q = getPath w.ws q) (hle : Store.le cfg.ctx w.store w'.store)
    (h : FileAtC cfg w q c) : FileAtC cfg w' q c := by
  simp only [FileAtC] at h ⊢
  rw [hg]
  cases hn : getPath w.ws q with
  | none => rw [hn] at h; cases h
  | some n =>
    rw [hn] at h
    simp only [Option.map_some, Option.some.injEq] at h ⊢
    exact deref_file_le cfg.ctx hle h

theorem FileAtC.unique {cfg : Cfg κ} {w : World κ} {q : List Name} {c c' : κ}
    (h : FileAtC cfg w q c) (h' : FileAtC cfg w q c') : c = c' := by
  simp only [FileAtC] at h h'
  rw [h] at h'
  cases h'
  rfl

variable [DecidableEq κ]

/-! ## when a file artifact matches -/

/-- `ContentsMatch` of `fileArtifactStatus`, spelled out -/
def FileMatch (ctx : Ctx κ) (s : Store κ) (skip : Bool) (sum : Digest) : Option (Node κ) → Prop
  | some (.file c) =>
    if skip then hasSum sum = true ∧ ctx.H c = sum
    else hasSum sum = true ∧ ∃ o, s.get sum = some o ∧ c = o.bytes ctx
  | some (.link (.obj d)) => hasSum sum = true ∧ s.has sum = true ∧ d = sum
  | _ => False

theorem fileStatus_cm_iff (ctx : Ctx κ) (s : Store κ) (nm : Bytes) (skip : Bool) (sum : Digest)
    (cur : Option (Node κ)) :
    (fileStatus ctx s nm skip sum cur).cm = true ↔ FileMatch ctx s skip sum cur := by
  cases cur with
  | none => simp [fileStatus, quick, FileMatch]
  | some n =>
    cases n with
    | file c =>
      cases skip with
      | true =>
        simp only [fileStatus, quick, FileMatch, if_true]
        by_cases hh : hasSum sum = true
        · simp [hh]
        · simp [hh]
      | false =>
        simp only [fileStatus, quick, FileMatch, Bool.false_eq_true, if_false]
        by_cases hh : hasSum sum = true
        · cases hg : s.get sum with
          | none => simp [Store.has, hg, hh]
          | some o => simp [Store.has, hg, hh]
        · simp [hh]
    | dir es => simp [fileStatus, quick, FileMatch]
    | link l =>
      cases l with
      | obj d => simp [fileStatus, quick, FileMatch, Bool.and_assoc]
      | foreign b => simp [fileStatus, quick, FileMatch]
    | other => simp [fileStatus, quick, FileMatch]

/-- `matchShort` on a file artifact is `ContentsMatch` of its full status -/
theorem matchShort_file (cfg : Cfg κ) (w : World κ) (a : Art) (hf : a.isDir = false) :
    matchShort cfg w a = .ok true ↔
      FileMatch cfg.ctx w.store a.skip a.sum (getPath w.ws (Path.comps a.path)) := by
  simp only [matchShort, statusArt, hf, Bool.false_and, Bool.false_eq_true, if_false,
    Except.ok.injEq]
  exact fileStatus_cm_iff _ _ _ _ _ _

omit [DecidableEq κ] in
/-- a matching file artifact: the logical content is the file whose bytes hash to the checksum -/
theorem FileMatch.content {ctx : Ctx κ} {s : Store κ} (hc : Consistent ctx s) {skip : Bool} {sum : Digest}
    {cur : Option (Node κ)} (h : FileMatch ctx s skip sum cur) :
    ∃ c, cur.map (deref ctx s) = some (.file c) ∧ ctx.H c = sum := by
  cases cur with
  | none => cases h
  | some n =>
    cases n with
    | file c =>
      cases skip with
      | true => exact ⟨c, by simp [deref], h.2⟩
      | false =>
        simp only [FileMatch, Bool.false_eq_true, if_false] at h
        obtain ⟨_, o, ho, rfl⟩ := h
        exact ⟨_, by simp [deref], hc _ _ ho⟩
    | dir es => cases h
    | link l =>
      cases l with
      | obj d =>
        obtain ⟨_, hs, rfl⟩ := h
        simp only [Store.has] at hs
        cases hg : s.get d with
        | none => rw [hg] at hs; cases hs
        | some o => exact ⟨o.bytes ctx, by simp [deref, hg], hc _ _ hg⟩
      | foreign b => cases h
    | other => cases h

omit [DecidableEq κ] in
/-- a matching file artifact still matches when the cache grows -/
theorem FileMatch.mono {ctx : Ctx κ} {s s' : Store κ} (hle : Store.le ctx s s') {skip : Bool}
    {sum : Digest} {cur : Option (Node κ)} (h : FileMatch ctx s skip sum cur) :
    FileMatch ctx s' skip sum cur := by
  cases cur with
  | none => cases h
  | some n =>
    cases n with
    | file c =>
      cases skip with
      | true => exact h
      | false =>
        simp only [FileMatch, Bool.false_eq_true, if_false] at h ⊢
        obtain ⟨h1, o, ho, hb⟩ := h
        obtain ⟨o', ho', hb'⟩ := hle _ _ ho
        exact ⟨h1, o', ho', by rw [hb']; exact hb⟩
    | dir es => cases h
    | link l =>
      cases l with
      | obj d =>
        obtain ⟨h1, hs, h3⟩ := h
        refine ⟨h1, ?_, h3⟩
        simp only [Store.has] at hs ⊢
        cases hg : s.get sum with
        | none => rw [hg] at hs; cases hs
        | some o =>
          obtain ⟨o', ho', _⟩ := hle _ _ hg
          rw [ho']; rfl
      | foreign b => cases h
    | other => cases h

/-- a matching file artifact in the world -/
theorem matchShort_content (cfg : Cfg κ) (w : World κ) (hc : Consistent cfg.ctx w.store) (a : Art)
    (hf : a.isDir = false) (h : matchShort cfg w a = .ok true) :
    ∃ c, FileAt cfg w a.path c ∧ cfg.ctx.H c = a.sum :=
  ((matchShort_file cfg w a hf).1 h).content hc

/-! ## committing a file -/

omit [DecidableEq κ] in
/-- `commitFileArtifact`: the checksum recorded is the hash of the logical content found, that
content is still there afterwards, and afterwards the artifact matches -/
theorem commitFile_post {ctx : Ctx κ} (g : Good ctx) {strat : Strat} {skip : Bool} {cur : Option (Node κ)}
    {sum : Digest} {s : Store κ} (hc : Consistent ctx s) {n' : Node κ} {d : Digest} {s' : Store κ}
    (h : commitFile ctx strat skip cur sum s = .ok (n', d, s')) :
    ∃ c, cur.map (deref ctx s) = some (.file c) ∧ deref ctx s' n' = .file c ∧ d = ctx.H c ∧
      FileMatch ctx s' skip d (some n') := by
  cases cur with
  | none => simp [commitFile] at h
  | some nd =>
    simp only [commitFile] at h
    split at h
    · -- a link resolving to the very object
      rename_i hq
      simp only [Except.ok.injEq, Prod.mk.injEq] at h
      obtain ⟨rfl, rfl, rfl⟩ := h
      cases nd with
      | link l =>
        cases l with
        | obj d0 =>
          simp only [quick, Bool.and_eq_true, beq_iff_eq] at hq
          obtain ⟨⟨h1, h2⟩, rfl⟩ := hq
          simp only [Store.has] at h2
          cases hg : s.get d0 with
          | none => rw [hg] at h2; cases h2
          | some o =>
            refine ⟨o.bytes ctx, by simp [deref, hg], by simp [deref, hg], (hc _ _ hg).symm, ?_⟩
            exact ⟨h1, by simp [Store.has, hg], rfl⟩
        | foreign b => simp [quick] at hq
      | file c => simp [quick] at hq
      | dir es => simp [quick] at hq
      | other => simp [quick] at hq
    · cases nd with
      | file c =>
        simp only at h
        split at h
        · -- skip-cache
          rename_i hs
          simp only [Except.ok.injEq, Prod.mk.injEq] at h
          obtain ⟨rfl, rfl, rfl⟩ := h
          refine ⟨c, by simp [deref], by simp [deref], rfl, ?_⟩
          simp [FileMatch, hs, hasSum_H g c]
        · rename_i hs
          have hs' : skip = false := by simpa using hs
          cases strat with
          | link =>
            simp only [Except.ok.injEq, Prod.mk.injEq] at h
            obtain ⟨rfl, rfl, rfl⟩ := h
            refine ⟨c, by simp [deref], ?_, rfl, ?_⟩
            · simp [deref, Store.get_put_self, Obj.bytes]
            · exact ⟨hasSum_H g c, by simp [Store.has, Store.get_put_self], rfl⟩
          | copy =>
            simp only [Except.ok.injEq, Prod.mk.injEq] at h
            obtain ⟨rfl, rfl, rfl⟩ := h
            refine ⟨c, by simp [deref], by simp [deref], rfl, ?_⟩
            simp only [FileMatch, hs', Bool.false_eq_true, if_false]
            exact ⟨hasSum_H g c, _, Store.get_put_self _ _ _, rfl⟩
      | link l =>
        cases l with
        | obj d0 =>
          simp only at h
          split at h
          · rename_i hh
            simp only [Bool.and_eq_true, Bool.not_eq_true'] at hh
            simp only [Except.ok.injEq, Prod.mk.injEq] at h
            obtain ⟨rfl, rfl, rfl⟩ := h
            have h2 := hh.2
            simp only [Store.has] at h2
            cases hg : s.get d0 with
            | none => rw [hg] at h2; cases h2
            | some o =>
              refine ⟨o.bytes ctx, by simp [deref, hg], by simp [deref, hg], (hc _ _ hg).symm, ?_⟩
              refine ⟨?_, by simp [Store.has, hg], rfl⟩
              rw [← hc _ _ hg]
              exact hasSum_H g _
          · cases h
        | foreign b => simp at h
      | dir es => simp at h
      | other => simp at h

/-! ## what a sequence of commits of file artifacts does -/

/-- What commits of file artifacts at the component paths `P` do to workspace and cache: the cache
stays consistent and grows; paths apart from `P` are untouched; a regular file (logically) at a path
of `P` is still that regular file. -/
structure CStep (cfg : Cfg κ) (P : List Name → Prop) (w w' : World κ) : Prop where
  cons : Consistent cfg.ctx w'.store
  le : Store.le cfg.ctx w.store w'.store
  frame : ∀ q, (∀ pa, P pa → Apart pa q) → getPath w'.ws q = getPath w.ws q
  same : ∀ pa, P pa → ∀ c, FileAtC cfg w pa c → FileAtC cfg w' pa c

omit [DecidableEq κ] in
theorem CStep.refl {cfg : Cfg κ} {w : World κ} (hc : Consistent cfg.ctx w.store) (P : List Name → Prop) :
    CStep cfg P w w :=
  ⟨hc, Store.le_refl _ _, fun _ _ => rfl, fun _ _ _ h => h⟩

omit [DecidableEq κ] in
theorem CStep.iff {cfg : Cfg κ} {P Q : List Name → Prop} {w w' : World κ} (h : CStep cfg P w w')
    (hPQ : ∀ q, Q q ↔ P q) : CStep cfg Q w w' :=
  ⟨h.cons, h.le, fun q hq => h.frame q (fun pa hp => hq pa ((hPQ pa).2 hp)),
    fun pa hp => h.same pa ((hPQ pa).1 hp)⟩

omit [DecidableEq κ] in
/-- a logical file at a path that is in `P` or apart from all of `P` stays -/
theorem CStep.fileAt {cfg : Cfg κ} {P : List Name → Prop} {w w' : World κ} (h : CStep cfg P w w')
    {q : List Name} (hq : ∀ pa, P pa → q = pa ∨ Apart pa q) {c : κ} (hf : FileAtC cfg w q c) :
    FileAtC cfg w' q c := by
  by_cases hp : P q
  · exact h.same q hp c hf
  · refine hf.mono (h.frame q (fun pa hpa => ?_)) h.le
    rcases hq pa hpa with e | e
    · exact absurd (e ▸ hpa) hp
    · exact e

/-- a matching file artifact apart from all of `P` still matches -/
theorem CStep.matched {cfg : Cfg κ} {P : List Name → Prop} {w w' : World κ} (h : CStep cfg P w w')
    {b : Art} (hf : b.isDir = false) (hb : ∀ pa, P pa → Apart pa (Path.comps b.path))
    (hm : matchShort cfg w b = .ok true) : matchShort cfg w' b = .ok true := by
  rw [matchShort_file cfg _ b hf] at hm ⊢
  rw [h.frame _ hb]
  exact hm.mono h.le

omit [DecidableEq κ] in
theorem CStep.trans {cfg : Cfg κ} {P P' : List Name → Prop} {w w1 w2 : World κ}
    (h1 : CStep cfg P w w1) (h2 : CStep cfg P' w1 w2)
    (hd : ∀ pa pa', P pa → P' pa' → pa = pa' ∨ Apart pa pa') :
    CStep cfg (fun q => P q ∨ P' q) w w2 := by
  refine ⟨h2.cons, Store.le_trans h1.le h2.le, ?_, ?_⟩
  · intro q hq
    rw [h2.frame q (fun pa hp => hq pa (.inr hp)), h1.frame q (fun pa hp => hq pa (.inl hp))]
  · intro pa hpa c hf
    have s1 : FileAtC cfg w1 pa c := by
      by_cases hp : P pa
      · exact h1.same pa hp c hf
      · refine h1.fileAt (fun pa1 hp1 => ?_) hf
        rcases hpa with hpa | hpa
        · exact absurd hpa hp
        · rcases hd pa1 pa hp1 hpa with e | e
          · exact .inl e.symm
          · exact .inr e
    by_cases hp' : P' pa
    · exact h2.same pa hp' c s1
    · refine h2.fileAt (fun pa2 hp2 => ?_) s1
      rcases hpa with hpa | hpa
      · rcases hd pa pa2 hpa hp2 with e | e
        · exact .inl e
        · exact .inr e.symm
      · exact absurd hpa hp'

/-! ## one file artifact, a list of file artifacts -/

/-- `commitArtW` on a file artifact -/
theorem commitArtW_file (cfg : Cfg κ) (g : Good cfg.ctx) (strat : Strat) (a a' : Art) (w w' : World κ)
    (hc : Consistent cfg.ctx w.store) (hf : a.isDir = false)
    (h : commitArtW cfg strat a w = .ok (a', w')) :
    CStep cfg (fun q => q = Path.comps a.path) w w' ∧ w'.idx = w.idx ∧ w'.done = w.done ∧
      (∃ d, a' = { a with sum := d }) ∧ matchShort cfg w' a' = .ok true := by
  obtain ⟨n, d, s, ws', hca, hsp, rfl, rfl⟩ := WT.commitArtW_inv h
  have hst := WT.commitArt_step g strat a _ _ hca hc
  simp only [commitArt, hf, Bool.false_eq_true, if_false] at hca
  obtain ⟨c, h1, h2, _, h4⟩ := commitFile_post g hc hca
  have hget : getPath ws' (Path.comps a.path) = some n := WT.getPath_setPath_self _ _ _ _ hsp
  refine ⟨⟨hst.1, hst.2, ?_, ?_⟩, rfl, rfl, ⟨d, rfl⟩, ?_⟩
  · intro q hq
    exact WT.getPath_setPath_apart (hq _ rfl) hsp
  · rintro pa rfl c' hc'
    have : c' = c := by
      simp only [FileAtC] at hc'
      rw [h1] at hc'
      cases hc'
      rfl
    subst this
    simp only [FileAtC, hget, Option.map_some, h2]
  · refine (matchShort_file cfg _ { a with sum := d } hf).2 ?_
    show FileMatch cfg.ctx s a.skip d (getPath ws' (Path.comps a.path))
    rw [hget]
    exact h4

/-- a list of skip-cache file artifacts (the un-owned inputs of a stage): the world is untouched and
every artifact matches the checksum recorded for it -/
theorem commitArts_files_skip (cfg : Cfg κ) (g : Good cfg.ctx) (strat : Strat) :
    ∀ (as as' : List Art) (w w' : World κ), Consistent cfg.ctx w.store →
      (∀ a, a ∈ as → a.skip = true ∧ a.isDir = false) → commitArts cfg strat as w = .ok (as', w') →
      w' = w ∧ ∀ a', a' ∈ as' → a'.isDir = false ∧ (∃ a, a ∈ as ∧ a'.path = a.path) ∧
        matchShort cfg w a' = .ok true
  | [], as', w, w', _, _, h => by
    simp only [commitArts, Except.ok.injEq, Prod.mk.injEq] at h
    obtain ⟨rfl, rfl⟩ := h
    exact ⟨rfl, by simp⟩
  | a :: r, as', w, w', hc, hall, h => by
    rw [commitArts] at h
    split at h
    · cases h
    rename_i a1 w1 h1
    split at h
    · cases h
    rename_i r2 w2 h2
    simp only [Except.ok.injEq, Prod.mk.injEq] at h
    obtain ⟨rfl, rfl⟩ := h
    obtain ⟨hsk, hf⟩ := hall a List.mem_cons_self
    have hw1 : w1 = w := WT.commitArtW_skip cfg strat a a1 w w1 hsk hf h1
    obtain ⟨_, _, _, ⟨d, hd⟩, hm⟩ := commitArtW_file cfg g strat a a1 w w1 hc hf h1
    subst hw1
    obtain ⟨e2, hr⟩ := commitArts_files_skip cfg g strat r r2 w1 w2 hc
      (fun b hb => hall b (List.mem_cons_of_mem _ hb)) h2
    refine ⟨e2, ?_⟩
    intro a' ha'
    rcases List.mem_cons.1 ha' with rfl | ha'
    · exact ⟨by rw [hd]; exact hf, ⟨a, List.mem_cons_self, by rw [hd]⟩, hm⟩
    · obtain ⟨g1, ⟨b, hb, hp⟩, g3⟩ := hr a' ha'
      exact ⟨g1, ⟨b, List.mem_cons_of_mem _ hb, hp⟩, g3⟩

/-- a list of file artifacts with pairwise non-overlapping paths (the outputs of a stage) -/
theorem commitArts_files_apart (cfg : Cfg κ) (g : Good cfg.ctx) (strat : Strat) :
    ∀ (as as' : List Art) (w w' : World κ), Consistent cfg.ctx w.store → ApartArts as →
      (∀ a, a ∈ as → a.isDir = false) → commitArts cfg strat as w = .ok (as', w') →
      CStep cfg (fun q => ∃ a, a ∈ as ∧ q = Path.comps a.path) w w' ∧
        ∀ a', a' ∈ as' → a'.isDir = false ∧ (∃ a, a ∈ as ∧ a'.path = a.path) ∧
          matchShort cfg w' a' = .ok true
  | [], as', w, w', hc, _, _, h => by
    simp only [commitArts, Except.ok.injEq, Prod.mk.injEq] at h
    obtain ⟨rfl, rfl⟩ := h
    exact ⟨CStep.refl hc _, by simp⟩
  | a :: r, as', w, w', hc, hap, hall, h => by
    rw [commitArts] at h
    split at h
    · cases h
    rename_i a1 w1 h1
    split at h
    · cases h
    rename_i r2 w2 h2
    simp only [Except.ok.injEq, Prod.mk.injEq] at h
    obtain ⟨rfl, rfl⟩ := h
    have hap' := List.pairwise_cons.1 hap
    have hf := hall a List.mem_cons_self
    obtain ⟨s1, _, _, ⟨d, hd⟩, hm⟩ := commitArtW_file cfg g strat a a1 w w1 hc hf h1
    obtain ⟨s2, hr⟩ := commitArts_files_apart cfg g strat r r2 w1 w2 s1.cons hap'.2
      (fun b hb => hall b (List.mem_cons_of_mem _ hb)) h2
    refine ⟨?_, ?_⟩
    · refine (s1.trans s2 ?_).iff (fun q => ?_)
      · rintro pa pa' rfl ⟨b, hb, rfl⟩
        exact .inr (hap'.1 b hb)
      · constructor
        · rintro ⟨b, hb, rfl⟩
          rcases List.mem_cons.1 hb with rfl | hb
          · exact .inl rfl
          · exact .inr ⟨b, hb, rfl⟩
        · rintro (rfl | ⟨b, hb, rfl⟩)
          · exact ⟨a, List.mem_cons_self, rfl⟩
          · exact ⟨b, List.mem_cons_of_mem _ hb, rfl⟩
    · intro a' ha'
      rcases List.mem_cons.1 ha' with rfl | ha'
      · refine ⟨by rw [hd]; exact hf, ⟨a, List.mem_cons_self, by rw [hd]⟩, ?_⟩
        refine s2.matched (by rw [hd]; exact hf) ?_ hm
        rintro pa ⟨b, hb, rfl⟩
        rw [hd]
        exact (hap'.1 b hb).symm
      · obtain ⟨g1, ⟨b, hb, hp⟩, g3⟩ := hr a' ha'
        exact ⟨g1, ⟨b, List.mem_cons_of_mem _ hb, hp⟩, g3⟩

/-! ## one stage -/

omit [DecidableEq κ] in
theorem CStep.meta {cfg : Cfg κ} {P : List Name → Prop} {w w' : World κ} (h : CStep cfg P w w')
    (idx : Index) (done : List Bytes) : CStep cfg P w { w' with idx := idx, done := done } :=
  ⟨h.cons, h.le, h.frame, h.same⟩

/-- **`commitAct` on a stage of file artifacts** whose outputs do not overlap and whose un-owned
inputs lie apart from its outputs: the stage recorded keeps command line and working directory, its
definition checksum is current, every output and every un-owned input matches its recorded checksum
in the resulting world, and every owned input carries the checksum its owner records (in the index
the commit started from). Workspace and cache change as described by `CStep` at the outputs. -/
theorem commitAct_files (cfg : Cfg κ) (g : Good cfg.ctx) (strat : Strat) (sp : Bytes) (w w' : World κ)
    (stg : Stage) (hs : alookup w.idx sp = some stg) (hc : Consistent cfg.ctx w.store)
    (hin : ∀ a, a ∈ stg.inputs → a.isDir = false) (hout : ∀ a, a ∈ stg.outputs → a.isDir = false)
    (hap : ApartArts stg.outputs)
    (hpa : ∀ a, a ∈ stg.inputs → findOwner cfg.walkAccumulates w.idx a.path = none →
      ∀ b, b ∈ stg.outputs → Apart (Path.comps b.path) (Path.comps a.path))
    (h : commitAct cfg strat sp w = .ok w') :
    ∃ stg', w'.idx = setStage w.idx sp stg' ∧ w'.done = sp :: w.done ∧
      CStep cfg (fun q => ∃ a, a ∈ stg.outputs ∧ q = Path.comps a.path) w w' ∧
      stg'.cmd = stg.cmd ∧ stg'.wd = stg.wd ∧ stg'.sumOk cfg = true ∧
      (∀ a', a' ∈ stg'.outputs → a'.isDir = false ∧ (∃ a, a ∈ stg.outputs ∧ a'.path = a.path) ∧
        matchShort cfg w' a' = .ok true) ∧
      stg'.outputs.map (·.path) = (sortArts stg.outputs).map (·.path) ∧
      (∀ a', a' ∈ stg'.inputs → a'.isDir = false ∧ (∃ a, a ∈ stg.inputs ∧ a'.path = a.path) ∧
        (findOwner cfg.walkAccumulates w.idx a'.path = none → matchShort cfg w' a' = .ok true) ∧
        (∀ o oa, findOwner cfg.walkAccumulates w.idx a'.path = some (o, oa) → a'.sum = oa.sum)) ∧
      (stg.inputs.Pairwise (fun a b => a.path ≠ b.path) →
        stg'.inputs.Pairwise (fun a b => a.path ≠ b.path)) := by
  unfold commitAct at h
  rw [World.stage_eq_ok.2 hs] at h
  dsimp only at h
  split at h
  · cases h
  rename_i pl w1 h1
  split at h
  · cases h
  rename_i outs w2 h2
  simp only [Except.ok.injEq] at h
  obtain ⟨S, hw', hSo, hSi, hScmd, hSwd, hSsum⟩ : ∃ S : Stage,
      w' = { w2 with idx := setStage w2.idx sp S, done := sp :: w2.done } ∧ S.outputs = outs ∧
      S.inputs = sortArts ((stg.inputs.filter
          (fun a => (findOwner cfg.walkAccumulates w.idx a.path).isSome)).map (fun a =>
            match findOwner cfg.walkAccumulates w.idx a.path with
            | some (_, oa) => { a with sum := oa.sum }
            | none => a) ++ pl) ∧
      S.cmd = stg.cmd ∧ S.wd = stg.wd ∧ S.sum = S.defSum cfg :=
    ⟨_, h.symm, rfl, rfl, rfl, rfl, rfl⟩
  clear h
  subst hw'
  -- the un-owned inputs: skip-cache file artifacts
  obtain ⟨hw1, hpl⟩ := commitArts_files_skip cfg g strat _ pl w w1 hc (by
    intro a ha
    obtain ⟨b, hb, rfl⟩ := List.mem_map.1 (mem_of_mem_sortArts ha)
    exact ⟨rfl, hin b (List.mem_filter.1 hb).1⟩) h1
  subst hw1
  -- the outputs
  obtain ⟨s2, hos⟩ := commitArts_files_apart cfg g strat _ outs w1 w2 hc hap.sortArts
    (fun a ha => hout a (mem_of_mem_sortArts ha)) h2
  obtain ⟨i2, d2, n2⟩ := commitArts_frame cfg strat _ _ w1 w2 h2
  have s2' : CStep cfg (fun q => ∃ a, a ∈ stg.outputs ∧ q = Path.comps a.path) w1 w2 :=
    s2.iff (fun q => ⟨fun ⟨a, ha, e⟩ => ⟨a, mem_sortArts_of_mem hap.paths_ne ha, e⟩,
      fun ⟨a, ha, e⟩ => ⟨a, mem_of_mem_sortArts ha, e⟩⟩)
  have hne : S.sum.isEmpty = false := by
    rw [String.isEmpty_eq_false_iff]
    intro he
    have := hasSum_H g (cfg.ofBytes S.defBytes)
    have hs' : S.sum = cfg.ctx.H (cfg.ofBytes S.defBytes) := hSsum
    rw [← hs', he, hasSum_empty] at this
    cases this
  have hm : (S.defSum cfg == S.sum) = true := by rw [← hSsum]; simp
  obtain ⟨_, _, n1⟩ := commitArts_frame cfg strat _ _ w1 w1 h1
  refine ⟨S, by rw [i2], by rw [d2], s2'.meta _ _, hScmd, hSwd, ?_, ?_,
    by rw [hSo]; exact paths_of_noSum n2, ?_, ?_⟩
  · simp only [Stage.sumOk, hne, hm, Bool.not_false, Bool.and_self]
  · intro a' ha'
    rw [hSo] at ha'
    obtain ⟨g1, ⟨a, ha, hp⟩, g3⟩ := hos a' ha'
    exact ⟨g1, ⟨a, mem_of_mem_sortArts ha, hp⟩, g3⟩
  · intro a' ha'
    rw [hSi] at ha'
    rcases List.mem_append.1 (mem_of_mem_sortArts ha') with ha' | ha'
    · -- an owned input
      obtain ⟨b, hb, rfl⟩ := List.mem_map.1 ha'
      obtain ⟨hbin, hbo⟩ := List.mem_filter.1 hb
      cases ho : findOwner cfg.walkAccumulates w1.idx b.path with
      | none => rw [ho] at hbo; cases hbo
      | some r =>
        obtain ⟨o, oa⟩ := r
        simp only [ho]
        refine ⟨hin b hbin, ⟨b, hbin, rfl⟩, fun hn => ?_, fun o' oa' ho' => ?_⟩
        · cases hn
        · cases ho'
          rfl
    · -- an input no stage owns
      obtain ⟨g1, ⟨a, ha, hp⟩, g3⟩ := hpl a' ha'
      obtain ⟨b, hb, rfl⟩ := List.mem_map.1 (mem_of_mem_sortArts ha)
      obtain ⟨hbin, hbo⟩ := List.mem_filter.1 hb
      have hbn : findOwner cfg.walkAccumulates w1.idx b.path = none := by simpa using hbo
      have hp' : a'.path = b.path := hp
      refine ⟨g1, ⟨b, hbin, hp'⟩, fun _ => ?_, fun o oa ho => ?_⟩
      · refine s2'.matched g1 ?_ g3
        rintro pa ⟨c, hc', rfl⟩
        rw [hp']
        exact hpa b hbin hbn c hc'
      · rw [hp', hbn] at ho; cases ho
  · -- the inputs keep distinct paths
    intro hnd
    rw [hSi]
    refine WT.pairwise_sortArts (fun _ _ h => Ne.symm h) _ (List.pairwise_append.2 ⟨?_, ?_, ?_⟩)
    · refine List.pairwise_map.2 ((hnd.filter _).imp ?_)
      intro a b hab
      cases findOwner cfg.walkAccumulates w1.idx a.path <;>
        cases findOwner cfg.walkAccumulates w1.idx b.path <;> exact hab
    · have hp := paths_of_noSum n1
      have h0 : (sortArts ((stg.inputs.filter
          (fun a => (findOwner cfg.walkAccumulates w1.idx a.path).isNone)).map
            (fun a => { a with skip := true }))).Pairwise (fun a b => a.path ≠ b.path) :=
        WT.pairwise_sortArts (fun _ _ h => Ne.symm h) _
          (List.pairwise_map.2 ((hnd.filter _).imp (fun hab => hab)))
      have h1' : ((sortArts ((stg.inputs.filter
          (fun a => (findOwner cfg.walkAccumulates w1.idx a.path).isNone)).map
            (fun a => { a with skip := true }))).map (fun a : Art => a.path)).Pairwise
              (fun x y => x ≠ y) := List.pairwise_map.2 h0
      rw [← hp] at h1'
      exact List.pairwise_map.1 h1'
    · intro a ha b hb hab
      obtain ⟨a0, ha0, rfl⟩ := List.mem_map.1 ha
      have hso := (List.mem_filter.1 ha0).2
      obtain ⟨_, ⟨b1, hb1, hpb⟩, _⟩ := hpl b hb
      obtain ⟨b0, hb0, rfl⟩ := List.mem_map.1 (mem_of_mem_sortArts hb1)
      have hno := (List.mem_filter.1 hb0).2
      have hpath : a0.path = b0.path := by
        have : (match findOwner cfg.walkAccumulates w1.idx a0.path with
            | some (_, oa) => ({ a0 with sum := oa.sum } : Art)
            | none => a0).path = a0.path := by
          cases findOwner cfg.walkAccumulates w1.idx a0.path <;> rfl
        rw [← this, hab, hpb]
      rw [hpath] at hso
      rw [Option.isNone_iff_eq_none] at hno
      rw [hno] at hso
      cases hso

/-! ## the owning artifact and the shape of the index -/

omit [DecidableEq κ] in
theorem findArt_path {arts : List Art} {p : Bytes} {o : Art} (h : findArt arts p = some o) : o.path = p := by
  simpa using List.find?_some h

theorem ownerWalk_sim_path (wa : Bool) {o o0 : List Art} (h : OutSim o o0) (full : Bytes) :
    ∀ (parts : List Bytes) (dir : Bytes),
      (ownerWalk wa o full dir parts).map (·.path) = (ownerWalk wa o0 full dir parts).map (·.path)
  | [], _ => rfl
  | part :: r, dir => by
    simp only [ownerWalk]
    generalize Path.join [if wa then dir else [], part] = d
    have hd := h d
    cases hf : findArt o d with
    | none =>
      cases hf0 : findArt o0 d with
      | none => exact ownerWalk_sim_path wa h full r _
      | some a0 => rw [hf, hf0] at hd; cases hd
    | some a =>
      cases hf0 : findArt o0 d with
      | none => rw [hf, hf0] at hd; cases hd
      | some a0 =>
        rw [hf, hf0] at hd
        simp only [Option.map_some, Option.some.injEq] at hd
        simp only [hd]
        by_cases hc : (!a0.noRec || d == full) = true
        · simp only [hc, if_true, Option.map_some, findArt_path hf, findArt_path hf0]
        · simp only [hc]
          exact ownerWalk_sim_path wa h full r _

/-- the owning stage and the PATH of the owning artifact depend only on the shape of the index -/
theorem findOwner_sim_path (wa : Bool) {idx idx0 : Index} (h : SameShape idx idx0) (p : Bytes) :
    (findOwner wa idx p).map (fun r => (r.1, r.2.path)) =
      (findOwner wa idx0 p).map (fun r => (r.1, r.2.path)) := by
  induction h with
  | nil => rfl
  | @cons e e0 r r0 he _ ih =>
    obtain ⟨sp, stg⟩ := e
    obtain ⟨sp0, stg0⟩ := e0
    obtain ⟨hsp, -, hout⟩ := he
    simp only at hsp hout
    subst hsp
    simp only [findOwner]
    have h1 := hout.isSome p
    have h2 : (findDirOwner wa p stg.outputs).map (·.path) = (findDirOwner wa p stg0.outputs).map (·.path) :=
      ownerWalk_sim_path wa hout _ _ _
    cases hf : findArt stg.outputs p with
    | some a =>
      rw [hf] at h1
      cases hf0 : findArt stg0.outputs p with
      | some a0 => simp [findArt_path hf, findArt_path hf0]
      | none => rw [hf0] at h1; cases h1
    | none =>
      rw [hf] at h1
      cases hf0 : findArt stg0.outputs p with
      | some a0 => rw [hf0] at h1; cases h1
      | none =>
        simp only
        cases hg : findDirOwner wa p stg.outputs with
        | some a =>
          rw [hg] at h2
          cases hg0 : findDirOwner wa p stg0.outputs with
          | some a0 =>
            rw [hg0] at h2
            simp only [Option.map_some, Option.some.injEq] at h2
            simp [h2]
          | none => rw [hg0] at h2; cases h2
        | none =>
          rw [hg] at h2
          cases hg0 : findDirOwner wa p stg0.outputs with
          | some a0 => rw [hg0] at h2; cases h2
          | none => exact ih

omit [DecidableEq κ] in
theorem findOwner_some_sim (wa : Bool) {idx idx0 : Index} (h : SameShape idx idx0) {p o : Bytes} {oa : Art}
    (ho : findOwner wa idx p = some (o, oa)) :
    ∃ oa0, findOwner wa idx0 p = some (o, oa0) ∧ oa0.path = oa.path := by
  have := findOwner_sim_path wa h p
  rw [ho] at this
  cases h0 : findOwner wa idx0 p with
  | none => rw [h0] at this; cases this
  | some r =>
    rw [h0] at this
    simp only [Option.map_some, Option.some.injEq, Prod.mk.injEq] at this
    obtain ⟨o', oa0⟩ := r
    simp only at this
    obtain ⟨rfl, hp⟩ := this
    exact ⟨oa0, rfl, hp.symm⟩

/-- the artifact of the stage that owns the path, if any -/
def ownArt (wa : Bool) (stg : Stage) (p : Bytes) : Option Art :=
  match findArt stg.outputs p with
  | some a => some a
  | none => findDirOwner wa p stg.outputs

omit [DecidableEq κ] in
theorem findOwner_entry (wa : Bool) (idx : Index) (p o : Bytes) (oa : Art)
    (h : findOwner wa idx p = some (o, oa)) : ∃ stg, (o, stg) ∈ idx ∧ ownArt wa stg p = some oa := by
  induction idx with
  | nil => simp [findOwner] at h
  | cons e r ih =>
    obtain ⟨k, stg⟩ := e
    simp only [findOwner] at h
    split at h
    · rename_i a hf
      cases h
      exact ⟨stg, List.mem_cons_self, by simp [ownArt, hf]⟩
    · rename_i hf
      split at h
      · rename_i a hg
        cases h
        exact ⟨stg, List.mem_cons_self, by simp [ownArt, hf, hg]⟩
      · obtain ⟨stg', h1, h2⟩ := ih h
        exact ⟨stg', List.mem_cons_of_mem _ h1, h2⟩

omit [DecidableEq κ] in
/-- The owner found in an index of the same shape in which the owning stage has the same entry is
the same, artifact included. -/
theorem findOwner_stable (wa : Bool) {idx' idx : Index} (hk : (idx.map (·.1)).Nodup)
    (hsh : SameShape idx' idx) {p o : Bytes} {oa' : Art} (h' : findOwner wa idx' p = some (o, oa'))
    (he : alookup idx' o = alookup idx o) : findOwner wa idx p = some (o, oa') := by
  obtain ⟨oa, h, _⟩ := findOwner_some_sim wa hsh h'
  obtain ⟨stg', m', e'⟩ := findOwner_entry wa idx' p o oa' h'
  obtain ⟨stg, m, e⟩ := findOwner_entry wa idx p o oa h
  have hk' : (idx'.map (·.1)).Nodup := by rw [hsh.keys]; exact hk
  have l' := alookup_of_mem_nodup hk' m'
  have l := alookup_of_mem_nodup hk m
  rw [l', l] at he
  cases he
  rw [e'] at e
  cases e
  exact h

omit [DecidableEq κ] in
theorem findOwner_none_sim (wa : Bool) {idx idx0 : Index} (h : SameShape idx idx0) (p : Bytes) :
    findOwner wa idx p = none ↔ findOwner wa idx0 p = none := by
  have := findOwner_sim wa h p
  cases h1 : findOwner wa idx p <;> cases h0 : findOwner wa idx0 p <;> simp [h1, h0] at this ⊢

omit [DecidableEq κ] in
theorem apartArts_mem : ∀ {l : List Art}, ApartArts l → ∀ {a b : Art}, a ∈ l → b ∈ l →
    a = b ∨ Apart (Path.comps a.path) (Path.comps b.path)
  | [], _, _, _, ha, _ => by cases ha
  | x :: r, h, a, b, ha, hb => by
    have h' := List.pairwise_cons.1 h
    rcases List.mem_cons.1 ha with ha1 | ha1
    · rcases List.mem_cons.1 hb with hb1 | hb1
      · exact .inl (ha1.trans hb1.symm)
      · exact .inr (ha1 ▸ h'.1 b hb1)
    · rcases List.mem_cons.1 hb with hb1 | hb1
      · exact .inr (hb1 ▸ (h'.1 a ha1).symm)
      · exact apartArts_mem h'.2 ha1 hb1

/-! ## the commit traversal -/

/-- the component paths `dud commit` looks at: the outputs, and the inputs no stage owns -/
def RelPath (cfg : Cfg κ) (idx : Index) (q : List Name) : Prop :=
  ∃ sp stg, alookup idx sp = some stg ∧
    ((∃ b, b ∈ stg.outputs ∧ q = Path.comps b.path) ∨
     (∃ a, a ∈ stg.inputs ∧ findOwner cfg.walkAccumulates idx a.path = none ∧ q = Path.comps a.path))

/-- what is known about a committed stage `stg'` (originally `stg`) in the world `v` -/
structure StageRec (cfg : Cfg κ) (idx0 : Index) (v : World κ) (stg stg' : Stage) : Prop where
  cmd : stg'.cmd = stg.cmd
  wd : stg'.wd = stg.wd
  sumOk : stg'.sumOk cfg = true
  outs : ∀ a', a' ∈ stg'.outputs → a'.isDir = false ∧ (∃ a, a ∈ stg.outputs ∧ a'.path = a.path) ∧
    matchShort cfg v a' = .ok true
  outPaths : stg'.outputs.map (·.path) = (sortArts stg.outputs).map (·.path)
  insNodup : stg'.inputs.Pairwise (fun a b => a.path ≠ b.path)
  ins : ∀ a', a' ∈ stg'.inputs → a'.isDir = false ∧ (∃ a, a ∈ stg.inputs ∧ a'.path = a.path) ∧
    (findOwner cfg.walkAccumulates idx0 a'.path = none → matchShort cfg v a' = .ok true) ∧
    (∀ o oa, findOwner cfg.walkAccumulates v.idx a'.path = some (o, oa) → a'.sum = oa.sum)

/-- invariant of the commit traversal started in `w0` -/
structure CommitFInv (cfg : Cfg κ) (w0 v : World κ) : Prop where
  cons : Consistent cfg.ctx v.store
  files : ∀ q c, RelPath cfg w0.idx q → FileAtC cfg w0 q c → FileAtC cfg v q c
  pending : ∀ sp, v.done.contains sp = false → alookup v.idx sp = alookup w0.idx sp
  owners_done : ∀ x, v.done.contains x = true → ∀ o, o ∈ ownIdx cfg w0.idx x → v.done.contains o = true
  finished : ∀ x, v.done.contains x = true → ∃ stg stg', alookup w0.idx x = some stg ∧
    alookup v.idx x = some stg' ∧ StageRec cfg w0.idx v stg stg'

theorem commitFInv_step (cfg : Cfg κ) (g : Good cfg.ctx) (strat : Strat) (w0 : World κ)
    (hok : PipeOK cfg w0.idx) (hfp : FilePipe cfg w0.idx) (sp : Bytes) (v v1 : World κ)
    (hsh : SameShape v.idx w0.idx) (hinv : CommitFInv cfg w0 v)
    (hnd : v.done.contains sp = false)
    (hown : ∀ o, o ∈ ownIdx cfg w0.idx sp → v.done.contains o = true)
    (h : commitAct cfg strat sp v = .ok v1) : CommitFInv cfg w0 v1 := by
  obtain ⟨stg, hs⟩ : ∃ stg, alookup v.idx sp = some stg := by
    cases hl : alookup v.idx sp with
    | some stg => exact ⟨stg, rfl⟩
    | none => simp [commitAct, World.stage, hl] at h
  have hs0 : alookup w0.idx sp = some stg := by rw [← hinv.pending sp hnd]; exact hs
  have hk : (v.idx.map (·.1)).Nodup := by rw [hsh.keys]; exact hok.keys
  obtain ⟨stg', hi1, hd1, cs, hcmd, hwd, hsum, houts, hpaths, hins, hnod⟩ :=
    commitAct_files cfg g strat sp v v1 stg hs hinv.cons (hfp.ins_files sp stg hs0)
      (hfp.outs_files sp stg hs0) (hok.apart_in sp stg hs0)
      (fun a ha hn b hb =>
        hok.plain_apart sp stg hs0 a ha ((findOwner_none_sim _ hsh _).1 hn) sp stg hs0 b hb) h
  have hsh1 : SameShape v1.idx v.idx := (commitAct_frame cfg strat sp v v1 hk h).1
  have hdone : ∀ x, v1.done.contains x = (x == sp || v.done.contains x) := by
    intro x; rw [hd1, List.contains_cons]
  have hstab : ∀ p o oa1, findOwner cfg.walkAccumulates v1.idx p = some (o, oa1) → o ≠ sp →
      findOwner cfg.walkAccumulates v.idx p = some (o, oa1) := by
    intro p o oa1 ho hne
    exact findOwner_stable _ hk hsh1 ho (by rw [hi1, WT.alookup_setStage_ne _ _ hne])
  have hownin : ∀ x stgx, alookup w0.idx x = some stgx → ∀ a, a ∈ stgx.inputs → ∀ o oa1,
      findOwner cfg.walkAccumulates v1.idx a.path = some (o, oa1) → o ∈ ownIdx cfg w0.idx x := by
    intro x stgx hsx a ha o oa1 ho
    obtain ⟨oa0, ho0, _⟩ := findOwner_some_sim _ (hsh1.trans hsh) ho
    exact owner_mem_ownIdx hsx ha ho0
  have hspdone : ∀ o, v.done.contains o = true → o ≠ sp := by
    intro o ho e; subst e; rw [hnd] at ho; cases ho
  refine ⟨cs.cons, ?_, ?_, ?_, ?_⟩
  · intro q c hrel hf0
    refine cs.fileAt ?_ (hinv.files q c hrel hf0)
    rintro pa ⟨b, hb, rfl⟩
    obtain ⟨x, stgx, hsx, hq⟩ := hrel
    rcases hq with ⟨b2, hb2, rfl⟩ | ⟨a, ha, hn, rfl⟩
    · by_cases hx : x = sp
      · subst hx
        rw [hs0] at hsx
        cases hsx
        rcases apartArts_mem (hok.apart_in x stg hs0) hb hb2 with e | e
        · exact .inl (by rw [e])
        · exact .inr e
      · exact .inr (hok.apart_across sp x stg stgx (Ne.symm hx) hs0 hsx b hb b2 hb2)
    · exact .inr (hok.plain_apart x stgx hsx a ha hn sp stg hs0 b hb)
  · intro x hx
    rw [hdone, Bool.or_eq_false_iff] at hx
    have hne : x ≠ sp := by simpa using hx.1
    rw [hi1, WT.alookup_setStage_ne _ _ hne]
    exact hinv.pending x hx.2
  · intro x hx o ho
    rw [hdone] at hx ⊢
    by_cases hxs : x = sp
    · subst hxs
      rw [hown o ho, Bool.or_true]
    · have hx' : v.done.contains x = true := by
        have : (x == sp) = false := by simpa using hxs
        simpa [this] using hx
      rw [hinv.owners_done x hx' o ho, Bool.or_true]
  · intro x hx
    by_cases hxs : x = sp
    · subst hxs
      refine ⟨stg, stg', hs0, by rw [hi1]; exact WT.alookup_setStage_self _ _ hs,
        hcmd, hwd, hsum, houts, hpaths, hnod (hfp.ins_nodup x stg hs0), ?_⟩
      intro a' ha'
      obtain ⟨i1, ⟨a, ha, hp⟩, i3, i4⟩ := hins a' ha'
      refine ⟨i1, ⟨a, ha, hp⟩, fun hn0 => i3 ((findOwner_none_sim _ hsh _).2 hn0), ?_⟩
      intro o oa1 ho1
      have hoo : o ∈ ownIdx cfg w0.idx x := hownin x stg hs0 a ha o oa1 (hp ▸ ho1)
      exact i4 o oa1 (hstab _ o oa1 ho1 (hspdone o (hown o hoo)))
    · have hx' : v.done.contains x = true := by
        rw [hdone] at hx
        have : (x == sp) = false := by simpa using hxs
        simpa [this] using hx
      obtain ⟨stgx, stgx', e0, e1, hrec⟩ := hinv.finished x hx'
      refine ⟨stgx, stgx', e0, by rw [hi1, WT.alookup_setStage_ne _ _ hxs]; exact e1,
        hrec.cmd, hrec.wd, hrec.sumOk, ?_, hrec.outPaths, hrec.insNodup, ?_⟩
      · intro a' ha'
        obtain ⟨o1, ⟨a, ha, hp⟩, o3⟩ := hrec.outs a' ha'
        refine ⟨o1, ⟨a, ha, hp⟩, cs.matched o1 ?_ o3⟩
        rintro pa ⟨b, hb, rfl⟩
        rw [hp]
        exact hok.apart_across sp x stg stgx (Ne.symm hxs) hs0 e0 b hb a ha
      · intro a' ha'
        obtain ⟨i1, ⟨a, ha, hp⟩, i3, i4⟩ := hrec.ins a' ha'
        refine ⟨i1, ⟨a, ha, hp⟩, fun hn0 => cs.matched i1 ?_ (i3 hn0), ?_⟩
        · rintro pa ⟨b, hb, rfl⟩
          rw [hp]
          exact hok.plain_apart x stgx e0 a ha (hp ▸ hn0) sp stg hs0 b hb
        · intro o oa1 ho1
          have hoo : o ∈ ownIdx cfg w0.idx x := hownin x stgx e0 a ha o oa1 (hp ▸ ho1)
          exact i4 o oa1 (hstab _ o oa1 ho1 (hspdone o (hinv.owners_done x hx' o hoo)))

theorem CommitFInv.init (cfg : Cfg κ) (w0 : World κ) (hc : Consistent cfg.ctx w0.store) :
    CommitFInv cfg w0 (fresh w0) where
  cons := hc
  files := fun _ _ _ h => h
  pending := fun _ _ => rfl
  owners_done := fun x h => by simp [fresh] at h
  finished := fun x h => by simp [fresh] at h

/-- **`dud commit` (all stages) on a pipeline of files.** Every stage is committed, the index keeps
its shape, and the invariant holds in the final world. -/
theorem cmdCommit_files (cfg : Cfg κ) (g : Good cfg.ctx) (strat : Strat) (w0 w' : World κ)
    (hc : Consistent cfg.ctx w0.store) (hok : PipeOK cfg w0.idx) (hfp : FilePipe cfg w0.idx)
    (h : cmdCommit cfg strat [] w0 = .ok w') :
    SameShape w'.idx w0.idx ∧ CommitFInv cfg w0 w' ∧
      ∀ x stg, alookup w0.idx x = some stg → w'.done.contains x = true := by
  obtain ⟨l', hl, hsh, _, _, hts, hdone, _⟩ := cmdCommit_spec cfg strat [] w0 w' hok.keys h
  simp only [List.isEmpty_nil, if_true] at hl hts
  have hinv := perTarget_preserves (r := true)
    (commitTrav_lawfulOn cfg strat w0.idx hok.keys) (fun w => w.idx.length + 1) allStages
    (allStages w0) (Q := fun p => CommitFInv cfg w0 p.1)
    (fun sp p p' _ hi hq hndone hown hact => by
      obtain ⟨s, hs, rfl⟩ := logged_act_inv hact
      exact commitFInv_step cfg g strat w0 hok hfp sp p.1 s hi hq hndone (hown rfl) hs)
    (fresh w0, []) (w', l') (SameShape.refl _) (CommitFInv.init cfg w0 hc) hl
  refine ⟨hsh, hinv, fun x stg hsx => ?_⟩
  rw [hdone]
  have : x ∈ l' := hts x (by simpa [allStages] using WT.mem_keys_of_alookup hsx)
  simpa using this

end Dud
