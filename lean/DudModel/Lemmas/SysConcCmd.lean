import DudModel.SysConc
import DudModel.Lemmas.CrashCmdGo
import DudModel.Lemmas.CrashCheckoutStep
import DudModel.Lemmas.SysCheckoutRefine
/-!
# The real command traces never write the lock path between lock and unlock — WITHOUT hypotheses

`cmdCommitGoT_lock_window` / `cmdCheckoutT_lock_window` obtain "no body call writes `P.lock`" from the
crash-safety invariants, which need hypotheses on the world (`uniqNode`, `Consistent`, `Good`, `hemp`).  The
fact itself is syntactic.  This file proves it for EVERY configuration and EVERY world:

* `commitBody` / `checkoutBody`: the calls of `cmdCommitGoT` / `cmdCheckoutT` strictly between the first
  (`createExcl lock`) and the last (`unlink lock`) call (`commitBody_trace`, `checkoutBody_trace`); a command
  that fails at the logical level has no trace in the model, its body is `[]`;
* `commitBody_noLock`: every call of the commit body mentions cache, workspace and stage-file paths only;
* `checkoutBody_noLock`: every call of the checkout body writes workspace paths only.
-/
namespace Dud.Sys.Conc

open Dud Dud.Sys

variable {κ : Type}

/-! ## `dud commit` -/

theorem commitArtWT_cacheOnly {c : CmdCfg κ} {strat : Strat} {a : Art} {w : World κ}
    {r : Art × World κ} {calls : List (Call κ)} (h : commitArtWT c strat a w = .ok (r, calls)) :
    ∀ x ∈ calls, CacheOnly x := by
  unfold commitArtWT at h
  simp only at h
  cases hT : commitArtT (c.tc strat) a (Path.comps a.path) (getPath w.ws (Path.comps a.path)) w.store with
  | error e => rw [hT] at h; cases h
  | ok v =>
    obtain ⟨⟨n, d, s⟩, calls1⟩ := v
    rw [hT] at h
    simp only at h
    split at h
    · cases h
    · simp only [Except.ok.injEq, Prod.mk.injEq] at h
      obtain ⟨-, rfl⟩ := h
      exact commitArtT_cacheOnly hT

theorem commitArtsT_cacheOnly {c : CmdCfg κ} {strat : Strat} :
    ∀ (as : List Art) (w : World κ) (r : List Art × World κ) (segs : List (List (Call κ))),
      commitArtsT c strat as w = .ok (r, segs) → ∀ x ∈ segs.flatten, CacheOnly x
  | [], w, r, segs, h => by
    simp only [commitArtsT, Except.ok.injEq, Prod.mk.injEq] at h
    obtain ⟨-, rfl⟩ := h
    intro x hx; simp at hx
  | a :: as, w, r, segs, h => by
    simp only [commitArtsT] at h
    cases h1 : commitArtWT c strat a w with
    | error e => rw [h1] at h; cases h
    | ok v =>
      obtain ⟨⟨a1, w1⟩, calls1⟩ := v
      rw [h1] at h
      simp only at h
      cases h2 : commitArtsT c strat as w1 with
      | error e => rw [h2] at h; cases h
      | ok v =>
        obtain ⟨r2, segs2⟩ := v
        rw [h2] at h
        simp only [Except.ok.injEq, Prod.mk.injEq] at h
        obtain ⟨-, rfl⟩ := h
        intro x hx
        simp only [List.flatten_cons] at hx
        rcases List.mem_append.1 hx with hx | hx
        · exact commitArtWT_cacheOnly h1 x hx
        · exact commitArtsT_cacheOnly as w1 r2 segs2 h2 x hx

theorem commitActT_cacheOnly {c : CmdCfg κ} {strat : Strat} {sp : Bytes} {w w' : World κ}
    {segs : List (List (Call κ))} (h : commitActT c strat sp w = .ok (w', segs)) :
    ∀ x ∈ segs.flatten, CacheOnly x := by
  unfold commitActT at h
  cases hst : w.stage sp with
  | error e => rw [hst] at h; cases h
  | ok stg =>
    rw [hst] at h
    simp only at h
    cases h1 : commitArtsT c strat
      (sortArts ((stg.inputs.filter (fun a => (findOwner c.cfg.walkAccumulates w.idx a.path).isNone)).map
        (fun a => { a with skip := true }))) w with
    | error e => rw [h1] at h; cases h
    | ok v =>
      obtain ⟨⟨plain', w1⟩, segs1⟩ := v
      rw [h1] at h
      simp only at h
      cases h2 : commitArtsT c strat (sortArts stg.outputs) w1 with
      | error e => rw [h2] at h; cases h
      | ok v =>
        obtain ⟨⟨outs', w2⟩, segs2⟩ := v
        rw [h2] at h
        simp only [Except.ok.injEq, Prod.mk.injEq] at h
        obtain ⟨-, rfl⟩ := h
        intro x hx
        simp only [List.flatten_append] at hx
        rcases List.mem_append.1 hx with hx | hx
        · exact commitArtsT_cacheOnly _ _ _ _ h1 x hx
        · exact commitArtsT_cacheOnly _ _ _ _ h2 x hx

theorem commitTravT_cacheOnly {c : CmdCfg κ} {strat : Strat} (sp : Bytes)
    (s s' : World κ × List (List (Call κ))) (hq : ∀ x ∈ s.2.flatten, CacheOnly x)
    (h : (commitTravT c strat).act sp s = .ok s') : ∀ x ∈ s'.2.flatten, CacheOnly x := by
  simp only [commitTravT] at h
  cases hA : commitActT c strat sp s.1 with
  | error e => rw [hA] at h; cases h
  | ok v =>
    obtain ⟨w', segs⟩ := v
    rw [hA] at h
    simp only [Except.ok.injEq] at h
    subst h
    intro x hx
    simp only [List.flatten_append] at hx
    rcases List.mem_append.1 hx with hx | hx
    · exact hq x hx
    · exact commitActT_cacheOnly hA x hx

theorem goTargets_noLock {c : CmdCfg κ} {strat : Strat} :
    ∀ (ts : List Bytes) (p p' : World κ × List (Bool × List (Call κ))),
      (∀ x ∈ flatSegs p.2, P.lock ∉ callWrites x) → goTargets c strat ts p = .ok p' →
      ∀ x ∈ flatSegs p'.2, P.lock ∉ callWrites x
  | [], p, p', hq, h => by simp only [goTargets] at h; cases h; exact hq
  | t :: r, p, p', hq, h => by
    simp only [goTargets] at h
    split at h
    · cases h
    · cases hv : visit (commitTravT c strat) true (p.1.idx.length + 1) (allStages p.1) t (p.1, []) with
      | error e => rw [hv] at h; cases h
      | ok q =>
        obtain ⟨w', arts⟩ := q
        rw [hv] at h
        simp only at h
        refine goTargets_noLock r _ p' ?_ h
        have harts : ∀ x ∈ arts.flatten, CacheOnly x :=
          visit_inv (commitTravT c strat) (Q := fun s => ∀ x ∈ s.2.flatten, CacheOnly x)
            (fun sp s s' hs ha => commitTravT_cacheOnly sp s s' hs ha) true _ _ t (p.1, []) (w', arts)
            (by intro x hx; simp at hx) hv
        intro x hx
        simp only [flatSegs_append, flatSegs_arts, flatSegs_metas] at hx
        rcases List.mem_append.1 hx with hx | hx
        · rcases List.mem_append.1 hx with hx | hx
          · exact hq x hx
          · exact cacheOnly_not_writes (harts x hx) rfl
        · exact metaPhase_no_lock c w'.idx _ x hx

/-- the calls of `dud commit` between lock and unlock (`[]` when the command fails at the logical level: such
a run has no trace in the model) -/
def commitBody (c : CmdCfg κ) (strat : Strat) (targets : List Bytes) (w : World κ) : List (Call κ) :=
  match cmdCommitGoSegs c strat targets w with
  | .ok (_, segs) => flatSegs segs
  | .error _ => []

/-- `commitBody` is what `cmdCommitGoT` issues strictly between its first and its last call -/
theorem commitBody_trace {c : CmdCfg κ} {strat : Strat} {targets : List Bytes} {w w' : World κ}
    {calls : List (Call κ)} (h : cmdCommitGoT c strat targets w = .ok (w', calls)) :
    calls = .createExcl .lock :: (commitBody c strat targets w ++ [.unlink .lock]) := by
  unfold cmdCommitGoT at h
  unfold commitBody
  cases hs : cmdCommitGoSegs c strat targets w with
  | error e => rw [hs] at h; cases h
  | ok v =>
    obtain ⟨w1, segs⟩ := v
    rw [hs] at h
    simp only [Except.ok.injEq, Prod.mk.injEq] at h
    obtain ⟨-, rfl⟩ := h
    simp [goCalls, flatSegs]

/-- **No call of the body of `dud commit` writes the lock path** — any configuration, any world. -/
theorem commitBody_noLock (c : CmdCfg κ) (strat : Strat) (targets : List Bytes) (w : World κ) :
    ∀ x ∈ commitBody c strat targets w, P.lock ∉ callWrites x := by
  unfold commitBody
  cases hs : cmdCommitGoSegs c strat targets w with
  | error e => intro x hx; simp at hx
  | ok v =>
    obtain ⟨w1, segs⟩ := v
    simp only
    unfold cmdCommitGoSegs at hs
    simp only at hs
    generalize (if targets.isEmpty then allStages w else targets) = ts at hs
    by_cases hts : ts.isEmpty = true
    · rw [if_pos hts] at hs; cases hs
    · rw [if_neg hts] at hs
      exact goTargets_noLock _ _ _ (by intro x hx; simp [flatSegs] at hx) hs

/-! ## `dud checkout` -/

/-- every write of the trace is a workspace path -/
def WsW (calls : List (Call κ)) : Prop := ∀ c ∈ calls, ∀ p ∈ callWrites c, ∃ r, p = P.ws r

theorem WsW.nil : WsW ([] : List (Call κ)) := by intro c hc; cases hc

theorem WsW.append {l1 l2 : List (Call κ)} (h1 : WsW l1) (h2 : WsW l2) : WsW (l1 ++ l2) := by
  intro c hc
  rcases List.mem_append.1 hc with hc | hc
  · exact h1 c hc
  · exact h2 c hc

theorem WsW.cons_mkdir (q : List Name) {l : List (Call κ)} (h : WsW l) : WsW (Call.mkdir (.ws q) :: l) := by
  intro c hc
  rcases List.mem_cons.1 hc with rfl | hc
  · intro p hp; simp [callWrites, callPaths] at hp; exact ⟨q, hp⟩
  · exact h c hc

theorem WsW.noLock {l : List (Call κ)} (h : WsW l) : ∀ x ∈ l, P.lock ∉ callWrites x := by
  intro x hx hmem
  obtain ⟨r, hr⟩ := h x hx _ hmem
  cases hr

theorem checkoutFileT_wsW {t : TCfg κ} {pre : List Name} {cur : Option (Node κ)} {sum : Digest}
    {s : Store κ} {r : Node κ} {calls : List (Call κ)}
    (h : checkoutFileT t (.ws pre) cur sum s = .ok (r, calls)) : WsW calls := by
  rcases checkoutFileT_cases h with ⟨-, rfl⟩ | ⟨o, -, -, rfl, -⟩ | ⟨o, -, -, -, rfl, -⟩
  · exact WsW.nil
  · intro c hc p hp; exact ⟨pre, checkoutFileCalls_writes _ _ _ _ _ _ c hc p hp⟩
  · intro c hc p hp; exact ⟨pre, checkoutFileCalls_writes _ _ _ _ _ _ c hc p hp⟩

theorem checkoutChildrenT_wsW
    {f : List Name → Option (Node κ) → Child → Except Err (Node κ × List (Call κ))}
    (hf : ∀ pre cur c r calls, f pre cur c = .ok (r, calls) → WsW calls) (pre : List Name) :
    ∀ (cs : List Child) (es es' : List (Name × Node κ)) (calls : List (Call κ)),
      checkoutChildrenT f pre es cs = .ok (es', calls) → WsW calls
  | [], es, es', calls, h => by
    simp only [checkoutChildrenT, Except.ok.injEq, Prod.mk.injEq] at h
    obtain ⟨-, rfl⟩ := h
    exact WsW.nil
  | c :: cs, es, es', calls, h => by
    simp only [checkoutChildrenT] at h
    cases h1 : f (pre ++ [c.name]) (alookup es c.name) c with
    | error e => rw [h1] at h; cases h
    | ok v =>
      obtain ⟨n, calls1⟩ := v
      rw [h1] at h
      simp only at h
      cases h2 : checkoutChildrenT f pre (setEntry es c.name n) cs with
      | error e => rw [h2] at h; cases h
      | ok v =>
        obtain ⟨es2, calls2⟩ := v
        rw [h2] at h
        simp only [Except.ok.injEq, Prod.mk.injEq] at h
        obtain ⟨-, rfl⟩ := h
        exact WsW.append (hf _ _ _ _ _ h1) (checkoutChildrenT_wsW hf pre cs _ _ _ h2)

theorem checkoutNodeT_wsW (t : TCfg κ) (s : Store κ) :
    ∀ (fuel : Nat) (pre : List Name) (cur : Option (Node κ)) (c : Child) (r : Node κ) (calls : List (Call κ)),
      checkoutNodeT t s fuel pre cur c = .ok (r, calls) → WsW calls
  | 0, _, _, _, _, _, h => by simp [checkoutNodeT] at h
  | fuel + 1, pre, cur, c, r, calls, h => by
    rcases checkoutNodeT_inv h with ⟨-, cs, es, es', calls1, -, hT, -, hc⟩ | ⟨-, hF⟩
    · have h1 := checkoutChildrenT_wsW (checkoutNodeT_wsW t s fuel) pre cs es es' calls1 hT
      rcases hc with ⟨-, rfl⟩ | ⟨-, -, rfl⟩
      · exact h1
      · exact WsW.cons_mkdir pre h1
    · exact checkoutFileT_wsW hF

theorem parentMkdirs_wsW (ws : Node κ) (comps : List Name) : WsW (parentMkdirs ws comps) := by
  intro c hc p hp
  simp only [parentMkdirs, List.mem_map, List.mem_filter] at hc
  obtain ⟨q, -, rfl⟩ := hc
  simp [callWrites, callPaths] at hp
  exact ⟨q, hp⟩

theorem checkoutArtWT_wsW {c : CmdCfg κ} {strat : Strat} {a : Art} {w w' : World κ}
    {calls : List (Call κ)} (h : checkoutArtWT c strat a w = .ok (w', calls)) : WsW calls := by
  unfold checkoutArtWT at h
  simp only at h
  cases hT : checkoutNodeT (c.tc strat) w.store c.cfg.fuel (Path.comps a.path)
      (getPath w.ws (Path.comps a.path)) a.child with
  | error e => rw [hT] at h; cases h
  | ok v =>
    obtain ⟨n, calls1⟩ := v
    rw [hT] at h
    simp only at h
    split at h
    · cases h
    · simp only [Except.ok.injEq, Prod.mk.injEq] at h
      obtain ⟨-, rfl⟩ := h
      exact WsW.append (parentMkdirs_wsW _ _) (checkoutNodeT_wsW _ _ _ _ _ _ _ _ hT)

theorem checkoutArtsT_wsW {c : CmdCfg κ} {strat : Strat} :
    ∀ (as : List Art) (w w' : World κ) (segs : List (List (Call κ))),
      checkoutArtsT c strat as w = .ok (w', segs) → WsW segs.flatten
  | [], w, w', segs, h => by
    simp only [checkoutArtsT, Except.ok.injEq, Prod.mk.injEq] at h
    obtain ⟨-, rfl⟩ := h
    exact WsW.nil
  | a :: as, w, w', segs, h => by
    simp only [checkoutArtsT] at h
    split at h
    · exact checkoutArtsT_wsW as w w' segs h
    · cases h1 : checkoutArtWT c strat a w with
      | error e => rw [h1] at h; cases h
      | ok v =>
        obtain ⟨w1, calls1⟩ := v
        rw [h1] at h
        simp only at h
        cases h2 : checkoutArtsT c strat as w1 with
        | error e => rw [h2] at h; cases h
        | ok v =>
          obtain ⟨w2, segs2⟩ := v
          rw [h2] at h
          simp only [Except.ok.injEq, Prod.mk.injEq] at h
          obtain ⟨-, rfl⟩ := h
          simp only [List.flatten_cons]
          exact WsW.append (checkoutArtWT_wsW h1) (checkoutArtsT_wsW as w1 w2 segs2 h2)

theorem checkoutTravT_wsW {c : CmdCfg κ} {strat : Strat} (sp : Bytes)
    (s s' : World κ × List (List (Call κ))) (hq : WsW s.2.flatten)
    (h : (checkoutTravT c strat).act sp s = .ok s') : WsW s'.2.flatten := by
  simp only [checkoutTravT] at h
  cases hA : checkoutActT c strat sp s.1 with
  | error e => rw [hA] at h; cases h
  | ok v =>
    obtain ⟨w', segs⟩ := v
    rw [hA] at h
    simp only [Except.ok.injEq] at h
    subst h
    simp only [List.flatten_append]
    refine WsW.append hq ?_
    unfold checkoutActT at hA
    cases hst : s.1.stage sp with
    | error e => rw [hst] at hA; cases hA
    | ok stg =>
      rw [hst] at hA
      simp only at hA
      cases h1 : checkoutArtsT c strat (sortArts stg.outputs) s.1 with
      | error e => rw [h1] at hA; cases hA
      | ok v =>
        obtain ⟨w1, segs1⟩ := v
        rw [h1] at hA
        simp only [Except.ok.injEq, Prod.mk.injEq] at hA
        obtain ⟨-, rfl⟩ := hA
        exact checkoutArtsT_wsW _ _ _ _ h1

/-- the calls of `dud checkout` between lock and unlock (`[]` when the command fails at the logical level) -/
def checkoutBody (c : CmdCfg κ) (strat : Strat) (single : Bool) (targets : List Bytes) (w : World κ) :
    List (Call κ) :=
  match cmdCheckoutSegs c strat single targets w with
  | .ok (_, segs) => segs.flatten
  | .error _ => []

/-- `checkoutBody` is what `cmdCheckoutT` issues strictly between its first and its last call -/
theorem checkoutBody_trace {c : CmdCfg κ} {strat : Strat} {single : Bool} {targets : List Bytes}
    {w w' : World κ} {calls : List (Call κ)}
    (h : cmdCheckoutT c strat single targets w = .ok (w', calls)) :
    calls = .createExcl .lock :: (checkoutBody c strat single targets w ++ [.unlink .lock]) := by
  unfold cmdCheckoutT at h
  unfold checkoutBody
  cases hs : cmdCheckoutSegs c strat single targets w with
  | error e => rw [hs] at h; cases h
  | ok v =>
    obtain ⟨w1, segs⟩ := v
    rw [hs] at h
    simp only [Except.ok.injEq, Prod.mk.injEq] at h
    obtain ⟨-, rfl⟩ := h
    simp [coCalls]

/-- **Every call of the body of `dud checkout` writes workspace paths only** — any configuration, any
world; in particular none writes the lock path. -/
theorem checkoutBody_wsW (c : CmdCfg κ) (strat : Strat) (single : Bool) (targets : List Bytes)
    (w : World κ) : WsW (checkoutBody c strat single targets w) := by
  unfold checkoutBody
  cases hs : cmdCheckoutSegs c strat single targets w with
  | error e => exact WsW.nil
  | ok v =>
    obtain ⟨w1, segs⟩ := v
    simp only
    unfold cmdCheckoutSegs at hs
    split at hs
    · cases hs
    · simp only at hs
      exact perTargetP_inv (Q := fun p => WsW p.2.flatten)
        (fun t q q' hq hv => visit_inv (checkoutTravT c strat) (Q := fun p => WsW p.2.flatten)
          (fun sp a b ha hb => checkoutTravT_wsW sp a b ha hb) _ _ _ t q q' hq hv)
        _ (fresh w, []) (w1, segs) WsW.nil hs

theorem checkoutBody_noLock (c : CmdCfg κ) (strat : Strat) (single : Bool) (targets : List Bytes)
    (w : World κ) : ∀ x ∈ checkoutBody c strat single targets w, P.lock ∉ callWrites x :=
  (checkoutBody_wsW c strat single targets w).noLock

end Dud.Sys.Conc
