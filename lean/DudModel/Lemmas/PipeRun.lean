import DudModel.PipeSpec
import DudModel.Props.C09
/-!
# Lemmas for the `Hence` clause of C09, run side

* `ExecFrameOn`, `runInv_step_on`, `cmdRun_sound_on`: `run_sound` with the frame condition on the
  stage commands relativised to the stages of ONE index (an `exec` that implements a `Fun` cannot
  satisfy `ExecFrame'` for every index, only for those whose outputs do not overlap);
* `ExecIs.frameOn`: `ExecIs` implies the relativised frame condition on a `PipeOK` index;
* `FInv`, `fInv_step`: the invariant of the run traversal that carries `FreshStage` of every
  executed stage to the end of the run.
-/
namespace Dud

open WT

variable {κ : Type}

/-! ## logical content and what it depends on -/

theorem logicalAt_congr (cfg : Cfg κ) {w1 w2 : World κ} {p : Bytes}
    (h1 : getPath w1.ws (Path.comps p) = getPath w2.ws (Path.comps p)) (h2 : w1.store = w2.store) :
    logicalAt cfg w1 p = logicalAt cfg w2 p := by
  simp only [logicalAt, h1, h2]

theorem insOf_congr (cfg : Cfg κ) {w1 w2 : World κ} {stg : Stage}
    (h : ∀ a, a ∈ stg.inputs → logicalAt cfg w1 a.path = logicalAt cfg w2 a.path) :
    insOf cfg w1 stg = insOf cfg w2 stg := by
  simp only [insOf]
  generalize stg.inputs = l at h
  induction l with
  | nil => rfl
  | cons a r ih =>
    simp only [List.filterMap_cons]
    rw [h a List.mem_cons_self, ih (fun b hb => h b (List.mem_cons_of_mem _ hb))]

/-- `FreshStage` only looks at the logical content at the inputs and outputs of the stage -/
theorem FreshStage.congr {cfg : Cfg κ} {F : Fun κ} {w1 w2 : World κ} {stg : Stage}
    (hin : ∀ a, a ∈ stg.inputs → logicalAt cfg w1 a.path = logicalAt cfg w2 a.path)
    (hout : ∀ a, a ∈ stg.outputs → logicalAt cfg w1 a.path = logicalAt cfg w2 a.path)
    (h : FreshStage cfg F w2 stg) : FreshStage cfg F w1 stg := by
  intro a ha
  rw [hout a ha, insOf_congr cfg hin]
  exact h a ha

/-- the inputs as a finite map: the logical content at `p` if `p` is an input path -/
theorem alookup_insOf (cfg : Cfg κ) (w : World κ) (stg : Stage) (p : Bytes) :
    alookup (insOf cfg w stg) p =
      if p ∈ stg.inputs.map (·.path) then logicalAt cfg w p else none := by
  simp only [insOf]
  generalize stg.inputs = l
  induction l with
  | nil => simp [alookup]
  | cons a r ih =>
    simp only [List.filterMap_cons, List.map_cons, List.mem_cons]
    by_cases hp : a.path = p
    · subst hp
      simp only [true_or, if_true]
      cases hl : logicalAt cfg w a.path with
      | none =>
        simp only [Option.map_none]
        rw [ih]
        split
        · exact hl
        · rfl
      | some n => simp [alookup]
    · have hp' : ¬ p = a.path := fun h => hp h.symm
      simp only [hp', false_or]
      cases hl : logicalAt cfg w a.path with
      | none => simpa using ih
      | some n =>
        have : (a.path == p) = false := by simpa using hp
        simp only [Option.map_some, alookup, this, Bool.false_eq_true, if_false]
        exact ih

variable [DecidableEq κ]

theorem matchShort_congr' (cfg : Cfg κ) (w1 w2 : World κ) (a : Art)
    (h1 : getPath w1.ws (Path.comps a.path) = getPath w2.ws (Path.comps a.path))
    (h2 : w1.store = w2.store) : matchShort cfg w1 a = matchShort cfg w2 a := by
  simp only [matchShort, h1, h2]

/-! ## `run_sound` relative to one index -/

/-- `ExecFrame'` for the stages of the index `idx` only, and with "another stage" read as "a stage
with another stage path" -/
def ExecFrameOn (cfg : Cfg κ) (exec : Exec κ) (idx : Index) : Prop :=
  ExecFrame exec ∧
  ∀ sp stg w w1, w.idx = idx → alookup idx sp = some stg → exec stg w = .ok w1 →
    ∀ sp' stg', sp' ≠ sp → alookup idx sp' = some stg' →
    ∀ a, (a ∈ sortArts stg'.outputs ∨ a ∈ sortArts (plainInputs cfg idx stg')) →
      matchShort cfg w1 a = matchShort cfg w a

/-- `runInv_step` of `Props/C09.lean` under the relativised frame condition -/
theorem runInv_step_on (cfg : Cfg κ) (exec : Exec κ) (idx : Index) (hex : ExecFrameOn cfg exec idx)
    (sp : Bytes) (p p' : World κ × List Bytes) (hi : p.1.idx = idx) (hq : RunInv cfg idx p)
    (hnd : (alookup p.1.ran sp).isSome = false)
    (hown : ∀ o, o ∈ ownIdx cfg idx sp → (alookup p.1.ran o).isSome = true)
    (h : (runTrav cfg exec true).logged.act sp p = .ok p') : RunInv cfg idx p' := by
  obtain ⟨w, l⟩ := p
  obtain ⟨s, hact', rfl⟩ := logged_act_inv h
  simp only at hi hnd hown hact' ⊢
  subst hi
  obtain ⟨q1, q2, q3, q4, q5⟩ := hq
  simp only at q1 q2 q3 q4 q5
  have hact : runAct cfg exec true sp w = .ok s := hact'
  obtain ⟨stg, d, hs, hd, h1, h2⟩ := runAct_inv cfg exec true sp w s hact
  have hne_done : ∀ x, (alookup w.ran x).isSome = true → x ≠ sp := by
    intro x hx hxs; subst hxs; rw [hnd] at hx; cases hx
  obtain ⟨hidx, _, b, hran⟩ := runAct_frame cfg exec hex.1 true sp w s hact
  have hmono : ∀ x, (alookup w.ran x).isSome = true → (alookup s.ran x).isSome = true := by
    intro x hx; rw [hran, isSome_alookup_cons, hx, Bool.or_true]
  have hsp : (alookup s.ran sp).isSome = true := by
    rw [hran, isSome_alookup_cons]; simp
  have hdid : ∀ x, x ≠ sp → didRun s x = didRun w x := by
    intro x hx; simp only [didRun, hran, alookup_cons_ne' sp x b w.ran hx]
  have hdidsp : didRun s sp = b := by simp [didRun, hran, alookup]
  have hcase : (s.log = w.log ∧ b = d ∧ (d && stg.hasCmd) = false ∧
        ∀ st', UpToDate cfg s st' = UpToDate cfg w st') ∨
      (s.log = w.log ++ [sp] ∧ b = true ∧
        ∀ x stgx, x ∈ l → alookup w.idx x = some stgx → UpToDate cfg w stgx → UpToDate cfg s stgx) := by
    cases hx : (d && stg.hasCmd) with
    | false =>
      have hw := h2 hx
      refine .inl ⟨by rw [hw], ?_, rfl, fun st' => by rw [hw]; rfl⟩
      rw [hw] at hran
      simp only [List.cons.injEq, Prod.mk.injEq] at hran
      exact hran.1.2.symm
    | true =>
      obtain ⟨w1, he, hw⟩ := h1 hx
      obtain ⟨_, _, f3, _, _⟩ := hex.1 stg w w1 he
      refine .inr ⟨by rw [hw]; simp only [f3], ?_, ?_⟩
      · rw [hw] at hran
        simp only [List.cons.injEq, Prod.mk.injEq] at hran
        exact hran.1.2.symm
      · intro x stgx hxl hsx ⟨u1, u2, u3, u4⟩
        have hm : ∀ a, (a ∈ sortArts stgx.outputs ∨ a ∈ sortArts (plainInputs cfg w.idx stgx)) →
            matchShort cfg s a = matchShort cfg w a := by
          intro a ha
          rw [← hex.2 sp stg w w1 rfl hs he x stgx (hne_done x (q1 x hxl)) hsx a ha, hw]; rfl
        refine ⟨u1, ?_, ?_, ?_⟩
        · intro a ha
          rw [hidx] at ha
          rw [hm a (.inr ha)]; exact u2 a ha
        · intro a ha
          rw [hm a (.inl ha)]; exact u3 a ha
        · rw [hidx]; exact u4
  refine ⟨?_, ?_, ?_, ?_, ?_⟩
  · intro x hx
    rcases List.mem_append.1 hx with hx | hx
    · exact hmono x (q1 x hx)
    · rw [List.mem_singleton] at hx; subst hx; exact hsp
  · intro x hx o ho
    rcases List.mem_append.1 hx with hx | hx
    · exact hmono o (q2 x hx o ho)
    · rw [List.mem_singleton] at hx; subst hx; exact hmono o (hown o ho)
  · intro x hxl
    rcases hcase with ⟨hlog, _⟩ | ⟨hlog, hb, _⟩
    · rw [hlog] at hxl
      have := q3 x hxl
      rw [hdid x (hne_done x (didRun_isSome this))]; exact this
    · rw [hlog] at hxl
      rcases List.mem_append.1 hxl with hxl | hxl
      · have := q3 x hxl
        rw [hdid x (hne_done x (didRun_isSome this))]; exact this
      · rw [List.mem_singleton] at hxl; rw [hxl, hdidsp, hb]
  · intro x hx stgx hsx hdx hcx
    rcases List.mem_append.1 hx with hx | hx
    · have hxsp := hne_done x (q1 x hx)
      rw [hdid x hxsp] at hdx
      have := q4 x hx stgx hsx hdx hcx
      rcases hcase with ⟨hlog, _⟩ | ⟨hlog, _⟩
      · rw [hlog]; exact this
      · rw [hlog]; exact List.mem_append_left _ this
    · rw [List.mem_singleton] at hx
      rw [hx] at hsx hdx
      have : stgx = stg := by rw [hs] at hsx; cases hsx; rfl
      subst this
      rcases hcase with ⟨_, hb, hdc, _⟩ | ⟨hlog, _⟩
      · rw [hdidsp, hb] at hdx
        rw [hdx, hcx] at hdc; cases hdc
      · rw [hlog, hx]; simp
  · intro x hx stgx hsx hdx
    rcases List.mem_append.1 hx with hx | hx
    · have hxsp := hne_done x (q1 x hx)
      rw [hdid x hxsp] at hdx
      obtain ⟨g0, g1, g2⟩ := q5 x hx stgx hsx hdx
      refine ⟨g0, ?_, fun o ho => ?_⟩
      · rcases hcase with ⟨_, _, _, hup⟩ | ⟨_, _, hup⟩
        · rw [hup]; exact g1
        · exact hup x stgx hx hsx g1
      · rw [hdid o (hne_done o (q2 x hx o ho))]; exact g2 o ho
    · rw [List.mem_singleton] at hx
      rw [hx] at hsx hdx
      have : stgx = stg := by rw [hs] at hsx; cases hsx; rfl
      subst this
      rcases hcase with ⟨_, hb, _, hup⟩ | ⟨_, hb, _⟩
      · rw [hdidsp, hb] at hdx
        subst hdx
        obtain ⟨g1, g2, g3, g4, g5, g6⟩ := (runDecision_false cfg true w stgx).1 hd
        refine ⟨g1, by rw [hup]; exact ⟨g2, g3, g6, g5⟩, fun o ho => ?_⟩
        rw [hx] at ho
        rw [hdid o (hne_done o (hown o ho))]
        simp only [upRan, Bool.true_and, List.any_eq_false] at g4
        have := g4 o (ownIdx_subset_upOwners cfg w.idx sp stgx hs o ho)
        simpa using this
      · rw [hdidsp, hb] at hdx; cases hdx

/-- `cmdRun_sound` of `Props/C09.lean` under the relativised frame condition -/
theorem cmdRun_sound_on (cfg : Cfg κ) (exec : Exec κ) (targets : List Bytes) (w w' : World κ)
    (hex : ExecFrameOn cfg exec w.idx) (h : cmdRun cfg exec false targets w = .ok w') :
    w'.idx = w.idx ∧
    ∀ x stg, (alookup w'.ran x).isSome = true → alookup w.idx x = some stg → RunSound cfg w.idx w' x stg := by
  obtain ⟨l', hl, hidx, _, _, _, hdone, _⟩ := cmdRun_spec cfg exec hex.1 false targets w w' h
  simp only [Bool.not_false] at hl
  have hq0 : RunInv cfg w.idx (fresh w, []) := by
    refine ⟨by simp, by simp, ?_, by simp, by simp⟩
    simp [fresh]
  have hq := perTarget_preserves (Q := RunInv cfg w.idx) (runTrav_lawfulOn cfg exec hex.1 true w.idx)
    (fun w => w.idx.length + 1) allStages _
    (fun sp p p' _ hi hq hnd hown hact =>
      runInv_step_on cfg exec w.idx hex sp p p' hi hq hnd (hown rfl) hact)
    (fresh w, []) (w', l') rfl hq0 hl
  refine ⟨hidx, fun x stg hx hsx => ?_⟩
  have hxl : x ∈ l' := by
    have := hdone x
    rw [hx] at this
    simpa using this.symm
  exact hq.sound x stg hxl hsx

/-! ## what a command implementing a `Fun` leaves alone -/

omit [DecidableEq κ] in
/-- the stage owning an input is a stage of the index, the owning artifact one of its outputs -/
theorem owner_lookup {cfg : Cfg κ} {idx : Index} (hok : PipeOK cfg idx) {p : Bytes} {o : Bytes} {oa : Art}
    (h : findOwner cfg.walkAccumulates idx p = some (o, oa)) :
    ∃ stgo, alookup idx o = some stgo ∧ oa ∈ stgo.outputs := by
  obtain ⟨stgo, hm, hoa⟩ := findOwner_mem _ _ _ _ _ h
  exact ⟨stgo, alookup_of_mem_nodup hok.keys hm, hoa⟩

omit [DecidableEq κ] in
theorem owner_mem_ownIdx {cfg : Cfg κ} {idx : Index} {x : Bytes} {stgx : Stage}
    (hsx : alookup idx x = some stgx) {b : Art} (hb : b ∈ stgx.inputs) {o : Bytes} {oa : Art}
    (h : findOwner cfg.walkAccumulates idx b.path = some (o, oa)) : o ∈ ownIdx cfg idx x := by
  rw [mem_ownIdx]
  exact ⟨stgx, hsx, b.path, List.mem_map.2 ⟨b, hb, rfl⟩, by rw [h]; rfl⟩

omit [DecidableEq κ] in
/-- an input of stage `x` lies apart from every output of a stage `y` that is not an owner of `x` -/
theorem input_apart {cfg : Cfg κ} {idx : Index} (hok : PipeOK cfg idx) {x y : Bytes} {stgx stgy : Stage}
    (hsx : alookup idx x = some stgx) (hsy : alookup idx y = some stgy)
    (hown : ∀ o, o ∈ ownIdx cfg idx x → o ≠ y) {b : Art} (hb : b ∈ stgx.inputs) {a : Art}
    (ha : a ∈ stgy.outputs) : Apart (Path.comps a.path) (Path.comps b.path) := by
  cases ho : findOwner cfg.walkAccumulates idx b.path with
  | none => exact hok.plain_apart x stgx hsx b hb ho y stgy hsy a ha
  | some r =>
    obtain ⟨o, oa⟩ := r
    obtain ⟨stgo, hso, hoa⟩ := owner_lookup hok ho
    have hne : y ≠ o := fun e => hown o (owner_mem_ownIdx hsx hb ho) e.symm
    exact (hok.apart_across y o stgy stgo hne hsy hso a ha oa hoa).of_prefix_right
      (hok.owner_contains x stgx hsx b hb o oa ho)

omit [DecidableEq κ] in
/-- executing the command of `sp` leaves the inputs of every stage none of whose owners is `sp` -/
theorem exec_keeps_inputs {cfg : Cfg κ} {F : Fun κ} {exec : Exec κ} (hex : ExecIs cfg F exec)
    {idx : Index} (hok : PipeOK cfg idx) {v w1 : World κ} {sp x : Bytes} {stg stgx : Stage}
    (hs : alookup idx sp = some stg) (he : exec stg v = .ok w1) (hsx : alookup idx x = some stgx)
    (hown : ∀ o, o ∈ ownIdx cfg idx x → o ≠ sp) {b : Art} (hb : b ∈ stgx.inputs) :
    getPath w1.ws (Path.comps b.path) = getPath v.ws (Path.comps b.path) :=
  hex.others stg v w1 he _ (fun _ ha => input_apart hok hsx hs hown hb ha)

omit [DecidableEq κ] in
/-- … and the outputs of every other stage -/
theorem exec_keeps_outputs {cfg : Cfg κ} {F : Fun κ} {exec : Exec κ} (hex : ExecIs cfg F exec)
    {idx : Index} (hok : PipeOK cfg idx) {v w1 : World κ} {sp x : Bytes} {stg stgx : Stage}
    (hs : alookup idx sp = some stg) (he : exec stg v = .ok w1) (hsx : alookup idx x = some stgx)
    (hne : x ≠ sp) {b : Art} (hb : b ∈ stgx.outputs) :
    getPath w1.ws (Path.comps b.path) = getPath v.ws (Path.comps b.path) :=
  hex.others stg v w1 he _
    (fun a ha => hok.apart_across sp x stg stgx (Ne.symm hne) hs hsx a ha b hb)

/-- **`ExecIs` implies the frame condition of `run_sound`** on an index whose outputs do not overlap
and whose un-owned inputs lie apart from all outputs -/
theorem ExecIs.frameOn {cfg : Cfg κ} {F : Fun κ} {exec : Exec κ} (hex : ExecIs cfg F exec)
    {idx : Index} (hok : PipeOK cfg idx) : ExecFrameOn cfg exec idx := by
  refine ⟨hex.frame, ?_⟩
  intro sp stg w w1 _ hs he sp' stg' hne hs' a ha
  refine matchShort_congr' cfg w1 w a ?_ (hex.frame stg w w1 he).2.2.2.2
  refine hex.others stg w w1 he _ (fun b hb => ?_)
  rcases ha with ha | ha
  · exact hok.apart_across sp sp' stg stg' (Ne.symm hne) hs hs' b hb a (mem_of_mem_sortArts ha)
  · obtain ⟨hin, hn⟩ := List.mem_filter.1 (mem_of_mem_sortArts ha)
    exact hok.plain_apart sp' stg' hs' a hin (by simpa using hn) sp stg hs b hb

/-! ## the invariant that carries `FreshStage` through the run -/

/-- Invariant of the run traversal started in `w0`, on the logged state `(v, l)`: the cache is
untouched; the command log lists only stages that were looked at; only paths overlapping an output
of an executed stage have changed; every executed stage is `FreshStage` NOW. -/
def FInv (cfg : Cfg κ) (F : Fun κ) (idx : Index) (w0 : World κ) (p : World κ × List Bytes) : Prop :=
  p.1.store = w0.store ∧
  (∀ x, x ∈ p.1.log → x ∈ p.2) ∧
  (∀ q, (∀ y, y ∈ p.1.log → ∀ stgy, alookup idx y = some stgy → ∀ b, b ∈ stgy.outputs →
      Apart (Path.comps b.path) q) → getPath p.1.ws q = getPath w0.ws q) ∧
  (∀ x, x ∈ p.1.log → ∀ stg, alookup idx x = some stg → FreshStage cfg F p.1 stg)

theorem fInv_step (cfg : Cfg κ) (F : Fun κ) (exec : Exec κ) (hex : ExecIs cfg F exec) (idx : Index)
    (hok : PipeOK cfg idx) (w0 : World κ) (sp : Bytes) (p p' : World κ × List Bytes)
    (hi : p.1.idx = idx) (hr : RunInv cfg idx p) (hq : FInv cfg F idx w0 p)
    (hnd : (alookup p.1.ran sp).isSome = false)
    (hown : ∀ o, o ∈ ownIdx cfg idx sp → (alookup p.1.ran o).isSome = true)
    (h : (runTrav cfg exec true).logged.act sp p = .ok p') : FInv cfg F idx w0 p' := by
  obtain ⟨v, l⟩ := p
  obtain ⟨s, hact', rfl⟩ := logged_act_inv h
  simp only at hi hnd hown hact' ⊢
  subst hi
  obtain ⟨q1, q2, _, _, _⟩ := hr
  obtain ⟨f1, f2, f4, f5⟩ := hq
  simp only at q1 q2 f1 f2 f4 f5
  have hact : runAct cfg exec true sp v = .ok s := hact'
  obtain ⟨stg, d, hs, hd, h1, h2⟩ := runAct_inv cfg exec true sp v s hact
  have hne_done : ∀ x, (alookup v.ran x).isSome = true → x ≠ sp := by
    intro x hx hxs; subst hxs; rw [hnd] at hx; cases hx
  cases hx : (d && stg.hasCmd) with
  | false =>
    have hw := h2 hx
    subst hw
    exact ⟨f1, fun x hx => List.mem_append_left _ (f2 x hx), f4, f5⟩
  | true =>
    obtain ⟨w1, he, hw⟩ := h1 hx
    obtain ⟨e1, e2, e3, e4, e5⟩ := hex.frame stg v w1 he
    subst hw
    have hlog : ∀ x, x ∈ w1.log ++ [sp] ↔ x ∈ v.log ∨ x = sp := by
      intro x; rw [e3, List.mem_append, List.mem_singleton]
    have hownsp : ∀ o, o ∈ ownIdx cfg v.idx sp → o ≠ sp := fun o ho => hne_done o (hown o ho)
    refine ⟨e5.trans f1, ?_, ?_, ?_⟩
    · intro x hx
      rcases (hlog x).1 hx with hx | hx
      · exact List.mem_append_left _ (f2 x hx)
      · subst hx; simp
    · intro q hq
      show getPath w1.ws q = getPath w0.ws q
      rw [hex.others stg v w1 he q (fun a ha => hq sp ((hlog sp).2 (.inr rfl)) stg hs a ha)]
      exact f4 q (fun y hy => hq y ((hlog y).2 (.inl hy)))
    · intro x hx stgx hsx
      rcases (hlog x).1 hx with hx | hx
      · -- executed earlier: neither its inputs nor its outputs are touched
        have hxl := f2 x hx
        have hxsp : x ≠ sp := hne_done x (q1 x hxl)
        refine FreshStage.congr (w2 := v) ?_ ?_ (f5 x hx stgx hsx)
        · intro b hb
          exact logicalAt_congr cfg (exec_keeps_inputs hex hok hs he hsx
            (fun o ho => hne_done o (q2 x hxl o ho)) hb) e5
        · intro b hb
          exact logicalAt_congr cfg (exec_keeps_outputs hex hok hs he hsx hxsp hb) e5
      · -- executed now
        subst hx
        rw [hs] at hsx
        cases hsx
        intro a ha
        have hins : insOf cfg { w1 with ran := (x, true) :: w1.ran, log := w1.log ++ [x] } stg
            = insOf cfg v stg :=
          insOf_congr cfg (fun b hb =>
            logicalAt_congr cfg (exec_keeps_inputs hex hok hs he hs hownsp hb) e5)
        rw [hins]
        exact hex.outs stg v w1 he a ha

omit [DecidableEq κ] in
/-- a stage that was not executed, and none of whose owners was executed, is as fresh as it was -/
theorem FInv.not_run {cfg : Cfg κ} {F : Fun κ} {idx : Index} (hok : PipeOK cfg idx) {w0 w' : World κ}
    {l' : List Bytes} (hq : FInv cfg F idx w0 (w', l')) {x : Bytes} {stgx : Stage}
    (hsx : alookup idx x = some stgx) (hx : x ∉ w'.log)
    (hown : ∀ o, o ∈ ownIdx cfg idx x → o ∉ w'.log)
    (h : FreshStage cfg F w0 stgx) : FreshStage cfg F w' stgx := by
  obtain ⟨f1, _, f4, _⟩ := hq
  simp only at f1 f4
  refine FreshStage.congr (w2 := w0) ?_ ?_ h
  · intro b hb
    refine logicalAt_congr cfg (f4 _ (fun y hy stgy hsy a ha => ?_)) f1
    exact input_apart hok hsx hsy (fun o ho e => hown o ho (e ▸ hy)) hb ha
  · intro b hb
    refine logicalAt_congr cfg (f4 _ (fun y hy stgy hsy a ha => ?_)) f1
    have hne : y ≠ x := fun e => hx (e ▸ hy)
    exact hok.apart_across y x stgy stgx hne hsy hsx a ha b hb

end Dud
