import DudModel.Lemmas.FaultCmd
import DudModel.Lemmas.RetryWorld
/-!
# The logical world a faulted file system is the abstraction of (lemmas for `Props/C04cmd.lean`, part b)

`faultWorld c w0 w' fs` reads a world back from the file system `fs` left by a failed `dud commit` of `w0`
(whose unfailed run ends in `w'`):

* workspace `readBack`: the original tree, a regular file being replaced by the link the file system shows
  at its path, if it shows one (a file already moved into the cache);
* cache `storeBack`: the objects of the final cache that are on disk;
* index `idxBack`: per stage the final record if the stage file on disk holds its encoding, the original
  record otherwise (a stage file is never torn: `cmdCommit_fault_stage_files_atomic`).

Lemmas: `getPath_readBack`, `readBack_id`, `ahead_readBack` (the tree read back is a partly committed
version of the original one), `storeBack` and `idxBack` look-ups, cache objects are never removed by an
allowed call (`obj_persists`), a held tree has the blobs of its regular files (`holds_tracked`).
-/
namespace Dud.Sys
open Dud Dud.Retry
variable {κ : Type}

/-! ## association lists -/

theorem alookup_filter_key {α β : Type} [BEq α] [LawfulBEq α] (p : α → Bool) :
    ∀ (l : List (α × β)) (k : α),
      alookup (l.filter (fun e => p e.1)) k = if p k then alookup l k else none
  | [], k => by simp [alookup]
  | (a, b) :: r, k => by
    have ih := alookup_filter_key p r k
    by_cases hak : a = k
    · subst hak
      cases hp : p a with
      | true => simp [List.filter, hp, alookup]
      | false =>
        simp only [List.filter, hp]
        rw [ih, hp]
        simp
    · cases hp : p a with
      | true =>
        simp only [List.filter, hp, alookup]
        rw [ih]
        simp [hak]
      | false =>
        simp only [List.filter, hp, alookup]
        rw [ih]
        simp [hak]

theorem alookup_of_mem_nodup {β : Type} : ∀ {l : List (Bytes × β)} {k : Bytes} {v : β},
    (l.map (·.1)).Nodup → (k, v) ∈ l → alookup l k = some v
  | (a, b) :: r, k, v, hn, hm => by
    simp only [List.map_cons, List.nodup_cons] at hn
    rcases List.mem_cons.1 hm with h | h
    · cases h; simp [alookup]
    · have hne : a ≠ k := fun e => hn.1 (e ▸ List.mem_map.2 ⟨(k, v), h, rfl⟩)
      simp only [alookup, beq_iff_eq, hne, if_false]
      exact alookup_of_mem_nodup hn.2 h

/-! ## reading the workspace back -/

mutual
/-- the original tree as the file system shows it: a regular file whose path now holds a link into the
cache has been moved there -/
def readBack (fs : FS κ) : List Name → Node κ → Node κ
  | pre, .file c => match fs.get (.ws pre) with
    | some (.link (.obj d)) => .link (.obj d)
    | _ => .file c
  | pre, .dir es => .dir (readBackList fs pre es)
  | _, .link l => .link l
  | _, .other => .other
def readBackList (fs : FS κ) : List Name → List (Name × Node κ) → List (Name × Node κ)
  | _, [] => []
  | pre, (nm, n) :: r => (nm, readBack fs (pre ++ [nm]) n) :: readBackList fs pre r
end

theorem alookup_readBackList (fs : FS κ) (pre : List Name) : ∀ (es : List (Name × Node κ)) (nm : Name),
    alookup (readBackList fs pre es) nm = (alookup es nm).map (readBack fs (pre ++ [nm]))
  | [], _ => rfl
  | (k, n) :: r, nm => by
    simp only [readBackList, alookup]
    by_cases hk : k = nm
    · subst hk; simp
    · simp only [beq_iff_eq, hk, if_false]
      exact alookup_readBackList fs pre r nm

theorem getPath_readBack (fs : FS κ) : ∀ (r : List Name) (pre : List Name) (n : Node κ),
    getPath (readBack fs pre n) r = (getPath n r).map (readBack fs (pre ++ r))
  | [], pre, n => by simp [getPath]
  | c :: r, pre, .dir es => by
    simp only [readBack, getPath, alookup_readBackList]
    cases alookup es c with
    | none => rfl
    | some m =>
      simp only [Option.map_some]
      rw [getPath_readBack fs r (pre ++ [c]) m]
      simp [List.append_assoc]
  | _ :: _, pre, .file c => by
    simp only [readBack]
    split <;> simp [getPath]
  | _ :: _, _, .link _ => by simp [readBack, getPath]
  | _ :: _, _, .other => by simp [readBack, getPath]

mutual
/-- where every regular file is in place nothing changes -/
theorem readBack_id (fs : FS κ) : ∀ (n : Node κ) (pre : List Name),
    (∀ p ∈ trackedOf pre n, ∃ m, fs.get p.1 = some (.file p.2 m)) → readBack fs pre n = n
  | .file c, pre, h => by
    obtain ⟨m, hm⟩ := h (.ws pre, c) (by simp [trackedOf])
    simp only at hm
    simp [readBack, hm]
  | .dir es, pre, h => by
    simp only [readBack]
    rw [readBackList_id fs es pre (by simpa [trackedOf] using h)]
  | .link _, _, _ => rfl
  | .other, _, _ => rfl
theorem readBackList_id (fs : FS κ) : ∀ (es : List (Name × Node κ)) (pre : List Name),
    (∀ p ∈ trackedList pre es, ∃ m, fs.get p.1 = some (.file p.2 m)) → readBackList fs pre es = es
  | [], _, _ => rfl
  | (nm, n) :: r, pre, h => by
    simp only [readBackList]
    rw [readBack_id fs n (pre ++ [nm]) (fun p hp => h p (by simp [trackedList, hp])),
      readBackList_id fs r pre (fun p hp => h p (by simp [trackedList, hp]))]
end

/-- a recorded file is in place, or its path holds the link to its object and the cache `s` holds it -/
def FileOrLinked (ctx : Ctx κ) (s : Store κ) (fs : FS κ) (p : P × κ) : Prop :=
  (∃ m, fs.get p.1 = some (.file p.2 m)) ∨
    (fs.get p.1 = some (.link (.obj (ctx.H p.2))) ∧ ∃ o, s.get (ctx.H p.2) = some o ∧ o.bytes ctx = p.2)

mutual
/-- **the tree read back is a partly committed version of the original tree** -/
theorem ahead_readBack (ctx : Ctx κ) (s : Store κ) (fs : FS κ) : ∀ (n : Node κ) (pre : List Name),
    (∀ p ∈ trackedOf pre n, FileOrLinked ctx s fs p) → AheadNode ctx s n (readBack fs pre n)
  | .file c, pre, h => by
    simp only [AheadNode, readBack]
    rcases h (.ws pre, c) (by simp [trackedOf]) with ⟨m, hm⟩ | ⟨hl, ho⟩
    · simp only at hm
      simp [hm]
    · simp only at hl ho
      simp only [hl]
      exact .inr ⟨trivial, ho⟩
  | .dir es, pre, h => by
    simp only [AheadNode, readBack]
    exact aheadList_readBack ctx s fs es pre (by simpa [trackedOf] using h)
  | .link _, _, _ => by simp [AheadNode, readBack]
  | .other, _, _ => by simp [AheadNode, readBack]
theorem aheadList_readBack (ctx : Ctx κ) (s : Store κ) (fs : FS κ) : ∀ (es : List (Name × Node κ))
    (pre : List Name), (∀ p ∈ trackedList pre es, FileOrLinked ctx s fs p) →
      AheadList ctx s es (readBackList fs pre es)
  | [], _, _ => by simp [AheadList, readBackList]
  | (nm, n) :: r, pre, h => by
    simp only [AheadList, readBackList]
    exact ⟨trivial, ahead_readBack ctx s fs n (pre ++ [nm]) (fun p hp => h p (by simp [trackedList, hp])),
      aheadList_readBack ctx s fs r pre (fun p hp => h p (by simp [trackedList, hp]))⟩
end

mutual
theorem readBack_names (fs : FS κ) : ∀ (n : Node κ) (pre : List Name), uniqNode n →
    uniqNode (readBack fs pre n)
  | .file c, pre, _ => by
    simp only [readBack]
    split <;> simp [uniqNode]
  | .dir es, pre, h => by
    simp only [readBack, uniqNode] at h ⊢
    exact readBackList_names fs es pre h
  | .link _, _, _ => by simp [readBack, uniqNode]
  | .other, _, _ => by simp [readBack, uniqNode]
theorem readBackList_names (fs : FS κ) : ∀ (es : List (Name × Node κ)) (pre : List Name), uniqList es →
    uniqList (readBackList fs pre es)
  | [], _, _ => by simp [readBackList, uniqList]
  | (nm, n) :: r, pre, h => by
    simp only [uniqList] at h
    simp only [readBackList, uniqList]
    refine ⟨readBack_names fs n _ h.1, fun e he => ?_, readBackList_names fs r pre h.2.2⟩
    have : e.1 ∈ (readBackList fs pre r).map (·.1) := List.mem_map_of_mem he
    rw [readBackList_keys] at this
    obtain ⟨e', he', heq⟩ := List.mem_map.1 this
    rw [← heq]
    exact h.2.1 e' he'
theorem readBackList_keys (fs : FS κ) : ∀ (es : List (Name × Node κ)) (pre : List Name),
    (readBackList fs pre es).map (·.1) = es.map (·.1)
  | [], _ => rfl
  | (nm, n) :: r, pre => by
    simp only [readBackList, List.map_cons]
    rw [readBackList_keys fs r pre]
end

/-! ## reading the cache back -/

/-- a complete file sits under the digest name -/
def onDisk (fs : FS κ) (d : Digest) : Bool :=
  match fs.get (.obj d) with
  | some (.file _ _) => true
  | _ => false

/-- the objects of `s` that are on disk -/
def storeBack (fs : FS κ) (s : Store κ) : Store κ := s.filter (fun e => onDisk fs e.1)

theorem storeBack_get (fs : FS κ) (s : Store κ) (d : Digest) :
    (storeBack fs s).get d = if onDisk fs d then s.get d else none :=
  alookup_filter_key (onDisk fs) s d

theorem storeBack_consistent {ctx : Ctx κ} {fs : FS κ} {s : Store κ} (h : Consistent ctx s) :
    Consistent ctx (storeBack fs s) := by
  intro d o ho
  rw [storeBack_get] at ho
  split at ho
  · exact h d o ho
  · cases ho

theorem storeBack_sub (fs : FS κ) (s : Store κ) (d : Digest) (h : (storeBack fs s).has d = true) :
    s.has d = true := by
  simp only [Store.has, storeBack_get] at h ⊢
  split at h
  · exact h
  · cases h

/-! ## reading the index back -/

section idx
variable [DecidableEq κ]

/-- the record of stage `sp`: the final one if the stage file on disk holds its encoding -/
def pickStage (enc : Stage → κ) (fs : FS κ) (idxF : Index) (sp : Bytes) (stg : Stage) : Stage :=
  match alookup idxF sp with
  | some S => (match fs.get (.stageFile sp) with
    | some (.file x _) => if x = enc S then S else stg
    | _ => stg)
  | none => stg

def idxBack (enc : Stage → κ) (fs : FS κ) (idx0 idxF : Index) : Index :=
  idx0.map (fun e => (e.1, pickStage enc fs idxF e.1 e.2))

theorem pickStage_cases (enc : Stage → κ) (fs : FS κ) (idxF : Index) (sp : Bytes) (stg : Stage) :
    pickStage enc fs idxF sp stg = stg ∨
      ∃ S m, alookup idxF sp = some S ∧ fs.get (.stageFile sp) = some (.file (enc S) m) ∧
        pickStage enc fs idxF sp stg = S := by
  unfold pickStage
  cases hS : alookup idxF sp with
  | none => exact .inl rfl
  | some S =>
    simp only
    cases hg : fs.get (.stageFile sp) with
    | none => exact .inl rfl
    | some e =>
      cases e with
      | file x m =>
        simp only
        by_cases hx : x = enc S
        · subst hx
          exact .inr ⟨S, m, rfl, rfl, by simp⟩
        · simp [hx]
      | torn _ => exact .inl rfl
      | dir => exact .inl rfl
      | link _ => exact .inl rfl

theorem alookup_idxBack (enc : Stage → κ) (fs : FS κ) (idxF : Index) : ∀ (idx0 : Index) (sp : Bytes),
    alookup (idxBack enc fs idx0 idxF) sp = (alookup idx0 sp).map (pickStage enc fs idxF sp)
  | [], _ => rfl
  | (k, v) :: r, sp => by
    simp only [idxBack, List.map_cons, alookup]
    by_cases hk : k = sp
    · subst hk; simp
    · simp only [beq_iff_eq, hk, if_false]
      exact alookup_idxBack enc fs idxF r sp

theorem idxBack_shape (enc : Stage → κ) (fs : FS κ) {idx0 idxF : Index} (hsh : SameShape idxF idx0) :
    ∀ (l : Index), (∀ e ∈ l, alookup idx0 e.1 = some e.2) → SameShape (idxBack enc fs l idxF) l
  | [], _ => .nil
  | (k, v) :: r, h => by
    simp only [idxBack, List.map_cons]
    refine .cons ⟨rfl, ?_⟩ (idxBack_shape enc fs hsh r (fun e he => h e (List.mem_cons_of_mem _ he)))
    simp only
    rcases pickStage_cases enc fs idxF k v with hp | ⟨S, m, hS, _, hp⟩
    · rw [hp]; exact StageSim.refl _
    · rw [hp]
      rcases alookup_sim hsh k with ⟨h1, _⟩ | ⟨s, s0, h1, h0, hs⟩
      · rw [hS] at h1; cases h1
      · rw [hS] at h1; cases h1
        have := h (k, v) List.mem_cons_self
        simp only at this
        rw [this] at h0; cases h0
        exact hs

end idx

/-! ## cache objects are never removed -/

theorem get_set_ne_none (fs : FS κ) (q p : P) (e : Entry κ) (hex : fs.get p ≠ none) :
    (fs.set q e).get p ≠ none := by
  rw [FS.get_set]
  split
  · simp
  · exact hex

/-- a path that exists and is neither renamed away nor unlinked by the call still exists -/
theorem apply_get_persist (emp : κ) (fs : FS κ) (c : Call κ) (p : P) (hex : fs.get p ≠ none)
    (h1 : ∀ d, c ≠ .rename p d) (h2 : c ≠ .unlink p) : (apply emp fs c).get p ≠ none := by
  cases c with
  | mkdir q => simp only [apply]; split <;> first | exact get_set_ne_none _ _ _ _ hex | exact hex
  | createExcl q => simp only [apply]; split <;> first | exact get_set_ne_none _ _ _ _ hex | exact hex
  | createTrunc q => simp only [apply]; exact get_set_ne_none _ _ _ _ hex
  | writePart q => simp only [apply]; split <;> first | exact get_set_ne_none _ _ _ _ hex | exact hex
  | write q x => simp only [apply]; split <;> first | exact get_set_ne_none _ _ _ _ hex | exact hex
  | chmod q m => simp only [apply]; split <;> first | exact get_set_ne_none _ _ _ _ hex | exact hex
  | symlink t q => simp only [apply]; split <;> first | exact get_set_ne_none _ _ _ _ hex | exact hex
  | unlink q =>
    have hq : q ≠ p := fun e => h2 (by rw [e])
    simp [apply, FS.get_del, hq, hex]
  | rename s d =>
    have hs : s ≠ p := fun e => h1 d (by rw [e])
    simp only [apply]
    split
    · refine get_set_ne_none _ _ _ _ ?_
      rw [FS.get_del, if_neg hs]
      exact hex
    · exact hex

theorem obj_persists_call {ctx : Ctx κ} {tracked : List (P × κ)} (emp : κ) {fs : FS κ} {c : Call κ}
    (ha : Allowed ctx tracked fs c) (d : Digest) (hex : fs.get (.obj d) ≠ none) :
    (apply emp fs c).get (.obj d) ≠ none := by
  refine apply_get_persist emp fs c _ hex (fun d' e => ?_) (fun e => ?_)
  · subst e
    simp [Allowed, P.isObj] at ha
  · subst e
    simp [Allowed, P.isObj] at ha

/-- **an object that is in the cache stays there** along a trace that obeys the cache discipline -/
theorem obj_persists {ctx : Ctx κ} {tracked : List (P × κ)} (emp : κ) (d : Digest) :
    ∀ (calls : List (Call κ)) (fs : FS κ), AllowedTrace ctx emp tracked fs calls →
      fs.get (.obj d) ≠ none → ∀ k, (replay emp fs (calls.take k)).get (.obj d) ≠ none
  | [], fs, _, hex, k => by simpa [replay] using hex
  | c :: cs, fs, ha, hex, k => by
    cases k with
    | zero => simpa [replay] using hex
    | succ k =>
      simp only [AllowedTrace] at ha
      rw [List.take_succ_cons, replay_cons]
      exact obj_persists emp d cs _ ha.2 (obj_persists_call emp ha.1 d hex) k

/-! ## a held tree has the blobs of its regular files -/

mutual
theorem holds_tracked {ctx : Ctx κ} {s : Store κ} : ∀ (n : Node κ) (ch : Choice) (nm : Bytes)
    (pre : List Name), HoldsNode ctx s ch nm n → ∀ p ∈ trackedOf pre n,
      ∃ o, s.get (ctx.H p.2) = some o ∧ o.bytes ctx = p.2
  | .file c, _, _, pre, h, p, hp => by
    simp only [trackedOf, List.mem_singleton] at hp
    subst hp
    simpa [HoldsNode] using h
  | .dir es, ch, nm, pre, h, p, hp => by
    simp only [HoldsNode] at h
    simp only [trackedOf] at hp
    exact holdsList_tracked es ch pre h.2 p hp
  | .link _, _, _, _, _, p, hp => by simp [trackedOf] at hp
  | .other, _, _, _, _, p, hp => by simp [trackedOf] at hp
theorem holdsList_tracked {ctx : Ctx κ} {s : Store κ} : ∀ (es : List (Name × Node κ)) (ch : Choice)
    (pre : List Name), HoldsList ctx s ch es → ∀ p ∈ trackedList pre es,
      ∃ o, s.get (ctx.H p.2) = some o ∧ o.bytes ctx = p.2
  | [], _, _, _, p, hp => by simp [trackedList] at hp
  | (nm, n) :: r, ch, pre, h, p, hp => by
    simp only [HoldsList] at h
    simp only [trackedList, List.mem_append] at hp
    rcases hp with hp | hp
    · exact holds_tracked n _ nm (pre ++ [nm]) h.1 p hp
    · exact holdsList_tracked r ch pre h.2 p hp
end

/-! ## the world read back from a faulted file system -/

section main
variable [DecidableEq κ]

/-- **the logical world the file system `fs` is read back as**, relative to the world `w0` before the failed
command and the final world `w'` of the unfailed run -/
def faultWorld (c : CmdCfg κ) (w0 w' : World κ) (fs : FS κ) : World κ :=
  { ws := readBack fs [] w0.ws
    store := storeBack fs w'.store
    idx := idxBack c.encStage fs w0.idx w'.idx }

/-- the fault did not fall into the window between moving a file away and linking it back: every regular
file of the original workspace is in place, or its path holds the link to its cache object -/
def NoGap (ctx : Ctx κ) (ws0 : Node κ) (fs : FS κ) : Prop :=
  ∀ p ∈ trackedOf [] ws0,
    (∃ m, fs.get p.1 = some (.file p.2 m)) ∨ fs.get p.1 = some (.link (.obj (ctx.H p.2)))

/-- every regular file of the original workspace that does not lie below a (non-`skip-cache`) output of a
stage in scope is still in place -/
def Intact (Sc : Bytes → Prop) (w0 : World κ) (fs : FS κ) : Prop :=
  ∀ p ∈ trackedOf [] w0.ws,
    (∀ sp stg a, Sc sp → alookup w0.idx sp = some stg → a ∈ stg.outputs → a.skip = false →
      ∀ q, p.1 = .ws q → ¬ Path.comps a.path <+: q) →
    ∃ m, fs.get p.1 = some (.file p.2 m)

/-- `NoGap` as a Boolean check -/
def noGapB (ctx : Ctx κ) (ws0 : Node κ) (fs : FS κ) : Bool :=
  (trackedOf [] ws0).all fun p => match fs.get p.1 with
    | some (.file x _) => decide (x = p.2)
    | some (.link (.obj d)) => decide (d = ctx.H p.2)
    | _ => false

theorem noGapB_sound {ctx : Ctx κ} {ws0 : Node κ} {fs : FS κ} (h : noGapB ctx ws0 fs = true) :
    NoGap ctx ws0 fs := by
  intro p hp
  have := List.all_eq_true.1 h p hp
  split at this
  · rename_i x m hg
    exact .inl ⟨m, by rw [hg, of_decide_eq_true this]⟩
  · rename_i d hg
    exact .inr (by rw [hg, of_decide_eq_true this])
  · cases this

theorem noGapB_complete {ctx : Ctx κ} {ws0 : Node κ} {fs : FS κ} (h : NoGap ctx ws0 fs) :
    noGapB ctx ws0 fs = true := by
  refine List.all_eq_true.2 (fun p hp => ?_)
  rcases h p hp with ⟨m, hm⟩ | hl
  · simp [hm]
  · simp [hl]

theorem prefix_comparable {α : Type} {a b l : List α} (ha : a <+: l) (hb : b <+: l) :
    a <+: b ∨ b <+: a := by
  by_cases h : a.length ≤ b.length
  · exact .inl (List.prefix_of_prefix_length_le ha hb h)
  · exact .inr (List.prefix_of_prefix_length_le hb ha (by omega))

/-- a path below `q` is below no path apart from `q` -/
theorem not_prefix_of_apart {p q r : List Name} (h : WT.Apart p q) : ¬ p <+: q ++ r := by
  intro hp
  rcases prefix_comparable hp (List.prefix_append q r) with h' | h'
  · exact h.1 h'
  · exact h.2 h'

theorem pairwise_mem_ne {α : Type} {R : α → α → Prop} (hsymm : ∀ x y, R x y → R y x) :
    ∀ {l : List α}, l.Pairwise R → ∀ {a b : α}, a ∈ l → b ∈ l → a ≠ b → R a b
  | [], _, _, _, ha, _, _ => by cases ha
  | x :: xs, h, a, b, ha, hb, hne => by
    obtain ⟨hx, hxs⟩ := List.pairwise_cons.1 h
    rcases List.mem_cons.1 ha with rfl | ha'
    · rcases List.mem_cons.1 hb with rfl | hb'
      · exact absurd rfl hne
      · exact hx b hb'
    · rcases List.mem_cons.1 hb with rfl | hb'
      · exact hsymm _ _ (hx a ha')
      · exact pairwise_mem_ne hsymm hxs ha' hb' hne

/-- **The world read back from the file system a failed `dud commit` leaves is a resumption point** of
that commit (`Retry.Resume`), provided the file system is `Safe` (it is: `cmdCommit_fault_safe`), the fault
did not fall into the move-then-link window (`NoGap`), files outside the outputs are in place (`Intact`) and
the objects of the original cache are still there (they are: `obj_persists`). -/
theorem faultWorld_resume (c : CmdCfg κ) (strat : Strat) (targets : List Bytes) (w0 w' : World κ)
    (hstd : Std c.cfg (InScope c.cfg w0 targets) w0) (hu : uniqNode w0.ws)
    (h : cmdCommit c.cfg strat targets w0 = .ok w') (fs : FS κ)
    (hsafe : Safe c.cfg.ctx (trackedOf [] w0.ws) fs) (hgap : NoGap c.cfg.ctx w0.ws fs)
    (hint : Intact (InScope c.cfg w0 targets) w0 fs)
    (hobj : ∀ d, w0.store.has d = true → fs.get (.obj d) ≠ none) :
    Resume c.cfg (InScope c.cfg w0 targets) w0 w'.idx (faultWorld c w0 w' fs) ∧
      Store.le c.cfg.ctx w0.store (faultWorld c w0 w' fs).store ∧
      ∀ d, (faultWorld c w0 w' fs).store.has d = true → w'.store.has d = true := by
  have g := hstd.good
  have hok := hstd.ok
  obtain ⟨hq1, hall1⟩ := commit_canon c.cfg strat targets w0 w' hstd h
  have hsh := (outsF_of_commit c.cfg strat targets w0 w' hstd h).shape
  -- a path below an output of a stage in scope lies below no OTHER output in scope
  have hbelow : ∀ sp stg a, InScope c.cfg w0 targets sp → alookup w0.idx sp = some stg →
      a ∈ stg.outputs → ∀ r sp2 stg2 a2, InScope c.cfg w0 targets sp2 →
      alookup w0.idx sp2 = some stg2 → a2 ∈ stg2.outputs →
      Path.comps a2.path <+: Path.comps a.path ++ r → a2 = a := by
    intro sp stg a hsc hs ha r sp2 stg2 a2 hsc2 hs2 ha2 hpre
    by_cases hsp : sp2 = sp
    · subst hsp
      rw [hs] at hs2; cases hs2
      by_cases haa : a2 = a
      · exact haa
      · exact (not_prefix_of_apart
          (pairwise_mem_ne (fun _ _ hxy => WT.Apart.symm hxy) (hok.apart_in sp2 stg hsc hs) ha2 ha haa)
          hpre).elim
    · exact (not_prefix_of_apart
        (hok.apart_across sp2 sp stg2 stg hsc2 hsc hsp hs2 hs a2 ha2 a ha) hpre).elim
  -- what Safe and NoGap say about one recorded file
  have hlinked : ∀ p ∈ trackedOf [] w0.ws, fs.get p.1 = some (.link (.obj (c.cfg.ctx.H p.2))) →
      onDisk fs (c.cfg.ctx.H p.2) = true := by
    intro p hp hl
    have hfile : ∃ m, fs.get (.obj (c.cfg.ctx.H p.2)) = some (.file p.2 m) := by
      rcases hsafe.1 p hp with ⟨m, h1⟩ | ⟨d, m, h1, h2⟩ | h3
      · rw [hl] at h1; cases h1
      · rw [hl] at h1
        simp only [Option.some.injEq, Entry.link.injEq, P.obj.injEq] at h1
        subst h1
        exact ⟨m, h2⟩
      · exact h3
    obtain ⟨m, hm⟩ := hfile
    simp [onDisk, hm]
  refine ⟨⟨?_, ?_, storeBack_consistent hq1.cons, ?_, ?_⟩, ?_, fun d hd => storeBack_sub fs _ d hd⟩
  · exact idxBack_shape c.encStage fs hsh w0.idx (fun e he => alookup_of_mem_nodup hok.keys he)
  · intro sp
    show alookup (idxBack c.encStage fs w0.idx w'.idx) sp = _ ∨ _ ∧ alookup (idxBack _ _ _ _) sp = _
    rw [alookup_idxBack]
    cases hs : alookup w0.idx sp with
    | none => exact .inl rfl
    | some stg =>
      rcases pickStage_cases c.encStage fs w'.idx sp stg with hp | ⟨S, m, hS, _, hp⟩
      · left; rw [Option.map_some, hp]
      · by_cases hsc : InScope c.cfg w0 targets sp
        · right
          refine ⟨hsc, ?_⟩
          have := hq1.idx_done sp stg (hall1 sp hsc) hs
          rw [hS] at this
          cases this
          rw [Option.map_some, hp, Option.map_some]
        · left
          have hnd1 : w'.done.contains sp = false := by
            cases hd : w'.done.contains sp with
            | false => rfl
            | true => exact absurd (hq1.done_sc sp hd) hsc
          have := hq1.idx_pending sp hnd1
          rw [hS, hs] at this
          cases this
          rw [Option.map_some, hp]
  · -- the outputs in scope
    intro sp stg hsc hs a ha
    obtain ⟨n, hn, hp⟩ := hok.pre sp stg hsc hs a ha
    have horig : origAt w0.ws a = n := origAt_of_getPath hn
    have hget : getPath (readBack fs [] w0.ws) (Path.comps a.path) =
        some (readBack fs (Path.comps a.path) n) := by
      rw [getPath_readBack, hn]; simp
    have hsub : ∀ p ∈ trackedOf (Path.comps a.path) n, p ∈ trackedOf [] w0.ws := fun p hpm =>
      trackedOpt_sub_tracked hu (Path.comps a.path) p (by rw [hn]; exact hpm)
    -- a skip-cache output is untouched
    have hskip : a.skip = true → ∀ p ∈ trackedOf (Path.comps a.path) n,
        ∃ m, fs.get p.1 = some (.file p.2 m) := by
      intro hsk p hpm
      refine hint p (hsub p hpm) (fun sp2 stg2 a2 hsc2 hs2 ha2 hsk2 q hq hpre => ?_)
      obtain ⟨names, hnames, _⟩ := trackedOf_names n (Path.comps a.path) p hpm
      rw [hnames] at hq
      cases hq
      have := hbelow sp stg a hsc hs ha names sp2 stg2 a2 hsc2 hs2 ha2 hpre
      rw [this, hsk] at hsk2
      cases hsk2
    refine ⟨_, hget, ?_, fun hsk => ?_⟩
    · rw [horig]
      refine ahead_readBack c.cfg.ctx _ fs n (Path.comps a.path) (fun p hpm => ?_)
      rcases hgap p (hsub p hpm) with hf | hl
      · exact .inl hf
      · cases hsk : a.skip with
        | true =>
          obtain ⟨m, hm⟩ := hskip hsk p hpm
          rw [hl] at hm; cases hm
        | false =>
          obtain ⟨_, _, _, hh⟩ := hq1.finished sp stg hsc (hall1 sp hsc) hs a ha
          have hh' := hh hsk
          rw [horig] at hh'
          obtain ⟨o, ho, hb⟩ := holds_tracked n _ _ (Path.comps a.path) hh' p hpm
          refine .inr ⟨hl, o, ?_, hb⟩
          show (storeBack fs w'.store).get _ = _
          rw [storeBack_get, hlinked p (hsub p hpm) hl]
          exact ho
    · rw [horig]
      exact readBack_id fs n _ (hskip hsk)
  · -- paths apart from the outputs
    intro q hq
    show getPath (readBack fs [] w0.ws) q = _
    rw [getPath_readBack]
    cases hgq : getPath w0.ws q with
    | none => rfl
    | some m =>
      simp only [Option.map_some, List.nil_append, Option.some.injEq]
      refine readBack_id fs m q (fun p hpm => ?_)
      have hp0 : p ∈ trackedOf [] w0.ws :=
        trackedOpt_sub_tracked hu q p (by rw [hgq]; exact hpm)
      refine hint p hp0 (fun sp2 stg2 a2 hsc2 hs2 ha2 _ q' hq' hpre => ?_)
      obtain ⟨names, hnames, _⟩ := trackedOf_names m q p hpm
      rw [hnames] at hq'
      cases hq'
      exact not_prefix_of_apart (hq sp2 stg2 hsc2 hs2 a2 ha2) hpre
  · -- the original cache
    intro d o ho
    obtain ⟨o', ho', hb⟩ := hq1.le d o ho
    refine ⟨o', ?_, hb⟩
    show (storeBack fs w'.store).get d = _
    rw [storeBack_get]
    have hex := hobj d (Store.has_of_get ho)
    cases hg : fs.get (.obj d) with
    | none => exact absurd hg hex
    | some e =>
      obtain ⟨x, m, rfl, _⟩ := hsafe.2 d e hg
      simp [onDisk, hg, ho']

/-- the world read back satisfies the relation `Rel` between logical workspace and file system: every
regular file of its workspace is in place, the cache temp names are free, names are duplicate-free -/
theorem faultWorld_rel (c : CmdCfg κ) (w0 w' : World κ) (hu : uniqNode w0.ws) (fs : FS κ)
    (hgap : NoGap c.cfg.ctx w0.ws fs) (hfree : CtmpFree 1 fs) : Rel (faultWorld c w0 w' fs).ws fs where
  files := by
    intro q x hg
    have hg' : getPath (readBack fs [] w0.ws) q = some (.file x) := hg
    rw [getPath_readBack] at hg'
    cases hgq : getPath w0.ws q with
    | none => rw [hgq] at hg'; cases hg'
    | some m =>
      rw [hgq] at hg'
      simp only [Option.map_some, List.nil_append, Option.some.injEq] at hg'
      cases m with
      | file cc =>
        have ht := tracked_of_getPath q w0.ws [] cc hgq
        simp only [List.nil_append] at ht
        rcases hgap _ ht with ⟨m', hm'⟩ | hl
        · simp only at hm'
          simp only [readBack, hm', Node.file.injEq] at hg'
          subst hg'
          exact ⟨m', hm'⟩
        · simp only at hl
          simp [readBack, hl] at hg'
      | dir es => simp [readBack] at hg'
      | link l => simp [readBack] at hg'
      | other => simp [readBack] at hg'
  free := hfree
  uniq := readBack_names fs w0.ws [] hu

/-- every stage file on disk holds the encoding of the stage the index read back holds -/
theorem faultWorld_stage_files (c : CmdCfg κ) (w0 w' : World κ) (fs : FS κ)
    (hstage : ∀ sp, fs.get (.stageFile sp) = (fsOfWorld c w0).get (.stageFile sp) ∨
      ∃ stg m, alookup w'.idx sp = some stg ∧ fs.get (.stageFile sp) = some (.file (c.encStage stg) m))
    (sp : Bytes) (stg : Stage) (hs : alookup (faultWorld c w0 w' fs).idx sp = some stg) :
    ∃ m, fs.get (.stageFile sp) = some (.file (c.encStage stg) m) := by
  have hs' : alookup (idxBack c.encStage fs w0.idx w'.idx) sp = some stg := hs
  rw [alookup_idxBack] at hs'
  cases hs0 : alookup w0.idx sp with
  | none => rw [hs0] at hs'; cases hs'
  | some stg0 =>
    rw [hs0] at hs'
    simp only [Option.map_some, Option.some.injEq] at hs'
    rcases pickStage_cases c.encStage fs w'.idx sp stg0 with hp | ⟨S, m, _, hf, hp⟩
    · rw [hp] at hs'
      subst hs'
      rcases hstage sp with hold | ⟨stg', m, hS', hf⟩
      · rw [fsOfWorld_get_stageFile, hs0] at hold
        exact ⟨_, hold⟩
      · have : pickStage c.encStage fs w'.idx sp stg0 = stg' := by
          simp [pickStage, hS', hf]
        rw [hp] at this
        subst this
        exact ⟨m, hf⟩
    · rw [hp] at hs'
      subst hs'
      exact ⟨m, hf⟩

/-- every object of the cache read back is on disk, complete, with its bytes -/
theorem faultWorld_objects (c : CmdCfg κ) (g : Good c.cfg.ctx) (w0 w' : World κ) (fs : FS κ)
    (hc' : Consistent c.cfg.ctx w'.store) (hnt : NoTorn c.cfg.ctx fs) (d : Digest) (o : Obj κ)
    (ho : (faultWorld c w0 w' fs).store.get d = some o) :
    ∃ m, fs.get (.obj d) = some (.file (o.bytes c.cfg.ctx) m) := by
  have ho' : (storeBack fs w'.store).get d = some o := ho
  rw [storeBack_get] at ho'
  split at ho'
  · rename_i hon
    cases hg : fs.get (.obj d) with
    | none => simp [onDisk, hg] at hon
    | some e =>
      obtain ⟨x, m, rfl, hx⟩ := hnt d e hg
      have hd : c.cfg.ctx.H (o.bytes c.cfg.ctx) = d := hc' d o ho'
      have : x = o.bytes c.cfg.ctx := g.inj _ _ (hx.trans hd.symm)
      subst this
      exact ⟨m, rfl⟩
  · cases ho'

end main

end Dud.Sys
