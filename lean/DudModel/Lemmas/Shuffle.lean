/-!
# Shuffles of lists (interleavings), free of any import

`Lemmas/Interleave2.lean` defines `Interleaving` / `InterleavingN` / `Forall2` for the concurrent COMMIT.
That file belongs to an import family (`Lemmas/Interleave.lean` defines `Dud.Sys.Rel`) that cannot be
imported together with the checkout crash theory (`Lemmas/CrashCmd.lean` defines another `Dud.Sys.Rel`).
The concurrent CHECKOUT therefore uses the SAME inductive definitions under fresh names, defined here
without any import; `Lemmas/ShuffleBridge.lean` (which lives in the other family) proves
`Shuffle = Interleaving`, `ShuffleN = InterleavingN = Sched`, `All2 = Forall2`.

* `Shuffle t1 t2 t`: `t` is an interleaving of `t1` and `t2` (each keeps its order);
* `ShuffleN [t₁, …, tₙ] t`: `t` is an interleaving of the n lists;
* `ShuffleN.flatten`: running the lists one after the other is one of them; `ShuffleN.perm`: the set of
  interleavings does not depend on the order in which the workers are listed, hence
  `ShuffleN.flatten_perm`: running them one after the other IN ANY ORDER is one of them;
* `Shuffle.filter`, `ShuffleN.filter_of_…`: filtering commutes with interleaving.
-/
namespace Dud.Sys

inductive Shuffle {α : Type} : List α → List α → List α → Prop
  | nil : Shuffle [] [] []
  | left {a : α} {t1 t2 t : List α} : Shuffle t1 t2 t → Shuffle (a :: t1) t2 (a :: t)
  | right {a : α} {t1 t2 t : List α} : Shuffle t1 t2 t → Shuffle t1 (a :: t2) (a :: t)

theorem Shuffle.nil_left {α : Type} : ∀ (l : List α), Shuffle [] l l
  | [] => .nil
  | _ :: l => .right (Shuffle.nil_left l)

theorem Shuffle.nil_right {α : Type} : ∀ (l : List α), Shuffle l [] l
  | [] => .nil
  | _ :: l => .left (Shuffle.nil_right l)

theorem Shuffle.append {α : Type} : ∀ (l1 l2 : List α), Shuffle l1 l2 (l1 ++ l2)
  | [], l2 => Shuffle.nil_left l2
  | _ :: l1, l2 => .left (Shuffle.append l1 l2)

theorem Shuffle.symm {α : Type} {t1 t2 t : List α} (h : Shuffle t1 t2 t) : Shuffle t2 t1 t := by
  induction h with
  | nil => exact .nil
  | left _ ih => exact .right ih
  | right _ ih => exact .left ih

theorem Shuffle.eq_of_nil_left {α : Type} {t2 t : List α} (h : Shuffle [] t2 t) : t = t2 := by
  generalize h1 : ([] : List α) = t1 at h
  induction h with
  | nil => rfl
  | left _ _ => cases h1
  | right _ ih => rw [ih h1]

theorem Shuffle.eq_of_nil_right {α : Type} {t1 t : List α} (h : Shuffle t1 [] t) : t = t1 :=
  h.symm.eq_of_nil_left

theorem Shuffle.mem {α : Type} {t1 t2 t : List α} (h : Shuffle t1 t2 t) (a : α) :
    a ∈ t ↔ a ∈ t1 ∨ a ∈ t2 := by
  induction h with
  | nil => simp
  | left _ ih => simp [ih, or_assoc]
  | right _ ih =>
    simp only [List.mem_cons, ih]
    constructor
    · rintro (h | h | h)
      · exact .inr (.inl h)
      · exact .inl h
      · exact .inr (.inr h)
    · rintro (h | h | h)
      · exact .inr (.inl h)
      · exact .inl h
      · exact .inr (.inr h)

/-- filtering commutes with interleaving -/
theorem Shuffle.filter {α : Type} (p : α → Bool) {t1 t2 t : List α} (h : Shuffle t1 t2 t) :
    Shuffle (t1.filter p) (t2.filter p) (t.filter p) := by
  induction h with
  | nil => exact .nil
  | @left a t1 t2 t _ ih =>
    cases hp : p a with
    | true => simp only [List.filter_cons, hp, if_true]; exact .left ih
    | false => simpa [List.filter_cons, hp] using ih
  | @right a t1 t2 t _ ih =>
    cases hp : p a with
    | true => simp only [List.filter_cons, hp, if_true]; exact .right ih
    | false => simpa [List.filter_cons, hp] using ih

/-- associativity / exchange: a shuffle of `a` with a shuffle of `b` and `r` is a shuffle of `b` with a
shuffle of `a` and `r` -/
theorem Shuffle.exchange {α : Type} {a r1 l : List α} (h1 : Shuffle a r1 l) :
    ∀ {b r2 : List α}, Shuffle b r2 r1 → ∃ x, Shuffle a r2 x ∧ Shuffle b x l := by
  induction h1 with
  | nil =>
    intro b r2 h2
    cases h2
    exact ⟨[], .nil, .nil⟩
  | @left h a' r1 l' _ ih =>
    intro b r2 h2
    obtain ⟨x, hx1, hx2⟩ := ih h2
    exact ⟨h :: x, .left hx1, .right hx2⟩
  | @right h a' r1' l' _ ih =>
    intro b r2 h2
    cases h2 with
    | left h2' =>
      obtain ⟨x, hx1, hx2⟩ := ih h2'
      exact ⟨x, hx1, .left hx2⟩
    | right h2' =>
      obtain ⟨x, hx1, hx2⟩ := ih h2'
      exact ⟨h :: x, .right hx1, .right hx2⟩

/-! ## n lists -/

inductive ShuffleN {α : Type} : List (List α) → List α → Prop
  | nil : ShuffleN [] []
  | cons {t : List α} {ts : List (List α)} {r l : List α} :
      ShuffleN ts r → Shuffle t r l → ShuffleN (t :: ts) l

theorem ShuffleN.nil_inv {α : Type} {l : List α} (h : ShuffleN [] l) : l = [] := by
  cases h; rfl

theorem ShuffleN.cons_inv {α : Type} {t : List α} {ts : List (List α)} {l : List α}
    (h : ShuffleN (t :: ts) l) : ∃ r, ShuffleN ts r ∧ Shuffle t r l := by
  cases h with
  | cons h1 h2 => exact ⟨_, h1, h2⟩

/-- the workers running one after the other is one of the schedules -/
theorem ShuffleN.flatten {α : Type} : ∀ (ts : List (List α)), ShuffleN ts ts.flatten
  | [] => .nil
  | t :: ts => by
    rw [List.flatten_cons]
    exact .cons (ShuffleN.flatten ts) (Shuffle.append t _)

theorem ShuffleN.single {α : Type} (t : List α) : ShuffleN [t] t :=
  .cons .nil (Shuffle.nil_right t)

theorem ShuffleN.two {α : Type} {t1 t2 l : List α} : ShuffleN [t1, t2] l ↔ Shuffle t1 t2 l := by
  constructor
  · intro h
    obtain ⟨r, hr, hi⟩ := h.cons_inv
    obtain ⟨r', hr', hi'⟩ := hr.cons_inv
    rw [hr'.nil_inv] at hi'
    rw [hi'.eq_of_nil_right] at hi
    exact hi
  · intro h
    exact .cons (ShuffleN.single t2) h

theorem ShuffleN.mem {α : Type} {ts : List (List α)} {l : List α} (h : ShuffleN ts l) (a : α) :
    a ∈ l ↔ ∃ t ∈ ts, a ∈ t := by
  induction h with
  | nil => simp
  | cons _ hi ih => simp [hi.mem, ih]

/-- the set of schedules does not depend on the order in which the workers are listed -/
theorem ShuffleN.perm {α : Type} {ts ts' : List (List α)} (hp : List.Perm ts ts') :
    ∀ {l : List α}, ShuffleN ts l → ShuffleN ts' l := by
  induction hp with
  | nil => intro l h; exact h
  | cons t _ ih =>
    intro l h
    obtain ⟨r, hr, hi⟩ := h.cons_inv
    exact .cons (ih hr) hi
  | swap a b ts =>
    intro l h
    obtain ⟨r1, hr1, hi1⟩ := h.cons_inv
    obtain ⟨r2, hr2, hi2⟩ := hr1.cons_inv
    obtain ⟨x, hx1, hx2⟩ := hi1.exchange hi2
    exact .cons (.cons hr2 hx1) hx2
  | trans _ _ ih1 ih2 => intro l h; exact ih2 (ih1 h)

/-- **the workers running one after the other IN ANY ORDER is one of the schedules** -/
theorem ShuffleN.flatten_perm {α : Type} {ts ts' : List (List α)} (hp : List.Perm ts' ts) :
    ShuffleN ts ts'.flatten :=
  ShuffleN.perm hp (ShuffleN.flatten ts')

/-! ## pointwise relation between two lists -/

inductive All2 {α β : Type} (R : α → β → Prop) : List α → List β → Prop
  | nil : All2 R [] []
  | cons {a : α} {b : β} {as : List α} {bs : List β} : R a b → All2 R as bs → All2 R (a :: as) (b :: bs)

theorem All2.imp {α β : Type} {R S : α → β → Prop} {as : List α} {bs : List β}
    (h : All2 R as bs) (hi : ∀ a b, R a b → S a b) : All2 S as bs := by
  induction h with
  | nil => exact .nil
  | cons h _ ih => exact .cons (hi _ _ h) ih

theorem All2.mem_right {α β : Type} {R : α → β → Prop} {as : List α} {bs : List β}
    (h : All2 R as bs) : ∀ b ∈ bs, ∃ a ∈ as, R a b := by
  induction h with
  | nil => intro b hb; cases hb
  | cons h _ ih =>
    intro b hb
    rcases List.mem_cons.1 hb with rfl | hb
    · exact ⟨_, List.mem_cons_self, h⟩
    · obtain ⟨a, ha, hr⟩ := ih b hb
      exact ⟨a, List.mem_cons_of_mem _ ha, hr⟩

theorem All2.length {α β : Type} {R : α → β → Prop} {as : List α} {bs : List β}
    (h : All2 R as bs) : as.length = bs.length := by
  induction h with
  | nil => rfl
  | cons _ _ ih => simp [ih]

theorem All2.comp {α β γ : Type} {R : α → β → Prop} {S : β → γ → Prop} {as : List α} {bs : List β}
    (h : All2 R as bs) : ∀ {cs : List γ}, All2 S bs cs → All2 (fun a c => ∃ b, R a b ∧ S b c) as cs := by
  induction h with
  | nil => intro cs h2; cases h2; exact .nil
  | cons h _ ih =>
    intro cs h2
    cases h2 with
    | cons h2 h2' => exact .cons ⟨_, h, h2⟩ (ih h2')

/-! ## prefixes of a schedule are schedules of prefixes -/

theorem Shuffle.take {α : Type} {t1 t2 t : List α} (h : Shuffle t1 t2 t) :
    ∀ k, ∃ k1 k2, Shuffle (t1.take k1) (t2.take k2) (t.take k) := by
  induction h with
  | nil => intro k; exact ⟨0, 0, by simpa using Shuffle.nil⟩
  | left _ ih =>
    intro k
    cases k with
    | zero => exact ⟨0, 0, by simpa using Shuffle.nil⟩
    | succ k =>
      obtain ⟨k1, k2, hk⟩ := ih k
      exact ⟨k1 + 1, k2, by simpa [List.take_succ_cons] using Shuffle.left hk⟩
  | right _ ih =>
    intro k
    cases k with
    | zero => exact ⟨0, 0, by simpa using Shuffle.nil⟩
    | succ k =>
      obtain ⟨k1, k2, hk⟩ := ih k
      exact ⟨k1, k2 + 1, by simpa [List.take_succ_cons] using Shuffle.right hk⟩

/-- **a prefix of a schedule of n workers is a schedule of prefixes of the workers' traces** -/
theorem ShuffleN.take {α : Type} {ts : List (List α)} {l : List α} (h : ShuffleN ts l) :
    ∀ k, ∃ ts', All2 (fun t t' => ∃ j, t' = t.take j) ts ts' ∧ ShuffleN ts' (l.take k) := by
  induction h with
  | nil => intro k; exact ⟨[], .nil, by simpa using ShuffleN.nil⟩
  | cons _ hi ih =>
    intro k
    obtain ⟨k1, k2, hk⟩ := hi.take k
    obtain ⟨ts', hall, hs⟩ := ih k2
    exact ⟨_ :: ts', .cons ⟨k1, rfl⟩ hall, .cons hs hk⟩

end Dud.Sys
