import DudModel.Lemmas.OrderStore
/-!
# Commit of the entries of a directory does not depend on the processing order (helpers for C13)

* `commitHead`, `commitEntries_cons`: `commitEntries` as a fold of one step per entry;
* `closedNode` / `closedList`: the reads of a commit are *stable* — they cannot be changed by
  what a sibling entry puts into the cache;
* `commitNode_frame`: under that hypothesis the result of committing one entry is the same in
  every larger cache, and the objects it adds are the same block `Δ`;
* `foldE_perm`: abstract permutation theorem for folds of framed steps;
* `commitEntries_perm`, `commitNode_treePerm`: the concrete consequences.
-/
namespace Dud
variable {κ : Type}

def pickChild (old : List Child) (nm : Name) (isDir : Bool) : Child :=
  match findChild old nm with
  | some k => if k.isDir == isDir then k else { name := nm, sum := "", isDir := isDir }
  | none => { name := nm, sum := "", isDir := isDir }

theorem pickChild_name (old : List Child) (nm : Name) (b : Bool) : (pickChild old nm b).name = nm := by
  unfold pickChild
  split
  · next k hk => split
                 · exact findChild_name hk
                 · rfl
  · rfl

theorem pickChild_isDir (old : List Child) (nm : Name) (b : Bool) : (pickChild old nm b).isDir = b := by
  unfold pickChild
  split
  · next k hk =>
    split
    · next h => simpa using h
    · rfl
  · rfl

def commitHead (ctx : Ctx κ) (strat : Strat) (skipDirs : Bool) (old : List Child)
    (e : Name × Node κ) (s : Store κ) : Except Err ((Name × Node κ) × List Child × Store κ) :=
  if skipDirs && e.2.isDir then .ok (e, [], s)
  else if !ctx.nameOK e.1 then .error .invalid
  else match commitNode ctx strat e.2 (pickChild old e.1 e.2.isDir) s with
    | .error err => .error err
    | .ok (n', c', s1) => .ok ((e.1, n'), [c'], s1)

theorem commitEntries_cons (ctx : Ctx κ) (strat : Strat) (skipDirs : Bool) (e : Name × Node κ)
    (r : List (Name × Node κ)) (old : List Child) (s : Store κ) :
    commitEntries ctx strat skipDirs (e :: r) old s =
      match commitHead ctx strat skipDirs old e s with
      | .error err => .error err
      | .ok (e', c1, s1) =>
        match commitEntries ctx strat skipDirs r old s1 with
        | .error err => .error err
        | .ok (r', cs, s2) => .ok (e' :: r', c1 ++ cs, s2) := by
  obtain ⟨nm, n⟩ := e
  simp only [commitEntries, commitHead]
  split
  · cases h : commitEntries ctx strat skipDirs r old s with
    | error e => simp only [h]
    | ok v => obtain ⟨r', cs, s'⟩ := v; simp only [h, List.nil_append]
  · split
    · rfl
    · show (match commitNode ctx strat n (pickChild old nm n.isDir) s with
        | Except.error e => Except.error e
        | Except.ok (n', c', s1) => _) = _
      cases commitNode ctx strat n (pickChild old nm n.isDir) s with
      | error e => rfl
      | ok v =>
        obtain ⟨n', c', s1⟩ := v
        simp only
        cases h : commitEntries ctx strat skipDirs r old s1 with
        | error e => rfl
        | ok v => obtain ⟨r', cs, s'⟩ := v; rfl

/-! ## normal forms of `commitFile` -/

theorem commitFile_file (ctx : Ctx κ) (strat : Strat) (skip : Bool) (c : κ) (sum : Digest)
    (s : Store κ) :
    commitFile ctx strat skip (some (.file c)) sum s =
      if skip then .ok (.file c, ctx.H c, s)
      else match strat with
        | .link => .ok (.link (.obj (ctx.H c)), ctx.H c, (ctx.H c, .blob c) :: s)
        | .copy => .ok (.file c, ctx.H c, (ctx.H c, .blob c) :: s) := by
  simp only [commitFile, quick, Bool.false_eq_true, if_false, Store.put]
  cases skip <;> cases strat <;> rfl

theorem commitFile_link_obj (ctx : Ctx κ) (strat : Strat) (skip : Bool) (d : Digest) (sum : Digest)
    (s : Store κ) :
    commitFile ctx strat skip (some (.link (.obj d))) sum s =
      if (hasSum sum && s.has sum && d == sum) then .ok (.link (.obj d), sum, s)
      else if !skip && s.has d then .ok (.link (.obj d), d, s) else .error .notRegular := by
  simp only [commitFile, quick]
  by_cases h1 : (hasSum sum && s.has sum && d == sum) = true
  · simp only [h1, if_true]
  · by_cases h2 : (!skip && s.has d) = true
    · simp only [h1, h2, if_true]
    · simp only [h1, h2]

theorem commitFile_link_foreign (ctx : Ctx κ) (strat : Strat) (skip : Bool) (l : Bool) (sum : Digest)
    (s : Store κ) :
    commitFile ctx strat skip (some (.link (.foreign l))) sum s = .error .notRegular := by
  simp only [commitFile, quick, Bool.false_eq_true, if_false]

theorem commitFile_other (ctx : Ctx κ) (strat : Strat) (skip : Bool) (sum : Digest)
    (s : Store κ) :
    commitFile ctx strat skip (some .other) sum s = .error .notRegular := by
  simp only [commitFile, quick, Bool.false_eq_true, if_false]

theorem commitFile_dir (ctx : Ctx κ) (strat : Strat) (skip : Bool) (es : List (Name × Node κ))
    (sum : Digest) (s : Store κ) :
    commitFile ctx strat skip (some (.dir es)) sum s = .error .notRegular := by
  simp only [commitFile, quick, Bool.false_eq_true, if_false]

/-! ## stable reads -/

mutual
/-- The reads `commitNode` makes for this node and child record cannot be changed by new objects:
a link into the cache resolves (its object is present), and a recorded directory checksum is either
unusable (shorter than three characters) or present, recursively through the old manifests that
will be consulted.  Decidable by evaluation. -/
def closedNode (ctx : Ctx κ) (s : Store κ) : Node κ → Child → Bool
  | .dir es, c => !c.isDir ||
      ((!hasSum c.sum || s.has c.sum) &&
        match oldManifest ctx s c.sum with
        | .error _ => true
        | .ok old => closedList ctx s false es old)
  | .link (.obj d), c => c.isDir || s.has d
  | .link (.foreign _), _ => true
  | .file _, _ => true
  | .other, _ => true
/-- `closedNode` for every entry `commitEntries` does not skip -/
def closedList (ctx : Ctx κ) (s : Store κ) (skipDirs : Bool) :
    List (Name × Node κ) → List Child → Bool
  | [], _ => true
  | (nm, n) :: r, old =>
    ((skipDirs && n.isDir) || closedNode ctx s n (pickChild old nm n.isDir)) &&
      closedList ctx s skipDirs r old
end

theorem closedNode_dir {ctx : Ctx κ} {s : Store κ} {es : List (Name × Node κ)} {c : Child} :
    closedNode ctx s (.dir es) c = true ↔
      (c.isDir = true → (hasSum c.sum = true → s.has c.sum = true) ∧
        ∀ old, oldManifest ctx s c.sum = .ok old → closedList ctx s false es old = true) := by
  simp only [closedNode, Bool.or_eq_true, Bool.not_eq_true', Bool.and_eq_true]
  constructor
  · rintro (h | ⟨h1, h2⟩) hd
    · rw [h] at hd; cases hd
    · refine ⟨fun hh => ?_, fun old ho => ?_⟩
      · rcases h1 with h1 | h1
        · rw [h1] at hh; cases hh
        · exact h1
      · rw [ho] at h2; exact h2
  · intro h
    cases hd : c.isDir with
    | false => exact Or.inl rfl
    | true =>
      obtain ⟨h1, h2⟩ := h hd
      refine Or.inr ⟨?_, ?_⟩
      · cases hh : hasSum c.sum with
        | false => exact Or.inl rfl
        | true => exact Or.inr (h1 hh)
      · cases ho : oldManifest ctx s c.sum with
        | error e => rfl
        | ok old => exact h2 old ho

theorem closedList_cons {ctx : Ctx κ} {s : Store κ} {sk : Bool} {nm : Name} {n : Node κ}
    {r : List (Name × Node κ)} {old : List Child} :
    closedList ctx s sk ((nm, n) :: r) old = true ↔
      ((sk && n.isDir) = true ∨ closedNode ctx s n (pickChild old nm n.isDir) = true) ∧
        closedList ctx s sk r old = true := by
  simp only [closedList, Bool.and_eq_true, Bool.or_eq_true]

/-- the entry-wise reading of `closedList` -/
theorem closedList_iff {ctx : Ctx κ} {s : Store κ} {sk : Bool} {old : List Child} :
    ∀ {es : List (Name × Node κ)}, closedList ctx s sk es old = true ↔
      ∀ e ∈ es, (sk && e.2.isDir) = true ∨
        closedNode ctx s e.2 (pickChild old e.1 e.2.isDir) = true
  | [] => by simp [closedList]
  | (nm, n) :: r => by
    rw [closedList_cons, closedList_iff (es := r)]
    simp only [List.mem_cons, forall_eq_or_imp]

mutual
theorem closedNode_mono {ctx : Ctx κ} (g : Good ctx) {s t : Store κ} (hle : Store.le ctx s t) :
    ∀ (n : Node κ) (c : Child), closedNode ctx s n c = true → closedNode ctx t n c = true
  | .dir es, c, h => by
    rw [closedNode_dir] at h ⊢
    intro hd
    obtain ⟨h1, h2⟩ := h hd
    refine ⟨fun hh => Store.has_le hle (h1 hh), fun old ho => ?_⟩
    rw [oldManifest_le g hle h1] at ho
    exact closedList_mono g hle es old false (h2 old ho)
  | .link (.obj d), c, h => by
    simp only [closedNode, Bool.or_eq_true] at h ⊢
    rcases h with h | h
    · exact Or.inl h
    · exact Or.inr (Store.has_le hle h)
  | .link (.foreign _), _, _ => by simp [closedNode]
  | .file _, _, _ => by simp [closedNode]
  | .other, _, _ => by simp [closedNode]
theorem closedList_mono {ctx : Ctx κ} (g : Good ctx) {s t : Store κ} (hle : Store.le ctx s t) :
    ∀ (es : List (Name × Node κ)) (old : List Child) (sk : Bool),
      closedList ctx s sk es old = true → closedList ctx t sk es old = true
  | [], _, _, _ => by simp [closedList]
  | (nm, n) :: r, old, sk, h => by
    rw [closedList_cons] at h ⊢
    refine ⟨?_, closedList_mono g hle r old sk h.2⟩
    rcases h.1 with h1 | h1
    · exact Or.inl h1
    · exact Or.inr (closedNode_mono g hle n _ h1)
end

/-! ## the frame property -/

/-- `r_t` is `r_s` moved from store `s` to store `t`: the same error, or the same result with the
same block of new objects on top of `t`. -/
def Shift3 {α β : Type} (ctx : Ctx κ) (s t : Store κ)
    (rs rt : Except Err (α × β × Store κ)) : Prop :=
  (∀ e, rs = .error e → rt = .error e) ∧
  (∀ a b s1, rs = .ok (a, b, s1) → ∃ Δ, s1 = Δ ++ s ∧ DeltaOK ctx Δ ∧ rt = .ok (a, b, Δ ++ t))

theorem Shift3.error {α β : Type} {ctx : Ctx κ} {s t : Store κ} (e : Err) :
    Shift3 (α := α) (β := β) ctx s t (.error e) (.error e) :=
  ⟨fun _ h => h, fun _ _ _ h => by cases h⟩

theorem Shift3.ok {α β : Type} {ctx : Ctx κ} {s t : Store κ} (a : α) (b : β) {Δ : Store κ}
    (hΔ : DeltaOK ctx Δ) : Shift3 ctx s t (.ok (a, b, Δ ++ s)) (.ok (a, b, Δ ++ t)) := by
  refine ⟨fun _ h => (by cases h), fun a' b' s1 h => ?_⟩
  cases h
  exact ⟨Δ, rfl, hΔ, rfl⟩

theorem Shift3.ok_nil {α β : Type} {ctx : Ctx κ} {s t : Store κ} (a : α) (b : β) :
    Shift3 ctx s t (.ok (a, b, s)) (.ok (a, b, t)) :=
  Shift3.ok (Δ := []) a b (DeltaOK.nil ctx)

theorem commitFile_frame {ctx : Ctx κ} (strat : Strat) (skip : Bool) (n : Option (Node κ))
    (sum : Digest) {s t : Store κ} (hle : Store.le ctx s t)
    (hcl : ∀ d, n = some (.link (.obj d)) → s.has d = true) :
    Shift3 ctx s t (commitFile ctx strat skip n sum s) (commitFile ctx strat skip n sum t) := by
  cases n with
  | none => exact Shift3.error _
  | some nd =>
    cases nd with
    | file c =>
      rw [commitFile_file, commitFile_file]
      cases skip with
      | true => exact Shift3.ok_nil _ _
      | false =>
        cases strat with
        | link => exact Shift3.ok (Δ := [(ctx.H c, .blob c)]) _ _ (DeltaOK.cons (.blob c) (DeltaOK.nil ctx))
        | copy => exact Shift3.ok (Δ := [(ctx.H c, .blob c)]) _ _ (DeltaOK.cons (.blob c) (DeltaOK.nil ctx))
    | dir es => rw [commitFile_dir, commitFile_dir]; exact Shift3.error _
    | other => rw [commitFile_other, commitFile_other]; exact Shift3.error _
    | link l =>
      cases l with
      | foreign b => rw [commitFile_link_foreign, commitFile_link_foreign]; exact Shift3.error _
      | obj d =>
        rw [commitFile_link_obj, commitFile_link_obj]
        have hd : s.has d = true := hcl d rfl
        have hd' : t.has d = true := Store.has_le hle hd
        by_cases h1 : (hasSum sum && s.has sum && d == sum) = true
        · have h1' : (hasSum sum && t.has sum && d == sum) = true := by
            simp only [Bool.and_eq_true] at h1 ⊢
            exact ⟨⟨h1.1.1, Store.has_le hle h1.1.2⟩, h1.2⟩
          simp only [h1, h1', if_true]
          exact Shift3.ok_nil _ _
        · have h1' : ¬ (hasSum sum && t.has sum && d == sum) = true := by
            intro h
            apply h1
            simp only [Bool.and_eq_true, beq_iff_eq] at h ⊢
            obtain ⟨⟨ha, _⟩, hc⟩ := h
            subst hc
            exact ⟨⟨ha, hd⟩, rfl⟩
          simp only [h1, h1', hd, hd', Bool.and_true]
          cases skip with
          | true => exact Shift3.error _
          | false => exact Shift3.ok_nil _ _

/-- normal form of `commitNode` on anything but a directory -/
theorem commitNode_leaf (ctx : Ctx κ) (strat : Strat) (n : Node κ) (hn : n.isDir = false) (c : Child)
    (s : Store κ) :
    commitNode ctx strat n c s =
      if c.isDir then .error .notDir
      else match commitFile ctx strat false (some n) c.sum s with
        | .error e => .error e
        | .ok (n', d, s') => .ok (n', { c with sum := d }, s') := by
  cases n with
  | dir es => cases hn
  | file x => simp only [commitNode]; rfl
  | link l => simp only [commitNode]; rfl
  | other => simp only [commitNode]; rfl

theorem commitNode_leaf_frame {ctx : Ctx κ} (strat : Strat) (n : Node κ) (hn : n.isDir = false)
    (c : Child) {s t : Store κ} (hle : Store.le ctx s t)
    (hcl : closedNode ctx s n c = true) :
    Shift3 ctx s t (commitNode ctx strat n c s) (commitNode ctx strat n c t) := by
  rw [commitNode_leaf ctx strat n hn, commitNode_leaf ctx strat n hn]
  cases hd : c.isDir with
  | true => exact Shift3.error _
  | false =>
    simp only [Bool.false_eq_true, if_false]
    have hf := commitFile_frame (ctx := ctx) strat false (some n) c.sum hle (by
      intro d hnd
      cases hnd
      simpa [closedNode, hd] using hcl)
    cases hr : commitFile ctx strat false (some n) c.sum s with
    | error e =>
      rw [hf.1 e hr]
      exact Shift3.error _
    | ok v =>
      obtain ⟨n', d, s1⟩ := v
      obtain ⟨Δ, rfl, hΔ, hrt⟩ := hf.2 _ _ _ hr
      rw [hrt]
      exact Shift3.ok _ _ hΔ

theorem commitHead_shift {ctx : Ctx κ} (strat : Strat) (sk : Bool) (old : List Child)
    (e : Name × Node κ) {s t : Store κ}
    (h : (sk && e.2.isDir) = true ∨
      Shift3 ctx s t (commitNode ctx strat e.2 (pickChild old e.1 e.2.isDir) s)
        (commitNode ctx strat e.2 (pickChild old e.1 e.2.isDir) t)) :
    Shift3 ctx s t (commitHead ctx strat sk old e s) (commitHead ctx strat sk old e t) := by
  unfold commitHead
  by_cases hsk : (sk && e.2.isDir) = true
  · simp only [hsk, if_true]
    exact Shift3.ok_nil _ _
  · simp only [hsk]
    rcases h with h | h
    · exact absurd h hsk
    · by_cases hnm : (!ctx.nameOK e.1) = true
      · simp only [hnm, if_true]
        exact Shift3.error _
      · simp only [hnm]
        cases hr : commitNode ctx strat e.2 (pickChild old e.1 e.2.isDir) s with
        | error err =>
          rw [h.1 err hr]
          exact Shift3.error _
        | ok v =>
          obtain ⟨n', c', s1⟩ := v
          obtain ⟨Δ, rfl, hΔ, hrt⟩ := h.2 _ _ _ hr
          rw [hrt]
          exact Shift3.ok _ _ hΔ

theorem commitEntries_cons_shift {ctx : Ctx κ} (strat : Strat) (sk : Bool) (old : List Child)
    (e : Name × Node κ) (r : List (Name × Node κ)) {s t : Store κ}
    (hhead : Shift3 ctx s t (commitHead ctx strat sk old e s) (commitHead ctx strat sk old e t))
    (htail : ∀ Δ, DeltaOK ctx Δ → Shift3 ctx (Δ ++ s) (Δ ++ t)
      (commitEntries ctx strat sk r old (Δ ++ s)) (commitEntries ctx strat sk r old (Δ ++ t))) :
    Shift3 ctx s t (commitEntries ctx strat sk (e :: r) old s)
      (commitEntries ctx strat sk (e :: r) old t) := by
  rw [commitEntries_cons, commitEntries_cons]
  cases hr : commitHead ctx strat sk old e s with
  | error err =>
    rw [hhead.1 err hr]
    exact Shift3.error _
  | ok v =>
    obtain ⟨e', c1, s1⟩ := v
    obtain ⟨Δ, rfl, hΔ, hrt⟩ := hhead.2 _ _ _ hr
    rw [hrt]
    simp only
    have ht := htail Δ hΔ
    cases hr2 : commitEntries ctx strat sk r old (Δ ++ s) with
    | error err =>
      rw [ht.1 err hr2]
      exact Shift3.error _
    | ok v =>
      obtain ⟨r', cs, s2⟩ := v
      obtain ⟨Δ2, rfl, hΔ2, hrt2⟩ := ht.2 _ _ _ hr2
      rw [hrt2]
      simp only
      rw [← List.append_assoc, ← List.append_assoc]
      exact Shift3.ok _ _ (hΔ2.append hΔ)

mutual
/-- **Frame property of `commitNode`.**  With stable reads, committing a node gives the same
outcome in every larger consistent cache `t`: the same error, or the same workspace node, the
same child record, and the same block `Δ` of new objects. -/
theorem commitNode_frame {ctx : Ctx κ} (g : Good ctx) (strat : Strat) :
    ∀ (n : Node κ) (c : Child) (s t : Store κ), Consistent ctx s → Consistent ctx t →
      Store.le ctx s t → closedNode ctx s n c = true →
      Shift3 ctx s t (commitNode ctx strat n c s) (commitNode ctx strat n c t)
  | .dir es, c, s, t, hs, ht, hle, hcl => by
    simp only [commitNode]
    cases hd : c.isDir with
    | false => exact Shift3.error _
    | true =>
      simp only [if_true]
      obtain ⟨h1, h2⟩ := closedNode_dir.1 hcl hd
      rw [oldManifest_le g hle h1]
      cases ho : oldManifest ctx s c.sum with
      | error e => exact Shift3.error _
      | ok old =>
        simp only
        have ih := commitEntries_frame g strat es old false s t hs ht hle (h2 old ho)
        cases hr : commitEntries ctx strat false es old s with
        | error e =>
          rw [ih.1 e hr]
          exact Shift3.error _
        | ok v =>
          obtain ⟨es', cs, s1⟩ := v
          obtain ⟨Δ, rfl, hΔ, hrt⟩ := ih.2 _ _ _ hr
          rw [hrt]
          exact Shift3.ok (Δ := (_, Obj.man .new c.name (sortChildren cs)) :: Δ) _ _
            (DeltaOK.cons _ hΔ)
  | .file x, c, s, t, _, _, hle, hcl => commitNode_leaf_frame strat (.file x) rfl c hle hcl
  | .link l, c, s, t, _, _, hle, hcl => commitNode_leaf_frame strat (.link l) rfl c hle hcl
  | .other, c, s, t, _, _, hle, hcl => commitNode_leaf_frame strat .other rfl c hle hcl
theorem commitEntries_frame {ctx : Ctx κ} (g : Good ctx) (strat : Strat) :
    ∀ (es : List (Name × Node κ)) (old : List Child) (sk : Bool) (s t : Store κ),
      Consistent ctx s → Consistent ctx t → Store.le ctx s t →
      closedList ctx s sk es old = true →
      Shift3 ctx s t (commitEntries ctx strat sk es old s) (commitEntries ctx strat sk es old t)
  | [], old, sk, s, t, _, _, _, _ => by
    simp only [commitEntries]
    exact Shift3.ok_nil _ _
  | (nm, n) :: r, old, sk, s, t, hs, ht, hle, hcl => by
    obtain ⟨hc1, hc2⟩ := closedList_cons.1 hcl
    refine commitEntries_cons_shift strat sk old (nm, n) r (commitHead_shift strat sk old (nm, n) ?_)
      (fun Δ hΔ => commitEntries_frame g strat r old sk (Δ ++ s) (Δ ++ t) (hs.append hΔ)
        (ht.append hΔ) (Store.le_append_congr Δ hle)
        (closedList_mono g (Store.le_append g hΔ hs) r old sk hc2))
    rcases hc1 with h | h
    · exact Or.inl h
    · exact Or.inr (commitNode_frame g strat n _ s t hs ht hle h)
end

/-! ## folds of framed steps: the abstract permutation theorem -/

section Abstract

variable {A ρ : Type}

/-- `Shift3` for results with one component -/
def Shift (ctx : Ctx κ) (s t : Store κ) (rs rt : Except Err (ρ × Store κ)) : Prop :=
  (∀ e, rs = .error e → rt = .error e) ∧
  (∀ r s1, rs = .ok (r, s1) → ∃ Δ, s1 = Δ ++ s ∧ DeltaOK ctx Δ ∧ rt = .ok (r, Δ ++ t))

/-- put a result in front of the results of the rest -/
def consRes (r : ρ) : Except Err (List ρ × Store κ) → Except Err (List ρ × Store κ)
  | .error e => .error e
  | .ok (rs, s2) => .ok (r :: rs, s2)

/-- run the steps in list order, threading the store, collecting the results -/
def foldE (step : A → Store κ → Except Err (ρ × Store κ)) :
    List A → Store κ → Except Err (List ρ × Store κ)
  | [], s => .ok ([], s)
  | a :: l, s =>
    match step a s with
    | .error e => .error e
    | .ok (r, s1) => consRes r (foldE step l s1)

/-- the step for `a` gives the same outcome in every consistent store above `s` -/
def Framed (ctx : Ctx κ) (step : A → Store κ → Except Err (ρ × Store κ)) (a : A) (s : Store κ) :
    Prop :=
  ∀ t, Consistent ctx t → Store.le ctx s t → Shift ctx s t (step a s) (step a t)

variable {ctx : Ctx κ} {step : A → Store κ → Except Err (ρ × Store κ)}

theorem foldE_cons_error {a : A} {l : List A} {s : Store κ} {e : Err} (h : step a s = .error e) :
    foldE step (a :: l) s = .error e := by
  simp only [foldE, h]

theorem foldE_cons_ok {a : A} {l : List A} {s s1 : Store κ} {r : ρ} (h : step a s = .ok (r, s1)) :
    foldE step (a :: l) s = consRes r (foldE step l s1) := by
  simp only [foldE, h]

/-- outcome of a framed step at its own store -/
theorem Framed.self {a : A} {s : Store κ} (h : Framed ctx step a s) (hs : Consistent ctx s) :
    (∃ e, step a s = .error e) ∨ ∃ r Δ, DeltaOK ctx Δ ∧ step a s = .ok (r, Δ ++ s) := by
  cases hr : step a s with
  | error e => exact Or.inl ⟨e, rfl⟩
  | ok v =>
    obtain ⟨r, s1⟩ := v
    obtain ⟨Δ, rfl, hΔ, _⟩ := (h s hs (Store.le_refl ctx s)).2 r s1 hr
    exact Or.inr ⟨r, Δ, hΔ, rfl⟩

theorem Framed.error_at {a : A} {s t : Store κ} (h : Framed ctx step a s) (ht : Consistent ctx t)
    (hle : Store.le ctx s t) {e : Err} (he : step a s = .error e) : step a t = .error e :=
  (h t ht hle).1 e he

theorem Framed.ok_at {a : A} {s t : Store κ} (h : Framed ctx step a s) (ht : Consistent ctx t)
    (hle : Store.le ctx s t) {r : ρ} {Δ : Store κ} (ho : step a s = .ok (r, Δ ++ s)) :
    step a t = .ok (r, Δ ++ t) := by
  obtain ⟨Δ', h1, _, h2⟩ := (h t ht hle).2 r _ ho
  rw [List.append_cancel_right h1]
  exact h2

/-- a framed step stays framed above -/
theorem Framed.up {a : A} {s s1 : Store κ} (h : Framed ctx step a s) (hs : Consistent ctx s)
    (hs1 : Consistent ctx s1) (hle : Store.le ctx s s1) : Framed ctx step a s1 := by
  intro t ht hle1
  have hlet := Store.le_trans hle hle1
  rcases h.self hs with ⟨e, he⟩ | ⟨r, Δ, hΔ, ho⟩
  · have h1 := h.error_at hs1 hle he
    have h2 := h.error_at ht hlet he
    rw [h1, h2]
    exact ⟨fun _ h => h, fun _ _ h => by cases h⟩
  · have h1 := h.ok_at hs1 hle ho
    have h2 := h.ok_at ht hlet ho
    rw [h1, h2]
    refine ⟨fun _ h => (by cases h), fun r' s' h => ?_⟩
    cases h
    exact ⟨Δ, rfl, hΔ, rfl⟩

/-- a fold of framed steps is framed -/
theorem foldE_framed (g : Good ctx) : ∀ (l : List A) (s : Store κ), Consistent ctx s →
    (∀ a ∈ l, Framed ctx step a s) → Framed ctx (foldE step) l s
  | [], s, _, _ => by
    intro t _ _
    simp only [foldE]
    refine ⟨fun _ h => (by cases h), fun r' s' h => ?_⟩
    cases h
    exact ⟨[], rfl, DeltaOK.nil ctx, rfl⟩
  | a :: l, s, hs, hall => by
    intro t ht hle
    have ha := hall a (List.mem_cons_self ..)
    rcases ha.self hs with ⟨e, he⟩ | ⟨r, Δ, hΔ, ho⟩
    · show Shift ctx s t (foldE step (a :: l) s) (foldE step (a :: l) t)
      rw [foldE_cons_error he, foldE_cons_error (ha.error_at ht hle he)]
      exact ⟨fun _ h => h, fun _ _ h => by cases h⟩
    · show Shift ctx s t (foldE step (a :: l) s) (foldE step (a :: l) t)
      rw [foldE_cons_ok ho, foldE_cons_ok (ha.ok_at ht hle ho)]
      have hs1 : Consistent ctx (Δ ++ s) := hs.append hΔ
      have ht1 : Consistent ctx (Δ ++ t) := ht.append hΔ
      have hle1 : Store.le ctx s (Δ ++ s) := Store.le_append g hΔ hs
      have ih : Shift ctx (Δ ++ s) (Δ ++ t) (foldE step l (Δ ++ s)) (foldE step l (Δ ++ t)) :=
        foldE_framed g l (Δ ++ s) hs1
          (fun b hb => (hall b (List.mem_cons_of_mem _ hb)).up hs hs1 hle1) (Δ ++ t) ht1
          (Store.le_append_congr Δ hle)
      cases hr : foldE step l (Δ ++ s) with
      | error e =>
        rw [ih.1 e hr]
        exact ⟨fun _ h => h, fun _ _ h => by cases h⟩
      | ok v =>
        obtain ⟨rs, s2⟩ := v
        obtain ⟨Δ2, rfl, hΔ2, hrt⟩ := ih.2 _ _ hr
        rw [hrt]
        simp only [consRes]
        refine ⟨fun _ h => (by cases h), fun r' s' h => ?_⟩
        cases h
        exact ⟨Δ2 ++ Δ, by rw [List.append_assoc], hΔ2.append hΔ, by rw [List.append_assoc]⟩

/-- the two folds have the same outcome: both fail, or both succeed with the same results up to
order and with the same cache -/
def FoldEq (ctx : Ctx κ) (x y : Except Err (List ρ × Store κ)) : Prop :=
  match x, y with
  | .error _, .error _ => True
  | .ok (rs, s1), .ok (rs', s2) => rs.Perm rs' ∧ Store.eqv ctx s1 s2
  | _, _ => False

theorem FoldEq.refl (x : Except Err (List ρ × Store κ)) : FoldEq ctx x x := by
  cases x with
  | error e => trivial
  | ok v => exact ⟨List.Perm.refl _, Store.eqv.refl ctx _⟩

theorem FoldEq.trans {x y z : Except Err (List ρ × Store κ)} (h1 : FoldEq ctx x y)
    (h2 : FoldEq ctx y z) : FoldEq ctx x z := by
  cases x with
  | error e =>
    cases y with
    | error e' =>
      cases z with
      | error _ => trivial
      | ok _ => exact h2
    | ok _ => exact absurd h1 (by simp [FoldEq])
  | ok v =>
    cases y with
    | error e' => exact absurd h1 (by simp [FoldEq])
    | ok v' =>
      cases z with
      | error _ => exact absurd h2 (by simp [FoldEq])
      | ok v'' => exact ⟨h1.1.trans h2.1, h1.2.trans h2.2⟩

theorem FoldEq.cons {x y : Except Err (List ρ × Store κ)} (r : ρ) (h : FoldEq ctx x y) :
    FoldEq ctx (consRes r x) (consRes r y) := by
  cases x with
  | error e =>
    cases y with
    | error e' => trivial
    | ok _ => exact h
  | ok v =>
    cases y with
    | error e' => exact h
    | ok v' => exact ⟨h.1.cons r, h.2⟩

/-- **Abstract order independence.**  If every step is framed at the initial store, running the
steps in any two orders gives the same outcome. -/
theorem foldE_perm (g : Good ctx) {l l' : List A} (hp : l.Perm l') :
    ∀ (s : Store κ), Consistent ctx s → (∀ a ∈ l, Framed ctx step a s) →
      FoldEq ctx (foldE step l s) (foldE step l' s) := by
  induction hp with
  | nil => intro s _ _; exact FoldEq.refl _
  | cons a hp ih =>
    rename_i l1 l2
    intro s hs hall
    have ha := hall a (List.mem_cons_self ..)
    rcases ha.self hs with ⟨e, he⟩ | ⟨r, Δ, hΔ, ho⟩
    · rw [foldE_cons_error he, foldE_cons_error he]; trivial
    · rw [foldE_cons_ok ho, foldE_cons_ok ho]
      have hs1 : Consistent ctx (Δ ++ s) := hs.append hΔ
      have hle1 : Store.le ctx s (Δ ++ s) := Store.le_append g hΔ hs
      exact FoldEq.cons r (ih (Δ ++ s) hs1
        (fun b hb => (hall b (List.mem_cons_of_mem _ hb)).up hs hs1 hle1))
  | swap x y l =>
    intro s hs hall
    have hy := hall y (List.mem_cons_self ..)
    have hx := hall x (List.mem_cons_of_mem _ (List.mem_cons_self ..))
    have hL := foldE_framed (step := step) g l s hs
      (fun b hb => hall b (List.mem_cons_of_mem _ (List.mem_cons_of_mem _ hb)))
    rcases hx.self hs with ⟨ex, hxe⟩ | ⟨rx, Δx, hΔx, hxo⟩
    · -- `x` fails: both orders fail
      rw [foldE_cons_error (l := y :: l) hxe]
      rcases hy.self hs with ⟨ey, hye⟩ | ⟨ry, Δy, hΔy, hyo⟩
      · rw [foldE_cons_error hye]; trivial
      · rw [foldE_cons_ok hyo,
          foldE_cons_error (hx.error_at (hs.append hΔy) (Store.le_append g hΔy hs) hxe)]
        trivial
    · rcases hy.self hs with ⟨ey, hye⟩ | ⟨ry, Δy, hΔy, hyo⟩
      · rw [foldE_cons_error (l := x :: l) hye, foldE_cons_ok hxo,
          foldE_cons_error (hy.error_at (hs.append hΔx) (Store.le_append g hΔx hs) hye)]
        trivial
      · have hsx : Consistent ctx (Δx ++ s) := hs.append hΔx
        have hsy : Consistent ctx (Δy ++ s) := hs.append hΔy
        have hlex : Store.le ctx s (Δx ++ s) := Store.le_append g hΔx hs
        have hley : Store.le ctx s (Δy ++ s) := Store.le_append g hΔy hs
        have hsxy : Consistent ctx (Δx ++ (Δy ++ s)) := hsy.append hΔx
        have hsyx : Consistent ctx (Δy ++ (Δx ++ s)) := hsx.append hΔy
        have hlexy : Store.le ctx s (Δx ++ (Δy ++ s)) :=
          Store.le_trans hley (Store.le_append g hΔx hsy)
        have hleyx : Store.le ctx s (Δy ++ (Δx ++ s)) :=
          Store.le_trans hlex (Store.le_append g hΔy hsx)
        rw [foldE_cons_ok hyo, foldE_cons_ok (hx.ok_at hsy hley hxo),
          foldE_cons_ok hxo, foldE_cons_ok (hy.ok_at hsx hlex hyo)]
        rcases hL.self hs with ⟨el, hle⟩ | ⟨rl, Δl, hΔl, hlo⟩
        · have h1 : foldE step l (Δx ++ (Δy ++ s)) = .error el := hL.error_at hsxy hlexy hle
          have h2 : foldE step l (Δy ++ (Δx ++ s)) = .error el := hL.error_at hsyx hleyx hle
          rw [h1, h2]; trivial
        · have h1 : foldE step l (Δx ++ (Δy ++ s)) = .ok (rl, Δl ++ (Δx ++ (Δy ++ s))) :=
            hL.ok_at hsxy hlexy hlo
          have h2 : foldE step l (Δy ++ (Δx ++ s)) = .ok (rl, Δl ++ (Δy ++ (Δx ++ s))) :=
            hL.ok_at hsyx hleyx hlo
          rw [h1, h2]
          exact ⟨List.Perm.swap _ _ _,
            Store.eqv_append_congr Δl (Store.eqv_append_comm g hΔx hΔy s)⟩
  | trans hp1 hp2 ih1 ih2 =>
    intro s hs hall
    exact (ih1 s hs hall).trans (ih2 s hs (fun a ha => hall a (hp1.mem_iff.2 ha)))

/-- a fold of framed steps succeeds iff every step succeeds on the *initial* store -/
theorem foldE_ok_iff (g : Good ctx) : ∀ (l : List A) (s : Store κ), Consistent ctx s →
    (∀ a ∈ l, Framed ctx step a s) →
    ((∃ v, foldE step l s = .ok v) ↔ ∀ a ∈ l, ∃ v, step a s = .ok v)
  | [], s, _, _ => by simp [foldE]
  | a :: l, s, hs, hall => by
    have ha := hall a (List.mem_cons_self ..)
    rcases ha.self hs with ⟨e, he⟩ | ⟨r, Δ, hΔ, ho⟩
    · rw [foldE_cons_error he]
      constructor
      · rintro ⟨v, hv⟩; cases hv
      · intro h
        obtain ⟨v, hv⟩ := h a (List.mem_cons_self ..)
        rw [he] at hv; cases hv
    · have hs1 : Consistent ctx (Δ ++ s) := hs.append hΔ
      have hle1 : Store.le ctx s (Δ ++ s) := Store.le_append g hΔ hs
      have ih := foldE_ok_iff g l (Δ ++ s) hs1
        (fun b hb => (hall b (List.mem_cons_of_mem _ hb)).up hs hs1 hle1)
      rw [foldE_cons_ok ho]
      constructor
      · intro h
        have h' : ∃ v, foldE step l (Δ ++ s) = .ok v := by
          cases hr : foldE step l (Δ ++ s) with
          | error e => rw [hr] at h; obtain ⟨v, hv⟩ := h; cases hv
          | ok v => exact ⟨v, rfl⟩
        intro b hb
        rcases List.mem_cons.1 hb with rfl | hb
        · exact ⟨_, ho⟩
        · obtain ⟨v, hv⟩ := ih.1 h' b hb
          have hb' := hall b (List.mem_cons_of_mem _ hb)
          rcases hb'.self hs with ⟨e, he⟩ | ⟨r', Δ', _, ho'⟩
          · rw [hb'.error_at hs1 hle1 he] at hv; cases hv
          · exact ⟨_, ho'⟩
      · intro h
        have : ∀ b ∈ l, ∃ v, step b (Δ ++ s) = .ok v := by
          intro b hb
          obtain ⟨v, hv⟩ := h b (List.mem_cons_of_mem _ hb)
          have hb' := hall b (List.mem_cons_of_mem _ hb)
          rcases hb'.self hs with ⟨e, he⟩ | ⟨r', Δ', _, ho'⟩
          · rw [he] at hv; cases hv
          · exact ⟨_, hb'.ok_at hs1 hle1 ho'⟩
        obtain ⟨v, hv⟩ := ih.2 this
        obtain ⟨rs, s2⟩ := v
        rw [hv]
        exact ⟨_, rfl⟩

end Abstract

/-! ## `commitEntries` as a fold of framed steps -/

/-- one entry of `commitEntries`, with the result components grouped for `foldE` -/
def commitStep (ctx : Ctx κ) (strat : Strat) (sk : Bool) (old : List Child) (e : Name × Node κ)
    (s : Store κ) : Except Err (((Name × Node κ) × List Child) × Store κ) :=
  match commitHead ctx strat sk old e s with
  | .error err => .error err
  | .ok (e', c1, s1) => .ok ((e', c1), s1)

/-- regroup the results of the fold as `commitEntries` returns them -/
def unzipRes : Except Err (List ((Name × Node κ) × List Child) × Store κ) →
    Except Err (List (Name × Node κ) × List Child × Store κ)
  | .error e => .error e
  | .ok (rs, s') => .ok (rs.map (·.1), (rs.map (·.2)).flatten, s')

theorem commitEntries_eq_foldE (ctx : Ctx κ) (strat : Strat) (sk : Bool) (old : List Child) :
    ∀ (es : List (Name × Node κ)) (s : Store κ),
      commitEntries ctx strat sk es old s = unzipRes (foldE (commitStep ctx strat sk old) es s)
  | [], s => by simp [commitEntries, foldE, unzipRes]
  | e :: r, s => by
    rw [commitEntries_cons]
    simp only [foldE, commitStep]
    cases hh : commitHead ctx strat sk old e s with
    | error err => rfl
    | ok v =>
      obtain ⟨e', c1, s1⟩ := v
      simp only
      rw [commitEntries_eq_foldE ctx strat sk old r s1]
      cases foldE (commitStep ctx strat sk old) r s1 with
      | error err => rfl
      | ok w =>
        obtain ⟨rs, s2⟩ := w
        simp [consRes, unzipRes]

theorem commitStep_framed {ctx : Ctx κ} (g : Good ctx) (strat : Strat) (sk : Bool)
    (old : List Child) (e : Name × Node κ) {s : Store κ} (hs : Consistent ctx s)
    (h : (sk && e.2.isDir) = true ∨
      closedNode ctx s e.2 (pickChild old e.1 e.2.isDir) = true) :
    Framed ctx (commitStep ctx strat sk old) e s := by
  intro t ht hle
  have hsh := commitHead_shift strat sk old e (s := s) (t := t)
    (h.imp id (commitNode_frame g strat _ _ s t hs ht hle))
  unfold commitStep
  cases hr : commitHead ctx strat sk old e s with
  | error err =>
    rw [hsh.1 err hr]
    exact ⟨fun _ h => h, fun _ _ h => by cases h⟩
  | ok v =>
    obtain ⟨e', c1, s1⟩ := v
    obtain ⟨Δ, rfl, hΔ, hrt⟩ := hsh.2 _ _ _ hr
    rw [hrt]
    refine ⟨fun _ h => (by cases h), fun r' s' h => ?_⟩
    cases h
    exact ⟨Δ, rfl, hΔ, rfl⟩

/-- the two commits of a listing have the same outcome: both fail, or both succeed with the same
workspace entries and child records up to order, and the same cache -/
def CommitEq (ctx : Ctx κ)
    (x y : Except Err (List (Name × Node κ) × List Child × Store κ)) : Prop :=
  match x, y with
  | .error _, .error _ => True
  | .ok (o1, cs1, s1), .ok (o2, cs2, s2) => o1.Perm o2 ∧ cs1.Perm cs2 ∧ Store.eqv ctx s1 s2
  | _, _ => False

theorem CommitEq.of_foldEq {ctx : Ctx κ}
    {x y : Except Err (List ((Name × Node κ) × List Child) × Store κ)} (h : FoldEq ctx x y) :
    CommitEq ctx (unzipRes x) (unzipRes y) := by
  cases x with
  | error e =>
    cases y with
    | error e' => trivial
    | ok _ => exact h
  | ok v =>
    cases y with
    | error e' => exact h
    | ok v' => exact ⟨h.1.map _, (h.1.map _).flatten, h.2⟩

/-- **Order independence of `commitEntries`.** -/
theorem commitEntries_perm {ctx : Ctx κ} (g : Good ctx) (strat : Strat) (sk : Bool)
    {es es' : List (Name × Node κ)} (hp : es.Perm es') (old : List Child) {s : Store κ}
    (hs : Consistent ctx s) (hcl : closedList ctx s sk es old = true) :
    CommitEq ctx (commitEntries ctx strat sk es old s) (commitEntries ctx strat sk es' old s) := by
  rw [commitEntries_eq_foldE, commitEntries_eq_foldE]
  refine CommitEq.of_foldEq (foldE_perm g hp s hs ?_)
  intro e he
  exact commitStep_framed g strat sk old e hs (closedList_iff.1 hcl e he)

/-- success is decided entry by entry on the initial cache -/
theorem commitEntries_ok_iff {ctx : Ctx κ} (g : Good ctx) (strat : Strat) (sk : Bool)
    (es : List (Name × Node κ)) (old : List Child) {s : Store κ}
    (hs : Consistent ctx s) (hcl : closedList ctx s sk es old = true) :
    (∃ v, commitEntries ctx strat sk es old s = .ok v) ↔
      ∀ e ∈ es, ∃ v, commitHead ctx strat sk old e s = .ok v := by
  rw [commitEntries_eq_foldE]
  have h := foldE_ok_iff (step := commitStep ctx strat sk old) g es s hs
    (fun e he => commitStep_framed g strat sk old e hs (closedList_iff.1 hcl e he))
  constructor
  · intro hv
    have hv' : ∃ v, foldE (commitStep ctx strat sk old) es s = .ok v := by
      cases hr : foldE (commitStep ctx strat sk old) es s with
      | error e => rw [hr] at hv; obtain ⟨v, hv⟩ := hv; cases hv
      | ok v => exact ⟨v, rfl⟩
    intro e he
    obtain ⟨v, hv⟩ := h.1 hv' e he
    unfold commitStep at hv
    cases hr : commitHead ctx strat sk old e s with
    | error err => rw [hr] at hv; cases hv
    | ok w => exact ⟨w, rfl⟩
  · intro hall
    have : ∀ e ∈ es, ∃ v, commitStep ctx strat sk old e s = .ok v := by
      intro e he
      obtain ⟨⟨e', c1, s1⟩, hw⟩ := hall e he
      exact ⟨((e', c1), s1), by simp only [commitStep, hw]⟩
    obtain ⟨⟨rs, s2⟩, hv⟩ := h.2 this
    rw [hv]
    exact ⟨_, rfl⟩

/-! ## names of the results -/

theorem commitNode_name {ctx : Ctx κ} {strat : Strat} {n n' : Node κ} {c c' : Child}
    {s s' : Store κ} (h : commitNode ctx strat n c s = .ok (n', c', s')) :
    c'.name = c.name ∧ c'.isDir = c.isDir := by
  cases n with
  | dir es =>
    simp only [commitNode] at h
    split at h
    · split at h
      · cases h
      · split at h
        · cases h
        · cases h; exact ⟨rfl, rfl⟩
    · cases h
  | file x =>
    rw [commitNode_leaf ctx strat _ rfl] at h
    split at h
    · cases h
    · split at h
      · cases h
      · cases h; exact ⟨rfl, rfl⟩
  | link l =>
    rw [commitNode_leaf ctx strat _ rfl] at h
    split at h
    · cases h
    · split at h
      · cases h
      · cases h; exact ⟨rfl, rfl⟩
  | other =>
    rw [commitNode_leaf ctx strat _ rfl] at h
    split at h
    · cases h
    · split at h
      · cases h
      · cases h; exact ⟨rfl, rfl⟩

/-- the listing keeps its names in place; there is one child record per entry not skipped, under
the entry's name -/
theorem commitEntries_names {ctx : Ctx κ} {strat : Strat} {sk : Bool} {old : List Child} :
    ∀ {es o : List (Name × Node κ)} {cs : List Child} {s s' : Store κ},
      commitEntries ctx strat sk es old s = .ok (o, cs, s') →
      o.map (·.1) = es.map (·.1) ∧
      cs.map (·.name) = (es.filter (fun e => !(sk && e.2.isDir))).map (·.1)
  | [], o, cs, s, s', h => by
    simp only [commitEntries, Except.ok.injEq, Prod.mk.injEq] at h
    obtain ⟨rfl, rfl, _⟩ := h
    simp
  | e :: r, o, cs, s, s', h => by
    rw [commitEntries_cons] at h
    cases hh : commitHead ctx strat sk old e s with
    | error err => rw [hh] at h; cases h
    | ok v =>
      obtain ⟨e', c1, s1⟩ := v
      rw [hh] at h
      simp only at h
      cases hr : commitEntries ctx strat sk r old s1 with
      | error err => rw [hr] at h; cases h
      | ok w =>
        obtain ⟨r', cs', s2⟩ := w
        rw [hr] at h
        simp only [Except.ok.injEq, Prod.mk.injEq] at h
        obtain ⟨rfl, rfl, rfl⟩ := h
        obtain ⟨ih1, ih2⟩ := commitEntries_names hr
        unfold commitHead at hh
        cases hsk : (sk && e.2.isDir) with
        | true =>
          simp only [hsk, if_true, Except.ok.injEq, Prod.mk.injEq] at hh
          obtain ⟨rfl, rfl, rfl⟩ := hh
          refine ⟨by simp only [List.map_cons, ih1], ?_⟩
          rw [List.filter_cons]
          simp only [hsk, Bool.not_true, Bool.false_eq_true, if_false, List.nil_append]
          exact ih2
        | false =>
          simp only [hsk, Bool.false_eq_true, if_false] at hh
          cases hnm : ctx.nameOK e.1 with
          | false => simp only [hnm, Bool.not_false, if_true] at hh; cases hh
          | true =>
            simp only [hnm, Bool.not_true, Bool.false_eq_true, if_false] at hh
            cases hc : commitNode ctx strat e.2 (pickChild old e.1 e.2.isDir) s with
            | error err => rw [hc] at hh; cases hh
            | ok w =>
              obtain ⟨n', c', s1'⟩ := w
              rw [hc] at hh
              simp only [Except.ok.injEq, Prod.mk.injEq] at hh
              obtain ⟨rfl, rfl, rfl⟩ := hh
              have hn := (commitNode_name hc).1
              rw [pickChild_name] at hn
              refine ⟨by simp only [List.map_cons, ih1], ?_⟩
              rw [List.filter_cons]
              simp only [hsk, Bool.not_false, if_true, List.cons_append, List.nil_append,
                List.map_cons, hn, ih2]

/-! ## trees that are permutations of each other at every level -/

mutual
/-- `n'` is `n` with the listing of every directory (at every depth) reordered -/
def TreePerm : Node κ → Node κ → Prop
  | .dir es, n' => ∃ mid es', n' = .dir es' ∧ EntriesRel es mid ∧ mid.Perm es'
  | .file c, n' => n' = .file c
  | .link l, n' => n' = .link l
  | .other, n' => n' = .other
/-- entry by entry: the same names in the same order, `TreePerm`-related nodes -/
def EntriesRel : List (Name × Node κ) → List (Name × Node κ) → Prop
  | [], l' => l' = []
  | (nm, n) :: r, l' => ∃ n' r', l' = (nm, n') :: r' ∧ TreePerm n n' ∧ EntriesRel r r'
end

mutual
theorem TreePerm.refl : ∀ (n : Node κ), TreePerm n n
  | .dir es => by
    simp only [TreePerm]
    exact ⟨es, es, rfl, EntriesRel.refl es, List.Perm.refl _⟩
  | .file _ => by simp only [TreePerm]
  | .link _ => by simp only [TreePerm]
  | .other => by simp only [TreePerm]
theorem EntriesRel.refl : ∀ (es : List (Name × Node κ)), EntriesRel es es
  | [] => by simp only [EntriesRel]
  | (nm, n) :: r => by
    simp only [EntriesRel]
    exact ⟨n, r, rfl, TreePerm.refl n, EntriesRel.refl r⟩
end

/-- reordering the top-level listing only -/
theorem TreePerm.of_perm {es es' : List (Name × Node κ)} (h : es.Perm es') :
    TreePerm (.dir es) (.dir es') := by
  simp only [TreePerm]
  exact ⟨es, es', rfl, EntriesRel.refl es, h⟩

theorem TreePerm.dir {es mid es' : List (Name × Node κ)} (h1 : EntriesRel es mid)
    (h2 : mid.Perm es') : TreePerm (.dir es) (.dir es') := by
  simp only [TreePerm]
  exact ⟨mid, es', rfl, h1, h2⟩

theorem TreePerm.isDir_eq {n n' : Node κ} (h : TreePerm n n') : n'.isDir = n.isDir := by
  cases n with
  | dir es =>
    simp only [TreePerm] at h
    obtain ⟨_, _, rfl, _, _⟩ := h
    rfl
  | file c => simp only [TreePerm] at h; rw [h]
  | link l => simp only [TreePerm] at h; rw [h]
  | other => simp only [TreePerm] at h; rw [h]

theorem EntriesRel.cons_inv {nm : Name} {n : Node κ} {r l' : List (Name × Node κ)}
    (h : EntriesRel ((nm, n) :: r) l') :
    ∃ n' r', l' = (nm, n') :: r' ∧ TreePerm n n' ∧ EntriesRel r r' := by
  simpa only [EntriesRel] using h

theorem EntriesRel.cons {nm : Name} {n n' : Node κ} {r r' : List (Name × Node κ)}
    (h1 : TreePerm n n') (h2 : EntriesRel r r') : EntriesRel ((nm, n) :: r) ((nm, n') :: r') := by
  simp only [EntriesRel]
  exact ⟨n', r', rfl, h1, h2⟩

theorem EntriesRel.names : ∀ {es mid : List (Name × Node κ)}, EntriesRel es mid →
    mid.map (·.1) = es.map (·.1)
  | [], mid, h => by
    simp only [EntriesRel] at h
    rw [h]
  | (nm, n) :: r, mid, h => by
    obtain ⟨n', r', rfl, _, hr⟩ := h.cons_inv
    simp only [List.map_cons, EntriesRel.names hr]

mutual
/-- entry names pairwise distinct in every directory of the tree (what a listing always is) -/
def Node.nodupNames : Node κ → Bool
  | .dir es => decide ((es.map (·.1)).Nodup) && nodupNamesList es
  | .file _ => true
  | .link _ => true
  | .other => true
def nodupNamesList : List (Name × Node κ) → Bool
  | [] => true
  | (_, n) :: r => n.nodupNames && nodupNamesList r
end

theorem Node.nodupNames_dir {es : List (Name × Node κ)} :
    (Node.dir es).nodupNames = true ↔ (es.map (·.1)).Nodup ∧ nodupNamesList es = true := by
  simp only [Node.nodupNames, Bool.and_eq_true, decide_eq_true_eq]

theorem nodupNamesList_cons {nm : Name} {n : Node κ} {r : List (Name × Node κ)} :
    nodupNamesList ((nm, n) :: r) = true ↔ n.nodupNames = true ∧ nodupNamesList r = true := by
  simp only [nodupNamesList, Bool.and_eq_true]

mutual
theorem closedNode_treePerm {ctx : Ctx κ} {s : Store κ} :
    ∀ (n n' : Node κ) (c : Child), TreePerm n n' → closedNode ctx s n c = true →
      closedNode ctx s n' c = true
  | .dir es, n', c, hp, h => by
    simp only [TreePerm] at hp
    obtain ⟨mid, es', rfl, hrel, hperm⟩ := hp
    rw [closedNode_dir] at h ⊢
    intro hd
    obtain ⟨h1, h2⟩ := h hd
    refine ⟨h1, fun old ho => ?_⟩
    have hm := closedList_rel es mid old false hrel (h2 old ho)
    rw [closedList_iff] at hm ⊢
    exact fun e he => hm e (hperm.mem_iff.2 he)
  | .file _, n', c, hp, h => by simp only [TreePerm] at hp; rw [hp]; exact h
  | .link _, n', c, hp, h => by simp only [TreePerm] at hp; rw [hp]; exact h
  | .other, n', c, hp, h => by simp only [TreePerm] at hp; rw [hp]; exact h
theorem closedList_rel {ctx : Ctx κ} {s : Store κ} :
    ∀ (es mid : List (Name × Node κ)) (old : List Child) (sk : Bool), EntriesRel es mid →
      closedList ctx s sk es old = true → closedList ctx s sk mid old = true
  | [], mid, old, sk, hr, h => by
    simp only [EntriesRel] at hr
    rw [hr]; exact h
  | (nm, n) :: r, mid, old, sk, hr, h => by
    obtain ⟨n', r', rfl, hn, hr'⟩ := hr.cons_inv
    rw [closedList_cons] at h ⊢
    rw [hn.isDir_eq]
    refine ⟨?_, closedList_rel r r' old sk hr' h.2⟩
    rcases h.1 with h1 | h1
    · exact Or.inl h1
    · exact Or.inr (closedNode_treePerm n n' _ hn h1)
end

/-! ## commit of a directory node, normal form -/

/-- what `commitNode` does with the result of `commitEntries`: write the manifest -/
def finishDir (ctx : Ctx κ) (c : Child) :
    Except Err (List (Name × Node κ) × List Child × Store κ) →
      Except Err (Node κ × Child × Store κ)
  | .error e => .error e
  | .ok (es', cs, s') =>
    .ok (.dir es',
      { c with sum := (Obj.man .new c.name (sortChildren cs) : Obj κ).digest ctx },
      s'.put ((Obj.man .new c.name (sortChildren cs) : Obj κ).digest ctx)
        (.man .new c.name (sortChildren cs)))

theorem commitNode_dir_eq (ctx : Ctx κ) (strat : Strat) (es : List (Name × Node κ)) (c : Child)
    (s : Store κ) :
    commitNode ctx strat (.dir es) c s =
      if c.isDir then
        match oldManifest ctx s c.sum with
        | .error e => .error e
        | .ok old => finishDir ctx c (commitEntries ctx strat false es old s)
      else .error .notRegular := by
  simp only [commitNode]
  by_cases hd : c.isDir = true
  · simp only [hd, if_true]
    cases oldManifest ctx s c.sum with
    | error e => rfl
    | ok old =>
      simp only
      cases commitEntries ctx strat false es old s with
      | error e => rfl
      | ok v => obtain ⟨es', cs, s'⟩ := v; simp only [finishDir, hd]
  · simp only [hd]
    rfl

theorem commitNode_grows {ctx : Ctx κ} (g : Good ctx) {strat : Strat} {n n' : Node κ}
    {c c' : Child} {s s1 : Store κ} (hs : Consistent ctx s)
    (hcl : closedNode ctx s n c = true) (h : commitNode ctx strat n c s = .ok (n', c', s1)) :
    ∃ Δ, s1 = Δ ++ s ∧ DeltaOK ctx Δ := by
  obtain ⟨Δ, h1, h2, _⟩ :=
    (commitNode_frame g strat n c s s hs hs (Store.le_refl ctx s) hcl).2 _ _ _ h
  exact ⟨Δ, h1, h2⟩

/-- both fail, or both succeed with `TreePerm`-related workspace nodes, the *same* child record
(in particular the same checksum) and the same cache -/
def NodeEq (ctx : Ctx κ) (x y : Except Err (Node κ × Child × Store κ)) : Prop :=
  match x, y with
  | .error _, .error _ => True
  | .ok (n1, c1, s1), .ok (n2, c2, s2) => TreePerm n1 n2 ∧ c1 = c2 ∧ Store.eqv ctx s1 s2
  | _, _ => False

/-- both fail, or both succeed with entry-wise related listings, the same child records in the
same order, and the same cache -/
def EntriesEq (ctx : Ctx κ)
    (x y : Except Err (List (Name × Node κ) × List Child × Store κ)) : Prop :=
  match x, y with
  | .error _, .error _ => True
  | .ok (o1, cs1, s1), .ok (o2, cs2, s2) => EntriesRel o1 o2 ∧ cs1 = cs2 ∧ Store.eqv ctx s1 s2
  | _, _ => False

theorem NodeEq.of_shift {ctx : Ctx κ} {s t : Store κ}
    {x y : Except Err (Node κ × Child × Store κ)} (h : Shift3 ctx s t x y)
    (he : Store.eqv ctx s t) : NodeEq ctx x y := by
  cases x with
  | error e => rw [h.1 e rfl]; trivial
  | ok v =>
    obtain ⟨n1, c1, s1⟩ := v
    obtain ⟨Δ, rfl, _, hy⟩ := h.2 _ _ _ rfl
    rw [hy]
    exact ⟨TreePerm.refl _, rfl, Store.eqv_append_congr Δ he⟩

/-- put the result of the head entry in front of the results of the rest -/
def consE (e' : Name × Node κ) (c1 : List Child) :
    Except Err (List (Name × Node κ) × List Child × Store κ) →
      Except Err (List (Name × Node κ) × List Child × Store κ)
  | .error err => .error err
  | .ok (r', cs, s2) => .ok (e' :: r', c1 ++ cs, s2)

theorem commitEntries_cons' (ctx : Ctx κ) (strat : Strat) (skipDirs : Bool) (e : Name × Node κ)
    (r : List (Name × Node κ)) (old : List Child) (s : Store κ) :
    commitEntries ctx strat skipDirs (e :: r) old s =
      match commitHead ctx strat skipDirs old e s with
      | .error err => .error err
      | .ok (e', c1, s1) => consE e' c1 (commitEntries ctx strat skipDirs r old s1) := by
  rw [commitEntries_cons]
  cases commitHead ctx strat skipDirs old e s with
  | error err => rfl
  | ok v =>
    obtain ⟨e', c1, s1⟩ := v
    simp only
    cases commitEntries ctx strat skipDirs r old s1 with
    | error err => rfl
    | ok w => obtain ⟨r', cs, s2⟩ := w; rfl

theorem EntriesEq.consE {ctx : Ctx κ} {nm : Name} {n n' : Node κ} (c1 : List Child)
    {x y : Except Err (List (Name × Node κ) × List Child × Store κ)} (hn : TreePerm n n')
    (h : EntriesEq ctx x y) : EntriesEq ctx (consE (nm, n) c1 x) (consE (nm, n') c1 y) := by
  cases x with
  | error e =>
    cases y with
    | error e' => trivial
    | ok _ => exact h
  | ok v =>
    cases y with
    | error e' => exact h
    | ok v' =>
      obtain ⟨h1, h2, h3⟩ := h
      exact ⟨EntriesRel.cons hn h1, by rw [h2], h3⟩

mutual
/-- **Order independence of `commitNode` at every level.**  Committing two trees that differ only
in the order of the listings (at any depth) gives the same outcome: the same error status, the
same child record — so the same checksum —, the same cache, and workspace trees that again differ
only in the order of the listings. -/
theorem commitNode_treePerm {ctx : Ctx κ} (g : Good ctx) (strat : Strat) :
    ∀ (n n' : Node κ) (c : Child) (s t : Store κ), TreePerm n n' → n.nodupNames = true →
      Consistent ctx s → Consistent ctx t → Store.eqv ctx s t → closedNode ctx s n c = true →
      NodeEq ctx (commitNode ctx strat n c s) (commitNode ctx strat n' c t)
  | .dir es, n', c, s, t, hp, hnd, hs, ht, he, hcl => by
    simp only [TreePerm] at hp
    obtain ⟨mid, es', rfl, hrel, hperm⟩ := hp
    rw [commitNode_dir_eq, commitNode_dir_eq]
    by_cases hd : c.isDir = true
    · simp only [hd, if_true]
      obtain ⟨_, h2⟩ := closedNode_dir.1 hcl hd
      rw [← he.oldManifest g c.sum]
      cases ho : oldManifest ctx s c.sum with
      | error e => trivial
      | ok old =>
        simp only
        obtain ⟨hnd1, hnd2⟩ := Node.nodupNames_dir.1 hnd
        have hclt : closedList ctx t false es old = true :=
          closedList_mono g he.le es old false (h2 old ho)
        have hclm : closedList ctx t false mid old = true :=
          closedList_rel es mid old false hrel hclt
        have ihrel := commitEntries_rel g strat es mid old false s t hrel hnd2 hs ht he (h2 old ho)
        have hpm := commitEntries_perm g strat false hperm old ht hclm
        cases hA : commitEntries ctx strat false es old s with
        | error e =>
          rw [hA] at ihrel
          cases hB : commitEntries ctx strat false mid old t with
          | ok v => rw [hB] at ihrel; exact ihrel.elim
          | error e' =>
            rw [hB] at hpm
            cases hC : commitEntries ctx strat false es' old t with
            | ok v => rw [hC] at hpm; exact hpm.elim
            | error e'' => trivial
        | ok v =>
          obtain ⟨o1, cs1, s1⟩ := v
          rw [hA] at ihrel
          cases hB : commitEntries ctx strat false mid old t with
          | error e' => rw [hB] at ihrel; exact ihrel.elim
          | ok w =>
            obtain ⟨om, csm, t1⟩ := w
            rw [hB] at ihrel hpm
            obtain ⟨hr1, rfl, he1⟩ := ihrel
            cases hC : commitEntries ctx strat false es' old t with
            | error e'' => rw [hC] at hpm; exact hpm.elim
            | ok u =>
              obtain ⟨o2, cs2, t2⟩ := u
              rw [hC] at hpm
              obtain ⟨hp1, hp2, he2⟩ := hpm
              have hndc : (cs1.map (·.name)).Nodup := by
                rw [(commitEntries_names hA).2]
                exact List.Nodup.sublist (List.filter_sublist.map _) hnd1
              have hsc : sortChildren cs1 = sortChildren cs2 := sortChildren_perm hp2 hndc
              simp only [finishDir, hsc]
              exact ⟨TreePerm.dir hr1 hp1, rfl, Store.eqv_put_congr (he1.trans he2) _ _⟩
    · simp only [hd]
      trivial
  | .file x, n', c, s, t, hp, _, hs, ht, he, hcl => by
    simp only [TreePerm] at hp
    rw [hp]
    exact NodeEq.of_shift (commitNode_frame g strat _ c s t hs ht he.le hcl) he
  | .link l, n', c, s, t, hp, _, hs, ht, he, hcl => by
    simp only [TreePerm] at hp
    rw [hp]
    exact NodeEq.of_shift (commitNode_frame g strat _ c s t hs ht he.le hcl) he
  | .other, n', c, s, t, hp, _, hs, ht, he, hcl => by
    simp only [TreePerm] at hp
    rw [hp]
    exact NodeEq.of_shift (commitNode_frame g strat _ c s t hs ht he.le hcl) he
theorem commitEntries_rel {ctx : Ctx κ} (g : Good ctx) (strat : Strat) :
    ∀ (es mid : List (Name × Node κ)) (old : List Child) (sk : Bool) (s t : Store κ),
      EntriesRel es mid → nodupNamesList es = true → Consistent ctx s → Consistent ctx t →
      Store.eqv ctx s t → closedList ctx s sk es old = true →
      EntriesEq ctx (commitEntries ctx strat sk es old s) (commitEntries ctx strat sk mid old t)
  | [], mid, old, sk, s, t, hrel, _, _, _, he, _ => by
    simp only [EntriesRel] at hrel
    rw [hrel]
    simp only [commitEntries]
    exact ⟨by simp only [EntriesRel], rfl, he⟩
  | (nm, n) :: r, mid, old, sk, s, t, hrel, hnd, hs, ht, he, hcl => by
    obtain ⟨n', r', rfl, hn, hr'⟩ := hrel.cons_inv
    obtain ⟨hnd1, hnd2⟩ := nodupNamesList_cons.1 hnd
    obtain ⟨hc1, hc2⟩ := closedList_cons.1 hcl
    rw [commitEntries_cons', commitEntries_cons']
    unfold commitHead
    simp only [hn.isDir_eq]
    by_cases hsk : (sk && n.isDir) = true
    · simp only [hsk, if_true]
      exact EntriesEq.consE [] hn (commitEntries_rel g strat r r' old sk s t hr' hnd2 hs ht he hc2)
    · simp only [hsk]
      rcases hc1 with hc1 | hc1
      · exact absurd hc1 hsk
      · by_cases hnm : (!ctx.nameOK nm) = true
        · simp only [hnm, if_true]
          trivial
        · simp only [hnm]
          have ihn := commitNode_treePerm g strat n n' (pickChild old nm n.isDir) s t hn hnd1 hs ht
            he hc1
          have hclt : closedNode ctx t n' (pickChild old nm n.isDir) = true :=
            closedNode_treePerm n n' _ hn (closedNode_mono g he.le n _ hc1)
          cases hA : commitNode ctx strat n (pickChild old nm n.isDir) s with
          | error e =>
            rw [hA] at ihn
            cases hB : commitNode ctx strat n' (pickChild old nm n.isDir) t with
            | ok v => rw [hB] at ihn; exact ihn.elim
            | error e' => trivial
          | ok v =>
            obtain ⟨n1, c1, s1⟩ := v
            rw [hA] at ihn
            cases hB : commitNode ctx strat n' (pickChild old nm n.isDir) t with
            | error e' => rw [hB] at ihn; exact ihn.elim
            | ok w =>
              obtain ⟨n2, c2, t1⟩ := w
              rw [hB] at ihn
              obtain ⟨hn12, rfl, he1⟩ := ihn
              obtain ⟨Δ, rfl, hΔ⟩ := commitNode_grows g hs hc1 hA
              obtain ⟨Δ', rfl, hΔ'⟩ := commitNode_grows g ht hclt hB
              simp only
              exact EntriesEq.consE [c1] hn12
                (commitEntries_rel g strat r r' old sk (Δ ++ s) (Δ' ++ t) hr' hnd2 (hs.append hΔ)
                  (ht.append hΔ') he1
                  (closedList_mono g (Store.le_append g hΔ hs) r old sk hc2))
end

/-! ## listings reordered at every level, any `skipDirs`; the top-level artifact -/

/-- both fail, or both succeed with listings that differ only in order (at every level), child
records that agree up to order, and the same cache -/
def EntriesPermEq (ctx : Ctx κ)
    (x y : Except Err (List (Name × Node κ) × List Child × Store κ)) : Prop :=
  match x, y with
  | .error _, .error _ => True
  | .ok (o1, cs1, s1), .ok (o2, cs2, s2) =>
    (∃ om, EntriesRel o1 om ∧ om.Perm o2) ∧ cs1.Perm cs2 ∧ Store.eqv ctx s1 s2
  | _, _ => False

theorem commitEntries_treePerm {ctx : Ctx κ} (g : Good ctx) (strat : Strat) (sk : Bool)
    {es mid es' : List (Name × Node κ)} (hrel : EntriesRel es mid) (hperm : mid.Perm es')
    (hnd : nodupNamesList es = true) (old : List Child) {s t : Store κ}
    (hs : Consistent ctx s) (ht : Consistent ctx t) (he : Store.eqv ctx s t)
    (hcl : closedList ctx s sk es old = true) :
    EntriesPermEq ctx (commitEntries ctx strat sk es old s) (commitEntries ctx strat sk es' old t) := by
  have hclt : closedList ctx t sk es old = true := closedList_mono g he.le es old sk hcl
  have hclm : closedList ctx t sk mid old = true := closedList_rel es mid old sk hrel hclt
  have ihrel := commitEntries_rel g strat es mid old sk s t hrel hnd hs ht he hcl
  have hpm := commitEntries_perm g strat sk hperm old ht hclm
  cases hA : commitEntries ctx strat sk es old s with
  | error e =>
    rw [hA] at ihrel
    cases hB : commitEntries ctx strat sk mid old t with
    | ok v => rw [hB] at ihrel; exact ihrel.elim
    | error e' =>
      rw [hB] at hpm
      cases hC : commitEntries ctx strat sk es' old t with
      | ok v => rw [hC] at hpm; exact hpm.elim
      | error e'' => trivial
  | ok v =>
    obtain ⟨o1, cs1, s1⟩ := v
    rw [hA] at ihrel
    cases hB : commitEntries ctx strat sk mid old t with
    | error e' => rw [hB] at ihrel; exact ihrel.elim
    | ok w =>
      obtain ⟨om, csm, t1⟩ := w
      rw [hB] at ihrel hpm
      obtain ⟨hr1, rfl, he1⟩ := ihrel
      cases hC : commitEntries ctx strat sk es' old t with
      | error e'' => rw [hC] at hpm; exact hpm.elim
      | ok u =>
        obtain ⟨o2, cs2, t2⟩ := u
        rw [hC] at hpm
        obtain ⟨hp1, hp2, he2⟩ := hpm
        exact ⟨⟨om, hr1, hp1⟩, hp2, he1.trans he2⟩

/-- stable reads for a top-level artifact (`commitArt`) -/
def closedArt (ctx : Ctx κ) (s : Store κ) (a : Art) (n : Node κ) : Bool :=
  if a.isDir then
    match n with
    | .dir es =>
      (!hasSum a.sum || s.has a.sum) &&
        match oldManifest ctx s a.sum with
        | .error _ => true
        | .ok old => closedList ctx s a.noRec es old
    | _ => true
  else
    match n with
    | .link (.obj d) => s.has d
    | _ => true

/-- both fail, or both succeed with `TreePerm`-related workspace nodes, the same checksum and the
same cache -/
def ArtEq (ctx : Ctx κ) (x y : Except Err (Node κ × Digest × Store κ)) : Prop :=
  match x, y with
  | .error _, .error _ => True
  | .ok (n1, d1, s1), .ok (n2, d2, s2) => TreePerm n1 n2 ∧ d1 = d2 ∧ Store.eqv ctx s1 s2
  | _, _ => False

theorem ArtEq.of_shift {ctx : Ctx κ} {s t : Store κ}
    {x y : Except Err (Node κ × Digest × Store κ)} (h : Shift3 ctx s t x y)
    (he : Store.eqv ctx s t) : ArtEq ctx x y := by
  cases x with
  | error e => rw [h.1 e rfl]; trivial
  | ok v =>
    obtain ⟨n1, c1, s1⟩ := v
    obtain ⟨Δ, rfl, _, hy⟩ := h.2 _ _ _ rfl
    rw [hy]
    exact ⟨TreePerm.refl _, rfl, Store.eqv_append_congr Δ he⟩

/-- what `commitArt` does with the result of `commitEntries` -/
def finishArt (ctx : Ctx κ) (a : Art) :
    Except Err (List (Name × Node κ) × List Child × Store κ) →
      Except Err (Node κ × Digest × Store κ)
  | .error e => .error e
  | .ok (es', cs, s') =>
    .ok (.dir es', (Obj.man .new a.path (sortChildren cs) : Obj κ).digest ctx,
      s'.put ((Obj.man .new a.path (sortChildren cs) : Obj κ).digest ctx)
        (.man .new a.path (sortChildren cs)))

theorem commitArt_dir_eq (ctx : Ctx κ) (strat : Strat) (a : Art) (ha : a.isDir = true)
    (es : List (Name × Node κ)) (s : Store κ) :
    commitArt ctx strat a (some (.dir es)) s =
      match oldManifest ctx s a.sum with
      | .error e => .error e
      | .ok old => finishArt ctx a (commitEntries ctx strat a.noRec es old s) := by
  simp only [commitArt, ha, if_true]
  cases oldManifest ctx s a.sum with
  | error e => rfl
  | ok old =>
    simp only
    cases commitEntries ctx strat a.noRec es old s with
    | error e => rfl
    | ok v => obtain ⟨es', cs, s'⟩ := v; rfl

/-- **Order independence of `LocalCache.Commit`** (`commitArt`): two workspace trees that differ
only in the order of the listings (at any depth) give the same error status, the same checksum, the
same cache, and workspace trees that again differ only in the order of the listings. -/
theorem commitArt_treePerm {ctx : Ctx κ} (g : Good ctx) (strat : Strat) (a : Art)
    {n n' : Node κ} (hp : TreePerm n n') (hnd : n.nodupNames = true) {s t : Store κ}
    (hs : Consistent ctx s) (ht : Consistent ctx t) (he : Store.eqv ctx s t)
    (hcl : closedArt ctx s a n = true) :
    ArtEq ctx (commitArt ctx strat a (some n) s) (commitArt ctx strat a (some n') t) := by
  cases ha : a.isDir with
  | true =>
    cases n with
    | dir es =>
      simp only [TreePerm] at hp
      obtain ⟨mid, es', rfl, hrel, hperm⟩ := hp
      rw [commitArt_dir_eq ctx strat a ha, commitArt_dir_eq ctx strat a ha]
      simp only [closedArt, ha, if_true, Bool.and_eq_true] at hcl
      rw [← he.oldManifest g a.sum]
      cases ho : oldManifest ctx s a.sum with
      | error e => trivial
      | ok old =>
        rw [ho] at hcl
        simp only
        obtain ⟨hnd1, hnd2⟩ := Node.nodupNames_dir.1 hnd
        have h := commitEntries_treePerm g strat a.noRec hrel hperm hnd2 old hs ht he hcl.2
        cases hA : commitEntries ctx strat a.noRec es old s with
        | error e =>
          cases hB : commitEntries ctx strat a.noRec es' old t with
          | error e' => trivial
          | ok _ => rw [hA, hB] at h; exact h.elim
        | ok v =>
          obtain ⟨o1, cs1, s1⟩ := v
          cases hB : commitEntries ctx strat a.noRec es' old t with
          | error e' => rw [hA, hB] at h; exact h.elim
          | ok w =>
            obtain ⟨o2, cs2, t2⟩ := w
            rw [hA, hB] at h
            obtain ⟨⟨om, hr1, hp1⟩, hp2, he2⟩ := h
            have hndc : (cs1.map (·.name)).Nodup := by
              rw [(commitEntries_names hA).2]
              exact List.Nodup.sublist (List.filter_sublist.map _) hnd1
            have hsc : sortChildren cs1 = sortChildren cs2 := sortChildren_perm hp2 hndc
            simp only [finishArt, hsc]
            exact ⟨TreePerm.dir hr1 hp1, rfl, Store.eqv_put_congr he2 _ _⟩
    | file x =>
      simp only [TreePerm] at hp
      rw [hp]
      simp only [commitArt, ha, if_true]
      trivial
    | link l =>
      simp only [TreePerm] at hp
      rw [hp]
      simp only [commitArt, ha, if_true]
      trivial
    | other =>
      simp only [TreePerm] at hp
      rw [hp]
      simp only [commitArt, ha, if_true]
      trivial
  | false =>
    simp only [commitArt, ha, Bool.false_eq_true, if_false]
    cases n with
    | dir es =>
      simp only [TreePerm] at hp
      obtain ⟨mid, es', rfl, _, _⟩ := hp
      rw [commitFile_dir, commitFile_dir]
      trivial
    | file x =>
      simp only [TreePerm] at hp
      rw [hp]
      exact ArtEq.of_shift (commitFile_frame strat a.skip _ a.sum he.le
        (fun d hd => by cases hd)) he
    | link l =>
      simp only [TreePerm] at hp
      rw [hp]
      refine ArtEq.of_shift (commitFile_frame strat a.skip _ a.sum he.le (fun d hd => ?_)) he
      cases hd
      simpa [closedArt, ha] using hcl
    | other =>
      simp only [TreePerm] at hp
      rw [hp]
      exact ArtEq.of_shift (commitFile_frame strat a.skip _ a.sum he.le
        (fun d hd => by cases hd)) he

/-! ## fresh commits: the hypothesis reduces to "no dangling link into the cache" -/

mutual
/-- every link into the cache resolves -/
def Node.linksResolve (s : Store κ) : Node κ → Bool
  | .dir es => linksResolveList s es
  | .link (.obj d) => s.has d
  | .link (.foreign _) => true
  | .file _ => true
  | .other => true
def linksResolveList (s : Store κ) : List (Name × Node κ) → Bool
  | [] => true
  | (_, n) :: r => n.linksResolve s && linksResolveList s r
end

theorem pickChild_nil (nm : Name) (b : Bool) : pickChild [] nm b = ⟨nm, "", b⟩ := rfl

mutual
/-- for a first commit (no recorded checksum) the reads are stable as soon as no link into the
cache dangles -/
theorem closedNode_fresh (ctx : Ctx κ) (s : Store κ) :
    ∀ (n : Node κ) (nm : Name) (b : Bool), n.linksResolve s = true →
      closedNode ctx s n ⟨nm, "", b⟩ = true
  | .dir es, nm, b, h => by
    rw [closedNode_dir]
    intro _
    refine ⟨fun hh => ?_, fun old ho => ?_⟩
    · rw [hasSum_empty] at hh; cases hh
    · rw [oldManifest_empty] at ho
      cases ho
      exact closedList_fresh ctx s es false (by simpa [Node.linksResolve] using h)
  | .link (.obj d), nm, b, h => by
    simp only [closedNode, Bool.or_eq_true]
    exact Or.inr (by simpa [Node.linksResolve] using h)
  | .link (.foreign _), _, _, _ => by simp [closedNode]
  | .file _, _, _, _ => by simp [closedNode]
  | .other, _, _, _ => by simp [closedNode]
theorem closedList_fresh (ctx : Ctx κ) (s : Store κ) :
    ∀ (es : List (Name × Node κ)) (sk : Bool), linksResolveList s es = true →
      closedList ctx s sk es [] = true
  | [], _, _ => by simp [closedList]
  | (nm, n) :: r, sk, h => by
    simp only [linksResolveList, Bool.and_eq_true] at h
    rw [closedList_cons, pickChild_nil]
    exact ⟨Or.inr (closedNode_fresh ctx s n nm _ h.1), closedList_fresh ctx s r sk h.2⟩
end

/-! ## reading the outcome relations -/

theorem closedList_perm {ctx : Ctx κ} {s : Store κ} {sk : Bool} {old : List Child}
    {es es' : List (Name × Node κ)} (hp : es.Perm es') :
    closedList ctx s sk es old = true ↔ closedList ctx s sk es' old = true := by
  rw [closedList_iff, closedList_iff]
  exact ⟨fun h e he => h e (hp.mem_iff.2 he), fun h e he => h e (hp.mem_iff.1 he)⟩

theorem CommitEq.ok_left {ctx : Ctx κ}
    {x y : Except Err (List (Name × Node κ) × List Child × Store κ)} (h : CommitEq ctx x y)
    {o1 : List (Name × Node κ)} {cs1 : List Child} {s1 : Store κ} (hx : x = .ok (o1, cs1, s1)) :
    ∃ o2 cs2 s2, y = .ok (o2, cs2, s2) ∧ o1.Perm o2 ∧ cs1.Perm cs2 ∧ Store.eqv ctx s1 s2 := by
  subst hx
  cases y with
  | error e => exact h.elim
  | ok v => obtain ⟨o2, cs2, s2⟩ := v; exact ⟨o2, cs2, s2, rfl, h⟩

theorem CommitEq.error_left {ctx : Ctx κ}
    {x y : Except Err (List (Name × Node κ) × List Child × Store κ)} (h : CommitEq ctx x y)
    {e : Err} (hx : x = .error e) : ∃ e', y = .error e' := by
  subst hx
  cases y with
  | error e' => exact ⟨e', rfl⟩
  | ok v => exact h.elim

theorem CommitEq.symm {ctx : Ctx κ}
    {x y : Except Err (List (Name × Node κ) × List Child × Store κ)} (h : CommitEq ctx x y) :
    CommitEq ctx y x := by
  cases x with
  | error e =>
    cases y with
    | error e' => trivial
    | ok _ => exact h.elim
  | ok v =>
    cases y with
    | error e' => exact h.elim
    | ok w => exact ⟨h.1.symm, h.2.1.symm, h.2.2.symm⟩

theorem NodeEq.ok_left {ctx : Ctx κ} {x y : Except Err (Node κ × Child × Store κ)}
    (h : NodeEq ctx x y) {n1 : Node κ} {c1 : Child} {s1 : Store κ} (hx : x = .ok (n1, c1, s1)) :
    ∃ n2 s2, y = .ok (n2, c1, s2) ∧ TreePerm n1 n2 ∧ Store.eqv ctx s1 s2 := by
  subst hx
  cases y with
  | error e => exact h.elim
  | ok v =>
    obtain ⟨n2, c2, s2⟩ := v
    obtain ⟨h1, rfl, h3⟩ := h
    exact ⟨n2, s2, rfl, h1, h3⟩

theorem NodeEq.error_left {ctx : Ctx κ} {x y : Except Err (Node κ × Child × Store κ)}
    (h : NodeEq ctx x y) {e : Err} (hx : x = .error e) : ∃ e', y = .error e' := by
  subst hx
  cases y with
  | error e' => exact ⟨e', rfl⟩
  | ok v => exact h.elim

theorem NodeEq.ok_right {ctx : Ctx κ} {x y : Except Err (Node κ × Child × Store κ)}
    (h : NodeEq ctx x y) {n2 : Node κ} {c2 : Child} {s2 : Store κ} (hy : y = .ok (n2, c2, s2)) :
    ∃ n1 s1, x = .ok (n1, c2, s1) ∧ TreePerm n1 n2 ∧ Store.eqv ctx s1 s2 := by
  subst hy
  cases x with
  | error e => exact h.elim
  | ok v =>
    obtain ⟨n1, c1, s1⟩ := v
    obtain ⟨h1, rfl, h3⟩ := h
    exact ⟨n1, s1, rfl, h1, h3⟩

theorem ArtEq.ok_left {ctx : Ctx κ} {x y : Except Err (Node κ × Digest × Store κ)}
    (h : ArtEq ctx x y) {n1 : Node κ} {d1 : Digest} {s1 : Store κ} (hx : x = .ok (n1, d1, s1)) :
    ∃ n2 s2, y = .ok (n2, d1, s2) ∧ TreePerm n1 n2 ∧ Store.eqv ctx s1 s2 := by
  subst hx
  cases y with
  | error e => exact h.elim
  | ok v =>
    obtain ⟨n2, d2, s2⟩ := v
    obtain ⟨h1, rfl, h3⟩ := h
    exact ⟨n2, s2, rfl, h1, h3⟩

theorem ArtEq.error_left {ctx : Ctx κ} {x y : Except Err (Node κ × Digest × Store κ)}
    (h : ArtEq ctx x y) {e : Err} (hx : x = .error e) : ∃ e', y = .error e' := by
  subst hx
  cases y with
  | error e' => exact ⟨e', rfl⟩
  | ok v => exact h.elim

/-! ## a sufficient condition on the cache: closed under the references of its manifests -/

/-- every sub-directory checksum recorded in a readable manifest of the cache is itself in the
cache (no partial fetch, no garbage collection of referenced manifests) -/
def StoreClosed (ctx : Ctx κ) (s : Store κ) : Prop :=
  ∀ d cs, readManifest ctx s d = .ok cs →
    ∀ k ∈ cs, k.isDir = true → hasSum k.sum = true → s.has k.sum = true

theorem pickChild_mem_or_fresh (old : List Child) (nm : Name) (b : Bool) :
    pickChild old nm b ∈ old ∨ pickChild old nm b = ⟨nm, "", b⟩ := by
  unfold pickChild
  split
  · next k hk =>
    split
    · exact Or.inl (List.mem_of_find?_eq_some hk)
    · exact Or.inr rfl
  · exact Or.inr rfl

mutual
/-- with a reference-closed cache the reads of a commit are stable as soon as no workspace link
into the cache dangles and the recorded checksum of the artifact (if usable) is present -/
theorem closedNode_of_storeClosed {ctx : Ctx κ} {s : Store κ} (hsc : StoreClosed ctx s) :
    ∀ (n : Node κ) (c : Child), n.linksResolve s = true →
      (c.isDir = true → hasSum c.sum = true → s.has c.sum = true) →
      closedNode ctx s n c = true
  | .dir es, c, hl, hc => by
    rw [closedNode_dir]
    intro hd
    refine ⟨hc hd, fun old ho => ?_⟩
    have hold : ∀ k ∈ old, k.isDir = true → hasSum k.sum = true → s.has k.sum = true := by
      unfold oldManifest at ho
      split at ho
      · exact hsc _ _ ho
      · cases ho
        intro k hk
        cases hk
    exact closedList_of_storeClosed hsc es old false (by simpa [Node.linksResolve] using hl) hold
  | .link (.obj d), c, hl, _ => by
    simp only [closedNode, Bool.or_eq_true]
    exact Or.inr (by simpa [Node.linksResolve] using hl)
  | .link (.foreign _), _, _, _ => by simp [closedNode]
  | .file _, _, _, _ => by simp [closedNode]
  | .other, _, _, _ => by simp [closedNode]
theorem closedList_of_storeClosed {ctx : Ctx κ} {s : Store κ} (hsc : StoreClosed ctx s) :
    ∀ (es : List (Name × Node κ)) (old : List Child) (sk : Bool),
      linksResolveList s es = true →
      (∀ k ∈ old, k.isDir = true → hasSum k.sum = true → s.has k.sum = true) →
      closedList ctx s sk es old = true
  | [], _, _, _, _ => by simp [closedList]
  | (nm, n) :: r, old, sk, hl, hold => by
    simp only [linksResolveList, Bool.and_eq_true] at hl
    rw [closedList_cons]
    refine ⟨Or.inr (closedNode_of_storeClosed hsc n _ hl.1 ?_),
      closedList_of_storeClosed hsc r old sk hl.2 hold⟩
    rcases pickChild_mem_or_fresh old nm n.isDir with h | h
    · exact hold _ h
    · rw [h]
      intro _ hh
      rw [hasSum_empty] at hh
      cases hh
end

/-- what reads as a manifest in this object -/
def manifestChildren (ctx : Ctx κ) : Obj κ → Option (List Child)
  | .man sch _ cs => some (cs.map (ctx.reload sch))
  | .blob c => ctx.decBlob c

/-- decidable check for `StoreClosed` -/
def storeClosedB (ctx : Ctx κ) (s : Store κ) : Bool :=
  s.all fun p =>
    match manifestChildren ctx p.2 with
    | none => true
    | some cs => cs.all fun k => !k.isDir || !hasSum k.sum || s.has k.sum

theorem storeClosed_of_check {ctx : Ctx κ} {s : Store κ} (h : storeClosedB ctx s = true) :
    StoreClosed ctx s := by
  intro d cs hr k hk hkd hks
  rw [readManifest_eq] at hr
  simp only [storeClosedB, List.all_eq_true] at h
  cases hg : s.get d with
  | none => rw [hg] at hr; cases hr
  | some o =>
    rw [hg] at hr
    have hm := h (d, o) (alookup_mem hg)
    have hcs : manifestChildren ctx o = some cs := by
      cases o with
      | man sch p cs0 =>
        simp only at hr
        obtain ⟨rfl, _⟩ := checkedChildren_eq_ok hr
        rfl
      | blob c =>
        simp only at hr
        cases hd : ctx.decBlob c with
        | none => rw [hd] at hr; cases hr
        | some cs0 =>
          rw [hd] at hr
          obtain ⟨rfl, _⟩ := checkedChildren_eq_ok hr
          exact hd
    simp only [hcs, List.all_eq_true] at hm
    have := hm k hk
    simpa [hkd, hks] using this

end Dud
