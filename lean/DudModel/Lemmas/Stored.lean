import DudModel.StatusSpec
import DudModel.Lemmas.Tree
/-!
# `UpToDate` versus `stored` / `SameTree` (helpers for C05 (b), (c))
-/
namespace Dud

variable {κ : Type}

/-! ## listings -/

theorem alookup_derefList (ctx : Ctx κ) (s : Store κ) (nm : Name) :
    ∀ es : List (Name × Node κ),
      alookup (derefList ctx s es) nm = (alookup es nm).map (deref ctx s)
  | [] => by simp [derefList, alookup]
  | (k, v) :: r => by
    by_cases h : k = nm
    · subst h; simp [derefList, alookup]
    · simp [derefList, alookup, h, alookup_derefList ctx s nm r]

theorem mem_derefList (ctx : Ctx κ) (s : Store κ) :
    ∀ (es : List (Name × Node κ)) (e : Name × Node κ), e ∈ es →
      (e.1, deref ctx s e.2) ∈ derefList ctx s es
  | [], _, h => by cases h
  | (k, v) :: r, e, h => by
    simp only [derefList]
    rcases List.mem_cons.mp h with rfl | h
    · exact List.mem_cons_self ..
    · exact List.mem_cons_of_mem _ (mem_derefList ctx s r e h)

theorem SameList_intro (ctx : Ctx κ) (s : Store κ) (ts : List (Name × Node κ)) :
    ∀ es : List (Name × Node κ),
      (∀ e ∈ es, ∃ t', alookup ts e.1 = some t' ∧ SameTree (deref ctx s e.2) t') →
      SameList (derefList ctx s es) ts
  | [], _ => by simp [derefList, SameList]
  | (k, v) :: r, h => by
    simp only [derefList, SameList]
    exact ⟨h (k, v) (List.mem_cons_self ..),
      SameList_intro ctx s ts r (fun e he => h e (List.mem_cons_of_mem _ he))⟩

theorem SameList_elim {ts : List (Name × Node κ)} :
    ∀ {es : List (Name × Node κ)}, SameList es ts →
      ∀ e ∈ es, ∃ t', alookup ts e.1 = some t' ∧ SameTree e.2 t'
  | [], _, _, h => by cases h
  | (k, v) :: r, hs, e, h => by
    simp only [SameList] at hs
    rcases List.mem_cons.mp h with rfl | h
    · exact hs.1
    · exact SameList_elim hs.2 e h

/-- in a sorted listing every entry is the one `alookup` finds, and is itself sorted -/
theorem sortedList_mem : ∀ (es : List (Name × Node κ)), sortedList es = true →
    ∀ e ∈ es, alookup es e.1 = some e.2 ∧ e.2.sorted = true
  | [], _, _, h => by cases h
  | (k, v) :: r, hs, e, h => by
    rcases List.mem_cons.mp h with rfl | h
    · exact ⟨by simp [alookup], (sortedList_cons hs).1⟩
    · have hne : k ≠ e.1 := sortedList_head_ne hs e h
      obtain ⟨h1, h2⟩ := sortedList_mem r (sortedList_cons hs).2 e h
      exact ⟨by rw [alookup_cons_ne _ _ hne]; exact h1, h2⟩

/-! ## `storedChildren` -/

theorem storedChildren_cons {f : Child → Option (Node κ)} {k : Child} {r : List Child}
    {ts : List (Name × Node κ)} (h : storedChildren f (k :: r) = some ts) :
    ∃ n l, f k = some n ∧ storedChildren f r = some l ∧ ts = (k.name, n) :: l := by
  simp only [storedChildren] at h
  split at h
  · rename_i n l hn hl
    simp only [Option.some.injEq] at h
    exact ⟨n, l, hn, hl, h.symm⟩
  · cases h

theorem storedChildren_alookup {f : Child → Option (Node κ)} (nm : Name) :
    ∀ (cs : List Child) (ts : List (Name × Node κ)), storedChildren f cs = some ts →
      alookup ts nm = (findChild cs nm).bind f
  | [], ts, h => by
    simp only [storedChildren, Option.some.injEq] at h; subst h; simp [alookup, findChild]
  | k :: r, ts, h => by
    obtain ⟨n, l, hn, hl, rfl⟩ := storedChildren_cons h
    have ih := storedChildren_alookup nm r l hl
    by_cases hk : k.name = nm
    · simp [alookup, findChild, hk, hn]
    · have hb : (k.name == nm) = false := by simpa using hk
      simp only [alookup, findChild, List.find?_cons, hb, Bool.false_eq_true, if_false] at ih ⊢
      exact ih

theorem storedChildren_mem {f : Child → Option (Node κ)} :
    ∀ (cs : List Child) (ts : List (Name × Node κ)), storedChildren f cs = some ts →
      (∀ e ∈ ts, ∃ k ∈ cs, k.name = e.1) ∧ (∀ k ∈ cs, ∃ t, f k = some t ∧ (k.name, t) ∈ ts)
  | [], ts, h => by
    simp only [storedChildren, Option.some.injEq] at h; subst h; simp
  | k :: r, ts, h => by
    obtain ⟨n, l, hn, hl, rfl⟩ := storedChildren_cons h
    obtain ⟨ih1, ih2⟩ := storedChildren_mem r l hl
    constructor
    · intro e he
      rcases List.mem_cons.mp he with rfl | he
      · exact ⟨k, List.mem_cons_self .., rfl⟩
      · obtain ⟨k', hk', hn'⟩ := ih1 e he
        exact ⟨k', List.mem_cons_of_mem _ hk', hn'⟩
    · intro k' hk'
      rcases List.mem_cons.mp hk' with rfl | hk'
      · exact ⟨n, hn, List.mem_cons_self ..⟩
      · obtain ⟨t, ht, hm⟩ := ih2 k' hk'
        exact ⟨t, ht, List.mem_cons_of_mem _ hm⟩

theorem findChild_some {cs : List Child} {nm : Bytes} {k : Child} (h : findChild cs nm = some k) :
    k ∈ cs ∧ k.name = nm := by
  unfold findChild at h
  exact ⟨List.mem_of_find?_eq_some h, by simpa using List.find?_some h⟩

/-- with duplicate-free names `findChild` finds every entry -/
theorem findChild_of_nodup : ∀ {cs : List Child}, (cs.map (·.name)).Nodup → ∀ k ∈ cs,
    findChild cs k.name = some k
  | [], _, _, h => by cases h
  | c :: r, hnd, k, h => by
    simp only [List.map_cons, List.nodup_cons, List.mem_map, not_exists, not_and] at hnd
    simp only [findChild, List.find?_cons]
    rcases List.mem_cons.mp h with rfl | h
    · simp
    · have hne : c.name ≠ k.name := fun e => hnd.1 k h e.symm
      have hb : (c.name == k.name) = false := by simpa using hne
      simp only [hb]
      exact findChild_of_nodup hnd.2 k h

/-- shape of `stored` on a directory entry -/
theorem stored_dir {ctx : Ctx κ} {s : Store κ} {fuel : Nat} {c : Child} {t : Node κ}
    (hc : c.isDir = true) (h : stored ctx s (fuel + 1) c = some t) :
    ∃ cs ts, statusManifest ctx s c.sum = .ok cs ∧ readManifest ctx s c.sum = .ok cs ∧
      storedChildren (stored ctx s fuel) cs = some ts ∧ t = .dir ts := by
  simp only [stored, hc, if_true] at h
  split at h
  · rename_i hin
    split at h
    · rename_i cs hcs
      cases hts : storedChildren (stored ctx s fuel) cs with
      | none => rw [hts] at h; cases h
      | some ts =>
        rw [hts] at h
        simp only [Option.map_some, Option.some.injEq] at h
        exact ⟨cs, ts, by simp [statusManifest, hin, hcs], hcs, hts, h.symm⟩
    · cases h
  · cases h

/-- a stored directory entry has its manifest recorded and in the cache -/
theorem stored_dir_inCache {ctx : Ctx κ} {s : Store κ} {fuel : Nat} {c : Child} {t : Node κ}
    (hc : c.isDir = true) (h : stored ctx s (fuel + 1) c = some t) :
    hasSum c.sum = true ∧ s.has c.sum = true := by
  simp only [stored, hc, if_true] at h
  split at h
  · rename_i hin
    simpa using hin
  · cases h

theorem stored_file {ctx : Ctx κ} {s : Store κ} {fuel : Nat} {c : Child} {t : Node κ}
    (hc : c.isDir = false) (h : stored ctx s fuel c = some t) :
    hasSum c.sum = true ∧ ∃ o, s.get c.sum = some o ∧ t = .file (o.bytes ctx) := by
  have h' : storedFile ctx s c.sum = some t := by
    cases fuel <;> simpa [stored, hc] using h
  unfold storedFile at h'
  split at h'
  · rename_i hh
    cases ho : s.get c.sum with
    | none => rw [ho] at h'; cases h'
    | some o =>
      rw [ho] at h'
      simp only [Option.map_some, Option.some.injEq] at h'
      exact ⟨hh, o, rfl, h'.symm⟩
  · cases h'

end Dud
