import DudModel.Lemmas.Interleave
import DudModel.Lemmas.CrashPost
/-!
# Interleavings of n disciplined traces; the final state of a schedule (C03 + C13)

Generic part (no reference to the commit functions):

* `Interleaving t1 t2 t` / `InterleavingN ts t`: `t` is an interleaving (shuffle) of two / of n lists;
  `Sched ts t` is the scheduler view (at every step some worker issues its next call) and is equivalent
  to `InterleavingN`; the concatenation `ts.flatten` is one schedule.
* the independence condition: a worker is `Disciplined` from the common start `fs0` for a set `A` of
  private paths (`Priv A`: no object, no shard directory) when its trace is an `AllowedTrace` from `fs0`
  when run ALONE and every call is `Owned A` (acts on private paths, except `mkdir` of a shard
  directory, `rename` of a private file ONTO an object name, `chmod` of an object).
  `AllowedTraceUnder` is the rely/guarantee reading: every call stays `Allowed` in EVERY state that
  agrees with the worker's own expected state on its private paths and holds at least the expected
  objects (`Rel`), whatever the other workers did in between.
* `interleaving_sim`: two disciplined workers with disjoint private paths — every interleaving is an
  `AllowedTrace`, and the simulation `Sim` relates the interleaved state to the two solo states:
  private paths as in the owner's solo run, objects at least those of each solo run (`Rel`), and a
  shared path (object, shard directory) is present iff it is present in one of the solo runs.
* `interleavingN_disciplined`: n workers with pairwise disjoint private paths — every
  `InterleavingN` is disciplined for the union of the private paths (so the result can be interleaved
  again: nesting), and its final state is `Merged`: determined by the solo final states.
* `Merged.agree`: two schedules of the same workers end in states that agree on every path that is not
  an object, and hold the same objects with the same bytes (permission bits of objects are not compared).
-/
namespace Dud.Sys

open Dud

variable {κ : Type}

/-! ## interleavings of two lists -/

/-- `t` is an interleaving of `t1` and `t2`: both are subsequences of `t`, in order, and together they
make up all of `t` -/
inductive Interleaving {α : Type} : List α → List α → List α → Prop
  | nil : Interleaving [] [] []
  | left {a : α} {t1 t2 t : List α} : Interleaving t1 t2 t → Interleaving (a :: t1) t2 (a :: t)
  | right {a : α} {t1 t2 t : List α} : Interleaving t1 t2 t → Interleaving t1 (a :: t2) (a :: t)

theorem Interleaving.toInterleave {α : Type} {t1 t2 t : List α} (h : Interleaving t1 t2 t) :
    Interleave t1 t2 t := by
  induction h with
  | nil => exact .nil
  | left _ ih => exact .left ih
  | right _ ih => exact .right ih

theorem Interleaving.ofInterleave {α : Type} {t1 t2 t : List α} (h : Interleave t1 t2 t) :
    Interleaving t1 t2 t := by
  induction h with
  | nil => exact .nil
  | left _ ih => exact .left ih
  | right _ ih => exact .right ih

theorem Interleaving.nil_left {α : Type} : ∀ (l : List α), Interleaving [] l l
  | [] => .nil
  | _ :: l => .right (Interleaving.nil_left l)

theorem Interleaving.nil_right {α : Type} : ∀ (l : List α), Interleaving l [] l
  | [] => .nil
  | _ :: l => .left (Interleaving.nil_right l)

/-- running one after the other is one of the interleavings -/
theorem Interleaving.append {α : Type} : ∀ (l1 l2 : List α), Interleaving l1 l2 (l1 ++ l2)
  | [], l2 => Interleaving.nil_left l2
  | _ :: l1, l2 => .left (Interleaving.append l1 l2)

/-- interleavings compose in sequence -/
theorem Interleaving.append_both {α : Type} {a1 b1 l1 a2 b2 l2 : List α} (h1 : Interleaving a1 b1 l1)
    (h2 : Interleaving a2 b2 l2) : Interleaving (a1 ++ a2) (b1 ++ b2) (l1 ++ l2) := by
  induction h1 with
  | nil => exact h2
  | left _ ih => exact .left ih
  | right _ ih => exact .right ih

theorem Interleaving.symm {α : Type} {t1 t2 t : List α} (h : Interleaving t1 t2 t) :
    Interleaving t2 t1 t := by
  induction h with
  | nil => exact .nil
  | left _ ih => exact .right ih
  | right _ ih => exact .left ih

theorem Interleaving.eq_of_nil_left {α : Type} {t2 t : List α} (h : Interleaving [] t2 t) : t = t2 := by
  generalize hn : ([] : List α) = t1 at h
  induction h with
  | nil => rfl
  | left _ _ => cases hn
  | right _ ih => rw [ih hn]

theorem Interleaving.eq_of_nil_right {α : Type} {t1 t : List α} (h : Interleaving t1 [] t) : t = t1 :=
  h.symm.eq_of_nil_left

theorem Interleaving.length {α : Type} {t1 t2 t : List α} (h : Interleaving t1 t2 t) :
    t.length = t1.length + t2.length := by
  induction h with
  | nil => rfl
  | left _ ih => simp [ih]; omega
  | right _ ih => simp [ih]; omega

theorem Interleaving.mem {α : Type} {t1 t2 t : List α} (h : Interleaving t1 t2 t) (a : α) :
    a ∈ t ↔ a ∈ t1 ∨ a ∈ t2 := by
  induction h with
  | nil => simp
  | left _ ih => simp [ih, or_assoc]
  | right _ ih =>
    simp only [List.mem_cons, ih]
    constructor
    · rintro (h | h | h)
      · exact .inr (.inl h)
      · exact .inl h
      · exact .inr (.inr h)
    · rintro (h | h | h)
      · exact .inr (.inl h)
      · exact .inl h
      · exact .inr (.inr h)

/-! ## interleavings of n lists -/

/-- `l` is an interleaving of the lists `ts` (n workers): interleave the first list with an
interleaving of the others -/
inductive InterleavingN {α : Type} : List (List α) → List α → Prop
  | nil : InterleavingN [] []
  | cons {t : List α} {ts : List (List α)} {r l : List α} :
      InterleavingN ts r → Interleaving t r l → InterleavingN (t :: ts) l

theorem InterleavingN.nil_inv {α : Type} {l : List α} (h : InterleavingN [] l) : l = [] := by
  cases h; rfl

theorem InterleavingN.cons_inv {α : Type} {t : List α} {ts : List (List α)} {l : List α}
    (h : InterleavingN (t :: ts) l) : ∃ r, InterleavingN ts r ∧ Interleaving t r l := by
  cases h with
  | cons h1 h2 => exact ⟨_, h1, h2⟩

/-- the workers running one after the other (the sequential trace) is one of the schedules -/
theorem InterleavingN.flatten {α : Type} : ∀ (ts : List (List α)), InterleavingN ts ts.flatten
  | [] => .nil
  | t :: ts => by
    rw [List.flatten_cons]
    exact .cons (InterleavingN.flatten ts) (Interleaving.append t _)

theorem InterleavingN.single {α : Type} (t : List α) : InterleavingN [t] t :=
  .cons .nil (Interleaving.nil_right t)

theorem InterleavingN.two {α : Type} {t1 t2 l : List α} :
    InterleavingN [t1, t2] l ↔ Interleaving t1 t2 l := by
  constructor
  · intro h
    obtain ⟨r, hr, hi⟩ := h.cons_inv
    obtain ⟨r', hr', hi'⟩ := hr.cons_inv
    rw [hr'.nil_inv] at hi'
    rw [hi'.eq_of_nil_right] at hi
    exact hi
  · intro h
    exact .cons (InterleavingN.single t2) h

theorem InterleavingN.mem {α : Type} {ts : List (List α)} {l : List α} (h : InterleavingN ts l) (a : α) :
    a ∈ l ↔ ∃ t ∈ ts, a ∈ t := by
  induction h with
  | nil => simp
  | cons _ hi ih => simp [hi.mem, ih]

theorem InterleavingN.length {α : Type} {ts : List (List α)} {l : List α} (h : InterleavingN ts l) :
    l.length = (ts.map List.length).sum := by
  induction h with
  | nil => rfl
  | cons _ hi ih => simp [hi.length, ih]

/-- the scheduler view: as long as some worker has calls left, any one of them issues its next call -/
inductive Sched {α : Type} : List (List α) → List α → Prop
  | done {ts : List (List α)} : (∀ t ∈ ts, t = []) → Sched ts []
  | step {pre post : List (List α)} {a : α} {t l : List α} :
      Sched (pre ++ t :: post) l → Sched (pre ++ (a :: t) :: post) (a :: l)

theorem InterleavingN.all_nil {α : Type} : ∀ (ts : List (List α)), (∀ t ∈ ts, t = []) → InterleavingN ts []
  | [], _ => .nil
  | t :: ts, h => by
    have ht : t = [] := h t (by simp)
    subst ht
    exact .cons (InterleavingN.all_nil ts (fun t ht => h t (by simp [ht]))) .nil

theorem InterleavingN.step {α : Type} {a : α} {t : List α} {post : List (List α)} :
    ∀ (pre : List (List α)) {l : List α}, InterleavingN (pre ++ t :: post) l →
      InterleavingN (pre ++ (a :: t) :: post) (a :: l)
  | [], l, h => by
    obtain ⟨r, hr, hi⟩ := h.cons_inv
    exact .cons hr (.left hi)
  | x :: pre, l, h => by
    obtain ⟨r, hr, hi⟩ := InterleavingN.cons_inv (t := x) (ts := pre ++ t :: post) h
    exact .cons (InterleavingN.step pre hr) (.right hi)

theorem Sched.toInterleavingN {α : Type} {ts : List (List α)} {l : List α} (h : Sched ts l) :
    InterleavingN ts l := by
  induction h with
  | done h => exact InterleavingN.all_nil _ h
  | step _ ih => exact InterleavingN.step _ ih

theorem Sched.cons_of_interleaving {α : Type} {t r l : List α} (hi : Interleaving t r l) :
    ∀ {ts : List (List α)}, Sched ts r → Sched (t :: ts) l := by
  induction hi with
  | nil =>
    intro ts h
    cases h with
    | done h => exact .done (by intro t ht; rcases List.mem_cons.1 ht with rfl | ht; rfl; exact h t ht)
  | @left a t1 t2 t _ ih =>
    intro ts h
    exact Sched.step (pre := []) (ih h)
  | @right a t1 t2 t _ ih =>
    intro ts h
    generalize hr : a :: t2 = r at h
    cases h with
    | done _ => cases hr
    | @step pre post b u l' h' =>
      cases hr
      exact Sched.step (pre := t1 :: pre) (ih h')

theorem InterleavingN.toSched {α : Type} {ts : List (List α)} {l : List α} (h : InterleavingN ts l) :
    Sched ts l := by
  induction h with
  | nil => exact .done (by simp)
  | cons _ hi ih => exact Sched.cons_of_interleaving hi ih

/-- the two descriptions of "a schedule of n workers" coincide -/
theorem sched_iff_interleavingN {α : Type} (ts : List (List α)) (l : List α) :
    Sched ts l ↔ InterleavingN ts l := ⟨Sched.toInterleavingN, InterleavingN.toSched⟩

/-- pointwise relation between two lists of the same length -/
inductive Forall2 {α β : Type} (R : α → β → Prop) : List α → List β → Prop
  | nil : Forall2 R [] []
  | cons {a : α} {b : β} {as : List α} {bs : List β} : R a b → Forall2 R as bs → Forall2 R (a :: as) (b :: bs)

theorem Forall2.imp_mem {α β : Type} {R S : α → β → Prop} {as : List α} {bs : List β}
    (h : Forall2 R as bs) (hi : ∀ a ∈ as, ∀ b ∈ bs, R a b → S a b) : Forall2 S as bs := by
  induction h with
  | nil => exact .nil
  | cons h _ ih =>
    exact .cons (hi _ (by simp) _ (by simp) h)
      (ih (fun a ha b hb => hi a (by simp [ha]) b (by simp [hb])))

/-! ## shared paths; what an owned call can do to them -/

/-- objects and shard directories: the paths several workers may act on -/
def P.isShared : P → Bool
  | .obj _ => true
  | .shard _ => true
  | _ => false

theorem Priv.notShared {A : P → Prop} (hA : Priv A) {p : P} (h : A p) : p.isShared = false := by
  cases p with
  | obj d => exact absurd (hA.notObj _ h) (by simp [P.isObj])
  | shard s => exact absurd rfl (hA.notShard _ s h)
  | _ => rfl

theorem P.isShared_true {p : P} (h : p.isShared = true) : (∃ d, p = .obj d) ∨ ∃ s, p = .shard s := by
  cases p <;> simp [P.isShared] at h
  · exact .inl ⟨_, rfl⟩
  · exact .inr ⟨_, rfl⟩

/-- an owned call writes private paths and shared paths only -/
theorem Owned.not_writes {A : P → Prop} {c : Call κ} (ho : Owned A c) {q : P} (hq : ¬ A q)
    (hs : q.isShared = false) : q ∉ callWrites c := by
  have key : ∀ p, (A p ∨ p.isObj = true ∨ ∃ h, p = .shard h) → q ≠ p := by
    intro p hp heq
    subst heq
    rcases hp with h | h | ⟨h, rfl⟩
    · exact hq h
    · obtain ⟨d, rfl⟩ := P.isObj_true h
      simp [P.isShared] at hs
    · simp [P.isShared] at hs
  cases c with
  | mkdir p =>
    simp only [callWrites, callPaths, List.mem_singleton]
    exact key p (ho.elim Or.inl (fun h => Or.inr (Or.inr h)))
  | createExcl p => simp only [callWrites, callPaths, List.mem_singleton]; exact key p (Or.inl ho)
  | createTrunc p => simp only [callWrites, callPaths, List.mem_singleton]; exact key p (Or.inl ho)
  | writePart p => simp only [callWrites, callPaths, List.mem_singleton]; exact key p (Or.inl ho)
  | write p x => simp only [callWrites, callPaths, List.mem_singleton]; exact key p (Or.inl ho)
  | unlink p => simp only [callWrites, callPaths, List.mem_singleton]; exact key p (Or.inl ho)
  | symlink t p => simp only [callWrites, List.mem_singleton]; exact key p (Or.inl ho)
  | chmod p m =>
    simp only [callWrites, callPaths, List.mem_singleton]
    exact key p (ho.elim Or.inl (fun h => Or.inr (Or.inl h)))
  | rename src d =>
    simp only [callWrites, callPaths, List.mem_cons, List.not_mem_nil, or_false, not_or]
    exact ⟨key src (Or.inl ho.1), key d (ho.2.elim Or.inl (fun h => Or.inr (Or.inl h)))⟩

/-- a trace of owned calls leaves every path alone that is neither private nor shared -/
theorem OwnedAll.replay_frame {A : P → Prop} {l : List (Call κ)} (ho : OwnedAll A l) {q : P}
    (hq : ¬ A q) (hs : q.isShared = false) (emp : κ) (fs : FS κ) :
    (replay emp fs l).get q = fs.get q :=
  replay_get_frame emp l q fs (fun c hc => (ho c hc).not_writes hq hs)

/-- the shared paths an owned call writes, and how -/
theorem Owned.shared_write {A : P → Prop} (hA : Priv A) {c : Call κ} (ho : Owned A c) {q : P}
    (hq : q.isShared = true) (hw : q ∈ callWrites c) :
    c = .mkdir q ∨ (∃ m, c = .chmod q m) ∨ (∃ s, A s ∧ c = .rename s q) := by
  have hnA : ∀ p, A p → q ≠ p := by
    intro p hp heq; subst heq
    rw [hA.notShared hp] at hq; cases hq
  cases c with
  | mkdir p => simp only [callWrites, callPaths, List.mem_singleton] at hw; subst hw; exact .inl rfl
  | createExcl p =>
    simp only [callWrites, callPaths, List.mem_singleton] at hw; exact absurd hw (hnA p ho)
  | createTrunc p =>
    simp only [callWrites, callPaths, List.mem_singleton] at hw; exact absurd hw (hnA p ho)
  | writePart p =>
    simp only [callWrites, callPaths, List.mem_singleton] at hw; exact absurd hw (hnA p ho)
  | write p x =>
    simp only [callWrites, callPaths, List.mem_singleton] at hw; exact absurd hw (hnA p ho)
  | unlink p =>
    simp only [callWrites, callPaths, List.mem_singleton] at hw; exact absurd hw (hnA p ho)
  | symlink t p =>
    simp only [callWrites, List.mem_singleton] at hw; exact absurd hw (hnA p ho)
  | chmod p m =>
    simp only [callWrites, callPaths, List.mem_singleton] at hw; subst hw; exact .inr (.inl ⟨m, rfl⟩)
  | rename src d =>
    simp only [callWrites, callPaths, List.mem_cons, List.not_mem_nil, or_false] at hw
    rcases hw with hw | hw
    · exact absurd hw (hnA src ho.1)
    · subst hw; exact .inr (.inr ⟨src, ho.1, rfl⟩)

/-- an owned call never removes a shared path -/
theorem Owned.pres_mono {A : P → Prop} (hA : Priv A) {c : Call κ} (ho : Owned A c) (emp : κ)
    (y : FS κ) {q : P} (hq : q.isShared = true) (h : y.get q ≠ none) :
    (apply emp y c).get q ≠ none := by
  by_cases hw : q ∈ callWrites c
  · rcases ho.shared_write hA hq hw with rfl | ⟨m, rfl⟩ | ⟨s, hs, rfl⟩
    · simp only [apply]
      split
      · next hn => exact absurd hn h
      · exact h
    · simp only [apply]
      split
      · simp [FS.get_set]
      · simp [FS.get_set]
      · exact h
    · simp only [apply]
      split
      · simp [FS.get_set]
      · exact h
  · rw [apply_get_frame _ _ _ _ hw]; exact h

/-- if an owned call makes a shared path appear in `y`, it makes it appear in every state that agrees
with `y` on the private paths -/
theorem Owned.pres_new {A : P → Prop} (hA : Priv A) {c : Call κ} (ho : Owned A c) (emp : κ)
    {x y : FS κ} (hxy : ∀ p, A p → x.get p = y.get p) {q : P} (hq : q.isShared = true)
    (h : (apply emp y c).get q ≠ none) : y.get q ≠ none ∨ (apply emp x c).get q ≠ none := by
  by_cases hw : q ∈ callWrites c
  · rcases ho.shared_write hA hq hw with rfl | ⟨m, rfl⟩ | ⟨s, hs, rfl⟩
    · right
      simp only [apply]
      split
      · simp [FS.get_set]
      · next e hn => rw [hn]; simp
    · left
      intro hn
      apply h
      simp [apply, hn]
    · cases hys : y.get s with
      | none =>
        left
        intro hn
        apply h
        simp [apply, hys, hn]
      | some e =>
        right
        rw [get_rename_dst (by rw [hxy s hs]; exact hys)]
        simp
  · left
    rw [apply_get_frame _ _ _ _ hw] at h; exact h

/-- a shard directory changes in one way only: absent → directory -/
theorem Owned.shard_step {A : P → Prop} (hA : Priv A) {c : Call κ} (ho : Owned A c) (emp : κ)
    (x : FS κ) (h : String) :
    (apply emp x c).get (.shard h) = x.get (.shard h) ∨
      (x.get (.shard h) = none ∧ (apply emp x c).get (.shard h) = some .dir) := by
  by_cases hw : P.shard h ∈ callWrites c
  · rcases ho.shared_write hA (q := .shard h) rfl hw with rfl | ⟨m, hc⟩ | ⟨s, hs, rfl⟩
    · cases hx : x.get (.shard h) with
      | none => right; exact ⟨rfl, by simp [apply, hx, FS.get_set]⟩
      | some e => left; simp [apply, hx]
    · subst hc
      rcases ho with ho | ho
      · exact absurd rfl (hA.notShard _ h ho)
      · simp [P.isObj] at ho
    · rcases ho.2 with ho | ho
      · exact absurd rfl (hA.notShard _ h ho)
      · simp [P.isObj] at ho
  · left; exact apply_get_frame _ _ _ _ hw

/-- relative to the start `fs0`, a shard directory is what it was or has been created -/
def ShardInv (fs0 x : FS κ) : Prop :=
  ∀ h, x.get (.shard h) = fs0.get (.shard h) ∨ (fs0.get (.shard h) = none ∧ x.get (.shard h) = some .dir)

theorem ShardInv.refl (fs0 : FS κ) : ShardInv fs0 fs0 := fun _ => .inl rfl

theorem ShardInv.apply {A : P → Prop} (hA : Priv A) {fs0 x : FS κ} (hi : ShardInv fs0 x) {c : Call κ}
    (ho : Owned A c) (emp : κ) : ShardInv fs0 (apply emp x c) := by
  intro h
  rcases ho.shard_step hA emp x h with he | ⟨hn, hd⟩
  · rw [he]; exact hi h
  · rcases hi h with h0 | ⟨h0, h1⟩
    · right; exact ⟨by rw [← h0]; exact hn, hd⟩
    · rw [hn] at h1; cases h1

theorem ShardInv.replay {A : P → Prop} (hA : Priv A) {fs0 : FS κ} (emp : κ) :
    ∀ (l : List (Call κ)) {x : FS κ}, ShardInv fs0 x → OwnedAll A l → ShardInv fs0 (replay emp x l)
  | [], _, hi, _ => hi
  | c :: cs, _, hi, ho =>
    ShardInv.replay hA emp cs (hi.apply hA (ho c (by simp)) emp) (fun c' hc' => ho c' (by simp [hc']))

/-! ## two workers: the simulation between the interleaved run and the two solo runs -/

/-- `s1`, `s2`: the states of the two workers running alone; `f`: the state of the interleaved run.
Private paths and objects as in `Rel`; a shared path (object, shard directory) is present in `f` iff
it is present in `s1` or in `s2`. -/
structure Sim (A1 A2 : P → Prop) (s1 s2 f : FS κ) : Prop where
  r1 : Rel A1 s1 f
  r2 : Rel A2 s2 f
  lb1 : ∀ p, p.isShared = true → s1.get p ≠ none → f.get p ≠ none
  lb2 : ∀ p, p.isShared = true → s2.get p ≠ none → f.get p ≠ none
  ub : ∀ p, p.isShared = true → f.get p ≠ none → s1.get p ≠ none ∨ s2.get p ≠ none

theorem Sim.refl (A1 A2 : P → Prop) (fs : FS κ) : Sim A1 A2 fs fs fs :=
  ⟨Rel.refl _ _, Rel.refl _ _, fun _ _ h => h, fun _ _ h => h, fun _ _ h => .inl h⟩

theorem Sim.symm {A1 A2 : P → Prop} {s1 s2 f : FS κ} (h : Sim A1 A2 s1 s2 f) : Sim A2 A1 s2 s1 f :=
  ⟨h.r2, h.r1, h.lb2, h.lb1, fun p hp hf => (h.ub p hp hf).symm⟩

/-- a call of the first worker keeps the simulation -/
theorem Sim.step_left {ctx : Ctx κ} (g : Good ctx) {tracked : List (P × κ)} (emp : κ)
    {A1 A2 : P → Prop} (hA1 : Priv A1) (hA2 : Priv A2) (hdisj : ∀ p, A1 p → ¬ A2 p)
    {s1 s2 f : FS κ} (h : Sim A1 A2 s1 s2 f) (hntf : NoTorn ctx f) {c : Call κ} (ho : Owned A1 c)
    (has : Allowed ctx tracked s1 c) (haf : Allowed ctx tracked f c) :
    Sim A1 A2 (apply emp s1 c) s2 (apply emp f c) := by
  refine ⟨h.r1.step_own g emp hntf ho has haf, h.r2.step_other g emp hA2 hdisj hntf ho haf, ?_, ?_, ?_⟩
  · intro p hp hs
    rcases ho.pres_new hA1 emp (x := f) (y := s1) h.r1.priv hp hs with h1 | h1
    · exact ho.pres_mono hA1 emp f hp (h.lb1 p hp h1)
    · exact h1
  · intro p hp hs
    exact ho.pres_mono hA1 emp f hp (h.lb2 p hp hs)
  · intro p hp hf
    rcases ho.pres_new hA1 emp (x := s1) (y := f) (fun q hq => (h.r1.priv q hq).symm) hp hf with h1 | h1
    · rcases h.ub p hp h1 with h2 | h2
      · exact .inl (ho.pres_mono hA1 emp s1 hp h2)
      · exact .inr h2
    · exact .inl h1

/-- **Two workers.** Two traces that are each disciplined when run alone (from `s1`, `s2`) and own
disjoint private paths, interleaved in any way from a safe state `f` that simulates both: every call of
the interleaving is allowed in the state it meets, and the simulation holds at the end. -/
theorem interleaving_sim {ctx : Ctx κ} (g : Good ctx) {tracked : List (P × κ)} (emp : κ)
    {A1 A2 : P → Prop} (hA1 : Priv A1) (hA2 : Priv A2) (hdisj : ∀ p, A1 p → ¬ A2 p) :
    ∀ {l1 l2 l : List (Call κ)}, Interleaving l1 l2 l → ∀ (s1 s2 f : FS κ), Safe ctx tracked f →
      Sim A1 A2 s1 s2 f →
      AllowedTrace ctx emp tracked s1 l1 → AllowedTrace ctx emp tracked s2 l2 →
      OwnedAll A1 l1 → OwnedAll A2 l2 →
      AllowedTrace ctx emp tracked f l ∧
        Sim A1 A2 (replay emp s1 l1) (replay emp s2 l2) (replay emp f l) := by
  intro l1 l2 l hi
  induction hi with
  | nil => intro s1 s2 f _ hsim _ _ _ _; exact ⟨trivial, hsim⟩
  | @left c l1 l2 l _ ih =>
    intro s1 s2 f hsf hsim ha1 ha2 ho1 ho2
    have hoc : Owned A1 c := ho1 c (by simp)
    have haf : Allowed ctx tracked f c := Allowed.transfer hsim.r1 hoc ha1.1
    obtain ⟨ha, hs'⟩ := ih (apply emp s1 c) s2 (apply emp f c) (hsf.apply g emp haf)
      (hsim.step_left g emp hA1 hA2 hdisj hsf.2 hoc ha1.1 haf) ha1.2 ha2
      (fun c' hc' => ho1 c' (by simp [hc'])) ho2
    exact ⟨⟨haf, ha⟩, hs'⟩
  | @right c l1 l2 l _ ih =>
    intro s1 s2 f hsf hsim ha1 ha2 ho1 ho2
    have hoc : Owned A2 c := ho2 c (by simp)
    have haf : Allowed ctx tracked f c := Allowed.transfer hsim.r2 hoc ha2.1
    obtain ⟨ha, hs'⟩ := ih s1 (apply emp s2 c) (apply emp f c) (hsf.apply g emp haf)
      (hsim.symm.step_left g emp hA2 hA1 (fun p h2 h1 => hdisj p h1 h2) hsf.2 hoc ha2.1 haf).symm
      ha1 ha2.2 ho1 (fun c' hc' => ho2 c' (by simp [hc']))
    exact ⟨⟨haf, ha⟩, hs'⟩

/-! ## disciplined workers; the rely/guarantee reading -/

/-- A worker with private paths `A` whose trace `l`, run ALONE from `fs0`, follows the `Allowed`
discipline and acts on its private paths only — except for `mkdir` of shard directories, `rename` of a
private file onto an object name and `chmod` of objects. -/
structure Disciplined (ctx : Ctx κ) (emp : κ) (tracked : List (P × κ)) (fs0 : FS κ) (A : P → Prop)
    (l : List (Call κ)) : Prop where
  priv : Priv A
  allowed : AllowedTrace ctx emp tracked fs0 l
  owned : OwnedAll A l

/-- rely/guarantee form: the k-th call is allowed in EVERY state `f` that agrees with the worker's own
expected state on its private paths and holds at least the expected objects (with the expected bytes),
i.e. whatever the other workers have done to objects and shard directories in the meantime -/
def AllowedTraceUnder (ctx : Ctx κ) (emp : κ) (tracked : List (P × κ)) (A : P → Prop) :
    FS κ → List (Call κ) → Prop
  | _, [] => True
  | s, c :: cs => (∀ f, Rel A s f → Allowed ctx tracked f c) ∧
      AllowedTraceUnder ctx emp tracked A (apply emp s c) cs

theorem AllowedTraceUnder.allowedTrace {ctx : Ctx κ} {emp : κ} {tracked : List (P × κ)} {A : P → Prop} :
    ∀ {s : FS κ} {l : List (Call κ)}, AllowedTraceUnder ctx emp tracked A s l →
      AllowedTrace ctx emp tracked s l
  | _, [], _ => trivial
  | _, _ :: _, h => ⟨h.1 _ (Rel.refl _ _), AllowedTraceUnder.allowedTrace h.2⟩

/-- a trace of owned calls that is allowed when run alone is allowed under interference -/
theorem allowedTraceUnder_of_owned {ctx : Ctx κ} {emp : κ} {tracked : List (P × κ)} {A : P → Prop} :
    ∀ {s : FS κ} {l : List (Call κ)}, AllowedTrace ctx emp tracked s l → OwnedAll A l →
      AllowedTraceUnder ctx emp tracked A s l
  | _, [], _, _ => trivial
  | _, c :: _, ha, ho =>
    ⟨fun _ hr => Allowed.transfer hr (ho c (by simp)) ha.1,
     allowedTraceUnder_of_owned ha.2 (fun c' hc' => ho c' (by simp [hc']))⟩

theorem Disciplined.under {ctx : Ctx κ} {emp : κ} {tracked : List (P × κ)} {fs0 : FS κ} {A : P → Prop}
    {l : List (Call κ)} (h : Disciplined ctx emp tracked fs0 A l) :
    AllowedTraceUnder ctx emp tracked A fs0 l := allowedTraceUnder_of_owned h.allowed h.owned

theorem Disciplined.nil {ctx : Ctx κ} {emp : κ} {tracked : List (P × κ)} {fs0 : FS κ} {A : P → Prop}
    (hA : Priv A) : Disciplined ctx emp tracked fs0 A [] := ⟨hA, trivial, fun _ h => by simp at h⟩

theorem Disciplined.mono {ctx : Ctx κ} {emp : κ} {tracked : List (P × κ)} {fs0 : FS κ} {A B : P → Prop}
    {l : List (Call κ)} (h : Disciplined ctx emp tracked fs0 A l) (hB : Priv B) (hAB : ∀ p, A p → B p) :
    Disciplined ctx emp tracked fs0 B l := ⟨hB, h.allowed, h.owned.mono hAB⟩

theorem Disciplined.safe_final {ctx : Ctx κ} (g : Good ctx) {emp : κ} {tracked : List (P × κ)}
    {fs0 : FS κ} {A : P → Prop} {l : List (Call κ)} (h : Disciplined ctx emp tracked fs0 A l)
    (hs : Safe ctx tracked fs0) : Safe ctx tracked (replay emp fs0 l) :=
  (h.allowed.prefixSafe g hs).final

/-- objects are never lost or changed along a disciplined trace -/
theorem objLe_replay {ctx : Ctx κ} (g : Good ctx) {tracked : List (P × κ)} (emp : κ) :
    ∀ {fs : FS κ} {l : List (Call κ)}, Safe ctx tracked fs → AllowedTrace ctx emp tracked fs l →
      ObjLe fs (replay emp fs l)
  | _, [], _, _ => ObjLe.refl _
  | _, _ :: _, hs, ha =>
    (objLe_apply g emp hs.2 ha.1).trans (objLe_replay g emp (hs.apply g emp ha.1) ha.2)

/-! ## the final state of a schedule is determined by the solo final states -/

/-- at path `p` the state `f` is the merge of the solo states `sols` over the start `fs0`: it is what a
solo run that changed `p` made of it, and what it was at the start if no solo run changed it -/
def MergedAt (fs0 : FS κ) (sols : List (FS κ)) (f : FS κ) (p : P) : Prop :=
  (∀ s ∈ sols, s.get p ≠ fs0.get p → f.get p = s.get p) ∧
  ((∀ s ∈ sols, s.get p = fs0.get p) → f.get p = fs0.get p)

/-- `f` is the merge of the solo final states `sols` of workers started from `fs0`:
every path that is not an object is merged (`MergedAt`); the objects of `f` are those of the start and
of the solo runs, with the same bytes. -/
structure Merged (fs0 : FS κ) (sols : List (FS κ)) (f : FS κ) : Prop where
  nonObj : ∀ p, p.isObj = false → MergedAt fs0 sols f p
  objLe0 : ObjLe fs0 f
  objLe : ∀ s ∈ sols, ObjLe s f
  objUb : ∀ d, f.get (.obj d) ≠ none → fs0.get (.obj d) ≠ none ∨ ∃ s ∈ sols, s.get (.obj d) ≠ none

theorem Merged.nil (fs0 : FS κ) : Merged fs0 [] fs0 :=
  ⟨fun _ _ => ⟨fun _ h => by simp at h, fun _ => rfl⟩, ObjLe.refl _, fun _ h => by simp at h,
   fun _ h => .inl h⟩

/-- nesting: merge `s1` with a state `fr` that is itself a merge -/
theorem Merged.cons {fs0 s1 fr f : FS κ} {sols : List (FS κ)} (hr : Merged fs0 sols fr)
    (h : Merged fs0 [s1, fr] f) : Merged fs0 (s1 :: sols) f := by
  refine ⟨fun p hp => ⟨?_, ?_⟩, h.objLe0, ?_, ?_⟩
  · intro s hs hne
    rcases List.mem_cons.1 hs with rfl | hs
    · exact (h.nonObj p hp).1 _ (by simp) hne
    · have h1 : fr.get p = s.get p := (hr.nonObj p hp).1 s hs hne
      have h2 : f.get p = fr.get p := (h.nonObj p hp).1 fr (by simp) (by rw [h1]; exact hne)
      rw [h2, h1]
  · intro hall
    have h1 : fr.get p = fs0.get p := (hr.nonObj p hp).2 (fun s hs => hall s (by simp [hs]))
    exact (h.nonObj p hp).2 (by
      intro s hs
      simp only [List.mem_cons, List.not_mem_nil, or_false] at hs
      rcases hs with rfl | rfl
      · exact hall _ (by simp)
      · exact h1)
  · intro s hs
    rcases List.mem_cons.1 hs with rfl | hs
    · exact h.objLe _ (by simp)
    · exact (hr.objLe s hs).trans (h.objLe fr (by simp))
  · intro d hd
    rcases h.objUb d hd with h0 | ⟨s, hs, hne⟩
    · exact .inl h0
    · simp only [List.mem_cons, List.not_mem_nil, or_false] at hs
      rcases hs with rfl | rfl
      · exact .inr ⟨_, by simp, hne⟩
      · rcases hr.objUb d hne with h0 | ⟨s', hs', hne'⟩
        · exact .inl h0
        · exact .inr ⟨s', by simp [hs'], hne'⟩

/-- **All schedules agree.** Two states that are both the merge of the same solo final states agree on
every path that is not an object, and every object of one is an object of the other with the same bytes
(the permission bits of objects are not compared). -/
theorem Merged.agree {ctx : Ctx κ} (g : Good ctx) {fs0 f f' : FS κ} {sols : List (FS κ)}
    (h0 : NoTorn ctx fs0) (hsols : ∀ s ∈ sols, NoTorn ctx s) (hf : NoTorn ctx f)
    (m : Merged fs0 sols f) (m' : Merged fs0 sols f') :
    (∀ p, p.isObj = false → f.get p = f'.get p) ∧ ObjLe f f' := by
  refine ⟨fun p hp => ?_, fun d c mo hd => ?_⟩
  · by_cases h : ∃ s ∈ sols, s.get p ≠ fs0.get p
    · obtain ⟨s, hs, hne⟩ := h
      rw [(m.nonObj p hp).1 s hs hne, (m'.nonObj p hp).1 s hs hne]
    · have hall : ∀ s ∈ sols, s.get p = fs0.get p :=
        fun s hs => Classical.byContradiction (fun hne => h ⟨s, hs, hne⟩)
      rw [(m.nonObj p hp).2 hall, (m'.nonObj p hp).2 hall]
  · obtain ⟨c1, m1, he1, hH⟩ := hf d _ hd
    cases he1
    rcases m.objUb d (by rw [hd]; simp) with h1 | ⟨s, hs, h1⟩
    · cases he : fs0.get (.obj d) with
      | none => exact absurd he h1
      | some e =>
        obtain ⟨c2, m2, rfl, hH2⟩ := h0 d e he
        have : c2 = c := g.inj _ _ (hH2.trans hH.symm)
        subst this
        exact m'.objLe0 d c2 m2 he
    · cases he : s.get (.obj d) with
      | none => exact absurd he h1
      | some e =>
        obtain ⟨c2, m2, rfl, hH2⟩ := hsols s hs d e he
        have : c2 = c := g.inj _ _ (hH2.trans hH.symm)
        subst this
        exact m'.objLe s hs d c2 m2 he

/-- the merge of two solo runs from a common start, out of the simulation -/
theorem Sim.merged {ctx : Ctx κ} (g : Good ctx) {emp : κ} {tracked : List (P × κ)} {fs0 : FS κ}
    {A1 A2 : P → Prop} {l1 l2 l : List (Call κ)} (hs0 : Safe ctx tracked fs0)
    (d1 : Disciplined ctx emp tracked fs0 A1 l1) (d2 : Disciplined ctx emp tracked fs0 A2 l2)
    (hdisj : ∀ p, A1 p → ¬ A2 p) (hi : Interleaving l1 l2 l)
    (h : Sim A1 A2 (replay emp fs0 l1) (replay emp fs0 l2) (replay emp fs0 l)) :
    Merged fs0 [replay emp fs0 l1, replay emp fs0 l2] (replay emp fs0 l) := by
  have hA12 : Priv (fun p => A1 p ∨ A2 p) :=
    ⟨fun p hp => hp.elim (d1.priv.notObj p) (d2.priv.notObj p),
     fun p s hp => hp.elim (d1.priv.notShard p s) (d2.priv.notShard p s)⟩
  have ho12 : OwnedAll (fun p => A1 p ∨ A2 p) l := by
    intro c hc
    rcases (hi.mem c).1 hc with hc | hc
    · exact (d1.owned c hc).mono (fun _ => Or.inl)
    · exact (d2.owned c hc).mono (fun _ => Or.inr)
  refine ⟨fun p hp => ?_, ?_, ?_, ?_⟩
  · by_cases h1 : A1 p
    · have hf : (replay emp fs0 l).get p = (replay emp fs0 l1).get p := h.r1.priv p h1
      have h2 : (replay emp fs0 l2).get p = fs0.get p :=
        d2.owned.replay_frame (hdisj p h1) (d1.priv.notShared h1) emp fs0
      refine ⟨fun s hs hne => ?_, fun hall => ?_⟩
      · simp only [List.mem_cons, List.not_mem_nil, or_false] at hs
        rcases hs with rfl | rfl
        · exact hf
        · exact absurd h2 hne
      · rw [hf]; exact hall _ (by simp)
    by_cases h2 : A2 p
    · have hf : (replay emp fs0 l).get p = (replay emp fs0 l2).get p := h.r2.priv p h2
      have h1' : (replay emp fs0 l1).get p = fs0.get p :=
        d1.owned.replay_frame h1 (d2.priv.notShared h2) emp fs0
      refine ⟨fun s hs hne => ?_, fun hall => ?_⟩
      · simp only [List.mem_cons, List.not_mem_nil, or_false] at hs
        rcases hs with rfl | rfl
        · exact absurd h1' hne
        · exact hf
      · rw [hf]; exact hall _ (by simp)
    cases hsh : p.isShared with
    | false =>
      have e1 : (replay emp fs0 l1).get p = fs0.get p := d1.owned.replay_frame h1 hsh emp fs0
      have e2 : (replay emp fs0 l2).get p = fs0.get p := d2.owned.replay_frame h2 hsh emp fs0
      have e : (replay emp fs0 l).get p = fs0.get p :=
        ho12.replay_frame (by rintro (h | h); exact h1 h; exact h2 h) hsh emp fs0
      refine ⟨fun s hs hne => ?_, fun _ => e⟩
      simp only [List.mem_cons, List.not_mem_nil, or_false] at hs
      rcases hs with rfl | rfl
      · exact absurd e1 hne
      · exact absurd e2 hne
    | true =>
      rcases P.isShared_true hsh with ⟨d, rfl⟩ | ⟨sh, rfl⟩
      · simp [P.isObj] at hp
      have i1 := ShardInv.replay d1.priv emp l1 (ShardInv.refl fs0) d1.owned sh
      have i2 := ShardInv.replay d2.priv emp l2 (ShardInv.refl fs0) d2.owned sh
      have i := ShardInv.replay hA12 emp l (ShardInv.refl fs0) ho12 sh
      -- a solo run that changed the shard directory created it; then it exists in the merged run
      have created : ∀ s : FS κ, (s.get (.shard sh) = fs0.get (.shard sh) ∨
            (fs0.get (.shard sh) = none ∧ s.get (.shard sh) = some .dir)) →
          (s.get (.shard sh) ≠ none → (replay emp fs0 l).get (.shard sh) ≠ none) →
          s.get (.shard sh) ≠ fs0.get (.shard sh) →
          (replay emp fs0 l).get (.shard sh) = s.get (.shard sh) := by
        intro s is lb hne
        rcases is with he | ⟨h0, hd⟩
        · exact absurd he hne
        · rcases i with he' | ⟨_, hd'⟩
          · exact absurd (he'.trans h0) (lb (by rw [hd]; simp))
          · rw [hd, hd']
      refine ⟨fun s hs hne => ?_, fun hall => ?_⟩
      · simp only [List.mem_cons, List.not_mem_nil, or_false] at hs
        rcases hs with rfl | rfl
        · exact created _ i1 (h.lb1 _ rfl) hne
        · exact created _ i2 (h.lb2 _ rfl) hne
      · rcases i with he' | ⟨h0, hd'⟩
        · exact he'
        · exfalso
          have e1 := hall (replay emp fs0 l1) (by simp)
          have e2 := hall (replay emp fs0 l2) (by simp)
          rcases h.ub (.shard sh) rfl (by rw [hd']; simp) with hh | hh
          · exact hh (e1.trans h0)
          · exact hh (e2.trans h0)
  · exact (objLe_replay g emp hs0 d1.allowed).trans h.r1.objs
  · intro s hs
    simp only [List.mem_cons, List.not_mem_nil, or_false] at hs
    rcases hs with rfl | rfl
    · exact h.r1.objs
    · exact h.r2.objs
  · intro d hd
    rcases h.ub (.obj d) rfl hd with hh | hh
    · exact .inr ⟨_, by simp, hh⟩
    · exact .inr ⟨_, by simp, hh⟩

/-! ## permission bits of objects: no object is left writable -/

/-- permission discipline of a trace: an object is only ever `chmod`ed to 0444, and a `rename` onto an
object name is followed, later in the same trace, by the `chmod` of that object to 0444.  (Stable under
interleaving, unlike "immediately followed".) -/
def ModeOK : List (Call κ) → Prop
  | [] => True
  | c :: cs => (∀ s d, c = .rename s (.obj d) → Call.chmod (.obj d) 0o444 ∈ cs) ∧
      (∀ d m, c = .chmod (.obj d) m → m = 0o444) ∧ ModeOK cs

theorem ModeOK.append : ∀ {l1 l2 : List (Call κ)}, ModeOK l1 → ModeOK l2 → ModeOK (l1 ++ l2)
  | [], _, _, h2 => h2
  | _ :: _, _, h1, h2 =>
    ⟨fun s d e => List.mem_append_left _ (h1.1 s d e), h1.2.1, ModeOK.append h1.2.2 h2⟩

theorem ModeOK.interleaving {l1 l2 l : List (Call κ)} (hi : Interleaving l1 l2 l) :
    ModeOK l1 → ModeOK l2 → ModeOK l := by
  induction hi with
  | nil => intro _ _; trivial
  | left hi' ih =>
    intro h1 h2
    exact ⟨fun s d e => (hi'.mem _).2 (.inl (h1.1 s d e)), h1.2.1, ih h1.2.2 h2⟩
  | right hi' ih =>
    intro h1 h2
    exact ⟨fun s d e => (hi'.mem _).2 (.inr (h2.1 s d e)), h2.2.1, ih h1 h2.2.2⟩

theorem ModeOK.interleavingN {ts : List (List (Call κ))} {l : List (Call κ)} (hi : InterleavingN ts l) :
    (∀ t ∈ ts, ModeOK t) → ModeOK l := by
  induction hi with
  | nil => intro _; trivial
  | cons _ hb ih =>
    intro h
    exact ModeOK.interleaving hb (h _ (by simp)) (ih (fun t ht => h t (by simp [ht])))

theorem ModeOK.of_mem : ∀ {l : List (Call κ)}, ModeOK l → ∀ c ∈ l,
    (∀ s d, c = .rename s (.obj d) → Call.chmod (.obj d) 0o444 ∈ l) ∧
    (∀ d m, c = .chmod (.obj d) m → m = 0o444)
  | [], _, c, hc => by simp at hc
  | c0 :: cs, h, c, hc => by
    rcases List.mem_cons.1 hc with rfl | hc
    · exact ⟨fun s d e => List.mem_cons_of_mem _ (h.1 s d e), h.2.1⟩
    · have := ModeOK.of_mem h.2.2 c hc
      exact ⟨fun s d e => List.mem_cons_of_mem _ (this.1 s d e), this.2⟩

/-- what `chmod 0444` leaves at the path, if it is a complete file -/
theorem get_chmod_file_mode {emp : κ} {fs : FS κ} {p : P} {c : κ} {m : Nat}
    (h : (apply emp fs (.chmod p 0o444)).get p = some (.file c m)) : m = 0o444 := by
  simp only [apply] at h
  split at h
  · simp [FS.get_set] at h; exact h.2.symm
  · simp [FS.get_set] at h
  · next h1 h2 =>
    cases hg : fs.get p with
    | none => rw [hg] at h; cases h
    | some e =>
      rw [hg] at h
      cases h
      exact absurd hg (h1 c m)

/-- a disciplined trace without `chmod <obj d> 0444` does not write the object `d` at all -/
theorem ModeOK.no_write {A : P → Prop} (hA : Priv A) {d : Digest} {l : List (Call κ)} (hm : ModeOK l)
    (ho : OwnedAll A l) (hn : Call.chmod (.obj d) 0o444 ∉ l) (emp : κ) (fs : FS κ) :
    (replay emp fs l).get (.obj d) = fs.get (.obj d) := by
  apply replay_get_frame
  intro c hc hw
  obtain ⟨h1, h2⟩ := hm.of_mem c hc
  rcases (ho c hc).shared_write hA (q := .obj d) rfl hw with rfl | ⟨m, rfl⟩ | ⟨s, -, rfl⟩
  · rcases ho _ hc with h | ⟨h, hh⟩
    · exact absurd (hA.notObj _ h) (by simp [P.isObj])
    · cases hh
  · rw [h2 d m rfl] at hc; exact hn hc
  · exact hn (h1 s d rfl)

/-- a disciplined trace that contains `chmod <obj d> 0444` leaves the object `d`, if complete, read-only -/
theorem ModeOK.final_of_chmod {A : P → Prop} (hA : Priv A) {d : Digest} (emp : κ) :
    ∀ {l : List (Call κ)}, ModeOK l → OwnedAll A l → Call.chmod (.obj d) 0o444 ∈ l →
      ∀ (fs : FS κ) (c : κ) (m : Nat), (replay emp fs l).get (.obj d) = some (.file c m) → m = 0o444
  | [], _, _, hin, _, _, _, _ => by simp at hin
  | c0 :: cs, hm, ho, hin, fs, c, m, h => by
    have ho' : OwnedAll A cs := fun c' hc' => ho c' (by simp [hc'])
    by_cases hcs : Call.chmod (.obj d) 0o444 ∈ cs
    · exact ModeOK.final_of_chmod hA emp hm.2.2 ho' hcs _ c m h
    · have hc0 : c0 = .chmod (.obj d) 0o444 := by
        rcases List.mem_cons.1 hin with h | h
        · exact h.symm
        · exact absurd h hcs
      subst hc0
      rw [replay_cons, hm.2.2.no_write hA ho' hcs] at h
      exact get_chmod_file_mode h

/-- **No object is left writable.** Along a disciplined trace a complete object either ends up
read-only (0444) or is exactly what it was at the start. -/
theorem ModeOK.final {A : P → Prop} (hA : Priv A) {d : Digest} (emp : κ) :
    ∀ {l : List (Call κ)}, ModeOK l → OwnedAll A l →
      ∀ (fs : FS κ) (c : κ) (m : Nat), (replay emp fs l).get (.obj d) = some (.file c m) →
        m = 0o444 ∨ fs.get (.obj d) = some (.file c m)
  | [], _, _, _, _, _, h => .inr h
  | c0 :: cs, hm, ho, fs, c, m, h => by
    have ho' : OwnedAll A cs := fun c' hc' => ho c' (by simp [hc'])
    rcases ModeOK.final hA emp hm.2.2 ho' (apply emp fs c0) c m h with h1 | h1
    · exact .inl h1
    · by_cases hw : P.obj d ∈ callWrites c0
      · rcases (ho c0 (by simp)).shared_write hA (q := .obj d) rfl hw with rfl | ⟨m', rfl⟩ | ⟨s, -, rfl⟩
        · rcases ho _ (List.mem_cons_self ..) with h' | ⟨h', hh⟩
          · exact absurd (hA.notObj _ h') (by simp [P.isObj])
          · cases hh
        · rw [hm.2.1 d m' rfl] at h1
          exact .inl (get_chmod_file_mode h1)
        · exact .inl (ModeOK.final_of_chmod hA emp hm.2.2 ho' (hm.1 s d rfl) _ c m h)
      · rw [apply_get_frame _ _ _ _ hw] at h1
        exact .inr h1

/-- every complete object is read-only -/
def ObjsReadOnly (fs : FS κ) : Prop := ∀ d c m, fs.get (.obj d) = some (.file c m) → m = 0o444

theorem ModeOK.objsReadOnly {A : P → Prop} (hA : Priv A) (emp : κ) {l : List (Call κ)} (hm : ModeOK l)
    (ho : OwnedAll A l) {fs : FS κ} (h0 : ObjsReadOnly fs) : ObjsReadOnly (replay emp fs l) := by
  intro d c m h
  rcases hm.final hA emp ho fs c m h with h1 | h1
  · exact h1
  · exact h0 d c m h1

/-- two states with the same complete, read-only objects (same names, same bytes) agree on objects -/
theorem objs_eq_of_objLe {ctx : Ctx κ} {f f' : FS κ} (hf : NoTorn ctx f) (hf' : NoTorn ctx f')
    (r : ObjsReadOnly f) (r' : ObjsReadOnly f') (h : ObjLe f f') (h' : ObjLe f' f) (d : Digest) :
    f.get (.obj d) = f'.get (.obj d) := by
  cases hg : f.get (.obj d) with
  | none =>
    cases hg' : f'.get (.obj d) with
    | none => rfl
    | some e =>
      obtain ⟨c, m, rfl, -⟩ := hf' d e hg'
      obtain ⟨m', hm'⟩ := h' d c m hg'
      rw [hg] at hm'; cases hm'
  | some e =>
    obtain ⟨c, m, rfl, -⟩ := hf d e hg
    obtain ⟨m', hm'⟩ := h d c m hg
    rw [hm', r d c m hg, r' d c m' hm']

/-! ## n workers -/

/-- the union of the private paths of several workers -/
def UnionOf (As : List (P → Prop)) (p : P) : Prop := ∃ A ∈ As, A p

/-- pairwise disjoint sets of private paths -/
def DisjointAll (As : List (P → Prop)) : Prop := As.Pairwise (fun A B => ∀ p, A p → ¬ B p)

/-- **n workers.** Workers `i = 1 … n`, each disciplined for its private paths `Aᵢ` when its trace `tᵢ`
runs alone from the safe state `fs0`, private paths pairwise disjoint.  For EVERY schedule
`InterleavingN [t₁, …, tₙ] l`:
* `l` is disciplined for the union of the private paths — in particular an `AllowedTrace`, hence
  safe after every prefix, and it can take part in a further interleaving (nested workers);
* every worker finds its private paths at the end as after its solo run, and all the objects of its
  solo run (`Rel`);
* the final state is the merge of the solo final states (`Merged`). -/
theorem interleavingN_disciplined {ctx : Ctx κ} (g : Good ctx) {tracked : List (P × κ)} (emp : κ)
    {fs0 : FS κ} (hs0 : Safe ctx tracked fs0) :
    ∀ {As : List (P → Prop)} {ts : List (List (Call κ))},
      Forall2 (Disciplined ctx emp tracked fs0) As ts → DisjointAll As →
      ∀ {l : List (Call κ)}, InterleavingN ts l →
        Disciplined ctx emp tracked fs0 (UnionOf As) l ∧
        Forall2 (fun A t => Rel A (replay emp fs0 t) (replay emp fs0 l)) As ts ∧
        Merged fs0 (ts.map (replay emp fs0)) (replay emp fs0 l) := by
  intro As ts hw
  induction hw with
  | nil =>
    intro _ l hi
    rw [hi.nil_inv]
    refine ⟨Disciplined.nil ⟨?_, ?_⟩, .nil, Merged.nil fs0⟩
    · rintro p ⟨A, hA, -⟩; simp at hA
    · rintro p s ⟨A, hA, -⟩; simp at hA
  | @cons A t As ts hd _ ih =>
    intro hdis l hi
    obtain ⟨hdA, hdAs⟩ := List.pairwise_cons.1 hdis
    obtain ⟨r, hir, hb⟩ := hi.cons_inv
    obtain ⟨dr, relr, mr⟩ := ih hdAs hir
    have hdisj : ∀ p, A p → ¬ UnionOf As p := by
      rintro p hp ⟨B, hB, hBp⟩
      exact hdA B hB p hp hBp
    obtain ⟨ha, hsim⟩ := interleaving_sim g emp hd.priv dr.priv hdisj hb fs0 fs0 fs0 hs0
      (Sim.refl _ _ _) hd.allowed dr.allowed hd.owned dr.owned
    have hpriv : Priv (UnionOf (A :: As)) := by
      constructor
      · rintro p ⟨B, hB, hp⟩
        rcases List.mem_cons.1 hB with rfl | hB
        · exact hd.priv.notObj p hp
        · exact dr.priv.notObj p ⟨B, hB, hp⟩
      · rintro p s ⟨B, hB, hp⟩
        rcases List.mem_cons.1 hB with rfl | hB
        · exact hd.priv.notShard p s hp
        · exact dr.priv.notShard p s ⟨B, hB, hp⟩
    refine ⟨⟨hpriv, ha, ?_⟩, .cons hsim.r1 ?_, ?_⟩
    · intro c hc
      rcases (hb.mem c).1 hc with hc | hc
      · exact (hd.owned c hc).mono (fun p hp => ⟨A, by simp, hp⟩)
      · exact (dr.owned c hc).mono (fun p ⟨B, hB, hp⟩ => ⟨B, by simp [hB], hp⟩)
    · refine relr.imp_mem (fun B hB t' _ hrel => ⟨fun p hp => ?_, hrel.objs.trans hsim.r2.objs⟩)
      rw [hsim.r2.priv p ⟨B, hB, hp⟩]
      exact hrel.priv p hp
    · rw [List.map_cons]
      exact mr.cons (hsim.merged g hs0 hd dr hdisj hb)

end Dud.Sys
