import DudModel.Lemmas.StatusCommit
import DudModel.Props.C15
import DudModel.Props.C01world
/-!
# World-level helpers for the lift of C05 (status after commit) and C15 (commit twice)

* `holds_upToDate`: in a store that *holds* a plain tree (`HoldsNode`, `Lemmas/Holds.lean`) the
  workspace a commit / checkout leaves (`wsAfter`) is `UpToDate` (`StatusSpec.lean`);
* `Settled`: what is true of the node `t'` a successful commit of an output artifact leaves in the
  workspace, in the cache of that moment and in every later cache: status reports it up to date
  without error, and a second commit (either strategy) records the same checksum, adds nothing to
  the cache (up to bytes) and keeps the logical content;
* `commitArt_settled`: `commitArt` on an artifact satisfying `ArtPre` establishes `Settled`;
* the same lifted through `commitArtW` / `commitArts` / `commitAct`, for any predicate that is
  monotone in the cache (`commitArts_est`, `commitAct_est`), and what `commitAct` records for the
  inputs no stage owns (`commitArts_skipfiles`).

Everything lives in the namespace `Dud.WStat`.
-/
namespace Dud.WStat

open Dud.WT

variable {κ : Type}

/-! ## a store holding a tree makes the committed workspace up to date -/

mutual
theorem holds_upToDate {ctx : Ctx κ} (g : Good ctx) (s : Store κ) (strat : Strat) :
    ∀ (t : Node κ) (nm : Bytes) (fuel : Nat), t.plain = true → t.sorted = true → NamesOK ctx t →
      HoldsNode ctx s newChoice nm t → depth t ≤ fuel →
      UpToDate ctx s fuel t.isDir (treeDigest ctx nm t) (wsAfter ctx strat t)
  | .file x, nm, fuel, _, _, _, h, _ => by
    simp only [HoldsNode] at h
    obtain ⟨o, ho, hb⟩ := h
    simp only [Node.isDir, treeDigest, UpToDate_file]
    refine ⟨hasSum_H g x, o, ho, ?_⟩
    rw [hb]
    cases strat
    · exact .inr rfl
    · exact .inl rfl
  | .dir es, nm, fuel, hp, hs, hn, h, hf => by
    have hp' : plainList es = true := by simpa [Node.plain] using hp
    have hs' : sortedList es = true := by simpa [Node.sorted] using hs
    have hn' : NamesOKList ctx es := namesOK_dir hn
    obtain ⟨hhas, hread⟩ := readManifest_holds g hs' hn' h
    rw [digestAs_new] at hhas hread
    rw [childrenAs_new] at hread
    obtain ⟨k, rfl⟩ : ∃ k, fuel = k + 1 := ⟨fuel - 1, by simp only [depth] at hf; omega⟩
    have hk : depthList es ≤ k := by simp only [depth] at hf; omega
    simp only [HoldsNode] at h
    have hpw := holdsList_pointwise g s strat es k hp' hs' hn' h.2 hk
    obtain ⟨h1, h2⟩ := pointwise_children ctx s k es _ hs' hpw
    have hh : hasSum (treeDigest ctx nm (Node.dir es)) = true := by
      simp only [treeDigest]; exact hasSum_H g _
    simp only [UpToDate, Node.isDir, if_true]
    exact ⟨wsAfterList ctx strat es, childrenOf ctx es, wsAfter_dir ctx strat es, ⟨hh, hhas⟩, hread,
      h1, h2⟩
  | .link _, _, _, hp, _, _, _, _ => by simp [Node.plain] at hp
  | .other, _, _, hp, _, _, _, _ => by simp [Node.plain] at hp
theorem holdsList_pointwise {ctx : Ctx κ} (g : Good ctx) (s : Store κ) (strat : Strat) :
    ∀ (es : List (Name × Node κ)) (fuel : Nat), plainList es = true → sortedList es = true →
      NamesOKList ctx es → HoldsList ctx s newChoice es → depthList es ≤ fuel →
      Pointwise ctx s fuel es (wsAfterList ctx strat es)
  | [], _, _, _, _, _, _ => by simp [Pointwise, wsAfterList_nil]
  | (nm, n) :: r, fuel, hp, hs, hn, h, hf => by
    simp only [HoldsList] at h
    have hdn : depth n ≤ fuel := by simp only [depthList] at hf; omega
    have hdr : depthList r ≤ fuel := by simp only [depthList] at hf; omega
    rw [wsAfterList_cons]
    simp only [Pointwise]
    exact ⟨_, _, rfl,
      holds_upToDate g s strat n nm fuel (plainList_cons hp).1 (sortedList_cons hs).1
        (namesOK_node hn) h.1 hdn,
      holdsList_pointwise g s strat r fuel (plainList_cons hp).2 (sortedList_cons hs).2
        (namesOK_tail hn) h.2 hdr⟩
end

/-! ## small facts about `fileStatus` / `dirStatus` / `commitArt` -/

section status
variable [DecidableEq κ]

theorem fileStatus_name (ctx : Ctx κ) (s : Store κ) (nm : Bytes) (skip : Bool) (sum : Digest)
    (cur : Option (Node κ)) : (fileStatus ctx s nm skip sum cur).name = nm := by
  unfold fileStatus; simp only; split
  · split
    · split <;> rfl
    · split
      · rfl
      · split <;> rfl
  · rfl

theorem dirStatus_name {ctx : Ctx κ} {s : Store κ} {fuel : Nat} {nm : Bytes} {noRec : Bool}
    {sum : Digest} {cur : Option (Node κ)} {st : Status}
    (h : dirStatus ctx s fuel nm noRec sum cur = .ok st) : st.name = nm := by
  cases fuel with
  | zero => simp [dirStatus] at h
  | succ fuel =>
    simp only [dirStatus] at h
    split at h
    · split at h; · cases h
      split at h; · cases h
      split at h; · cases h
      simp only [Except.ok.injEq] at h
      subst h; rfl
    · simp only [Except.ok.injEq] at h
      subst h; rfl

theorem typed_with_skip (st : Status) (b : Bool) : ({ st with skip := b } : Status).typed = st.typed := by
  cases st; simp [Status.typed]

/-- status of a skip-cache file artifact on a regular file whose hash is the recorded checksum -/
theorem fileStatus_skip_file {ctx : Ctx κ} (g : Good ctx) (s : Store κ) (nm : Bytes) (c : κ) :
    (fileStatus ctx s nm true (ctx.H c) (some (.file c))).cm = true := by
  simp [fileStatus, quick, hasSum_H g]

/-- … and on a link to the very object recorded, when that object is in the cache -/
theorem fileStatus_skip_link (ctx : Ctx κ) (s : Store κ) (nm : Bytes) (d : Digest)
    (hh : hasSum d = true) (hhas : s.has d = true) :
    (fileStatus ctx s nm true d (some (.link (.obj d)))).cm = true := by
  simp [fileStatus, quick, hh, hhas]

end status

theorem wsAfter_isDir (ctx : Ctx κ) (strat : Strat) (t : Node κ) :
    (wsAfter ctx strat t).isDir = t.isDir := by
  cases strat
  · exact linked_isDir ctx t
  · rfl

/-- where the top-level `commitArt` and the worker's `commitNode` agree: a recursive directory
artifact, or a file artifact without `skip-cache` -/
theorem commitArt_of_commitNode {ctx : Ctx κ} {strat : Strat} {a : Art} {t : Node κ} {s : Store κ}
    {t' : Node κ} {c' : Child} {s' : Store κ} (hk : t.isDir = a.isDir)
    (hnr : a.isDir = true → a.noRec = false) (hsk : a.isDir = false → a.skip = false)
    (h : commitNode ctx strat t ⟨a.path, a.sum, a.isDir⟩ s = .ok (t', c', s')) :
    commitArt ctx strat a (some t) s = .ok (t', c'.sum, s') := by
  cases t with
  | dir es =>
    have hd : a.isDir = true := hk.symm
    have hn := hnr hd
    simp only [commitNode, hd, if_true] at h
    simp only [commitArt, hd, if_true, hn]
    cases ho : oldManifest ctx s a.sum with
    | error e => rw [ho] at h; cases h
    | ok old =>
      rw [ho] at h
      dsimp only at h ⊢
      cases he : commitEntries ctx strat false es old s with
      | error e => rw [he] at h; cases h
      | ok v =>
        obtain ⟨es', cs, s1⟩ := v
        rw [he] at h
        simp only [Except.ok.injEq, Prod.mk.injEq] at h ⊢
        obtain ⟨rfl, rfl, rfl⟩ := h
        exact ⟨rfl, rfl, rfl⟩
  | file x =>
    have hd : a.isDir = false := hk.symm
    have hs := hsk hd
    simp only [commitNode, hd, Bool.false_eq_true, if_false] at h
    simp only [commitArt, hd, Bool.false_eq_true, if_false, hs]
    split at h
    · cases h
    rename_i n' d s1 hf
    rw [hf]
    simp only [Except.ok.injEq, Prod.mk.injEq] at h ⊢
    obtain ⟨rfl, rfl, rfl⟩ := h
    exact ⟨rfl, rfl, rfl⟩
  | link l =>
    have hd : a.isDir = false := hk.symm
    have hs := hsk hd
    simp only [commitNode, hd, Bool.false_eq_true, if_false] at h
    simp only [commitArt, hd, Bool.false_eq_true, if_false, hs]
    split at h
    · cases h
    rename_i n' d s1 hf
    rw [hf]
    simp only [Except.ok.injEq, Prod.mk.injEq] at h ⊢
    obtain ⟨rfl, rfl, rfl⟩ := h
    exact ⟨rfl, rfl, rfl⟩
  | other =>
    have hd : a.isDir = false := hk.symm
    have hs := hsk hd
    simp only [commitNode, hd, Bool.false_eq_true, if_false] at h
    simp only [commitArt, hd, Bool.false_eq_true, if_false, hs]
    split at h
    · cases h
    rename_i n' d s1 hf
    rw [hf]
    simp only [Except.ok.injEq, Prod.mk.injEq] at h ⊢
    obtain ⟨rfl, rfl, rfl⟩ := h
    exact ⟨rfl, rfl, rfl⟩

/-! ## `Settled` -/

section settled
variable [DecidableEq κ]

/-- What holds of the node `t'` found at the path of the committed artifact `a'` (original subtree
`n`) in the cache `s` and in every later cache `s''`:
* status succeeds and reports `ContentsMatch` (and no "incorrect file type");
* the logical content of `t'` is `n`;
* a second commit, with either strategy, succeeds, records the same checksum, changes the cache
  at most up to bytes (`Store.le` both ways) and leaves a node with the logical content `n`. -/
def Settled (cfg : Cfg κ) (a' : Art) (n t' : Node κ) (s : Store κ) : Prop :=
  ∀ s'', Store.le cfg.ctx s s'' →
    (∃ st, statusArt cfg.ctx s'' cfg.fuel a' (some t') = .ok st ∧ st.name = a'.path ∧
      st.cm = true ∧ st.typed = true) ∧
    deref cfg.ctx s'' t' = n ∧
    (Consistent cfg.ctx s'' → ∀ strat2 : Strat, ∃ t'' s3,
      commitArt cfg.ctx strat2 a' (some t') s'' = .ok (t'', a'.sum, s3) ∧
        Consistent cfg.ctx s3 ∧ Store.le cfg.ctx s'' s3 ∧ Store.le cfg.ctx s3 s'' ∧
        deref cfg.ctx s3 t'' = n)

theorem Settled.mono {cfg : Cfg κ} {a' : Art} {n t' : Node κ} {s s1 : Store κ}
    (h : Settled cfg a' n t' s) (hle : Store.le cfg.ctx s s1) : Settled cfg a' n t' s1 :=
  fun s'' hle' => h s'' (Store.le_trans hle hle')

/-- a recursive directory artifact or a file artifact without `skip-cache`: the workspace is what
a commit leaves (`wsAfter`, either strategy) and the cache holds the tree -/
theorem settled_of_holds {cfg : Cfg κ} (g : Good cfg.ctx) (a : Art) (n : Node κ) (strat1 : Strat)
    (hp : n.plain = true) (hs : n.sorted = true) (hn : NamesOK cfg.ctx n) (hk : n.isDir = a.isDir)
    (hnr : a.isDir = true → a.noRec = false) (hsk : a.isDir = false → a.skip = false)
    (hf : depth n ≤ cfg.fuel) (s : Store κ) (hh : HoldsNode cfg.ctx s newChoice a.path n) :
    Settled cfg { a with sum := treeDigest cfg.ctx a.path n } n (wsAfter cfg.ctx strat1 n) s := by
  intro s'' hle
  have hh' := HoldsNode.mono hle n _ _ hh
  have hu := holds_upToDate g s'' strat1 n a.path cfg.fuel hp hs hn hh' hf
  refine ⟨?_, deref_wsAfter hp hh' strat1, ?_⟩
  · cases hd : a.isDir with
    | true =>
      rw [hk, hd] at hu
      obtain ⟨st, hst, hcm, hty⟩ := dirStatus_of_upToDate a.path hu
      refine ⟨{ st with skip := a.skip }, ?_, (dirStatus_name hst : st.name = a.path), hcm, ?_⟩
      · simp only [statusArt, if_true, hnr hd, hst]
      · rw [typed_with_skip]; exact hty
    | false =>
      rw [hk, hd] at hu
      refine ⟨fileStatus cfg.ctx s'' a.path a.skip (treeDigest cfg.ctx a.path n)
        (some (wsAfter cfg.ctx strat1 n)), ?_, fileStatus_name _ _ _ _ _ _, ?_,
        fileStatus_typed _ _ _ _ _ _⟩
      · simp only [statusArt, Bool.false_eq_true, if_false]
      · rw [hsk hd]
        exact (fileStatus_cm_iff _ _ _ _ _).mpr ⟨_, rfl, UpToDate_file.mp hu⟩
  · intro hc strat2
    obtain ⟨s3, h2, hc3, hle3, hback, _, hd⟩ :=
      commit_idem_holding cfg.ctx g n a.path hp hs hn s'' hc hh' strat1 strat2
    refine ⟨_, s3, ?_, hc3, hle3, hback, hd⟩
    have := commitArt_of_commitNode (a := { a with sum := treeDigest cfg.ctx a.path n })
      (t := wsAfter cfg.ctx strat1 n) (by rw [wsAfter_isDir]; exact hk) hnr hsk
      (by rw [← hk]; exact h2)
    exact this

/-- a file artifact with `skip-cache` on a regular file -/
theorem settled_skip_file {cfg : Cfg κ} (g : Good cfg.ctx) (a : Art) (c : κ) (hd : a.isDir = false)
    (hsk : a.skip = true) (s : Store κ) :
    Settled cfg { a with sum := cfg.ctx.H c } (.file c) (.file c) s := by
  intro s'' _
  refine ⟨?_, by simp [deref], ?_⟩
  · refine ⟨fileStatus cfg.ctx s'' a.path a.skip (cfg.ctx.H c) (some (.file c)), ?_,
      fileStatus_name _ _ _ _ _ _, ?_, fileStatus_typed _ _ _ _ _ _⟩
    · simp only [statusArt, hd, Bool.false_eq_true, if_false]
    · rw [hsk]; exact fileStatus_skip_file g _ _ _
  · intro hc strat2
    refine ⟨.file c, s'', ?_, hc, Store.le_refl _ _, Store.le_refl _ _, by simp [deref]⟩
    exact commitArt_file_skip cfg.ctx { a with sum := cfg.ctx.H c } c hd hsk s'' strat2

end settled

/-! ## establishing a store-monotone predicate through `commitArtW` / `commitArts` / `commitAct` -/

/-- `P a' n t' s`: a predicate on the committed artifact `a'`, the original subtree `n`, the node `t'`
the commit left and the cache `s`, which is monotone in the cache and which `commitArt` establishes
for artifacts satisfying `ArtPre` and the side condition `Q` -/
structure Est (cfg : Cfg κ) (Q : Art → Prop) (P : Art → Node κ → Node κ → Store κ → Prop) : Prop where
  mono : ∀ a' n t' s s1, P a' n t' s → Store.le cfg.ctx s s1 → P a' n t' s1
  est : ∀ a n, ArtPre cfg.ctx cfg.fuel a n → Q a → ∀ s, Consistent cfg.ctx s → ∀ strat t' d s',
    commitArt cfg.ctx strat a (some n) s = .ok (t', d, s') → P { a with sum := d } n t' s'

section est
variable {cfg : Cfg κ} {Q : Art → Prop} {P : Art → Node κ → Node κ → Store κ → Prop}

theorem commitArtW_est (E : Est cfg Q P) (strat : Strat) (a a' : Art) (w w' : World κ) (n : Node κ)
    (hn : getPath w.ws (Path.comps a.path) = some n) (hpre : ArtPre cfg.ctx cfg.fuel a n) (hq : Q a)
    (hc : Consistent cfg.ctx w.store) (h : commitArtW cfg strat a w = .ok (a', w')) :
    ∃ t', getPath w'.ws (Path.comps a.path) = some t' ∧ P a' n t' w'.store := by
  obtain ⟨t, d, s, ws', hca, hsp, rfl, rfl⟩ := WT.commitArtW_inv h
  rw [hn] at hca
  exact ⟨t, WT.getPath_setPath_self _ _ _ _ hsp, E.est a n hpre hq _ hc strat _ _ _ hca⟩

theorem commitArts_est (E : Est cfg Q P) (g : Good cfg.ctx) (strat : Strat) :
    ∀ (as as' : List Art) (w w' : World κ), ApartArts as →
      (∀ a, a ∈ as → ∃ n, getPath w.ws (Path.comps a.path) = some n ∧ ArtPre cfg.ctx cfg.fuel a n) →
      (∀ a, a ∈ as → Q a) →
      Consistent cfg.ctx w.store → commitArts cfg strat as w = .ok (as', w') →
      ∀ a, a ∈ as → ∃ t', getPath w'.ws (Path.comps a.path) = some t' ∧
        P (committedArt cfg.ctx w.ws a) (origAt w.ws a) t' w'.store
  | [], _, _, _, _, _, _, _, _ => by simp
  | a :: r, as', w, w', hap, hpre, hq, hc, h => by
    rw [commitArts] at h
    split at h
    · cases h
    rename_i a1 w1 h1
    split at h
    · cases h
    rename_i r2 w2 h2
    simp only [Except.ok.injEq, Prod.mk.injEq] at h
    obtain ⟨rfl, rfl⟩ := h
    have hap' := List.pairwise_cons.1 hap
    obtain ⟨n, hn, hpn⟩ := hpre a List.mem_cons_self
    obtain ⟨e1, c1, l1, _, _, _, _, f1⟩ := commitArtW_post cfg g strat a a1 w w1 n hn hpn hc h1
    have hsame : ∀ b, b ∈ r → getPath w1.ws (Path.comps b.path) = getPath w.ws (Path.comps b.path) :=
      fun b hb => f1 _ (hap'.1 b hb)
    have hpre1 : ∀ b, b ∈ r → ∃ m, getPath w1.ws (Path.comps b.path) = some m ∧
        ArtPre cfg.ctx cfg.fuel b m := by
      intro b hb
      obtain ⟨m, hm, hpm⟩ := hpre b (List.mem_cons_of_mem _ hb)
      exact ⟨m, by rw [hsame b hb]; exact hm, hpm⟩
    obtain ⟨_, _, l2, _, _, _, _, f2⟩ := commitArts_post cfg g strat r r2 w1 w2 hap'.2 hpre1 c1 h2
    intro b hb
    rcases List.mem_cons.1 hb with rfl | hb
    · obtain ⟨t', gt, pt⟩ := commitArtW_est E strat b a1 w w1 n hn hpn (hq b List.mem_cons_self) hc h1
      refine ⟨t', ?_, ?_⟩
      · rw [f2 _ (fun c hc' => (hap'.1 c hc').symm)]; exact gt
      · rw [← e1, origAt_of_getPath hn]
        exact E.mono _ _ _ _ _ pt l2
    · obtain ⟨t', gt, pt⟩ := commitArts_est E g strat r r2 w1 w2 hap'.2 hpre1
        (fun c hc' => hq c (List.mem_cons_of_mem _ hc')) c1 h2 b hb
      refine ⟨t', gt, ?_⟩
      rw [committedArt_congr cfg.ctx (hsame b hb)] at pt
      have : origAt w1.ws b = origAt w.ws b := by simp [origAt, hsame b hb]
      rw [this] at pt
      exact pt

end est

/-! ## what `commitAct` does, unfolded once -/

/-- the inputs no stage owns, as `commitAct` commits them -/
def plainIn (cfg : Cfg κ) (idx : Index) (stg : Stage) : List Art :=
  (stg.inputs.filter (fun a => (findOwner cfg.walkAccumulates idx a.path).isNone)).map
    (fun a => { a with skip := true })

/-- the inputs some stage owns, with the owner's checksum -/
def ownedIn (cfg : Cfg κ) (idx : Index) (stg : Stage) : List Art :=
  (stg.inputs.filter (fun a => (findOwner cfg.walkAccumulates idx a.path).isSome)).map fun a =>
    match findOwner cfg.walkAccumulates idx a.path with
    | some (_, oa) => { a with sum := oa.sum }
    | none => a

/-- the stage `commitAct` records -/
def newStage (cfg : Cfg κ) (stg : Stage) (ins outs : List Art) : Stage :=
  let stg' : Stage := { stg with inputs := ins, outputs := outs }
  { stg' with sum := stg'.defSum cfg }

theorem newStage_sum (cfg : Cfg κ) (stg : Stage) (ins outs : List Art) :
    (newStage cfg stg ins outs).sum = (newStage cfg stg ins outs).defSum cfg := rfl

theorem commitAct_inv {cfg : Cfg κ} {strat : Strat} {sp : Bytes} {w w' : World κ} {stg : Stage}
    (hs : alookup w.idx sp = some stg) (h : commitAct cfg strat sp w = .ok w') :
    ∃ pl w1 outs w2, commitArts cfg strat (sortArts (plainIn cfg w.idx stg)) w = .ok (pl, w1) ∧
      commitArts cfg strat (sortArts stg.outputs) w1 = .ok (outs, w2) ∧
      w' = { w2 with
        idx := setStage w2.idx sp (newStage cfg stg (sortArts (ownedIn cfg w.idx stg ++ pl)) outs),
        done := sp :: w2.done } := by
  unfold commitAct at h
  rw [World.stage_eq_ok.2 hs] at h
  dsimp only at h
  split at h
  · cases h
  rename_i pl w1 h1
  split at h
  · cases h
  rename_i outs w2 h2
  simp only [Except.ok.injEq] at h
  exact ⟨pl, w1, outs, w2, h1, h2, h.symm⟩

theorem mem_plainIn {cfg : Cfg κ} {idx : Index} {stg : Stage} {b : Art} (h : b ∈ plainIn cfg idx stg) :
    ∃ b0, b0 ∈ stg.inputs ∧ (findOwner cfg.walkAccumulates idx b0.path).isNone = true ∧
      b = { b0 with skip := true } := by
  obtain ⟨b0, hb0, rfl⟩ := List.mem_map.1 h
  obtain ⟨hin, hown⟩ := List.mem_filter.1 hb0
  exact ⟨b0, hin, hown, rfl⟩

theorem mem_ownedIn {cfg : Cfg κ} {idx : Index} {stg : Stage} {b : Art} (h : b ∈ ownedIn cfg idx stg) :
    (findOwner cfg.walkAccumulates idx b.path).isSome = true := by
  obtain ⟨b0, hb0, rfl⟩ := List.mem_map.1 h
  obtain ⟨_, hown⟩ := List.mem_filter.1 hb0
  have hp : (match findOwner cfg.walkAccumulates idx b0.path with
      | some (_, oa) => ({ b0 with sum := oa.sum } : Art)
      | none => b0).path = b0.path := by
    split <;> rfl
  rw [hp]
  exact hown

/-- **Stage level.** `commitAct` establishes `P` at every output (hypotheses as in `commitAct_post`) -/
theorem commitAct_est {cfg : Cfg κ} {Q : Art → Prop} {P : Art → Node κ → Node κ → Store κ → Prop}
    (E : Est cfg Q P) (g : Good cfg.ctx) (strat : Strat) (sp : Bytes) (w w' : World κ)
    (stg : Stage) (hs : alookup w.idx sp = some stg) (hap : ApartArts stg.outputs)
    (hpre : ∀ a, a ∈ stg.outputs → ∃ n, getPath w.ws (Path.comps a.path) = some n ∧
      ArtPre cfg.ctx cfg.fuel a n)
    (hq : ∀ a, a ∈ stg.outputs → Q a)
    (hin : ∀ a, a ∈ stg.outputs → PlainInputsApart cfg w.idx stg (Path.comps a.path))
    (hc : Consistent cfg.ctx w.store) (h : commitAct cfg strat sp w = .ok w') :
    ∀ a, a ∈ stg.outputs → ∃ t', getPath w'.ws (Path.comps a.path) = some t' ∧
      P (committedArt cfg.ctx w.ws a) (origAt w.ws a) t' w'.store := by
  obtain ⟨pl, w1, outs, w2, h1, h2, rfl⟩ := commitAct_inv hs h
  obtain ⟨st1, _, _, f1⟩ := WT.commitArts_elsewhere g strat _ h1
  have hpl : ∀ q, PlainInputsApart cfg w.idx stg q → ∀ b, b ∈ sortArts (plainIn cfg w.idx stg) →
      (b.skip = true ∧ b.isDir = false) ∨ Apart (Path.comps b.path) q := by
    intro q hq' b hb
    obtain ⟨b0, hin0, hown, rfl⟩ := mem_plainIn (mem_of_mem_sortArts hb)
    rcases hq' b0 hin0 hown with hf | ha
    · exact .inl ⟨rfl, hf⟩
    · exact .inr ha
  have hsame : ∀ a, a ∈ stg.outputs →
      getPath w1.ws (Path.comps a.path) = getPath w.ws (Path.comps a.path) :=
    fun a ha => f1 _ (hpl _ (hin a ha))
  obtain ⟨c1, _⟩ := st1 hc
  have hpre1 : ∀ a, a ∈ sortArts stg.outputs → ∃ n, getPath w1.ws (Path.comps a.path) = some n ∧
      ArtPre cfg.ctx cfg.fuel a n := by
    intro a ha
    have ha' := mem_of_mem_sortArts ha
    obtain ⟨n, hn, hp⟩ := hpre a ha'
    exact ⟨n, by rw [hsame a ha']; exact hn, hp⟩
  intro a ha
  obtain ⟨t', gt, pt⟩ := commitArts_est E g strat (sortArts stg.outputs) outs w1 w2 hap.sortArts hpre1
    (fun b hb => hq b (mem_of_mem_sortArts hb)) c1 h2 a (mem_sortArts_of_mem hap.paths_ne ha)
  refine ⟨t', gt, ?_⟩
  rw [committedArt_congr cfg.ctx (hsame a ha)] at pt
  have : origAt w1.ws a = origAt w.ws a := by simp [origAt, hsame a ha]
  rw [this] at pt
  exact pt

/-! ## the inputs no stage owns: file artifacts committed with `skip-cache` -/

/-- what a successful commit of a skip-cache file artifact found at its path, and recorded -/
def InputOK (ctx : Ctx κ) (b' : Art) (nd : Node κ) (s : Store κ) : Prop :=
  (∃ c, nd = .file c ∧ b'.sum = ctx.H c) ∨
    (nd = .link (.obj b'.sum) ∧ hasSum b'.sum = true ∧ s.has b'.sum = true)

theorem InputOK.mono {ctx : Ctx κ} {b' : Art} {nd : Node κ} {s s1 : Store κ}
    (h : InputOK ctx b' nd s) (hle : Store.le ctx s s1) : InputOK ctx b' nd s1 := by
  rcases h with h | ⟨h1, h2, h3⟩
  · exact .inl h
  · exact .inr ⟨h1, h2, Store.has_le hle h3⟩

theorem commitFile_skip_inv {ctx : Ctx κ} {strat : Strat} {cur : Option (Node κ)} {sum : Digest}
    {s : Store κ} {n' : Node κ} {d : Digest} {s' : Store κ}
    (h : commitFile ctx strat true cur sum s = .ok (n', d, s')) :
    cur = some n' ∧ s' = s ∧ ((∃ c, n' = .file c ∧ d = ctx.H c) ∨
      (n' = .link (.obj sum) ∧ d = sum ∧ hasSum sum = true ∧ s.has sum = true)) := by
  unfold commitFile at h
  cases cur with
  | none => cases h
  | some nd =>
    simp only at h
    by_cases hq : (quick s sum (some nd)).cm = true
    · rw [if_pos hq] at h
      simp only [Except.ok.injEq, Prod.mk.injEq] at h
      obtain ⟨rfl, rfl, rfl⟩ := h
      refine ⟨rfl, rfl, .inr ?_⟩
      cases nd with
      | link l =>
        cases l with
        | obj d0 =>
          simp only [quick, Bool.and_eq_true, beq_iff_eq] at hq
          obtain ⟨⟨hh, hhas⟩, rfl⟩ := hq
          exact ⟨rfl, rfl, hh, hhas⟩
        | foreign b => simp [quick] at hq
      | file c => simp [quick] at hq
      | dir es => simp [quick] at hq
      | other => simp [quick] at hq
    · rw [if_neg hq] at h
      cases nd with
      | file c =>
        simp only [if_true, Except.ok.injEq, Prod.mk.injEq] at h
        obtain ⟨rfl, rfl, rfl⟩ := h
        exact ⟨rfl, rfl, .inl ⟨c, rfl, rfl⟩⟩
      | link l =>
        cases l with
        | obj d0 => simp at h
        | foreign b => simp at h
      | dir es => simp at h
      | other => simp at h

/-- recommitting such an input changes nothing -/
theorem commitArt_inputOK {ctx : Ctx κ} {b' : Art} {nd : Node κ} {s : Store κ}
    (hsk : b'.skip = true) (hd : b'.isDir = false) (h : InputOK ctx b' nd s) (strat : Strat) :
    commitArt ctx strat b' (some nd) s = .ok (nd, b'.sum, s) := by
  simp only [commitArt, hd, Bool.false_eq_true, if_false, hsk]
  rcases h with ⟨c, rfl, hc⟩ | ⟨rfl, hh, hhas⟩
  · simp [commitFile, quick, hc]
  · have hq : (quick s b'.sum (some (Node.link (.obj b'.sum)))).cm = true := by
      simp [quick, hh, hhas]
    simp [commitFile, hq]

theorem fileStatus_inputOK [DecidableEq κ] {ctx : Ctx κ} (g : Good ctx) {b' : Art} {nd : Node κ}
    {s : Store κ} (h : InputOK ctx b' nd s) :
    (fileStatus ctx s b'.path true b'.sum (some nd)).cm = true := by
  rcases h with ⟨c, rfl, hc⟩ | ⟨rfl, hh, hhas⟩
  · rw [hc]; exact fileStatus_skip_file g _ _ _
  · exact fileStatus_skip_link ctx s _ _ hh hhas

/-- a list of skip-cache file artifacts: the world does not change, and every recorded artifact
satisfies `InputOK` with the node found at its path -/
theorem commitArts_skipfiles (cfg : Cfg κ) (strat : Strat) :
    ∀ (as as' : List Art) (w w' : World κ), (∀ b, b ∈ as → b.skip = true ∧ b.isDir = false) →
      commitArts cfg strat as w = .ok (as', w') →
      w' = w ∧ ∀ b', b' ∈ as' → b'.skip = true ∧ b'.isDir = false ∧ (∃ b, b ∈ as ∧ b'.path = b.path) ∧
        ∃ nd, getPath w.ws (Path.comps b'.path) = some nd ∧ InputOK cfg.ctx b' nd w.store
  | [], as', w, w', _, h => by
    simp only [commitArts, Except.ok.injEq, Prod.mk.injEq] at h
    obtain ⟨rfl, rfl⟩ := h
    exact ⟨rfl, by simp⟩
  | a :: r, as', w, w', hall, h => by
    rw [commitArts] at h
    split at h
    · cases h
    rename_i a1 w1 h1
    split at h
    · cases h
    rename_i r2 w2 h2
    simp only [Except.ok.injEq, Prod.mk.injEq] at h
    obtain ⟨rfl, rfl⟩ := h
    obtain ⟨hsk, hd⟩ := hall a List.mem_cons_self
    have hw1 : w1 = w := WT.commitArtW_skip cfg strat a a1 w w1 hsk hd h1
    subst hw1
    obtain ⟨rfl, hr⟩ := commitArts_skipfiles cfg strat r r2 w1 w2
      (fun b hb => hall b (List.mem_cons_of_mem _ hb)) h2
    refine ⟨rfl, ?_⟩
    intro b' hb'
    rcases List.mem_cons.1 hb' with rfl | hb'
    · obtain ⟨n, d, s, ws', hca, _, rfl, _⟩ := WT.commitArtW_inv h1
      unfold commitArt at hca
      rw [hd, hsk] at hca
      simp only [Bool.false_eq_true, if_false] at hca
      obtain ⟨hcur, _, hcase⟩ := commitFile_skip_inv hca
      refine ⟨hsk, hd, ⟨a, List.mem_cons_self, rfl⟩, n, hcur, ?_⟩
      rcases hcase with ⟨c, rfl, rfl⟩ | ⟨rfl, rfl, hh, hhas⟩
      · exact .inl ⟨c, rfl, rfl⟩
      · exact .inr ⟨rfl, hh, hhas⟩
    · obtain ⟨x1, x2, ⟨b, hb, hbp⟩, x4⟩ := hr b' hb'
      exact ⟨x1, x2, ⟨b, List.mem_cons_of_mem _ hb, hbp⟩, x4⟩

/-- **Stage level, the record.** When the inputs no stage owns are file artifacts, `commitAct`
leaves the workspace and the cache as the commit of the outputs left them, and the stage it records
has a matching definition checksum and lists each un-owned input as a skip-cache file artifact
satisfying `InputOK` (in the world before). -/
theorem commitAct_rec {cfg : Cfg κ} {strat : Strat} {sp : Bytes} {w w' : World κ} {stg : Stage}
    (hs : alookup w.idx sp = some stg)
    (hfiles : ∀ b, b ∈ stg.inputs → (findOwner cfg.walkAccumulates w.idx b.path).isNone = true →
      b.isDir = false)
    (h : commitAct cfg strat sp w = .ok w') :
    ∃ S, alookup w'.idx sp = some S ∧ S.sum = S.defSum cfg ∧
      ∀ b', b' ∈ S.inputs → (findOwner cfg.walkAccumulates w.idx b'.path).isNone = true →
        b'.skip = true ∧ b'.isDir = false ∧
        ∃ nd, getPath w.ws (Path.comps b'.path) = some nd ∧ InputOK cfg.ctx b' nd w.store := by
  obtain ⟨pl, w1, outs, w2, h1, h2, rfl⟩ := commitAct_inv hs h
  obtain ⟨rfl, hpl⟩ := commitArts_skipfiles cfg strat _ pl w w1 (by
    intro b hb
    obtain ⟨b0, hin0, hown, rfl⟩ := mem_plainIn (mem_of_mem_sortArts hb)
    exact ⟨rfl, hfiles b0 hin0 hown⟩) h1
  obtain ⟨i2, _, _⟩ := commitArts_frame cfg strat _ _ w1 w2 h2
  refine ⟨newStage cfg stg (sortArts (ownedIn cfg w1.idx stg ++ pl)) outs, ?_, newStage_sum _ _ _ _, ?_⟩
  · show alookup (setStage w2.idx sp _) sp = some _
    rw [i2]
    exact WT.alookup_setStage_self _ _ hs
  · intro b' hb' hun
    rcases List.mem_append.1 (mem_of_mem_sortArts hb') with ho | hp
    · have := mem_ownedIn ho
      rw [Option.isNone_iff_eq_none] at hun
      rw [hun] at this
      cases this
    · obtain ⟨x1, x2, _, x4⟩ := hpl b' hp
      exact ⟨x1, x2, x4⟩

/-! ## the commit traversal: the invariant of `Props/C01world.lean`, extended -/

/-- the inputs (of the stages in scope) that no stage owns are file artifacts -/
def PlainInputsFiles (cfg : Cfg κ) (Sc : Bytes → Prop) (w0 : World κ) : Prop :=
  ∀ sp stg, Sc sp → alookup w0.idx sp = some stg → ∀ b, b ∈ stg.inputs →
    (findOwner cfg.walkAccumulates w0.idx b.path).isNone = true → b.isDir = false

/-- the path `p` overlaps no output of a stage in scope -/
def ApartFromOutputs (Sc : Bytes → Prop) (w0 : World κ) (p : Bytes) : Prop :=
  ∀ sp stg, Sc sp → alookup w0.idx sp = some stg → ∀ a, a ∈ stg.outputs →
    Apart (Path.comps a.path) (Path.comps p)

/-- `CommitInv` plus, for every stage that is done: `P` holds of the node found at each output; the
recorded stage has a matching definition checksum, and its un-owned inputs are skip-cache file
artifacts which, when their path overlaps no output in scope, satisfy `InputOK` -/
structure CommitInv2 (cfg : Cfg κ) (P : Art → Node κ → Node κ → Store κ → Prop) (Sc : Bytes → Prop)
    (w0 w : World κ) : Prop where
  base : CommitInv cfg Sc w0 w
  outs : ∀ sp stg, Sc sp → w.done.contains sp = true → alookup w0.idx sp = some stg →
    ∀ a, a ∈ stg.outputs → ∃ t', getPath w.ws (Path.comps a.path) = some t' ∧
      P (committedArt cfg.ctx w0.ws a) (origAt w0.ws a) t' w.store
  recd : ∀ sp S, Sc sp → w.done.contains sp = true → alookup w.idx sp = some S →
    S.sum = S.defSum cfg ∧
    ∀ b', b' ∈ S.inputs → (findOwner cfg.walkAccumulates w0.idx b'.path).isNone = true →
      b'.skip = true ∧ b'.isDir = false ∧
      (ApartFromOutputs Sc w0 b'.path →
        ∃ nd, getPath w.ws (Path.comps b'.path) = some nd ∧ InputOK cfg.ctx b' nd w.store)

theorem CommitInv2.init (cfg : Cfg κ) (P : Art → Node κ → Node κ → Store κ → Prop)
    (Sc : Bytes → Prop) (w0 : World κ) (hc : Consistent cfg.ctx w0.store) :
    CommitInv2 cfg P Sc w0 (fresh w0) where
  base := CommitInv.init cfg Sc w0 hc
  outs := fun sp _ _ h => by simp [fresh] at h
  recd := fun sp _ _ h => by simp [fresh] at h

/-- one stage action of the commit traversal keeps the extended invariant -/
theorem commitInv2_step {cfg : Cfg κ} {Q : Art → Prop} {P : Art → Node κ → Node κ → Store κ → Prop}
    (E : Est cfg Q P) (g : Good cfg.ctx) (strat : Strat) (Sc : Bytes → Prop)
    (w0 : World κ) (hok : PipelineOK cfg Sc w0) (hfiles : PlainInputsFiles cfg Sc w0)
    (hQ : ∀ sp stg, Sc sp → alookup w0.idx sp = some stg → ∀ a, a ∈ stg.outputs → Q a)
    (sp : Bytes) (w w1 : World κ) (hsc : Sc sp)
    (hsh : SameShape w.idx w0.idx) (hinv : CommitInv2 cfg P Sc w0 w)
    (hnd : w.done.contains sp = false) (h : commitAct cfg strat sp w = .ok w1) :
    CommitInv2 cfg P Sc w0 w1 := by
  obtain ⟨stg, hs⟩ : ∃ stg, alookup w.idx sp = some stg := by
    cases hl : alookup w.idx sp with
    | some stg => exact ⟨stg, rfl⟩
    | none => simp [commitAct, World.stage, hl] at h
  have hs0 : alookup w0.idx sp = some stg := by rw [← hinv.base.pending_idx sp hnd]; exact hs
  have hws := hinv.base.pending_ws sp stg hsc hnd hs0
  have hap := hok.apart_in sp stg hsc hs0
  have hpre' : ∀ a, a ∈ stg.outputs → ∃ n, getPath w.ws (Path.comps a.path) = some n ∧
      ArtPre cfg.ctx cfg.fuel a n := by
    intro a ha
    obtain ⟨n, hn, hp⟩ := hok.pre sp stg hsc hs0 a ha
    exact ⟨n, by rw [hws a ha]; exact hn, hp⟩
  have hfiles_w : ∀ b, b ∈ stg.inputs →
      (findOwner cfg.walkAccumulates w.idx b.path).isNone = true → b.isDir = false := by
    intro b hb hn
    rw [findOwner_isNone_sim _ hsh] at hn
    exact hfiles sp stg hsc hs0 b hb hn
  have hplain : ∀ q, PlainInputsApart cfg w.idx stg q := fun q b hb hn => .inl (hfiles_w b hb hn)
  obtain ⟨_, l1, d1, ⟨stg', hi1, _, _⟩, _, _, f1⟩ := commitAct_post cfg g strat sp w w1 stg hs hap hpre'
    (fun a _ => hplain _) hinv.base.cons h
  have hest := commitAct_est E g strat sp w w1 stg hs hap hpre' (hQ sp stg hsc hs0)
    (fun a _ => hplain _) hinv.base.cons h
  obtain ⟨S, hS, hsum, hins⟩ := commitAct_rec hs hfiles_w h
  have frame : ∀ q, (∀ a, a ∈ stg.outputs → Apart (Path.comps a.path) q) →
      getPath w1.ws q = getPath w.ws q := fun q hq => f1 q hq (hplain q)
  have hdone : ∀ x, w1.done.contains x = (x == sp || w.done.contains x) := by
    intro x; rw [d1, List.contains_cons]
  have hold : ∀ x, x ≠ sp → w1.done.contains x = true → w.done.contains x = true := by
    intro x hxs hx
    rw [hdone] at hx
    have : (x == sp) = false := by simpa using hxs
    simpa [this] using hx
  refine ⟨commitInv_step cfg g strat Sc w0 hok sp w w1 hsc hsh hinv.base hnd h, ?_, ?_⟩
  · intro x stgx hscx hx hsx a ha
    by_cases hxs : x = sp
    · subst hxs
      rw [hs0] at hsx
      cases hsx
      obtain ⟨t', gt, pt⟩ := hest a ha
      refine ⟨t', gt, ?_⟩
      rw [committedArt_congr cfg.ctx (hws a ha)] at pt
      have : origAt w.ws a = origAt w0.ws a := by simp [origAt, hws a ha]
      rw [this] at pt
      exact pt
    · obtain ⟨t', gt, pt⟩ := hinv.outs x stgx hscx (hold x hxs hx) hsx a ha
      refine ⟨t', ?_, E.mono _ _ _ _ _ pt l1⟩
      rw [frame _ (fun b hb => hok.apart_across sp x stg stgx hsc hscx (Ne.symm hxs) hs0 hsx b hb a ha)]
      exact gt
  · intro x Sx hscx hx hSx
    by_cases hxs : x = sp
    · subst hxs
      rw [hS] at hSx
      cases hSx
      refine ⟨hsum, fun b' hb' hun => ?_⟩
      obtain ⟨x1, x2, nd, gnd, iok⟩ := hins b' hb' (by rw [findOwner_isNone_sim _ hsh]; exact hun)
      refine ⟨x1, x2, fun hapo => ⟨nd, ?_, iok.mono l1⟩⟩
      rw [frame _ (fun a ha => hapo x stg hsc hs0 a ha)]
      exact gnd
    · rw [hi1, WT.alookup_setStage_ne _ _ hxs] at hSx
      obtain ⟨e1, e2⟩ := hinv.recd x Sx hscx (hold x hxs hx) hSx
      refine ⟨e1, fun b' hb' hun => ?_⟩
      obtain ⟨y1, y2, y3⟩ := e2 b' hb' hun
      refine ⟨y1, y2, fun hapo => ?_⟩
      obtain ⟨nd, gnd, iok⟩ := y3 hapo
      refine ⟨nd, ?_, iok.mono l1⟩
      rw [frame _ (fun a ha => hapo sp stg hsc hs0 a ha)]
      exact gnd

/-- **`dud commit`**: the extended invariant holds at the end -/
theorem cmdCommit_inv2 {cfg : Cfg κ} {Q : Art → Prop} {P : Art → Node κ → Node κ → Store κ → Prop}
    (E : Est cfg Q P) (g : Good cfg.ctx) (strat : Strat) (targets : List Bytes)
    (w0 w' : World κ) (hc : Consistent cfg.ctx w0.store)
    (hok : PipelineOK cfg (InScope cfg w0 targets) w0)
    (hfiles : PlainInputsFiles cfg (InScope cfg w0 targets) w0)
    (hQ : ∀ sp stg, InScope cfg w0 targets sp → alookup w0.idx sp = some stg →
      ∀ a, a ∈ stg.outputs → Q a)
    (h : cmdCommit cfg strat targets w0 = .ok w') :
    CommitInv2 cfg P (InScope cfg w0 targets) w0 w' := by
  obtain ⟨l', hl, _⟩ := cmdCommit_spec cfg strat targets w0 w' hok.keys h
  exact perTarget_preserves (r := true)
    (commitTrav_lawfulOn cfg strat w0.idx hok.keys) (fun w => w.idx.length + 1) allStages
    (if targets.isEmpty then allStages w0 else targets)
    (Q := fun p => CommitInv2 cfg P (InScope cfg w0 targets) w0 p.1)
    (fun sp p p' hsc hi hq hndone _ hact => by
      obtain ⟨s, hs, rfl⟩ := logged_act_inv hact
      exact commitInv2_step E g strat _ w0 hok hfiles hQ sp p.1 s hsc hi hq hndone hs)
    (fresh w0, []) (w', l') (SameShape.refl _) (CommitInv2.init cfg P _ w0 hc) hl

/-! ## the two instances of `Est` -/

section instances
variable [DecidableEq κ]

/-- status of the committed artifact on the node `t'` succeeds and reports `ContentsMatch`, in the
cache `s` and in every later one -/
def StatusOK (cfg : Cfg κ) (a' : Art) (t' : Node κ) (s : Store κ) : Prop :=
  ∀ s'', Store.le cfg.ctx s s'' →
    ∃ st, statusArt cfg.ctx s'' cfg.fuel a' (some t') = .ok st ∧ st.name = a'.path ∧
      st.cm = true ∧ st.typed = true

theorem Settled.statusOK {cfg : Cfg κ} {a' : Art} {n t' : Node κ} {s : Store κ}
    (h : Settled cfg a' n t' s) : StatusOK cfg a' t' s := fun s'' hle => (h s'' hle).1

/-- the side condition under which `Settled` is established: a directory output is recursive -/
def Recursive (a : Art) : Prop := a.isDir = true → a.noRec = false

/-- `commitArt` on an artifact satisfying `ArtPre` (a directory artifact being recursive) leaves a
`Settled` node -/
theorem commitArt_settled {cfg : Cfg κ} (g : Good cfg.ctx) (a : Art) (n : Node κ)
    (hpre : ArtPre cfg.ctx cfg.fuel a n) (hrec : Recursive a) (s : Store κ)
    (hc : Consistent cfg.ctx s) (strat : Strat) {t' : Node κ} {d : Digest} {s' : Store κ}
    (h : commitArt cfg.ctx strat a (some n) s = .ok (t', d, s')) :
    Settled cfg { a with sum := d } n t' s' := by
  obtain ⟨hk, hp, hs, hn, hfr, hfu⟩ := hpre
  by_cases hskf : a.isDir = false ∧ a.skip = true
  · -- a skip-cache file artifact
    obtain ⟨hd, hsk⟩ := hskf
    cases n with
    | file c =>
      rw [commitArt_file_skip cfg.ctx a c hd hsk s strat] at h
      simp only [Except.ok.injEq, Prod.mk.injEq] at h
      obtain ⟨rfl, rfl, rfl⟩ := h
      exact settled_skip_file g a c hd hsk s
    | dir _ => rw [hd] at hk; simp [Node.isDir] at hk
    | link _ => simp [Node.plain] at hp
    | other => simp [Node.plain] at hp
  · have hsk : a.isDir = false → a.skip = false := by
      intro hd
      cases hs' : a.skip with
      | false => rfl
      | true => exact absurd ⟨hd, hs'⟩ hskf
    have htr : trackedOf a n = n := by
      cases n with
      | dir es =>
        have hd : a.isDir = true := by rw [← hk]; rfl
        simp [trackedOf, hrec hd]
      | file _ => rfl
      | link _ => rfl
      | other => rfl
    rw [htr] at hfu
    have hcompat : CompatNode cfg.ctx s n a.sum := by
      cases n with
      | dir es =>
        have hd : a.isDir = true := by rw [← hk]; rfl
        rw [(hfr hd).1]
        exact compatNode_empty cfg.ctx s _
      | file _ => simp [CompatNode]
      | link _ => simp [CompatNode]
      | other => simp [CompatNode]
    obtain ⟨s1, hcn, _, _, hh1, _, _⟩ :=
      recommitNode_post g n hp hn ⟨a.path, a.sum, a.isDir⟩ s strat hk.symm hcompat hc
    have h' := commitArt_of_commitNode hk hrec hsk hcn
    rw [h'] at h
    simp only [Except.ok.injEq, Prod.mk.injEq] at h
    obtain ⟨rfl, rfl, rfl⟩ := h
    exact settled_of_holds g a n strat hp hs hn hk hrec hsk hfu s1 hh1

/-! ### non-recursive directory artifacts (`DisableRecursion`): status only -/

omit [DecidableEq κ] in
/-- the listing a commit with `DisableRecursion` leaves: sub-directories untouched, the other
entries as `wsAfter` -/
def nrAfter (ctx : Ctx κ) (strat : Strat) : List (Name × Node κ) → List (Name × Node κ)
  | [] => []
  | (nm, n) :: r => (if n.isDir then (nm, n) else (nm, wsAfter ctx strat n)) :: nrAfter ctx strat r

omit [DecidableEq κ] in
theorem dropSubdirs_cons_dir {nm : Name} {n : Node κ} (r : List (Name × Node κ)) (h : n.isDir = true) :
    dropSubdirs ((nm, n) :: r) = dropSubdirs r := by simp [dropSubdirs, h]

omit [DecidableEq κ] in
theorem dropSubdirs_cons_file {nm : Name} {n : Node κ} (r : List (Name × Node κ)) (h : n.isDir = false) :
    dropSubdirs ((nm, n) :: r) = (nm, n) :: dropSubdirs r := by simp [dropSubdirs, h]

omit [DecidableEq κ] in
theorem mem_of_mem_dropSubdirs {es : List (Name × Node κ)} {e : Name × Node κ}
    (h : e ∈ dropSubdirs es) : e ∈ es := (List.mem_filter.1 h).1

omit [DecidableEq κ] in
/-- exact version of `commitEntries_noRec` (`Props/C01.lean`) -/
theorem commitEntries_nrAfter (ctx : Ctx κ) (strat : Strat) : ∀ (es : List (Name × Node κ))
    (old : List Child) (s : Store κ) (cs : List Child) (s' : Store κ),
    commitEntries ctx strat false (dropSubdirs es) old s
        = .ok (wsAfterList ctx strat (dropSubdirs es), cs, s') →
    commitEntries ctx strat true es old s = .ok (nrAfter ctx strat es, cs, s')
  | [], old, s, cs, s', h => by
    simp only [dropSubdirs, List.filter_nil, commitEntries, Except.ok.injEq, Prod.mk.injEq] at h
    obtain ⟨_, rfl, rfl⟩ := h
    simp [commitEntries, nrAfter]
  | (nm, n) :: r, old, s, cs, s', h => by
    by_cases hdir : n.isDir = true
    · rw [dropSubdirs_cons_dir r hdir] at h
      have ih := commitEntries_nrAfter ctx strat r old s cs s' h
      simp [commitEntries, hdir, ih, nrAfter]
    · have hdir' : n.isDir = false := by simpa using hdir
      rw [dropSubdirs_cons_file r hdir', wsAfterList_cons] at h
      simp only [commitEntries, Bool.false_and, Bool.false_eq_true, if_false] at h
      split at h
      · simp at h
      · split at h
        · simp at h
        · next n' c' s1 hcn =>
          split at h
          · simp at h
          · next r0 cs0 s2 hcr =>
            simp only [Except.ok.injEq, Prod.mk.injEq, List.cons.injEq] at h
            obtain ⟨⟨hn', rfl⟩, rfl, rfl⟩ := h
            have hn'' : n' = wsAfter ctx strat n := by simpa using hn'
            subst hn''
            have ih := commitEntries_nrAfter ctx strat r old s1 cs0 s2 hcr
            simp_all [commitEntries, nrAfter]

/-- `dirArtifactStatus` with `DisableRecursion`: the manifest entries are up to date and every
listing entry that is not a directory is named by the manifest -/
theorem dirStatus_noRec {ctx : Ctx κ} {s : Store κ} {fuel : Nat} (nm : Bytes) {sum : Digest}
    {es' : List (Name × Node κ)} {cs : List Child} (hh : hasSum sum = true) (hhas : s.has sum = true)
    (hread : readManifest ctx s sum = .ok cs) (hall : ∀ k ∈ cs, ChildOK ctx s fuel es' k)
    (hun : ∀ e ∈ es', e.2.isDir = false → (findChild cs e.1).isSome = true) :
    ∃ st, dirStatus ctx s (fuel + 1) nm true sum (some (.dir es')) = .ok st ∧ st.cm = true ∧
      st.typed = true := by
  obtain ⟨tracked, htr⟩ := childStatuses_ok
    (fun nm sum n hu => dirStatus_ok_of_upToDate ctx s fuel nm sum n hu) es' cs hall
  obtain ⟨hcm, hty⟩ := (childStatuses_iff (dirStatus_iff ctx s fuel) es' cs tracked htr).mpr hall
  have hnil : (es'.filter (fun e => !e.2.isDir)).filter (fun e => (findChild cs e.1).isNone) = [] := by
    rw [List.filter_eq_nil_iff]
    intro e he
    obtain ⟨hm, hd⟩ := List.mem_filter.1 he
    have := hun e hm (by simpa using hd)
    cases hf : findChild cs e.1 with
    | none => rw [hf] at this; cases this
    | some _ => simp
  have hcs : statusManifest ctx s sum = .ok cs := by
    rw [statusManifest_of_inCache hh hhas]; exact hread
  simp only [dirStatus, statusManifest_eq, hcs, htr, if_true, hnil, untrackedStatuses]
  refine ⟨_, rfl, ?_, ?_⟩
  · simp [quick, hh, hhas, hcm]
  · rw [Status.typed_eq]
    simp [quick, wsOf, hty]

omit [DecidableEq κ] in
/-- the entries of a non-recursive commit against the manifest of the tracked listing -/
theorem nr_children {ctx : Ctx κ} (g : Good ctx) (s : Store κ) (strat : Strat) :
    ∀ (es : List (Name × Node κ)) (fuel : Nat), plainList es = true → sortedList es = true →
      NamesOKList ctx es → HoldsList ctx s newChoice (dropSubdirs es) →
      depthList (dropSubdirs es) ≤ fuel →
      (∀ k ∈ childrenOf ctx (dropSubdirs es), ChildOK ctx s fuel (nrAfter ctx strat es) k) ∧
      (∀ e ∈ nrAfter ctx strat es, e.2.isDir = false →
        (findChild (childrenOf ctx (dropSubdirs es)) e.1).isSome = true)
  | [], _, _, _, _, _, _ => by simp [dropSubdirs, childrenOf, nrAfter]
  | (nm, n) :: r, fuel, hp, hs, hn, h, hf => by
    have hne : ∀ k ∈ childrenOf ctx (dropSubdirs r), nm ≠ k.name := by
      intro k hk
      obtain ⟨e, he, hen⟩ := mem_childrenOf_name ctx _ k hk
      exact hen ▸ sortedList_head_ne hs e (mem_of_mem_dropSubdirs he)
    by_cases hdir : n.isDir = true
    · rw [dropSubdirs_cons_dir r hdir] at h hf ⊢
      obtain ⟨ih1, ih2⟩ := nr_children g s strat r fuel (plainList_cons hp).2 (sortedList_cons hs).2
        (namesOK_tail hn) h hf
      simp only [nrAfter, hdir, if_true]
      constructor
      · intro k hk
        obtain ⟨nk, hnk, hu⟩ := ih1 k hk
        exact ⟨nk, by rw [alookup_cons_ne _ _ (hne k hk)]; exact hnk, hu⟩
      · intro e he hed
        rcases List.mem_cons.1 he with rfl | he
        · rw [hdir] at hed; cases hed
        · exact ih2 e he hed
    · have hdir' : n.isDir = false := by simpa using hdir
      rw [dropSubdirs_cons_file r hdir'] at h hf ⊢
      simp only [HoldsList] at h
      have hdn : depth n ≤ fuel := by simp only [depthList] at hf; omega
      have hdr : depthList (dropSubdirs r) ≤ fuel := by simp only [depthList] at hf; omega
      obtain ⟨ih1, ih2⟩ := nr_children g s strat r fuel (plainList_cons hp).2 (sortedList_cons hs).2
        (namesOK_tail hn) h.2 hdr
      have hu := holds_upToDate g s strat n nm fuel (plainList_cons hp).1 (sortedList_cons hs).1
        (namesOK_node hn) h.1 hdn
      rw [hdir'] at hu
      simp only [nrAfter, hdir', Bool.false_eq_true, if_false, childrenOf]
      constructor
      · intro k hk
        rcases List.mem_cons.1 hk with rfl | hk
        · exact ⟨wsAfter ctx strat n, by simp [alookup], hu⟩
        · obtain ⟨nk, hnk, huk⟩ := ih1 k hk
          exact ⟨nk, by rw [alookup_cons_ne _ _ (hne k hk)]; exact hnk, huk⟩
      · intro e he hed
        apply findChild_cons_isSome
        rcases List.mem_cons.1 he with rfl | he
        · exact Or.inl rfl
        · exact Or.inr (ih2 e he hed)

/-- `commitArt` on a non-recursive directory artifact satisfying `ArtPre`: status is fine -/
theorem commitArt_statusOK_noRec {cfg : Cfg κ} (g : Good cfg.ctx) (a : Art) (es : List (Name × Node κ))
    (hpre : ArtPre cfg.ctx cfg.fuel a (.dir es)) (hnr : a.noRec = true) (s : Store κ)
    (hc : Consistent cfg.ctx s) (strat : Strat) {t' : Node κ} {d : Digest} {s' : Store κ}
    (h : commitArt cfg.ctx strat a (some (.dir es)) s = .ok (t', d, s')) :
    StatusOK cfg { a with sum := d } t' s' := by
  obtain ⟨hk, hp, hs, hn, hfr, hfu⟩ := hpre
  have hd : a.isDir = true := by rw [← hk]; rfl
  obtain ⟨hsum, _⟩ := hfr hd
  have hpl : plainList es = true := by simpa [Node.plain] using hp
  have hsl : sortedList es = true := by simpa [Node.sorted] using hs
  have hnl : NamesOKList cfg.ctx es := namesOK_dir hn
  have hpT : (Node.dir (dropSubdirs es)).plain = true := by
    simp only [Node.plain]; exact plainList_filter _ es hpl
  have hsT' : sortedList (dropSubdirs es) = true := sortedList_filter _ es hsl
  have hnT : NamesOK cfg.ctx (.dir (dropSubdirs es)) := by
    intro x hx
    refine hn x ?_
    simp only [allNames] at hx ⊢
    exact mem_allNamesList_filter _ es x hx
  have htr : trackedOf a (Node.dir es) = .dir (dropSubdirs es) := by simp [trackedOf, hnr]
  rw [htr] at hfu
  obtain ⟨s1, hcn, _, _, hh1, _, _⟩ := recommitNode_post g (.dir (dropSubdirs es)) hpT hnT
    ⟨a.path, "", true⟩ s strat rfl (compatNode_empty cfg.ctx s _) hc
  obtain ⟨fs', cs, s2, hce, hfs', hc', rfl⟩ := commitNode_dir_inv hcn
  rw [wsAfter_dir] at hfs'
  simp only [Node.dir.injEq] at hfs'
  subst hfs'
  have hce' := commitEntries_nrAfter cfg.ctx strat es [] s cs s2 hce
  have hart := commitArt_dir_of_entries (a := a) hd hsum (by rw [hnr]; exact hce')
  rw [hart] at h
  simp only [Except.ok.injEq, Prod.mk.injEq] at h
  obtain ⟨rfl, rfl, rfl⟩ := h
  have hdig : (Obj.man .new a.path (sortChildren cs) : Obj κ).digest cfg.ctx =
      treeDigest cfg.ctx a.path (.dir (dropSubdirs es)) := by
    have := congrArg Child.sum hc'
    simpa using this.symm
  rw [hdig] at hh1 ⊢
  intro s'' hle
  have hh' := HoldsNode.mono hle _ _ _ hh1
  obtain ⟨hhas, hread⟩ := readManifest_holds g hsT' (namesOK_dir hnT) hh'
  rw [digestAs_new] at hhas hread
  rw [childrenAs_new] at hread
  obtain ⟨k, hk'⟩ : ∃ k, cfg.fuel = k + 1 := ⟨cfg.fuel - 1, by simp only [depth] at hfu; omega⟩
  have hkd : depthList (dropSubdirs es) ≤ k := by simp only [depth] at hfu; omega
  simp only [HoldsNode] at hh'
  obtain ⟨h1, h2⟩ := nr_children g s'' strat es k hpl hsl hnl hh'.2 hkd
  have hhs : hasSum (treeDigest cfg.ctx a.path (Node.dir (dropSubdirs es))) = true := by
    simp only [treeDigest]; exact hasSum_H g _
  obtain ⟨st, hst, hcm, hty⟩ := dirStatus_noRec a.path hhs hhas hread h1 h2
  refine ⟨{ st with skip := a.skip }, ?_, (dirStatus_name hst : st.name = a.path), hcm, ?_⟩
  · simp only [statusArt, hd, if_true, hnr, hk', hst]
  · rw [typed_with_skip]; exact hty

/-- `commitArt` on any artifact satisfying `ArtPre`: status is fine -/
theorem commitArt_statusOK {cfg : Cfg κ} (g : Good cfg.ctx) (a : Art) (n : Node κ)
    (hpre : ArtPre cfg.ctx cfg.fuel a n) (s : Store κ)
    (hc : Consistent cfg.ctx s) (strat : Strat) {t' : Node κ} {d : Digest} {s' : Store κ}
    (h : commitArt cfg.ctx strat a (some n) s = .ok (t', d, s')) :
    StatusOK cfg { a with sum := d } t' s' := by
  by_cases hrec : Recursive a
  · exact (commitArt_settled g a n hpre hrec s hc strat h).statusOK
  · have hd : a.isDir = true ∧ a.noRec = true := by
      unfold Recursive at hrec
      cases h1 : a.isDir <;> cases h2 : a.noRec <;> simp_all
    cases n with
    | dir es => exact commitArt_statusOK_noRec g a es hpre hd.2 s hc strat h
    | file _ => have := hpre.kind; rw [hd.1] at this; simp [Node.isDir] at this
    | link _ => have := hpre.kind; rw [hd.1] at this; simp [Node.isDir] at this
    | other => have := hpre.kind; rw [hd.1] at this; simp [Node.isDir] at this

theorem statusEst (cfg : Cfg κ) (g : Good cfg.ctx) :
    Est cfg (fun _ => True) (fun a' _ t' s => StatusOK cfg a' t' s) where
  mono := fun _ _ _ _ _ h hle s'' hle' => h s'' (Store.le_trans hle hle')
  est := fun a n hpre _ s hc strat _ _ _ h => commitArt_statusOK g a n hpre s hc strat h

theorem settledEst (cfg : Cfg κ) (g : Good cfg.ctx) : Est cfg Recursive (Settled cfg) where
  mono := fun _ _ _ _ _ h hle => h.mono hle
  est := fun a n hpre hq s hc strat _ _ _ h => commitArt_settled g a n hpre hq s hc strat h

end instances

/-! ## `dud status`: one stage -/

/-- an output path is owned (by the first stage that lists it, or an earlier one that owns it) -/
theorem findOwner_isSome_of_output (wa : Bool) : ∀ (idx : Index) {sp : Bytes} {stg : Stage} {a : Art},
    (sp, stg) ∈ idx → a ∈ stg.outputs → (findOwner wa idx a.path).isSome = true
  | [], _, _, _, h, _ => by cases h
  | (k, v) :: r, sp, stg, a, h, ha => by
    simp only [findOwner]
    cases hf : findArt v.outputs a.path with
    | some b => rfl
    | none =>
      simp only
      cases hg : findDirOwner wa a.path v.outputs with
      | some b => rfl
      | none =>
        simp only
        rcases List.mem_cons.1 h with h | h
        · cases h
          have : (findArt v.outputs a.path).isSome = true := by
            simp only [findArt, List.find?_isSome]
            exact ⟨a, ha, by simp⟩
          rw [hf] at this
          cases this
        · exact findOwner_isSome_of_output wa r h ha

/-- sorting keeps an element of the second list whose path occurs neither in the first list nor
twice in the second -/
theorem mem_sortArts_append_right {a : Art} : ∀ (l1 : List Art) {l2 : List Art},
    (∀ b, b ∈ l1 → b.path ≠ a.path) → l2.Pairwise (fun x y => x.path ≠ y.path) → a ∈ l2 →
    a ∈ sortArts (l1 ++ l2)
  | [], _, _, hp, ha => mem_sortArts_of_mem hp ha
  | x :: xs, l2, h1, hp, ha => by
    have ih := mem_sortArts_append_right xs (fun b hb => h1 b (List.mem_cons_of_mem _ hb)) hp ha
    show a ∈ insertArt x (sortArts (xs ++ l2))
    exact mem_insertArt_of_mem ih (h1 x List.mem_cons_self)

/-- the two lists are related entry by entry -/
inductive All₂ {α β : Type} (R : α → β → Prop) : List α → List β → Prop
  | nil : All₂ R [] []
  | cons {a : α} {b : β} {l : List α} {m : List β} : R a b → All₂ R l m → All₂ R (a :: l) (b :: m)

theorem forall₂_of_mem_left {α β : Type} {R : α → β → Prop} : ∀ {l : List α} {m : List β},
    All₂ R l m → ∀ a, a ∈ l → ∃ b, b ∈ m ∧ R a b
  | _, _, .nil, a, h => by cases h
  | _, _, .cons hr ht, a, h => by
    rcases List.mem_cons.1 h with rfl | h
    · exact ⟨_, List.mem_cons_self, hr⟩
    · obtain ⟨b, hb, hrb⟩ := forall₂_of_mem_left ht a h
      exact ⟨b, List.mem_cons_of_mem _ hb, hrb⟩

theorem forall₂_of_mem_right {α β : Type} {R : α → β → Prop} : ∀ {l : List α} {m : List β},
    All₂ R l m → ∀ b, b ∈ m → ∃ a, a ∈ l ∧ R a b
  | _, _, .nil, b, h => by cases h
  | _, _, .cons hr ht, b, h => by
    rcases List.mem_cons.1 h with rfl | h
    · exact ⟨_, List.mem_cons_self, hr⟩
    · obtain ⟨a, ha, hra⟩ := forall₂_of_mem_right ht b h
      exact ⟨a, List.mem_cons_of_mem _ ha, hra⟩

section statusStage
variable [DecidableEq κ]

theorem statusArts_ok (cfg : Cfg κ) (w : World κ) (G : Art → Status → Prop) : ∀ (l : List Art),
    (∀ a, a ∈ l → ∃ st, statusArt cfg.ctx w.store cfg.fuel a (getPath w.ws (Path.comps a.path))
      = .ok st ∧ G a st) →
    ∃ sts, statusArts cfg w l = .ok sts ∧ All₂ G l sts
  | [], _ => ⟨[], rfl, .nil⟩
  | a :: r, h => by
    obtain ⟨st, hst, hg⟩ := h a List.mem_cons_self
    obtain ⟨sts, hsts, hf⟩ := statusArts_ok cfg w G r (fun b hb => h b (List.mem_cons_of_mem _ hb))
    exact ⟨st :: sts, by simp only [statusArts, hst, hsts], .cons hg hf⟩

/-- the artifacts `statusAct` reports on -/
def artsOf (cfg : Cfg κ) (idx : Index) (S : Stage) : List Art :=
  sortArts (S.inputs.filter (fun a => (findOwner cfg.walkAccumulates idx a.path).isNone) ++ S.outputs)

theorem statusAct_ok (cfg : Cfg κ) (g : Good cfg.ctx) (G : Art → Status → Prop) (sp : Bytes)
    (u : World κ) (S : Stage) (hS : alookup u.idx sp = some S) (hsum : S.sum = S.defSum cfg)
    (h : ∀ a, a ∈ artsOf cfg u.idx S →
      ∃ st, statusArt cfg.ctx u.store cfg.fuel a (getPath u.ws (Path.comps a.path)) = .ok st ∧ G a st) :
    ∃ sts, statusAct cfg sp u
        = .ok { u with stat := u.stat ++ [(sp, true, true, sts)], done := sp :: u.done } ∧
      All₂ G (artsOf cfg u.idx S) sts := by
  obtain ⟨sts, hsts, hf⟩ := statusArts_ok cfg u G _ h
  refine ⟨sts, ?_, hf⟩
  have hne : S.sum.isEmpty = false := by
    rw [String.isEmpty_eq_false_iff]
    intro he
    have := hasSum_H g (cfg.ofBytes S.defBytes)
    have hs : S.sum = cfg.ctx.H (cfg.ofBytes S.defBytes) := hsum
    rw [← hs, he, hasSum_empty] at this
    cases this
  have hmatch : (S.defSum cfg == S.sum) = true := by rw [← hsum]; simp
  unfold artsOf at hsts
  simp only [statusAct, World.stage_eq_ok.2 hS, hsts, hne, hmatch, Bool.not_false, Bool.and_self]

end statusStage

/-! ## `dud status`: the traversal -/

section statusCmd
variable [DecidableEq κ]

/-- what a status entry says about the artifact `a` of the committed stage `S` -/
def GoodSt (Sc : Bytes → Prop) (w0 : World κ) (S : Stage) (a : Art) (st : Status) : Prop :=
  st.name = a.path ∧ st.typed = true ∧
    ((a ∈ S.outputs ∨ ApartFromOutputs Sc w0 a.path) → st.cm = true)

/-- invariant of the status traversal in the committed world `w'` -/
structure StatusInv (cfg : Cfg κ) (Sc : Bytes → Prop) (w0 w' u : World κ) : Prop where
  ws : u.ws = w'.ws
  store : u.store = w'.store
  remote : u.remote = w'.remote
  fin : ∀ sp, Sc sp → u.done.contains sp = true → ∃ S sts, alookup w'.idx sp = some S ∧
    (sp, true, true, sts) ∈ u.stat ∧ All₂ (GoodSt Sc w0 S) (artsOf cfg w'.idx S) sts

/-- one stage action of the status traversal succeeds and keeps the invariant -/
theorem statusInv_step (cfg : Cfg κ) (g : Good cfg.ctx) (Sc : Bytes → Prop) (w0 w' : World κ)
    (hsh : SameShape w'.idx w0.idx)
    (hci : CommitInv2 cfg (fun a' _ t' s => StatusOK cfg a' t' s) Sc w0 w')
    (hall : ∀ sp, Sc sp → w'.done.contains sp = true) (sp : Bytes) (u : World κ) (hsc : Sc sp)
    (hidx : u.idx = w'.idx) (hinv : StatusInv cfg Sc w0 w' u) :
    ∃ u1, statusAct cfg sp u = .ok u1 ∧ StatusInv cfg Sc w0 w' u1 := by
  obtain ⟨stg, S, e0, e1, e2, _⟩ := hci.base.finished sp hsc (hall sp hsc)
  obtain ⟨hsum, hins⟩ := hci.recd sp S hsc (hall sp hsc) e1
  have houts := hci.outs sp stg hsc (hall sp hsc) e0
  have hS : alookup u.idx sp = some S := by rw [hidx]; exact e1
  obtain ⟨sts, hact, hf⟩ := statusAct_ok cfg g (GoodSt Sc w0 S) sp u S hS hsum (by
    intro x hx
    by_cases ho : x ∈ S.outputs
    · rw [e2] at ho
      obtain ⟨a, ha, rfl⟩ := List.mem_map.1 ho
      obtain ⟨t', gt, pt⟩ := houts a (mem_of_mem_sortArts ha)
      obtain ⟨st, hst, hname, hcm, hty⟩ := pt w'.store (Store.le_refl _ _)
      refine ⟨st, ?_, hname, hty, fun _ => hcm⟩
      rw [hinv.store, hinv.ws]
      have : (committedArt cfg.ctx w0.ws a).path = a.path := rfl
      rw [this, gt]
      exact hst
    · have hp : x ∈ S.inputs.filter
          (fun a => (findOwner cfg.walkAccumulates u.idx a.path).isNone) := by
        rcases List.mem_append.1 (mem_of_mem_sortArts hx) with hp | ho'
        · exact hp
        · exact absurd ho' ho
      obtain ⟨hxin, hun⟩ := List.mem_filter.1 hp
      have hun0 : (findOwner cfg.walkAccumulates w0.idx x.path).isNone = true := by
        rw [← findOwner_isNone_sim _ hsh, ← hidx]; exact hun
      obtain ⟨y1, y2, y3⟩ := hins x hxin hun0
      refine ⟨fileStatus cfg.ctx u.store x.path x.skip x.sum (getPath u.ws (Path.comps x.path)), ?_,
        fileStatus_name _ _ _ _ _ _, fileStatus_typed _ _ _ _ _ _, ?_⟩
      · simp only [statusArt, y2, Bool.false_eq_true, if_false]
      · intro hc
        rcases hc with hc | hc
        · exact absurd hc ho
        · obtain ⟨nd, gnd, iok⟩ := y3 hc
          rw [hinv.ws, gnd, hinv.store, y1]
          exact fileStatus_inputOK g iok)
  refine ⟨_, hact, hinv.ws, hinv.store, hinv.remote, ?_⟩
  intro x hscx hx
  by_cases hxs : x = sp
  · subst hxs
    refine ⟨S, sts, e1, ?_, ?_⟩
    · show (x, true, true, sts) ∈ u.stat ++ [(x, true, true, sts)]
      simp
    · rw [← hidx]; exact hf
  · have hx' : u.done.contains x = true := by
      have : (sp :: u.done).contains x = true := hx
      rw [List.contains_cons] at this
      have hne : (x == sp) = false := by simpa using hxs
      simpa [hne] using this
    obtain ⟨S', sts', a1, a2, a3⟩ := hinv.fin x hscx hx'
    exact ⟨S', sts', a1, List.mem_append_left _ a2, a3⟩

/-- `dud status`: the stages looked at (as `cmdCheckout_spec` in `Props/C08.lean`) -/
theorem cmdStatus_spec (cfg : Cfg κ) (targets : List Bytes) (w w' : World κ)
    (h : cmdStatus cfg targets w = .ok w') :
    ∃ l', w'.idx = w.idx ∧ l'.Nodup ∧
      (∀ t, t ∈ (if targets.isEmpty then allStages w else targets) → t ∈ l') ∧
      (∀ x, w'.done.contains x = l'.contains x) ∧
      (∀ x, x ∈ l' → ∀ o, o ∈ ownIdx cfg w.idx x → Before l' o x) := by
  simp only [cmdStatus] at h
  split at h
  · cases h
  obtain ⟨l', hl⟩ := cmd_logged _ _ (fun w => w.idx.length + 1) allStages _ _ _ h
  have hs := cmd_spec_on _ _ _ (statusTrav_lawfulOn cfg w.idx) true
    (fun w => w.idx.length + 1) allStages _ _ _ l'
    (show (fresh w).idx = w.idx from rfl) (fun x => by simp [statusTrav, fresh]) hl
  exact ⟨l', hs.1, hs.2.1, hs.2.2.2.1, hs.2.2.2.2.1, hs.2.2.2.2.2 rfl⟩

end statusCmd

end Dud.WStat
