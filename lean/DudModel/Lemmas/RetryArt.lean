import DudModel.Props.C16
import DudModel.Lemmas.WorldStatus
/-!
# Committing a PARTLY committed tree (artifact level of the retry after a failed `dud commit`)

After a failed `dud commit` with the link strategy some regular files of an output have already been
moved into the cache and replaced by links to their objects, the others have not; no checksum has been
recorded for them (or, if the stage file was already rewritten, the FINAL checksums have).

* `AheadNode ctx s t t'`: `t'` is the plain tree `t` in which some regular files `x` have been replaced by
  the link to the object `H x`, which the cache `s` holds;
* `CanonList`, `oldManifest_canon`: the old manifest a retry starts from is empty or the manifest of the
  very tree (`treeDigest`), whatever the cache holds (`Consistent`, `Good`);
* `commitNode_ahead` / `commitArt_ahead`: **committing `t'` records exactly the checksum `treeDigest` a
  commit of `t` records**, for either strategy and every recorded checksum of that kind (none, or the
  final one); the cache stays consistent, grows by objects of `t` only, holds `t` afterwards, and the node
  left has the logical content `t`.  This is `retry_after_fault_accepts_link` (`Props/C04.lean`) for whole
  trees.
-/
namespace Dud
variable {κ : Type}

/-! ## partly committed trees -/

mutual
/-- `t'` is the tree `t` with some regular files replaced by the link to their object in `s` -/
def AheadNode (ctx : Ctx κ) (s : Store κ) : Node κ → Node κ → Prop
  | .file x, t' => t' = .file x ∨
      (t' = .link (.obj (ctx.H x)) ∧ ∃ o, s.get (ctx.H x) = some o ∧ o.bytes ctx = x)
  | .dir es, t' => match t' with
    | .dir es' => AheadList ctx s es es'
    | _ => False
  | .link l, t' => t' = .link l
  | .other, t' => t' = .other
def AheadList (ctx : Ctx κ) (s : Store κ) : List (Name × Node κ) → List (Name × Node κ) → Prop
  | [], es' => es' = []
  | (nm, n) :: r, es' => match es' with
    | (nm', n') :: r' => nm' = nm ∧ AheadNode ctx s n n' ∧ AheadList ctx s r r'
    | [] => False
end

mutual
theorem AheadNode.refl (ctx : Ctx κ) (s : Store κ) : ∀ (t : Node κ), AheadNode ctx s t t
  | .file _ => by simp [AheadNode]
  | .dir es => by simp only [AheadNode]; exact AheadList.refl ctx s es
  | .link _ => by simp [AheadNode]
  | .other => by simp [AheadNode]
theorem AheadList.refl (ctx : Ctx κ) (s : Store κ) : ∀ (es : List (Name × Node κ)), AheadList ctx s es es
  | [] => by simp [AheadList]
  | (nm, n) :: r => by
    simp only [AheadList]
    exact ⟨trivial, AheadNode.refl ctx s n, AheadList.refl ctx s r⟩
end

mutual
theorem AheadNode.mono {ctx : Ctx κ} {s s1 : Store κ} (hle : Store.le ctx s s1) :
    ∀ (t t' : Node κ), AheadNode ctx s t t' → AheadNode ctx s1 t t'
  | .file x, t', h => by
    simp only [AheadNode] at h ⊢
    rcases h with h | ⟨h, o, ho, hb⟩
    · exact .inl h
    · obtain ⟨o1, h1, hb1⟩ := hle _ o ho
      exact .inr ⟨h, o1, h1, hb1.trans hb⟩
  | .dir es, .dir es', h => by
    simp only [AheadNode] at h ⊢
    exact AheadList.mono hle es es' h
  | .dir _, .file _, h => by simp [AheadNode] at h
  | .dir _, .link _, h => by simp [AheadNode] at h
  | .dir _, .other, h => by simp [AheadNode] at h
  | .link _, _, h => by simpa [AheadNode] using h
  | .other, _, h => by simpa [AheadNode] using h
theorem AheadList.mono {ctx : Ctx κ} {s s1 : Store κ} (hle : Store.le ctx s s1) :
    ∀ (es es' : List (Name × Node κ)), AheadList ctx s es es' → AheadList ctx s1 es es'
  | [], _, h => by simpa [AheadList] using h
  | (nm, n) :: r, (nm', n') :: r', h => by
    simp only [AheadList] at h ⊢
    exact ⟨h.1, AheadNode.mono hle n n' h.2.1, AheadList.mono hle r r' h.2.2⟩
  | (_, _) :: _, [], h => by simp [AheadList] at h
end

theorem AheadNode.isDir {ctx : Ctx κ} {s : Store κ} : ∀ {t t' : Node κ}, AheadNode ctx s t t' →
    t'.isDir = t.isDir
  | .file x, t', h => by
    simp only [AheadNode] at h
    rcases h with rfl | ⟨rfl, _⟩ <;> rfl
  | .dir es, .dir es', _ => rfl
  | .dir _, .file _, h => by simp [AheadNode] at h
  | .dir _, .link _, h => by simp [AheadNode] at h
  | .dir _, .other, h => by simp [AheadNode] at h
  | .link _, _, h => by simp only [AheadNode] at h; subst h; rfl
  | .other, _, h => by simp only [AheadNode] at h; subst h; rfl

/-! ## the old manifest a retry starts from -/

/-- every child recovered from `old` for an entry of `es` carries no checksum or the checksum of that very
entry -/
def CanonList (ctx : Ctx κ) (es : List (Name × Node κ)) (old : List Child) : Prop :=
  ∀ e ∈ es, ∀ k, findChild old e.1 = some k → k.sum = "" ∨ k.sum = treeDigest ctx e.1 e.2

theorem canonList_nil (ctx : Ctx κ) (es : List (Name × Node κ)) : CanonList ctx es [] := by
  intro e _ k hk
  simp [findChild] at hk

theorem CanonList.tail {ctx : Ctx κ} {e : Name × Node κ} {r : List (Name × Node κ)} {old : List Child}
    (h : CanonList ctx (e :: r) old) : CanonList ctx r old :=
  fun x hx => h x (List.mem_cons_of_mem _ hx)

theorem canonList_childrenOf (ctx : Ctx κ) (es : List (Name × Node κ)) (hs : sortedList es = true) :
    CanonList ctx es (childrenOf ctx es) := by
  intro e he k hk
  have := findChild_childrenAs ctx newChoice es hs e he
  rw [childrenAs_new] at this
  rw [this] at hk
  cases hk
  right
  exact digestAs_new ctx e.1 e.2

/-- **the old manifest is empty or the manifest of the very tree**: with no recorded checksum, or the
checksum `treeDigest` of the tree itself — whether or not the cache holds that manifest yet -/
theorem oldManifest_canon {ctx : Ctx κ} (g : Good ctx) {s : Store κ} (hc : Consistent ctx s) (nm : Bytes)
    (es : List (Name × Node κ)) (hs : sortedList es = true) (hn : NamesOKList ctx es) {sum : Digest}
    (hsum : sum = "" ∨ sum = treeDigest ctx nm (.dir es)) :
    ∃ old, oldManifest ctx s sum = .ok old ∧ CanonList ctx es old := by
  rcases hsum with rfl | rfl
  · exact ⟨[], oldManifest_empty ctx s, canonList_nil ctx es⟩
  · cases hg : s.get (treeDigest ctx nm (.dir es)) with
    | none =>
      refine ⟨[], ?_, canonList_nil ctx es⟩
      have : s.has (treeDigest ctx nm (.dir es)) = false := by simp [Store.has, hg]
      simp [oldManifest, this]
    | some o =>
      refine ⟨childrenOf ctx es, ?_, canonList_childrenOf ctx es hs⟩
      have hd := hc _ o hg
      simp only [treeDigest, Obj.digest] at hd
      have hb : o.bytes ctx = ctx.encMan .new nm (sortChildren (childrenOf ctx es)) := g.inj _ _ hd
      rw [sortChildren_childrenOf ctx es hs] at hb
      have hmap := map_reload_childrenOf ctx .new es
        (fun e he sum isDir => (hn e.1 (mem_allNamesList_of_mem he)).2.1 _ sum isDir)
      have hok : ChildrenOK ((childrenOf ctx es).map (ctx.reload .new)) := by
        rw [hmap]; exact childrenOK_childrenOf hn
      have hread := readManifest_of_bytes g hg hb hok
      rw [hmap] at hread
      have hhs : hasSum (treeDigest ctx nm (.dir es)) = true := by
        simp only [treeDigest]; exact hasSum_H g _
      simp [oldManifest, hhs, Store.has_of_get hg, hread]

/-! ## commit of a partly committed tree -/

/-- post-condition of `commitNode` on a partly committed version `t'` of the plain tree `t` -/
def ANodePost (ctx : Ctx κ) (t : Node κ) : Prop :=
  ∀ (t' : Node κ) (c : Child) (s : Store κ) (strat : Strat), c.isDir = t.isDir →
    (t.isDir = true → c.sum = "" ∨ c.sum = treeDigest ctx c.name t) →
    Consistent ctx s → AheadNode ctx s t t' →
    ∃ t'' s', commitNode ctx strat t' c s =
        .ok (t'', ⟨c.name, treeDigest ctx c.name t, c.isDir⟩, s') ∧
      Consistent ctx s' ∧ Store.le ctx s s' ∧ HoldsNode ctx s' newChoice c.name t ∧
      (∀ d, s'.has d = true → s.has d = true ∨ d ∈ allDigests ctx c.name t) ∧
      deref ctx s' t'' = t

def AEntriesPost (ctx : Ctx κ) (es : List (Name × Node κ)) : Prop :=
  ∀ (es' : List (Name × Node κ)) (old : List Child) (s : Store κ) (strat : Strat),
    CanonList ctx es old → Consistent ctx s → AheadList ctx s es es' →
    ∃ es'' s', commitEntries ctx strat false es' old s = .ok (es'', childrenOf ctx es, s') ∧
      Consistent ctx s' ∧ Store.le ctx s s' ∧ HoldsList ctx s' newChoice es ∧
      (∀ d, s'.has d = true → s.has d = true ∨ d ∈ allDigestsList ctx es) ∧
      derefList ctx s' es'' = es

theorem afile_post {ctx : Ctx κ} (g : Good ctx) (x : κ) : ANodePost ctx (.file x) := by
  intro t' c s strat hcd _ hc ha
  simp only [AheadNode] at ha
  rcases ha with rfl | ⟨rfl, o, ho, hb⟩
  · obtain ⟨s', h, hc', hle, hh, _, hkeys⟩ := rfile_post g x c s strat hcd (by simp [CompatNode]) hc
    exact ⟨_, s', h, hc', hle, hh, hkeys, deref_wsAfter (t := .file x) rfl hh strat⟩
  · have hcd' : c.isDir = false := hcd
    have hhas : s.has (ctx.H x) = true := Store.has_of_get ho
    refine ⟨.link (.obj (ctx.H x)), s, ?_, hc, Store.le_refl _ _, ?_, fun d hd => .inl hd, ?_⟩
    · have hres : commitFile ctx strat false (some (Node.link (.obj (ctx.H x)))) c.sum s =
          .ok (.link (.obj (ctx.H x)), ctx.H x, s) := by
        by_cases hq : (quick s c.sum (some (Node.link (.obj (ctx.H x))))).cm = true
        · have heq : ctx.H x = c.sum := by
            simp only [quick, Bool.and_eq_true, beq_iff_eq] at hq
            exact hq.2
          simp only [commitFile, hq, if_true]
          rw [← heq]
        · have hq' : (quick s c.sum (some (Node.link (.obj (ctx.H x))))).cm = false := by
            simpa using hq
          simp [commitFile, hq', hhas]
      simp [commitNode, hcd', hres, treeDigest]
    · simp only [HoldsNode]
      exact ⟨o, ho, hb⟩
    · simp [deref, ho, hb]

theorem anil_post (ctx : Ctx κ) : AEntriesPost ctx [] := by
  intro es' old s strat _ hc ha
  simp only [AheadList] at ha
  subst ha
  exact ⟨[], s, by simp [commitEntries, childrenOf], hc, Store.le_refl _ _, by simp [HoldsList],
    fun d hd => Or.inl hd, by simp [derefList]⟩

theorem acons_post {ctx : Ctx κ} {nm : Name} {n : Node κ}
    {r : List (Name × Node κ)} (hnm : ctx.nameOK nm = true) (hpl : n.plain = true)
    (hn : ANodePost ctx n) (hr : AEntriesPost ctx r) : AEntriesPost ctx ((nm, n) :: r) := by
  intro es' old s strat hcanon hc ha
  cases es' with
  | nil => simp [AheadList] at ha
  | cons e' r' =>
    obtain ⟨nm', n'⟩ := e'
    simp only [AheadList] at ha
    obtain ⟨rfl, han, har⟩ := ha
    have hdir : n'.isDir = n.isDir := han.isDir
    obtain ⟨c, hcase, hceq⟩ := commitEntries_cons_eq ctx strat nm' n' r' old s hnm
    have hcprops : c.name = nm' ∧ c.isDir = n.isDir ∧ (c.sum = "" ∨ c.sum = treeDigest ctx nm' n) := by
      rcases hcase with rfl | ⟨k, hf, hkd, rfl⟩
      · exact ⟨rfl, hdir, .inl rfl⟩
      · exact ⟨findChild_name hf, hkd.trans hdir, hcanon (nm', n) List.mem_cons_self c hf⟩
    obtain ⟨hcn, hcd, hcs⟩ := hcprops
    obtain ⟨t1, s1, hcommit, hc1, hle1, hh1, hkeys1, hd1⟩ :=
      hn n' c s strat hcd (fun _ => by rw [hcn]; exact hcs) hc han
    obtain ⟨r1, s2, hcr', hc2, hle2, hh2, hkeys2, hd2⟩ :=
      hr r' old s1 strat hcanon.tail hc1 (AheadList.mono hle1 r r' har)
    refine ⟨(nm', t1) :: r1, s2, ?_, hc2, Store.le_trans hle1 hle2, ?_, ?_, ?_⟩
    · rw [hceq]
      simp [hcommit, hcr', childrenOf, hcn, hcd]
    · simp only [HoldsList]
      rw [hcn] at hh1
      exact ⟨HoldsNode.mono hle2 n _ nm' hh1, hh2⟩
    · intro d hd
      simp only [allDigestsList, List.mem_append]
      rcases hkeys2 d hd with hd | hd
      · rcases hkeys1 d hd with hd | hd
        · exact Or.inl hd
        · rw [hcn] at hd
          exact Or.inr (Or.inl hd)
      · exact Or.inr (Or.inr hd)
    · simp only [derefList, hd2]
      rw [deref_le ctx hle2 t1 (by rw [hd1]; exact hpl), hd1]

theorem adir_post {ctx : Ctx κ} (g : Good ctx) {es : List (Name × Node κ)}
    (hs : sortedList es = true) (hnl : NamesOKList ctx es) (hpl : plainList es = true)
    (he : AEntriesPost ctx es) : ANodePost ctx (.dir es) := by
  intro t' c s strat hcd hsum hc ha
  have hcd' : c.isDir = true := hcd
  cases t' with
  | dir es' =>
    simp only [AheadNode] at ha
    obtain ⟨old, hold, hcanon⟩ := oldManifest_canon g hc c.name es hs hnl (hsum rfl)
    obtain ⟨es'', s2, hce, hc2, hle2, hh2, hkeys2, hd2⟩ := he es' old s strat hcanon hc ha
    let m : Obj κ := .man .new c.name (sortChildren (childrenOf ctx es))
    have hlep : Store.le ctx s2 (s2.put (m.digest ctx) m) := Store.le_put g hc2 m
    refine ⟨.dir es'', s2.put (m.digest ctx) m, ?_, hc2.put m, Store.le_trans hle2 hlep, ?_, ?_, ?_⟩
    · simp [commitNode, hcd', hold, hce, treeDigest, m]
    · simp only [HoldsNode, digestAs_new, childrenAs_new]
      refine ⟨⟨m, ?_, rfl⟩, HoldsList.mono hlep es _ hh2⟩
      simp only [treeDigest]
      exact Store.get_put_self _ _ _
    · intro d hd
      simp only [allDigests, List.mem_cons]
      rcases (Store.has_put _ _ _ _).1 hd with rfl | hd
      · exact Or.inr (Or.inl (by simp [treeDigest, m]))
      · rcases hkeys2 d hd with hd | hd
        · exact Or.inl hd
        · exact Or.inr (Or.inr hd)
    · simp only [deref]
      rw [derefList_le ctx hlep es'' (by rw [hd2]; exact hpl), hd2]
  | file _ => simp [AheadNode] at ha
  | link _ => simp [AheadNode] at ha
  | other => simp [AheadNode] at ha

mutual
theorem commitNode_ahead_post {ctx : Ctx κ} (g : Good ctx) : ∀ (t : Node κ),
    t.plain = true → t.sorted = true → NamesOK ctx t → ANodePost ctx t
  | .file x, _, _, _ => afile_post g x
  | .dir es, hp, hs, hn =>
    adir_post g (by simpa [Node.sorted] using hs) (namesOK_dir hn) (by simpa [Node.plain] using hp)
      (commitEntries_ahead_post g es (by simpa [Node.plain] using hp) (by simpa [Node.sorted] using hs)
        (namesOK_dir hn))
  | .link _, hp, _, _ => by simp [Node.plain] at hp
  | .other, hp, _, _ => by simp [Node.plain] at hp
theorem commitEntries_ahead_post {ctx : Ctx κ} (g : Good ctx) : ∀ (es : List (Name × Node κ)),
    plainList es = true → sortedList es = true → NamesOKList ctx es → AEntriesPost ctx es
  | [], _, _, _ => anil_post ctx
  | (_, n) :: r, hp, hs, hn =>
    acons_post (namesOK_head hn).1 (plainList_cons hp).1
      (commitNode_ahead_post g n (plainList_cons hp).1 (sortedList_cons hs).1 (namesOK_node hn))
      (commitEntries_ahead_post g r (plainList_cons hp).2 (sortedList_cons hs).2 (namesOK_tail hn))
end

/-- **Retry of one artifact.**  `n` is the plain, sorted tree the workspace held at the artifact's path
before the failed commit, `t'` what it holds now (`AheadNode`: some files already moved into the cache `s`
and linked); the artifact `a` is a recursive directory artifact or a file artifact without `skip-cache`, and
a directory artifact records no checksum or the final one.  Then `LocalCache.Commit` succeeds, with either
strategy, and records `treeDigest ctx a.path n` — the checksum a commit of the untouched tree records; the
cache stays consistent, grows by objects of `n` only, holds `n`; the node left has the logical content
`n`. -/
theorem commitArt_ahead {ctx : Ctx κ} (g : Good ctx) (a : Art) (n t' : Node κ)
    (hk : n.isDir = a.isDir) (hp : n.plain = true) (hs : n.sorted = true) (hn : NamesOK ctx n)
    (hnr : a.isDir = true → a.noRec = false) (hsk : a.isDir = false → a.skip = false)
    (hsum : a.isDir = true → a.sum = "" ∨ a.sum = treeDigest ctx a.path n)
    (s : Store κ) (hc : Consistent ctx s) (ha : AheadNode ctx s n t') (strat : Strat) :
    ∃ t'' s', commitArt ctx strat a (some t') s = .ok (t'', treeDigest ctx a.path n, s') ∧
      Consistent ctx s' ∧ Store.le ctx s s' ∧ HoldsNode ctx s' newChoice a.path n ∧
      (∀ d, s'.has d = true → s.has d = true ∨ d ∈ allDigests ctx a.path n) ∧
      deref ctx s' t'' = n := by
  obtain ⟨t'', s', hcn, hc', hle, hh, hkeys, hd⟩ :=
    commitNode_ahead_post g n hp hs hn t' ⟨a.path, a.sum, a.isDir⟩ s strat hk.symm
      (fun hd => hsum (hk ▸ hd)) hc ha
  exact ⟨t'', s', WStat.commitArt_of_commitNode (ha.isDir.trans hk) hnr hsk hcn, hc', hle, hh, hkeys, hd⟩

end Dud
