import DudModel.Blake3Incr
/-!
# Lemmas: the incremental BLAKE3 hasher computes the recursive tree hash (tree layer)

Core-only.  Helper lemmas for `Props/C14blake3.lean`.

* `write_eq_foldl`: on well-formed states the piecewise `write` loop is the byte-by-byte fold of
  `pushByte`; hence `write_append`.
* `Stk`: the stack invariant, phrased as a binary counter.  `Stk P j t pre st` says: `pre` (the
  completed chunks, counters from 0) consists of `t` units of `2^j` chunks, and `st` holds, top first,
  the chaining values of the complete subtrees of sizes `2^j·bit₀(t), 2^(j+1)·bit₁(t), …` that cover
  `pre` in order, the largest at the bottom.
* `addChunkCV_stk`: pushing the chaining value of the next `2^j` chunks and merging per trailing zero
  bit re-establishes `Stk` for `t + 1` (binary increment with carries).
* `fold_stk`: folding a right-hand subtree over the last `≤ 2^j` chunks with the stack, top to bottom,
  yields the top node of the tree over all chunks.
-/
namespace Dud.Blake3Incr
open Dud.Blake3Spec

variable {CV Digest : Type}

/-! ## `write` is the byte-wise fold -/

theorem closeIfFull_idem (P : Params CV Digest) (s : State CV) :
    closeIfFull P (closeIfFull P s) = closeIfFull P s := by
  by_cases h : s.cur.length = 1024
  · simp [closeIfFull, h, closeChunk]
  · simp [closeIfFull, h]

theorem closeIfFull_lt (P : Params CV Digest) {s : State CV} (h : WF s) :
    (closeIfFull P s).cur.length < 1024 := by
  unfold WF at h
  by_cases h1 : s.cur.length = 1024
  · simp [closeIfFull, h1, closeChunk]
  · simp only [closeIfFull, h1, if_false]; omega

theorem pushByte_close (P : Params CV Digest) (s : State CV) (b : UInt8) :
    pushByte P (closeIfFull P s) b = pushByte P s b := by
  simp only [pushByte, closeIfFull_idem]

theorem foldl_pushByte_close (P : Params CV Digest) (s : State CV) (xs : Bytes) (h : xs ≠ []) :
    xs.foldl (pushByte P) (closeIfFull P s) = xs.foldl (pushByte P) s := by
  cases xs with
  | nil => exact absurd rfl h
  | cons x xs => simp only [List.foldl_cons, pushByte_close]

/-- Bytes that fit into the open chunk are just appended to it. -/
theorem foldl_pushByte_fit (P : Params CV Digest) (xs : Bytes) (s : State CV)
    (h : s.cur.length + xs.length ≤ 1024) :
    xs.foldl (pushByte P) s = { s with cur := s.cur ++ xs } := by
  induction xs generalizing s with
  | nil => simp
  | cons x xs ih =>
    simp only [List.length_cons] at h
    have h1 : ¬ s.cur.length = 1024 := by omega
    have hp : pushByte P s x = { s with cur := s.cur ++ [x] } := by
      simp only [pushByte, closeIfFull, h1, if_false]
    rw [List.foldl_cons, hp, ih _ (by simp only [List.length_append, List.length_singleton]; omega)]
    simp only [List.append_assoc, List.singleton_append]

theorem pushByte_wf (P : Params CV Digest) {s : State CV} (h : WF s) (b : UInt8) :
    WF (pushByte P s b) := by
  have := closeIfFull_lt P h
  simp only [WF, pushByte, List.length_append, List.length_singleton]; omega

theorem foldl_pushByte_wf (P : Params CV Digest) (xs : Bytes) {s : State CV} (h : WF s) :
    WF (xs.foldl (pushByte P) s) := by
  induction xs generalizing s with
  | nil => exact h
  | cons x xs ih => exact ih (pushByte_wf P h x)

theorem writeF_eq_foldl (P : Params CV Digest) :
    ∀ (fuel : Nat) (s : State CV) (input : Bytes), WF s → input.length ≤ fuel →
      writeF P fuel s input = input.foldl (pushByte P) s := by
  intro fuel
  induction fuel with
  | zero =>
    intro s input _ hl
    have : input = [] := List.eq_nil_of_length_eq_zero (by omega)
    subst this; rfl
  | succ fuel ih =>
    intro s input hwf hl
    simp only [writeF]
    by_cases h0 : input.length = 0
    · have : input = [] := List.eq_nil_of_length_eq_zero h0
      subst this; simp
    · simp only [h0, if_false]
      have hlt := closeIfFull_lt P hwf
      have key : ∀ t, t = min (1024 - (closeIfFull P s).cur.length) input.length →
          writeF P fuel { closeIfFull P s with cur := (closeIfFull P s).cur ++ input.take t }
            (input.drop t) = input.foldl (pushByte P) s := by
        intro t ht
        have ht1 : 1 ≤ t := by omega
        have ht2 : t ≤ input.length := by omega
        have ht3 : (closeIfFull P s).cur.length + t ≤ 1024 := by omega
        have htake : (input.take t).length = t := by simp only [List.length_take]; omega
        rw [ih _ _ (by simp only [WF, List.length_append, htake]; exact ht3)
              (by simp only [List.length_drop]; omega)]
        rw [← foldl_pushByte_fit P (input.take t) (closeIfFull P s) (by rw [htake]; exact ht3)]
        rw [foldl_pushByte_close P s _ (by
          intro hnil; rw [hnil] at htake; simp only [List.length_nil] at htake; omega)]
        rw [← List.foldl_append, List.take_append_drop]
      exact key _ rfl

/-- On well-formed states `write` is the byte-wise fold. -/
theorem write_eq_foldl (P : Params CV Digest) {s : State CV} (h : WF s) (input : Bytes) :
    write P s input = input.foldl (pushByte P) s :=
  writeF_eq_foldl P input.length s input h (Nat.le_refl _)

theorem write_wf (P : Params CV Digest) {s : State CV} (h : WF s) (input : Bytes) :
    WF (write P s input) := by
  rw [write_eq_foldl P h]; exact foldl_pushByte_wf P input h

theorem reset_wf (s : State CV) : WF (reset s) := by simp [WF, reset]

theorem write_append (P : Params CV Digest) {s : State CV} (h : WF s) (a b : Bytes) :
    write P (write P s a) b = write P s (a ++ b) := by
  rw [write_eq_foldl P (write_wf P h a), write_eq_foldl P h a, write_eq_foldl P h (a ++ b),
    List.foldl_append]

/-- A state that is not well-formed (more than 1024 bytes in the open chunk; unreachable) is stuck:
the model's loop makes no progress and returns it unchanged. -/
theorem writeF_stuck (P : Params CV Digest) {s : State CV} (h : ¬ WF s) :
    ∀ (fuel : Nat) (input : Bytes), writeF P fuel s input = s := by
  unfold WF at h
  intro fuel
  induction fuel with
  | zero => intro input; rfl
  | succ fuel ih =>
    intro input
    simp only [writeF]
    split
    · rfl
    · have h1 : ¬ s.cur.length = 1024 := by omega
      have h2 : 1024 - s.cur.length = 0 := by omega
      simp only [closeIfFull, h1, if_false, h2, Nat.zero_min, List.take_zero, List.append_nil,
        List.drop_zero]
      exact ih input

/-- `write (write s a) b = write s (a ++ b)` for EVERY state (well-formed or not). -/
theorem write_append_all (P : Params CV Digest) (s : State CV) (a b : Bytes) :
    write P (write P s a) b = write P s (a ++ b) := by
  by_cases h : WF s
  · exact write_append P h a b
  · simp only [write, writeF_stuck P h]

theorem foldl_write_eq (P : Params CV Digest) (chunks : List Bytes) {s : State CV} (h : WF s) :
    chunks.foldl (write P) s = chunks.flatten.foldl (pushByte P) s := by
  induction chunks generalizing s with
  | nil => rfl
  | cons c rest ih =>
    rw [List.foldl_cons, ih (write_wf P h c), write_eq_foldl P h, List.flatten_cons,
      List.foldl_append]

theorem foldl_write_wf (P : Params CV Digest) (chunks : List Bytes) {s : State CV} (h : WF s) :
    WF (chunks.foldl (write P) s) := by
  rw [foldl_write_eq P chunks h]; exact foldl_pushByte_wf P _ h

/-! ## The stack invariant -/

/-- `Stk P j t pre st`: the stack `st` (top first) represents the completed chunks `pre` (counters
from 0), which are `t` units of `2^j` chunks: bit 0 of `t` says whether the top of the stack is a
subtree of `2^j` chunks, and the rest of the stack represents `t / 2` units of `2^(j+1)` chunks. -/
inductive Stk (P : Params CV Digest) : Nat → Nat → List Bytes → List CV → Prop
  | zero (j : Nat) : Stk P j 0 [] []
  | even {j u : Nat} {pre : List Bytes} {st : List CV} :
      Stk P (j + 1) u pre st → Stk P j (2 * u) pre st
  | odd {j u : Nat} {pre : List Bytes} {st : List CV} {seg : List Bytes} :
      Stk P (j + 1) u pre st → seg.length = 2 ^ j →
      Stk P j (2 * u + 1) (pre ++ seg) (treeCV P pre.length seg :: st)

theorem Stk.even_inv {P : Params CV Digest} {j t : Nat} {pre : List Bytes} {st : List CV}
    (h : Stk P j t pre st) (ht : t % 2 = 0) : Stk P (j + 1) (t / 2) pre st := by
  cases h with
  | zero => exact Stk.zero _
  | even h' =>
    rename_i u
    have : 2 * u / 2 = u := by omega
    rw [this]; exact h'
  | odd h' _ => omega

theorem Stk.odd_inv {P : Params CV Digest} {j t : Nat} {pre : List Bytes} {st : List CV}
    (h : Stk P j t pre st) (ht : t % 2 = 1) :
    ∃ (pre' seg : List Bytes) (st' : List CV), pre = pre' ++ seg ∧
      st = treeCV P pre'.length seg :: st' ∧ seg.length = 2 ^ j ∧ Stk P (j + 1) (t / 2) pre' st' := by
  cases h with
  | zero => omega
  | even h' => omega
  | odd h' hseg =>
    rename_i u pre' st' seg
    have : (2 * u + 1) / 2 = u := by omega
    rw [this]
    exact ⟨pre', seg, st', rfl, rfl, hseg, h'⟩

/-- At level 0 the unit count is the number of chunks. -/
theorem Stk.length_eq {P : Params CV Digest} {j t : Nat} {pre : List Bytes} {st : List CV}
    (h : Stk P j t pre st) : pre.length = t * 2 ^ j := by
  induction h with
  | zero => simp
  | even h' ih =>
    rename_i j u pre st
    rw [ih, Nat.pow_succ, Nat.mul_comm 2 u, Nat.mul_assoc, Nat.mul_comm 2]
  | odd h' hseg ih =>
    rename_i j u pre st seg
    rw [List.length_append, ih, hseg, Nat.pow_succ, Nat.add_mul, Nat.one_mul, Nat.mul_comm 2 u,
      Nat.mul_assoc, Nat.mul_comm 2]

/-- The stack has one entry per one-bit of the unit count; in particular it is empty iff nothing has
been completed. -/
theorem Stk.stack_length_le {P : Params CV Digest} {j t : Nat} {pre : List Bytes} {st : List CV}
    (h : Stk P j t pre st) : st.length ≤ t := by
  induction h with
  | zero => simp
  | even _ ih => omega
  | odd _ _ ih => simp only [List.length_cons]; omega

/-- **Push and merge = binary increment.**  If the stack represents `t` units of `2^j` chunks and
`seg` is the next unit, then `add_chunk_chaining_value` with the subtree chaining value of `seg` and
the new unit count `t + 1` yields the stack representing `t + 1` units. -/
theorem addChunkCV_stk (P : Params CV Digest) :
    ∀ (st : List CV) (j t : Nat) (pre seg : List Bytes), Stk P j t pre st → seg.length = 2 ^ j →
      Stk P j (t + 1) (pre ++ seg) (addChunkCV P st (treeCV P pre.length seg) (t + 1)) := by
  intro st
  induction st with
  | nil =>
    intro j t pre seg h hseg
    have ht : t % 2 = 0 := by
      rcases Nat.mod_two_eq_zero_or_one t with h0 | h1
      · exact h0
      · obtain ⟨_, _, _, _, hst, _⟩ := h.odd_inv h1
        cases hst
    have e : t + 1 = 2 * (t / 2) + 1 := by omega
    simp only [addChunkCV]
    rw [e]
    exact Stk.odd (h.even_inv ht) hseg
  | cons top rest ih =>
    intro j t pre seg h hseg
    simp only [addChunkCV]
    by_cases hodd : (t + 1) % 2 = 1
    · simp only [hodd, if_true]
      have ht : t % 2 = 0 := by omega
      have e : t + 1 = 2 * (t / 2) + 1 := by omega
      rw [e]
      exact Stk.odd (h.even_inv ht) hseg
    · simp only [hodd, if_false]
      have ht : t % 2 = 1 := by omega
      obtain ⟨pre', seg', st', hpre, hst, hseg', h'⟩ := h.odd_inv ht
      cases hst
      subst hpre
      have hmerge : P.parentCV (treeCV P pre'.length seg') (treeCV P (pre' ++ seg').length seg)
          = treeCV P pre'.length (seg' ++ seg) := by
        conv => rhs; unfold treeCV
        rw [treeNode_append P pre'.length hseg' (by rw [hseg]; exact Nat.two_pow_pos j)
          (by rw [hseg]; exact Nat.le_refl _)]
        simp only [Node.cv, List.length_append, hseg']
      have e2 : (t + 1) / 2 = t / 2 + 1 := by omega
      have e3 : t + 1 = 2 * (t / 2 + 1) := by omega
      rw [hmerge, e2, List.append_assoc]
      have := ih (j + 1) (t / 2) pre' (seg' ++ seg) h'
        (by rw [List.length_append, hseg', hseg, Nat.pow_succ]; omega)
      have r := Stk.even this
      rw [← e3] at r
      exact r

/-- **Finalisation = the right spine of the tree.**  Folding the node over the last `tail` chunks
(`1 ≤ |tail| ≤ 2^j`) with the stack from top to bottom gives the top node of the tree over all
chunks. -/
theorem fold_stk (P : Params CV Digest) {j t : Nat} {pre : List Bytes} {st : List CV}
    (h : Stk P j t pre st) :
    ∀ (tail : List Bytes), 1 ≤ tail.length → tail.length ≤ 2 ^ j →
      st.foldl (fun (out : Node CV) (cv : CV) => Node.parent cv (out.cv P))
        (treeNode P pre.length tail) = treeNode P 0 (pre ++ tail) := by
  induction h with
  | zero => intro tail _ _; simp
  | even _ ih =>
    intro tail h1 h2
    exact ih tail h1 (Nat.le_trans h2 (Nat.pow_le_pow_right (by decide) (Nat.le_succ _)))
  | odd h' hseg ih =>
    rename_i j u pre st seg
    intro tail h1 h2
    rw [List.foldl_cons]
    have hstep : Node.parent (treeCV P pre.length seg) ((treeNode P (pre ++ seg).length tail).cv P)
        = treeNode P pre.length (seg ++ tail) := by
      rw [treeNode_append P pre.length hseg h1 h2]
      simp only [treeCV, List.length_append, hseg]
    rw [hstep, ih (seg ++ tail) (by rw [List.length_append]; omega)
      (by rw [List.length_append, hseg, Nat.pow_succ]; omega), List.append_assoc]

/-! ## The state invariant -/

/-- `Inv P s xs`: `s` is what the hasher holds after `xs` has been written since the last reset.
`done` are the completed chunks. -/
def Inv (P : Params CV Digest) (s : State CV) (xs : Bytes) : Prop :=
  ∃ done : List Bytes, (∀ c ∈ done, c.length = 1024) ∧ s.cur.length ≤ 1024 ∧
    (done ≠ [] → s.cur ≠ []) ∧ xs = done.flatten ++ s.cur ∧ s.n = done.length ∧
    Stk P 0 s.n done s.stack

theorem inv_reset (P : Params CV Digest) (s : State CV) : Inv P (reset s) [] :=
  ⟨[], by simp, by simp [reset], by simp, by simp [reset], by simp [reset], Stk.zero 0⟩

theorem inv_pushByte (P : Params CV Digest) {s : State CV} {xs : Bytes} (h : Inv P s xs)
    (b : UInt8) : Inv P (pushByte P s b) (xs ++ [b]) := by
  obtain ⟨done, hfull, hcur, hne, hxs, hn, hstk⟩ := h
  by_cases hc : s.cur.length = 1024
  · refine ⟨done ++ [s.cur], ?_, ?_, ?_, ?_, ?_, ?_⟩
    · intro c hcm
      rcases List.mem_append.mp hcm with h1 | h1
      · exact hfull c h1
      · simp only [List.mem_singleton] at h1; subst h1; exact hc
    · simp [pushByte, closeIfFull, hc, closeChunk]
    · simp [pushByte, closeIfFull, hc, closeChunk]
    · simp [pushByte, closeIfFull, hc, closeChunk, hxs]
    · simp [pushByte, closeIfFull, hc, closeChunk, hn]
    · have := addChunkCV_stk P s.stack 0 s.n done [s.cur] hstk (by simp)
      rw [treeCV_one, ← hn] at this
      simpa [pushByte, closeIfFull, hc, closeChunk] using this
  · refine ⟨done, hfull, ?_, ?_, ?_, ?_, ?_⟩
    · simp only [pushByte, closeIfFull, hc, if_false, List.length_append, List.length_singleton]
      omega
    · intro _; simp [pushByte, closeIfFull, hc]
    · simp [pushByte, closeIfFull, hc, hxs]
    · simpa [pushByte, closeIfFull, hc] using hn
    · simpa [pushByte, closeIfFull, hc] using hstk

theorem inv_foldl (P : Params CV Digest) (bs : Bytes) {s : State CV} {xs : Bytes}
    (h : Inv P s xs) : Inv P (bs.foldl (pushByte P) s) (xs ++ bs) := by
  induction bs generalizing s xs with
  | nil => simpa using h
  | cons b bs ih =>
    have := ih (inv_pushByte P h b)
    simpa [List.append_assoc] using this

/-- In a state holding `xs`, `sum` is the specification hash of `xs`. -/
theorem inv_sum (P : Params CV Digest) {s : State CV} {xs : Bytes} (h : Inv P s xs) :
    sum P s = hashSpec P xs := by
  obtain ⟨done, hfull, hcur, hne, hxs, hn, hstk⟩ := h
  unfold hashSpec treeHash
  rw [hxs, splitChunks_append done s.cur hfull hcur hne]
  unfold sum
  have := fold_stk P hstk [s.cur] (by simp) (by simp)
  rw [treeNode_one, ← hn] at this
  rw [this]

end Dud.Blake3Incr
