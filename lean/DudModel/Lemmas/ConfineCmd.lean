import DudModel.Lemmas.SysCheckoutRefine
import DudModel.Lemmas.CrashCmd
import DudModel.Props.C18stage
/-!
# Confinement of every path of the whole `dud commit` / `dud checkout` (C18, command level): lemmas

* entry names of a tree along `getPath` / `setPath` / commit (`allNames_getPath`, `allNames_setPath`,
  `commitArt_names`)
* `PathsSafe idx` (every artifact path of every stage of the index is a safe relative path) and `NamesSafe ws`
  (every entry name of the workspace is a single safe component) are kept by every stage of the traced commit,
  and every call of its trace is confined (`commitActT_confined`); the same for checkout without any
  condition on the workspace (`checkoutActT_confined`)
-/
namespace Dud.Sys
open Dud Dud.Path
variable {κ : Type}

/-- every path a call mentions is confined -/
def CallConfined (c : Call κ) : Prop := ∀ p ∈ callPaths c, Confined p

/-- every artifact path of every stage the index holds is a safe relative path -/
def PathsSafe (idx : Index) : Prop :=
  ∀ sp stg, alookup idx sp = some stg → ∀ a ∈ stg.outputs ++ stg.inputs, SafeRel (comps a.path)

/-- every entry name of the tree is a single safe component (what a directory listing returns) -/
def NamesSafe (ws : Node κ) : Prop := ∀ x ∈ allNames ws, SafeComp x

/-! ## entry names along `getPath`, `setPath`, commit -/

theorem allNames_of_alookup {es : List (Name × Node κ)} {c : Name} {m : Node κ}
    (h : alookup es c = some m) : ∀ x ∈ allNames m, x ∈ allNamesList es :=
  fun _ hx => allNames_sub_allNamesList (e := (c, m)) (alookup_mem h) hx

theorem allNames_getPath : ∀ (p : List Name) (ws n : Node κ), getPath ws p = some n →
    ∀ x ∈ allNames n, x ∈ allNames ws
  | [], ws, n, h, x, hx => by
    simp only [getPath, Option.some.injEq] at h; subst h; exact hx
  | c :: p, .dir es, n, h, x, hx => by
    simp only [getPath] at h
    cases hm : alookup es c with
    | none => simp [hm] at h
    | some m =>
      simp only [hm] at h
      simp only [allNames]
      exact allNames_of_alookup hm x (allNames_getPath p m n h x hx)
  | _ :: _, .file _, _, h, _, _ => by simp [getPath] at h
  | _ :: _, .link _, _, h, _, _ => by simp [getPath] at h
  | _ :: _, .other, _, h, _, _ => by simp [getPath] at h

theorem mem_allNamesList_setEntry : ∀ {es : List (Name × Node κ)} {c : Name} {n : Node κ} {x : Name},
    x ∈ allNamesList (setEntry es c n) → x ∈ allNamesList es ∨ x = c ∨ x ∈ allNames n
  | [], c, n, x, h => by
    simp only [setEntry, allNamesList, List.append_nil, List.mem_cons] at h
    rcases h with h | h
    · exact .inr (.inl h)
    · exact .inr (.inr h)
  | (k, v) :: r, c, n, x, h => by
    simp only [setEntry] at h
    split at h
    · rename_i hk
      have hk : k = c := by simpa using hk
      simp only [allNamesList, List.mem_cons, List.mem_append] at h ⊢
      rcases h with h | h | h
      · exact .inr (.inl (h.trans hk))
      · exact .inr (.inr h)
      · exact .inl (.inr (.inr h))
    · simp only [allNamesList, List.mem_cons, List.mem_append] at h ⊢
      rcases h with h | h | h
      · exact .inl (.inl h)
      · exact .inl (.inr (.inl h))
      · rcases mem_allNamesList_setEntry h with h | h | h
        · exact .inl (.inr (.inr h))
        · exact .inr (.inl h)
        · exact .inr (.inr h)

theorem allNames_setPath : ∀ (p : List Name) (ws ws' v : Node κ), setPath ws p v = some ws' →
    ∀ x ∈ allNames ws', x ∈ allNames ws ∨ x ∈ p ∨ x ∈ allNames v
  | [], ws, ws', v, h, x, hx => by
    simp only [setPath, Option.some.injEq] at h; subst h; exact .inr (.inr hx)
  | c :: p, .dir es, ws', v, h, x, hx => by
    simp only [setPath] at h
    split at h
    · rename_i n hn
      injection h with h
      subst h
      simp only [allNames] at hx ⊢
      rcases mem_allNamesList_setEntry hx with h | h | h
      · exact .inl h
      · exact .inr (.inl (by simp [h]))
      · rcases allNames_setPath p _ n v hn x h with h | h | h
        · cases hm : alookup es c with
          | none => rw [hm] at h; simp [allNames, allNamesList] at h
          | some m =>
            rw [hm] at h
            exact .inl (allNames_of_alookup hm x (by simpa using h))
        · exact .inr (.inl (List.mem_cons_of_mem _ h))
        · exact .inr (.inr h)
    · cases h
  | _ :: _, .file _, _, _, h, _, _ => by simp [setPath] at h
  | _ :: _, .link _, _, _, h, _, _ => by simp [setPath] at h
  | _ :: _, .other, _, _, h, _, _ => by simp [setPath] at h

/-- `commitFileArtifact` leaves a node without entry names, or the node itself -/
theorem commitFile_names {ctx : Ctx κ} {strat : Strat} {skip : Bool} {nd : Node κ} {sum : Digest}
    {s : Store κ} {n' : Node κ} {d : Digest} {s' : Store κ}
    (h : commitFile ctx strat skip (some nd) sum s = .ok (n', d, s')) :
    ∀ x ∈ allNames n', x ∈ allNames nd := by
  unfold commitFile at h
  simp only at h
  split at h
  · simp only [Except.ok.injEq, Prod.mk.injEq] at h
    rw [← h.1]; exact fun _ hx => hx
  · cases nd with
    | file c =>
      simp only at h
      split at h
      · simp only [Except.ok.injEq, Prod.mk.injEq] at h
        rw [← h.1]; exact fun _ hx => hx
      · cases strat <;> simp only [Except.ok.injEq, Prod.mk.injEq] at h <;> rw [← h.1] <;>
          simp [allNames]
    | link l =>
      cases l with
      | obj d0 =>
        simp only at h
        split at h
        · simp only [Except.ok.injEq, Prod.mk.injEq] at h
          rw [← h.1]; exact fun _ hx => hx
        · cases h
      | foreign b => cases h
    | dir es => cases h
    | other => cases h

mutual
/-- the committed tree has the entry names of the tree -/
theorem commitNode_names (ctx : Ctx κ) (strat : Strat) : ∀ (n : Node κ) (c : Child) (s : Store κ)
    (n' : Node κ) (c' : Child) (s' : Store κ), commitNode ctx strat n c s = .ok (n', c', s') →
    ∀ x ∈ allNames n', x ∈ allNames n
  | .dir es, c, s, n', c', s', h => by
    simp only [commitNode] at h
    split at h
    · cases hold : oldManifest ctx s c.sum with
      | error e => simp [hold] at h
      | ok old =>
        simp only [hold] at h
        cases hT : commitEntries ctx strat false es old s with
        | error e => simp [hT] at h
        | ok v =>
          obtain ⟨es', cs, s1⟩ := v
          simp only [hT, Except.ok.injEq, Prod.mk.injEq] at h
          rw [← h.1]
          simp only [allNames]
          exact commitEntries_names ctx strat es false old s es' cs s1 hT
    · cases h
  | .file x, c, s, n', c', s', h => by
    simp only [commitNode] at h
    split at h
    · cases h
    · cases hT : commitFile ctx strat false (some (.file x)) c.sum s with
      | error e => simp [hT] at h
      | ok v =>
        obtain ⟨n1, d, s1⟩ := v
        simp only [hT, Except.ok.injEq, Prod.mk.injEq] at h
        rw [← h.1]
        exact commitFile_names hT
  | .link l, c, s, n', c', s', h => by
    simp only [commitNode] at h
    split at h
    · cases h
    · cases hT : commitFile ctx strat false (some (.link l)) c.sum s with
      | error e => simp [hT] at h
      | ok v =>
        obtain ⟨n1, d, s1⟩ := v
        simp only [hT, Except.ok.injEq, Prod.mk.injEq] at h
        rw [← h.1]
        exact commitFile_names hT
  | .other, c, s, n', c', s', h => by
    simp only [commitNode] at h
    split at h
    · cases h
    · cases hT : commitFile ctx strat false (some .other) c.sum s with
      | error e => simp [hT] at h
      | ok v =>
        obtain ⟨n1, d, s1⟩ := v
        simp only [hT, Except.ok.injEq, Prod.mk.injEq] at h
        rw [← h.1]
        exact commitFile_names hT
theorem commitEntries_names (ctx : Ctx κ) (strat : Strat) : ∀ (es : List (Name × Node κ))
    (skipDirs : Bool) (old : List Child) (s : Store κ) (es' : List (Name × Node κ)) (cs : List Child)
    (s' : Store κ), commitEntries ctx strat skipDirs es old s = .ok (es', cs, s') →
    ∀ x ∈ allNamesList es', x ∈ allNamesList es
  | [], skipDirs, old, s, es', cs, s', h => by
    simp only [commitEntries, Except.ok.injEq, Prod.mk.injEq] at h
    rw [← h.1]; exact fun _ hx => hx
  | (nm, nd) :: r, skipDirs, old, s, es', cs, s', h => by
    obtain ⟨c0, -, hL0⟩ := commitEntries_cons_both
      ({ ctx := ctx, isEmp := fun _ => false, strat := strat, canRename := false } : TCfg κ) [] skipDirs nm nd
      r old s 0
    simp only at hL0
    rw [hL0] at h
    split at h
    · cases hT : commitEntries ctx strat skipDirs r old s with
      | error e => simp [hT] at h
      | ok v =>
        obtain ⟨r', cs1, s1⟩ := v
        simp only [hT, Except.ok.injEq, Prod.mk.injEq] at h
        rw [← h.1]
        have ih := commitEntries_names ctx strat r skipDirs old s r' cs1 s1 hT
        intro x hx
        simp only [allNamesList, List.mem_cons, List.mem_append] at hx ⊢
        rcases hx with hx | hx | hx
        · exact .inl hx
        · exact .inr (.inl hx)
        · exact .inr (.inr (ih x hx))
    · split at h
      · cases h
      · cases hT : commitNode ctx strat nd c0 s with
        | error e => simp [hT] at h
        | ok v =>
          obtain ⟨nd', c', s1⟩ := v
          simp only [hT] at h
          cases hT2 : commitEntries ctx strat skipDirs r old s1 with
          | error e => simp [hT2] at h
          | ok v =>
            obtain ⟨r', cs1, s2⟩ := v
            simp only [hT2, Except.ok.injEq, Prod.mk.injEq] at h
            rw [← h.1]
            have ih1 := commitNode_names ctx strat nd c0 s nd' c' s1 hT
            have ih2 := commitEntries_names ctx strat r skipDirs old s1 r' cs1 s2 hT2
            intro x hx
            simp only [allNamesList, List.mem_cons, List.mem_append] at hx ⊢
            rcases hx with hx | hx | hx
            · exact .inl hx
            · exact .inr (.inl (ih1 x hx))
            · exact .inr (.inr (ih2 x hx))
end

theorem commitArt_names {ctx : Ctx κ} {strat : Strat} {a : Art} {nd : Node κ} {s : Store κ}
    {n' : Node κ} {d : Digest} {s' : Store κ}
    (h : commitArt ctx strat a (some nd) s = .ok (n', d, s')) : ∀ x ∈ allNames n', x ∈ allNames nd := by
  unfold commitArt at h
  split at h
  · cases nd with
    | dir es =>
      simp only at h
      cases hold : oldManifest ctx s a.sum with
      | error e => simp [hold] at h
      | ok old =>
        simp only [hold] at h
        cases hT : commitEntries ctx strat a.noRec es old s with
        | error e => simp [hT] at h
        | ok v =>
          obtain ⟨es', cs, s1⟩ := v
          simp only [hT, Except.ok.injEq, Prod.mk.injEq] at h
          rw [← h.1]
          simp only [allNames]
          exact commitEntries_names ctx strat es a.noRec old s es' cs s1 hT
    | file _ => cases h
    | link _ => cases h
    | other => cases h
  · exact commitFile_names h

/-! ## commit: one artifact, the artifacts of a stage -/

theorem commitArtT_none {t : TCfg κ} {a : Art} {pre : List Name} {s : Store κ}
    {res : Node κ × Digest × Store κ} {calls : List (Call κ)}
    (h : commitArtT t a pre none s = .ok (res, calls)) : False := by
  unfold commitArtT at h
  split at h
  · cases h
  · simp [commitFileT, commitFile] at h

/-- **One traced `LocalCache.Commit` of an artifact with a safe path in a workspace with safe entry
names**: every call is confined, the entry names stay safe, index and artifact path are unchanged. -/
theorem commitArtWT_confined {c : CmdCfg κ} {strat : Strat} {a a' : Art} {w w' : World κ}
    {calls : List (Call κ)} (h : commitArtWT c strat a w = .ok ((a', w'), calls))
    (hp : SafeRel (comps a.path)) (hn : NamesSafe w.ws) :
    (∀ call ∈ calls, CallConfined call) ∧ NamesSafe w'.ws ∧ w'.idx = w.idx ∧ a'.path = a.path := by
  unfold commitArtWT at h
  simp only at h
  cases hT : commitArtT (c.tc strat) a (Path.comps a.path) (getPath w.ws (Path.comps a.path)) w.store with
  | error e => rw [hT] at h; cases h
  | ok v =>
    obtain ⟨⟨n, d, s⟩, calls1⟩ := v
    rw [hT] at h
    simp only at h
    cases hset : setPath w.ws (Path.comps a.path) n with
    | none => rw [hset] at h; cases h
    | some ws' =>
      rw [hset] at h
      simp only [Except.ok.injEq, Prod.mk.injEq] at h
      obtain ⟨⟨rfl, rfl⟩, rfl⟩ := h
      cases hcur : getPath w.ws (Path.comps a.path) with
      | none => rw [hcur] at hT; exact (commitArtT_none hT).elim
      | some nd =>
        rw [hcur] at hT
        have hnd : ∀ x ∈ allNames nd, SafeComp x :=
          fun x hx => hn x (allNames_getPath _ _ _ hcur x hx)
        refine ⟨fun call hc => commitArt_paths_safe (c.tc strat) hT hp hnd call hc, ?_, rfl, rfl⟩
        intro x hx
        rcases allNames_setPath _ _ _ _ hset x hx with h1 | h1 | h1
        · exact hn x h1
        · exact hp x h1
        · have hL := (map_fst_eq (commitArtT_refines (c.tc strat) a (Path.comps a.path) (some nd) w.store)).2
            _ _ hT
          exact hnd x (commitArt_names hL x h1)

theorem commitArtsT_confined {c : CmdCfg κ} {strat : Strat} :
    ∀ (as : List Art) (w : World κ) (as' : List Art) (w' : World κ) (segs : List (List (Call κ))),
    commitArtsT c strat as w = .ok ((as', w'), segs) →
    (∀ a ∈ as, SafeRel (comps a.path)) → NamesSafe w.ws →
    (∀ call ∈ segs.flatten, CallConfined call) ∧ NamesSafe w'.ws ∧ w'.idx = w.idx ∧
      ∀ a' ∈ as', ∃ a ∈ as, a'.path = a.path
  | [], w, as', w', segs, h, _, hn => by
    simp only [commitArtsT, Except.ok.injEq, Prod.mk.injEq] at h
    obtain ⟨⟨rfl, rfl⟩, rfl⟩ := h
    exact ⟨by simp, hn, rfl, by simp⟩
  | a :: r, w, as', w', segs, h, hp, hn => by
    simp only [commitArtsT] at h
    cases h1 : commitArtWT c strat a w with
    | error e => rw [h1] at h; cases h
    | ok v =>
      obtain ⟨⟨a1, w1⟩, calls1⟩ := v
      rw [h1] at h
      simp only at h
      cases h2 : commitArtsT c strat r w1 with
      | error e => rw [h2] at h; cases h
      | ok v =>
        obtain ⟨⟨r', w2⟩, segs2⟩ := v
        rw [h2] at h
        simp only [Except.ok.injEq, Prod.mk.injEq] at h
        obtain ⟨⟨rfl, rfl⟩, rfl⟩ := h
        obtain ⟨hc1, hn1, hi1, hp1⟩ := commitArtWT_confined h1 (hp a List.mem_cons_self) hn
        obtain ⟨hc2, hn2, hi2, hp2⟩ := commitArtsT_confined r w1 r' w2 segs2 h2
          (fun x hx => hp x (List.mem_cons_of_mem _ hx)) hn1
        refine ⟨?_, hn2, by rw [hi2, hi1], ?_⟩
        · intro call hc
          simp only [List.flatten_cons, List.mem_append] at hc
          rcases hc with hc | hc
          · exact hc1 call hc
          · exact hc2 call hc
        · intro x hx
          rcases List.mem_cons.1 hx with rfl | hx
          · exact ⟨a, List.mem_cons_self, hp1⟩
          · obtain ⟨y, hy, hxy⟩ := hp2 x hx
            exact ⟨y, List.mem_cons_of_mem _ hy, hxy⟩

/-- **The artifact phase of one stage of the traced commit.** -/
theorem commitActT_confined {c : CmdCfg κ} {strat : Strat} {sp : Bytes} {w w' : World κ}
    {segs : List (List (Call κ))} (h : commitActT c strat sp w = .ok (w', segs))
    (hi : PathsSafe w.idx) (hn : NamesSafe w.ws) :
    (∀ call ∈ segs.flatten, CallConfined call) ∧ NamesSafe w'.ws ∧ PathsSafe w'.idx := by
  unfold commitActT at h
  cases hst : w.stage sp with
  | error e => rw [hst] at h; cases h
  | ok stg =>
    rw [hst] at h
    simp only at h
    have hlook : alookup w.idx sp = some stg := by
      unfold World.stage at hst
      cases hl : alookup w.idx sp with
      | none => rw [hl] at hst; cases hst
      | some s0 => rw [hl] at hst; cases hst; rfl
    have hstg := hi sp stg hlook
    have hin : ∀ a ∈ stg.inputs, SafeRel (comps a.path) :=
      fun a ha => hstg a (List.mem_append_right _ ha)
    have hout : ∀ a ∈ stg.outputs, SafeRel (comps a.path) :=
      fun a ha => hstg a (List.mem_append_left _ ha)
    cases h1 : commitArtsT c strat
      (sortArts ((stg.inputs.filter (fun a => (findOwner c.cfg.walkAccumulates w.idx a.path).isNone)).map
        (fun a => { a with skip := true }))) w with
    | error e => rw [h1] at h; cases h
    | ok v =>
      obtain ⟨⟨plain', w1⟩, segs1⟩ := v
      rw [h1] at h
      simp only at h
      cases h2 : commitArtsT c strat (sortArts stg.outputs) w1 with
      | error e => rw [h2] at h; cases h
      | ok v =>
        obtain ⟨⟨outs', w2⟩, segs2⟩ := v
        rw [h2] at h
        simp only [Except.ok.injEq, Prod.mk.injEq] at h
        obtain ⟨rfl, rfl⟩ := h
        have hplain : ∀ a ∈ sortArts ((stg.inputs.filter
            (fun a => (findOwner c.cfg.walkAccumulates w.idx a.path).isNone)).map
            (fun a => { a with skip := true })), SafeRel (comps a.path) := by
          intro a ha
          have := mem_of_mem_sortArts ha
          simp only [List.mem_map, List.mem_filter] at this
          obtain ⟨b, ⟨hb, -⟩, rfl⟩ := this
          exact hin b hb
        obtain ⟨hc1, hn1, hi1, hp1⟩ := commitArtsT_confined _ w _ w1 segs1 h1 hplain hn
        obtain ⟨hc2, hn2, hi2, hp2⟩ := commitArtsT_confined _ w1 _ w2 segs2 h2
          (fun a ha => hout a (mem_of_mem_sortArts ha)) hn1
        refine ⟨?_, hn2, ?_⟩
        · intro call hc
          simp only [List.flatten_append, List.mem_append] at hc
          rcases hc with hc | hc
          · exact hc1 call hc
          · exact hc2 call hc
        · intro sp' stg' hl' a ha
          simp only at hl'
          rw [hi2, hi1] at hl'
          by_cases hsp : sp' = sp
          · subst hsp
            rw [WT.alookup_setStage_self _ _ hlook] at hl'
            injection hl' with hl'
            subst hl'
            simp only at ha
            rcases List.mem_append.1 ha with ha | ha
            · obtain ⟨b, hb, hab⟩ := hp2 a ha
              rw [hab]; exact hout b (mem_of_mem_sortArts hb)
            · have := mem_of_mem_sortArts ha
              rcases List.mem_append.1 this with hm | hm
              · simp only [List.mem_map, List.mem_filter] at hm
                obtain ⟨b, ⟨hb, -⟩, rfl⟩ := hm
                split <;> exact hin b hb
              · obtain ⟨b, hb, hab⟩ := hp1 a hm
                rw [hab]; exact hplain b hb
          · rw [WT.alookup_setStage_ne _ _ hsp] at hl'
            exact hi sp' stg' hl' a ha

/-! ## checkout: one artifact, the outputs of a stage -/

theorem parentMkdirs_confined {comps : List Name} (hp : SafeRel comps) (ws : Node κ) :
    ∀ call ∈ parentMkdirs ws comps, CallConfined call := by
  intro call hc p hpp
  simp only [parentMkdirs, List.mem_map, List.mem_filter] at hc
  obtain ⟨q, ⟨hq, -⟩, rfl⟩ := hc
  simp only [callPaths, List.mem_singleton] at hpp
  subst hpp
  simp only [parentDirs, List.mem_map, List.mem_range] at hq
  obtain ⟨k, -, rfl⟩ := hq
  exact fun x hx => hp x (List.mem_of_mem_take hx)

/-- **One traced `LocalCache.Checkout` of an artifact with a safe path**: every call is confined, whatever
the workspace and the manifests of the cache hold. -/
theorem checkoutArtWT_confined {c : CmdCfg κ} {strat : Strat} {a : Art} {w w' : World κ}
    {calls : List (Call κ)} (h : checkoutArtWT c strat a w = .ok (w', calls))
    (hp : SafeRel (comps a.path)) : (∀ call ∈ calls, CallConfined call) ∧ w'.idx = w.idx := by
  unfold checkoutArtWT at h
  simp only at h
  cases hT : checkoutNodeT (c.tc strat) w.store c.cfg.fuel (Path.comps a.path)
      (getPath w.ws (Path.comps a.path)) a.child with
  | error e => rw [hT] at h; cases h
  | ok v =>
    obtain ⟨n, ncalls⟩ := v
    rw [hT] at h
    simp only at h
    cases hset : setPath w.ws (Path.comps a.path) n with
    | none => rw [hset] at h; cases h
    | some ws' =>
      rw [hset] at h
      simp only [Except.ok.injEq, Prod.mk.injEq] at h
      obtain ⟨rfl, rfl⟩ := h
      refine ⟨fun call hc => ?_, rfl⟩
      rcases List.mem_append.1 hc with hc | hc
      · exact parentMkdirs_confined hp w.ws call hc
      · exact checkout_paths_safe hp hT call hc

theorem checkoutArtsT_confined {c : CmdCfg κ} {strat : Strat} :
    ∀ (as : List Art) (w w' : World κ) (segs : List (List (Call κ))),
    checkoutArtsT c strat as w = .ok (w', segs) → (∀ a ∈ as, SafeRel (comps a.path)) →
    (∀ call ∈ segs.flatten, CallConfined call) ∧ w'.idx = w.idx
  | [], w, w', segs, h, _ => by
    simp only [checkoutArtsT, Except.ok.injEq, Prod.mk.injEq] at h
    obtain ⟨rfl, rfl⟩ := h
    exact ⟨by simp, rfl⟩
  | a :: r, w, w', segs, h, hp => by
    simp only [checkoutArtsT] at h
    by_cases hs : a.skip = true
    · rw [if_pos hs] at h
      exact checkoutArtsT_confined r w w' segs h (fun x hx => hp x (List.mem_cons_of_mem _ hx))
    · rw [if_neg hs] at h
      cases h1 : checkoutArtWT c strat a w with
      | error e => rw [h1] at h; cases h
      | ok v =>
        obtain ⟨w1, calls1⟩ := v
        rw [h1] at h
        simp only at h
        cases h2 : checkoutArtsT c strat r w1 with
        | error e => rw [h2] at h; cases h
        | ok v =>
          obtain ⟨w2, segs2⟩ := v
          rw [h2] at h
          simp only [Except.ok.injEq, Prod.mk.injEq] at h
          obtain ⟨rfl, rfl⟩ := h
          obtain ⟨hc1, hi1⟩ := checkoutArtWT_confined h1 (hp a List.mem_cons_self)
          obtain ⟨hc2, hi2⟩ := checkoutArtsT_confined r w1 w2 segs2 h2
            (fun x hx => hp x (List.mem_cons_of_mem _ hx))
          refine ⟨?_, by rw [hi2, hi1]⟩
          intro call hc
          simp only [List.flatten_cons, List.mem_append] at hc
          rcases hc with hc | hc
          · exact hc1 call hc
          · exact hc2 call hc

/-- **The outputs of one stage of the traced checkout.** -/
theorem checkoutActT_confined {c : CmdCfg κ} {strat : Strat} {sp : Bytes} {w w' : World κ}
    {segs : List (List (Call κ))} (h : checkoutActT c strat sp w = .ok (w', segs))
    (hi : PathsSafe w.idx) : (∀ call ∈ segs.flatten, CallConfined call) ∧ w'.idx = w.idx := by
  unfold checkoutActT at h
  cases hst : w.stage sp with
  | error e => rw [hst] at h; cases h
  | ok stg =>
    rw [hst] at h
    simp only at h
    have hlook : alookup w.idx sp = some stg := by
      unfold World.stage at hst
      cases hl : alookup w.idx sp with
      | none => rw [hl] at hst; cases hst
      | some s0 => rw [hl] at hst; cases hst; rfl
    cases h1 : checkoutArtsT c strat (sortArts stg.outputs) w with
    | error e => rw [h1] at h; cases h
    | ok v =>
      obtain ⟨w1, segs1⟩ := v
      rw [h1] at h
      simp only [Except.ok.injEq, Prod.mk.injEq] at h
      obtain ⟨rfl, rfl⟩ := h
      exact checkoutArtsT_confined _ w w1 _ h1
        (fun a ha => hi sp stg hlook a (List.mem_append_left _ (mem_of_mem_sortArts ha)))

end Dud.Sys
