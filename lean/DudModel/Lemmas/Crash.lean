import DudModel.Sys
import DudModel.Spec
/-!
# Crash safety at the system-call level: vocabulary and generic lemmas (C03)

* the file system as a finite map: `get`/`set`/`del`, effect of `apply` on `get`
* `callPaths`, the frame lemma (a call changes nothing outside its paths)
* safety predicates `Retr`, `NoTorn`, `Safe`; the per-call discipline `Allowed`
* `Safe → Allowed → Safe (apply …)`, prefix safety `PrefixSafe` and its composition
-/
namespace Dud.Sys

open Dud

variable {κ : Type}

/-! ## finite maps -/

theorem alookup_aerase {α β : Type} [DecidableEq α] (l : List (α × β)) (a b : α) :
    alookup (aerase l a) b = if a = b then none else alookup l b := by
  induction l with
  | nil => simp [aerase, alookup]
  | cons x xs ih =>
    obtain ⟨k, v⟩ := x
    simp only [aerase] at ih ⊢
    by_cases hk : k = a
    · subst hk
      simp only [List.filter_cons, beq_self_eq_true, Bool.not_true, Bool.false_eq_true, if_false]
      rw [ih]
      by_cases hb : k = b
      · simp [hb]
      · simp [hb, alookup]
    · have : (!(k == a)) = true := by simp [hk]
      simp only [List.filter_cons, this, if_true]
      by_cases hb : k = b
      · subst hb
        have hak : ¬ a = k := fun h => hk h.symm
        simp [alookup, hak]
      · simp only [alookup, beq_iff_eq, hb, if_false]
        exact ih

theorem alookup_append {α β : Type} [BEq α] (l1 l2 : List (α × β)) (a : α) :
    alookup (l1 ++ l2) a = match alookup l1 a with
      | some b => some b
      | none => alookup l2 a := by
  induction l1 with
  | nil => simp [alookup]
  | cons x xs ih =>
    obtain ⟨k, v⟩ := x
    simp only [List.cons_append, alookup]
    split
    · rfl
    · exact ih

theorem alookup_none_of_keys {α β : Type} [BEq α] [LawfulBEq α] (l : List (α × β)) (a : α)
    (h : ∀ p ∈ l, p.1 ≠ a) : alookup l a = none := by
  induction l with
  | nil => rfl
  | cons x xs ih =>
    obtain ⟨k, v⟩ := x
    have hk : k ≠ a := h (k, v) (by simp)
    simp only [alookup, beq_iff_eq, hk, if_false]
    exact ih (fun p hp => h p (by simp [hp]))

theorem FS.get_set (fs : FS κ) (p q : P) (e : Entry κ) :
    (fs.set p e).get q = if p = q then some e else fs.get q := by
  unfold FS.set FS.get
  by_cases h : p = q
  · subst h; simp [alookup]
  · simp only [alookup, beq_iff_eq, h, if_false]
    rw [alookup_aerase]; simp [h]

theorem FS.get_del (fs : FS κ) (p q : P) :
    (fs.del p).get q = if p = q then none else fs.get q := by
  unfold FS.del FS.get
  exact alookup_aerase fs p q

/-! ## paths of a call; frame -/

def callPaths : Call κ → List P
  | .mkdir p => [p]
  | .createExcl p => [p]
  | .createTrunc p => [p]
  | .writePart p => [p]
  | .write p _ => [p]
  | .rename s d => [s, d]
  | .chmod p _ => [p]
  | .unlink p => [p]
  | .symlink t p => [t, p]

/-- the paths a call can change (a symlink's target is only mentioned) -/
def callWrites : Call κ → List P
  | .symlink _ p => [p]
  | c => callPaths c

theorem callWrites_sub (c : Call κ) : ∀ p ∈ callWrites c, p ∈ callPaths c := by
  cases c <;> simp [callWrites, callPaths]

/-- A call changes nothing outside the paths it writes. -/
theorem apply_get_frame (emp : κ) (fs : FS κ) (c : Call κ) (q : P) (h : q ∉ callWrites c) :
    (apply emp fs c).get q = fs.get q := by
  cases c with
  | mkdir p =>
    have hp : p ≠ q := by simpa [callWrites, callPaths, eq_comm] using h
    simp only [apply]; split <;> simp [FS.get_set, hp]
  | createExcl p =>
    have hp : p ≠ q := by simpa [callWrites, callPaths, eq_comm] using h
    simp only [apply]; split <;> simp [FS.get_set, hp]
  | createTrunc p =>
    have hp : p ≠ q := by simpa [callWrites, callPaths, eq_comm] using h
    simp [apply, FS.get_set, hp]
  | writePart p =>
    have hp : p ≠ q := by simpa [callWrites, callPaths, eq_comm] using h
    simp only [apply]; split <;> simp [FS.get_set, hp]
  | write p c =>
    have hp : p ≠ q := by simpa [callWrites, callPaths, eq_comm] using h
    simp only [apply]; split <;> simp [FS.get_set, hp]
  | rename s d =>
    have hp : s ≠ q ∧ d ≠ q := by simpa [callWrites, callPaths, eq_comm] using h
    simp only [apply]; split <;> simp [FS.get_set, FS.get_del, hp.1, hp.2]
  | chmod p m =>
    have hp : p ≠ q := by simpa [callWrites, callPaths, eq_comm] using h
    simp only [apply]; split <;> simp [FS.get_set, hp]
  | unlink p =>
    have hp : p ≠ q := by simpa [callWrites, callPaths, eq_comm] using h
    simp [apply, FS.get_del, hp]
  | symlink t p =>
    have hp : p ≠ q := by simpa [callWrites, callPaths, eq_comm] using h
    simp only [apply]; split <;> simp [FS.get_set, hp]

theorem replay_nil (emp : κ) (fs : FS κ) : replay emp fs [] = fs := rfl

theorem replay_cons (emp : κ) (fs : FS κ) (c : Call κ) (cs : List (Call κ)) :
    replay emp fs (c :: cs) = replay emp (apply emp fs c) cs := rfl

theorem replay_append (emp : κ) (fs : FS κ) (l1 l2 : List (Call κ)) :
    replay emp fs (l1 ++ l2) = replay emp (replay emp fs l1) l2 := by
  simp [replay, List.foldl_append]

theorem replay_get_frame (emp : κ) (calls : List (Call κ)) (q : P) :
    ∀ (fs : FS κ), (∀ c ∈ calls, q ∉ callWrites c) → (replay emp fs calls).get q = fs.get q := by
  induction calls with
  | nil => intro fs _; rfl
  | cons c cs ih =>
    intro fs h
    rw [replay_cons, ih _ (fun c' hc' => h c' (by simp [hc']))]
    exact apply_get_frame emp fs c q (h c (by simp))

/-! ## safety predicates -/

/-- the byte sequence `c` recorded for workspace path `w` is still retrievable: at `w`, through a
link at `w`, or as the cache object named by its digest -/
def Retr (ctx : Ctx κ) (fs : FS κ) (w : P) (c : κ) : Prop :=
  (∃ m, fs.get w = some (.file c m)) ∨
  (∃ d m, fs.get w = some (.link (.obj d)) ∧ fs.get (.obj d) = some (.file c m)) ∨
  (∃ m, fs.get (.obj (ctx.H c)) = some (.file c m))

/-- whatever sits under a digest name is a complete file with exactly the bytes of that digest -/
def NoTorn (ctx : Ctx κ) (fs : FS κ) : Prop :=
  ∀ d e, fs.get (.obj d) = some e → ∃ c m, e = .file c m ∧ ctx.H c = d

def Safe (ctx : Ctx κ) (tracked : List (P × κ)) (fs : FS κ) : Prop :=
  (∀ p ∈ tracked, Retr ctx fs p.1 p.2) ∧ NoTorn ctx fs

def P.isObj : P → Bool
  | .obj _ => true
  | _ => false

theorem P.isObj_false {p : P} (h : p.isObj = false) (d : Digest) : p ≠ .obj d := by
  intro e; subst e; simp [P.isObj] at h

theorem P.isObj_true {p : P} (h : p.isObj = true) : ∃ d, p = .obj d := by
  cases p <;> simp [P.isObj] at h
  exact ⟨_, rfl⟩

/-- every content recorded for path `p` is in the cache under its digest -/
def Backed (ctx : Ctx κ) (tracked : List (P × κ)) (fs : FS κ) (p : P) : Prop :=
  ∀ c, (p, c) ∈ tracked → ∃ m, fs.get (.obj (ctx.H c)) = some (.file c m)

/-- The discipline every mutating call of dud's cache operations follows. -/
def Allowed (ctx : Ctx κ) (tracked : List (P × κ)) (fs : FS κ) : Call κ → Prop
  | .mkdir p => p.isObj = false
  | .createExcl p => p.isObj = false
  | .symlink _ p => p.isObj = false
  | .createTrunc p => p.isObj = false ∧ Backed ctx tracked fs p
  | .writePart p => p.isObj = false ∧ Backed ctx tracked fs p
  | .write p _ => p.isObj = false ∧ Backed ctx tracked fs p
  | .unlink p => p.isObj = false ∧ Backed ctx tracked fs p
  | .chmod _ _ => True
  | .rename s d => s.isObj = false ∧
      ∀ e, fs.get s = some e →
        (∀ dd, d = .obj dd → ∃ c m, e = .file c m ∧ ctx.H c = dd) ∧
        (d.isObj = false → Backed ctx tracked fs s ∧ Backed ctx tracked fs d)

theorem backed_of_absent {ctx : Ctx κ} {tracked : List (P × κ)} {fs : FS κ} (hs : Safe ctx tracked fs)
    {p : P} (h : fs.get p = none) : Backed ctx tracked fs p := by
  intro c hc
  rcases hs.1 (p, c) hc with ⟨m, h1⟩ | ⟨d, m, h1, _⟩ | h3
  · simp [h] at h1
  · simp [h] at h1
  · exact h3

/-- a path holding the file `c` whose bytes are also in the cache is backed -/
theorem backed_of_file {ctx : Ctx κ} {tracked : List (P × κ)} {fs : FS κ} (hs : Safe ctx tracked fs)
    {p : P} {c : κ} {m m' : Nat} (h : fs.get p = some (.file c m))
    (ho : fs.get (.obj (ctx.H c)) = some (.file c m')) : Backed ctx tracked fs p := by
  intro c' hc
  rcases hs.1 (p, c') hc with ⟨m1, h1⟩ | ⟨d, m1, h1, _⟩ | h3
  · rw [h] at h1; cases h1; exact ⟨m', ho⟩
  · rw [h] at h1; cases h1
  · exact h3

/-- a path holding a link to an object is backed -/
theorem backed_of_link {ctx : Ctx κ} {tracked : List (P × κ)} {fs : FS κ} (hs : Safe ctx tracked fs)
    {p : P} {d : Digest} (h : fs.get p = some (.link (.obj d))) : Backed ctx tracked fs p := by
  intro c' hc
  rcases hs.1 (p, c') hc with ⟨m1, h1⟩ | ⟨d', m1, h1, h2⟩ | h3
  · rw [h] at h1; cases h1
  · obtain ⟨c2, m2, he, hd⟩ := hs.2 d' _ h2
    cases he
    exact ⟨m1, by rw [hd]; exact h2⟩
  · exact h3

/-- change confined to (at most) two non-object paths whose recorded contents are in the cache -/
theorem Safe.local2 {ctx : Ctx κ} {tracked : List (P × κ)} {fs fs' : FS κ} (hs : Safe ctx tracked fs)
    {p1 p2 : P} (h1 : p1.isObj = false) (h2 : p2.isObj = false)
    (b1 : Backed ctx tracked fs p1) (b2 : Backed ctx tracked fs p2)
    (hfr : ∀ q, q ≠ p1 → q ≠ p2 → fs'.get q = fs.get q) : Safe ctx tracked fs' := by
  have hobj : ∀ d, fs'.get (.obj d) = fs.get (.obj d) := fun d =>
    hfr _ (Ne.symm (P.isObj_false h1 d)) (Ne.symm (P.isObj_false h2 d))
  refine ⟨?_, ?_⟩
  · rintro ⟨w, c⟩ hwc
    by_cases hw1 : w = p1
    · subst hw1
      obtain ⟨m, hm⟩ := b1 c hwc
      exact Or.inr (Or.inr ⟨m, by rw [hobj]; exact hm⟩)
    by_cases hw2 : w = p2
    · subst hw2
      obtain ⟨m, hm⟩ := b2 c hwc
      exact Or.inr (Or.inr ⟨m, by rw [hobj]; exact hm⟩)
    have hw : fs'.get w = fs.get w := hfr w hw1 hw2
    rcases hs.1 (w, c) hwc with ⟨m, h⟩ | ⟨d, m, h, h'⟩ | ⟨m, h⟩
    · exact Or.inl ⟨m, by rw [hw]; exact h⟩
    · exact Or.inr (Or.inl ⟨d, m, by rw [hw]; exact h, by rw [hobj]; exact h'⟩)
    · exact Or.inr (Or.inr ⟨m, by rw [hobj]; exact h⟩)
  · intro d e he
    rw [hobj] at he
    exact hs.2 d e he

theorem Safe.local1 {ctx : Ctx κ} {tracked : List (P × κ)} {fs fs' : FS κ} (hs : Safe ctx tracked fs)
    {p : P} (h1 : p.isObj = false) (b1 : Backed ctx tracked fs p)
    (hfr : ∀ q, q ≠ p → fs'.get q = fs.get q) : Safe ctx tracked fs' :=
  hs.local2 h1 h1 b1 b1 (fun q hq _ => hfr q hq)

/-- only permission bits change -/
theorem Safe.sameContent {ctx : Ctx κ} {tracked : List (P × κ)} {fs fs' : FS κ}
    (hs : Safe ctx tracked fs)
    (h : ∀ q, fs'.get q = fs.get q ∨
      (∃ c m m', fs.get q = some (.file c m) ∧ fs'.get q = some (.file c m')) ∨
      (∃ m m', fs.get q = some (.torn m) ∧ fs'.get q = some (.torn m'))) :
    Safe ctx tracked fs' := by
  have hfile : ∀ q c m, fs.get q = some (.file c m) → ∃ m', fs'.get q = some (.file c m') := by
    intro q c m hq
    rcases h q with h | ⟨c', m1, m', h1, h2⟩ | ⟨m1, m', h1, _⟩
    · exact ⟨m, by rw [h]; exact hq⟩
    · rw [hq] at h1; cases h1; exact ⟨m', h2⟩
    · rw [hq] at h1; cases h1
  have hlink : ∀ q t, fs.get q = some (.link t) → fs'.get q = some (.link t) := by
    intro q t hq
    rcases h q with h | ⟨c', m1, m', h1, h2⟩ | ⟨m1, m', h1, _⟩
    · rw [h]; exact hq
    · rw [hq] at h1; cases h1
    · rw [hq] at h1; cases h1
  refine ⟨?_, ?_⟩
  · rintro ⟨w, c⟩ hwc
    rcases hs.1 (w, c) hwc with ⟨m, h1⟩ | ⟨d, m, h1, h2⟩ | ⟨m, h1⟩
    · obtain ⟨m', hm'⟩ := hfile _ _ _ h1
      exact Or.inl ⟨m', hm'⟩
    · obtain ⟨m', hm'⟩ := hfile _ _ _ h2
      exact Or.inr (Or.inl ⟨d, m', hlink _ _ h1, hm'⟩)
    · obtain ⟨m', hm'⟩ := hfile _ _ _ h1
      exact Or.inr (Or.inr ⟨m', hm'⟩)
  · intro d e he
    rcases h (.obj d) with h | ⟨c', m1, m', h1, h2⟩ | ⟨m1, m', h1, _⟩
    · rw [h] at he; exact hs.2 d e he
    · obtain ⟨c2, m2, he2, hd⟩ := hs.2 d _ h1
      cases he2
      rw [h2] at he; cases he
      exact ⟨c', m', rfl, hd⟩
    · obtain ⟨c2, m2, he2, _⟩ := hs.2 d _ h1
      cases he2

/-- moving a complete file onto the name of its digest -/
theorem Safe.renameObj {ctx : Ctx κ} (g : Good ctx) {tracked : List (P × κ)} {fs fs' : FS κ}
    (hs : Safe ctx tracked fs) {s : P} (hsobj : s.isObj = false) {c : κ} {m : Nat}
    (hget : fs.get s = some (.file c m))
    (hfs' : ∀ q, fs'.get q = if P.obj (ctx.H c) = q then some (.file c m)
      else if s = q then none else fs.get q) : Safe ctx tracked fs' := by
  have hso : ∀ d, s ≠ .obj d := P.isObj_false hsobj
  -- an object holding `c'` before still holds `c'`
  have hobj : ∀ d c' m', fs.get (.obj d) = some (.file c' m') →
      ∃ m'', fs'.get (.obj d) = some (.file c' m'') := by
    intro d c' m' hd
    obtain ⟨c2, m2, he2, hH⟩ := hs.2 d _ hd
    cases he2
    rw [hfs']
    by_cases hdd : P.obj (ctx.H c) = P.obj d
    · have : ctx.H c = d := by simpa using hdd
      have hcc : c' = c := g.inj _ _ (hH.trans this.symm)
      subst hcc
      exact ⟨m, by simp [hdd]⟩
    · exact ⟨m', by simp [hdd, hso d, hd]⟩
  have hnew : fs'.get (.obj (ctx.H c)) = some (.file c m) := by rw [hfs']; simp
  refine ⟨?_, ?_⟩
  · rintro ⟨w, c'⟩ hwc
    rcases hs.1 (w, c') hwc with ⟨m1, h1⟩ | ⟨d, m1, h1, h2⟩ | ⟨m1, h1⟩
    · by_cases hws : w = s
      · subst hws
        rw [hget] at h1; cases h1
        exact Or.inr (Or.inr ⟨m, hnew⟩)
      · by_cases hwo : P.obj (ctx.H c) = w
        · subst hwo
          obtain ⟨m2, h2⟩ := hobj _ _ _ h1
          exact Or.inl ⟨m2, h2⟩
        · refine Or.inl ⟨m1, ?_⟩
          rw [hfs']; simp [hwo, Ne.symm hws, h1]
    · obtain ⟨m2, h2'⟩ := hobj _ _ _ h2
      have hws : s ≠ w := by
        intro e; subst e; rw [hget] at h1; cases h1
      have hwo : P.obj (ctx.H c) ≠ w := by
        intro e; subst e
        obtain ⟨c2, m3, he2, _⟩ := hs.2 _ _ h1
        cases he2
      refine Or.inr (Or.inl ⟨d, m2, ?_, h2'⟩)
      rw [hfs']; simp [hwo, hws, h1]
    · obtain ⟨m2, h2⟩ := hobj _ _ _ h1
      exact Or.inr (Or.inr ⟨m2, h2⟩)
  · intro d e he
    rw [hfs'] at he
    by_cases hdd : P.obj (ctx.H c) = P.obj d
    · simp only [hdd, if_true] at he
      cases he
      exact ⟨c, m, rfl, by simpa using hdd⟩
    · simp only [hdd, if_false, hso d] at he
      exact hs.2 d e he

/-- **Preservation.** An allowed call keeps the file system safe. -/
theorem Safe.apply {ctx : Ctx κ} (g : Good ctx) {tracked : List (P × κ)} {fs : FS κ}
    (emp : κ) (hs : Safe ctx tracked fs) {c : Call κ} (ha : Allowed ctx tracked fs c) :
    Safe ctx tracked (apply emp fs c) := by
  cases c with
  | mkdir p =>
    simp only [Allowed] at ha
    simp only [Sys.apply]
    cases hg : fs.get p with
    | some _ => exact hs
    | none =>
      exact hs.local1 ha (backed_of_absent hs hg) (fun q hq => by simp [FS.get_set, Ne.symm hq])
  | createExcl p =>
    simp only [Allowed] at ha
    simp only [Sys.apply]
    cases hg : fs.get p with
    | some _ => exact hs
    | none =>
      exact hs.local1 ha (backed_of_absent hs hg) (fun q hq => by simp [FS.get_set, Ne.symm hq])
  | symlink t p =>
    simp only [Allowed] at ha
    simp only [Sys.apply]
    cases hg : fs.get p with
    | some _ => exact hs
    | none =>
      exact hs.local1 ha (backed_of_absent hs hg) (fun q hq => by simp [FS.get_set, Ne.symm hq])
  | createTrunc p =>
    simp only [Allowed] at ha
    simp only [Sys.apply]
    exact hs.local1 ha.1 ha.2 (fun q hq => by simp [FS.get_set, Ne.symm hq])
  | unlink p =>
    simp only [Allowed] at ha
    simp only [Sys.apply]
    exact hs.local1 ha.1 ha.2 (fun q hq => by simp [FS.get_del, Ne.symm hq])
  | writePart p =>
    simp only [Allowed] at ha
    simp only [Sys.apply]
    split
    · exact hs.local1 ha.1 ha.2 (fun q hq => by simp [FS.get_set, Ne.symm hq])
    · exact hs.local1 ha.1 ha.2 (fun q hq => by simp [FS.get_set, Ne.symm hq])
    · exact hs
  | write p c =>
    simp only [Allowed] at ha
    simp only [Sys.apply]
    split
    · exact hs.local1 ha.1 ha.2 (fun q hq => by simp [FS.get_set, Ne.symm hq])
    · exact hs.local1 ha.1 ha.2 (fun q hq => by simp [FS.get_set, Ne.symm hq])
    · exact hs
  | chmod p m =>
    simp only [Sys.apply]
    split
    · next c m0 hg =>
      refine hs.sameContent (fun q => ?_)
      by_cases hq : p = q
      · subst hq; exact Or.inr (Or.inl ⟨c, m0, m, hg, by simp [FS.get_set]⟩)
      · exact Or.inl (by simp [FS.get_set, hq])
    · next m0 hg =>
      refine hs.sameContent (fun q => ?_)
      by_cases hq : p = q
      · subst hq; exact Or.inr (Or.inr ⟨m0, m, hg, by simp [FS.get_set]⟩)
      · exact Or.inl (by simp [FS.get_set, hq])
    · exact hs
  | rename s d =>
    simp only [Allowed] at ha
    obtain ⟨hsobj, ha⟩ := ha
    simp only [Sys.apply]
    cases hg : fs.get s with
    | none => exact hs
    | some e =>
      obtain ⟨ha1, ha2⟩ := ha e hg
      cases hdo : d.isObj with
      | true =>
        obtain ⟨dd, rfl⟩ := P.isObj_true hdo
        obtain ⟨c, m, rfl, hH⟩ := ha1 dd rfl
        subst hH
        exact hs.renameObj g hsobj hg (fun q => by simp [FS.get_set, FS.get_del])
      | false =>
        obtain ⟨b1, b2⟩ := ha2 hdo
        exact hs.local2 hsobj hdo b1 b2
          (fun q h1 h2 => by simp [FS.get_set, FS.get_del, Ne.symm h1, Ne.symm h2])

/-! ## prefix safety -/

/-- the state after every prefix of the trace (a crash after the k-th call) is safe -/
def PrefixSafe (ctx : Ctx κ) (emp : κ) (tracked : List (P × κ)) (fs : FS κ)
    (calls : List (Call κ)) : Prop :=
  ∀ k, Safe ctx tracked (replay emp fs (calls.take k))

theorem PrefixSafe.nil {ctx : Ctx κ} {emp : κ} {tracked : List (P × κ)} {fs : FS κ}
    (hs : Safe ctx tracked fs) : PrefixSafe ctx emp tracked fs [] := by
  intro k; simpa [replay] using hs

theorem PrefixSafe.cons {ctx : Ctx κ} {emp : κ} {tracked : List (P × κ)} {fs : FS κ}
    {c : Call κ} {cs : List (Call κ)} (hs : Safe ctx tracked fs)
    (h : PrefixSafe ctx emp tracked (apply emp fs c) cs) : PrefixSafe ctx emp tracked fs (c :: cs) := by
  intro k
  cases k with
  | zero => simpa [replay] using hs
  | succ k => simpa [replay_cons] using h k

theorem PrefixSafe.start {ctx : Ctx κ} {emp : κ} {tracked : List (P × κ)} {fs : FS κ}
    {calls : List (Call κ)} (h : PrefixSafe ctx emp tracked fs calls) : Safe ctx tracked fs := by
  simpa [replay] using h 0

theorem PrefixSafe.final {ctx : Ctx κ} {emp : κ} {tracked : List (P × κ)} {fs : FS κ}
    {calls : List (Call κ)} (h : PrefixSafe ctx emp tracked fs calls) :
    Safe ctx tracked (replay emp fs calls) := by
  simpa using h calls.length

theorem PrefixSafe.append {ctx : Ctx κ} {emp : κ} {tracked : List (P × κ)} {fs : FS κ}
    {l1 l2 : List (Call κ)} (h1 : PrefixSafe ctx emp tracked fs l1)
    (h2 : PrefixSafe ctx emp tracked (replay emp fs l1) l2) :
    PrefixSafe ctx emp tracked fs (l1 ++ l2) := by
  intro k
  rw [List.take_append, replay_append]
  by_cases hk : k ≤ l1.length
  · have : k - l1.length = 0 := by omega
    simpa [this, replay] using h1 k
  · have : l1.take k = l1 := List.take_of_length_le (by omega)
    rw [this]
    exact h2 _

/-- a trace all of whose calls are allowed in the state they are issued in -/
def AllowedTrace (ctx : Ctx κ) (emp : κ) (tracked : List (P × κ)) : FS κ → List (Call κ) → Prop
  | _, [] => True
  | fs, c :: cs => Allowed ctx tracked fs c ∧ AllowedTrace ctx emp tracked (apply emp fs c) cs

/-- **Compositional lemma.** Allowed traces are prefix-safe. -/
theorem AllowedTrace.prefixSafe {ctx : Ctx κ} (g : Good ctx) {emp : κ} {tracked : List (P × κ)} :
    ∀ {fs : FS κ} {calls : List (Call κ)}, Safe ctx tracked fs →
      AllowedTrace ctx emp tracked fs calls → PrefixSafe ctx emp tracked fs calls
  | _, [], hs, _ => PrefixSafe.nil hs
  | _, _ :: _, hs, ha => PrefixSafe.cons hs (AllowedTrace.prefixSafe g (hs.apply g emp ha.1) ha.2)

theorem AllowedTrace.append {ctx : Ctx κ} {emp : κ} {tracked : List (P × κ)} :
    ∀ {fs : FS κ} {l1 l2 : List (Call κ)}, AllowedTrace ctx emp tracked fs l1 →
      AllowedTrace ctx emp tracked (replay emp fs l1) l2 → AllowedTrace ctx emp tracked fs (l1 ++ l2)
  | _, [], _, _, h2 => h2
  | _, _ :: _, _, h1, h2 => ⟨h1.1, AllowedTrace.append h1.2 h2⟩


/-! ## effect of single calls on the path they act on -/

theorem get_createExcl_self {emp : κ} {fs : FS κ} {p : P} (h : fs.get p = none) :
    (apply emp fs (.createExcl p)).get p = some (.file emp 0o600) := by
  simp [apply, h, FS.get_set]

theorem get_writePart_self {emp : κ} {fs : FS κ} {p : P} {c : κ} {m : Nat}
    (h : fs.get p = some (.file c m)) : (apply emp fs (.writePart p)).get p = some (.torn m) := by
  simp [apply, h, FS.get_set]

theorem get_write_self_torn {emp : κ} {fs : FS κ} {p : P} {m : Nat} (c : κ)
    (h : fs.get p = some (.torn m)) : (apply emp fs (.write p c)).get p = some (.file c m) := by
  simp [apply, h, FS.get_set]

theorem get_rename_dst {emp : κ} {fs : FS κ} {s d : P} {e : Entry κ} (h : fs.get s = some e) :
    (apply emp fs (.rename s d)).get d = some e := by
  simp [apply, h, FS.get_set]

theorem get_rename_src {emp : κ} {fs : FS κ} {s d : P} (hne : s ≠ d) :
    (apply emp fs (.rename s d)).get s = none := by
  simp only [apply]
  cases h : fs.get s with
  | none => exact h
  | some e => simp [FS.get_set, FS.get_del, Ne.symm hne]

theorem get_chmod_self_file {emp : κ} {fs : FS κ} {p : P} {c : κ} {m0 : Nat} (m : Nat)
    (h : fs.get p = some (.file c m0)) : (apply emp fs (.chmod p m)).get p = some (.file c m) := by
  simp [apply, h, FS.get_set]

theorem get_unlink_self {emp : κ} {fs : FS κ} {p : P} :
    (apply emp fs (.unlink p)).get p = none := by
  simp [apply, FS.get_del]

theorem get_symlink_self {emp : κ} {fs : FS κ} {t p : P} (h : fs.get p = none) :
    (apply emp fs (.symlink t p)).get p = some (.link t) := by
  simp [apply, h, FS.get_set]

/-! ## Hoare-style specification of a trace: all calls allowed, and a post-condition -/

def Spec (ctx : Ctx κ) (emp : κ) (tracked : List (P × κ)) (fs : FS κ) (calls : List (Call κ))
    (Q : FS κ → Prop) : Prop :=
  AllowedTrace ctx emp tracked fs calls ∧ Q (replay emp fs calls)

theorem Spec.nil {ctx : Ctx κ} {emp : κ} {tracked : List (P × κ)} {fs : FS κ} {Q : FS κ → Prop}
    (h : Q fs) : Spec ctx emp tracked fs [] Q := ⟨trivial, h⟩

theorem Spec.cons {ctx : Ctx κ} {emp : κ} {tracked : List (P × κ)} {fs : FS κ} {Q : FS κ → Prop}
    {c : Call κ} {cs : List (Call κ)} (ha : Allowed ctx tracked fs c)
    (h : ∀ fs1, fs1 = apply emp fs c → Spec ctx emp tracked fs1 cs Q) :
    Spec ctx emp tracked fs (c :: cs) Q :=
  ⟨⟨ha, (h _ rfl).1⟩, (h _ rfl).2⟩

theorem Spec.append {ctx : Ctx κ} {emp : κ} {tracked : List (P × κ)} {fs : FS κ} {Q : FS κ → Prop}
    {l1 l2 : List (Call κ)}
    (h : Spec ctx emp tracked fs l1 (fun fs1 => Spec ctx emp tracked fs1 l2 Q)) :
    Spec ctx emp tracked fs (l1 ++ l2) Q :=
  ⟨AllowedTrace.append h.1 h.2.1, by rw [replay_append]; exact h.2.2⟩

theorem Spec.mono {ctx : Ctx κ} {emp : κ} {tracked : List (P × κ)} {fs : FS κ} {Q Q' : FS κ → Prop}
    {l : List (Call κ)} (h : Spec ctx emp tracked fs l Q) (hq : ∀ fs', Q fs' → Q' fs') :
    Spec ctx emp tracked fs l Q' := ⟨h.1, hq _ h.2⟩

/-- the recorded paths are workspace paths -/
def TrackedWs (tracked : List (P × κ)) : Prop := ∀ p ∈ tracked, ∃ q, p.1 = .ws q

theorem backed_of_notWs {ctx : Ctx κ} {tracked : List (P × κ)} (htw : TrackedWs tracked) (fs : FS κ)
    {p : P} (hp : ∀ q, p ≠ .ws q) : Backed ctx tracked fs p := by
  intro c hc
  obtain ⟨q, hq⟩ := htw _ hc
  exact absurd hq (hp q)

theorem copyIntoCache_spec {ctx : Ctx κ} {tracked : List (P × κ)} (htw : TrackedWs tracked)
    {emp : κ} {isEmp : κ → Bool} (hemp : ∀ c, isEmp c = true → c = emp)
    {fs : FS κ} {n : Nat} (hfresh : fs.get (.ctmp n) = none) (c : κ) :
    Spec ctx emp tracked fs (copyIntoCache isEmp n c (ctx.H c))
      (fun fs' => fs'.get (.obj (ctx.H c)) = some (.file c 0o444)) := by
  have hb : ∀ fs' : FS κ, Backed ctx tracked fs' (.ctmp n) := fun fs' =>
    backed_of_notWs htw fs' (by intro q; simp)
  -- the tail common to both variants, from a state where the temp file is complete
  have tail : ∀ fs3 : FS κ, fs3.get (.ctmp n) = some (.file c 0o600) →
      Spec ctx emp tracked fs3
        [.mkdir (.shard (shardOf (ctx.H c))), .rename (.ctmp n) (.obj (ctx.H c)),
         .chmod (.obj (ctx.H c)) 0o444]
        (fun fs' => fs'.get (.obj (ctx.H c)) = some (.file c 0o444)) := by
    intro fs3 h3
    refine Spec.cons (by simp [Allowed, P.isObj]) (fun fs4 e4 => ?_)
    have h4 : fs4.get (.ctmp n) = some (.file c 0o600) := by
      rw [e4, apply_get_frame _ _ _ _ (by simp [callWrites, callPaths])]; exact h3
    refine Spec.cons ?_ (fun fs5 e5 => ?_)
    · refine ⟨rfl, fun e he => ⟨fun dd hdd => ?_, fun hno => by simp [P.isObj] at hno⟩⟩
      rw [h4] at he; cases he
      exact ⟨c, _, rfl, by simpa using hdd⟩
    have h5 : fs5.get (.obj (ctx.H c)) = some (.file c 0o600) := by
      rw [e5]; exact get_rename_dst h4
    refine Spec.cons trivial (fun fs6 e6 => Spec.nil ?_)
    rw [e6]; exact get_chmod_self_file _ h5
  have h1 : (apply emp fs (.createExcl (.ctmp n))).get (.ctmp n) = some (.file emp 0o600) :=
    get_createExcl_self hfresh
  unfold copyIntoCache
  cases he : isEmp c with
  | true =>
    have hc := hemp c he
    subst hc
    refine Spec.cons (by simp [Allowed, P.isObj]) (fun fs1 e1 => ?_)
    subst e1
    exact tail _ h1
  | false =>
    refine Spec.cons (by simp [Allowed, P.isObj]) (fun fs1 e1 => ?_)
    subst e1
    refine Spec.cons ⟨rfl, hb _⟩ (fun fs2 e2 => ?_)
    have h2 := get_writePart_self (emp := emp) h1
    rw [← e2] at h2
    refine Spec.cons ⟨rfl, hb _⟩ (fun fs3 e3 => ?_)
    have h3 := get_write_self_torn (emp := emp) c h2
    rw [← e3] at h3
    exact tail _ h3

/-- paths mentioned by `copyIntoCache` -/
theorem copyIntoCache_paths (isEmp : κ → Bool) (n : Nat) (c : κ) (d : Digest) :
    ∀ call ∈ copyIntoCache isEmp n c d, ∀ p ∈ callPaths call,
      p = .ctmp n ∨ p = .shard (shardOf d) ∨ p = .obj d := by
  intro call hcall p hp
  unfold copyIntoCache at hcall
  cases he : isEmp c <;> simp [he] at hcall <;>
    rcases hcall with rfl | rfl | rfl | rfl | rfl | rfl <;> simp only [callPaths] at hp <;> grind

theorem commitFileCalls_paths (isEmp : κ → Bool) (strat : Strat) (canRename : Bool) (w : P) (n : Nat)
    (c : κ) (d : Digest) :
    ∀ call ∈ commitFileCalls isEmp strat canRename w n c d, ∀ p ∈ callPaths call,
      p = w ∨ ((strat = .link ∧ canRename = true → False) ∧ p = .ctmp n) ∨
        p = .shard (shardOf d) ∨ p = .obj d := by
  intro call hcall p hp
  cases strat <;> cases canRename <;> simp only [commitFileCalls, List.mem_append] at hcall
  · rcases hcall with h | h
    · rcases copyIntoCache_paths isEmp n c d call h p hp with h | h | h <;> simp [h]
    · simp at h; rcases h with rfl | rfl <;> simp only [callPaths] at hp <;> grind
  · simp at hcall
    rcases hcall with rfl | rfl | rfl | rfl <;> simp only [callPaths] at hp <;> grind
  · rcases copyIntoCache_paths isEmp n c d call hcall p hp with h | h | h <;> simp [h]
  · rcases copyIntoCache_paths isEmp n c d call hcall p hp with h | h | h <;> simp [h]

/-- `commitFileArtifact` on a regular file at any path that is neither an object nor a shard
directory: every call is allowed, and afterwards the bytes are in the cache under their digest. -/
theorem commitFileCalls_spec_gen {ctx : Ctx κ} (g : Good ctx) {tracked : List (P × κ)}
    (htw : TrackedWs tracked) {emp : κ} {isEmp : κ → Bool} (hemp : ∀ c, isEmp c = true → c = emp)
    {fs : FS κ} (hs : Safe ctx tracked fs) {w : P} (hwo : w.isObj = false)
    (hwsh : ∀ h, w ≠ .shard h) {c : κ} {m : Nat}
    (hw : fs.get w = some (.file c m)) {n : Nat} (hfresh : fs.get (.ctmp n) = none)
    (strat : Strat) (canRename : Bool) :
    Spec ctx emp tracked fs (commitFileCalls isEmp strat canRename w n c (ctx.H c))
      (fun fs' => fs'.get (.obj (ctx.H c)) = some (.file c 0o444)) := by
  have hcic := copyIntoCache_spec (ctx := ctx) htw hemp hfresh c
  have hwobj : ∀ d, w ≠ .obj d := P.isObj_false hwo
  have hwtmp : w ≠ .ctmp n := by
    intro h; rw [h, hfresh] at hw; cases hw
  cases strat with
  | copy => cases canRename <;> exact hcic
  | link =>
    cases canRename with
    | false =>
      simp only [commitFileCalls]
      refine Spec.append ⟨hcic.1, ?_⟩
      have hs1 : Safe ctx tracked (replay emp fs (copyIntoCache isEmp n c (ctx.H c))) :=
        (hcic.1.prefixSafe g hs).final
      have hw1 : (replay emp fs (copyIntoCache isEmp n c (ctx.H c))).get w
          = some (.file c m) := by
        rw [replay_get_frame]
        · exact hw
        · intro call hcall hmem
          rcases copyIntoCache_paths isEmp n c (ctx.H c) call hcall _ (callWrites_sub _ _ hmem)
            with h | h | h
          · exact hwtmp h
          · exact hwsh _ h
          · exact hwobj _ h
      have ho1 := hcic.2
      generalize replay emp fs (copyIntoCache isEmp n c (ctx.H c)) = fs1 at hs1 hw1 ho1
      refine Spec.cons ⟨hwo, backed_of_file hs1 hw1 ho1⟩ (fun fs2 e2 => ?_)
      have ho2 : fs2.get (.obj (ctx.H c)) = some (.file c 0o444) := by
        rw [e2, apply_get_frame _ _ _ _ (by
          simp [callWrites, callPaths]; exact Ne.symm (hwobj _))]; exact ho1
      refine Spec.cons hwo (fun fs3 e3 => Spec.nil ?_)
      rw [e3, apply_get_frame _ _ _ _ (by simp [callWrites]; exact Ne.symm (hwobj _))]; exact ho2
    | true =>
      simp only [commitFileCalls]
      refine Spec.cons (by simp [Allowed, P.isObj]) (fun fs1 e1 => ?_)
      have h1 : fs1.get w = some (.file c m) := by
        rw [e1, apply_get_frame _ _ _ _ (by simp [callWrites, callPaths]; exact hwsh _)]; exact hw
      refine Spec.cons ?_ (fun fs2 e2 => ?_)
      · refine ⟨hwo, fun e he => ⟨fun dd hdd => ?_, fun hno => by simp [P.isObj] at hno⟩⟩
        rw [h1] at he; cases he
        exact ⟨c, _, rfl, by simpa using hdd⟩
      have h2 : fs2.get (.obj (ctx.H c)) = some (.file c m) := by
        rw [e2]; exact get_rename_dst h1
      refine Spec.cons trivial (fun fs3 e3 => ?_)
      have h3 : fs3.get (.obj (ctx.H c)) = some (.file c 0o444) := by
        rw [e3]; exact get_chmod_self_file _ h2
      refine Spec.cons hwo (fun fs4 e4 => Spec.nil ?_)
      rw [e4, apply_get_frame _ _ _ _ (by simp [callWrites]; exact Ne.symm (hwobj _))]; exact h3

/-- `commitFileArtifact` on a regular workspace file: every call is allowed, and afterwards the
bytes are in the cache under their digest. -/
theorem commitFileCalls_spec {ctx : Ctx κ} (g : Good ctx) {tracked : List (P × κ)}
    (htw : TrackedWs tracked) {emp : κ} {isEmp : κ → Bool} (hemp : ∀ c, isEmp c = true → c = emp)
    {fs : FS κ} (hs : Safe ctx tracked fs) {q : List Name} {c : κ} {m : Nat}
    (hw : fs.get (.ws q) = some (.file c m)) {n : Nat} (hfresh : fs.get (.ctmp n) = none)
    (strat : Strat) (canRename : Bool) :
    Spec ctx emp tracked fs (commitFileCalls isEmp strat canRename (.ws q) n c (ctx.H c))
      (fun fs' => fs'.get (.obj (ctx.H c)) = some (.file c 0o444)) :=
  commitFileCalls_spec_gen g htw hemp hs rfl (by simp) hw hfresh strat canRename
end Dud.Sys
