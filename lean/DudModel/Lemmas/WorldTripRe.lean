import DudModel.Props.C01world
import DudModel.Props.C16
/-!
# Re-commit of a tree that may contain links into the cache, on top of any recorded checksum

`Props/C01.lean` commits a plain tree with a fresh child artifact; `Props/C16.lean`
(`recommit_post`) a plain tree on top of a compatible old manifest.  The second `dud commit` of a
project meets neither hypothesis: after a link commit the workspace is full of links into the
cache, and the stage file records the checksum of the previous version.  This file proves the
common generalisation:

* `ReadableNode` / `RecommitOK`: the old manifests the recommit reuses are readable — in every
  consistent cache that extends the current one (the cache grows while the entries are committed);
  sufficient: no checksum (`.empty`), `CompatNode` (`.of_compat`), the checksum of some older version
  of the tree, in the cache or not (`.of_digestAs`, `.of_treeDigest`), the hash of nothing
  (`.of_never`);
* `recommitNodeL_post` / `recommitEntriesL_post`: `commitNode` on a tree whose links all resolve
  (`(deref ctx s t).plain`), on top of any such checksum, records `treeDigest` of the logical content
  `deref ctx s t`, keeps the logical content, and the new cache holds that content;
* `commitEntries_noRecL`: `DisableRecursion`;
* world level (`Dud.Re`): `commitArts` / `commitAct` / the commit traversal with a precondition
  that depends on the cache and is monotone in it.
-/
namespace Dud.Re

variable {κ : Type}

/-! ## `deref` keeps kind, names, order and depth -/

theorem deref_isDir (ctx : Ctx κ) (s : Store κ) : ∀ (n : Node κ), (deref ctx s n).isDir = n.isDir
  | .file _ => rfl
  | .dir _ => by simp [deref, Node.isDir]
  | .link (.obj d) => by
    simp only [deref]
    cases s.get d <;> rfl
  | .link (.foreign _) => rfl
  | .other => rfl

theorem headName_derefList (ctx : Ctx κ) (s : Store κ) : ∀ (es : List (Name × Node κ)),
    headName (derefList ctx s es) = headName es
  | [] => rfl
  | (_, _) :: _ => by simp [derefList, headName]

mutual
theorem sorted_deref (ctx : Ctx κ) (s : Store κ) : ∀ (n : Node κ), n.sorted = true →
    (deref ctx s n).sorted = true
  | .file _, _ => by simp [deref, Node.sorted]
  | .dir es, h => by
    simp only [deref, Node.sorted] at h ⊢
    exact sortedList_derefList ctx s es h
  | .link (.obj d), _ => by
    simp only [deref]
    cases s.get d <;> simp [Node.sorted]
  | .link (.foreign _), _ => by simp [deref, Node.sorted]
  | .other, _ => by simp [deref, Node.sorted]
theorem sortedList_derefList (ctx : Ctx κ) (s : Store κ) : ∀ (es : List (Name × Node κ)),
    sortedList es = true → sortedList (derefList ctx s es) = true
  | [], _ => by simp [derefList, sortedList]
  | (nm, n) :: r, h => by
    simp only [sortedList, Bool.and_eq_true] at h
    simp only [derefList, sortedList, Bool.and_eq_true, headName_derefList]
    exact ⟨⟨sorted_deref ctx s n h.1.1, sortedList_derefList ctx s r h.1.2⟩, h.2⟩
end

mutual
theorem allNames_deref (ctx : Ctx κ) (s : Store κ) : ∀ (n : Node κ),
    allNames (deref ctx s n) = allNames n
  | .file _ => rfl
  | .dir es => by
    simp only [deref, allNames]
    exact allNamesList_derefList ctx s es
  | .link (.obj d) => by
    simp only [deref]
    cases s.get d <;> rfl
  | .link (.foreign _) => rfl
  | .other => rfl
theorem allNamesList_derefList (ctx : Ctx κ) (s : Store κ) : ∀ (es : List (Name × Node κ)),
    allNamesList (derefList ctx s es) = allNamesList es
  | [] => rfl
  | (nm, n) :: r => by
    simp only [derefList, allNamesList]
    rw [allNames_deref ctx s n, allNamesList_derefList ctx s r]
end

theorem namesOK_deref {ctx : Ctx κ} (s : Store κ) {n : Node κ} (h : NamesOK ctx n) :
    NamesOK ctx (deref ctx s n) := fun x hx => h x (by rwa [allNames_deref] at hx)

mutual
theorem depth_deref (ctx : Ctx κ) (s : Store κ) : ∀ (n : Node κ), depth (deref ctx s n) = depth n
  | .file _ => rfl
  | .dir es => by
    simp only [deref, depth]
    rw [depthList_derefList ctx s es]
  | .link (.obj d) => by
    simp only [deref]
    cases s.get d <;> rfl
  | .link (.foreign _) => rfl
  | .other => rfl
theorem depthList_derefList (ctx : Ctx κ) (s : Store κ) : ∀ (es : List (Name × Node κ)),
    depthList (derefList ctx s es) = depthList es
  | [] => rfl
  | (nm, n) :: r => by
    simp only [derefList, depthList]
    rw [depth_deref ctx s n, depthList_derefList ctx s r]
end

theorem dropSubdirs_derefList (ctx : Ctx κ) (s : Store κ) : ∀ (es : List (Name × Node κ)),
    dropSubdirs (derefList ctx s es) = derefList ctx s (dropSubdirs es)
  | [] => rfl
  | (nm, n) :: r => by
    have ih := dropSubdirs_derefList ctx s r
    simp only [dropSubdirs] at ih ⊢
    simp only [derefList, List.filter_cons, deref_isDir]
    cases n.isDir <;> simp [derefList, ih]

/-- the tracked part of the logical content is the logical content of the tracked part -/
theorem trackedOf_deref (ctx : Ctx κ) (s : Store κ) (a : Art) (n : Node κ) :
    trackedOf a (deref ctx s n) = deref ctx s (trackedOf a n) := by
  cases n with
  | file _ => rfl
  | dir es =>
    simp only [deref, trackedOf]
    split
    · simp [deref, dropSubdirs_derefList]
    · simp [deref]
  | link l =>
    cases l with
    | obj d =>
      simp only [deref, trackedOf]
      cases s.get d <;> rfl
    | foreign _ => rfl
  | other => rfl

/-- every link of a listing whose logical content is plain resolves, also in the filtered listing -/
theorem plainList_derefList_filter (ctx : Ctx κ) (s : Store κ) (p : Name × Node κ → Bool) :
    ∀ (es : List (Name × Node κ)), plainList (derefList ctx s es) = true →
      plainList (derefList ctx s (es.filter p)) = true
  | [], _ => by simp [derefList, plainList]
  | (nm, n) :: r, h => by
    simp only [derefList, plainList, Bool.and_eq_true] at h
    simp only [List.filter_cons]
    split
    · simp only [derefList, plainList, Bool.and_eq_true]
      exact ⟨h.1, plainList_derefList_filter ctx s p r h.2⟩
    · exact plainList_derefList_filter ctx s p r h.2

theorem plain_trackedOf_deref (ctx : Ctx κ) (s : Store κ) (a : Art) (n : Node κ)
    (h : (deref ctx s n).plain = true) : (deref ctx s (trackedOf a n)).plain = true := by
  cases n with
  | dir es =>
    simp only [trackedOf]
    split
    · simp only [deref, Node.plain] at h ⊢
      exact plainList_derefList_filter ctx s _ es h
    · exact h
  | file _ => exact h
  | link _ => exact h
  | other => exact h

/-! ## the old manifests a recommit reads -/

mutual
/-- the old manifests that a commit of the tree, started from the recorded checksum `sum`, reads in
the cache `s` (the manifest of `sum` if it is in the cache; below it, the manifest recorded for an
entry whose kind still agrees) are readable (`oldManifest` succeeds).  Unlike `CompatNode` the
checksum need not be in the cache: then the commit starts from an empty manifest. -/
def ReadableNode (ctx : Ctx κ) (s : Store κ) : Node κ → Digest → Prop
  | .dir es, sum => ∃ old, oldManifest ctx s sum = .ok old ∧ ReadableList ctx s es old
  | .file _, _ => True
  | .link _, _ => True
  | .other, _ => True
def ReadableList (ctx : Ctx κ) (s : Store κ) : List (Name × Node κ) → List Child → Prop
  | [], _ => True
  | (nm, n) :: r, old =>
    (∀ k, findChild old nm = some k → k.isDir = n.isDir → ReadableNode ctx s n k.sum) ∧
      ReadableList ctx s r old
end

/-- **what a re-commit needs of the old state**: in every consistent cache extending `s` (the cache
grows while the entries are committed, and an object that appears under a recorded checksum is read
as the old manifest) the old manifests the commit reads are readable -/
def RecommitOK (ctx : Ctx κ) (s : Store κ) (t : Node κ) (sum : Digest) : Prop :=
  ∀ s', Store.le ctx s s' → Consistent ctx s' → ReadableNode ctx s' t sum

/-- the same for the entries of a directory and a fixed old manifest -/
def RecommitOKList (ctx : Ctx κ) (s : Store κ) (es : List (Name × Node κ)) (old : List Child) : Prop :=
  ∀ s', Store.le ctx s s' → Consistent ctx s' → ReadableList ctx s' es old

theorem readableList_nil (ctx : Ctx κ) (s : Store κ) : ∀ (es : List (Name × Node κ)),
    ReadableList ctx s es []
  | [] => by simp [ReadableList]
  | (nm, n) :: r => by
    simp only [ReadableList]
    exact ⟨fun k hk _ => by simp [findChild] at hk, readableList_nil ctx s r⟩

theorem readableNode_empty (ctx : Ctx κ) (s : Store κ) (t : Node κ) : ReadableNode ctx s t "" := by
  cases t with
  | dir es =>
    simp only [ReadableNode]
    exact ⟨[], oldManifest_empty ctx s, readableList_nil ctx s es⟩
  | file _ => simp [ReadableNode]
  | link _ => simp [ReadableNode]
  | other => simp [ReadableNode]

mutual
theorem readableNode_of_compat {ctx : Ctx κ} {s : Store κ} : ∀ (t : Node κ) (sum : Digest),
    CompatNode ctx s t sum → ReadableNode ctx s t sum
  | .dir es, sum, h => by
    simp only [CompatNode] at h
    simp only [ReadableNode]
    obtain ⟨_, old, hold, hcl⟩ := h
    exact ⟨old, hold, readableList_of_compat es old hcl⟩
  | .file _, _, _ => by simp [ReadableNode]
  | .link _, _, _ => by simp [ReadableNode]
  | .other, _, _ => by simp [ReadableNode]
theorem readableList_of_compat {ctx : Ctx κ} {s : Store κ} : ∀ (es : List (Name × Node κ))
    (old : List Child), CompatList ctx s es old → ReadableList ctx s es old
  | [], _, _ => by simp [ReadableList]
  | (nm, n) :: r, old, h => by
    simp only [CompatList] at h
    simp only [ReadableList]
    exact ⟨fun k hk hd => readableNode_of_compat n k.sum (h.1 k hk hd),
      readableList_of_compat r old h.2⟩
end

/-- a fresh artifact (no recorded checksum) -/
theorem RecommitOK.empty (ctx : Ctx κ) (s : Store κ) (t : Node κ) : RecommitOK ctx s t "" :=
  fun s' _ _ => readableNode_empty ctx s' t

/-- the recorded checksums are in the cache (or empty) and readable where they are reused:
`CompatNode`, the hypothesis of `recommit_post` -/
theorem RecommitOK.of_compat {ctx : Ctx κ} (g : Good ctx) {s : Store κ} {t : Node κ} {sum : Digest}
    (h : CompatNode ctx s t sum) : RecommitOK ctx s t sum :=
  fun _ hle _ => readableNode_of_compat t sum (CompatNode.mono g hle t sum h)

/-- the cache holds an older version `t1` of the tree (any edit since, entries may have changed
between file and directory), recorded under `sum` -/
theorem RecommitOK.of_holds {ctx : Ctx κ} (g : Good ctx) {s : Store κ} (t t1 : Node κ) (ch : Choice)
    (nm : Bytes) (hs1 : t1.sorted = true) (hn1 : NamesOK ctx t1) (hh : HoldsNode ctx s ch nm t1)
    (hd : t1.isDir = t.isDir) : RecommitOK ctx s t (digestAs ctx ch nm t1) :=
  RecommitOK.of_compat g (compatNode_any g t t1 ch nm hs1 hn1 hh hd)

/-- a recorded checksum that is the hash of no bytes at all (a mangled stage file) is never in a
consistent cache: the commit starts from an empty manifest -/
theorem RecommitOK.of_never {ctx : Ctx κ} {s : Store κ} (t : Node κ) {sum : Digest}
    (h : ∀ b, ctx.H b ≠ sum) : RecommitOK ctx s t sum := by
  intro s' _ hc
  cases t with
  | dir es =>
    simp only [ReadableNode]
    refine ⟨[], ?_, readableList_nil ctx s' es⟩
    have : s'.has sum = false := by
      cases hg : s'.get sum with
      | none => simp [Store.has, hg]
      | some o => exact absurd (hc sum o hg) (h _)
    simp [oldManifest, this]
  | file _ => simp [ReadableNode]
  | link _ => simp [ReadableNode]
  | other => simp [ReadableNode]

theorem RecommitOK.mono {ctx : Ctx κ} {s s1 : Store κ} {t : Node κ} {sum : Digest}
    (hle : Store.le ctx s s1) (h : RecommitOK ctx s t sum) : RecommitOK ctx s1 t sum :=
  fun s' hle' hc => h s' (Store.le_trans hle hle') hc

theorem RecommitOKList.mono {ctx : Ctx κ} {s s1 : Store κ} {es : List (Name × Node κ)}
    {old : List Child} (hle : Store.le ctx s s1) (h : RecommitOKList ctx s es old) :
    RecommitOKList ctx s1 es old :=
  fun s' hle' hc => h s' (Store.le_trans hle hle') hc

/-- for a file, a link, … there is no old manifest to read -/
theorem RecommitOK.of_not_dir (ctx : Ctx κ) (s : Store κ) {t : Node κ} (sum : Digest)
    (h : t.isDir = false) : RecommitOK ctx s t sum := by
  intro s' _ _
  cases t with
  | dir _ => simp [Node.isDir] at h
  | file _ => simp [ReadableNode]
  | link _ => simp [ReadableNode]
  | other => simp [ReadableNode]

/-- from the directory to its entries: the old manifest read now is the one read later -/
theorem RecommitOK.entries {ctx : Ctx κ} (g : Good ctx) {s : Store κ} {es : List (Name × Node κ)}
    {sum : Digest} (hc : Consistent ctx s) (h : RecommitOK ctx s (.dir es) sum) :
    ∃ old, oldManifest ctx s sum = .ok old ∧ RecommitOKList ctx s es old := by
  have h0 := h s (Store.le_refl _ _) hc
  simp only [ReadableNode] at h0
  obtain ⟨old, hold, _⟩ := h0
  refine ⟨old, hold, ?_⟩
  intro s' hle hc'
  have h1 := h s' hle hc'
  simp only [ReadableNode] at h1
  obtain ⟨old', hold', hl'⟩ := h1
  by_cases hp : hasSum sum = true ∧ s.has sum = true
  · rw [oldManifest_le g hle (fun _ => hp.2), hold] at hold'
    cases hold'
    exact hl'
  · have : old = [] := by
      have hb : (hasSum sum && s.has sum) = false := by
        cases h1 : hasSum sum <;> cases h2 : s.has sum <;> simp_all
      simp [oldManifest, hb] at hold
      exact hold
    subst this
    exact readableList_nil ctx s' es

/-- a sub-listing -/
theorem readableList_filter {ctx : Ctx κ} {s : Store κ} (p : Name × Node κ → Bool) :
    ∀ (es : List (Name × Node κ)) (old : List Child), ReadableList ctx s es old →
      ReadableList ctx s (es.filter p) old
  | [], _, _ => by simp [ReadableList]
  | (nm, n) :: r, old, h => by
    simp only [ReadableList] at h
    simp only [List.filter_cons]
    split
    · simp only [ReadableList]
      exact ⟨h.1, readableList_filter p r old h.2⟩
    · exact readableList_filter p r old h.2

/-- `RecommitOK` for the whole directory gives it for the part a non-recursive artifact tracks -/
theorem RecommitOK.trackedOf {ctx : Ctx κ} {s : Store κ} (a : Art) {n : Node κ} {sum : Digest}
    (h : RecommitOK ctx s n sum) : RecommitOK ctx s (trackedOf a n) sum := by
  cases n with
  | dir es =>
    simp only [Dud.trackedOf]
    split
    · intro s' hle hc
      have := h s' hle hc
      simp only [ReadableNode] at this ⊢
      obtain ⟨old, hold, hl⟩ := this
      exact ⟨old, hold, readableList_filter _ es old hl⟩
    · exact h
  | file _ => exact h
  | link _ => exact h
  | other => exact h

/-! ## the induction: commit of a tree with links on top of any readable old state -/

/-- Post-condition of `commitNode` for a tree whose links resolve in `s`, with a child artifact
recording any checksum for which `RecommitOK` holds. -/
def LNodePostR (ctx : Ctx κ) (t : Node κ) : Prop :=
  ∀ (c : Child) (s : Store κ) (strat : Strat), c.isDir = t.isDir → (deref ctx s t).plain = true →
    RecommitOK ctx s t c.sum → Consistent ctx s →
    ∃ t' s', commitNode ctx strat t c s =
        .ok (t', ⟨c.name, treeDigest ctx c.name (deref ctx s t), c.isDir⟩, s') ∧
      Consistent ctx s' ∧ Store.le ctx s s' ∧ HoldsNode ctx s' newChoice c.name (deref ctx s t) ∧
      deref ctx s' t' = deref ctx s t

def LEntriesPostR (ctx : Ctx κ) (es : List (Name × Node κ)) : Prop :=
  ∀ (old : List Child) (s : Store κ) (strat : Strat), plainList (derefList ctx s es) = true →
    RecommitOKList ctx s es old → Consistent ctx s →
    ∃ es' s', commitEntries ctx strat false es old s =
        .ok (es', childrenOf ctx (derefList ctx s es), s') ∧
      Consistent ctx s' ∧ Store.le ctx s s' ∧ HoldsList ctx s' newChoice (derefList ctx s es) ∧
      derefList ctx s' es' = derefList ctx s es

theorem lrfile_post {ctx : Ctx κ} (g : Good ctx) (x : κ) : LNodePostR ctx (.file x) := by
  intro c s strat hcd _ _ hc
  have hcd' : c.isDir = false := hcd
  have hq : (quick s c.sum (some (Node.file x))).cm = false := by simp [quick]
  have hle : Store.le ctx s (s.put (ctx.H x) (.blob x)) := Store.le_put g hc (.blob x)
  have hh : HoldsNode ctx (s.put (ctx.H x) (.blob x)) newChoice c.name (deref ctx s (.file x)) := by
    simp only [deref, HoldsNode]
    exact ⟨.blob x, Store.get_put_self _ _ _, rfl⟩
  cases strat with
  | link =>
    refine ⟨.link (.obj (ctx.H x)), s.put (ctx.H x) (.blob x), ?_, hc.put (.blob x), hle, hh, ?_⟩
    · simp [commitNode, commitFile, hq, hcd', treeDigest, deref]
    · simp [deref, Store.get_put_self, Obj.bytes]
  | copy =>
    refine ⟨.file x, s.put (ctx.H x) (.blob x), ?_, hc.put (.blob x), hle, hh, ?_⟩
    · simp [commitNode, commitFile, hq, hcd', treeDigest, deref]
    · simp [deref]

/-- a link that resolves to an object of the cache is committed already: the object's checksum is
recorded (whatever the child recorded before) -/
theorem lrlink_post {ctx : Ctx κ} (l : Link) : LNodePostR ctx (.link l) := by
  intro c s strat hcd hp _ hc
  have hcd' : c.isDir = false := hcd
  cases l with
  | foreign b => simp [deref, Node.plain] at hp
  | obj d =>
    cases hg : s.get d with
    | none => simp [deref, hg, Node.plain] at hp
    | some o =>
      have hdig : ctx.H (o.bytes ctx) = d := hc d o hg
      have hder : deref ctx s (.link (.obj d)) = .file (o.bytes ctx) := by simp [deref, hg]
      have hhas : s.has d = true := Store.has_of_get hg
      refine ⟨.link (.obj d), s, ?_, hc, Store.le_refl _ _, ?_, rfl⟩
      · rw [hder]
        simp only [commitNode, hcd', Bool.false_eq_true, if_false, commitFile, treeDigest, hdig]
        by_cases hcm : (quick s c.sum (some (Node.link (.obj d)))).cm = true
        · have hds : d = c.sum := by
            simp only [quick, Bool.and_eq_true, beq_iff_eq] at hcm
            exact hcm.2
          rw [hds] at hcm ⊢
          simp [hcm]
        · simp [hcm, hhas]
      · rw [hder]
        simp only [HoldsNode]
        exact ⟨o, by rw [hdig]; exact hg, rfl⟩

theorem lrnil_post (ctx : Ctx κ) : LEntriesPostR ctx [] := by
  intro old s strat _ _ hc
  exact ⟨[], s, by simp [commitEntries, childrenOf, derefList], hc, Store.le_refl _ _,
    by simp [HoldsList, derefList], by simp [derefList]⟩

theorem lrcons_post {ctx : Ctx κ} {nm : Name} {n : Node κ}
    {r : List (Name × Node κ)} (hnm : ctx.nameOK nm = true)
    (hn : LNodePostR ctx n) (hr : LEntriesPostR ctx r) : LEntriesPostR ctx ((nm, n) :: r) := by
  intro old s strat hp hok hc
  simp only [derefList, plainList, Bool.and_eq_true] at hp
  obtain ⟨hpn, hpr⟩ := hp
  obtain ⟨c, hcase, hceq⟩ := commitEntries_cons_eq ctx strat nm n r old s hnm
  have hcprops : c.name = nm ∧ c.isDir = n.isDir ∧ RecommitOK ctx s n c.sum := by
    rcases hcase with rfl | ⟨k, hf, hkd, rfl⟩
    · exact ⟨rfl, rfl, RecommitOK.empty ctx s n⟩
    · refine ⟨findChild_name hf, hkd, fun s' hle hc' => ?_⟩
      have := hok s' hle hc'
      simp only [ReadableList] at this
      exact this.1 c hf hkd
  obtain ⟨hcn, hcd, hcc⟩ := hcprops
  obtain ⟨n', s1, hcommit, hc1, hle1, hh1, hd1⟩ := hn c s strat hcd hpn hcc hc
  have hr1 : derefList ctx s1 r = derefList ctx s r := derefList_le ctx hle1 r hpr
  have hok1 : RecommitOKList ctx s1 r old := by
    intro s' hle hc'
    have := hok s' (Store.le_trans hle1 hle) hc'
    simp only [ReadableList] at this
    exact this.2
  obtain ⟨r', s2, hcr, hc2, hle2, hh2, hd2⟩ := hr old s1 strat (by rw [hr1]; exact hpr) hok1 hc1
  rw [hr1] at hcr hh2 hd2
  refine ⟨(nm, n') :: r', s2, ?_, hc2, Store.le_trans hle1 hle2, ?_, ?_⟩
  · rw [hceq]
    simp [hcommit, hcr, childrenOf, derefList, hcn, hcd, deref_isDir]
  · simp only [derefList, HoldsList]
    rw [hcn] at hh1
    exact ⟨HoldsNode.mono hle2 _ _ nm hh1, hh2⟩
  · have : deref ctx s2 n' = deref ctx s1 n' := deref_le ctx hle2 n' (by rw [hd1]; exact hpn)
    simp [derefList, this, hd1, hd2]

theorem lrdir_post {ctx : Ctx κ} (g : Good ctx) {es : List (Name × Node κ)}
    (he : LEntriesPostR ctx es) : LNodePostR ctx (.dir es) := by
  intro c s strat hcd hp hok hc
  have hcd' : c.isDir = true := hcd
  have hp' : plainList (derefList ctx s es) = true := by simpa [deref, Node.plain] using hp
  obtain ⟨old, hold, hokl⟩ := hok.entries g hc
  obtain ⟨es', s2, hce, hc2, hle2, hh2, hd2⟩ := he old s strat hp' hokl hc
  let m : Obj κ := .man .new c.name (sortChildren (childrenOf ctx (derefList ctx s es)))
  have hlep : Store.le ctx s2 (s2.put (m.digest ctx) m) := Store.le_put g hc2 m
  refine ⟨.dir es', s2.put (m.digest ctx) m, ?_, hc2.put m, Store.le_trans hle2 hlep, ?_, ?_⟩
  · simp [commitNode, hcd', hold, hce, treeDigest, deref, m]
  · simp only [deref, HoldsNode, digestAs_new, childrenAs_new]
    refine ⟨⟨m, ?_, rfl⟩, HoldsList.mono hlep _ _ hh2⟩
    simp only [treeDigest]
    exact Store.get_put_self _ _ _
  · have : derefList ctx (s2.put (m.digest ctx) m) es' = derefList ctx s2 es' :=
      derefList_le ctx hlep es' (by rw [hd2]; exact hp')
    simp [deref, this, hd2]

mutual
theorem recommitNodeL_post {ctx : Ctx κ} (g : Good ctx) : ∀ (t : Node κ),
    NamesOK ctx t → LNodePostR ctx t
  | .file x, _ => lrfile_post g x
  | .dir es, hn => lrdir_post g (recommitEntriesL_post g es (namesOK_dir hn))
  | .link l, _ => lrlink_post l
  | .other, _ => by
    intro c s strat _ hp
    simp [deref, Node.plain] at hp
theorem recommitEntriesL_post {ctx : Ctx κ} (g : Good ctx) : ∀ (es : List (Name × Node κ)),
    NamesOKList ctx es → LEntriesPostR ctx es
  | [], _ => lrnil_post ctx
  | (_, n) :: r, hn =>
    lrcons_post (namesOK_head hn).1 (recommitNodeL_post g n (namesOK_node hn))
      (recommitEntriesL_post g r (namesOK_tail hn))
end

/-! ## artifact level -/

theorem plain_deref_mem {ctx : Ctx κ} {s : Store κ} : ∀ {es : List (Name × Node κ)}
    {e : Name × Node κ}, plainList (derefList ctx s es) = true → e ∈ es →
      (deref ctx s e.2).plain = true
  | (nm, n) :: r, e, h, he => by
    simp only [derefList, plainList, Bool.and_eq_true] at h
    rcases List.mem_cons.1 he with rfl | he'
    · exact h.1
    · exact plain_deref_mem h.2 he'

/-- With `DisableRecursion`, `commitEntries` does on the whole listing exactly what it does on the
listing without sub-directories (same children, same store); the sub-directories stay in the
workspace as they are.  (`commitEntries_noRec` of `Props/C01.lean` for listings with links.) -/
theorem commitEntries_noRecL (ctx : Ctx κ) (strat : Strat) : ∀ (es : List (Name × Node κ))
    (old : List Child) (s : Store κ) (fs' : List (Name × Node κ)) (cs : List Child) (s' : Store κ),
    commitEntries ctx strat false (dropSubdirs es) old s = .ok (fs', cs, s') →
    ∃ es', commitEntries ctx strat true es old s = .ok (es', cs, s') ∧
      ∀ s0 s3, (∀ e ∈ es, e.2.isDir = true → deref ctx s3 e.2 = deref ctx s0 e.2) →
        derefList ctx s3 fs' = derefList ctx s0 (dropSubdirs es) →
        derefList ctx s3 es' = derefList ctx s0 es
  | [], old, s, fs', cs, s', h => by
    simp only [dropSubdirs, List.filter_nil, commitEntries, Except.ok.injEq, Prod.mk.injEq] at h
    obtain ⟨rfl, rfl, rfl⟩ := h
    exact ⟨[], by simp [commitEntries], fun s0 s3 _ _ => by simp [derefList]⟩
  | (nm, n) :: r, old, s, fs', cs, s', h => by
    by_cases hdir : n.isDir = true
    · have hdrop : dropSubdirs ((nm, n) :: r) = dropSubdirs r := by
        simp [dropSubdirs, hdir]
      rw [hdrop] at h
      obtain ⟨r', hr', hder⟩ := commitEntries_noRecL ctx strat r old s fs' cs s' h
      refine ⟨(nm, n) :: r', by simp [commitEntries, hdir, hr'], ?_⟩
      intro s0 s3 hsub h3
      rw [hdrop] at h3
      have h1 := hsub (nm, n) (by simp) hdir
      have h2 := hder s0 s3 (fun e he => hsub e (by simp [he])) h3
      simp only [derefList]
      rw [h1, h2]
    · have hdir' : n.isDir = false := by simpa using hdir
      have hdrop : dropSubdirs ((nm, n) :: r) = (nm, n) :: dropSubdirs r := by
        simp [dropSubdirs, hdir']
      rw [hdrop] at h
      simp only [commitEntries, Bool.false_and, Bool.false_eq_true, if_false] at h
      split at h
      · simp at h
      · split at h
        · simp at h
        · next n' c' s1 hcn =>
          split at h
          · simp at h
          · next r0 cs0 s2 hcr =>
            simp only [Except.ok.injEq, Prod.mk.injEq] at h
            obtain ⟨rfl, rfl, rfl⟩ := h
            obtain ⟨r', hr', hder⟩ := commitEntries_noRecL ctx strat r old s1 r0 cs0 s2 hcr
            refine ⟨(nm, n') :: r', ?_, ?_⟩
            · simp_all [commitEntries]
            · intro s0 s3 hsub h3
              rw [hdrop] at h3
              simp only [derefList, List.cons.injEq, Prod.mk.injEq, true_and] at h3
              have h2 := hder s0 s3 (fun e he => hsub e (by simp [he])) h3.2
              simp only [derefList]
              rw [h3.1, h2]

/-- reading off the directory branch of `commitNode` -/
theorem commitNode_dir_invR {ctx : Ctx κ} {strat : Strat} {es : List (Name × Node κ)} {c : Child}
    {s : Store κ} {t' : Node κ} {c' : Child} {s' : Store κ} (hcd : c.isDir = true)
    (h : commitNode ctx strat (.dir es) c s = .ok (t', c', s')) :
    ∃ old es' cs s2, oldManifest ctx s c.sum = .ok old ∧
      commitEntries ctx strat false es old s = .ok (es', cs, s2) ∧ t' = .dir es' ∧
      c'.sum = (Obj.man .new c.name (sortChildren cs) : Obj κ).digest ctx ∧
      s' = s2.put ((Obj.man .new c.name (sortChildren cs) : Obj κ).digest ctx)
        (.man .new c.name (sortChildren cs)) := by
  rw [commitNode] at h
  simp only [hcd, if_true] at h
  split at h
  · cases h
  rename_i old hold
  split at h
  · cases h
  rename_i es' cs s2 hce
  simp only [Except.ok.injEq, Prod.mk.injEq] at h
  obtain ⟨rfl, rfl, rfl⟩ := h
  exact ⟨old, es', cs, s2, hold, hce, rfl, rfl, rfl⟩

/-- the directory branch of `commitArt`, given the old manifest and the result of the entries -/
theorem commitArt_dir_of_entriesR {ctx : Ctx κ} {strat : Strat} {a : Art}
    {es es' : List (Name × Node κ)} {old cs : List Child} {s s2 : Store κ}
    (hd : a.isDir = true) (hold : oldManifest ctx s a.sum = .ok old)
    (hce : commitEntries ctx strat a.noRec es old s = .ok (es', cs, s2)) :
    commitArt ctx strat a (some (.dir es)) s =
      .ok (.dir es', (Obj.man .new a.path (sortChildren cs) : Obj κ).digest ctx,
        s2.put ((Obj.man .new a.path (sortChildren cs) : Obj κ).digest ctx)
          (.man .new a.path (sortChildren cs))) := by
  simp [commitArt, hd, hold, hce]

/-- a non-skip file artifact: `commitArt` is `commitNode` on the artifact's child record -/
theorem commitArt_file_of_node {ctx : Ctx κ} {strat : Strat} {a : Art} {n t' : Node κ} {c' : Child}
    {s s' : Store κ} (hd : a.isDir = false) (hskip : a.skip = false) (hn : n.isDir = false)
    (h : commitNode ctx strat n a.child s = .ok (t', c', s')) :
    commitArt ctx strat a (some n) s = .ok (t', c'.sum, s') := by
  have hcd : a.child.isDir = false := hd
  simp only [commitArt, hd, hskip, Bool.false_eq_true, if_false]
  cases n with
  | dir _ => simp [Node.isDir] at hn
  | file x =>
    simp only [commitNode, hcd, Bool.false_eq_true, if_false] at h
    split at h
    · cases h
    rename_i n1 d1 s1 hcf
    simp only [Except.ok.injEq, Prod.mk.injEq] at h
    obtain ⟨rfl, rfl, rfl⟩ := h
    exact hcf
  | link l =>
    simp only [commitNode, hcd, Bool.false_eq_true, if_false] at h
    split at h
    · cases h
    rename_i n1 d1 s1 hcf
    simp only [Except.ok.injEq, Prod.mk.injEq] at h
    obtain ⟨rfl, rfl, rfl⟩ := h
    exact hcf
  | other =>
    simp only [commitNode, hcd, Bool.false_eq_true, if_false] at h
    split at h
    · cases h
    rename_i n1 d1 s1 hcf
    simp only [Except.ok.injEq, Prod.mk.injEq] at h
    obtain ⟨rfl, rfl, rfl⟩ := h
    exact hcf

/-- what a commit of the artifact `a` with tracked (logical) tree `t` leaves in the cache `s`: a
non-skip artifact has the `RoundTrip` property; for a directory artifact the cache holds `t` with
current-format manifests (this is what makes the NEXT commit's old manifests readable) -/
def Kept (cfg : Cfg κ) (a : Art) (t : Node κ) (s : Store κ) : Prop :=
  (a.skip = false → RoundTrip cfg a t s) ∧
    (a.isDir = true → HoldsNode cfg.ctx s newChoice a.path t)

theorem Kept.mono {cfg : Cfg κ} {a : Art} {t : Node κ} {s s' : Store κ}
    (h : Kept cfg a t s) (hle : Store.le cfg.ctx s s') : Kept cfg a t s' :=
  ⟨fun hs => (h.1 hs).mono hle, fun hd => HoldsNode.mono hle t _ _ (h.2 hd)⟩

/-- a cache that holds the tracked tree has the `RoundTrip` property -/
theorem roundTrip_of_holds (cfg : Cfg κ) (g : Good cfg.ctx) (a : Art) (L : Node κ) (s : Store κ)
    (hskip : a.skip = false) (hk : L.isDir = a.isDir) (hp : L.plain = true) (hs : L.sorted = true)
    (hn : NamesOK cfg.ctx L) (hf : depth L ≤ cfg.fuel)
    (hh : HoldsNode cfg.ctx s newChoice a.path L) : RoundTrip cfg a L s := by
  intro s'' hle strat2
  have hh' := HoldsNode.mono hle L _ _ hh
  have h1 := checkoutNode_holds g s'' strat2 L newChoice a.path cfg.fuel hp hs hn hh' hf
  rw [digestAs_new, hk] at h1
  exact ⟨wsAfter cfg.ctx strat2 L, checkoutArt_noskip hskip h1, deref_wsAfter hp hh' strat2⟩

theorem sorted_trackedOf (a : Art) {n : Node κ} (h : n.sorted = true) :
    (trackedOf a n).sorted = true := by
  cases n with
  | dir es =>
    simp only [trackedOf]
    split
    · simp only [Node.sorted] at h ⊢
      exact sortedList_filter _ es h
    · exact h
  | file _ => exact h
  | link _ => exact h
  | other => exact h

theorem namesOK_trackedOf {ctx : Ctx κ} (a : Art) {n : Node κ} (h : NamesOK ctx n) :
    NamesOK ctx (trackedOf a n) := by
  cases n with
  | dir es =>
    simp only [trackedOf]
    split
    · intro x hx
      refine h x ?_
      simp only [allNames] at hx ⊢
      exact mem_allNamesList_filter _ es x hx
    · exact h
  | file _ => exact h
  | link _ => exact h
  | other => exact h

theorem trackedOf_isDir (a : Art) (n : Node κ) : (trackedOf a n).isDir = n.isDir := by
  cases n with
  | dir es =>
    simp only [trackedOf]
    split <;> rfl
  | file _ => rfl
  | link _ => rfl
  | other => rfl

/-- the hypotheses of the re-commit round trip on an output artifact `a`, the node `n` found at its
path and the cache `s`: the kinds agree; every link in `n` resolves to an object of `s` (the logical
content `deref ctx s n` is plain); `n` is sorted with acceptable names; a `skip-cache` file artifact
is a regular file (or the link to the object it records); the old manifests a re-commit of the
tracked part reads are readable (`RecommitOK`; for a file artifact this says nothing); the fuel
covers the tracked tree.  The artifact may record ANY checksum. -/
structure ArtPreRe (ctx : Ctx κ) (fuel : Nat) (s : Store κ) (a : Art) (n : Node κ) : Prop where
  kind : n.isDir = a.isDir
  resolved : (deref ctx s n).plain = true
  sorted : n.sorted = true
  names : NamesOK ctx n
  skipfile : a.skip = true → a.isDir = false → n.plain = true ∨ n = .link (.obj a.sum)
  old : RecommitOK ctx s (trackedOf a n) a.sum
  fuel : depth (trackedOf a n) ≤ fuel

/-- `ArtPreRe` survives growth of the cache -/
theorem ArtPreRe.mono {ctx : Ctx κ} {fuel : Nat} {s s1 : Store κ} {a : Art} {n : Node κ}
    (hle : Store.le ctx s s1) (h : ArtPreRe ctx fuel s a n) : ArtPreRe ctx fuel s1 a n where
  kind := h.kind
  resolved := by rw [deref_le ctx hle n h.resolved]; exact h.resolved
  sorted := h.sorted
  names := h.names
  skipfile := h.skipfile
  old := h.old.mono hle
  fuel := h.fuel

/-- a first commit: `ArtPre` (plain tree, fresh directory artifact) is an instance -/
theorem ArtPreRe.of_artPre {ctx : Ctx κ} {fuel : Nat} (s : Store κ) {a : Art} {n : Node κ}
    (h : ArtPre ctx fuel a n) : ArtPreRe ctx fuel s a n where
  kind := h.kind
  resolved := by rw [deref_plain ctx s n h.plain]; exact h.plain
  sorted := h.sorted
  names := h.names
  skipfile := fun _ _ => .inl h.plain
  old := by
    cases hd : a.isDir with
    | true => rw [(h.fresh hd).1]; exact RecommitOK.empty ctx s _
    | false =>
      exact RecommitOK.of_not_dir ctx s _ (by rw [trackedOf_isDir, h.kind, hd])
  fuel := h.fuel

/-- **One artifact, re-commit.** For an artifact recording any checksum and any node `n` at its
path satisfying `ArtPreRe`, `commitArt` succeeds, records `treeDigest` of the tracked part of the
logical content, leaves the logical content unchanged, and a non-skip artifact has the `RoundTrip`
property. -/
theorem commitArt_roundtrip_re' (cfg : Cfg κ) (g : Good cfg.ctx) (a : Art) (n : Node κ) (s : Store κ)
    (hpre : ArtPreRe cfg.ctx cfg.fuel s a n) (hc : Consistent cfg.ctx s) (strat : Strat) :
    ∃ t' s', commitArt cfg.ctx strat a (some n) s
        = .ok (t', treeDigest cfg.ctx a.path (trackedOf a (deref cfg.ctx s n)), s') ∧
      Consistent cfg.ctx s' ∧ Store.le cfg.ctx s s' ∧
      deref cfg.ctx s' t' = deref cfg.ctx s n ∧
      Kept cfg a (trackedOf a (deref cfg.ctx s n)) s' := by
  obtain ⟨hk, hres, hso, hna, hsf, hold, hfu⟩ := hpre
  -- the tracked part `T` and its logical content `L`
  have hTp : (deref cfg.ctx s (trackedOf a n)).plain = true := plain_trackedOf_deref _ s a n hres
  have hTs : (deref cfg.ctx s (trackedOf a n)).sorted = true :=
    sorted_deref _ s _ (sorted_trackedOf a hso)
  have hTn : NamesOK cfg.ctx (trackedOf a n) := namesOK_trackedOf a hna
  have hTd : (trackedOf a n).isDir = a.isDir := by rw [trackedOf_isDir, hk]
  have hTf : depth (deref cfg.ctx s (trackedOf a n)) ≤ cfg.fuel := by rw [depth_deref]; exact hfu
  rw [trackedOf_deref]
  -- `commitNode` on the tracked part
  obtain ⟨T', s', hcn, hc', hle, hh, hdT⟩ := recommitNodeL_post g (trackedOf a n) hTn
    a.child s strat (by simpa [Art.child] using hTd.symm) hTp hold hc
  have hname : a.child.name = a.path := rfl
  rw [hname] at hcn hh
  have hrt : a.skip = false → RoundTrip cfg a (deref cfg.ctx s (trackedOf a n)) s' := fun hskip =>
    roundTrip_of_holds cfg g a _ s' hskip (by rw [deref_isDir, hTd]) hTp hTs
      (namesOK_deref s hTn) hTf hh
  cases hd : a.isDir with
  | true =>
    rw [hd] at hk
    cases n with
    | dir es =>
      have hcd : a.child.isDir = true := hd
      cases hnr : a.noRec with
      | false =>
        have hT : trackedOf a (Node.dir es) = .dir es := by simp [trackedOf, hnr]
        rw [hT] at hcn hdT hrt hh ⊢
        obtain ⟨old, es', cs, s2, ho, hce, rfl, hsum, rfl⟩ := commitNode_dir_invR hcd hcn
        have hca := commitArt_dir_of_entriesR (a := a) hd ho (by rw [hnr]; exact hce)
        replace hsum : treeDigest cfg.ctx a.path (deref cfg.ctx s (Node.dir es)) = _ := hsum
        rw [hsum]
        exact ⟨_, _, hca, hc', hle, hdT, ⟨hrt, fun _ => hh⟩⟩
      | true =>
        have hT : trackedOf a (Node.dir es) = .dir (dropSubdirs es) := by simp [trackedOf, hnr]
        rw [hT] at hcn hdT hrt hh ⊢
        obtain ⟨old, fs', cs, s2, ho, hce, rfl, hsum, rfl⟩ := commitNode_dir_invR hcd hcn
        obtain ⟨es', hce', hder'⟩ := commitEntries_noRecL cfg.ctx strat es old s fs' cs s2 hce
        have hca := commitArt_dir_of_entriesR (a := a) hd ho (by rw [hnr]; exact hce')
        replace hsum : treeDigest cfg.ctx a.path (deref cfg.ctx s (Node.dir (dropSubdirs es))) = _ :=
          hsum
        rw [hsum]
        refine ⟨_, _, hca, hc', hle, ?_, ⟨hrt, fun _ => hh⟩⟩
        have hpl : plainList (derefList cfg.ctx s es) = true := by
          simpa [deref, Node.plain] using hres
        simp only [deref, Node.dir.injEq] at hdT ⊢
        exact hder' s _ (fun e he _ => deref_le cfg.ctx hle e.2 (plain_deref_mem hpl he)) hdT
    | file _ => simp [Node.isDir] at hk
    | link _ => simp [Node.isDir] at hk
    | other => simp [Node.isDir] at hk
  | false =>
    rw [hd] at hk
    have hT : trackedOf a n = n := by
      cases n with
      | dir _ => simp [Node.isDir] at hk
      | file _ => rfl
      | link _ => rfl
      | other => rfl
    rw [hT] at hcn hdT hrt ⊢
    cases hskip : a.skip with
    | false =>
      exact ⟨T', s', commitArt_file_of_node hd hskip hk hcn, hc', hle, hdT,
        ⟨fun _ => hrt hskip, fun h => (by simp [hd] at h)⟩⟩
    | true =>
      refine ⟨n, s, ?_, hc, Store.le_refl _ _, rfl,
        ⟨fun h => (by simp [hskip] at h), fun h => (by simp [hd] at h)⟩⟩
      rcases hsf hskip hd with hpl | rfl
      · cases n with
        | file c =>
          simp only [deref, treeDigest]
          exact commitArt_file_skip cfg.ctx a c hd hskip s strat
        | dir _ => simp [Node.isDir] at hk
        | link _ => simp [Node.plain] at hpl
        | other => simp [Node.plain] at hpl
      · cases hg : s.get a.sum with
        | none => simp [deref, hg, Node.plain] at hres
        | some o =>
          have hdig : cfg.ctx.H (o.bytes cfg.ctx) = a.sum := hc a.sum o hg
          have hq : (quick s a.sum (some (Node.link (.obj a.sum)))).cm = true := by
            have hhs : hasSum a.sum = true := by rw [← hdig]; exact hasSum_H g _
            simp [quick, hhs, Store.has_of_get hg]
          simp [commitArt, hd, commitFile, hq, deref, hg, treeDigest, hdig]

/-! ## world level: the logical workspace -/

open WT

theorem alookup_derefListR (ctx : Ctx κ) (s : Store κ) (nm : Name) :
    ∀ (es : List (Name × Node κ)), alookup (derefList ctx s es) nm = (alookup es nm).map (deref ctx s)
  | [] => rfl
  | (k, v) :: r => by
    simp only [derefList, alookup]
    split
    · rfl
    · exact alookup_derefListR ctx s nm r

/-- addressing commutes with `deref` -/
theorem getPath_deref (ctx : Ctx κ) (s : Store κ) : ∀ (p : List Name) (n : Node κ),
    getPath (deref ctx s n) p = (getPath n p).map (deref ctx s)
  | [], n => by simp [getPath]
  | c :: r, .dir es => by
    simp only [deref, getPath, alookup_derefListR]
    cases alookup es c with
    | none => rfl
    | some m => exact getPath_deref ctx s r m
  | c :: r, .file _ => by simp [deref, getPath]
  | c :: r, .other => by simp [deref, getPath]
  | c :: r, .link (.foreign _) => by simp [deref, getPath]
  | c :: r, .link (.obj d) => by
    simp only [deref]
    cases s.get d <;> simp [getPath]

/-- the logical content of the workspace of a world: links into its cache followed -/
def logWs (cfg : Cfg κ) (w : World κ) : Node κ := deref cfg.ctx w.store w.ws

/-- the world with its logical workspace -/
def logWorld (cfg : Cfg κ) (w : World κ) : World κ := { w with ws := logWs cfg w }

theorem origAt_deref (ctx : Ctx κ) (s : Store κ) (ws : Node κ) (a : Art) :
    origAt (deref ctx s ws) a = deref ctx s (origAt ws a) := by
  simp only [origAt, getPath_deref]
  cases getPath ws (Path.comps a.path) <;> simp [deref]

theorem origAt_logWs_of_getPath {cfg : Cfg κ} {w : World κ} {a : Art} {n : Node κ}
    (h : getPath w.ws (Path.comps a.path) = some n) :
    origAt (logWs cfg w) a = deref cfg.ctx w.store n := by
  rw [logWs, origAt_deref, origAt_of_getPath h]

/-- the logical content at an artifact's path is the same in two worlds that have the same node
there (all of whose links resolve in the first) and whose caches are ordered -/
theorem origAt_logWs_congr {cfg : Cfg κ} {w w1 : World κ} {a : Art} {n : Node κ}
    (hn : getPath w.ws (Path.comps a.path) = some n)
    (hsame : getPath w1.ws (Path.comps a.path) = getPath w.ws (Path.comps a.path))
    (hle : Store.le cfg.ctx w.store w1.store) (hres : (deref cfg.ctx w.store n).plain = true) :
    origAt (logWs cfg w1) a = origAt (logWs cfg w) a := by
  rw [origAt_logWs_of_getPath hn, origAt_logWs_of_getPath (hsame.trans hn), deref_le cfg.ctx hle n hres]

theorem committedArt_congr_orig (ctx : Ctx κ) {ws ws' : Node κ} {a : Art}
    (h : origAt ws' a = origAt ws a) : committedArt ctx ws' a = committedArt ctx ws a := by
  simp [committedArt, h]

/-! ## world level: one artifact, a list of artifacts, a stage -/

/-- `commitArtW` on an artifact satisfying `ArtPreRe` -/
theorem commitArtW_postR (cfg : Cfg κ) (g : Good cfg.ctx) (strat : Strat) (a a' : Art) (w w' : World κ)
    (n : Node κ) (hn : getPath w.ws (Path.comps a.path) = some n)
    (hpre : ArtPreRe cfg.ctx cfg.fuel w.store a n) (hc : Consistent cfg.ctx w.store)
    (h : commitArtW cfg strat a w = .ok (a', w')) :
    a' = committedArt cfg.ctx (logWs cfg w) a ∧ Consistent cfg.ctx w'.store ∧
      Store.le cfg.ctx w.store w'.store ∧ w'.idx = w.idx ∧ w'.done = w.done ∧
      (∃ t', getPath w'.ws (Path.comps a.path) = some t' ∧
        deref cfg.ctx w'.store t' = deref cfg.ctx w.store n) ∧
      Kept cfg a (trackedOf a (deref cfg.ctx w.store n)) w'.store ∧
      (∀ q, Apart (Path.comps a.path) q → getPath w'.ws q = getPath w.ws q) := by
  obtain ⟨t, d, s, ws', hca, hsp, rfl, rfl⟩ := WT.commitArtW_inv h
  obtain ⟨t', s', hc', h2, h3, h4, h5⟩ := commitArt_roundtrip_re' cfg g a n w.store hpre hc strat
  rw [hn, hc'] at hca
  simp only [Except.ok.injEq, Prod.mk.injEq] at hca
  obtain ⟨rfl, rfl, rfl⟩ := hca
  refine ⟨?_, h2, h3, rfl, rfl, ⟨t', WT.getPath_setPath_self _ _ _ _ hsp, h4⟩, h5,
    fun q hq => WT.getPath_setPath_apart hq hsp⟩
  simp [committedArt, origAt_logWs_of_getPath hn]

/-- `commitArts` on artifacts with pairwise non-overlapping paths, each satisfying `ArtPreRe` -/
theorem commitArts_postR (cfg : Cfg κ) (g : Good cfg.ctx) (strat : Strat) :
    ∀ (as as' : List Art) (w w' : World κ), ApartArts as →
      (∀ a, a ∈ as → ∃ n, getPath w.ws (Path.comps a.path) = some n ∧
        ArtPreRe cfg.ctx cfg.fuel w.store a n) →
      Consistent cfg.ctx w.store → commitArts cfg strat as w = .ok (as', w') →
      as' = as.map (committedArt cfg.ctx (logWs cfg w)) ∧ Consistent cfg.ctx w'.store ∧
        Store.le cfg.ctx w.store w'.store ∧ w'.idx = w.idx ∧ w'.done = w.done ∧
        (∀ a, a ∈ as → ∃ t', getPath w'.ws (Path.comps a.path) = some t' ∧
          deref cfg.ctx w'.store t' = origAt (logWs cfg w) a) ∧
        (∀ a, a ∈ as → Kept cfg a (trackedOf a (origAt (logWs cfg w) a)) w'.store) ∧
        (∀ q, (∀ a, a ∈ as → Apart (Path.comps a.path) q) → getPath w'.ws q = getPath w.ws q)
  | [], as', w, w', _, _, hc, h => by
    simp only [commitArts, Except.ok.injEq, Prod.mk.injEq] at h
    obtain ⟨rfl, rfl⟩ := h
    exact ⟨rfl, hc, Store.le_refl _ _, rfl, rfl, by simp, by simp, fun _ _ => rfl⟩
  | a :: r, as', w, w', hap, hpre, hc, h => by
    rw [commitArts] at h
    split at h
    · cases h
    rename_i a1 w1 h1
    split at h
    · cases h
    rename_i r2 w2 h2
    simp only [Except.ok.injEq, Prod.mk.injEq] at h
    obtain ⟨rfl, rfl⟩ := h
    have hap' := List.pairwise_cons.1 hap
    obtain ⟨n, hn, hpn⟩ := hpre a List.mem_cons_self
    obtain ⟨e1, c1, l1, i1, d1, ⟨t1, g1, dr1⟩, rt1, f1⟩ :=
      commitArtW_postR cfg g strat a a1 w w1 n hn hpn hc h1
    have hsame : ∀ b, b ∈ r → getPath w1.ws (Path.comps b.path) = getPath w.ws (Path.comps b.path) :=
      fun b hb => f1 _ (hap'.1 b hb)
    have hpre1 : ∀ b, b ∈ r → ∃ m, getPath w1.ws (Path.comps b.path) = some m ∧
        ArtPreRe cfg.ctx cfg.fuel w1.store b m := by
      intro b hb
      obtain ⟨m, hm, hpm⟩ := hpre b (List.mem_cons_of_mem _ hb)
      exact ⟨m, by rw [hsame b hb]; exact hm, hpm.mono l1⟩
    obtain ⟨e2, c2, l2, i2, d2, lg2, rt2, f2⟩ :=
      commitArts_postR cfg g strat r r2 w1 w2 hap'.2 hpre1 c1 h2
    have horig : ∀ b, b ∈ r → origAt (logWs cfg w1) b = origAt (logWs cfg w) b := by
      intro b hb
      obtain ⟨m, hm, hpm⟩ := hpre b (List.mem_cons_of_mem _ hb)
      exact origAt_logWs_congr hm (hsame b hb) l1 hpm.resolved
    refine ⟨?_, c2, Store.le_trans l1 l2, i2.trans i1, d2.trans d1, ?_, ?_, ?_⟩
    · rw [e1, e2, List.map_cons]
      congr 1
      exact List.map_congr_left (fun b hb => committedArt_congr_orig cfg.ctx (horig b hb))
    · intro b hb
      rcases List.mem_cons.1 hb with rfl | hb
      · refine ⟨t1, ?_, ?_⟩
        · rw [f2 _ (fun c hc' => (hap'.1 c hc').symm)]; exact g1
        · rw [origAt_logWs_of_getPath hn, ← dr1]
          exact deref_le cfg.ctx l2 t1 (by rw [dr1]; exact hpn.resolved)
      · obtain ⟨t', gt, dt⟩ := lg2 b hb
        exact ⟨t', gt, by rw [dt, horig b hb]⟩
    · intro b hb
      rcases List.mem_cons.1 hb with rfl | hb
      · rw [origAt_logWs_of_getPath hn]
        exact rt1.mono l2
      · rw [← horig b hb]; exact rt2 b hb
    · intro q hq
      rw [f2 q (fun b hb => hq b (List.mem_cons_of_mem _ hb)), f1 q (hq a List.mem_cons_self)]

/-- **Stage level, re-commit.** `commitAct` on a stage whose outputs do not overlap and satisfy
`ArtPreRe` (w.r.t. the cache of the world): as `commitAct_post`, with the logical workspace
`logWs cfg w` as the reference. -/
theorem commitAct_postR (cfg : Cfg κ) (g : Good cfg.ctx) (strat : Strat) (sp : Bytes) (w w' : World κ)
    (stg : Stage) (hs : alookup w.idx sp = some stg) (hap : ApartArts stg.outputs)
    (hpre : ∀ a, a ∈ stg.outputs → ∃ n, getPath w.ws (Path.comps a.path) = some n ∧
      ArtPreRe cfg.ctx cfg.fuel w.store a n)
    (hin : ∀ a, a ∈ stg.outputs → PlainInputsApart cfg w.idx stg (Path.comps a.path))
    (hc : Consistent cfg.ctx w.store) (h : commitAct cfg strat sp w = .ok w') :
    Consistent cfg.ctx w'.store ∧ Store.le cfg.ctx w.store w'.store ∧ w'.done = sp :: w.done ∧
      (∃ stg', w'.idx = setStage w.idx sp stg' ∧ alookup w'.idx sp = some stg' ∧
        stg'.outputs = (sortArts stg.outputs).map (committedArt cfg.ctx (logWs cfg w))) ∧
      (∀ a, a ∈ stg.outputs → ∃ t', getPath w'.ws (Path.comps a.path) = some t' ∧
        deref cfg.ctx w'.store t' = origAt (logWs cfg w) a) ∧
      (∀ a, a ∈ stg.outputs → Kept cfg a (trackedOf a (origAt (logWs cfg w) a)) w'.store) ∧
      (∀ q, (∀ a, a ∈ stg.outputs → Apart (Path.comps a.path) q) →
        PlainInputsApart cfg w.idx stg q → getPath w'.ws q = getPath w.ws q) := by
  unfold commitAct at h
  rw [World.stage_eq_ok.2 hs] at h
  dsimp only at h
  split at h
  · cases h
  rename_i pl w1 h1
  split at h
  · cases h
  rename_i outs w2 h2
  simp only [Except.ok.injEq] at h
  obtain ⟨S, hw', hS⟩ : ∃ S : Stage,
      w' = { w2 with idx := setStage w2.idx sp S, done := sp :: w2.done } ∧ S.outputs = outs :=
    ⟨_, h.symm, rfl⟩
  clear h
  subst hw'
  obtain ⟨st1, i1, d1, f1⟩ := WT.commitArts_elsewhere g strat _ h1
  have hpl : ∀ q, PlainInputsApart cfg w.idx stg q → ∀ b,
      b ∈ sortArts ((stg.inputs.filter
        (fun a => (findOwner cfg.walkAccumulates w.idx a.path).isNone)).map
          (fun a => { a with skip := true })) →
      (b.skip = true ∧ b.isDir = false) ∨ Apart (Path.comps b.path) q := by
    intro q hq b hb
    obtain ⟨b0, hb0, rfl⟩ := List.mem_map.1 (mem_of_mem_sortArts hb)
    obtain ⟨hin0, hown⟩ := List.mem_filter.1 hb0
    rcases hq b0 hin0 hown with hf | ha
    · exact .inl ⟨rfl, hf⟩
    · exact .inr ha
  have hsame : ∀ a, a ∈ stg.outputs →
      getPath w1.ws (Path.comps a.path) = getPath w.ws (Path.comps a.path) :=
    fun a ha => f1 _ (hpl _ (hin a ha))
  obtain ⟨c1, l1⟩ := st1 hc
  have hpre1 : ∀ a, a ∈ sortArts stg.outputs → ∃ n, getPath w1.ws (Path.comps a.path) = some n ∧
      ArtPreRe cfg.ctx cfg.fuel w1.store a n := by
    intro a ha
    have ha' := mem_of_mem_sortArts ha
    obtain ⟨n, hn, hp⟩ := hpre a ha'
    exact ⟨n, by rw [hsame a ha']; exact hn, hp.mono l1⟩
  obtain ⟨e2, c2, l2, i2, d2, lg2, rt2, f2⟩ :=
    commitArts_postR cfg g strat (sortArts stg.outputs) outs w1 w2 hap.sortArts hpre1 c1 h2
  have horig : ∀ a, a ∈ stg.outputs → origAt (logWs cfg w1) a = origAt (logWs cfg w) a := by
    intro a ha
    obtain ⟨n, hn, hp⟩ := hpre a ha
    exact origAt_logWs_congr hn (hsame a ha) l1 hp.resolved
  have hmem : ∀ a, a ∈ stg.outputs → a ∈ sortArts stg.outputs :=
    fun a ha => mem_sortArts_of_mem hap.paths_ne ha
  have hidx : w2.idx = w.idx := i2.trans i1
  refine ⟨c2, Store.le_trans l1 l2, ?_, ⟨S, ?_, ?_, ?_⟩, ?_, ?_, ?_⟩
  · show sp :: w2.done = sp :: w.done
    rw [d2, d1]
  · show setStage w2.idx sp S = setStage w.idx sp S
    rw [hidx]
  · show alookup (setStage w2.idx sp S) sp = some S
    rw [hidx]
    exact WT.alookup_setStage_self _ _ hs
  · rw [hS, e2]
    exact List.map_congr_left
      (fun a ha => committedArt_congr_orig cfg.ctx (horig a (mem_of_mem_sortArts ha)))
  · intro a ha
    obtain ⟨t', gt, dt⟩ := lg2 a (hmem a ha)
    exact ⟨t', gt, by rw [dt, horig a ha]⟩
  · intro a ha
    rw [← horig a ha]
    exact rt2 a (hmem a ha)
  · intro q hq hpq
    show getPath w2.ws q = getPath w.ws q
    rw [f2 q (fun a ha => hq a (mem_of_mem_sortArts ha)), f1 q (hpl q hpq)]

/-! ## the commit traversal -/

/-- hypotheses on the pipeline, for the stages in the scope `Sc`: as `PipelineOK`, with `ArtPreRe`
(w.r.t. the initial cache) in place of `ArtPre`: distinct stage paths; all outputs (within a stage
and across stages) have pairwise non-overlapping paths; every output is present and satisfies
`ArtPreRe`; every input that no stage owns is a file, or a directory apart from every output. -/
structure PipelineOKRe (cfg : Cfg κ) (Sc : Bytes → Prop) (w0 : World κ) : Prop where
  keys : (w0.idx.map (·.1)).Nodup
  apart_in : ∀ sp stg, Sc sp → alookup w0.idx sp = some stg → ApartArts stg.outputs
  apart_across : ∀ sp1 sp2 stg1 stg2, Sc sp1 → Sc sp2 → sp1 ≠ sp2 →
    alookup w0.idx sp1 = some stg1 → alookup w0.idx sp2 = some stg2 →
    ∀ a, a ∈ stg1.outputs → ∀ b, b ∈ stg2.outputs → Apart (Path.comps a.path) (Path.comps b.path)
  pre : ∀ sp stg, Sc sp → alookup w0.idx sp = some stg → ∀ a, a ∈ stg.outputs →
    ∃ n, getPath w0.ws (Path.comps a.path) = some n ∧ ArtPreRe cfg.ctx cfg.fuel w0.store a n
  inputs : ∀ sp stg, Sc sp → alookup w0.idx sp = some stg → ∀ sp' stg', Sc sp' →
    alookup w0.idx sp' = some stg' → ∀ a, a ∈ stg'.outputs →
    PlainInputsApart cfg w0.idx stg (Path.comps a.path)

/-- a first commit (`PipelineOK`) is an instance -/
theorem PipelineOKRe.of_pipelineOK {cfg : Cfg κ} {Sc : Bytes → Prop} {w0 : World κ}
    (h : PipelineOK cfg Sc w0) : PipelineOKRe cfg Sc w0 where
  keys := h.keys
  apart_in := h.apart_in
  apart_across := h.apart_across
  pre := fun sp stg hsc hs a ha => by
    obtain ⟨n, hn, hp⟩ := h.pre sp stg hsc hs a ha
    exact ⟨n, hn, ArtPreRe.of_artPre w0.store hp⟩
  inputs := h.inputs

/-- invariant of the commit traversal started in `w0` (`CommitInv`, with the logical workspace of
`w0` as the reference): the cache is consistent and extends the initial one; a stage that is not
done has its original entry in the index and its outputs are as in `w0`; a stage that is done is
recorded with the outputs `committedArt …`, has the `Kept` property, and the logical content
found at its outputs is the original one -/
structure CommitInvRe (cfg : Cfg κ) (Sc : Bytes → Prop) (w0 w : World κ) : Prop where
  cons : Consistent cfg.ctx w.store
  le : Store.le cfg.ctx w0.store w.store
  pending_idx : ∀ sp, w.done.contains sp = false → alookup w.idx sp = alookup w0.idx sp
  pending_ws : ∀ sp stg, Sc sp → w.done.contains sp = false → alookup w0.idx sp = some stg →
    ∀ a, a ∈ stg.outputs →
      getPath w.ws (Path.comps a.path) = getPath w0.ws (Path.comps a.path)
  finished : ∀ sp, Sc sp → w.done.contains sp = true → ∃ stg stg', alookup w0.idx sp = some stg ∧
    alookup w.idx sp = some stg' ∧
    stg'.outputs = (sortArts stg.outputs).map (committedArt cfg.ctx (logWs cfg w0)) ∧
    (∀ a, a ∈ stg.outputs → Kept cfg a (trackedOf a (origAt (logWs cfg w0) a)) w.store) ∧
    (∀ a, a ∈ stg.outputs → ∃ t', getPath w.ws (Path.comps a.path) = some t' ∧
      deref cfg.ctx w.store t' = origAt (logWs cfg w0) a)

theorem CommitInvRe.init (cfg : Cfg κ) (Sc : Bytes → Prop) (w0 : World κ)
    (hc : Consistent cfg.ctx w0.store) : CommitInvRe cfg Sc w0 (fresh w0) where
  cons := hc
  le := Store.le_refl _ _
  pending_idx := fun _ _ => rfl
  pending_ws := fun _ _ _ _ _ _ _ => rfl
  finished := fun sp _ h => by simp [fresh] at h

/-- one stage action of the commit traversal keeps the invariant -/
theorem commitInv_stepR (cfg : Cfg κ) (g : Good cfg.ctx) (strat : Strat) (Sc : Bytes → Prop)
    (w0 : World κ) (hok : PipelineOKRe cfg Sc w0) (sp : Bytes) (w w1 : World κ) (hsc : Sc sp)
    (hsh : SameShape w.idx w0.idx) (hinv : CommitInvRe cfg Sc w0 w)
    (hnd : w.done.contains sp = false) (h : commitAct cfg strat sp w = .ok w1) :
    CommitInvRe cfg Sc w0 w1 := by
  obtain ⟨stg, hs⟩ : ∃ stg, alookup w.idx sp = some stg := by
    cases hl : alookup w.idx sp with
    | some stg => exact ⟨stg, rfl⟩
    | none => simp [commitAct, World.stage, hl] at h
  have hs0 : alookup w0.idx sp = some stg := by rw [← hinv.pending_idx sp hnd]; exact hs
  have hws := hinv.pending_ws sp stg hsc hnd hs0
  have hap := hok.apart_in sp stg hsc hs0
  obtain ⟨c1, l1, d1, ⟨stg', hi1, hl1, ho1⟩, lg1, rt1, f1⟩ :=
    commitAct_postR cfg g strat sp w w1 stg hs hap
    (fun a ha => by
      obtain ⟨n, hn, hp⟩ := hok.pre sp stg hsc hs0 a ha
      exact ⟨n, by rw [hws a ha]; exact hn, hp.mono hinv.le⟩)
    (fun a ha => (hok.inputs sp stg hsc hs0 sp stg hsc hs0 a ha).sim hsh) hinv.cons h
  have horig : ∀ a, a ∈ stg.outputs → origAt (logWs cfg w) a = origAt (logWs cfg w0) a := by
    intro a ha
    obtain ⟨n, hn, hp⟩ := hok.pre sp stg hsc hs0 a ha
    exact origAt_logWs_congr hn (hws a ha) hinv.le hp.resolved
  have hdone : ∀ x, w1.done.contains x = (x == sp || w.done.contains x) := by
    intro x; rw [d1, List.contains_cons]
  refine ⟨c1, Store.le_trans hinv.le l1, ?_, ?_, ?_⟩
  · intro x hx
    rw [hdone, Bool.or_eq_false_iff] at hx
    have hne : x ≠ sp := by simpa using hx.1
    rw [hi1, WT.alookup_setStage_ne _ _ hne]
    exact hinv.pending_idx x hx.2
  · intro x stgx hscx hx hsx a ha
    rw [hdone, Bool.or_eq_false_iff] at hx
    have hne : x ≠ sp := by simpa using hx.1
    rw [← hinv.pending_ws x stgx hscx hx.2 hsx a ha]
    refine f1 _ (fun b hb => hok.apart_across sp x stg stgx hsc hscx (Ne.symm hne) hs0 hsx b hb a ha) ?_
    exact (hok.inputs sp stg hsc hs0 x stgx hscx hsx a ha).sim hsh
  · intro x hscx hx
    by_cases hxs : x = sp
    · subst hxs
      refine ⟨stg, stg', hs0, hl1, ?_, ?_, ?_⟩
      · rw [ho1]
        exact List.map_congr_left (fun a ha =>
          committedArt_congr_orig cfg.ctx (horig a (mem_of_mem_sortArts ha)))
      · intro a ha
        rw [← horig a ha]
        exact rt1 a ha
      · intro a ha
        obtain ⟨t', gt, dt⟩ := lg1 a ha
        exact ⟨t', gt, by rw [dt, horig a ha]⟩
    · have hx' : w.done.contains x = true := by
        rw [hdone] at hx
        have : (x == sp) = false := by simpa using hxs
        simpa [this] using hx
      obtain ⟨s0, s1, e0, e1, e2, e3, e4⟩ := hinv.finished x hscx hx'
      refine ⟨s0, s1, e0, ?_, e2, fun a ha => (e3 a ha).mono l1, ?_⟩
      · rw [hi1, WT.alookup_setStage_ne _ _ hxs]
        exact e1
      · intro a ha
        obtain ⟨t', gt, dt⟩ := e4 a ha
        refine ⟨t', ?_, ?_⟩
        · rw [← gt]
          refine f1 _ (fun b hb =>
            hok.apart_across sp x stg s0 hsc hscx (Ne.symm hxs) hs0 e0 b hb a ha) ?_
          exact (hok.inputs sp stg hsc hs0 x s0 hscx e0 a ha).sim hsh
        · rw [← dt]
          refine deref_le cfg.ctx l1 t' ?_
          rw [dt]
          obtain ⟨n, hn, hp⟩ := hok.pre x s0 hscx e0 a ha
          rw [origAt_logWs_of_getPath hn]
          exact hp.resolved

/-- **`dud commit`, any commit.** After a successful `cmdCommit` on a pipeline satisfying
`PipelineOKRe` the invariant holds, and the stages done are exactly those in scope. -/
theorem cmdCommit_invR (cfg : Cfg κ) (g : Good cfg.ctx) (strat : Strat) (targets : List Bytes)
    (w0 w' : World κ) (hc : Consistent cfg.ctx w0.store)
    (hok : PipelineOKRe cfg (InScope cfg w0 targets) w0)
    (h : cmdCommit cfg strat targets w0 = .ok w') :
    CommitInvRe cfg (InScope cfg w0 targets) w0 w' ∧ SameShape w'.idx w0.idx ∧
      ∃ l' : List Bytes, l'.Nodup ∧ (∀ x, x ∈ l' ↔ InScope cfg w0 targets x) ∧
        (∀ x, w'.done.contains x = l'.contains x) ∧
        (∀ x, x ∈ l' → ∀ o, o ∈ ownIdx cfg w0.idx x → Before l' o x) ∧
        (∀ t, t ∈ (if targets.isEmpty then allStages w0 else targets) → t ∈ l') ∧ (∃ t, t ∈ l') := by
  obtain ⟨l', hl, hsh, hnd, hsub, hts, hdone, htop⟩ := cmdCommit_spec cfg strat targets w0 w' hok.keys h
  have hne : ∃ t, t ∈ (if targets.isEmpty then allStages w0 else targets) := by
    cases hts' : (if targets.isEmpty then allStages w0 else targets) with
    | nil =>
      simp only [cmdCommit, hts', List.isEmpty_nil, if_true] at h
      cases h
    | cons t _ => exact ⟨t, List.mem_cons_self⟩
  have hinv := perTarget_preserves (r := true)
    (commitTrav_lawfulOn cfg strat w0.idx hok.keys) (fun w => w.idx.length + 1) allStages
    (if targets.isEmpty then allStages w0 else targets)
    (Q := fun p => CommitInvRe cfg (InScope cfg w0 targets) w0 p.1)
    (fun sp p p' hsc hi hq hndone _ hact => by
      obtain ⟨s, hs, rfl⟩ := logged_act_inv hact
      exact commitInv_stepR cfg g strat _ w0 hok sp p.1 s hsc hi hq hndone hs)
    (fresh w0, []) (w', l') (SameShape.refl _) (CommitInvRe.init cfg _ w0 hc) hl
  obtain ⟨t0, ht0⟩ := hne
  refine ⟨hinv, hsh, l', hnd, fun x => ⟨hsub x, ?_⟩, hdone, htop, hts, ⟨t0, hts t0 ht0⟩⟩
  rintro ⟨t, ht, hr⟩
  exact reach_mem_log hnd htop hr (hts t ht)

/-! ## the checkout traversal in a clone -/

/-- one stage action of the checkout traversal succeeds and keeps `CheckoutInv` (stated for the
world `logWorld cfg w0`, i.e. with the logical workspace of `w0` as the reference) -/
theorem checkoutInv_stepR (cfg : Cfg κ) (strat2 : Strat) (Sc : Bytes → Prop) (w0 w' : World κ)
    (hok : PipelineOKRe cfg Sc w0) (hci : CommitInvRe cfg Sc w0 w')
    (hall : ∀ sp, Sc sp → w'.done.contains sp = true) (sC : Store κ)
    (hle : Store.le cfg.ctx w'.store sC) (sp : Bytes) (v : World κ) (hsc : Sc sp)
    (hidx : v.idx = w'.idx) (hinv : CheckoutInv cfg Sc (logWorld cfg w0) sC v)
    (hnd : v.done.contains sp = false) :
    ∃ v1, checkoutAct cfg strat2 sp v = .ok v1 ∧ CheckoutInv cfg Sc (logWorld cfg w0) sC v1 := by
  obtain ⟨stg, stg', e0, e1, e2, e3, _⟩ := hci.finished sp hsc (hall sp hsc)
  obtain ⟨v1, h1, h2, _, h4, h5, h6⟩ := checkoutAct_committed cfg strat2 sp (logWs cfg w0) stg stg' v
    w'.store (by rw [hidx]; exact e1) e2 (hok.apart_in sp stg hsc e0)
    (fun a ha hsk => (e3 a ha).1 hsk)
    (by rw [hinv.store]; exact hle) (hinv.pending sp stg hsc hnd e0)
  have hdone : ∀ x, v1.done.contains x = (x == sp || v.done.contains x) := by
    intro x; rw [h4, List.contains_cons]
  refine ⟨v1, h1, h2.trans hinv.store, ?_, ?_⟩
  · intro x stgx hscx hx hsx a ha hsk
    rw [hdone, Bool.or_eq_false_iff] at hx
    have hne : x ≠ sp := by simpa using hx.1
    obtain ⟨p1, p2⟩ := hinv.pending x stgx hscx hx.2 hsx a ha hsk
    obtain ⟨g1, g2⟩ := h6 (Path.comps a.path)
      (fun b hb _ => hok.apart_across sp x stg stgx hsc hscx (Ne.symm hne) e0 hsx b hb a ha)
    exact ⟨by rw [g1]; exact p1, g2 p2⟩
  · intro x stgx hscx hx hsx a ha hsk
    by_cases hxs : x = sp
    · subst hxs
      have hsx' : alookup w0.idx x = some stgx := hsx
      rw [e0] at hsx'
      cases hsx'
      obtain ⟨r, hr, hd⟩ := h5 a ha hsk
      exact ⟨r, hr, by rw [← hinv.store]; exact hd⟩
    · have hx' : v.done.contains x = true := by
        rw [hdone] at hx
        have : (x == sp) = false := by simpa using hxs
        simpa [this] using hx
      obtain ⟨r, hr, hd⟩ := hinv.finished x stgx hscx hx' hsx a ha hsk
      obtain ⟨g1, _⟩ := h6 (Path.comps a.path)
        (fun b hb _ => hok.apart_across sp x stg stgx hsc hscx (Ne.symm hxs) e0 hsx b hb a ha)
      exact ⟨r, by rw [g1]; exact hr, hd⟩

/-! ## what a commit leaves makes the next commit's old manifests readable -/

/-- a cache that holds the (sorted, well-named) tree `t` committed under the path `p`: whatever
directory `n'` is found there next time, a commit starting from the recorded checksum
`treeDigest ctx p t` reads only readable old manifests -/
theorem RecommitOK.of_holds_new {ctx : Ctx κ} (g : Good ctx) {s : Store κ} {p : Bytes} {t : Node κ}
    (hh : HoldsNode ctx s newChoice p t) (hs : t.sorted = true) (hn : NamesOK ctx t) (n' : Node κ)
    (hd : t.isDir = n'.isDir) : RecommitOK ctx s n' (treeDigest ctx p t) := by
  rw [← digestAs_new]
  exact RecommitOK.of_holds g n' t newChoice p hs hn hh hd

/-! ## the recorded checksum is the checksum of SOME older version: nothing need be in the cache -/

/-- in a consistent cache, whatever sits under the checksum of a (sorted, well-named) directory is
its manifest, and reads back as its children -/
theorem oldManifest_digestAs {ctx : Ctx κ} (g : Good ctx) {s : Store κ} (hc : Consistent ctx s)
    (ch : Choice) (nm : Bytes) {es : List (Name × Node κ)} (hs : sortedList es = true)
    (hn : NamesOKList ctx es) :
    oldManifest ctx s (digestAs ctx ch nm (.dir es)) = .ok [] ∨
      oldManifest ctx s (digestAs ctx ch nm (.dir es)) = .ok (childrenAs ctx ch es) := by
  cases hg : s.get (digestAs ctx ch nm (.dir es)) with
  | none =>
    left
    have : s.has (digestAs ctx ch nm (.dir es)) = false := by simp [Store.has, hg]
    simp [oldManifest, this]
  | some o =>
    right
    have hb : o.bytes ctx = ctx.encMan (ch []) nm (sortChildren (childrenAs ctx ch es)) := by
      have := hc _ o hg
      simp only [digestAs, Obj.digest, Obj.bytes] at this
      exact g.inj _ _ this
    have hmap := map_reload_childrenAs ctx ch (ch []) es
      (fun e he sum isDir => (hn e.1 (mem_allNamesList_of_mem he)).2.1 _ sum isDir)
    rw [sortChildren_childrenAs ctx ch es hs] at hb
    have hok : ChildrenOK ((childrenAs ctx ch es).map (ctx.reload (ch []))) := by
      rw [hmap]; exact childrenOK_childrenAs ch hn
    have hread := readManifest_of_bytes g hg hb hok
    rw [hmap] at hread
    simp [oldManifest, hasSum_digestAs_dir g, Store.has_of_get hg, hread]

mutual
theorem readableNode_of_digestAs {ctx : Ctx κ} (g : Good ctx) {s : Store κ} (hc : Consistent ctx s) :
    ∀ (t2 t1 : Node κ) (ch : Choice) (nm : Bytes), t1.sorted = true → NamesOK ctx t1 →
      t1.isDir = t2.isDir → ReadableNode ctx s t2 (digestAs ctx ch nm t1)
  | .dir es2, .dir es1, ch, nm, hs, hn, _ => by
    have hs' : sortedList es1 = true := by simpa [Node.sorted] using hs
    have hn' : NamesOKList ctx es1 := namesOK_dir hn
    simp only [ReadableNode]
    rcases oldManifest_digestAs g hc ch nm hs' hn' with h | h
    · exact ⟨[], h, readableList_nil ctx s es2⟩
    · exact ⟨childrenAs ctx ch es1, h, readableList_of_digestAs g hc es2 es1 ch hs' hn'⟩
  | .dir _, .file _, _, _, _, _, hd => by simp [Node.isDir] at hd
  | .dir _, .link _, _, _, _, _, hd => by simp [Node.isDir] at hd
  | .dir _, .other, _, _, _, _, hd => by simp [Node.isDir] at hd
  | .file _, _, _, _, _, _, _ => by simp [ReadableNode]
  | .link _, _, _, _, _, _, _ => by simp [ReadableNode]
  | .other, _, _, _, _, _, _ => by simp [ReadableNode]
theorem readableList_of_digestAs {ctx : Ctx κ} (g : Good ctx) {s : Store κ} (hc : Consistent ctx s) :
    ∀ (es2 es1 : List (Name × Node κ)) (ch : Choice), sortedList es1 = true →
      NamesOKList ctx es1 → ReadableList ctx s es2 (childrenAs ctx ch es1)
  | [], _, _, _, _ => by simp [ReadableList]
  | (nm, n2) :: r2, es1, ch, hs, hn => by
    simp only [ReadableList]
    refine ⟨?_, readableList_of_digestAs g hc r2 es1 ch hs hn⟩
    intro k hk hkind
    obtain ⟨e, he, rfl⟩ := findChild_childrenAs_mem hk
    exact readableNode_of_digestAs g hc n2 e.2 (subChoice ch e.1) e.1 (Dud.sortedList_mem hs he)
      (namesOKList_mem hn he) hkind
end

/-- **The recorded checksum is the checksum of some older version `t1` of the tree** (sorted,
acceptable names, the same top-level kind; manifests of any schemas `ch`; entries may have been
added, removed, modified, changed between file and directory since): `RecommitOK` holds in EVERY
cache — whether the manifests of `t1` are in the cache, in part, or not at all.  (In a consistent
cache, whatever appears under such a checksum is that manifest.) -/
theorem RecommitOK.of_digestAs {ctx : Ctx κ} (g : Good ctx) (s : Store κ) (t t1 : Node κ)
    (ch : Choice) (nm : Bytes) (hs1 : t1.sorted = true) (hn1 : NamesOK ctx t1)
    (hd : t1.isDir = t.isDir) : RecommitOK ctx s t (digestAs ctx ch nm t1) :=
  fun _ _ hc => readableNode_of_digestAs g hc t t1 ch nm hs1 hn1 hd

/-- the same for a checksum recorded by the current dud (`treeDigest`) -/
theorem RecommitOK.of_treeDigest {ctx : Ctx κ} (g : Good ctx) (s : Store κ) (t t1 : Node κ)
    (nm : Bytes) (hs1 : t1.sorted = true) (hn1 : NamesOK ctx t1) (hd : t1.isDir = t.isDir) :
    RecommitOK ctx s t (treeDigest ctx nm t1) := by
  rw [← digestAs_new]
  exact RecommitOK.of_digestAs g s t t1 newChoice nm hs1 hn1 hd

/-- **The typical instance of `ArtPreRe`**: the hypotheses on the present workspace node, and on the
old state only that a directory artifact records no checksum or the checksum of SOME older version
`t1` of its tracked tree (sorted, acceptable names; any schemas) — present in the cache or not. -/
theorem ArtPreRe.of_older {ctx : Ctx κ} (g : Good ctx) {fuel : Nat} {s : Store κ} {a : Art}
    {n : Node κ} (kind : n.isDir = a.isDir) (resolved : (deref ctx s n).plain = true)
    (sorted : n.sorted = true) (names : NamesOK ctx n)
    (skipfile : a.skip = true → a.isDir = false → n.plain = true ∨ n = .link (.obj a.sum))
    (older : a.isDir = true → a.sum = "" ∨ ∃ (t1 : Node κ) (ch : Choice), t1.sorted = true ∧
      NamesOK ctx t1 ∧ t1.isDir = true ∧ a.sum = digestAs ctx ch a.path t1)
    (fuel_ok : depth (trackedOf a n) ≤ fuel) : ArtPreRe ctx fuel s a n where
  kind := kind
  resolved := resolved
  sorted := sorted
  names := names
  skipfile := skipfile
  old := by
    cases hd : a.isDir with
    | false => exact RecommitOK.of_not_dir ctx s _ (by rw [trackedOf_isDir, kind, hd])
    | true =>
      rcases older hd with h | ⟨t1, ch, h1, h2, h3, h4⟩
      · rw [h]; exact RecommitOK.empty ctx s _
      · rw [h4]
        exact RecommitOK.of_digestAs g s _ t1 ch a.path h1 h2 (by rw [trackedOf_isDir, kind, hd, h3])
  fuel := fuel_ok

end Dud.Re
