import DudModel.Spec
/-!
# Small lemmas on stores (`Store.get/put/has`), `Consistent`, `Store.le`
-/
namespace Dud

variable {κ : Type}

theorem Store.get_put_self (s : Store κ) (d : Digest) (o : Obj κ) : (s.put d o).get d = some o := by
  simp [Store.get, Store.put, alookup]

theorem Store.get_put_ne (s : Store κ) {d d' : Digest} (o : Obj κ) (h : d ≠ d') :
    (s.put d o).get d' = s.get d' := by
  simp [Store.get, Store.put, alookup, h]

theorem Store.has_eq_true {s : Store κ} {d : Digest} : s.has d = true ↔ ∃ o, s.get d = some o := by
  simp [Store.has, Option.isSome_iff_exists]

theorem Store.has_eq_false {s : Store κ} {d : Digest} : s.has d = false ↔ s.get d = none := by
  simp [Store.has]

theorem Store.has_of_get {s : Store κ} {d : Digest} {o : Obj κ} (h : s.get d = some o) : s.has d = true := by
  simp [Store.has, h]

/-- `get`-extension: every binding of `s` is kept verbatim -/
def Store.ext (s s' : Store κ) : Prop := ∀ d o, s.get d = some o → s'.get d = some o

theorem Store.ext.refl (s : Store κ) : Store.ext s s := fun _ _ h => h

theorem Store.ext.trans {s1 s2 s3 : Store κ} (h1 : Store.ext s1 s2) (h2 : Store.ext s2 s3) : Store.ext s1 s3 :=
  fun d o h => h2 d o (h1 d o h)

theorem Store.ext.le (ctx : Ctx κ) {s s' : Store κ} (h : Store.ext s s') : Store.le ctx s s' :=
  fun d o hd => ⟨o, h d o hd, rfl⟩

theorem Store.ext.has {s s' : Store κ} (h : Store.ext s s') {d : Digest} (hd : s.has d = true) : s'.has d = true := by
  obtain ⟨o, ho⟩ := Store.has_eq_true.1 hd
  exact Store.has_of_get (h d o ho)

theorem Store.ext_put_fresh {s : Store κ} {d : Digest} (o : Obj κ) (h : s.has d = false) : Store.ext s (s.put d o) := by
  intro d' o' h'
  by_cases hd : d = d'
  · subst hd; rw [Store.has_eq_false.1 h] at h'; cases h'
  · rw [Store.get_put_ne _ _ hd]; exact h'

theorem readManifest_congr (ctx : Ctx κ) {s s' : Store κ} {d : Digest} (h : s.get d = s'.get d) :
    readManifest ctx s d = readManifest ctx s' d := by
  simp only [readManifest, h]

theorem readManifest_ext (ctx : Ctx κ) {s s' : Store κ} (h : Store.ext s s') {d : Digest} (hd : s.has d = true) :
    readManifest ctx s' d = readManifest ctx s d := by
  obtain ⟨o, ho⟩ := Store.has_eq_true.1 hd
  exact readManifest_congr ctx (by rw [ho, h d o ho])

theorem Store.le.refl (ctx : Ctx κ) (s : Store κ) : Store.le ctx s s := fun _ o h => ⟨o, h, rfl⟩

theorem Store.le.trans {ctx : Ctx κ} {s1 s2 s3 : Store κ} (h1 : Store.le ctx s1 s2) (h2 : Store.le ctx s2 s3) :
    Store.le ctx s1 s3 := by
  intro d o h
  obtain ⟨o2, g2, b2⟩ := h1 d o h
  obtain ⟨o3, g3, b3⟩ := h2 d o2 g2
  exact ⟨o3, g3, b3.trans b2⟩

theorem Consistent.nil (ctx : Ctx κ) : Consistent ctx ([] : Store κ) := by
  intro d o h; simp [Store.get, alookup] at h

theorem Consistent.put {ctx : Ctx κ} {s : Store κ} (hs : Consistent ctx s) {d : Digest} {o : Obj κ}
    (ho : o.digest ctx = d) : Consistent ctx (s.put d o) := by
  intro d' o' h
  by_cases hd : d = d'
  · subst hd; rw [Store.get_put_self] at h; cases h; exact ho
  · rw [Store.get_put_ne _ _ hd] at h; exact hs d' o' h

/-- `put` of an object under its own digest keeps all bytes: an overwritten binding had, by
consistency and injectivity of the hash, the same bytes. -/
theorem Store.le_put {ctx : Ctx κ} (hg : Good ctx) {s : Store κ} (hs : Consistent ctx s) {d : Digest} {o : Obj κ}
    (ho : o.digest ctx = d) : Store.le ctx s (s.put d o) := by
  intro d' o' h
  by_cases hd : d = d'
  · subst hd
    refine ⟨o, Store.get_put_self _ _ _, ?_⟩
    have := hs d o' h
    exact hg.inj _ _ (by simpa [Obj.digest] using ho.trans this.symm)
  · exact ⟨o', by rw [Store.get_put_ne _ _ hd]; exact h, rfl⟩

/-- one step of cache evolution: consistency is kept and nothing is lost -/
def Store.Step (ctx : Ctx κ) (s s' : Store κ) : Prop :=
  Consistent ctx s → Consistent ctx s' ∧ Store.le ctx s s'

theorem Store.Step.refl (ctx : Ctx κ) (s : Store κ) : Store.Step ctx s s := fun h => ⟨h, Store.le.refl ctx s⟩

theorem Store.Step.trans {ctx : Ctx κ} {s1 s2 s3 : Store κ} (h1 : Store.Step ctx s1 s2) (h2 : Store.Step ctx s2 s3) :
    Store.Step ctx s1 s3 := fun h =>
  ⟨(h2 (h1 h).1).1, (h1 h).2.trans (h2 (h1 h).1).2⟩

theorem Store.Step.put {ctx : Ctx κ} (hg : Good ctx) (s : Store κ) {d : Digest} {o : Obj κ} (ho : o.digest ctx = d) :
    Store.Step ctx s (s.put d o) := fun h => ⟨h.put ho, Store.le_put hg h ho⟩

end Dud
