import DudModel.World
/-!
# Lemmas about `runAct`: the decision whether a stage command executes

`runDecision` is the value Go's `Index.Run` stores in `ran[stagePath]` (`doRun`), written without
the `exec` parameter; `runAct_eq` factors `runAct` through it.
-/
namespace Dud

variable {κ : Type}

/-! ## `sortArts` keeps the artifacts (up to duplicates of a path) -/

theorem mem_insertArt {a b : Art} {l : List Art} (h : a ∈ insertArt b l) : a = b ∨ a ∈ l := by
  induction l with
  | nil => simp only [insertArt, List.mem_singleton] at h; exact .inl h
  | cons x xs ih =>
    simp only [insertArt] at h
    split at h
    · rcases List.mem_cons.1 h with h | h
      · exact .inl h
      · exact .inr (List.mem_cons_of_mem _ h)
    · split at h
      · rcases List.mem_cons.1 h with h | h
        · exact .inl h
        · exact .inr h
      · rcases List.mem_cons.1 h with h | h
        · exact .inr (h ▸ List.mem_cons_self)
        · rcases ih h with h | h
          · exact .inl h
          · exact .inr (List.mem_cons_of_mem _ h)

theorem mem_insertArt_self (b : Art) (l : List Art) : b ∈ insertArt b l := by
  induction l with
  | nil => simp [insertArt]
  | cons x xs ih =>
    simp only [insertArt]
    split
    · exact List.mem_cons_self
    · split
      · exact List.mem_cons_self
      · exact List.mem_cons_of_mem _ ih

theorem mem_insertArt_of_mem {a b : Art} {l : List Art} (h : a ∈ l) (hp : b.path ≠ a.path) :
    a ∈ insertArt b l := by
  induction l with
  | nil => cases h
  | cons x xs ih =>
    simp only [insertArt]
    split
    · rename_i hbx
      rcases List.mem_cons.1 h with h | h
      · subst h; exact absurd (by simpa using hbx) hp
      · exact List.mem_cons_of_mem _ h
    · split
      · exact List.mem_cons_of_mem _ h
      · rcases List.mem_cons.1 h with h | h
        · exact h ▸ List.mem_cons_self
        · exact List.mem_cons_of_mem _ (ih h)

theorem mem_of_mem_sortArts {a : Art} {l : List Art} (h : a ∈ sortArts l) : a ∈ l := by
  induction l with
  | nil => simp [sortArts] at h
  | cons x xs ih =>
    simp only [sortArts, List.foldr_cons] at h
    rcases mem_insertArt h with h | h
    · exact h ▸ List.mem_cons_self
    · exact List.mem_cons_of_mem _ (ih h)

/-- if no two artifacts share a path (Go: the artifacts are the values of a map keyed by path)
sorting loses nothing -/
theorem mem_sortArts_of_mem {a : Art} {l : List Art} (hn : l.Pairwise (fun x y => x.path ≠ y.path))
    (h : a ∈ l) : a ∈ sortArts l := by
  induction l with
  | nil => cases h
  | cons x xs ih =>
    simp only [sortArts, List.foldr_cons]
    rw [List.pairwise_cons] at hn
    rcases List.mem_cons.1 h with h | h
    · subst h; exact mem_insertArt_self _ _
    · exact mem_insertArt_of_mem (ih hn.2 h) (hn.1 a h)

variable [DecidableEq κ]

/-! ## `allMatch` -/

theorem allMatch_eq_true_iff (cfg : Cfg κ) (w : World κ) (l : List Art) :
    allMatch cfg w l = .ok true ↔ ∀ a, a ∈ l → matchShort cfg w a = .ok true := by
  induction l with
  | nil => simp [allMatch]
  | cons x xs ih =>
    simp only [allMatch, List.mem_cons, forall_eq_or_imp]
    cases hm : matchShort cfg w x with
    | error e => simp
    | ok b =>
      cases b with
      | false => simp
      | true => simpa using ih

/-- `allMatch` says `false` exactly when it meets an artifact that does not match, all earlier
ones matching (later ones are not looked at: the loop `break`s) -/
theorem allMatch_eq_false_iff (cfg : Cfg κ) (w : World κ) (l : List Art) :
    allMatch cfg w l = .ok false ↔
      ∃ l1 a l2, l = l1 ++ a :: l2 ∧ (∀ x, x ∈ l1 → matchShort cfg w x = .ok true) ∧
        matchShort cfg w a = .ok false := by
  induction l with
  | nil => simp [allMatch]
  | cons x xs ih =>
    simp only [allMatch]
    cases hm : matchShort cfg w x with
    | error e =>
      simp only [reduceCtorEq, false_iff]
      rintro ⟨l1, a, l2, hl, h1, h2⟩
      cases l1 with
      | nil => simp only [List.nil_append, List.cons.injEq] at hl; rw [← hl.1, hm] at h2; cases h2
      | cons y ys =>
        simp only [List.cons_append, List.cons.injEq] at hl
        have := h1 y List.mem_cons_self
        rw [← hl.1, hm] at this; cases this
    | ok b =>
      cases b with
      | false =>
        simp only [true_iff]
        exact ⟨[], x, xs, rfl, by simp, hm⟩
      | true =>
        simp only
        rw [ih]
        constructor
        · rintro ⟨l1, a, l2, hl, h1, h2⟩
          refine ⟨x :: l1, a, l2, by simp [hl], ?_, h2⟩
          intro y hy
          rcases List.mem_cons.1 hy with rfl | hy
          · exact hm
          · exact h1 y hy
        · rintro ⟨l1, a, l2, hl, h1, h2⟩
          cases l1 with
          | nil =>
            simp only [List.nil_append, List.cons.injEq] at hl
            rw [← hl.1, hm] at h2; cases h2
          | cons y ys =>
            simp only [List.cons_append, List.cons.injEq] at hl
            exact ⟨ys, a, l2, hl.2, fun z hz => h1 z (List.mem_cons_of_mem _ hz), h2⟩

/-! ## the decision -/

def Stage.hasCmd (stg : Stage) : Bool := !stg.cmd.isEmpty

/-- `checksumUpToDate` -/
def Stage.sumOk (cfg : Cfg κ) (stg : Stage) : Bool := !stg.sum.isEmpty && stg.defSum cfg == stg.sum

/-- "has command and no inputs" -/
def Stage.noInputs (stg : Stage) : Bool := stg.hasCmd && stg.inputs.isEmpty

/-- the inputs no stage of the index owns -/
def plainInputs (cfg : Cfg κ) (idx : Index) (stg : Stage) : List Art :=
  stg.inputs.filter (fun a => (findOwner cfg.walkAccumulates idx a.path).isNone)

/-- the stages owning an input -/
def upOwners (cfg : Cfg κ) (idx : Index) (stg : Stage) : List Bytes :=
  stg.inputs.filterMap (fun a => (findOwner cfg.walkAccumulates idx a.path).map (·.1))

/-- "upstream stage out-of-date" -/
def upRan (cfg : Cfg κ) (recursive : Bool) (w : World κ) (stg : Stage) : Bool :=
  recursive && (upOwners cfg w.idx stg).any (didRun w)

/-- an owned input whose recorded checksum differs from what its owner records now -/
def ownedStale (cfg : Cfg κ) (idx : Index) (stg : Stage) : Bool :=
  stg.inputs.any fun a =>
    match findOwner cfg.walkAccumulates idx a.path with
    | some (_, oa) => a.sum != oa.sum
    | none => false

omit [DecidableEq κ] in
theorem ownedStale_eq_false_iff (cfg : Cfg κ) (idx : Index) (stg : Stage) :
    ownedStale cfg idx stg = false ↔
      ∀ a, a ∈ stg.inputs → ∀ sp' oa, findOwner cfg.walkAccumulates idx a.path = some (sp', oa) → a.sum = oa.sum := by
  simp only [ownedStale, List.any_eq_false]
  constructor
  · intro h a ha sp' oa ho
    have := h a ha
    rw [ho] at this
    simpa using this
  · intro h a ha
    cases ho : findOwner cfg.walkAccumulates idx a.path with
    | none => simp
    | some p =>
      obtain ⟨sp', oa⟩ := p
      simp [h a ha sp' oa ho]

/-- `doRun` of `Index.Run` as a function of the world after the upstream recursion -/
def runDecision (cfg : Cfg κ) (recursive : Bool) (w : World κ) (stg : Stage) : Except Err Bool :=
  match allMatch cfg w (sortArts (plainInputs cfg w.idx stg)) with
  | .error e => .error e
  | .ok plainOk =>
    if stg.noInputs || !stg.sumOk cfg || !plainOk || upRan cfg recursive w stg ||
        ownedStale cfg w.idx stg then .ok true
    else match allMatch cfg w (sortArts stg.outputs) with
      | .error e => .error e
      | .ok oo => .ok (!oo)

omit [DecidableEq κ] in
/-- the shape of the decision: `pre` short-circuits the output check -/
theorem decision_shape {α : Type} (pre : Bool) (X : Except Err Bool) (K : Bool → Except Err α) :
    (match (if pre then (.ok true : Except Err Bool) else X) with
      | .error e => (.error e : Except Err α)
      | .ok oo => K (pre || !oo)) =
    (match (if pre then (.ok true : Except Err Bool) else
        (match X with | .error e => (.error e : Except Err Bool) | .ok oo => .ok (!oo))) with
      | .error e => (.error e : Except Err α)
      | .ok d => K d) := by
  cases pre with
  | true => rfl
  | false => cases X <;> rfl

/-- `runAct` = look the stage up, decide, then either execute and log or just record the decision -/
theorem runAct_eq (cfg : Cfg κ) (exec : Exec κ) (recursive : Bool) (sp : Bytes) (w : World κ) :
    runAct cfg exec recursive sp w =
      match w.stage sp with
      | .error e => .error e
      | .ok stg =>
        match runDecision cfg recursive w stg with
        | .error e => .error e
        | .ok d =>
          if d && stg.hasCmd then
            match exec stg w with
            | .error e => .error e
            | .ok w' => .ok { w' with ran := (sp, true) :: w'.ran, log := w'.log ++ [sp] }
          else .ok { w with ran := (sp, d) :: w.ran } := by
  simp only [runAct]
  cases w.stage sp with
  | error e => rfl
  | ok stg =>
    simp only [runDecision]
    rw [show plainInputs cfg w.idx stg = stg.inputs.filter
        (fun a => (findOwner cfg.walkAccumulates w.idx a.path).isNone) from rfl,
      show stg.hasCmd = !stg.cmd.isEmpty from rfl]
    cases allMatch cfg w (sortArts (stg.inputs.filter
        (fun a => (findOwner cfg.walkAccumulates w.idx a.path).isNone))) with
    | error e => rfl
    | ok plainOk =>
      exact decision_shape
        (stg.noInputs || !stg.sumOk cfg || !plainOk || upRan cfg recursive w stg || ownedStale cfg w.idx stg)
        (allMatch cfg w (sortArts stg.outputs))
        (fun d => if d && !stg.cmd.isEmpty then
            match exec stg w with
            | .error e => .error e
            | .ok w' => .ok { w' with ran := (sp, true) :: w'.ran, log := w'.log ++ [sp] }
          else .ok { w with ran := (sp, d) :: w.ran })

/-- the decision is "do not run" exactly when nothing asks for a run -/
theorem runDecision_eq_false_iff (cfg : Cfg κ) (recursive : Bool) (w : World κ) (stg : Stage) :
    runDecision cfg recursive w stg = .ok false ↔
      stg.noInputs = false ∧ stg.sumOk cfg = true ∧
      allMatch cfg w (sortArts (plainInputs cfg w.idx stg)) = .ok true ∧
      upRan cfg recursive w stg = false ∧ ownedStale cfg w.idx stg = false ∧
      allMatch cfg w (sortArts stg.outputs) = .ok true := by
  simp only [runDecision]
  cases allMatch cfg w (sortArts (plainInputs cfg w.idx stg)) with
  | error e => simp
  | ok plainOk =>
    simp only
    split
    · rename_i hpre
      simp only [Bool.or_eq_true, Bool.not_eq_true'] at hpre
      simp only [Except.ok.injEq, false_iff, Bool.true_eq_false]
      rintro ⟨h1, h2, h3, h4, h5, _⟩
      rcases hpre with (((h | h) | h) | h) | h
      · rw [h1] at h; cases h
      · rw [h2] at h; cases h
      · rw [h] at h3; cases h3
      · rw [h4] at h; cases h
      · rw [h5] at h; cases h
    · rename_i hpre
      simp only [Bool.or_eq_true, Bool.not_eq_true', not_or, Bool.not_eq_true, Bool.not_eq_false] at hpre
      obtain ⟨⟨⟨⟨h1, h2⟩, h3⟩, h4⟩, h5⟩ := hpre
      cases allMatch cfg w (sortArts stg.outputs) with
      | error e => simp
      | ok oo => cases oo <;> simp [h1, h2, h3, h4, h5]

/-- the decision is "run" exactly when one of the six reasons holds -/
theorem runDecision_eq_true_iff (cfg : Cfg κ) (recursive : Bool) (w : World κ) (stg : Stage) :
    runDecision cfg recursive w stg = .ok true ↔
      ∃ plainOk, allMatch cfg w (sortArts (plainInputs cfg w.idx stg)) = .ok plainOk ∧
        (stg.noInputs = true ∨ stg.sumOk cfg = false ∨ plainOk = false ∨
          upRan cfg recursive w stg = true ∨ ownedStale cfg w.idx stg = true ∨
          allMatch cfg w (sortArts stg.outputs) = .ok false) := by
  simp only [runDecision]
  cases allMatch cfg w (sortArts (plainInputs cfg w.idx stg)) with
  | error e => simp
  | ok plainOk =>
    simp only [Except.ok.injEq, exists_eq_left']
    split
    · rename_i hpre
      simp only [Bool.or_eq_true, Bool.not_eq_true'] at hpre
      simp only [true_iff]
      rcases hpre with (((h | h) | h) | h) | h
      · exact .inl h
      · exact .inr (.inl h)
      · exact .inr (.inr (.inl h))
      · exact .inr (.inr (.inr (.inl h)))
      · exact .inr (.inr (.inr (.inr (.inl h))))
    · rename_i hpre
      simp only [Bool.or_eq_true, Bool.not_eq_true', not_or, Bool.not_eq_true, Bool.not_eq_false] at hpre
      obtain ⟨⟨⟨⟨h1, h2⟩, h3⟩, h4⟩, h5⟩ := hpre
      cases allMatch cfg w (sortArts stg.outputs) with
      | error e => simp [h1, h2, h3, h4, h5]
      | ok oo => cases oo <;> simp [h1, h2, h3, h4, h5]

omit [DecidableEq κ] in
theorem World.stage_eq_ok {w : World κ} {sp : Bytes} {stg : Stage} :
    w.stage sp = .ok stg ↔ alookup w.idx sp = some stg := by
  simp only [World.stage]
  cases alookup w.idx sp <;> simp

/-- inversion of a successful `runAct` -/
theorem runAct_inv (cfg : Cfg κ) (exec : Exec κ) (recursive : Bool) (sp : Bytes) (w w' : World κ)
    (h : runAct cfg exec recursive sp w = .ok w') :
    ∃ stg d, alookup w.idx sp = some stg ∧ runDecision cfg recursive w stg = .ok d ∧
      ((d && stg.hasCmd) = true →
        ∃ w1, exec stg w = .ok w1 ∧ w' = { w1 with ran := (sp, true) :: w1.ran, log := w1.log ++ [sp] }) ∧
      ((d && stg.hasCmd) = false → w' = { w with ran := (sp, d) :: w.ran }) := by
  rw [runAct_eq] at h
  cases hs : w.stage sp with
  | error e => rw [hs] at h; cases h
  | ok stg =>
    rw [hs] at h
    simp only at h
    cases hd : runDecision cfg recursive w stg with
    | error e => rw [hd] at h; cases h
    | ok d =>
      rw [hd] at h
      simp only at h
      refine ⟨stg, d, World.stage_eq_ok.1 hs, hd, ?_, ?_⟩
      · intro hx
        rw [if_pos hx] at h
        cases he : exec stg w with
        | error e => rw [he] at h; cases h
        | ok w1 => rw [he] at h; cases h; exact ⟨w1, rfl, rfl⟩
      · intro hx
        rw [if_neg (by simp [hx])] at h
        cases h; rfl

/-- what the stage command must leave alone for the traversal laws to hold -/
def ExecFrame (exec : Exec κ) : Prop :=
  ∀ stg w w', exec stg w = .ok w' →
    w'.idx = w.idx ∧ w'.ran = w.ran ∧ w'.log = w.log ∧ w'.done = w.done ∧ w'.store = w.store

omit [DecidableEq κ] in
theorem isSome_alookup_cons (sp : Bytes) (b : Bool) (ran : List (Bytes × Bool)) (x : Bytes) :
    (alookup ((sp, b) :: ran) x).isSome = (x == sp || (alookup ran x).isSome) := by
  simp only [alookup]
  by_cases h : sp = x
  · subst h; simp
  · have : (x == sp) = false := by simpa using fun h' => h h'.symm
    simp [h, this]

/-- `runAct` keeps the index and adds exactly `sp` to the memo -/
theorem runAct_frame (cfg : Cfg κ) (exec : Exec κ) (hex : ExecFrame exec) (recursive : Bool) (sp : Bytes)
    (w w' : World κ) (h : runAct cfg exec recursive sp w = .ok w') :
    w'.idx = w.idx ∧ w'.done = w.done ∧ ∃ b, w'.ran = (sp, b) :: w.ran := by
  obtain ⟨stg, d, _, _, h1, h2⟩ := runAct_inv cfg exec recursive sp w w' h
  cases hx : (d && stg.hasCmd) with
  | true =>
    obtain ⟨w1, he, hw⟩ := h1 hx
    obtain ⟨f1, f2, _, f4, _⟩ := hex stg w w1 he
    subst hw
    exact ⟨f1, f4, true, by simp only [f2]⟩
  | false =>
    have hw := h2 hx
    subst hw
    exact ⟨rfl, rfl, d, rfl⟩

end Dud
