import DudModel.Lemmas.Blake3Incr
/-!
# Lemmas: the block-buffering incremental hasher simulates the tree-layer hasher

Core-only.  Helper lemmas for `Props/C14blake3.lean` (second layer).

* `chunkTail_snoc`: how the one-shot blockwise processing of a chunk changes when one byte is
  appended — exactly the step of the incremental `ChunkState`.
* `ChunkRel B ctr c bytes`: the chunk state `c` is what one gets by absorbing `bytes`; then its two
  outputs are the one-shot `chunkCVOf` / `chunkRootOf` of `bytes`.
* `update_eq_foldl`, `bwrite_eq_foldl`: both piecewise loops are byte-wise folds on well-formed states.
* `Sim`: the simulation relation between `BState` and `State` (same counter, same stack, chunk state
  related to the open chunk's bytes); preserved by every byte, and `bsum = sum` under it.
-/
namespace Dud.Blake3Incr
open Dud.Blake3Spec

variable {CV Digest : Type}

/-! ## One-shot chunk processing, one more byte -/

theorem chunkTailF_snoc (B : BlockParams CV Digest) (ctr : Nat) (b : UInt8) :
    ∀ (n : Nat) (bs : Bytes) (cv : CV) (start : Bool), bs.length ≤ n →
      chunkTailF B ctr (bs ++ [b]).length cv start (bs ++ [b]) =
        if (chunkTailF B ctr bs.length cv start bs).last.length = 64 then
          ⟨B.compressBlock (chunkTailF B ctr bs.length cv start bs).cv
              (chunkTailF B ctr bs.length cv start bs).last ctr
              (chunkTailF B ctr bs.length cv start bs).start, false, [b]⟩
        else
          ⟨(chunkTailF B ctr bs.length cv start bs).cv, (chunkTailF B ctr bs.length cv start bs).start,
            (chunkTailF B ctr bs.length cv start bs).last ++ [b]⟩ := by
  intro n
  induction n with
  | zero =>
    intro bs cv start h
    have : bs = [] := List.eq_nil_of_length_eq_zero (by omega)
    subst this
    simp [chunkTailF]
  | succ n ih =>
    intro bs cv start h
    by_cases hle : bs.length ≤ 64
    · rw [chunkTailF_eq B ctr cv start bs]
      simp only [hle, if_true]
      by_cases h64 : bs.length = 64
      · simp only [h64, if_true]
        rw [chunkTailF_eq B ctr cv start (bs ++ [b])]
        have hgt : ¬ (bs ++ [b]).length ≤ 64 := by
          simp only [List.length_append, List.length_singleton]; omega
        simp only [hgt, if_false]
        have ht : (bs ++ [b]).take 64 = bs := by rw [← h64, List.take_left]
        have hd : (bs ++ [b]).drop 64 = [b] := by rw [← h64, List.drop_left]
        rw [ht, hd]
        simp [chunkTailF]
      · simp only [h64, if_false]
        rw [chunkTailF_eq B ctr cv start (bs ++ [b])]
        have hle' : (bs ++ [b]).length ≤ 64 := by
          simp only [List.length_append, List.length_singleton]; omega
        simp only [hle', if_true]
    · rw [chunkTailF_eq B ctr cv start bs, chunkTailF_eq B ctr cv start (bs ++ [b])]
      have hgt : ¬ (bs ++ [b]).length ≤ 64 := by
        simp only [List.length_append, List.length_singleton]; omega
      simp only [hle, hgt, if_false]
      have ht : (bs ++ [b]).take 64 = bs.take 64 := by
        rw [List.take_append_of_le_length (by omega)]
      have hd : (bs ++ [b]).drop 64 = bs.drop 64 ++ [b] := by
        rw [List.drop_append_of_le_length (by omega)]
      rw [ht, hd]
      exact ih (bs.drop 64) _ false (by simp only [List.length_drop]; omega)

/-- Appending one byte to a chunk: if the last block was full it is compressed (without CHUNK_END)
and the byte starts a new block; otherwise the byte joins the last block. -/
theorem chunkTail_snoc (B : BlockParams CV Digest) (ctr : Nat) (bs : Bytes) (b : UInt8) :
    chunkTail B ctr (bs ++ [b]) =
      if (chunkTail B ctr bs).last.length = 64 then
        ⟨B.compressBlock (chunkTail B ctr bs).cv (chunkTail B ctr bs).last ctr
            (chunkTail B ctr bs).start, false, [b]⟩
      else ⟨(chunkTail B ctr bs).cv, (chunkTail B ctr bs).start, (chunkTail B ctr bs).last ++ [b]⟩ :=
  chunkTailF_snoc B ctr b bs.length bs B.iv true (Nat.le_refl _)

theorem chunkTail_nil (B : BlockParams CV Digest) (ctr : Nat) :
    chunkTail B ctr [] = ⟨B.iv, true, []⟩ := rfl

/-! ## The chunk state -/

/-- Byte-wise semantics of `ChunkState.update`. -/
def cpushByte (B : BlockParams CV Digest) (ctr : Nat) (c : ChunkState CV) (b : UInt8) :
    ChunkState CV :=
  let c1 := c.flushIfFull B ctr
  { c1 with buf := c1.buf ++ [b] }

def CWF (c : ChunkState CV) : Prop := c.buf.length ≤ 64

theorem flushIfFull_idem (B : BlockParams CV Digest) (ctr : Nat) (c : ChunkState CV) :
    (c.flushIfFull B ctr).flushIfFull B ctr = c.flushIfFull B ctr := by
  by_cases h : c.buf.length = 64
  · simp [ChunkState.flushIfFull, h]
  · simp [ChunkState.flushIfFull, h]

theorem flushIfFull_lt (B : BlockParams CV Digest) (ctr : Nat) {c : ChunkState CV} (h : CWF c) :
    (c.flushIfFull B ctr).buf.length < 64 := by
  unfold CWF at h
  by_cases h1 : c.buf.length = 64
  · simp [ChunkState.flushIfFull, h1]
  · simp only [ChunkState.flushIfFull, h1, if_false]; omega

theorem flushIfFull_len (B : BlockParams CV Digest) (ctr : Nat) (c : ChunkState CV) :
    (c.flushIfFull B ctr).len = c.len := by
  by_cases h1 : c.buf.length = 64
  · simp only [ChunkState.flushIfFull, h1, if_true, ChunkState.len, List.length_nil]; omega
  · simp only [ChunkState.flushIfFull, h1, if_false]

theorem cpushByte_flush (B : BlockParams CV Digest) (ctr : Nat) (c : ChunkState CV) (b : UInt8) :
    cpushByte B ctr (c.flushIfFull B ctr) b = cpushByte B ctr c b := by
  simp only [cpushByte, flushIfFull_idem]

theorem foldl_cpushByte_flush (B : BlockParams CV Digest) (ctr : Nat) (c : ChunkState CV)
    (xs : Bytes) (h : xs ≠ []) :
    xs.foldl (cpushByte B ctr) (c.flushIfFull B ctr) = xs.foldl (cpushByte B ctr) c := by
  cases xs with
  | nil => exact absurd rfl h
  | cons x xs => simp only [List.foldl_cons, cpushByte_flush]

theorem foldl_cpushByte_fit (B : BlockParams CV Digest) (ctr : Nat) (xs : Bytes)
    (c : ChunkState CV) (h : c.buf.length + xs.length ≤ 64) :
    xs.foldl (cpushByte B ctr) c = { c with buf := c.buf ++ xs } := by
  induction xs generalizing c with
  | nil => simp
  | cons x xs ih =>
    simp only [List.length_cons] at h
    have h1 : ¬ c.buf.length = 64 := by omega
    have hp : cpushByte B ctr c x = { c with buf := c.buf ++ [x] } := by
      simp only [cpushByte, ChunkState.flushIfFull, h1, if_false]
    rw [List.foldl_cons, hp, ih _ (by simp only [List.length_append, List.length_singleton]; omega)]
    simp only [List.append_assoc, List.singleton_append]

theorem cpushByte_wf (B : BlockParams CV Digest) (ctr : Nat) {c : ChunkState CV} (h : CWF c)
    (b : UInt8) : CWF (cpushByte B ctr c b) := by
  have := flushIfFull_lt B ctr h
  simp only [CWF, cpushByte, List.length_append, List.length_singleton]; omega

theorem cpushByte_len (B : BlockParams CV Digest) (ctr : Nat) (c : ChunkState CV) (b : UInt8) :
    (cpushByte B ctr c b).len = c.len + 1 := by
  have := flushIfFull_len B ctr c
  simp only [ChunkState.len] at this
  simp only [cpushByte, ChunkState.len, List.length_append, List.length_singleton]; omega

theorem foldl_cpushByte_wf (B : BlockParams CV Digest) (ctr : Nat) (xs : Bytes)
    {c : ChunkState CV} (h : CWF c) : CWF (xs.foldl (cpushByte B ctr) c) := by
  induction xs generalizing c with
  | nil => exact h
  | cons x xs ih => exact ih (cpushByte_wf B ctr h x)

theorem foldl_cpushByte_len (B : BlockParams CV Digest) (ctr : Nat) (xs : Bytes)
    (c : ChunkState CV) : (xs.foldl (cpushByte B ctr) c).len = c.len + xs.length := by
  induction xs generalizing c with
  | nil => simp
  | cons x xs ih => rw [List.foldl_cons, ih, cpushByte_len, List.length_cons]; omega

theorem updateF_eq_foldl (B : BlockParams CV Digest) (ctr : Nat) :
    ∀ (fuel : Nat) (c : ChunkState CV) (input : Bytes), CWF c → input.length ≤ fuel →
      ChunkState.updateF B ctr fuel c input = input.foldl (cpushByte B ctr) c := by
  intro fuel
  induction fuel with
  | zero =>
    intro c input _ hl
    have : input = [] := List.eq_nil_of_length_eq_zero (by omega)
    subst this; rfl
  | succ fuel ih =>
    intro c input hwf hl
    simp only [ChunkState.updateF]
    by_cases h0 : input.length = 0
    · have : input = [] := List.eq_nil_of_length_eq_zero h0
      subst this; simp
    · simp only [h0, if_false]
      have hlt := flushIfFull_lt B ctr hwf
      have key : ∀ t, t = min (64 - (c.flushIfFull B ctr).buf.length) input.length →
          ChunkState.updateF B ctr fuel
            { c.flushIfFull B ctr with buf := (c.flushIfFull B ctr).buf ++ input.take t }
            (input.drop t) = input.foldl (cpushByte B ctr) c := by
        intro t ht
        have ht1 : 1 ≤ t := by omega
        have ht2 : t ≤ input.length := by omega
        have ht3 : (c.flushIfFull B ctr).buf.length + t ≤ 64 := by omega
        have htake : (input.take t).length = t := by simp only [List.length_take]; omega
        rw [ih _ _ (by simp only [CWF, List.length_append, htake]; exact ht3)
              (by simp only [List.length_drop]; omega)]
        rw [← foldl_cpushByte_fit B ctr (input.take t) (c.flushIfFull B ctr)
              (by rw [htake]; exact ht3)]
        rw [foldl_cpushByte_flush B ctr c _ (by
          intro hnil; rw [hnil] at htake; simp only [List.length_nil] at htake; omega)]
        rw [← List.foldl_append, List.take_append_drop]
      exact key _ rfl

theorem update_eq_foldl (B : BlockParams CV Digest) (ctr : Nat) {c : ChunkState CV} (h : CWF c)
    (input : Bytes) : c.update B ctr input = input.foldl (cpushByte B ctr) c :=
  updateF_eq_foldl B ctr input.length c input h (Nat.le_refl _)

theorem update_wf (B : BlockParams CV Digest) (ctr : Nat) {c : ChunkState CV} (h : CWF c)
    (input : Bytes) : CWF (c.update B ctr input) := by
  rw [update_eq_foldl B ctr h]; exact foldl_cpushByte_wf B ctr input h

theorem foldl_update_eq (B : BlockParams CV Digest) (ctr : Nat) (pieces : List Bytes)
    {c : ChunkState CV} (h : CWF c) :
    pieces.foldl (ChunkState.update B ctr) c = pieces.flatten.foldl (cpushByte B ctr) c := by
  induction pieces generalizing c with
  | nil => rfl
  | cons p rest ih =>
    rw [List.foldl_cons, ih (update_wf B ctr h p), update_eq_foldl B ctr h, List.flatten_cons,
      List.foldl_append]

/-- `ChunkRel B ctr c bytes`: `c` is the chunk state after absorbing `bytes`. -/
def ChunkRel (B : BlockParams CV Digest) (ctr : Nat) (c : ChunkState CV) (bytes : Bytes) : Prop :=
  chunkTail B ctr bytes = ⟨c.cv, c.blocks == 0, c.buf⟩ ∧ c.len = bytes.length ∧ c.buf.length ≤ 64

theorem chunkRel_init (B : BlockParams CV Digest) (ctr : Nat) :
    ChunkRel B ctr (ChunkState.init B) [] := by
  refine ⟨?_, ?_, ?_⟩
  · rw [chunkTail_nil]; simp [ChunkState.init]
  · simp [ChunkState.init, ChunkState.len]
  · simp [ChunkState.init]

theorem chunkRel_pushByte (B : BlockParams CV Digest) (ctr : Nat) {c : ChunkState CV}
    {bytes : Bytes} (h : ChunkRel B ctr c bytes) (b : UInt8) :
    ChunkRel B ctr (cpushByte B ctr c b) (bytes ++ [b]) := by
  obtain ⟨ht, hlen, hbuf⟩ := h
  refine ⟨?_, ?_, ?_⟩
  · rw [chunkTail_snoc, ht]
    by_cases h64 : c.buf.length = 64
    · simp [cpushByte, ChunkState.flushIfFull, h64]
    · simp [cpushByte, ChunkState.flushIfFull, h64]
  · rw [cpushByte_len, hlen]; simp
  · exact cpushByte_wf B ctr hbuf b

/-- **The chunk state computes the one-shot chunk outputs.** -/
theorem chunkRel_outCV (B : BlockParams CV Digest) (ctr : Nat) {c : ChunkState CV} {bytes : Bytes}
    (h : ChunkRel B ctr c bytes) : c.outCV B ctr = chunkCVOf B bytes ctr := by
  simp only [ChunkState.outCV, chunkCVOf, h.1]

theorem chunkRel_outRoot (B : BlockParams CV Digest) (ctr : Nat) {c : ChunkState CV}
    {bytes : Bytes} (h : ChunkRel B ctr c bytes) : c.outRoot B ctr = chunkRootOf B bytes ctr := by
  simp only [ChunkState.outRoot, chunkRootOf, h.1]

theorem chunkRel_foldl (B : BlockParams CV Digest) (ctr : Nat) (xs : Bytes) {c : ChunkState CV}
    {bytes : Bytes} (h : ChunkRel B ctr c bytes) :
    ChunkRel B ctr (xs.foldl (cpushByte B ctr) c) (bytes ++ xs) := by
  induction xs generalizing c bytes with
  | nil => simpa using h
  | cons x xs ih =>
    have := ih (chunkRel_pushByte B ctr h x)
    simpa [List.append_assoc] using this

/-! ## The block-buffering hasher, byte-wise -/

def bpushByte (B : BlockParams CV Digest) (s : BState CV) (b : UInt8) : BState CV :=
  let s1 := bcloseIfFull B s
  { s1 with chunk := cpushByte B s1.n s1.chunk b }

/-- Well-formed block-layer states (every state reachable from `breset`). -/
def BWF (s : BState CV) : Prop := s.chunk.buf.length ≤ 64 ∧ s.chunk.len ≤ 1024

theorem init_len (B : BlockParams CV Digest) : (ChunkState.init B).len = 0 := by
  simp [ChunkState.init, ChunkState.len]

theorem bcloseIfFull_idem (B : BlockParams CV Digest) (s : BState CV) :
    bcloseIfFull B (bcloseIfFull B s) = bcloseIfFull B s := by
  by_cases h : s.chunk.len = 1024
  · simp [bcloseIfFull, h, init_len]
  · simp [bcloseIfFull, h]

theorem bcloseIfFull_lt (B : BlockParams CV Digest) {s : BState CV} (h : BWF s) :
    (bcloseIfFull B s).chunk.buf.length ≤ 64 ∧ (bcloseIfFull B s).chunk.len < 1024 := by
  obtain ⟨h1, h2⟩ := h
  by_cases hc : s.chunk.len = 1024
  · simp [bcloseIfFull, hc, init_len]; simp [ChunkState.init]
  · simp only [bcloseIfFull, hc, if_false]; exact ⟨h1, by omega⟩

theorem bpushByte_close (B : BlockParams CV Digest) (s : BState CV) (b : UInt8) :
    bpushByte B (bcloseIfFull B s) b = bpushByte B s b := by
  simp only [bpushByte, bcloseIfFull_idem]

theorem foldl_bpushByte_close (B : BlockParams CV Digest) (s : BState CV) (xs : Bytes)
    (h : xs ≠ []) : xs.foldl (bpushByte B) (bcloseIfFull B s) = xs.foldl (bpushByte B) s := by
  cases xs with
  | nil => exact absurd rfl h
  | cons x xs => simp only [List.foldl_cons, bpushByte_close]

theorem foldl_bpushByte_fit (B : BlockParams CV Digest) (xs : Bytes) (s : BState CV)
    (h : s.chunk.len + xs.length ≤ 1024) :
    xs.foldl (bpushByte B) s = { s with chunk := xs.foldl (cpushByte B s.n) s.chunk } := by
  induction xs generalizing s with
  | nil => simp
  | cons x xs ih =>
    simp only [List.length_cons] at h
    have h1 : ¬ s.chunk.len = 1024 := by omega
    have hp : bpushByte B s x = { s with chunk := cpushByte B s.n s.chunk x } := by
      simp only [bpushByte, bcloseIfFull, h1, if_false]
    rw [List.foldl_cons, hp, ih _ (by simp only [cpushByte_len]; omega)]
    simp only [List.foldl_cons]

theorem bpushByte_wf (B : BlockParams CV Digest) {s : BState CV} (h : BWF s) (b : UInt8) :
    BWF (bpushByte B s b) := by
  obtain ⟨h1, h2⟩ := bcloseIfFull_lt B h
  refine ⟨?_, ?_⟩
  · exact cpushByte_wf B _ h1 b
  · simp only [bpushByte, cpushByte_len]; omega

theorem foldl_bpushByte_wf (B : BlockParams CV Digest) (xs : Bytes) {s : BState CV} (h : BWF s) :
    BWF (xs.foldl (bpushByte B) s) := by
  induction xs generalizing s with
  | nil => exact h
  | cons x xs ih => exact ih (bpushByte_wf B h x)

theorem bwriteF_eq_foldl (B : BlockParams CV Digest) :
    ∀ (fuel : Nat) (s : BState CV) (input : Bytes), BWF s → input.length ≤ fuel →
      bwriteF B fuel s input = input.foldl (bpushByte B) s := by
  intro fuel
  induction fuel with
  | zero =>
    intro s input _ hl
    have : input = [] := List.eq_nil_of_length_eq_zero (by omega)
    subst this; rfl
  | succ fuel ih =>
    intro s input hwf hl
    simp only [bwriteF]
    by_cases h0 : input.length = 0
    · have : input = [] := List.eq_nil_of_length_eq_zero h0
      subst this; simp
    · simp only [h0, if_false]
      obtain ⟨hb, hlt⟩ := bcloseIfFull_lt B hwf
      have key : ∀ t, t = min (1024 - (bcloseIfFull B s).chunk.len) input.length →
          bwriteF B fuel
            { bcloseIfFull B s with
              chunk := (bcloseIfFull B s).chunk.update B (bcloseIfFull B s).n (input.take t) }
            (input.drop t) = input.foldl (bpushByte B) s := by
        intro t ht
        have ht1 : 1 ≤ t := by omega
        have ht2 : t ≤ input.length := by omega
        have ht3 : (bcloseIfFull B s).chunk.len + t ≤ 1024 := by omega
        have htake : (input.take t).length = t := by simp only [List.length_take]; omega
        rw [update_eq_foldl B _ hb]
        rw [ih _ _ (by
              constructor
              · exact foldl_cpushByte_wf B _ _ hb
              · simp only [foldl_cpushByte_len, htake]; exact ht3)
              (by simp only [List.length_drop]; omega)]
        rw [← foldl_bpushByte_fit B (input.take t) (bcloseIfFull B s) (by rw [htake]; exact ht3)]
        rw [foldl_bpushByte_close B s _ (by
          intro hnil; rw [hnil] at htake; simp only [List.length_nil] at htake; omega)]
        rw [← List.foldl_append, List.take_append_drop]
      exact key _ rfl

theorem bwrite_eq_foldl (B : BlockParams CV Digest) {s : BState CV} (h : BWF s) (input : Bytes) :
    bwrite B s input = input.foldl (bpushByte B) s :=
  bwriteF_eq_foldl B input.length s input h (Nat.le_refl _)

theorem bwrite_wf (B : BlockParams CV Digest) {s : BState CV} (h : BWF s) (input : Bytes) :
    BWF (bwrite B s input) := by
  rw [bwrite_eq_foldl B h]; exact foldl_bpushByte_wf B input h

theorem breset_wf (B : BlockParams CV Digest) (s : BState CV) : BWF (breset B s) := by
  simp [BWF, breset, init_len]; simp [ChunkState.init]

theorem bwrite_append (B : BlockParams CV Digest) {s : BState CV} (h : BWF s) (a b : Bytes) :
    bwrite B (bwrite B s a) b = bwrite B s (a ++ b) := by
  rw [bwrite_eq_foldl B (bwrite_wf B h a), bwrite_eq_foldl B h a, bwrite_eq_foldl B h (a ++ b),
    List.foldl_append]

theorem foldl_bwrite_eq (B : BlockParams CV Digest) (chunks : List Bytes) {s : BState CV}
    (h : BWF s) : chunks.foldl (bwrite B) s = chunks.flatten.foldl (bpushByte B) s := by
  induction chunks generalizing s with
  | nil => rfl
  | cons c rest ih =>
    rw [List.foldl_cons, ih (bwrite_wf B h c), bwrite_eq_foldl B h, List.flatten_cons,
      List.foldl_append]

/-! ## Simulation -/

/-- The block-layer state `sb` and the tree-layer state `s` (over `B.toParams`) correspond. -/
def Sim (B : BlockParams CV Digest) (sb : BState CV) (s : State CV) : Prop :=
  sb.n = s.n ∧ sb.stack = s.stack ∧ ChunkRel B s.n sb.chunk s.cur

theorem sim_reset (B : BlockParams CV Digest) (sb : BState CV) (s : State CV) :
    Sim B (breset B sb) (reset s) :=
  ⟨rfl, rfl, chunkRel_init B 0⟩

theorem sim_pushByte (B : BlockParams CV Digest) {sb : BState CV} {s : State CV}
    (h : Sim B sb s) (b : UInt8) : Sim B (bpushByte B sb b) (pushByte B.toParams s b) := by
  obtain ⟨hn, hst, hrel⟩ := h
  have hlen : sb.chunk.len = s.cur.length := hrel.2.1
  by_cases hc : s.cur.length = 1024
  · have hc' : sb.chunk.len = 1024 := by rw [hlen]; exact hc
    have hcv : sb.chunk.outCV B s.n = chunkCVOf B s.cur s.n := chunkRel_outCV B s.n hrel
    refine ⟨?_, ?_, ?_⟩
    · simp [bpushByte, bcloseIfFull, hc', pushByte, closeIfFull, hc, closeChunk, hn]
    · simp [bpushByte, bcloseIfFull, hc', pushByte, closeIfFull, hc, closeChunk, hn, hst, hcv,
        BlockParams.toParams]
    · have := chunkRel_pushByte B (s.n + 1) (chunkRel_init B (s.n + 1)) b
      simpa [bpushByte, bcloseIfFull, hc', pushByte, closeIfFull, hc, closeChunk, hn] using this
  · have hc' : ¬ sb.chunk.len = 1024 := by rw [hlen]; exact hc
    refine ⟨?_, ?_, ?_⟩
    · simpa [bpushByte, bcloseIfFull, hc', pushByte, closeIfFull, hc] using hn
    · simpa [bpushByte, bcloseIfFull, hc', pushByte, closeIfFull, hc] using hst
    · have := chunkRel_pushByte B s.n hrel b
      simpa [bpushByte, bcloseIfFull, hc', pushByte, closeIfFull, hc, hn] using this

theorem sim_foldl (B : BlockParams CV Digest) (xs : Bytes) {sb : BState CV} {s : State CV}
    (h : Sim B sb s) : Sim B (xs.foldl (bpushByte B) sb) (xs.foldl (pushByte B.toParams) s) := by
  induction xs generalizing sb s with
  | nil => exact h
  | cons x xs ih => exact ih (sim_pushByte B h x)

/-- A lazy block-layer output and a lazy tree-layer node that compress to the same values. -/
def OutRel (B : BlockParams CV Digest) (o : BOut CV) (nd : Node CV) : Prop :=
  o.cv B = nd.cv B.toParams ∧ o.root B = nd.root B.toParams

theorem outRel_fold (B : BlockParams CV Digest) (st : List CV) {o : BOut CV} {nd : Node CV}
    (h : OutRel B o nd) :
    OutRel B (st.foldl (fun (out : BOut CV) (cv : CV) => BOut.parent cv (out.cv B)) o)
      (st.foldl (fun (out : Node CV) (cv : CV) => Node.parent cv (out.cv B.toParams)) nd) := by
  induction st generalizing o nd with
  | nil => exact h
  | cons cv st ih =>
    apply ih
    refine ⟨?_, ?_⟩
    · show B.parentCV cv (o.cv B) = B.parentCV cv (nd.cv B.toParams)
      rw [h.1]
    · show B.parentRoot cv (o.cv B) = B.parentRoot cv (nd.cv B.toParams)
      rw [h.1]

/-- Corresponding states have the same digest. -/
theorem sim_sum (B : BlockParams CV Digest) {sb : BState CV} {s : State CV} (h : Sim B sb s) :
    bsum B sb = sum B.toParams s := by
  obtain ⟨hn, hst, hrel⟩ := h
  have h0 : OutRel B (BOut.chunk sb.chunk sb.n) (Node.chunk s.cur s.n) := by
    refine ⟨?_, ?_⟩
    · show sb.chunk.outCV B sb.n = chunkCVOf B s.cur s.n
      rw [hn]; exact chunkRel_outCV B s.n hrel
    · show sb.chunk.outRoot B sb.n = chunkRootOf B s.cur s.n
      rw [hn]; exact chunkRel_outRoot B s.n hrel
  unfold bsum sum
  rw [hst]
  exact (outRel_fold B s.stack h0).2

end Dud.Blake3Incr
