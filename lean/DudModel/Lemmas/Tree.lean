import DudModel.Spec
/-!
# Helper lemmas for the tree round-trip theorems (C01 …)

Store algebra (`get`/`put`, `Consistent`, `Store.le`), manifest reading up to bytes, monotonicity of
`deref`, `sortChildren` on strictly increasing listings, the `checkoutChildren` loop on fresh names.
-/
namespace Dud

variable {κ : Type}

/-! ## checksums -/

theorem hasSum_empty : hasSum "" = false := by
  simp [hasSum]

theorem hasSum_H {ctx : Ctx κ} (g : Good ctx) (a : κ) : hasSum (ctx.H a) = true := by
  simp [hasSum, g.len a]

/-! ## the store -/

theorem Store.get_put (s : Store κ) (d d' : Digest) (o : Obj κ) :
    (s.put d o).get d' = if d = d' then some o else s.get d' := by
  simp [Store.get, Store.put, alookup]

theorem Store.get_put_self (s : Store κ) (d : Digest) (o : Obj κ) :
    (s.put d o).get d = some o := by
  simp [Store.get_put]

theorem Store.has_of_get {s : Store κ} {d : Digest} {o : Obj κ} (h : s.get d = some o) :
    s.has d = true := by
  simp [Store.has, h]

theorem Consistent.put {ctx : Ctx κ} {s : Store κ} (hc : Consistent ctx s) (o : Obj κ) :
    Consistent ctx (s.put (o.digest ctx) o) := by
  intro d o' h
  rw [Store.get_put] at h
  split at h
  · next hd => cases h; exact hd
  · exact hc _ _ h

theorem Store.le_refl (ctx : Ctx κ) (s : Store κ) : Store.le ctx s s :=
  fun _ o h => ⟨o, h, rfl⟩

theorem Store.le_trans {ctx : Ctx κ} {s1 s2 s3 : Store κ} (h12 : Store.le ctx s1 s2)
    (h23 : Store.le ctx s2 s3) : Store.le ctx s1 s3 := by
  intro d o h
  obtain ⟨o2, h2, hb2⟩ := h12 d o h
  obtain ⟨o3, h3, hb3⟩ := h23 d o2 h2
  exact ⟨o3, h3, hb3.trans hb2⟩

/-- Writing an object under its own digest never loses bytes of a consistent store (this is where
collision freedom of the hash is used). -/
theorem Store.le_put {ctx : Ctx κ} (g : Good ctx) {s : Store κ} (hc : Consistent ctx s)
    (o : Obj κ) : Store.le ctx s (s.put (o.digest ctx) o) := by
  intro d o' h
  rw [Store.get_put]
  by_cases hd : o.digest ctx = d
  · refine ⟨o, by simp [hd], ?_⟩
    have h' := hc d o' h
    exact g.inj _ _ (hd.trans h'.symm)
  · exact ⟨o', by simp [hd, h], rfl⟩

/-- Two manifests with the same bytes decode to the same entries (from `Good.dec` alone). -/
theorem encMan_reload_eq {ctx : Ctx κ} (g : Good ctx) {sch sch' : Schema} {p p' : Bytes}
    {cs cs' : List Child} (h : ctx.encMan sch' p' cs' = ctx.encMan sch p cs) :
    cs'.map (ctx.reload sch') = cs.map (ctx.reload sch) := by
  have h1 := g.dec sch' p' cs'
  rw [h, g.dec] at h1
  exact (Option.some.inj h1).symm

/-- Reading a manifest only depends on the bytes of the object found (the entries read must have
valid names, otherwise `readManifest` rejects the manifest). -/
theorem readManifest_of_bytes {ctx : Ctx κ} (g : Good ctx) {s : Store κ} {d : Digest} {o : Obj κ}
    {sch : Schema} {p : Bytes} {cs : List Child} (h : s.get d = some o)
    (hb : o.bytes ctx = ctx.encMan sch p cs) (hok : ChildrenOK (cs.map (ctx.reload sch))) :
    readManifest ctx s d = .ok (cs.map (ctx.reload sch)) := by
  rw [readManifest_eq, h]
  cases o with
  | blob c =>
    simp only [Obj.bytes] at hb
    subst hb
    simp only [g.dec]
    exact checkedChildren_ok hok
  | man sch' p' cs' =>
    simp only [Obj.bytes] at hb
    simp only [encMan_reload_eq g hb]
    exact checkedChildren_ok hok

/-! ## `deref` is monotone on trees that resolve completely -/

mutual
theorem deref_le (ctx : Ctx κ) {s s' : Store κ} (hle : Store.le ctx s s') :
    ∀ (n : Node κ), (deref ctx s n).plain = true → deref ctx s' n = deref ctx s n
  | .file c, _ => by simp [deref]
  | .link (.obj d), h => by
    cases hg : s.get d with
    | none => simp [deref, hg, Node.plain] at h
    | some o =>
      obtain ⟨o', h1, h2⟩ := hle d o hg
      simp [deref, hg, h1, h2]
  | .link (.foreign l), h => by simp [deref, Node.plain] at h
  | .other, h => by simp [deref, Node.plain] at h
  | .dir es, h => by
    simp only [deref, Node.plain] at h ⊢
    rw [derefList_le ctx hle es h]
theorem derefList_le (ctx : Ctx κ) {s s' : Store κ} (hle : Store.le ctx s s') :
    ∀ (es : List (Name × Node κ)), plainList (derefList ctx s es) = true →
      derefList ctx s' es = derefList ctx s es
  | [], _ => by simp [derefList]
  | (nm, n) :: r, h => by
    simp only [derefList, plainList, Bool.and_eq_true] at h ⊢
    rw [deref_le ctx hle n h.1, derefList_le ctx hle r h.2]
end

/-! ## sorted listings -/

theorem sortedList_cons {nm : Name} {n : Node κ} {r : List (Name × Node κ)}
    (h : sortedList ((nm, n) :: r) = true) : n.sorted = true ∧ sortedList r = true := by
  simp only [sortedList, Bool.and_eq_true] at h
  exact ⟨h.1.1, h.1.2⟩

theorem plainList_cons {nm : Name} {n : Node κ} {r : List (Name × Node κ)}
    (h : plainList ((nm, n) :: r) = true) : n.plain = true ∧ plainList r = true := by
  simpa [plainList] using h

/-- In a sorted listing the first name is strictly below all later ones. -/
theorem sortedList_head_lt : ∀ (r : List (Name × Node κ)) (nm : Name) (n : Node κ),
    sortedList ((nm, n) :: r) = true → ∀ e ∈ r, nm < e.1
  | [], _, _, _, e, he => by simp at he
  | (nm2, n2) :: r2, nm, n, h, e, he => by
    have hlt : nm < nm2 := by
      simp only [sortedList, headName, List.head?_cons, Option.map_some, Bool.and_eq_true,
        decide_eq_true_eq] at h
      exact h.2
    have htl := (sortedList_cons h).2
    rcases List.mem_cons.1 he with rfl | he'
    · exact hlt
    · exact List.lt_trans hlt (sortedList_head_lt r2 nm2 n2 htl e he')

theorem sortedList_head_ne {r : List (Name × Node κ)} {nm : Name} {n : Node κ}
    (h : sortedList ((nm, n) :: r) = true) : ∀ e ∈ r, nm ≠ e.1 := by
  intro e he heq
  have := sortedList_head_lt r nm n h e he
  rw [← heq] at this
  exact List.lt_irrefl _ this

theorem insertChild_lt (c x : Child) (xs : List Child) (h : c.name < x.name) :
    insertChild c (x :: xs) = c :: x :: xs := by
  have hne : c.name ≠ x.name := fun heq => List.lt_irrefl _ (heq ▸ h)
  simp [insertChild, hne, h]

/-- `sortChildren` is the identity on the children of a sorted listing. -/
theorem sortChildren_childrenOf (ctx : Ctx κ) : ∀ (es : List (Name × Node κ)),
    sortedList es = true → sortChildren (childrenOf ctx es) = childrenOf ctx es
  | [], _ => by simp [childrenOf, sortChildren]
  | (nm, n) :: r, h => by
    have ih := sortChildren_childrenOf ctx r (sortedList_cons h).2
    have hstep : sortChildren (childrenOf ctx ((nm, n) :: r)) =
        insertChild ⟨nm, treeDigest ctx nm n, n.isDir⟩ (sortChildren (childrenOf ctx r)) := by
      simp [childrenOf, sortChildren]
    rw [hstep, ih]
    match r, h with
    | [], _ => simp [childrenOf, insertChild]
    | (nm2, n2) :: r2, h =>
      have hlt : nm < nm2 := sortedList_head_lt _ nm n h (nm2, n2) (by simp)
      simp only [childrenOf]
      exact insertChild_lt _ _ _ hlt

/-- entries whose names the decoder leaves alone are reloaded unchanged -/
theorem map_reload_childrenOf (ctx : Ctx κ) (sch : Schema) : ∀ (es : List (Name × Node κ)),
    (∀ e ∈ es, ∀ sum isDir, ctx.reload sch ⟨e.1, sum, isDir⟩ = ⟨e.1, sum, isDir⟩) →
      (childrenOf ctx es).map (ctx.reload sch) = childrenOf ctx es
  | [], _ => by simp [childrenOf]
  | (nm, n) :: r, h => by
    simp only [childrenOf, List.map_cons]
    rw [h (nm, n) (by simp), map_reload_childrenOf ctx sch r (fun e he => h e (by simp [he]))]

/-! ## names of a tree -/

theorem mem_allNamesList_head {nm : Name} {n : Node κ} {r : List (Name × Node κ)} :
    nm ∈ allNamesList ((nm, n) :: r) := by simp [allNamesList]

theorem mem_allNamesList_of_node {nm x : Name} {n : Node κ} {r : List (Name × Node κ)}
    (h : x ∈ allNames n) : x ∈ allNamesList ((nm, n) :: r) := by simp [allNamesList, h]

theorem mem_allNamesList_of_tail {nm x : Name} {n : Node κ} {r : List (Name × Node κ)}
    (h : x ∈ allNamesList r) : x ∈ allNamesList ((nm, n) :: r) := by simp [allNamesList, h]

theorem mem_allNamesList_of_mem : ∀ {es : List (Name × Node κ)} {e : Name × Node κ},
    e ∈ es → e.1 ∈ allNamesList es
  | (nm, n) :: r, e, he => by
    rcases List.mem_cons.1 he with rfl | he'
    · exact mem_allNamesList_head
    · exact mem_allNamesList_of_tail (mem_allNamesList_of_mem he')

/-! ## the checkout loop on names that are not there yet -/

theorem alookup_fresh {β : Type} : ∀ (acc : List (Name × β)) (nm : Name),
    (∀ p ∈ acc, p.1 ≠ nm) → alookup acc nm = none
  | [], _, _ => rfl
  | (k, v) :: r, nm, h => by
    have hk : k ≠ nm := h (k, v) (by simp)
    simp only [alookup, beq_iff_eq, hk, if_false]
    exact alookup_fresh r nm (fun p hp => h p (by simp [hp]))

theorem setEntry_fresh : ∀ (acc : List (Name × Node κ)) (nm : Name) (n : Node κ),
    (∀ p ∈ acc, p.1 ≠ nm) → setEntry acc nm n = acc ++ [(nm, n)]
  | [], _, _, _ => rfl
  | (k, v) :: r, nm, n, h => by
    have hk : k ≠ nm := h (k, v) (by simp)
    simp only [setEntry, beq_iff_eq, hk, if_false, List.cons_append]
    rw [setEntry_fresh r nm n (fun p hp => h p (by simp [hp]))]

/-- One turn of the `checkoutWorker` loop for an entry whose name is not in the directory yet:
the checked-out node is appended to the listing. -/
theorem checkoutChildren_cons_fresh (f : Option (Node κ) → Child → Except Err (Node κ))
    (acc : List (Name × Node κ)) (c : Child) (cs : List Child) (n : Node κ)
    (hfresh : ∀ p ∈ acc, p.1 ≠ c.name) (hf : f none c = .ok n) :
    checkoutChildren f acc (c :: cs) = checkoutChildren f (acc ++ [(c.name, n)]) cs := by
  simp only [checkoutChildren, alookup_fresh acc c.name hfresh, hf,
    setEntry_fresh acc c.name n hfresh]

/-- `checkoutFile` into an empty place, from any store holding the bytes under their digest. -/
theorem checkoutFile_fresh {ctx : Ctx κ} (g : Good ctx) {s : Store κ} {x : κ} {o : Obj κ}
    (h : s.get (ctx.H x) = some o) (hb : o.bytes ctx = x) (strat : Strat) :
    ∃ r, checkoutFile ctx strat none (ctx.H x) s = .ok r ∧ deref ctx s r = .file x := by
  have hh := hasSum_H g x
  have hhas := Store.has_of_get h
  cases strat with
  | link =>
    exact ⟨.link (.obj (ctx.H x)), by simp [checkoutFile, upToDateCopy, quick, hh, hhas, h],
      by simp [deref, h, hb]⟩
  | copy =>
    exact ⟨.file x, by simp [checkoutFile, upToDateCopy, quick, hh, hhas, h, hb], by simp [deref]⟩

/-! ## plain trees are their own logical content -/

mutual
theorem deref_plain (ctx : Ctx κ) (s : Store κ) :
    ∀ (n : Node κ), n.plain = true → deref ctx s n = n
  | .file c, _ => by simp [deref]
  | .dir es, h => by
    simp only [Node.plain] at h
    simp only [deref]
    rw [derefList_plain ctx s es h]
  | .link _, h => by simp [Node.plain] at h
  | .other, h => by simp [Node.plain] at h
theorem derefList_plain (ctx : Ctx κ) (s : Store κ) :
    ∀ (es : List (Name × Node κ)), plainList es = true → derefList ctx s es = es
  | [], _ => by simp [derefList]
  | (nm, n) :: r, h => by
    simp only [derefList]
    rw [deref_plain ctx s n (plainList_cons h).1, derefList_plain ctx s r (plainList_cons h).2]
end

/-! ## filtering a listing -/

theorem plainList_filter (p : Name × Node κ → Bool) : ∀ (es : List (Name × Node κ)),
    plainList es = true → plainList (es.filter p) = true
  | [], _ => by simp [plainList]
  | (nm, n) :: r, h => by
    have ih := plainList_filter p r (plainList_cons h).2
    simp only [List.filter_cons]
    split
    · simp [plainList, (plainList_cons h).1, ih]
    · exact ih

theorem headName_mem {es : List (Name × Node κ)} {x : Name} (h : headName es = some x) :
    ∃ e ∈ es, e.1 = x := by
  cases es with
  | nil => simp [headName] at h
  | cons e r => exact ⟨e, by simp, by simpa [headName] using h⟩

theorem sortedList_filter (p : Name × Node κ → Bool) : ∀ (es : List (Name × Node κ)),
    sortedList es = true → sortedList (es.filter p) = true
  | [], _ => by simp [sortedList]
  | (nm, n) :: r, h => by
    have ih := sortedList_filter p r (sortedList_cons h).2
    simp only [List.filter_cons]
    split
    · simp only [sortedList, Bool.and_eq_true]
      refine ⟨⟨(sortedList_cons h).1, ih⟩, ?_⟩
      cases hh : headName (r.filter p) with
      | none => rfl
      | some nm2 =>
        obtain ⟨e, he, rfl⟩ := headName_mem hh
        have := sortedList_head_lt r nm n h e (List.mem_filter.1 he).1
        simp [this]
    · exact ih

theorem mem_allNamesList_filter (p : Name × Node κ → Bool) : ∀ (es : List (Name × Node κ))
    (x : Name), x ∈ allNamesList (es.filter p) → x ∈ allNamesList es
  | [], _, h => by simpa using h
  | (nm, n) :: r, x, h => by
    simp only [List.filter_cons] at h
    split at h
    · simp only [allNamesList, List.mem_cons, List.mem_append] at h ⊢
      rcases h with h | h | h
      · exact Or.inl h
      · exact Or.inr (Or.inl h)
      · exact Or.inr (Or.inr (mem_allNamesList_filter p r x h))
    · exact mem_allNamesList_of_tail (mem_allNamesList_filter p r x h)

/-! ## old manifests -/

/-- `readManifest` is a function of the bytes found under the digest. -/
theorem readManifest_eq_dec {ctx : Ctx κ} (g : Good ctx) {s : Store κ} {d : Digest} {o : Obj κ}
    (h : s.get d = some o) :
    readManifest ctx s d = match ctx.decBlob (o.bytes ctx) with
      | some cs => checkedChildren cs
      | none => .error .badManifest := by
  rw [readManifest_eq, h]
  cases o with
  | blob c => rfl
  | man sch p cs => simp only [Obj.bytes, g.dec]

theorem readManifest_bytes {ctx : Ctx κ} (g : Good ctx) {s s1 : Store κ} {d : Digest}
    {o o1 : Obj κ} (h : s.get d = some o) (h1 : s1.get d = some o1)
    (hb : o1.bytes ctx = o.bytes ctx) : readManifest ctx s1 d = readManifest ctx s d := by
  rw [readManifest_eq_dec g h, readManifest_eq_dec g h1, hb]

/-- The old manifest commit starts from does not change when the store grows, provided the
checksum (if any) was present. -/
theorem oldManifest_le {ctx : Ctx κ} (g : Good ctx) {s s1 : Store κ} (hle : Store.le ctx s s1)
    {sum : Digest} (hpres : hasSum sum = true → s.has sum = true) :
    oldManifest ctx s1 sum = oldManifest ctx s sum := by
  unfold oldManifest
  cases hh : hasSum sum with
  | false => simp
  | true =>
    have hhas := hpres hh
    cases hg : s.get sum with
    | none => simp [Store.has, hg] at hhas
    | some o =>
      obtain ⟨o1, h1, hb⟩ := hle sum o hg
      simp [Store.has_of_get hg, Store.has_of_get h1, readManifest_bytes g hg h1 hb]

theorem oldManifest_empty (ctx : Ctx κ) (s : Store κ) : oldManifest ctx s "" = .ok [] := by
  simp [oldManifest, hasSum_empty]

theorem findChild_name {old : List Child} {nm : Bytes} {k : Child}
    (h : findChild old nm = some k) : k.name = nm := by
  have := List.find?_some h
  simpa using this

theorem findChild_nil (nm : Bytes) : findChild [] nm = none := rfl

/-- commit accepts, the decoder leaves alone and `readManifest` accepts every entry name of the
listing (at any depth) -/
def NamesOKList (ctx : Ctx κ) (es : List (Name × Node κ)) : Prop :=
  ∀ nm, nm ∈ allNamesList es → ctx.nameOK nm = true ∧
    (∀ sch sum isDir, ctx.reload sch ⟨nm, sum, isDir⟩ = ⟨nm, sum, isDir⟩) ∧
    entryNameOK nm = true

theorem namesOK_node {ctx : Ctx κ} {nm : Name} {n : Node κ} {r : List (Name × Node κ)}
    (h : NamesOKList ctx ((nm, n) :: r)) : NamesOK ctx n :=
  fun x hx => h x (mem_allNamesList_of_node hx)

theorem namesOK_tail {ctx : Ctx κ} {nm : Name} {n : Node κ} {r : List (Name × Node κ)}
    (h : NamesOKList ctx ((nm, n) :: r)) : NamesOKList ctx r :=
  fun x hx => h x (mem_allNamesList_of_tail hx)

theorem namesOK_head {ctx : Ctx κ} {nm : Name} {n : Node κ} {r : List (Name × Node κ)}
    (h : NamesOKList ctx ((nm, n) :: r)) : ctx.nameOK nm = true ∧
      ∀ sch sum isDir, ctx.reload sch ⟨nm, sum, isDir⟩ = ⟨nm, sum, isDir⟩ :=
  ⟨(h nm mem_allNamesList_head).1, (h nm mem_allNamesList_head).2.1⟩

theorem namesOK_head_entry {ctx : Ctx κ} {nm : Name} {n : Node κ} {r : List (Name × Node κ)}
    (h : NamesOKList ctx ((nm, n) :: r)) : entryNameOK nm = true :=
  (h nm mem_allNamesList_head).2.2

/-- the names of the direct entries of a listing with valid names -/
theorem NamesOKList.entry {ctx : Ctx κ} {es : List (Name × Node κ)} (h : NamesOKList ctx es)
    {e : Name × Node κ} (he : e ∈ es) : entryNameOK e.1 = true :=
  (h e.1 (mem_allNamesList_of_mem he)).2.2

/-- the reference children of a listing with valid names are accepted by `readManifest` -/
theorem childrenOK_childrenOf {ctx : Ctx κ} : ∀ {es : List (Name × Node κ)},
    NamesOKList ctx es → ChildrenOK (childrenOf ctx es)
  | [], _ => by simpa [childrenOf] using ChildrenOK.nil
  | (_, _) :: _, h => by
    simp only [childrenOf]
    exact ChildrenOK.cons (namesOK_head_entry h) (childrenOK_childrenOf (namesOK_tail h))

theorem namesOK_dir {ctx : Ctx κ} {es : List (Name × Node κ)} (h : NamesOK ctx (.dir es)) :
    NamesOKList ctx es := fun x hx => h x (by simpa [allNames] using hx)

theorem Store.has_le {ctx : Ctx κ} {s s1 : Store κ} (hle : Store.le ctx s s1) {d : Digest}
    (h : s.has d = true) : s1.has d = true := by
  cases hg : s.get d with
  | none => simp [Store.has, hg] at h
  | some o =>
    obtain ⟨o1, h1, _⟩ := hle d o hg
    exact Store.has_of_get h1

/-- re-writing bytes that are already there adds nothing -/
theorem Store.put_le_of_present {ctx : Ctx κ} {s2 s : Store κ} (hle : Store.le ctx s2 s)
    {d : Digest} {m o : Obj κ} (ho : s.get d = some o) (hb : o.bytes ctx = m.bytes ctx) :
    Store.le ctx (s2.put d m) s := by
  intro d' o' h
  rw [Store.get_put] at h
  split at h
  · next hd => cases h; subst hd; exact ⟨o, ho, hb⟩
  · exact hle d' o' h

end Dud
