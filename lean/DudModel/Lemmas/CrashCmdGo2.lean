import DudModel.Lemmas.CrashCmdGo
import DudModel.Props.C08
/-!
# Go's order, stage files: "the complete encoding of the stage of the FINAL index"

With the stage files written after each target, the bytes written for stage `sp` encode the stage the
index holds at the end of that target's traversal.  That this is also what the final index holds needs a
fact about the traversal: a stage that is done is never acted on again, and acting on another stage
leaves its index entry alone.

* `commitAct_idx_stable` — `commitAct sp` changes the index at `sp` only
* `commitTravT_lawfulOn` — the traced traversal obeys the traversal laws (from `commitTrav_lawfulOn`)
* `visit_commitTravT_stable` — a successful traversal keeps the index entries of the stages already done
* `StageQF`, `GInv2`, `go_step2`, `goTargets_inv2`
-/
namespace Dud.Sys
open Dud
variable {κ : Type}

theorem commitAct_idx_stable (cfg : Cfg κ) (strat : Strat) (sp : Bytes) (w w' : World κ)
    (h : commitAct cfg strat sp w = .ok w') :
    w'.done = sp :: w.done ∧ ∀ x, x ≠ sp → alookup w'.idx x = alookup w.idx x := by
  simp only [commitAct] at h
  cases hs : w.stage sp with
  | error e => rw [hs] at h; cases h
  | ok stg =>
    rw [hs] at h
    simp only at h
    split at h
    · cases h
    rename_i plain' w1 hc1
    split at h
    · cases h
    rename_i _ outs' w2 hc2
    cases h
    obtain ⟨f1, f2, -⟩ := commitArts_frame cfg strat _ _ w w1 hc1
    obtain ⟨g1, g2, -⟩ := commitArts_frame cfg strat _ _ w1 w2 hc2
    refine ⟨by simp only [g2, f2], fun x hx => ?_⟩
    simp only [g1, f1]
    exact WT.alookup_setStage_ne _ _ hx

theorem commitTravT_act_ok {c : CmdCfg κ} {strat : Strat} {sp : Bytes}
    {p p' : World κ × List (List (Call κ))} (h : (commitTravT c strat).act sp p = .ok p') :
    (commitTrav c.cfg strat).act sp p.1 = .ok p'.1 :=
  (map_fst_eq (commitTravT_act_refines c strat sp p)).2 p'.1 p'.2 h

/-- the traced traversal obeys the laws of the traversal (owners from the shape of the index, acting
marks exactly that stage done, the shape is kept) -/
theorem commitTravT_lawfulOn (c : CmdCfg κ) (strat : Strat) (idx0 : Index) (hk : (idx0.map (·.1)).Nodup) :
    (commitTravT c strat).LawfulOn (ownIdx c.cfg idx0) (fun p => SameShape p.1.idx idx0) where
  owners_eq := fun p sp os hi h => (commitTrav_lawfulOn c.cfg strat idx0 hk).owners_eq p.1 sp os hi h
  act_done := fun sp p p' hi h x =>
    (commitTrav_lawfulOn c.cfg strat idx0 hk).act_done sp p.1 p'.1 hi (commitTravT_act_ok h) x
  act_inv := fun sp p p' hi h =>
    (commitTrav_lawfulOn c.cfg strat idx0 hk).act_inv sp p.1 p'.1 hi (commitTravT_act_ok h)

/-- **a successful traversal keeps the index entries of the stages that were done before it** -/
theorem visit_commitTravT_stable {c : CmdCfg κ} {strat : Strat} {idx0 : Index}
    (hk : (idx0.map (·.1)).Nodup) {fuel : Nat} {avail : List Bytes} {t : Bytes}
    {p p' : World κ × List (List (Call κ))} (hi : SameShape p.1.idx idx0)
    (h : visit (commitTravT c strat) true fuel avail t p = .ok p') :
    SameShape p'.1.idx idx0 ∧
      ∀ x, x ∈ p.1.done → x ∈ p'.1.done ∧ alookup p'.1.idx x = alookup p.1.idx x := by
  have hT := commitTravT_lawfulOn c strat idx0 hk
  refine ⟨(visit_ok hT hi h).1, fun x hx => ?_⟩
  obtain ⟨l', hl⟩ := visit_ok_logged h []
  refine visit_preserves hT
    (Q := fun q => x ∈ q.1.1.done ∧ alookup q.1.1.idx x = alookup p.1.idx x)
    (fun sp q q' _ hq hnd _ hact => ?_) fuel avail t (p, []) (p', l') hi ⟨hx, rfl⟩ hl
  obtain ⟨s, hs, rfl⟩ := logged_act_inv hact
  obtain ⟨hd, hst⟩ := commitAct_idx_stable _ _ _ _ _ (commitTravT_act_ok hs)
  have hne : x ≠ sp := by
    rintro rfl
    have : q.1.1.done.contains x = true := by simpa using hq.1
    simp only [commitTravT] at hnd
    rw [this] at hnd; cases hnd
  exact ⟨by rw [hd]; exact List.mem_cons_of_mem _ hq.1, by rw [hst x hne]; exact hq.2⟩

/-! ## the stronger stage-file property -/

/-- the stage file `sp` holds `old`, or `sp` is done and the file holds the complete encoding of the stage
the index holds -/
def StageQF (c : CmdCfg κ) (sp : Bytes) (old : Option (Entry κ)) (idx : Index) (done : List Bytes)
    (fs : FS κ) : Prop :=
  fs.get (.stageFile sp) = old ∨
    (sp ∈ done ∧ ∃ stg m, alookup idx sp = some stg ∧ fs.get (.stageFile sp) = some (.file (c.encStage stg) m))

theorem StageQF.mono {c : CmdCfg κ} {sp : Bytes} {old : Option (Entry κ)} {idx idx' : Index}
    {done done' : List Bytes} {fs : FS κ} (h : StageQF c sp old idx done fs)
    (hm : ∀ x, x ∈ done → x ∈ done' ∧ alookup idx' x = alookup idx x) : StageQF c sp old idx' done' fs := by
  rcases h with h | ⟨hd, stg, m, hst, hg⟩
  · exact .inl h
  · exact .inr ⟨(hm sp hd).1, stg, m, by rw [(hm sp hd).2]; exact hst, hg⟩

theorem PrefixAll.mono {Q Q' : FS κ → Prop} {emp : κ} {fs : FS κ} {calls : List (Call κ)}
    (h : PrefixAll Q emp fs calls) (hq : ∀ fs', Q fs' → Q' fs') : PrefixAll Q' emp fs calls :=
  fun k => hq _ (h k)

theorem stageQF_frame (c : CmdCfg κ) (sp : Bytes) (old : Option (Entry κ)) (idx : Index) (done : List Bytes)
    (emp : κ) {fs : FS κ} (h : StageQF c sp old idx done fs) {calls : List (Call κ)}
    (hc : ∀ x ∈ calls, P.stageFile sp ∉ callWrites x) :
    PrefixAll (StageQF c sp old idx done) emp fs calls := by
  intro k
  unfold StageQF
  rw [replay_get_frame emp _ _ _ (fun x hx => hc x (List.mem_of_mem_take hx))]
  exact h

theorem mem_newlyDone {d d' : List Bytes} {sp : Bytes} (h : sp ∈ newlyDone d d') : sp ∈ d' := by
  simp only [newlyDone, List.mem_reverse, List.mem_filter] at h
  exact h.1

theorem stageQF_metaPhase (c : CmdCfg κ) (hat : stageAtomic = true) {emp : κ}
    (hemp : ∀ x, c.isEmp x = true → x = emp) (idx : Index) (done : List Bytes) (sp : Bytes)
    (old : Option (Entry κ)) (l : List Bytes) (hl : ∀ x ∈ l, x ∈ done) {fs : FS κ} (htf : StageTmpFree fs)
    (h : StageQF c sp old idx done fs) :
    PrefixAll (StageQF c sp old idx done) emp fs (l.map (stageWriteCalls c idx)).flatten := by
  by_cases hsp : sp ∈ l
  · intro k
    rcases metaPhase_atomic c hat hemp idx sp l fs (fs.get (.stageFile sp)) htf (.inl rfl) k
      with h1 | ⟨stg, m, hst, h1⟩
    · unfold StageQF; rw [h1]; exact h
    · exact .inr ⟨hl sp hsp, stg, m, hst, h1⟩
  · refine stageQF_frame c sp old idx done emp h (fun x hx hmem => ?_)
    simp only [List.mem_flatten, List.mem_map] at hx
    obtain ⟨seg, ⟨y, hy, rfl⟩, hxs⟩ := hx
    rcases stageWriteCalls_paths c idx y x hxs _ (callWrites_sub _ _ hmem) with h' | h'
    · injection h' with h'; exact hsp (h' ▸ hy)
    · cases h'

structure GInv2 (c : CmdCfg κ) (emp : κ) (idx0 : Index) (fsb : FS κ)
    (p : World κ × List (Bool × List (Call κ))) : Prop where
  shape : SameShape p.1.idx idx0
  stageF : ∀ sp, PrefixAll (StageQF c sp (fsb.get (.stageFile sp)) p.1.idx p.1.done) emp fsb (flatSegs p.2)

theorem GInv2.init {c : CmdCfg κ} {emp : κ} {fsb : FS κ} (w : World κ) : GInv2 c emp w.idx fsb (w, []) where
  shape := SameShape.refl _
  stageF := fun _ => PrefixAll.nil (.inl rfl)

theorem go_step2 {c : CmdCfg κ} {strat : Strat} (g : Good c.cfg.ctx) (hat : stageAtomic = true)
    {tracked : List (P × κ)} (htw : TrackedWs tracked) {emp : κ} (hemp : ∀ x, c.isEmp x = true → x = emp)
    {fsb : FS κ} (hsb : Safe c.cfg.ctx tracked fsb) {idx0 : Index} (hk : (idx0.map (·.1)).Nodup) {t : Bytes}
    {p : World κ × List (Bool × List (Call κ))} {w' : World κ} {arts : List (List (Call κ))}
    (hi : GInv c emp tracked fsb p) (hi2 : GInv2 c emp idx0 fsb p)
    (hv : visit (commitTravT c strat) true (p.1.idx.length + 1) (allStages p.1) t (p.1, []) = .ok (w', arts)) :
    GInv2 c emp idx0 fsb (w', p.2 ++ arts.map (fun s => (true, s)) ++
      (newlyDone p.1.done w'.done).map (fun sp => (false, stageWriteCalls c w'.idx sp))) := by
  obtain ⟨hT, -⟩ := go_step g hat htw hemp hsb hi hv
  obtain ⟨hshape, hstab⟩ := visit_commitTravT_stable (p := (p.1, [])) hk hi2.shape hv
  refine ⟨hshape, fun sp => ?_⟩
  simp only [flatSegs_append, flatSegs_arts, flatSegs_metas]
  have hA : PrefixAll (StageQF c sp (fsb.get (.stageFile sp)) w'.idx w'.done) emp fsb (flatSegs p.2) :=
    (hi2.stageF sp).mono (fun fs' h => h.mono hstab)
  have hB := stageQF_frame c sp (fsb.get (.stageFile sp)) w'.idx w'.done emp hA.final
    (calls := arts.flatten) (fun x hx => cacheOnly_not_writes (hT.cacheOnly x hx) rfl)
  have hAB := PrefixAll.append hA hB
  refine PrefixAll.append hAB ?_
  refine stageQF_metaPhase c hat hemp w'.idx w'.done sp _ _ (fun x hx => mem_newlyDone hx) ?_ hAB.final
  rw [replay_append]
  exact stageTmpFree_frame emp hi.tmpFree hT.cacheOnly

theorem goTargets_inv2 {c : CmdCfg κ} {strat : Strat} (g : Good c.cfg.ctx) (hat : stageAtomic = true)
    {tracked : List (P × κ)} (htw : TrackedWs tracked) {emp : κ} (hemp : ∀ x, c.isEmp x = true → x = emp)
    {fsb : FS κ} (hsb : Safe c.cfg.ctx tracked fsb) {idx0 : Index} (hk : (idx0.map (·.1)).Nodup) :
    ∀ (ts : List Bytes) (p p' : World κ × List (Bool × List (Call κ))), GInv c emp tracked fsb p →
      GInv2 c emp idx0 fsb p → goTargets c strat ts p = .ok p' →
      GInv c emp tracked fsb p' ∧ GInv2 c emp idx0 fsb p'
  | [], p, p', hi, hi2, h => by simp only [goTargets] at h; cases h; exact ⟨hi, hi2⟩
  | t :: r, p, p', hi, hi2, h => by
    simp only [goTargets] at h
    split at h
    · cases h
    · cases hv : visit (commitTravT c strat) true (p.1.idx.length + 1) (allStages p.1) t (p.1, []) with
      | error e => rw [hv] at h; cases h
      | ok q =>
        obtain ⟨w', arts⟩ := q
        rw [hv] at h
        simp only at h
        exact goTargets_inv2 g hat htw hemp hsb hk r _ p' (go_step g hat htw hemp hsb hi hv).2
          (go_step2 g hat htw hemp hsb hk hi hi2 hv) h

end Dud.Sys
