import DudModel.Lemmas.Shuffle
import DudModel.Lemmas.CrashCheckoutCmd
/-!
# Concurrent checkout workers: the per-path argument

Every mutating call `dud checkout` issues (`mkdir`, `symlink`, `create_excl`, `write`, `unlink`) acts on
ONE path: what it leaves at that path depends on what was at that path and on nothing else, and it changes
nothing anywhere else (`apply_get_local`, `apply_get_frame`).  Hence what a trace leaves at a path `q` is
what its sub-sequence of calls AT `q` leaves there (`replay_get_filter`), and two traces with the same
sub-sequence at every path (`SamePerPath`) are indistinguishable: they end in the same file system, and
every crash state of one looks, at any single path, like some crash state of the other
(`SamePerPath.replay_get`, `SamePerPath.take_get`).

The workers of one `checkoutDir` own pairwise disjoint sets of paths (different entry names below the same
directory), so every interleaving of their traces is `SamePerPath` to their concatenation
(`shuffleN_samePerPath_flatten`).  By induction over the manifest tree every trace of the nested concurrent
checkout (`ParCheckoutTrace`) is `SamePerPath` to the sequential trace `checkoutNodeT` of the model
(`parCheckout_seq`), which is one of them (`checkoutNodeT_parTrace`), as is the sequential trace with the
siblings of every directory permuted (`seqPerm_parTrace`).
-/
namespace Dud.Sys
open Dud
variable {κ : Type}

/-! ## calls that act on a single path -/

/-- the path a call acts on (for `rename`: the destination; `rename` is not single-path) -/
def cpath : Call κ → P
  | .mkdir p => p
  | .createExcl p => p
  | .createTrunc p => p
  | .writePart p => p
  | .write p _ => p
  | .rename _ d => d
  | .chmod p _ => p
  | .unlink p => p
  | .symlink _ p => p

/-- every call except `rename` reads and writes one path only -/
def isSingle : Call κ → Bool
  | .rename _ _ => false
  | _ => true

def AllSingle (l : List (Call κ)) : Prop := ∀ c ∈ l, isSingle c = true

theorem AllSingle.append {l1 l2 : List (Call κ)} (h1 : AllSingle l1) (h2 : AllSingle l2) :
    AllSingle (l1 ++ l2) := by
  intro c hc
  rcases List.mem_append.1 hc with h | h
  · exact h1 c h
  · exact h2 c h

theorem AllSingle.take {l : List (Call κ)} (h : AllSingle l) (k : Nat) : AllSingle (l.take k) :=
  fun c hc => h c (List.mem_of_mem_take hc)

theorem callWrites_of_single {c : Call κ} (h : isSingle c = true) : callWrites c = [cpath c] := by
  cases c <;> simp [isSingle] at h <;> rfl

/-- **locality**: what a single-path call leaves at its path depends only on what was there -/
theorem apply_get_local (emp : κ) {c : Call κ} (hc : isSingle c = true) {fs fs' : FS κ}
    (h : fs.get (cpath c) = fs'.get (cpath c)) :
    (apply emp fs c).get (cpath c) = (apply emp fs' c).get (cpath c) := by
  cases c with
  | rename s d => simp [isSingle] at hc
  | mkdir p =>
    simp only [cpath] at h ⊢
    simp only [apply]; rw [h]
    cases hg : fs'.get p <;> simp [FS.get_set, h, hg]
  | createExcl p =>
    simp only [cpath] at h ⊢
    simp only [apply]; rw [h]
    cases hg : fs'.get p <;> simp [FS.get_set, h, hg]
  | createTrunc p => simp [cpath, apply, FS.get_set]
  | writePart p =>
    simp only [cpath] at h ⊢
    simp only [apply]; rw [h]
    cases hg : fs'.get p with
    | none => simp [h, hg]
    | some e => cases e <;> simp [FS.get_set, h, hg]
  | write p x =>
    simp only [cpath] at h ⊢
    simp only [apply]; rw [h]
    cases hg : fs'.get p with
    | none => simp [h, hg]
    | some e => cases e <;> simp [FS.get_set, h, hg]
  | chmod p m =>
    simp only [cpath] at h ⊢
    simp only [apply]; rw [h]
    cases hg : fs'.get p with
    | none => simp [h, hg]
    | some e => cases e <;> simp [FS.get_set, h, hg]
  | unlink p => simp [cpath, apply, FS.get_del]
  | symlink t p =>
    simp only [cpath] at h ⊢
    simp only [apply]; rw [h]
    cases hg : fs'.get p <;> simp [FS.get_set, h, hg]

/-- a trace of single-path calls at `q`: what it leaves at `q` depends only on what was at `q` -/
theorem replay_get_local (emp : κ) (q : P) : ∀ (l : List (Call κ)) (fs fs' : FS κ),
    (∀ c ∈ l, isSingle c = true ∧ cpath c = q) → fs.get q = fs'.get q →
    (replay emp fs l).get q = (replay emp fs' l).get q
  | [], _, _, _, h => h
  | c :: l, fs, fs', hl, h => by
    rw [replay_cons, replay_cons]
    obtain ⟨hs, hq⟩ := hl c List.mem_cons_self
    refine replay_get_local emp q l _ _ (fun c' hc' => hl c' (List.mem_cons_of_mem _ hc')) ?_
    subst hq
    exact apply_get_local emp hs h

/-- the call acts on path `q` -/
def onPath (q : P) (c : Call κ) : Bool := cpath c == q

theorem onPath_iff {q : P} {c : Call κ} : onPath q c = true ↔ cpath c = q := by
  simp [onPath]

/-- **what a trace of single-path calls leaves at `q` is what its calls at `q` leave there** -/
theorem replay_get_filter (emp : κ) (q : P) : ∀ (l : List (Call κ)) (fs : FS κ), AllSingle l →
    (replay emp fs l).get q = (replay emp fs (l.filter (onPath q))).get q
  | [], _, _ => rfl
  | c :: l, fs, hl => by
    have hl' : AllSingle l := fun c' hc' => hl c' (List.mem_cons_of_mem _ hc')
    rw [replay_cons, replay_get_filter emp q l _ hl']
    cases hp : onPath q c with
    | true => rw [List.filter_cons, hp, if_pos rfl, replay_cons]
    | false =>
      rw [List.filter_cons, hp]
      simp only [Bool.false_eq_true, if_false]
      refine replay_get_local emp q _ _ _ (fun c' hc' => ?_) ?_
      · obtain ⟨hm, hq⟩ := List.mem_filter.1 hc'
        exact ⟨hl' c' hm, onPath_iff.1 hq⟩
      · refine apply_get_frame emp fs c q ?_
        rw [callWrites_of_single (hl c List.mem_cons_self)]
        intro hmem
        simp only [List.mem_singleton] at hmem
        have : onPath q c = true := onPath_iff.2 hmem.symm
        rw [hp] at this; cases this

/-! ## traces with the same calls, in the same order, at every path -/

/-- the two traces issue, at every path, the same calls in the same order (they may differ in how the calls
at DIFFERENT paths are ordered relative to each other) -/
def SamePerPath (l l' : List (Call κ)) : Prop := ∀ q, l.filter (onPath q) = l'.filter (onPath q)

theorem SamePerPath.refl (l : List (Call κ)) : SamePerPath l l := fun _ => rfl
theorem SamePerPath.symm {l l' : List (Call κ)} (h : SamePerPath l l') : SamePerPath l' l :=
  fun q => (h q).symm
theorem SamePerPath.trans {l1 l2 l3 : List (Call κ)} (h1 : SamePerPath l1 l2) (h2 : SamePerPath l2 l3) :
    SamePerPath l1 l3 := fun q => (h1 q).trans (h2 q)

theorem SamePerPath.append {a a' b b' : List (Call κ)} (h1 : SamePerPath a a') (h2 : SamePerPath b b') :
    SamePerPath (a ++ b) (a' ++ b') := by
  intro q; rw [List.filter_append, List.filter_append, h1 q, h2 q]

theorem SamePerPath.mem {l l' : List (Call κ)} (h : SamePerPath l l') (c : Call κ) : c ∈ l ↔ c ∈ l' := by
  have key : ∀ {a b : List (Call κ)}, SamePerPath a b → c ∈ a → c ∈ b := by
    intro a b hab hc
    have : c ∈ a.filter (onPath (cpath c)) := List.mem_filter.2 ⟨hc, onPath_iff.2 rfl⟩
    rw [hab] at this
    exact (List.mem_filter.1 this).1
  exact ⟨key h, key h.symm⟩

theorem SamePerPath.allSingle {l l' : List (Call κ)} (h : SamePerPath l l') (hs : AllSingle l) :
    AllSingle l' := fun c hc => hs c ((h.mem c).2 hc)

/-- **two such traces end in the same file system** (from any start, at every path) -/
theorem SamePerPath.replay_get {l l' : List (Call κ)} (h : SamePerPath l l') (hs : AllSingle l)
    (emp : κ) (fs : FS κ) (q : P) : (replay emp fs l).get q = (replay emp fs l').get q := by
  rw [replay_get_filter emp q l fs hs, replay_get_filter emp q l' fs (h.allSingle hs), h q]

theorem filter_take_prefix {α : Type} (p : α → Bool) (l : List α) (k : Nat) :
    (l.take k).filter p = (l.filter p).take ((l.take k).filter p).length := by
  have h : l.filter p = (l.take k).filter p ++ (l.drop k).filter p := by
    rw [← List.filter_append, List.take_append_drop]
  rw [h, List.take_left' rfl]

theorem filter_take_exists {α : Type} (p : α → Bool) : ∀ (l : List α) (m : Nat),
    ∃ k, (l.take k).filter p = (l.filter p).take m
  | [], m => ⟨0, by simp⟩
  | a :: l, m => by
    cases hp : p a with
    | false =>
      obtain ⟨k, hk⟩ := filter_take_exists p l m
      exact ⟨k + 1, by simp [List.take_succ_cons, hp, hk]⟩
    | true =>
      cases m with
      | zero => exact ⟨0, by simp⟩
      | succ m =>
        obtain ⟨k, hk⟩ := filter_take_exists p l m
        exact ⟨k + 1, by simp [List.take_succ_cons, hp, hk]⟩

/-- **every crash state of one trace looks, at any single path, like some crash state of the other** -/
theorem SamePerPath.take_get {l l' : List (Call κ)} (h : SamePerPath l l') (hs : AllSingle l)
    (emp : κ) (fs : FS κ) (k : Nat) (q : P) :
    ∃ k', (replay emp fs (l.take k)).get q = (replay emp fs (l'.take k')).get q := by
  obtain ⟨k', hk'⟩ := filter_take_exists (onPath q) l' ((l.take k).filter (onPath q)).length
  refine ⟨k', ?_⟩
  rw [replay_get_filter emp q _ fs (hs.take k), replay_get_filter emp q _ fs ((h.allSingle hs).take k'),
    hk', ← h q, ← filter_take_prefix]

/-- a per-path predicate after every prefix transfers -/
theorem SamePerPath.pref_keptP {l l' : List (Call κ)} (h : SamePerPath l l') (hs : AllSingle l)
    {st : Strat} {emp : κ} {fs0 fs : FS κ} (hp : Pref (KeptP st emp fs0) emp fs l') :
    Pref (KeptP st emp fs0) emp fs l := by
  intro k q e he
  obtain ⟨k', hk'⟩ := h.take_get hs emp fs k (.ws q)
  have := hp k' q e he
  rw [← hk'] at this
  exact this

/-! ## interleavings of workers that own disjoint paths -/

/-- all calls of the trace act on workspace paths below `pre` -/
def BelowS (pre : List Name) (l : List (Call κ)) : Prop := ∀ c ∈ l, ∃ rel, cpath c = .ws (pre ++ rel)

theorem BelowS.append {pre : List Name} {l1 l2 : List (Call κ)} (h1 : BelowS pre l1) (h2 : BelowS pre l2) :
    BelowS pre (l1 ++ l2) := by
  intro c hc
  rcases List.mem_append.1 hc with h | h
  · exact h1 c h
  · exact h2 c h

theorem BelowS.child {pre : List Name} {nm : Name} {l : List (Call κ)} (h : BelowS (pre ++ [nm]) l) :
    BelowS pre l := by
  intro c hc
  obtain ⟨rel, hr⟩ := h c hc
  exact ⟨nm :: rel, by simpa using hr⟩

theorem BelowS.below {pre : List Name} {l : List (Call κ)} (h : BelowS pre l) (hs : AllSingle l) :
    Below pre l := by
  intro c hc p hp
  rw [callWrites_of_single (hs c hc)] at hp
  simp only [List.mem_singleton] at hp
  obtain ⟨rel, hr⟩ := h c hc
  exact ⟨rel, by rw [hp, hr]⟩

/-- the names of the manifest entries are pairwise distinct (in Go the manifest is a map keyed by name) -/
def NamesDistinct (cs : List Child) : Prop := cs.Pairwise (fun a b => a.name ≠ b.name)

theorem filter_eq_nil_of_below {pre : List Name} {a b : Name} (hab : a ≠ b) {l : List (Call κ)}
    (hl : BelowS (pre ++ [b]) l) (rel : List Name) : l.filter (onPath (.ws (pre ++ a :: rel))) = [] := by
  rw [List.filter_eq_nil_iff]
  intro c hc hon
  obtain ⟨rel', hr⟩ := hl c hc
  rw [onPath_iff, hr] at hon
  exact ws_child_ne hab rel rel' hon.symm

/-- **workers below pairwise different entry names: every interleaving issues, at every path, the calls of
the sequential run in the same order** -/
theorem shuffleN_samePerPath_flatten {pre : List Name} :
    ∀ {cs : List Child} {ts : List (List (Call κ))},
      All2 (fun (c : Child) t => BelowS (pre ++ [c.name]) t) cs ts → NamesDistinct cs →
      ∀ {l : List (Call κ)}, ShuffleN ts l → SamePerPath l ts.flatten := by
  intro cs ts h
  induction h with
  | nil =>
    intro _ l hl
    rw [hl.nil_inv]
    exact SamePerPath.refl _
  | @cons c t cs ts hb hrest ih =>
    intro hnd l hl q
    obtain ⟨r, hr, hi⟩ := hl.cons_inv
    have hnd' : NamesDistinct cs := (List.pairwise_cons.1 hnd).2
    have hne : ∀ c' ∈ cs, c.name ≠ c'.name := (List.pairwise_cons.1 hnd).1
    have ihq := ih hnd' hr q
    have hsh := hi.filter (onPath q)
    rw [List.flatten_cons, List.filter_append]
    by_cases ht : t.filter (onPath q) = []
    · rw [ht] at hsh ⊢
      rw [hsh.eq_of_nil_left, ihq]; rfl
    · -- some call of `t` acts on `q`: `q` is below `pre ++ [c.name]`, nobody else acts on it
      obtain ⟨x, hx⟩ := List.exists_mem_of_ne_nil _ ht
      obtain ⟨hxt, hxq⟩ := List.mem_filter.1 hx
      obtain ⟨rel, hrel⟩ := hb x hxt
      have hq : q = .ws (pre ++ c.name :: rel) := by
        rw [← onPath_iff.1 hxq, hrel]; simp
      have hother : ts.flatten.filter (onPath q) = [] := by
        rw [List.filter_eq_nil_iff]
        intro y hy hon
        obtain ⟨t', ht', hyt'⟩ := List.mem_flatten.1 hy
        obtain ⟨c', hc', hb'⟩ := hrest.mem_right t' ht'
        have := filter_eq_nil_of_below (hne c' hc') hb' rel
        rw [← hq, List.filter_eq_nil_iff] at this
        exact this y hyt' hon
      rw [hother] at ihq ⊢
      rw [ihq] at hsh
      rw [hsh.eq_of_nil_right, List.append_nil]

/-! ## the traces of the (nested) concurrent checkout -/

/-- The traces of `checkoutDir` / `checkoutFile` for the manifest entry `c` at workspace path `pre`, where
`cur` is what the logical workspace holds there, when the traces of the entries of a directory are combined
by `C` (any interleaving, the concatenation, the concatenation in any order …):

* a file entry: the calls of `checkoutFileT` (which must succeed);
* a directory entry (the checks of `checkoutDir` pass, the manifest `cs` is readable, at the path there is
  a directory or nothing): the `mkdir` of the directory if it is absent, then `l` with `C ts l`, where `tsᵢ`
  is (recursively) such a trace of the i-th entry of the manifest at `pre ++ [nameᵢ]`, where the workspace
  holds `alookup es nameᵢ` — what it held BEFORE any sibling ran. -/
def CheckoutTraces (C : List (List (Call κ)) → List (Call κ) → Prop) (t : TCfg κ) (s : Store κ) :
    Nat → List Name → Option (Node κ) → Child → List (Call κ) → Prop
  | 0, _, _, _, _ => False
  | fuel + 1, pre, cur, c, calls =>
    (c.isDir = true ∧ hasSum c.sum = true ∧ s.has c.sum = true ∧
      ∃ cs es head ts l, readManifest t.ctx s c.sum = .ok cs ∧
        ((cur = some (.dir es) ∧ head = []) ∨ (cur = none ∧ es = [] ∧ head = [.mkdir (.ws pre)])) ∧
        All2 (fun (c' : Child) tr =>
          CheckoutTraces C t s fuel (pre ++ [c'.name]) (alookup es c'.name) c' tr) cs ts ∧
        C ts l ∧ calls = head ++ l) ∨
    (c.isDir = false ∧ ∃ r, checkoutFileT t (.ws pre) cur c.sum s = .ok (r, calls))

/-- **the traces of the nested concurrent checkout**: in every directory, at every depth, ANY interleaving
of the traces of the entries, each of them again a concurrent trace -/
abbrev ParCheckoutTrace (t : TCfg κ) (s : Store κ) := CheckoutTraces (κ := κ) ShuffleN t s

/-- the workers of every directory run one after the other, in manifest order -/
abbrev SeqCheckoutTrace (t : TCfg κ) (s : Store κ) :=
  CheckoutTraces (κ := κ) (fun ts l => l = ts.flatten) t s

/-- the workers of every directory run one after the other, IN ANY ORDER (the Go map iteration) -/
abbrev SeqPermTrace (t : TCfg κ) (s : Store κ) :=
  CheckoutTraces (κ := κ) (fun ts l => ∃ ts', List.Perm ts' ts ∧ l = ts'.flatten) t s

theorem CheckoutTraces.mono {C C' : List (List (Call κ)) → List (Call κ) → Prop}
    (hC : ∀ ts l, C ts l → C' ts l) {t : TCfg κ} {s : Store κ} :
    ∀ (fuel : Nat) (pre : List Name) (cur : Option (Node κ)) (c : Child) (calls : List (Call κ)),
      CheckoutTraces C t s fuel pre cur c calls → CheckoutTraces C' t s fuel pre cur c calls
  | 0, _, _, _, _, h => by simp [CheckoutTraces] at h
  | fuel + 1, pre, cur, c, calls, h => by
    simp only [CheckoutTraces] at h ⊢
    rcases h with ⟨hd, h1, h2, cs, es, head, ts, l, hm, hcur, hall, hc, rfl⟩ | h
    · exact .inl ⟨hd, h1, h2, cs, es, head, ts, l, hm, hcur,
        hall.imp (fun c' tr h' => CheckoutTraces.mono hC fuel _ _ _ _ h'), hC _ _ hc, rfl⟩
    · exact .inr h

/-- the sequential trace with the siblings of every directory permuted is a concurrent trace -/
theorem seqPerm_parTrace {t : TCfg κ} {s : Store κ} {fuel : Nat} {pre : List Name} {cur : Option (Node κ)}
    {c : Child} {calls : List (Call κ)} (h : SeqPermTrace t s fuel pre cur c calls) :
    ParCheckoutTrace t s fuel pre cur c calls :=
  CheckoutTraces.mono (fun _ _ ⟨_, hp, hl⟩ => hl ▸ ShuffleN.flatten_perm hp) _ _ _ _ _ h

theorem seq_seqPerm {t : TCfg κ} {s : Store κ} {fuel : Nat} {pre : List Name} {cur : Option (Node κ)}
    {c : Child} {calls : List (Call κ)} (h : SeqCheckoutTrace t s fuel pre cur c calls) :
    SeqPermTrace t s fuel pre cur c calls :=
  CheckoutTraces.mono (fun ts _ hl => ⟨ts, List.Perm.refl _, hl⟩) _ _ _ _ _ h

/-! ### the calls of a concurrent trace -/

theorem checkoutFileCalls_single_path (isEmp : κ → Bool) (strat : Strat) (w : P) (b : Bool) (c : κ)
    (d : Digest) : ∀ call ∈ checkoutFileCalls isEmp strat w b c d, isSingle call = true ∧ cpath call = w := by
  intro call hcall
  cases strat <;> cases b <;> cases he : isEmp c <;> simp [checkoutFileCalls, he] at hcall
  all_goals (first
    | (rcases hcall with rfl | rfl | rfl | rfl <;> exact ⟨rfl, rfl⟩)
    | (rcases hcall with rfl | rfl | rfl <;> exact ⟨rfl, rfl⟩)
    | (rcases hcall with rfl | rfl <;> exact ⟨rfl, rfl⟩)
    | (subst hcall; exact ⟨rfl, rfl⟩))

theorem checkoutFileT_single_path {t : TCfg κ} {w : P} {cur : Option (Node κ)} {sum : Digest} {s : Store κ}
    {r : Node κ} {calls : List (Call κ)} (h : checkoutFileT t w cur sum s = .ok (r, calls)) :
    ∀ call ∈ calls, isSingle call = true ∧ cpath call = w := by
  rcases checkoutFileT_cases h with ⟨-, rfl⟩ | ⟨o, -, -, rfl, -⟩ | ⟨o, -, -, -, rfl, -⟩
  · intro call hc; cases hc
  · exact checkoutFileCalls_single_path _ _ _ _ _ _
  · exact checkoutFileCalls_single_path _ _ _ _ _ _

/-- every call of a concurrent trace acts on one path, a workspace path below the entry's path -/
theorem parCheckout_single_below {t : TCfg κ} {s : Store κ} :
    ∀ (fuel : Nat) (pre : List Name) (cur : Option (Node κ)) (c : Child) (calls : List (Call κ)),
      ParCheckoutTrace t s fuel pre cur c calls → AllSingle calls ∧ BelowS pre calls
  | 0, _, _, _, _, h => by simp [CheckoutTraces] at h
  | fuel + 1, pre, cur, c, calls, h => by
    simp only [CheckoutTraces] at h
    rcases h with ⟨-, -, -, cs, es, head, ts, l, -, hcur, hall, hc, rfl⟩ | ⟨-, r, h⟩
    · have hhead : AllSingle head ∧ BelowS pre head := by
        rcases hcur with ⟨-, rfl⟩ | ⟨-, -, rfl⟩
        · exact ⟨fun c hc => (by cases hc), fun c hc => (by cases hc)⟩
        · refine ⟨fun c hc => ?_, fun c hc => ?_⟩
          · simp only [List.mem_singleton] at hc; subst hc; rfl
          · simp only [List.mem_singleton] at hc; subst hc; exact ⟨[], by simp [cpath]⟩
      have hl : AllSingle l ∧ BelowS pre l := by
        refine ⟨fun x hx => ?_, fun x hx => ?_⟩
        · obtain ⟨tr, htr, hxt⟩ := (ShuffleN.mem hc x).1 hx
          obtain ⟨c', -, hpar⟩ := hall.mem_right tr htr
          exact (parCheckout_single_below fuel _ _ _ _ hpar).1 x hxt
        · obtain ⟨tr, htr, hxt⟩ := (ShuffleN.mem hc x).1 hx
          obtain ⟨c', -, hpar⟩ := hall.mem_right tr htr
          exact (parCheckout_single_below fuel _ _ _ _ hpar).2.child x hxt
      exact ⟨hhead.1.append hl.1, hhead.2.append hl.2⟩
    · refine ⟨fun x hx => (checkoutFileT_single_path h x hx).1, fun x hx => ?_⟩
      exact ⟨[], by rw [(checkoutFileT_single_path h x hx).2]; simp⟩

/-! ### the sequential trace of the model -/

/-- the entries of the manifest do not see each other when their names are distinct: the trace of the
sequential loop is the concatenation of the traces of the entries, each started from what the workspace held
before the loop -/
theorem checkoutChildrenT_split
    {f : List Name → Option (Node κ) → Child → Except Err (Node κ × List (Call κ))} (pre : List Name)
    (es : List (Name × Node κ)) :
    ∀ (cs : List Child) (es2 es' : List (Name × Node κ)) (calls : List (Call κ)),
      checkoutChildrenT f pre es2 cs = .ok (es', calls) → NamesDistinct cs →
      (∀ c ∈ cs, alookup es2 c.name = alookup es c.name) →
      ∃ trs, All2 (fun (c : Child) tr => ∃ r, f (pre ++ [c.name]) (alookup es c.name) c = .ok (r, tr)) cs trs ∧
        calls = trs.flatten
  | [], es2, es', calls, h, _, _ => by
    simp only [checkoutChildrenT, Except.ok.injEq, Prod.mk.injEq] at h
    exact ⟨[], .nil, by rw [← h.2]; rfl⟩
  | c :: cs, es2, es', calls, h, hnd, hlk => by
    simp only [checkoutChildrenT] at h
    cases hT : f (pre ++ [c.name]) (alookup es2 c.name) c with
    | error e => rw [hT] at h; cases h
    | ok v =>
      obtain ⟨n, calls1⟩ := v
      rw [hT] at h
      simp only at h
      cases hT2 : checkoutChildrenT f pre (setEntry es2 c.name n) cs with
      | error e => rw [hT2] at h; cases h
      | ok v =>
        obtain ⟨es3, calls2⟩ := v
        rw [hT2] at h
        simp only [Except.ok.injEq, Prod.mk.injEq] at h
        obtain ⟨-, rfl⟩ := h
        have hne : ∀ c' ∈ cs, c.name ≠ c'.name := (List.pairwise_cons.1 hnd).1
        obtain ⟨trs, hall, rfl⟩ := checkoutChildrenT_split pre es cs _ _ _ hT2 (List.pairwise_cons.1 hnd).2
          (fun c' hc' => by
            rw [WT.alookup_setEntry_ne _ _ _ _ (hne c' hc')]
            exact hlk c' (List.mem_cons_of_mem _ hc'))
        rw [hlk c List.mem_cons_self] at hT
        exact ⟨calls1 :: trs, .cons ⟨n, hT⟩ hall, by simp⟩

/-- conversely: if every entry succeeds on its own, so does the sequential loop, with the concatenated
trace -/
theorem checkoutChildrenT_join
    {f : List Name → Option (Node κ) → Child → Except Err (Node κ × List (Call κ))} (pre : List Name)
    (es : List (Name × Node κ)) {cs : List Child} {trs : List (List (Call κ))}
    (hall : All2 (fun (c : Child) tr => ∃ r, f (pre ++ [c.name]) (alookup es c.name) c = .ok (r, tr)) cs trs) :
    NamesDistinct cs → ∀ (es2 : List (Name × Node κ)), (∀ c ∈ cs, alookup es2 c.name = alookup es c.name) →
      ∃ es', checkoutChildrenT f pre es2 cs = .ok (es', trs.flatten) := by
  induction hall with
  | nil => intro _ es2 _; exact ⟨es2, rfl⟩
  | @cons c tr cs trs hc _ ih =>
    intro hnd es2 hlk
    obtain ⟨n, hn⟩ := hc
    have hne : ∀ c' ∈ cs, c.name ≠ c'.name := (List.pairwise_cons.1 hnd).1
    obtain ⟨es', he'⟩ := ih (List.pairwise_cons.1 hnd).2 (setEntry es2 c.name n) (fun c' hc' => by
      rw [WT.alookup_setEntry_ne _ _ _ _ (hne c' hc')]
      exact hlk c' (List.mem_cons_of_mem _ hc'))
    refine ⟨es', ?_⟩
    simp only [checkoutChildrenT, hlk c List.mem_cons_self, hn, he', List.flatten_cons]

/-- every readable manifest of the cache lists pairwise distinct names -/
def ManUniq (ctx : Ctx κ) (s : Store κ) : Prop := ∀ d cs, readManifest ctx s d = .ok cs → NamesDistinct cs

theorem checkoutNodeT_dir_checks {t : TCfg κ} {s : Store κ} {fuel : Nat} {pre : List Name}
    {cur : Option (Node κ)} {c : Child} {r : Node κ} {calls : List (Call κ)}
    (h : checkoutNodeT t s (fuel + 1) pre cur c = .ok (r, calls)) (hd : c.isDir = true) :
    hasSum c.sum = true ∧ s.has c.sum = true := by
  simp only [checkoutNodeT, hd, if_true] at h
  split at h
  · cases h
  split at h
  · cases h
  rename_i h1 h2
  exact ⟨by simpa using h1, by simpa using h2⟩

/-- **the sequential trace of the model is the concatenation, at every directory, of the traces of its
entries in manifest order** -/
theorem checkoutNodeT_seqTrace {t : TCfg κ} {s : Store κ} (hman : ManUniq t.ctx s) :
    ∀ (fuel : Nat) (pre : List Name) (cur : Option (Node κ)) (c : Child) (r : Node κ) (calls : List (Call κ)),
      checkoutNodeT t s fuel pre cur c = .ok (r, calls) → SeqCheckoutTrace t s fuel pre cur c calls
  | 0, _, _, _, _, _, h => by simp [checkoutNodeT] at h
  | fuel + 1, pre, cur, c, r, calls, h => by
    simp only [CheckoutTraces]
    rcases checkoutNodeT_inv h with
      ⟨hd, cs, es, es', calls1, hm, hch, -, hcase⟩ | ⟨hd, hf⟩
    · obtain ⟨h1, h2⟩ := checkoutNodeT_dir_checks h hd
      obtain ⟨trs, hall, rfl⟩ := checkoutChildrenT_split pre es cs es es' calls1 hch (hman _ _ hm)
        (fun _ _ => rfl)
      have hall' := hall.imp (fun c' tr ⟨r', hr'⟩ => checkoutNodeT_seqTrace hman fuel _ _ _ r' tr hr')
      rcases hcase with ⟨rfl, rfl⟩ | ⟨rfl, rfl, rfl⟩
      · exact .inl ⟨hd, h1, h2, cs, es, [], trs, _, hm, .inl ⟨rfl, rfl⟩, hall', rfl, rfl⟩
      · exact .inl ⟨hd, h1, h2, cs, [], _, trs, _, hm, .inr ⟨rfl, rfl, rfl⟩, hall', rfl, rfl⟩
    · exact .inr ⟨hd, r, hf⟩

/-- **the sequential trace of the model is one of the concurrent traces** -/
theorem checkoutNodeT_parTrace {t : TCfg κ} {s : Store κ} (hman : ManUniq t.ctx s) {fuel : Nat}
    {pre : List Name} {cur : Option (Node κ)} {c : Child} {r : Node κ} {calls : List (Call κ)}
    (h : checkoutNodeT t s fuel pre cur c = .ok (r, calls)) : ParCheckoutTrace t s fuel pre cur c calls :=
  seqPerm_parTrace (seq_seqPerm (checkoutNodeT_seqTrace hman _ _ _ _ _ _ h))

/-- the entries of a directory: concurrent traces against the sequential loop -/
theorem children_par_seq {t : TCfg κ} {s : Store κ} {fuel : Nat}
    (ih : ∀ pre cur c calls, ParCheckoutTrace t s fuel pre cur c calls →
      ∃ r seq, checkoutNodeT t s fuel pre cur c = .ok (r, seq) ∧ SamePerPath calls seq)
    (pre : List Name) (es : List (Name × Node κ)) {cs : List Child} {ts : List (List (Call κ))}
    (hall : All2 (fun (c' : Child) tr =>
      ParCheckoutTrace t s fuel (pre ++ [c'.name]) (alookup es c'.name) c' tr) cs ts) :
    ∃ seqs, All2 (fun (c : Child) tr => ∃ r, checkoutNodeT t s fuel (pre ++ [c.name]) (alookup es c.name) c
        = .ok (r, tr)) cs seqs ∧ SamePerPath ts.flatten seqs.flatten := by
  induction hall with
  | nil => exact ⟨[], .nil, SamePerPath.refl _⟩
  | @cons c tr cs ts hc _ ih' =>
    obtain ⟨r, seq, hseq, hsp⟩ := ih _ _ _ _ hc
    obtain ⟨seqs, hall', hsp'⟩ := ih'
    exact ⟨seq :: seqs, .cons ⟨r, hseq⟩ hall', by
      simp only [List.flatten_cons]; exact hsp.append hsp'⟩

/-- **Every trace of the nested concurrent checkout issues, at every path, exactly the calls of the
sequential trace of the model in the same order** — and the sequential run succeeds whenever a concurrent
trace exists. -/
theorem parCheckout_seq {t : TCfg κ} {s : Store κ} (hman : ManUniq t.ctx s) :
    ∀ (fuel : Nat) (pre : List Name) (cur : Option (Node κ)) (c : Child) (calls : List (Call κ)),
      ParCheckoutTrace t s fuel pre cur c calls →
      ∃ r seq, checkoutNodeT t s fuel pre cur c = .ok (r, seq) ∧ SamePerPath calls seq
  | 0, _, _, _, _, h => by simp [CheckoutTraces] at h
  | fuel + 1, pre, cur, c, calls, h => by
    have h0 := h
    simp only [CheckoutTraces] at h
    rcases h with ⟨hd, h1, h2, cs, es, head, ts, l, hm, hcur, hall, hc, rfl⟩ | ⟨hd, r, h⟩
    · obtain ⟨seqs, hall', hsp⟩ := children_par_seq (parCheckout_seq hman fuel) pre es hall
      have hnd := hman _ _ hm
      obtain ⟨es', hch⟩ := checkoutChildrenT_join pre es hall' hnd es (fun _ _ => rfl)
      have hbel : All2 (fun (c : Child) tr => BelowS (pre ++ [c.name]) tr) cs ts :=
        hall.imp (fun c' tr h' => (parCheckout_single_below fuel _ _ _ _ h').2)
      have hl : SamePerPath l seqs.flatten := (shuffleN_samePerPath_flatten hbel hnd hc).trans hsp
      rcases hcur with ⟨rfl, rfl⟩ | ⟨rfl, rfl, rfl⟩
      · refine ⟨.dir es', seqs.flatten, ?_, by simpa using hl⟩
        simp [checkoutNodeT, hd, h1, h2, hm, hch]
      · refine ⟨.dir es', .mkdir (.ws pre) :: seqs.flatten, ?_, ?_⟩
        · simp [checkoutNodeT, hd, h1, h2, hm, hch]
        · exact (SamePerPath.refl [Call.mkdir (.ws pre)]).append hl
    · refine ⟨r, calls, ?_, SamePerPath.refl _⟩
      simp [checkoutNodeT, hd, h]

end Dud.Sys
