import DudModel.Lemmas.CheckoutIdem
import DudModel.Lemmas.Shape
import DudModel.Spec
/-!
# Twin caches (`Props/C20world.lean`)

Two caches `sO`, `sN` ("old", "new") and two child artifacts `cO`, `cN` are *twins*
(`TwinChild`) when they describe the same tree through possibly different manifest objects: the
same name and kind; for a file artifact the same checksum, under which both caches hold objects
with the same bytes (or both hold nothing); for a directory artifact manifests that both read
without error into entry lists that are pairwise twins (the CHECKSUMS of the two directory
artifacts are unrelated: they are the digests of different manifest bytes), or both caches lack the
manifest.  Nothing is assumed about schemas, hashes, consistency: a manifest is looked at through
`readManifest` only.

For twins, `checkoutNode` computes literally the same result (value or error) over any workspace
entry (`checkoutNode_twin`), and the full status is literally the same (`dirStatus_twin`,
`statusArt_twin`) provided no link to a cache object sits where the artifact expects a directory
(`DirPos`; without this, `quickStatus` compares the link target with the — different — manifest
checksums).  Namespace `Dud.Twin`.
-/
namespace Dud.Twin

open Dud.CI

variable {κ : Type}

/-! ## objects -/

/-- under the digest `d` both caches hold nothing, or objects with the same bytes -/
def SameObj (ctx : Ctx κ) (sO sN : Store κ) (d : Digest) : Prop :=
  (sO.get d = none ∧ sN.get d = none) ∨
    ∃ oO oN, sO.get d = some oO ∧ sN.get d = some oN ∧ oO.bytes ctx = oN.bytes ctx

theorem SameObj.symm {ctx : Ctx κ} {sO sN : Store κ} {d : Digest} (h : SameObj ctx sO sN d) :
    SameObj ctx sN sO d := by
  rcases h with ⟨h1, h2⟩ | ⟨oO, oN, h1, h2, hb⟩
  · exact .inl ⟨h2, h1⟩
  · exact .inr ⟨oN, oO, h2, h1, hb.symm⟩

/-- `quickStatus`' "is in the cache" -/
def inC (s : Store κ) (sum : Digest) : Bool := hasSum sum && s.has sum

/-- the two lists are related entry by entry (core Lean has no `List.Forall₂`) -/
inductive All2 {α β : Type} (R : α → β → Prop) : List α → List β → Prop
  | nil : All2 R [] []
  | cons {a : α} {b : β} {l₁ : List α} {l₂ : List β} : R a b → All2 R l₁ l₂ → All2 R (a :: l₁) (b :: l₂)

/-! ## twin artifacts -/

/-- see the header -/
def TwinChild (ctx : Ctx κ) (sO sN : Store κ) : Nat → Child → Child → Prop
  | 0, _, _ => False
  | fuel+1, cO, cN =>
    cO.name = cN.name ∧ cO.isDir = cN.isDir ∧
    if cO.isDir then
      (hasSum cO.sum = hasSum cN.sum ∧ inC sO cO.sum = false ∧ inC sN cN.sum = false) ∨
      (hasSum cO.sum = true ∧ hasSum cN.sum = true ∧ ∃ csO csN,
        readManifest ctx sO cO.sum = .ok csO ∧ readManifest ctx sN cN.sum = .ok csN ∧
        All2 (TwinChild ctx sO sN fuel) csO csN)
    else cO.sum = cN.sum ∧ SameObj ctx sO sN cO.sum

theorem forall₂_flip {α β : Type} {R : α → β → Prop} {S : β → α → Prop} (h : ∀ a b, R a b → S b a) :
    ∀ {l : List α} {m : List β}, All2 R l m → All2 S m l
  | _, _, .nil => .nil
  | _, _, .cons hab ht => .cons (h _ _ hab) (forall₂_flip h ht)

theorem TwinChild.symm {ctx : Ctx κ} {sO sN : Store κ} : ∀ (fuel : Nat) (cO cN : Child),
    TwinChild ctx sO sN fuel cO cN → TwinChild ctx sN sO fuel cN cO
  | 0, _, _, h => by simp [TwinChild] at h
  | fuel+1, cO, cN, h => by
    simp only [TwinChild] at h ⊢
    obtain ⟨h1, h2, h3⟩ := h
    refine ⟨h1.symm, h2.symm, ?_⟩
    rw [← h2]
    split at h3
    · rename_i hd
      simp only [hd, if_true]
      rcases h3 with ⟨e1, e2, e3⟩ | ⟨e1, e2, csO, csN, r1, r2, hf⟩
      · exact .inl ⟨e1.symm, e3, e2⟩
      · exact .inr ⟨e2, e1, csN, csO, r2, r1, forall₂_flip (fun a b => TwinChild.symm fuel a b) hf⟩
    · rename_i hd
      simp only [hd]
      exact ⟨h3.1.symm, h3.1 ▸ h3.2.symm⟩

theorem readManifest_ok_has {ctx : Ctx κ} {s : Store κ} {d : Digest} {cs : List Child}
    (h : readManifest ctx s d = .ok cs) : s.has d = true := by
  unfold readManifest at h
  simp only [Store.has]
  cases hg : s.get d with
  | none => rw [hg] at h; simp at h
  | some o => rfl

/-! ## checkout -/

theorem checkoutFile_sameObj {ctx : Ctx κ} {strat : Strat} {sO sN : Store κ} {sum : Digest}
    (h : SameObj ctx sO sN sum) (cur : Option (Node κ)) :
    checkoutFile ctx strat cur sum sO = checkoutFile ctx strat cur sum sN := by
  rcases h with ⟨h1, h2⟩ | ⟨oO, oN, h1, h2, hb⟩
  · simp only [checkoutFile, quick, Store.has, h1, h2]
  · simp only [checkoutFile, quick, Store.has, h1, h2, hb, Option.isSome_some]

theorem checkoutChildren_twin {R : Child → Child → Prop}
    {fO fN : Option (Node κ) → Child → Except Err (Node κ)}
    (hname : ∀ a b, R a b → a.name = b.name) (hf : ∀ a b, R a b → ∀ cur, fO cur a = fN cur b) :
    ∀ {csO csN : List Child}, All2 R csO csN → ∀ es : List (Name × Node κ),
      checkoutChildren fO es csO = checkoutChildren fN es csN
  | _, _, .nil, es => by rw [checkoutChildren_nil, checkoutChildren_nil]
  | _, _, .cons (a := a) (b := b) (l₁ := l1) (l₂ := l2) hab ht, es => by
    have eO : checkoutChildren fO es (a :: l1) = (match fO (alookup es a.name) a with
        | .error e => .error e
        | .ok n => checkoutChildren fO (setEntry es a.name n) l1) := by cases es <;> rfl
    have eN : checkoutChildren fN es (b :: l2) = (match fN (alookup es b.name) b with
        | .error e => .error e
        | .ok n => checkoutChildren fN (setEntry es b.name n) l2) := by cases es <;> rfl
    rw [eO, eN, ← hname a b hab, hf a b hab]
    cases fN (alookup es a.name) b with
    | error e => rfl
    | ok n => exact checkoutChildren_twin hname hf ht _

theorem TwinChild.name_eq {ctx : Ctx κ} {sO sN : Store κ} {fuel : Nat} {cO cN : Child}
    (h : TwinChild ctx sO sN fuel cO cN) : cO.name = cN.name := by
  cases fuel with
  | zero => simp [TwinChild] at h
  | succ f => simp only [TwinChild] at h; exact h.1

theorem TwinChild.isDir_eq {ctx : Ctx κ} {sO sN : Store κ} {fuel : Nat} {cO cN : Child}
    (h : TwinChild ctx sO sN fuel cO cN) : cO.isDir = cN.isDir := by
  cases fuel with
  | zero => simp [TwinChild] at h
  | succ f => simp only [TwinChild] at h; exact h.2.1

/-- **Checkout of twins computes the same result**, value or error, over any workspace entry. -/
theorem checkoutNode_twin {ctx : Ctx κ} {strat : Strat} {sO sN : Store κ} : ∀ (fuel : Nat)
    (cO cN : Child), TwinChild ctx sO sN fuel cO cN → ∀ cur : Option (Node κ),
      checkoutNode ctx strat sO fuel cur cO = checkoutNode ctx strat sN fuel cur cN
  | 0, _, _, h, _ => by simp [TwinChild] at h
  | fuel+1, cO, cN, h, cur => by
    simp only [TwinChild] at h
    obtain ⟨_, h2, h3⟩ := h
    cases hd : cO.isDir with
    | false =>
      have hdN : cN.isDir = false := by rw [← h2]; exact hd
      simp only [hd, Bool.false_eq_true, if_false] at h3
      rw [checkoutNode_file hd, checkoutNode_file hdN, ← h3.1]
      exact checkoutFile_sameObj h3.2 cur
    | true =>
      have hdN : cN.isDir = true := by rw [← h2]; exact hd
      simp only [hd, if_true] at h3
      simp only [checkoutNode, hd, hdN, if_true]
      rcases h3 with ⟨e1, e2, e3⟩ | ⟨e1, e2, csO, csN, r1, r2, hf⟩
      · simp only [inC] at e2 e3
        cases hh : hasSum cO.sum with
        | false =>
          have hhN : hasSum cN.sum = false := by rw [← e1]; exact hh
          simp only [hhN, Bool.not_false, if_true]
        | true =>
          have hhN : hasSum cN.sum = true := by rw [← e1]; exact hh
          simp only [hh, Bool.true_and] at e2
          simp only [hhN, Bool.true_and] at e3
          simp only [hhN, e2, e3, Bool.not_true, Bool.not_false, Bool.false_eq_true, if_false,
            if_true]
      · have hasO := readManifest_ok_has r1
        have hasN := readManifest_ok_has r2
        have hch : ∀ es, checkoutChildren (checkoutNode ctx strat sO fuel) es csO =
            checkoutChildren (checkoutNode ctx strat sN fuel) es csN :=
          checkoutChildren_twin (fun a b hab => hab.name_eq)
            (fun a b hab cur => checkoutNode_twin fuel a b hab cur) hf
        simp only [e1, e2, hasO, hasN, Bool.not_true, Bool.false_eq_true, if_false, r1, r2, hch]

/-! ## status -/

section status
variable [DecidableEq κ]

theorem fileStatus_sameObj {ctx : Ctx κ} {sO sN : Store κ} {sum : Digest}
    (h : SameObj ctx sO sN sum) (name : Bytes) (skip : Bool) (cur : Option (Node κ)) :
    fileStatus ctx sO name skip sum cur = fileStatus ctx sN name skip sum cur := by
  rcases h with ⟨h1, h2⟩ | ⟨oO, oN, h1, h2, hb⟩
  · simp only [fileStatus, quick, Store.has, h1, h2]
  · simp only [fileStatus, quick, Store.has, h1, h2, hb, Option.isSome_some]

/-- the status of an entry against an artifact that is not in the cache does not look at the cache
(beyond that) -/
theorem fileStatus_notInCache {ctx : Ctx κ} {sO sN : Store κ} {sum : Digest}
    (hO : inC sO sum = false) (hN : inC sN sum = false) (name : Bytes) (cur : Option (Node κ)) :
    fileStatus ctx sO name false sum cur = fileStatus ctx sN name false sum cur := by
  simp only [inC] at hO hN
  simp only [fileStatus, quick, hO, hN, Bool.false_and, Bool.false_eq_true, if_false, Bool.not_false,
    if_true]

omit [DecidableEq κ] in
theorem inC_empty (s : Store κ) : inC s "" = false := by
  simp [inC, hasSum]

omit [DecidableEq κ] in
theorem quick_notInCache {s : Store κ} {sum : Digest} (h : inC s sum = false) (cur : Option (Node κ)) :
    quick s sum cur = { has := hasSum sum, inCache := false, ws := wsOf cur, cm := false } := by
  simp only [inC] at h
  simp only [quick, h, Quick.mk.injEq, true_and]
  split <;> simp

theorem untrackedStatuses_congr {ctx : Ctx κ} {sO sN : Store κ}
    {fdO fdN : Bytes → Digest → Option (Node κ) → Except Err Status}
    (hfd : ∀ nm cu, fdO nm "" cu = fdN nm "" cu) : ∀ (l : List (Name × Node κ)),
      untrackedStatuses ctx sO fdO l = untrackedStatuses ctx sN fdN l
  | [] => rfl
  | (nm, n) :: r => by
    simp only [untrackedStatuses, hfd nm (some n),
      fileStatus_notInCache (inC_empty sO) (inC_empty sN) nm (some n)]
    rw [untrackedStatuses_congr hfd r]

/-- **a directory artifact that is not in the cache**: the status is the same in both caches -/
theorem dirStatus_notInCache {ctx : Ctx κ} {sO sN : Store κ} : ∀ (fuel : Nat) (nm : Bytes)
    (nr : Bool) (sumO sumN : Digest) (cur : Option (Node κ)), hasSum sumO = hasSum sumN →
      inC sO sumO = false → inC sN sumN = false →
      dirStatus ctx sO fuel nm nr sumO cur = dirStatus ctx sN fuel nm nr sumN cur
  | 0, _, _, _, _, _, _, _, _ => rfl
  | fuel+1, nm, nr, sumO, sumN, cur, hh, hO, hN => by
    have ih : ∀ nm' cu, dirStatus ctx sO fuel nm' false "" cu = dirStatus ctx sN fuel nm' false "" cu :=
      fun nm' cu => dirStatus_notInCache fuel nm' false "" "" cu rfl (inC_empty sO) (inC_empty sN)
    simp only [dirStatus, quick_notInCache hO, quick_notInCache hN, hh, Bool.false_eq_true, if_false,
      childStatuses]
    rcases cur with _ | ⟨x | es | l | _⟩
    · rfl
    · rfl
    · dsimp only
      rw [untrackedStatuses_congr (sO := sO) (sN := sN) ih]
    · rfl
    · rfl

/-- no link to a cache object sits where the artifact `c` (read through the cache `s`) expects a
directory -/
def DirPos (ctx : Ctx κ) (s : Store κ) : Nat → Option (Node κ) → Child → Prop
  | 0, _, _ => True
  | fuel+1, cur, c => c.isDir = true →
      (∀ d, cur ≠ some (.link (.obj d))) ∧
      ∀ es cs, cur = some (.dir es) → readManifest ctx s c.sum = .ok cs →
        ∀ k, k ∈ cs → DirPos ctx s fuel (alookup es k.name) k

theorem findChild_twin {R : Child → Child → Prop} (hname : ∀ a b, R a b → a.name = b.name) :
    ∀ {csO csN : List Child}, All2 R csO csN → ∀ nm : Bytes,
      (findChild csO nm).isNone = (findChild csN nm).isNone
  | _, _, .nil, _ => rfl
  | _, _, .cons (a := a) (b := b) hab ht, nm => by
    simp only [findChild, List.find?_cons, ← hname a b hab]
    cases a.name == nm with
    | true => rfl
    | false => exact findChild_twin hname ht nm

theorem childStatuses_twin {ctx : Ctx κ} {sO sN : Store κ} {R : Child → Child → Prop}
    {fdO fdN : Bytes → Digest → Option (Node κ) → Except Err Status} {es : List (Name × Node κ)}
    (hname : ∀ a b, R a b → a.name = b.name) (hdir : ∀ a b, R a b → a.isDir = b.isDir)
    (hfile : ∀ a b, R a b → a.isDir = false →
      fileStatus ctx sO a.name false a.sum (alookup es a.name) =
        fileStatus ctx sN b.name false b.sum (alookup es b.name)) :
    ∀ {csO csN : List Child}, All2 R csO csN →
      (∀ a b, R a b → a ∈ csO → a.isDir = true →
        fdO a.name a.sum (alookup es a.name) = fdN b.name b.sum (alookup es b.name)) →
      childStatuses ctx sO fdO es csO = childStatuses ctx sN fdN es csN
  | _, _, .nil, _ => rfl
  | _, _, .cons (a := a) (b := b) (l₁ := l1) hab ht, hfd => by
    have ih := childStatuses_twin hname hdir hfile ht
      (fun x y hxy hx hd => hfd x y hxy (List.mem_cons_of_mem _ hx) hd)
    simp only [childStatuses, ← hdir a b hab, ih]
    cases hd : a.isDir with
    | true =>
      simp only [if_true]
      rw [hfd a b hab List.mem_cons_self hd]
    | false =>
      simp only [Bool.false_eq_true, if_false]
      rw [hfile a b hab hd]

/-- **The full status of twins is the same**, over any workspace entry in which no link to a cache
object sits where a directory is expected. -/
theorem dirStatus_twin {ctx : Ctx κ} {sO sN : Store κ} : ∀ (fuel : Nat) (cO cN : Child),
    TwinChild ctx sO sN fuel cO cN → cO.isDir = true → ∀ (nr : Bool) (cur : Option (Node κ)),
      DirPos ctx sO fuel cur cO →
      dirStatus ctx sO fuel cO.name nr cO.sum cur = dirStatus ctx sN fuel cN.name nr cN.sum cur
  | 0, _, _, h, _, _, _, _ => by simp [TwinChild] at h
  | fuel+1, cO, cN, h, hd, nr, cur, hpos => by
    simp only [TwinChild] at h
    obtain ⟨h1, _, h3⟩ := h
    simp only [hd, if_true] at h3
    rw [← h1]
    rcases h3 with ⟨e1, e2, e3⟩ | ⟨e1, e2, csO, csN, r1, r2, hf⟩
    · exact dirStatus_notInCache _ _ _ _ _ _ e1 e2 e3
    · have hasO := readManifest_ok_has r1
      have hasN := readManifest_ok_has r2
      simp only [DirPos] at hpos
      obtain ⟨hnolink, hkids⟩ := hpos hd
      have ih0 : ∀ nm' cu, dirStatus ctx sO fuel nm' false "" cu = dirStatus ctx sN fuel nm' false "" cu :=
        fun nm' cu => dirStatus_notInCache fuel nm' false "" "" cu rfl (inC_empty sO) (inC_empty sN)
      cases cur with
      | none => simp only [dirStatus, quick, e1, e2, hasO, hasN]
      | some n =>
        cases n with
        | file _ => simp only [dirStatus, quick, e1, e2, hasO, hasN]
        | other => simp only [dirStatus, quick, e1, e2, hasO, hasN]
        | link l =>
          cases l with
          | obj d => exact absurd rfl (hnolink d)
          | foreign _ => simp only [dirStatus, quick, e1, e2, hasO, hasN]
        | dir es =>
          have hkids' := hkids es csO rfl r1
          have hch : childStatuses ctx sO (fun nm sm cu => dirStatus ctx sO fuel nm false sm cu) es csO =
              childStatuses ctx sN (fun nm sm cu => dirStatus ctx sN fuel nm false sm cu) es csN :=
            childStatuses_twin (R := TwinChild ctx sO sN fuel) (fun a b hab => hab.name_eq)
              (fun a b hab => hab.isDir_eq)
              (fun a b hab hda => by
                cases fuel with
                | zero => simp [TwinChild] at hab
                | succ f =>
                  have hab' := hab
                  simp only [TwinChild, hda, Bool.false_eq_true, if_false] at hab'
                  rw [← hab'.1, ← hab'.2.2.1]
                  exact fileStatus_sameObj hab'.2.2.2 _ _ _)
              hf
              (fun a b hab ha hda => by
                have e := dirStatus_twin fuel a b hab hda false _ (hkids' a ha)
                rw [← TwinChild.name_eq hab]
                rw [← TwinChild.name_eq hab] at e
                exact e)
          have hun : ∀ l : List (Name × Node κ),
              l.filter (fun e => (findChild csO e.1).isNone) = l.filter (fun e => (findChild csN e.1).isNone) :=
            fun l => List.filter_congr (fun e _ => findChild_twin (fun a b hab => TwinChild.name_eq hab) hf e.1)
          simp only [dirStatus, quick, e1, e2, hasO, hasN, Bool.and_self, if_true, r1, r2, hch, hun]
          rw [untrackedStatuses_congr (sO := sO) (sN := sN) ih0]

/-- the same for the top-level `LocalCache.Status` -/
theorem statusArt_twin {ctx : Ctx κ} {sO sN : Store κ} {fuel : Nat} {aO aN : Art}
    (hsh : aO.noSum = aN.noSum) (h : TwinChild ctx sO sN fuel aO.child aN.child)
    (cur : Option (Node κ)) (hpos : DirPos ctx sO fuel cur aO.child) :
    statusArt ctx sO fuel aO cur = statusArt ctx sN fuel aN cur := by
  have hpath : aO.path = aN.path := congrArg (·.path) hsh
  have hdir : aO.isDir = aN.isDir := congrArg (·.isDir) hsh
  have hnr : aO.noRec = aN.noRec := congrArg (·.noRec) hsh
  have hskip : aO.skip = aN.skip := congrArg (·.skip) hsh
  unfold statusArt
  rw [← hdir, ← hskip, ← hnr]
  cases hd : aO.isDir with
  | true =>
    simp only [if_true]
    have := dirStatus_twin fuel aO.child aN.child h hd aO.noRec cur hpos
    simp only [Art.child] at this
    rw [this]
  | false =>
    simp only [Bool.false_eq_true, if_false]
    cases fuel with
    | zero => simp [TwinChild] at h
    | succ f =>
      simp only [TwinChild, Art.child, hd, Bool.false_eq_true, if_false] at h
      rw [← hpath, ← h.2.2.1]
      exact congrArg Except.ok (fileStatus_sameObj h.2.2.2 _ _ _)

end status

/-! ## lists related entry by entry -/

theorem All2.append {α β : Type} {R : α → β → Prop} : ∀ {l₁ : List α} {m₁ : List β} {l₂ : List α}
    {m₂ : List β}, All2 R l₁ m₁ → All2 R l₂ m₂ → All2 R (l₁ ++ l₂) (m₁ ++ m₂)
  | _, _, _, _, .nil, h => h
  | _, _, _, _, .cons hab ht, h => .cons hab (All2.append ht h)

theorem All2.filter {α β : Type} {R : α → β → Prop} {p : α → Bool} {q : β → Bool}
    (hpq : ∀ a b, R a b → p a = q b) : ∀ {l : List α} {m : List β}, All2 R l m →
      All2 R (l.filter p) (m.filter q)
  | _, _, .nil => .nil
  | _, _, .cons (a := a) (b := b) hab ht => by
    simp only [List.filter_cons, ← hpq a b hab]
    cases p a with
    | true => exact .cons hab (All2.filter hpq ht)
    | false => exact All2.filter hpq ht

theorem All2.mem_left {α β : Type} {R : α → β → Prop} : ∀ {l : List α} {m : List β},
    All2 R l m → ∀ a, a ∈ l → ∃ b, b ∈ m ∧ R a b
  | _, _, .nil, a, h => by cases h
  | _, _, .cons hr ht, a, h => by
    rcases List.mem_cons.1 h with rfl | h
    · exact ⟨_, List.mem_cons_self, hr⟩
    · obtain ⟨b, hb, hrb⟩ := All2.mem_left ht a h
      exact ⟨b, List.mem_cons_of_mem _ hb, hrb⟩

theorem All2.map_eq {α β γ : Type} {R : α → β → Prop} {f : α → γ} {g : β → γ}
    (hfg : ∀ a b, R a b → f a = g b) : ∀ {l : List α} {m : List β}, All2 R l m → l.map f = m.map g
  | _, _, .nil => rfl
  | _, _, .cons hab ht => by simp only [List.map_cons, hfg _ _ hab, All2.map_eq hfg ht]

theorem all2_insertArt {R : Art → Art → Prop} (hp : ∀ a b, R a b → a.path = b.path) {a b : Art}
    (hab : R a b) : ∀ {l m : List Art}, All2 R l m → All2 R (insertArt a l) (insertArt b m)
  | _, _, .nil => .cons hab .nil
  | _, _, .cons (a := x) (b := y) hxy ht => by
    simp only [insertArt, ← hp a b hab, ← hp x y hxy]
    split
    · exact .cons hab ht
    · split
      · exact .cons hab (.cons hxy ht)
      · exact .cons hxy (all2_insertArt hp hab ht)

theorem all2_sortArts {R : Art → Art → Prop} (hp : ∀ a b, R a b → a.path = b.path) :
    ∀ {l m : List Art}, All2 R l m → All2 R (sortArts l) (sortArts m)
  | _, _, .nil => .nil
  | _, _, .cons hab ht => all2_insertArt hp hab (all2_sortArts hp ht)

/-! ## twin worlds -/

/-- the two artifacts differ at most in the recorded checksum, and are twins -/
def TwinArt (ctx : Ctx κ) (sO sN : Store κ) (fuel : Nat) (aO aN : Art) : Prop :=
  aO.noSum = aN.noSum ∧ TwinChild ctx sO sN fuel aO.child aN.child

theorem TwinArt.path_eq {ctx : Ctx κ} {sO sN : Store κ} {fuel : Nat} {aO aN : Art}
    (h : TwinArt ctx sO sN fuel aO aN) : aO.path = aN.path := congrArg (·.path) h.1

theorem TwinArt.skip_eq {ctx : Ctx κ} {sO sN : Store κ} {fuel : Nat} {aO aN : Art}
    (h : TwinArt ctx sO sN fuel aO aN) : aO.skip = aN.skip := congrArg (·.skip) h.1

/-- same definition (command, working directory, artifact paths and flags) and the same stage
checksum; inputs and outputs pairwise twins -/
def TwinStage (ctx : Ctx κ) (sO sN : Store κ) (fuel : Nat) (stO stN : Stage) : Prop :=
  stO.sum = stN.sum ∧ stO.cmd = stN.cmd ∧ stO.wd = stN.wd ∧
    All2 (TwinArt ctx sO sN fuel) stO.inputs stN.inputs ∧
    All2 (TwinArt ctx sO sN fuel) stO.outputs stN.outputs

/-- the same stage paths in the same order, with twin stages -/
def TwinIdx (ctx : Ctx κ) (sO sN : Store κ) (fuel : Nat) (idxO idxN : Index) : Prop :=
  All2 (fun eO eN => eO.1 = eN.1 ∧ TwinStage ctx sO sN fuel eO.2 eN.2) idxO idxN

theorem all2_noSum {ctx : Ctx κ} {sO sN : Store κ} {fuel : Nat} {l m : List Art}
    (h : All2 (TwinArt ctx sO sN fuel) l m) : l.map Art.noSum = m.map Art.noSum :=
  All2.map_eq (fun _ _ hab => hab.1) h

theorem twinStage_sim {ctx : Ctx κ} {sO sN : Store κ} {fuel : Nat} {stO stN : Stage}
    (h : TwinStage ctx sO sN fuel stO stN) : StageSim stO stN := by
  obtain ⟨_, _, _, hi, ho⟩ := h
  refine ⟨fun p => ?_, fun p => findArt_noRec_of_noSum (all2_noSum ho) p⟩
  rw [paths_of_noSum (all2_noSum hi)]

theorem twinIdx_sameShape {ctx : Ctx κ} {sO sN : Store κ} {fuel : Nat} : ∀ {idxO idxN : Index},
    TwinIdx ctx sO sN fuel idxO idxN → SameShape idxO idxN
  | _, _, .nil => .nil
  | _, _, .cons hab ht => .cons ⟨hab.1, twinStage_sim hab.2⟩ (twinIdx_sameShape ht)

theorem twinIdx_alookup {ctx : Ctx κ} {sO sN : Store κ} {fuel : Nat} : ∀ {idxO idxN : Index},
    TwinIdx ctx sO sN fuel idxO idxN → ∀ sp : Bytes,
      (alookup idxO sp = none ∧ alookup idxN sp = none) ∨
      ∃ stO stN, alookup idxO sp = some stO ∧ alookup idxN sp = some stN ∧
        TwinStage ctx sO sN fuel stO stN
  | _, _, .nil, _ => .inl ⟨rfl, rfl⟩
  | _, _, .cons (a := eO) (b := eN) hab ht, sp => by
    obtain ⟨kO, stO⟩ := eO
    obtain ⟨kN, stN⟩ := eN
    obtain ⟨hk, hst⟩ := hab
    simp only at hk hst
    subst hk
    simp only [alookup]
    by_cases hks : kO = sp
    · subst hks
      exact .inr ⟨stO, stN, by simp, by simp, hst⟩
    · have : (kO == sp) = false := by simpa using hks
      simp only [this, Bool.false_eq_true, if_false]
      exact twinIdx_alookup ht sp

theorem twinIdx_keys {ctx : Ctx κ} {sO sN : Store κ} {fuel : Nat} {idxO idxN : Index}
    (h : TwinIdx ctx sO sN fuel idxO idxN) : idxO.map (·.1) = idxN.map (·.1) :=
  All2.map_eq (fun _ _ hab => hab.1) h

theorem twinIdx_length {ctx : Ctx κ} {sO sN : Store κ} {fuel : Nat} {idxO idxN : Index}
    (h : TwinIdx ctx sO sN fuel idxO idxN) : idxO.length = idxN.length := by
  have := congrArg List.length (twinIdx_keys h)
  simpa using this

/-- the owners of a stage, as a LIST, are the same in twin indexes -/
theorem ownersOf_twin {cfg : Cfg κ} {sO sN : Store κ} {wO wN : World κ}
    (h : TwinIdx cfg.ctx sO sN cfg.fuel wO.idx wN.idx) (sp : Bytes) :
    ownersOf cfg wN sp = ownersOf cfg wO sp := by
  have hsh := twinIdx_sameShape h
  simp only [ownersOf, World.stage]
  rcases twinIdx_alookup h sp with ⟨h1, h2⟩ | ⟨stO, stN, h1, h2, hst⟩
  · simp only [h1, h2]
  · simp only [h1, h2]
    obtain ⟨_, _, _, hi, _⟩ := hst
    have hpaths : (sortArts stO.inputs).map (·.path) = (sortArts stN.inputs).map (·.path) :=
      paths_of_noSum (all2_noSum (all2_sortArts (fun _ _ hab => TwinArt.path_eq hab) hi))
    have e : ∀ (idx : Index) (l : List Art),
        l.filterMap (fun a => (findOwner cfg.walkAccumulates idx a.path).map (·.1)) =
        (l.map (·.path)).filterMap (fun p => (findOwner cfg.walkAccumulates idx p).map (·.1)) := by
      intro idx l
      rw [List.filterMap_map]
      rfl
    have hf : (fun p => (findOwner cfg.walkAccumulates wN.idx p).map (·.1)) =
        (fun p => (findOwner cfg.walkAccumulates wO.idx p).map (·.1)) :=
      funext (fun p => (findOwner_sim cfg.walkAccumulates hsh p).symm)
    rw [e, e, hpaths, hf]

theorem findOwner_isNone_twin {cfg : Cfg κ} {sO sN : Store κ} {idxO idxN : Index}
    (h : TwinIdx cfg.ctx sO sN cfg.fuel idxO idxN) (p : Bytes) :
    (findOwner cfg.walkAccumulates idxO p).isNone = (findOwner cfg.walkAccumulates idxN p).isNone := by
  have := congrArg Option.isNone (findOwner_sim cfg.walkAccumulates (twinIdx_sameShape h) p)
  simpa using this

/-! ## `dud checkout` in twin worlds -/

theorem checkoutArtW_of {cfg : Cfg κ} {strat : Strat} {a : Art} {w : World κ} {n ws' : Node κ}
    (hsk : a.skip = false)
    (hn : checkoutNode cfg.ctx strat w.store cfg.fuel (getPath w.ws (Path.comps a.path)) a.child = .ok n)
    (hs : setPath w.ws (Path.comps a.path) n = some ws') :
    checkoutArtW cfg strat a w = .ok { w with ws := ws' } := by
  unfold checkoutArtW checkoutArt
  simp only [hsk, Bool.false_eq_true, if_false, hn, hs]

/-- one artifact: the twin world follows, with the same workspace -/
theorem checkoutArtW_twin {cfg : Cfg κ} {strat : Strat} {aO aN : Art} {a a' b : World κ}
    (ht : TwinArt cfg.ctx a.store b.store cfg.fuel aO aN) (hws : b.ws = a.ws)
    (h : checkoutArtW cfg strat aO a = .ok a') :
    a' = { a with ws := a'.ws } ∧ checkoutArtW cfg strat aN b = .ok { b with ws := a'.ws } := by
  rcases checkoutArtW_inv h with ⟨hsk, rfl⟩ | ⟨hsk, n, ws', hn, hs, rfl⟩
  · refine ⟨rfl, ?_⟩
    have : ({ b with ws := a'.ws } : World κ) = b := by rw [← hws]
    rw [this]
    exact checkoutArtW_noop (.inl (ht.skip_eq ▸ hsk))
  · refine ⟨rfl, ?_⟩
    have hn' := hn
    rw [checkoutNode_twin cfg.fuel aO.child aN.child ht.2, ht.path_eq, ← hws] at hn'
    have hs' := hs
    rw [ht.path_eq, ← hws] at hs'
    exact checkoutArtW_of (ht.skip_eq ▸ hsk) hn' hs'

theorem checkoutArts_twin {cfg : Cfg κ} {strat : Strat} : ∀ {asO asN : List Art} {a a' b : World κ},
    All2 (TwinArt cfg.ctx a.store b.store cfg.fuel) asO asN → b.ws = a.ws →
    checkoutArts cfg strat asO a = .ok a' →
    a' = { a with ws := a'.ws } ∧ checkoutArts cfg strat asN b = .ok { b with ws := a'.ws }
  | _, _, a, a', b, .nil, hws, h => by
    simp only [checkoutArts, Except.ok.injEq] at h
    subst h
    refine ⟨rfl, ?_⟩
    simp only [checkoutArts, ← hws]
  | _, _, a, a', b, .cons hab ht, hws, h => by
    rw [checkoutArts] at h
    split at h
    · cases h
    rename_i a1 h1
    obtain ⟨e1, g1⟩ := checkoutArtW_twin hab hws h1
    have hst1 : a1.store = a.store := by rw [e1]
    obtain ⟨e2, g2⟩ := checkoutArts_twin (a := a1) (b := { b with ws := a1.ws }) (a' := a')
      (by rw [hst1]; exact ht) rfl h
    refine ⟨by rw [e2, e1], ?_⟩
    rw [checkoutArts, g1]
    exact g2

/-- the relation the two checkout traversals keep: twin indexes, the two caches, the same
workspace and memo -/
def CoRel (cfg : Cfg κ) (sO sN : Store κ) (a b : World κ) : Prop :=
  TwinIdx cfg.ctx sO sN cfg.fuel a.idx b.idx ∧ a.store = sO ∧ b.store = sN ∧ b.ws = a.ws ∧
    b.done = a.done

theorem checkoutAct_twin {cfg : Cfg κ} {strat : Strat} {sO sN : Store κ} {sp : Bytes}
    {a a' b : World κ} (hr : CoRel cfg sO sN a b) (h : checkoutAct cfg strat sp a = .ok a') :
    ∃ b', checkoutAct cfg strat sp b = .ok b' ∧ CoRel cfg sO sN a' b' := by
  obtain ⟨hidx, hsO, hsN, hws, hdone⟩ := hr
  obtain ⟨stO, a1, hl, harts, rfl⟩ := checkoutAct_inv h
  rcases twinIdx_alookup hidx sp with ⟨h1, _⟩ | ⟨stO', stN, h1, h2, hst⟩
  · rw [hl] at h1; cases h1
  · rw [hl] at h1
    cases h1
    have hout := all2_sortArts (fun _ _ hab => TwinArt.path_eq hab) hst.2.2.2.2
    obtain ⟨e1, g1⟩ := checkoutArts_twin (a := a) (b := b) (by rw [hsO, hsN]; exact hout) hws harts
    refine ⟨_, checkoutAct_of h2 g1, ?_⟩
    generalize a1.ws = ws1 at e1
    subst e1
    exact ⟨hidx, hsO, hsN, rfl, by simp only [hdone]⟩

/-- **`dud checkout` in twin worlds**: whenever it succeeds in the one it succeeds in the other,
with the same workspace (and the same stages visited). -/
theorem cmdCheckout_twin {cfg : Cfg κ} {strat : Strat} {single : Bool} {targets : List Bytes}
    {wO wN wO' : World κ} (hidx : TwinIdx cfg.ctx wO.store wN.store cfg.fuel wO.idx wN.idx)
    (hws : wN.ws = wO.ws) (h : cmdCheckout cfg strat single targets wO = .ok wO') :
    ∃ wN', cmdCheckout cfg strat single targets wN = .ok wN' ∧ wN'.ws = wO'.ws ∧
      wN'.done = wO'.done ∧ wN'.store = wN.store ∧ wN'.idx = wN.idx ∧
      wO'.store = wO.store ∧ wO'.idx = wO.idx := by
  unfold cmdCheckout at h ⊢
  split at h
  · cases h
  rename_i hne
  have hkeys := twinIdx_keys hidx
  have hall : allStages wN = allStages wO := by simp only [allStages]; exact hkeys.symm
  have hneN : wN.idx.isEmpty = false := by
    have := twinIdx_length hidx
    cases hO : wO.idx with
    | nil => rw [hO] at hne; simp at hne
    | cons _ _ =>
      cases hN : wN.idx with
      | nil => rw [hO, hN] at this; simp at this
      | cons _ _ => rfl
  rw [if_neg (by rw [hneN]; simp)]
  obtain ⟨b', hb', hr'⟩ := perTarget_sim (CoRel cfg wO.store wN.store) (fun _ => True)
    (fun a b t hr => by
      rcases twinIdx_alookup hr.1 t with ⟨h1, h2⟩ | ⟨_, _, h1, h2, _⟩ <;> rw [h1, h2] <;> rfl)
    (f2 := fun t w => visit (checkoutTrav cfg strat) (targets.isEmpty || !single)
      (w.idx.length + 1) (allStages w) t w)
    (fun _ _ _ _ _ => trivial)
    (fun t a a' b hv _ hr => by
      have hlen := twinIdx_length hr.1
      have hst : allStages b = allStages a := by simp only [allStages]; exact (twinIdx_keys hr.1).symm
      simp only [← hlen, hst]
      exact visit_sim (checkoutTrav cfg strat) (checkoutTrav cfg strat) _
        (CoRel cfg wO.store wN.store) (fun _ => True)
        (fun a b sp hr => by
          show b.done.contains sp = a.done.contains sp
          rw [hr.2.2.2.2])
        (fun a b sp hr => ownersOf_twin (sO := wO.store) (sN := wN.store) hr.1 sp)
        (fun _ _ _ _ _ => trivial)
        (fun sp x x' y hr hxx' _ => checkoutAct_twin hr hxx')
        _ _ t a a' b hv trivial hr)
    _ (fresh wO) wO' (fresh wN) h trivial ⟨hidx, rfl, rfl, hws, rfl⟩
  obtain ⟨_, e2, e3, e4, e5⟩ := hr'
  have hO := perTarget_keeps (fun x : World κ => x.store = wO.store ∧ x.idx = wO.idx)
    (fun t x y hx hv => visit_keeps (checkoutTrav cfg strat) _
      (fun x : World κ => x.store = wO.store ∧ x.idx = wO.idx)
      (fun sp x y hx hxy => by
        obtain ⟨_, x1, _, harts, rfl⟩ := checkoutAct_inv hxy
        obtain ⟨e1, _, _⟩ := checkoutArts_conf _ harts
        rw [e1]; exact hx) _ _ t x y hx hv) _ (fresh wO) wO' ⟨rfl, rfl⟩ h
  have hN := perTarget_keeps (fun x : World κ => x.store = wN.store ∧ x.idx = wN.idx)
    (fun t x y hx hv => visit_keeps (checkoutTrav cfg strat) _
      (fun x : World κ => x.store = wN.store ∧ x.idx = wN.idx)
      (fun sp x y hx hxy => by
        obtain ⟨_, x1, _, harts, rfl⟩ := checkoutAct_inv hxy
        obtain ⟨e1, _, _⟩ := checkoutArts_conf _ harts
        rw [e1]; exact hx) _ _ t x y hx hv) _ (fresh wN) b' ⟨rfl, rfl⟩ hb'
  refine ⟨b', ?_, e4, e5, hN.1, hN.2, hO.1, hO.2⟩
  rw [hall]
  exact hb'

/-! ## `dud status` in twin worlds -/

section statusWorld
variable [DecidableEq κ]

theorem statusArts_twin {cfg : Cfg κ} {a b : World κ} (hws : b.ws = a.ws) :
    ∀ {asO asN : List Art}, All2 (TwinArt cfg.ctx a.store b.store cfg.fuel) asO asN →
      (∀ x, x ∈ asO →
        DirPos cfg.ctx a.store cfg.fuel (getPath a.ws (Path.comps x.path)) x.child) →
      statusArts cfg b asN = statusArts cfg a asO
  | _, _, .nil, _ => rfl
  | _, _, .cons (a := x) (b := y) hxy ht, hpos => by
    have ih := statusArts_twin hws ht (fun z hz => hpos z (List.mem_cons_of_mem _ hz))
    have h1 := statusArt_twin hxy.1 hxy.2 (getPath a.ws (Path.comps x.path)) (hpos x List.mem_cons_self)
    simp only [statusArts, ih, hws, ← hxy.path_eq, h1]

omit [DecidableEq κ] in
theorem defSum_twin {cfg : Cfg κ} {sO sN : Store κ} {stO stN : Stage}
    (h : TwinStage cfg.ctx sO sN cfg.fuel stO stN) : stO.defSum cfg = stN.defSum cfg := by
  obtain ⟨_, hc, hw, hi, ho⟩ := h
  have key : ∀ {l m : List Art}, All2 (TwinArt cfg.ctx sO sN cfg.fuel) l m →
      (sortArts l).map Art.defArt = (sortArts m).map Art.defArt := fun hlm =>
    All2.map_eq (fun x y hxy => by
      have : x.noSum.defArt = y.noSum.defArt := by rw [hxy.1]
      exact this) (all2_sortArts (fun _ _ hab => TwinArt.path_eq hab) hlm)
  simp only [Stage.defSum, Stage.defBytes, hc, hw, key hi, key ho]

/-- no link to a cache object sits where an artifact `dud status` looks at (the outputs, and the
inputs no stage owns) expects a directory -/
def WsDirPos (cfg : Cfg κ) (a : World κ) : Prop :=
  ∀ sp stg, alookup a.idx sp = some stg → ∀ x,
    x ∈ stg.inputs.filter (fun x => (findOwner cfg.walkAccumulates a.idx x.path).isNone) ++ stg.outputs →
    DirPos cfg.ctx a.store cfg.fuel (getPath a.ws (Path.comps x.path)) x.child

/-- the relation the two status traversals keep -/
def StRel (cfg : Cfg κ) (sO sN : Store κ) (a b : World κ) : Prop :=
  (TwinIdx cfg.ctx sO sN cfg.fuel a.idx b.idx ∧ a.store = sO ∧ b.store = sN ∧ b.ws = a.ws ∧
    b.done = a.done ∧ b.stat = a.stat) ∧ WsDirPos cfg a

theorem statusAct_twin {cfg : Cfg κ} {sO sN : Store κ} {sp : Bytes} {a a' b : World κ}
    (hr : StRel cfg sO sN a b) (h : statusAct cfg sp a = .ok a') :
    ∃ b', statusAct cfg sp b = .ok b' ∧ StRel cfg sO sN a' b' := by
  obtain ⟨⟨hidx, hsO, hsN, hws, hdone, hstat⟩, hpos⟩ := hr
  unfold statusAct World.stage at h ⊢
  rcases twinIdx_alookup hidx sp with ⟨h1, _⟩ | ⟨stO, stN, h1, h2, hst⟩
  · simp [h1] at h
  · simp only [h1] at h
    simp only [h2]
    have hplain : All2 (TwinArt cfg.ctx sO sN cfg.fuel)
        (stO.inputs.filter (fun x => (findOwner cfg.walkAccumulates a.idx x.path).isNone))
        (stN.inputs.filter (fun x => (findOwner cfg.walkAccumulates b.idx x.path).isNone)) :=
      All2.filter (fun x y hxy => by
        simp only [hxy.path_eq]
        exact findOwner_isNone_twin hidx y.path) hst.2.2.2.1
    have hall := all2_sortArts (fun _ _ hab => TwinArt.path_eq hab) (hplain.append hst.2.2.2.2)
    have hsts := statusArts_twin (a := a) (b := b) hws (by rw [hsO, hsN]; exact hall) (by
      intro x hx
      exact hpos sp stO h1 x (mem_of_mem_sortArts hx))
    rw [hsts]
    split at h
    · cases h
    rename_i sts hs
    simp only [Except.ok.injEq] at h
    subst h
    refine ⟨_, rfl, ⟨hidx, hsO, hsN, hws, ?_, ?_⟩, hpos⟩
    · simp only [hdone]
    · simp only [hstat, hst.1, defSum_twin hst]

/-- **`dud status` in twin worlds** reports the same statuses (stage by stage: recorded-checksum
flags and the full status tree of every artifact), provided no link to a cache object sits where an
artifact expects a directory (`WsDirPos`). -/
theorem cmdStatus_twin {cfg : Cfg κ} {targets : List Bytes} {wO wN wO' : World κ}
    (hidx : TwinIdx cfg.ctx wO.store wN.store cfg.fuel wO.idx wN.idx) (hws : wN.ws = wO.ws)
    (hpos : WsDirPos cfg wO) (h : cmdStatus cfg targets wO = .ok wO') :
    ∃ wN', cmdStatus cfg targets wN = .ok wN' ∧ wN'.stat = wO'.stat ∧ wN'.done = wO'.done := by
  unfold cmdStatus at h ⊢
  split at h
  · cases h
  rename_i hne
  have hkeys := twinIdx_keys hidx
  have hall : allStages wN = allStages wO := by simp only [allStages]; exact hkeys.symm
  have hneN : wN.idx.isEmpty = false := by
    have := twinIdx_length hidx
    cases hO : wO.idx with
    | nil => rw [hO] at hne; simp at hne
    | cons _ _ =>
      cases hN : wN.idx with
      | nil => rw [hO, hN] at this; simp at this
      | cons _ _ => rfl
  rw [if_neg (by rw [hneN]; simp)]
  obtain ⟨b', hb', hr'⟩ := perTarget_sim (StRel cfg wO.store wN.store) (fun _ => True)
    (fun a b t hr => by
      rcases twinIdx_alookup hr.1.1 t with ⟨h1, h2⟩ | ⟨_, _, h1, h2, _⟩ <;> rw [h1, h2] <;> rfl)
    (f2 := fun t w => visit (statusTrav cfg) true (w.idx.length + 1) (allStages w) t w)
    (fun _ _ _ _ _ => trivial)
    (fun t a a' b hv _ hr => by
      have hlen := twinIdx_length hr.1.1
      have hst : allStages b = allStages a := by simp only [allStages]; exact (twinIdx_keys hr.1.1).symm
      simp only [← hlen, hst]
      exact visit_sim (statusTrav cfg) (statusTrav cfg) _
        (StRel cfg wO.store wN.store) (fun _ => True)
        (fun a b sp hr => by
          show b.done.contains sp = a.done.contains sp
          rw [hr.1.2.2.2.2.1])
        (fun a b sp hr => ownersOf_twin (sO := wO.store) (sN := wN.store) hr.1.1 sp)
        (fun _ _ _ _ _ => trivial)
        (fun sp x x' y hr hxx' _ => statusAct_twin hr hxx')
        _ _ t a a' b hv trivial hr)
    _ (fresh wO) wO' (fresh wN) h trivial ⟨⟨hidx, rfl, rfl, hws, rfl, rfl⟩, hpos⟩
  refine ⟨b', ?_, hr'.1.2.2.2.2.2, hr'.1.2.2.2.2.1⟩
  rw [hall]
  exact hb'

end statusWorld

/-! ## discharging `DirPos` -/

theorem dirPos_file {ctx : Ctx κ} {s : Store κ} {fuel : Nat} {cur : Option (Node κ)} {c : Child}
    (h : c.isDir = false) : DirPos ctx s fuel cur c := by
  cases fuel with
  | zero => simp [DirPos]
  | succ f =>
    simp only [DirPos]
    intro hd
    rw [h] at hd
    cases hd

theorem dirPos_none {ctx : Ctx κ} {s : Store κ} {fuel : Nat} {c : Child} :
    DirPos ctx s fuel none c := by
  cases fuel with
  | zero => simp [DirPos]
  | succ f =>
    simp only [DirPos]
    intro _
    refine ⟨?_, ?_⟩
    · intro d h; cases h
    · intro es cs h; cases h

/-- a checked-out entry (`CI.Conf`) has directories wherever the artifact expects them -/
theorem dirPos_of_conf {ctx : Ctx κ} {strat : Strat} {s : Store κ} : ∀ (fuel : Nat) (n : Node κ)
    (c : Child), Conf ctx strat s fuel n c → DirPos ctx s fuel (some n) c
  | 0, _, _, _ => by simp [DirPos]
  | fuel+1, n, c, h => by
    simp only [DirPos]
    intro hd
    rw [conf_succ_dir hd] at h
    obtain ⟨_, _, es, cs, rfl, hcs, hall⟩ := h
    refine ⟨?_, ?_⟩
    · intro d hc; cases hc
    intro es' cs' he hcs' k hk
    simp only [Option.some.injEq, Node.dir.injEq] at he
    subst he
    rw [hcs] at hcs'
    cases hcs'
    obtain ⟨m, hm, hc⟩ := hall k hk
    rw [hm]
    exact dirPos_of_conf fuel m k hc

/-! ## the logical content of the workspace in the two caches -/

mutual
/-- every link to a cache object in the tree resolves, in both caches, to objects with the same
bytes (or in neither) -/
def LinksAgree (ctx : Ctx κ) (sO sN : Store κ) : Node κ → Prop
  | .link (.obj d) => SameObj ctx sO sN d
  | .link (.foreign _) => True
  | .file _ => True
  | .other => True
  | .dir es => LinksAgreeList ctx sO sN es
def LinksAgreeList (ctx : Ctx κ) (sO sN : Store κ) : List (Name × Node κ) → Prop
  | [] => True
  | (_, n) :: r => LinksAgree ctx sO sN n ∧ LinksAgreeList ctx sO sN r
end

mutual
/-- … then the logical content (`deref`) is the same w.r.t. both caches -/
theorem deref_agree {ctx : Ctx κ} {sO sN : Store κ} : ∀ (n : Node κ), LinksAgree ctx sO sN n →
    deref ctx sO n = deref ctx sN n
  | .link (.obj d), h => by
    simp only [LinksAgree] at h
    rcases h with ⟨h1, h2⟩ | ⟨oO, oN, h1, h2, hb⟩
    · simp only [deref, h1, h2]
    · simp only [deref, h1, h2, hb]
  | .link (.foreign _), _ => by simp only [deref]
  | .file _, _ => by simp only [deref]
  | .other, _ => by simp only [deref]
  | .dir es, h => by
    simp only [LinksAgree] at h
    simp only [deref, derefList_agree es h]
theorem derefList_agree {ctx : Ctx κ} {sO sN : Store κ} : ∀ (es : List (Name × Node κ)),
    LinksAgreeList ctx sO sN es → derefList ctx sO es = derefList ctx sN es
  | [], _ => by simp only [derefList]
  | (nm, n) :: r, h => by
    simp only [LinksAgreeList] at h
    simp only [derefList, deref_agree n h.1, derefList_agree r h.2]
end

theorem linksAgree_alookup {ctx : Ctx κ} {sO sN : Store κ} : ∀ {es : List (Name × Node κ)} {nm : Name}
    {n : Node κ}, LinksAgreeList ctx sO sN es → alookup es nm = some n → LinksAgree ctx sO sN n
  | [], _, _, _, h => by simp [alookup] at h
  | (k, v) :: r, nm, n, hl, h => by
    simp only [LinksAgreeList] at hl
    simp only [alookup] at h
    split at h
    · simp only [Option.some.injEq] at h; exact h ▸ hl.1
    · exact linksAgree_alookup hl.2 h

theorem linksAgree_setEntry {ctx : Ctx κ} {sO sN : Store κ} : ∀ {es : List (Name × Node κ)} {nm : Name}
    {n : Node κ}, LinksAgreeList ctx sO sN es → LinksAgree ctx sO sN n →
      LinksAgreeList ctx sO sN (setEntry es nm n)
  | [], _, _, _, hn => by simp only [setEntry, LinksAgreeList]; exact ⟨hn, trivial⟩
  | (k, v) :: r, nm, n, hl, hn => by
    simp only [LinksAgreeList] at hl
    simp only [setEntry]
    split
    · simp only [LinksAgreeList]; exact ⟨hn, hl.2⟩
    · simp only [LinksAgreeList]; exact ⟨hl.1, linksAgree_setEntry hl.2 hn⟩

theorem linksAgree_getPath {ctx : Ctx κ} {sO sN : Store κ} : ∀ (p : List Name) {w n : Node κ},
    LinksAgree ctx sO sN w → getPath w p = some n → LinksAgree ctx sO sN n
  | [], w, n, hw, h => by
    simp only [getPath, Option.some.injEq] at h
    exact h ▸ hw
  | x :: r, w, n, hw, h => by
    obtain ⟨es, mx, rfl, hmx, hr⟩ := getPath_cons_inv h
    simp only [LinksAgree] at hw
    exact linksAgree_getPath r (linksAgree_alookup hw hmx) hr

theorem linksAgree_setPath {ctx : Ctx κ} {sO sN : Store κ} : ∀ (p : List Name) {w v w' : Node κ},
    LinksAgree ctx sO sN w → LinksAgree ctx sO sN v → setPath w p v = some w' →
      LinksAgree ctx sO sN w'
  | [], w, v, w', _, hv, h => by
    simp only [setPath, Option.some.injEq] at h
    exact h ▸ hv
  | x :: r, w, v, w', hw, hv, h => by
    obtain ⟨es, k, rfl, hk, rfl⟩ := setPath_cons_inv h
    simp only [LinksAgree] at hw ⊢
    refine linksAgree_setEntry hw (linksAgree_setPath r ?_ hv hk)
    cases hl : alookup es x with
    | none => simp only [Option.getD_none, LinksAgree, LinksAgreeList]
    | some m => simp only [Option.getD_some]; exact linksAgree_alookup hw hl

theorem linksAgree_checkoutChildren {ctx : Ctx κ} {sO sN : Store κ}
    {f : Option (Node κ) → Child → Except Err (Node κ)} :
    ∀ (cs : List Child) (es es' : List (Name × Node κ)),
      (∀ c, c ∈ cs → ∀ cur r, (∀ n, cur = some n → LinksAgree ctx sO sN n) → f cur c = .ok r →
        LinksAgree ctx sO sN r) →
      LinksAgreeList ctx sO sN es → checkoutChildren f es cs = .ok es' → LinksAgreeList ctx sO sN es'
  | [], es, es', _, hl, h => by
    rw [checkoutChildren_nil] at h
    cases h
    exact hl
  | c :: cs, es, es', hf, hl, h => by
    obtain ⟨n, hn, hrest⟩ := checkoutChildren_cons_inv h
    have hnl := hf c List.mem_cons_self _ n (fun m hm => linksAgree_alookup hl hm) hn
    exact linksAgree_checkoutChildren cs _ es' (fun c' hc' => hf c' (List.mem_cons_of_mem _ hc'))
      (linksAgree_setEntry hl hnl) hrest

/-- checkout of a twin artifact over an entry whose links agree leaves an entry whose links agree -/
theorem linksAgree_checkoutNode {ctx : Ctx κ} {strat : Strat} {sO sN : Store κ} : ∀ (fuel : Nat)
    (cO cN : Child), TwinChild ctx sO sN fuel cO cN → ∀ (cur : Option (Node κ)) (r : Node κ),
      (∀ n, cur = some n → LinksAgree ctx sO sN n) → checkoutNode ctx strat sO fuel cur cO = .ok r →
      LinksAgree ctx sO sN r
  | 0, _, _, h, _, _, _, _ => by simp [TwinChild] at h
  | fuel+1, cO, cN, h, cur, r, hcur, hco => by
    simp only [TwinChild] at h
    obtain ⟨_, _, h3⟩ := h
    cases hd : cO.isDir with
    | false =>
      simp only [hd, Bool.false_eq_true, if_false] at h3
      rw [checkoutNode_file hd] at hco
      obtain ⟨_, _, hc⟩ := conf_of_checkoutFile hco
      rcases hc with hc | ⟨_, rfl⟩
      · cases r with
        | file _ => simp only [LinksAgree]
        | dir _ => simp [upToDateCopy] at hc
        | link _ => simp [upToDateCopy] at hc
        | other => simp [upToDateCopy] at hc
      · simp only [LinksAgree]; exact h3.2
    | true =>
      simp only [hd, if_true] at h3
      obtain ⟨hh, hhas, es, cs, es', hcur', hcs, hch, rfl⟩ := checkoutNode_dir_inv hd hco
      rcases h3 with ⟨_, e2, _⟩ | ⟨_, _, csO, csN, r1, _, hf⟩
      · simp [inC, hh, hhas] at e2
      · rw [hcs] at r1
        cases r1
        simp only [LinksAgree]
        have hes : LinksAgreeList ctx sO sN es := by
          rcases hcur' with hc | ⟨_, rfl⟩
          · have := hcur _ hc
            simpa only [LinksAgree] using this
          · simp only [LinksAgreeList]
        refine linksAgree_checkoutChildren cs es es' (fun c hc cu r' hcu hr' => ?_) hes hch
        obtain ⟨c', _, hcc'⟩ := All2.mem_left hf c hc
        exact linksAgree_checkoutNode fuel c c' hcc' cu r' hcu hr'

theorem linksAgree_checkoutArtW {cfg : Cfg κ} {strat : Strat} {sN : Store κ} {aO aN : Art}
    {a a' : World κ} (ht : TwinArt cfg.ctx a.store sN cfg.fuel aO aN)
    (hl : LinksAgree cfg.ctx a.store sN a.ws) (h : checkoutArtW cfg strat aO a = .ok a') :
    LinksAgree cfg.ctx a.store sN a'.ws := by
  rcases checkoutArtW_inv h with ⟨_, rfl⟩ | ⟨_, n, ws', hn, hs, rfl⟩
  · exact hl
  · exact linksAgree_setPath _ hl
      (linksAgree_checkoutNode cfg.fuel aO.child aN.child ht.2 _ n
        (fun m hm => linksAgree_getPath _ hl hm) hn) hs

theorem linksAgree_checkoutArts {cfg : Cfg κ} {strat : Strat} {sN : Store κ} :
    ∀ (asO : List Art) {a a' : World κ},
      (∀ x, x ∈ asO → ∃ y, TwinArt cfg.ctx a.store sN cfg.fuel x y) →
      LinksAgree cfg.ctx a.store sN a.ws → checkoutArts cfg strat asO a = .ok a' →
      LinksAgree cfg.ctx a.store sN a'.ws
  | [], a, a', _, hl, h => by
    simp only [checkoutArts, Except.ok.injEq] at h
    exact h ▸ hl
  | x :: r, a, a', ht, hl, h => by
    rw [checkoutArts] at h
    split at h
    · cases h
    rename_i a1 h1
    obtain ⟨y, hxy⟩ := ht x List.mem_cons_self
    have hl1 := linksAgree_checkoutArtW hxy hl h1
    obtain ⟨e1, _, _⟩ := checkoutArtW_conf h1
    have hst : a1.store = a.store := by rw [e1]
    rw [← hst] at hl1 ⊢
    exact linksAgree_checkoutArts r (fun z hz => by rw [hst]; exact ht z (List.mem_cons_of_mem _ hz)) hl1 h

/-- **`dud checkout` in twin worlds keeps the links of the workspace in agreement**: if every link
to a cache object in the common workspace resolves alike in the two caches, so it does after the
command — hence the logical content (`deref`) of the resulting workspace is the same w.r.t. both
caches (`deref_agree`). -/
theorem cmdCheckout_linksAgree {cfg : Cfg κ} {strat : Strat} {single : Bool} {targets : List Bytes}
    {wO wN wO' : World κ} (hidx : TwinIdx cfg.ctx wO.store wN.store cfg.fuel wO.idx wN.idx)
    (hl : LinksAgree cfg.ctx wO.store wN.store wO.ws)
    (h : cmdCheckout cfg strat single targets wO = .ok wO') :
    LinksAgree cfg.ctx wO.store wN.store wO'.ws := by
  unfold cmdCheckout at h
  split at h
  · cases h
  have := perTarget_keeps
    (fun x : World κ => x.store = wO.store ∧ x.idx = wO.idx ∧ LinksAgree cfg.ctx wO.store wN.store x.ws)
    (fun t x y hx hv => visit_keeps (checkoutTrav cfg strat) _
      (fun x : World κ => x.store = wO.store ∧ x.idx = wO.idx ∧
        LinksAgree cfg.ctx wO.store wN.store x.ws)
      (fun sp x y hx hxy => by
        obtain ⟨hs, hi, hla⟩ := hx
        obtain ⟨stO, x1, hlk, harts, rfl⟩ := checkoutAct_inv hxy
        obtain ⟨e1, _, _⟩ := checkoutArts_conf _ harts
        refine ⟨by rw [e1]; exact hs, by rw [e1]; exact hi, ?_⟩
        rw [hi] at hlk
        rcases twinIdx_alookup hidx sp with ⟨h1, _⟩ | ⟨stO', stN, h1, _, hst⟩
        · rw [hlk] at h1; cases h1
        · rw [hlk] at h1
          cases h1
          have hout := all2_sortArts (fun _ _ hab => TwinArt.path_eq hab) hst.2.2.2.2
          have := linksAgree_checkoutArts (sN := wN.store) (sortArts stO.outputs) (a := x) (a' := x1)
            (fun z hz => by
              obtain ⟨y', _, hzy⟩ := All2.mem_left hout z hz
              exact ⟨y', by rw [hs]; exact hzy⟩)
            (by rw [hs]; exact hla) harts
          rw [hs] at this
          exact this) _ _ t x y hx hv) _ (fresh wO) wO' ⟨rfl, rfl, hl⟩ h
  exact this.2.2

/-! ## building the relation on concrete data -/

theorem TwinChild.file {ctx : Ctx κ} {sO sN : Store κ} {fuel : Nat} {nm : Bytes} {sum : Digest}
    (h : SameObj ctx sO sN sum) : TwinChild ctx sO sN (fuel+1) ⟨nm, sum, false⟩ ⟨nm, sum, false⟩ := by
  simp only [TwinChild, Bool.false_eq_true, if_false, true_and]
  exact h

theorem TwinChild.dir {ctx : Ctx κ} {sO sN : Store κ} {fuel : Nat} {nm : Bytes} {sumO sumN : Digest}
    {csO csN : List Child} (hO : hasSum sumO = true) (hN : hasSum sumN = true)
    (rO : readManifest ctx sO sumO = .ok csO) (rN : readManifest ctx sN sumN = .ok csN)
    (hall : All2 (TwinChild ctx sO sN fuel) csO csN) :
    TwinChild ctx sO sN (fuel+1) ⟨nm, sumO, true⟩ ⟨nm, sumN, true⟩ := by
  simp only [TwinChild, if_true, true_and]
  exact .inr ⟨hO, hN, csO, csN, rO, rN, hall⟩

end Dud.Twin
