import DudModel.Lemmas.WorldStatus
/-!
# World-level helpers for the lift of C15 (`dud commit` twice)

* `sortArts` as a canonical form (the lemmas of `Lemmas/StageFile.lean`, which cannot be imported
  together with `Lemmas/Shape.lean`, re-proved in the namespace `Dud.WStat`);
* `findOwner_some`: the owning artifact is a function of the owner's record;
* `CommitInv3`: the invariant of the commit traversal once more extended: the recorded inputs are
  sorted and an owned input carries the checksum its owner records;
* `RecommitInv`, `recommit_step`: the invariant of a second commit traversal and its step.
-/
namespace Dud.WStat

open Dud.WT

variable {κ : Type}

/-! ## `sortArts` is a canonical form -/

/-- strictly increasing paths -/
def Sorted (l : List Art) : Prop := l.Pairwise (fun a b => a.path < b.path)

theorem bytes_lt_of_not (a b : Bytes) (h1 : ¬ a < b) (h2 : a ≠ b) : b < a := by
  rcases List.le_iff_lt_or_eq.1 (List.not_lt.1 h1) with h | h
  · exact h
  · exact absurd h.symm h2

theorem insertArt_sorted (c : Art) : ∀ {l : List Art}, Sorted l → Sorted (insertArt c l)
  | [], _ => by simp [insertArt, Sorted]
  | x :: xs, h => by
    have hx : ∀ y ∈ xs, x.path < y.path := (List.pairwise_cons.1 h).1
    have hxs : Sorted xs := (List.pairwise_cons.1 h).2
    simp only [insertArt]
    split
    · next heq =>
      have heq' : c.path = x.path := by simpa using heq
      exact List.pairwise_cons.2 ⟨fun y hy => heq' ▸ hx y hy, hxs⟩
    · next hne =>
      have hne' : c.path ≠ x.path := by simpa using hne
      split
      · next hlt =>
        have hlt' : c.path < x.path := by simpa using hlt
        refine List.pairwise_cons.2 ⟨?_, h⟩
        intro y hy
        rcases List.mem_cons.1 hy with rfl | hy
        · exact hlt'
        · exact List.lt_trans hlt' (hx y hy)
      · next hnlt =>
        have hgt : x.path < c.path := bytes_lt_of_not _ _ (by simpa using hnlt) hne'
        refine List.pairwise_cons.2 ⟨?_, insertArt_sorted c hxs⟩
        intro y hy
        rcases mem_insertArt hy with rfl | hy
        · exact hgt
        · exact hx y hy

theorem insertArt_perm (c : Art) : ∀ {l : List Art}, (∀ y ∈ l, c.path ≠ y.path) →
    (insertArt c l).Perm (c :: l)
  | [], _ => by simp [insertArt]
  | x :: xs, h => by
    have hne : c.path ≠ x.path := h x (by simp)
    simp only [insertArt, beq_iff_eq, hne, if_false]
    split
    · exact List.Perm.refl _
    · exact ((insertArt_perm c (fun y hy => h y (by simp [hy]))).cons x).trans
        (List.Perm.swap c x xs)

theorem sortArts_cons (c : Art) (l : List Art) : sortArts (c :: l) = insertArt c (sortArts l) := rfl

theorem sortArts_sorted : ∀ (l : List Art), Sorted (sortArts l)
  | [] => by simp [sortArts, Sorted]
  | c :: cs => by rw [sortArts_cons]; exact insertArt_sorted c (sortArts_sorted cs)

theorem sortArts_perm_self : ∀ (l : List Art), (l.map (·.path)).Nodup → (sortArts l).Perm l
  | [], _ => by simp [sortArts]
  | c :: cs, h => by
    have hnd : c.path ∉ cs.map (·.path) ∧ (cs.map (·.path)).Nodup :=
      List.nodup_cons.1 (by rw [List.map_cons] at h; exact h)
    have ih := sortArts_perm_self cs hnd.2
    rw [sortArts_cons]
    refine (insertArt_perm c ?_).trans (ih.cons c)
    intro y hy heq
    exact hnd.1 (List.mem_map.2 ⟨y, ih.mem_iff.1 hy, heq.symm⟩)

/-- on maps (one entry per path) `sortArts` does not depend on the order of its input -/
theorem sortArts_perm {l1 l2 : List Art} (hp : l1.Perm l2) (hnd : (l1.map (·.path)).Nodup) :
    sortArts l1 = sortArts l2 := by
  have hnd2 : (l2.map (·.path)).Nodup := (hp.map _).nodup_iff.1 hnd
  have hperm : (sortArts l1).Perm (sortArts l2) :=
    ((sortArts_perm_self l1 hnd).trans hp).trans (sortArts_perm_self l2 hnd2).symm
  refine List.Perm.eq_of_pairwise ?_ (sortArts_sorted l1) (sortArts_sorted l2) hperm
  intro a b _ _ hab hba
  exact absurd hba (List.lt_asymm hab)

/-- a sorted list is its own canonical form -/
theorem sortArts_of_sorted : ∀ {l : List Art}, Sorted l → sortArts l = l
  | [], _ => rfl
  | x :: xs, h => by
    have hx : ∀ y ∈ xs, x.path < y.path := (List.pairwise_cons.1 h).1
    rw [sortArts_cons, sortArts_of_sorted (List.pairwise_cons.1 h).2]
    cases xs with
    | nil => rfl
    | cons y ys =>
      have hlt : x.path < y.path := hx y (by simp)
      have hne : x.path ≠ y.path := fun e => List.lt_irrefl _ (e ▸ hlt)
      simp [insertArt, hne, hlt]

theorem Sorted.nodup {l : List Art} (h : Sorted l) : (l.map (·.path)).Nodup := by
  rw [List.Nodup, List.pairwise_map]
  refine h.imp ?_
  intro a b hab e
  rw [e] at hab
  exact List.lt_irrefl _ hab

/-- sortedness depends on the paths only -/
theorem Sorted.map {l : List Art} (h : Sorted l) (f : Art → Art) (hf : ∀ a, (f a).path = a.path) :
    Sorted (l.map f) := by
  unfold Sorted
  rw [List.pairwise_map]
  exact h.imp (fun hab => by rw [hf, hf]; exact hab)

/-- splitting a sorted list by a predicate, sorting one half and sorting the whole again gives
the list back -/
theorem sortArts_split {l : List Art} (h : Sorted l) (p : Art → Bool) :
    sortArts (l.filter p ++ sortArts (l.filter (fun a => !p a))) = l := by
  have hnd := h.nodup
  have hnd2 : ((l.filter (fun a => !p a)).map (·.path)).Nodup :=
    ((List.filter_sublist (l := l)).map _).nodup hnd
  have hperm : (l.filter p ++ sortArts (l.filter (fun a => !p a))).Perm l :=
    ((sortArts_perm_self _ hnd2).append_left _).trans (List.filter_append_perm p l)
  have hnd3 : ((l.filter p ++ sortArts (l.filter (fun a => !p a))).map (·.path)).Nodup :=
    (hperm.map _).nodup_iff.2 hnd
  rw [sortArts_perm hperm hnd3, sortArts_of_sorted h]

/-! ## the owning artifact is determined by the owner's record -/

/-- the artifact of `stg` that owns the path `p` -/
def ownerArt (wa : Bool) (stg : Stage) (p : Bytes) : Option Art :=
  match findArt stg.outputs p with
  | some a => some a
  | none => findDirOwner wa p stg.outputs

theorem findOwner_some (wa : Bool) : ∀ (idx : Index), (idx.map (·.1)).Nodup → ∀ {p o : Bytes} {oa : Art},
    findOwner wa idx p = some (o, oa) →
    ∃ stg, alookup idx o = some stg ∧ ownerArt wa stg p = some oa
  | [], _, _, _, _, h => by simp [findOwner] at h
  | (k, v) :: r, hn, p, o, oa, h => by
    simp only [List.map_cons, List.nodup_cons] at hn
    simp only [findOwner] at h
    cases hf : findArt v.outputs p with
    | some a =>
      rw [hf] at h
      simp only [Option.some.injEq, Prod.mk.injEq] at h
      obtain ⟨rfl, rfl⟩ := h
      exact ⟨v, by simp [alookup], by simp [ownerArt, hf]⟩
    | none =>
      rw [hf] at h
      simp only at h
      cases hg : findDirOwner wa p v.outputs with
      | some a =>
        rw [hg] at h
        simp only [Option.some.injEq, Prod.mk.injEq] at h
        obtain ⟨rfl, rfl⟩ := h
        exact ⟨v, by simp [alookup], by simp [ownerArt, hf, hg]⟩
      | none =>
        rw [hg] at h
        simp only at h
        obtain ⟨stg, hl, ho⟩ := findOwner_some wa r hn.2 h
        have hne : k ≠ o := by
          rintro rfl
          exact hn.1 (WT.mem_keys_of_alookup hl)
        exact ⟨stg, by rw [alookup_cons_ne _ _ hne]; exact hl, ho⟩

theorem setStage_cons (k : Bytes) (v : Stage) (r : Index) (sp : Bytes) (S : Stage) :
    setStage ((k, v) :: r) sp S = (if k == sp then (k, S) else (k, v)) :: setStage r sp S := rfl

theorem setStage_notin : ∀ (idx : Index) {sp : Bytes} (S : Stage), sp ∉ idx.map (·.1) →
    setStage idx sp S = idx
  | [], _, _, _ => rfl
  | (k, v) :: r, sp, S, h => by
    simp only [List.map_cons, List.mem_cons, not_or] at h
    have hk : (k == sp) = false := by simpa using fun e => h.1 e.symm
    rw [setStage_cons, hk, setStage_notin r S h.2]
    rfl

/-- writing back the record found changes nothing (distinct stage paths) -/
theorem setStage_same : ∀ (idx : Index), (idx.map (·.1)).Nodup → ∀ {sp : Bytes} {S : Stage},
    alookup idx sp = some S → setStage idx sp S = idx
  | [], _, _, _, _ => rfl
  | (k, v) :: r, hn, sp, S, h => by
    simp only [List.map_cons, List.nodup_cons] at hn
    rw [setStage_cons]
    by_cases hk : k = sp
    · subst hk
      simp only [alookup, beq_self_eq_true, if_true, Option.some.injEq] at h
      subst h
      simp only [beq_self_eq_true, if_true]
      rw [setStage_notin r v hn.1]
    · have hk' : (k == sp) = false := by simpa using hk
      simp only [alookup, hk', Bool.false_eq_true, if_false] at h
      rw [hk', setStage_same r hn.2 h]
      rfl

/-- the owner found does not change when the index is rewritten at another stage, keeping its shape -/
theorem owner_stable (wa : Bool) {idx1 idx : Index} (hsh : SameShape idx1 idx)
    (hn : (idx.map (·.1)).Nodup) {sp : Bytes}
    (hsame : ∀ o, o ≠ sp → alookup idx1 o = alookup idx o) {p o1 o : Bytes} {oa1 oa : Art}
    (h1 : findOwner wa idx1 p = some (o1, oa1)) (h : findOwner wa idx p = some (o, oa))
    (hne : o ≠ sp) : o1 = o ∧ oa1 = oa := by
  have hsim := findOwner_sim wa hsh p
  rw [h1, h] at hsim
  simp only [Option.map_some, Option.some.injEq] at hsim
  subst hsim
  have hn1 : (idx1.map (·.1)).Nodup := by rw [hsh.keys]; exact hn
  obtain ⟨s1, hl1, ho1⟩ := findOwner_some wa idx1 hn1 h1
  obtain ⟨s0, hl0, ho0⟩ := findOwner_some wa idx hn h
  rw [hsame _ hne, hl0] at hl1
  cases hl1
  rw [ho0] at ho1
  cases ho1
  exact ⟨rfl, rfl⟩

/-- **Stage level, the record, second part**: the recorded inputs are sorted, and an input that
some stage owns carries the checksum its owner records at that moment -/
theorem commitAct_rec2 {cfg : Cfg κ} {strat : Strat} {sp : Bytes} {w w' : World κ} {stg : Stage}
    (hs : alookup w.idx sp = some stg) (h : commitAct cfg strat sp w = .ok w') :
    ∃ S, alookup w'.idx sp = some S ∧ Sorted S.inputs ∧
      ∀ b', b' ∈ S.inputs → findOwner cfg.walkAccumulates w.idx b'.path = none ∨
        ∃ o oa, findOwner cfg.walkAccumulates w.idx b'.path = some (o, oa) ∧ b'.sum = oa.sum := by
  obtain ⟨pl, w1, outs, w2, h1, h2, rfl⟩ := commitAct_inv hs h
  obtain ⟨i1, _, n1⟩ := commitArts_frame cfg strat _ _ w w1 h1
  obtain ⟨i2, _, _⟩ := commitArts_frame cfg strat _ _ w1 w2 h2
  refine ⟨newStage cfg stg (sortArts (ownedIn cfg w.idx stg ++ pl)) outs, ?_, sortArts_sorted _, ?_⟩
  · show alookup (setStage w2.idx sp _) sp = some _
    rw [i2, i1]
    exact WT.alookup_setStage_self _ _ hs
  · intro b' hb'
    rcases List.mem_append.1 (mem_of_mem_sortArts hb') with ho | hp
    · obtain ⟨a, ha, rfl⟩ := List.mem_map.1 ho
      obtain ⟨_, hown⟩ := List.mem_filter.1 ha
      cases hfo : findOwner cfg.walkAccumulates w.idx a.path with
      | none => rw [hfo] at hown; cases hown
      | some v =>
        obtain ⟨o, oa⟩ := v
        right
        exact ⟨o, oa, hfo, rfl⟩
    · left
      have hpaths := paths_of_noSum n1
      have : b'.path ∈ pl.map (·.path) := List.mem_map.2 ⟨b', hp, rfl⟩
      rw [hpaths] at this
      obtain ⟨b, hb, hbp⟩ := List.mem_map.1 this
      obtain ⟨b0, _, hown, rfl⟩ := mem_plainIn (mem_of_mem_sortArts hb)
      rw [← hbp]
      exact Option.isNone_iff_eq_none.1 hown

/-! ## the commit traversal: the invariant extended once more -/

/-- `CommitInv2` plus, for every stage that is done: the recorded inputs are sorted, and every
input some stage owns carries the checksum recorded by its owner, which is done -/
structure CommitInv3 (cfg : Cfg κ) (P : Art → Node κ → Node κ → Store κ → Prop) (Sc : Bytes → Prop)
    (w0 w : World κ) : Prop where
  inv2 : CommitInv2 cfg P Sc w0 w
  recd2 : ∀ sp S, Sc sp → w.done.contains sp = true → alookup w.idx sp = some S →
    Sorted S.inputs ∧ ∀ b', b' ∈ S.inputs → ∀ o oa,
      findOwner cfg.walkAccumulates w.idx b'.path = some (o, oa) →
        w.done.contains o = true ∧ b'.sum = oa.sum

theorem CommitInv3.init (cfg : Cfg κ) (P : Art → Node κ → Node κ → Store κ → Prop)
    (Sc : Bytes → Prop) (w0 : World κ) (hc : Consistent cfg.ctx w0.store) :
    CommitInv3 cfg P Sc w0 (fresh w0) where
  inv2 := CommitInv2.init cfg P Sc w0 hc
  recd2 := fun sp _ _ h => by simp [fresh] at h

theorem commitInv3_step {cfg : Cfg κ} {Q : Art → Prop} {P : Art → Node κ → Node κ → Store κ → Prop}
    (E : Est cfg Q P) (g : Good cfg.ctx) (strat : Strat) (Sc : Bytes → Prop)
    (w0 : World κ) (hok : PipelineOK cfg Sc w0) (hfiles : PlainInputsFiles cfg Sc w0)
    (hQ : ∀ sp stg, Sc sp → alookup w0.idx sp = some stg → ∀ a, a ∈ stg.outputs → Q a)
    (sp : Bytes) (w w1 : World κ) (hsc : Sc sp)
    (hsh : SameShape w.idx w0.idx) (hinv : CommitInv3 cfg P Sc w0 w)
    (hnd : w.done.contains sp = false)
    (hup : ∀ o, o ∈ ownIdx cfg w0.idx sp → w.done.contains o = true)
    (h : commitAct cfg strat sp w = .ok w1) :
    CommitInv3 cfg P Sc w0 w1 := by
  refine ⟨commitInv2_step E g strat Sc w0 hok hfiles hQ sp w w1 hsc hsh hinv.inv2 hnd h, ?_⟩
  obtain ⟨stg, hs⟩ : ∃ stg, alookup w.idx sp = some stg := by
    cases hl : alookup w.idx sp with
    | some stg => exact ⟨stg, rfl⟩
    | none => simp [commitAct, World.stage, hl] at h
  have hn : (w.idx.map (·.1)).Nodup := by rw [hsh.keys]; exact hok.keys
  obtain ⟨hsh1, d1⟩ := commitAct_frame cfg strat sp w w1 hn h
  obtain ⟨S, hS, hsorted, hrec⟩ := commitAct_rec2 hs h
  obtain ⟨pl, wa, outs, wb, h1, h2, hw1⟩ := commitAct_inv hs h
  have hsame : ∀ o, o ≠ sp → alookup w1.idx o = alookup w.idx o := by
    intro o ho
    obtain ⟨i1, _, _⟩ := commitArts_frame cfg strat _ _ w wa h1
    obtain ⟨i2, _, _⟩ := commitArts_frame cfg strat _ _ wa wb h2
    rw [hw1]
    show alookup (setStage wb.idx sp _) o = _
    rw [i2, i1]
    exact WT.alookup_setStage_ne _ _ ho
  have hdone : ∀ x, w1.done.contains x = (x == sp || w.done.contains x) := by
    intro x; rw [d1, List.contains_cons]
  have hmono : ∀ x, w.done.contains x = true → w1.done.contains x = true := by
    intro x hx; rw [hdone, hx, Bool.or_true]
  have hne_of_done : ∀ o, w.done.contains o = true → o ≠ sp := by
    rintro o ho rfl
    rw [ho] at hnd; cases hnd
  intro x Sx hscx hx hSx
  by_cases hxs : x = sp
  · subst hxs
    rw [hS] at hSx
    cases hSx
    refine ⟨hsorted, fun b' hb' o1 oa1 hfo1 => ?_⟩
    rcases hrec b' hb' with hnone | ⟨o, oa, hfo, hsum⟩
    · have := findOwner_sim cfg.walkAccumulates hsh1 b'.path
      rw [hfo1, hnone] at this
      cases this
    · have hdo : w.done.contains o = true := by
        refine hup o ((ownIdx_sim cfg hsh x o).1 ((mem_ownIdx cfg w.idx x o).2 ⟨stg, hs, b'.path, ?_, ?_⟩))
        · have hsim : StageSim S stg := by
            rcases alookup_sim hsh1 x with ⟨hn', _⟩ | ⟨s1, s0, e1, e0, hs10⟩
            · rw [hS] at hn'; cases hn'
            · rw [hS] at e1; rw [hs] at e0
              cases e1; cases e0
              exact hs10
          exact (hsim.1 b'.path).1 (List.mem_map.2 ⟨b', hb', rfl⟩)
        · rw [hfo]; rfl
      obtain ⟨rfl, rfl⟩ := owner_stable cfg.walkAccumulates hsh1 hn hsame hfo1 hfo (hne_of_done o hdo)
      exact ⟨hmono _ hdo, hsum⟩
  · have hx' : w.done.contains x = true := by
      rw [hdone] at hx
      have : (x == sp) = false := by simpa using hxs
      simpa [this] using hx
    rw [hsame x hxs] at hSx
    obtain ⟨e1, e2⟩ := hinv.recd2 x Sx hscx hx' hSx
    refine ⟨e1, fun b' hb' o1 oa1 hfo1 => ?_⟩
    have hsim := findOwner_sim cfg.walkAccumulates hsh1 b'.path
    rw [hfo1] at hsim
    cases hfo : findOwner cfg.walkAccumulates w.idx b'.path with
    | none => rw [hfo] at hsim; cases hsim
    | some v =>
      obtain ⟨o, oa⟩ := v
      obtain ⟨hdo, hsum⟩ := e2 b' hb' o oa hfo
      obtain ⟨rfl, rfl⟩ := owner_stable cfg.walkAccumulates hsh1 hn hsame hfo1 hfo (hne_of_done o hdo)
      exact ⟨hmono _ hdo, hsum⟩

/-- **`dud commit`**: the twice-extended invariant holds at the end -/
theorem cmdCommit_inv3 {cfg : Cfg κ} {Q : Art → Prop} {P : Art → Node κ → Node κ → Store κ → Prop}
    (E : Est cfg Q P) (g : Good cfg.ctx) (strat : Strat) (targets : List Bytes)
    (w0 w' : World κ) (hc : Consistent cfg.ctx w0.store)
    (hok : PipelineOK cfg (InScope cfg w0 targets) w0)
    (hfiles : PlainInputsFiles cfg (InScope cfg w0 targets) w0)
    (hQ : ∀ sp stg, InScope cfg w0 targets sp → alookup w0.idx sp = some stg →
      ∀ a, a ∈ stg.outputs → Q a)
    (h : cmdCommit cfg strat targets w0 = .ok w') :
    CommitInv3 cfg P (InScope cfg w0 targets) w0 w' := by
  obtain ⟨l', hl, _⟩ := cmdCommit_spec cfg strat targets w0 w' hok.keys h
  exact perTarget_preserves (r := true)
    (commitTrav_lawfulOn cfg strat w0.idx hok.keys) (fun w => w.idx.length + 1) allStages
    (if targets.isEmpty then allStages w0 else targets)
    (Q := fun p => CommitInv3 cfg P (InScope cfg w0 targets) w0 p.1)
    (fun sp p p' hsc hi hq hndone hup hact => by
      obtain ⟨s, hs, rfl⟩ := logged_act_inv hact
      exact commitInv3_step E g strat _ w0 hok hfiles hQ sp p.1 s hsc hi hq hndone (hup rfl) hs)
    (fresh w0, []) (w', l') (SameShape.refl _) (CommitInv3.init cfg P _ w0 hc) hl

/-! ## a second commit, stage by stage -/

theorem commitAct_of_parts {cfg : Cfg κ} {strat : Strat} {sp : Bytes} {u u1 u2 : World κ} {S : Stage}
    {pl outs : List Art} (hS : alookup u.idx sp = some S)
    (h1 : commitArts cfg strat (sortArts (plainIn cfg u.idx S)) u = .ok (pl, u1))
    (h2 : commitArts cfg strat (sortArts S.outputs) u1 = .ok (outs, u2)) :
    commitAct cfg strat sp u = .ok { u2 with
      idx := setStage u2.idx sp (newStage cfg S (sortArts (ownedIn cfg u.idx S ++ pl)) outs),
      done := sp :: u2.done } := by
  unfold commitAct
  rw [World.stage_eq_ok.2 hS]
  unfold plainIn at h1
  dsimp only
  rw [h1]
  dsimp only
  rw [h2]
  rfl

theorem ownedIn_eq {cfg : Cfg κ} {idx : Index} {S : Stage}
    (h : ∀ b', b' ∈ S.inputs → ∀ o oa, findOwner cfg.walkAccumulates idx b'.path = some (o, oa) →
      b'.sum = oa.sum) :
    ownedIn cfg idx S =
      S.inputs.filter (fun a => (findOwner cfg.walkAccumulates idx a.path).isSome) := by
  unfold ownedIn
  refine (List.map_congr_left (fun a ha => ?_)).trans (List.map_id _)
  have ha' := (List.mem_filter.1 ha).1
  cases hfo : findOwner cfg.walkAccumulates idx a.path with
  | none => rfl
  | some v =>
    obtain ⟨o, oa⟩ := v
    have := h a ha' o oa hfo
    simp only [id]
    cases a
    simp only at this
    simp [this]

theorem plainIn_eq {cfg : Cfg κ} {idx : Index} {S : Stage}
    (h : ∀ b', b' ∈ S.inputs → (findOwner cfg.walkAccumulates idx b'.path).isNone = true →
      b'.skip = true) :
    plainIn cfg idx S =
      S.inputs.filter (fun a => (findOwner cfg.walkAccumulates idx a.path).isNone) := by
  unfold plainIn
  refine (List.map_congr_left (fun a ha => ?_)).trans (List.map_id _)
  obtain ⟨ha', hun⟩ := List.mem_filter.1 ha
  have := h a ha' hun
  simp only [id]
  cases a
  simp only at this
  simp [this]

theorem newStage_same {cfg : Cfg κ} {S : Stage} (h : S.sum = S.defSum cfg) :
    newStage cfg S S.inputs S.outputs = S := by
  show ({ S with sum := S.defSum cfg } : Stage) = S
  rw [← h]

/-- recommitting inputs that satisfy `InputOK` changes nothing -/
theorem commitArts_inputOK (cfg : Cfg κ) (strat : Strat) : ∀ (as : List Art) (w : World κ),
    (∀ b, b ∈ as → b.skip = true ∧ b.isDir = false ∧
      ∃ nd, getPath w.ws (Path.comps b.path) = some nd ∧ InputOK cfg.ctx b nd w.store) →
    commitArts cfg strat as w = .ok (as, w)
  | [], _, _ => rfl
  | b :: r, w, h => by
    obtain ⟨hsk, hd, nd, gnd, iok⟩ := h b List.mem_cons_self
    have hw : commitArtW cfg strat b w = .ok (b, w) := by
      simp only [commitArtW, gnd, commitArt_inputOK hsk hd iok strat,
        WT.setPath_getPath_same _ _ _ gnd]
    rw [commitArts, hw]
    simp only
    rw [commitArts_inputOK cfg strat r w (fun c hc => h c (List.mem_cons_of_mem _ hc))]

section recommit
variable [DecidableEq κ]

/-- recommitting (strategy `strat2`) the committed artifacts of a list of outputs whose nodes are
`Settled` w.r.t. an earlier cache `sC`: the recorded artifacts are returned unchanged, the cache
changes at most up to bytes, the logical content of every output stays, and so does every path
apart from the outputs -/
theorem commitArts_resettle (cfg : Cfg κ) (strat2 : Strat) (ws0 : Node κ) (sC : Store κ) :
    ∀ (l : List Art) (u : World κ), ApartArts l → Consistent cfg.ctx u.store →
      Store.le cfg.ctx sC u.store →
      (∀ a, a ∈ l → (origAt ws0 a).plain = true ∧
        ∃ t', getPath u.ws (Path.comps a.path) = some t' ∧
          Settled cfg (committedArt cfg.ctx ws0 a) (origAt ws0 a) t' sC) →
      ∃ u2, commitArts cfg strat2 (l.map (committedArt cfg.ctx ws0)) u
          = .ok (l.map (committedArt cfg.ctx ws0), u2) ∧
        Consistent cfg.ctx u2.store ∧ Store.le cfg.ctx u.store u2.store ∧
        Store.le cfg.ctx u2.store u.store ∧ u2.idx = u.idx ∧ u2.done = u.done ∧
        (∀ a, a ∈ l → ∃ t'', getPath u2.ws (Path.comps a.path) = some t'' ∧
          deref cfg.ctx u2.store t'' = origAt ws0 a) ∧
        (∀ q, (∀ a, a ∈ l → Apart (Path.comps a.path) q) → getPath u2.ws q = getPath u.ws q)
  | [], u, _, hc, _, _ =>
    ⟨u, rfl, hc, Store.le_refl _ _, Store.le_refl _ _, rfl, rfl, by simp, fun _ _ => rfl⟩
  | a :: r, u, hap, hc, hle, hset => by
    have hap' := List.pairwise_cons.1 hap
    obtain ⟨hpl, t', gt, hst⟩ := hset a List.mem_cons_self
    obtain ⟨_, _, hre⟩ := hst u.store hle
    obtain ⟨t'', s3, hca, hc3, l3, l3', hd3⟩ := hre hc strat2
    obtain ⟨ws', hsp⟩ := WT.writable_of_getPath _ _ _ gt t''
    have hpath : (committedArt cfg.ctx ws0 a).path = a.path := rfl
    have hw : commitArtW cfg strat2 (committedArt cfg.ctx ws0 a) u
        = .ok (committedArt cfg.ctx ws0 a, { u with ws := ws', store := s3 }) := by
      simp only [commitArtW, hpath, gt, hca, hsp]
      rfl
    obtain ⟨u2, h2, c2, l2, l2', i2, d2, f2, fr2⟩ := commitArts_resettle cfg strat2 ws0 sC r
      { u with ws := ws', store := s3 } hap'.2 hc3 (Store.le_trans hle l3)
      (fun b hb => by
        obtain ⟨hpb, tb, gtb, hsb⟩ := hset b (List.mem_cons_of_mem _ hb)
        refine ⟨hpb, tb, ?_, hsb⟩
        show getPath ws' (Path.comps b.path) = some tb
        rw [WT.getPath_setPath_apart (hap'.1 b hb) hsp]
        exact gtb)
    refine ⟨u2, ?_, c2, Store.le_trans l3 l2, Store.le_trans l2' l3', i2, d2, ?_, ?_⟩
    · rw [List.map_cons, commitArts, hw]
      simp only
      rw [h2]
    · intro b hb
      rcases List.mem_cons.1 hb with rfl | hb
      · refine ⟨t'', ?_, ?_⟩
        · rw [fr2 _ (fun c hc' => (hap'.1 c hc').symm)]
          exact WT.getPath_setPath_self _ _ _ _ hsp
        · rw [← hd3]
          exact deref_le cfg.ctx l2 t'' (by rw [hd3]; exact hpl)
      · exact f2 b hb
    · intro q hq
      rw [fr2 q (fun b hb => hq b (List.mem_cons_of_mem _ hb))]
      exact WT.getPath_setPath_apart (hq a List.mem_cons_self) hsp

/-- every input (of a stage in scope) that no stage owns lies apart from every output in scope -/
def PlainInputsApartAll (cfg : Cfg κ) (Sc : Bytes → Prop) (w0 : World κ) : Prop :=
  ∀ sp stg, Sc sp → alookup w0.idx sp = some stg → ∀ b, b ∈ stg.inputs →
    (findOwner cfg.walkAccumulates w0.idx b.path).isNone = true → ApartFromOutputs Sc w0 b.path

/-- invariant of a second commit traversal, started in the committed world `w'` -/
structure RecommitInv (cfg : Cfg κ) (Sc : Bytes → Prop) (w0 w' u : World κ) : Prop where
  cons : Consistent cfg.ctx u.store
  le1 : Store.le cfg.ctx w'.store u.store
  le2 : Store.le cfg.ctx u.store w'.store
  idx : u.idx = w'.idx
  frame : ∀ q, (∀ sp stg, Sc sp → alookup w0.idx sp = some stg → ∀ a, a ∈ stg.outputs →
    Apart (Path.comps a.path) q) → getPath u.ws q = getPath w'.ws q
  pending : ∀ sp stg, Sc sp → u.done.contains sp = false → alookup w0.idx sp = some stg →
    ∀ a, a ∈ stg.outputs → getPath u.ws (Path.comps a.path) = getPath w'.ws (Path.comps a.path)
  finished : ∀ sp stg, Sc sp → u.done.contains sp = true → alookup w0.idx sp = some stg →
    ∀ a, a ∈ stg.outputs → ∃ t'', getPath u.ws (Path.comps a.path) = some t'' ∧
      deref cfg.ctx u.store t'' = origAt w0.ws a

/-- one stage action of the second commit succeeds and keeps the invariant -/
theorem recommit_step (cfg : Cfg κ) (strat2 : Strat) (Sc : Bytes → Prop) (w0 w' : World κ)
    (hok : PipelineOK cfg Sc w0) (hapart : PlainInputsApartAll cfg Sc w0)
    (hsh : SameShape w'.idx w0.idx) (hci : CommitInv3 cfg (Settled cfg) Sc w0 w')
    (hall : ∀ sp, Sc sp → w'.done.contains sp = true) (sp : Bytes) (u : World κ) (hsc : Sc sp)
    (hinv : RecommitInv cfg Sc w0 w' u) (hnd : u.done.contains sp = false) :
    ∃ u1, commitAct cfg strat2 sp u = .ok u1 ∧ RecommitInv cfg Sc w0 w' u1 := by
  obtain ⟨stg, S, e0, e1, e2, _⟩ := hci.inv2.base.finished sp hsc (hall sp hsc)
  obtain ⟨hsum, hins⟩ := hci.inv2.recd sp S hsc (hall sp hsc) e1
  obtain ⟨hsorted, hown⟩ := hci.recd2 sp S hsc (hall sp hsc) e1
  have houts := hci.inv2.outs sp stg hsc (hall sp hsc) e0
  have hap := hok.apart_in sp stg hsc e0
  have hS : alookup u.idx sp = some S := by rw [hinv.idx]; exact e1
  have hsim : StageSim S stg := by
    rcases alookup_sim hsh sp with ⟨hn', _⟩ | ⟨s1, s0, a1, a0, hs10⟩
    · rw [e1] at hn'; cases hn'
    · rw [e1] at a1; rw [e0] at a0
      cases a1; cases a0
      exact hs10
  have hun0 : ∀ p, (findOwner cfg.walkAccumulates u.idx p).isNone = true →
      (findOwner cfg.walkAccumulates w0.idx p).isNone = true := by
    intro p hp
    rw [← findOwner_isNone_sim _ hsh, ← hinv.idx]; exact hp
  -- the inputs no stage owns
  have hplain_eq : plainIn cfg u.idx S =
      S.inputs.filter (fun a => (findOwner cfg.walkAccumulates u.idx a.path).isNone) :=
    plainIn_eq (fun b' hb' hun => (hins b' hb' (hun0 _ hun)).1)
  have h1 := commitArts_inputOK cfg strat2 (sortArts (plainIn cfg u.idx S)) u (by
    intro b hb
    have hb' := mem_of_mem_sortArts hb
    rw [hplain_eq] at hb'
    obtain ⟨hbin, hun⟩ := List.mem_filter.1 hb'
    obtain ⟨y1, y2, y3⟩ := hins b hbin (hun0 _ hun)
    obtain ⟨b0, hb0, hbp⟩ := List.mem_map.1 ((hsim.1 b.path).1 (List.mem_map.2 ⟨b, hbin, rfl⟩))
    have hapo : ApartFromOutputs Sc w0 b.path := by
      have := hapart sp stg hsc e0 b0 hb0 (by rw [hbp]; exact hun0 _ hun)
      rw [hbp] at this
      exact this
    obtain ⟨nd, gnd, iok⟩ := y3 hapo
    refine ⟨y1, y2, nd, ?_, iok.mono hinv.le1⟩
    rw [hinv.frame _ (fun sp' stg' hsc' hs' a ha => hapo sp' stg' hsc' hs' a ha)]
    exact gnd)
  -- the outputs
  have hsortS : sortArts S.outputs = S.outputs := by
    rw [e2]
    exact sortArts_of_sorted ((sortArts_sorted _).map _ (fun _ => rfl))
  obtain ⟨u2, h2, c2, l2, l2', i2, d2, hfin2, hfr2⟩ := commitArts_resettle cfg strat2 w0.ws w'.store
    (sortArts stg.outputs) u hap.sortArts hinv.cons hinv.le1 (by
      intro a ha
      have ha' := mem_of_mem_sortArts ha
      obtain ⟨n, hn, hp⟩ := hok.pre sp stg hsc e0 a ha'
      obtain ⟨t', gt, st⟩ := houts a ha'
      refine ⟨by rw [origAt_of_getPath hn]; exact hp.plain, t', ?_, st⟩
      rw [hinv.pending sp stg hsc hnd e0 a ha']
      exact gt)
  have hact := commitAct_of_parts hS h1 (by rw [hsortS, e2]; exact h2)
  have hnew : newStage cfg S
      (sortArts (ownedIn cfg u.idx S ++ sortArts (plainIn cfg u.idx S))) S.outputs = S := by
    rw [ownedIn_eq (fun b' hb' o oa hfo => (hown b' hb' o oa (by rw [← hinv.idx]; exact hfo)).2),
      hplain_eq]
    have hf : S.inputs.filter (fun a => (findOwner cfg.walkAccumulates u.idx a.path).isNone) =
        S.inputs.filter (fun a => !(findOwner cfg.walkAccumulates u.idx a.path).isSome) :=
      List.filter_congr (fun a _ => by cases findOwner cfg.walkAccumulates u.idx a.path <;> rfl)
    rw [hf, sortArts_split hsorted, newStage_same hsum]
  have hkeys : (u2.idx.map (·.1)).Nodup := by
    rw [i2, hinv.idx, hsh.keys]; exact hok.keys
  have hset : setStage u2.idx sp S = u2.idx := setStage_same _ hkeys (by rw [i2]; exact hS)
  rw [← e2] at hact
  rw [hnew, hset] at hact
  refine ⟨_, hact, c2, Store.le_trans hinv.le1 l2, Store.le_trans l2' hinv.le2,
    i2.trans hinv.idx, ?_, ?_, ?_⟩
  · intro q hq
    show getPath u2.ws q = _
    rw [hfr2 q (fun a ha => hq sp stg hsc e0 a (mem_of_mem_sortArts ha))]
    exact hinv.frame q hq
  · intro x stgx hscx hx hsx a ha
    have hx2 : (sp :: u2.done).contains x = false := hx
    rw [List.contains_cons, Bool.or_eq_false_iff, d2] at hx2
    have hne : x ≠ sp := by simpa using hx2.1
    show getPath u2.ws _ = _
    rw [hfr2 _ (fun b hb => hok.apart_across sp x stg stgx hsc hscx (Ne.symm hne) e0 hsx b
      (mem_of_mem_sortArts hb) a ha)]
    exact hinv.pending x stgx hscx hx2.2 hsx a ha
  · intro x stgx hscx hx hsx a ha
    by_cases hxs : x = sp
    · subst hxs
      rw [e0] at hsx
      cases hsx
      exact hfin2 a (mem_sortArts_of_mem hap.paths_ne ha)
    · have hx2 : (sp :: u2.done).contains x = true := hx
      rw [List.contains_cons, d2] at hx2
      have hne : (x == sp) = false := by simpa using hxs
      rw [hne, Bool.false_or] at hx2
      obtain ⟨t'', gt, hd⟩ := hinv.finished x stgx hscx hx2 hsx a ha
      refine ⟨t'', ?_, ?_⟩
      · show getPath u2.ws _ = _
        rw [hfr2 _ (fun b hb => hok.apart_across sp x stg stgx hsc hscx (Ne.symm hxs) e0 hsx b
          (mem_of_mem_sortArts hb) a ha)]
        exact gt
      · show deref cfg.ctx u2.store t'' = _
        rw [← hd]
        refine deref_le cfg.ctx l2 t'' ?_
        rw [hd]
        obtain ⟨n, hn, hp⟩ := hok.pre x stgx hscx hsx a ha
        rw [origAt_of_getPath hn]
        exact hp.plain

end recommit

end Dud.WStat
