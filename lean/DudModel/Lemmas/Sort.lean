import DudModel.Spec
import DudModel.Lemmas.Tree
/-!
# `sortChildren` as a canonical form

`sortChildren` (insertion by name, replacing an equal name) returns a list strictly increasing by
name; on lists without duplicate names it is a permutation of its input, hence insensitive to the
order of the input.
-/
namespace Dud

variable {κ : Type}

/-- strictly increasing by name -/
def ChildSorted (cs : List Child) : Prop := cs.Pairwise (fun a b => a.name < b.name)

theorem name_lt_of_not (a b : Name) (h1 : ¬ a < b) (h2 : a ≠ b) : b < a := by
  rcases List.le_iff_lt_or_eq.1 (List.not_lt.1 h1) with h | h
  · exact h
  · exact absurd h.symm h2

theorem mem_insertChild {c y : Child} : ∀ {l : List Child}, y ∈ insertChild c l → y = c ∨ y ∈ l
  | [], h => by simpa [insertChild] using h
  | x :: xs, h => by
    simp only [insertChild] at h
    split at h
    · rcases List.mem_cons.1 h with h | h
      · exact Or.inl h
      · exact Or.inr (List.mem_cons_of_mem _ h)
    · split at h
      · rcases List.mem_cons.1 h with h | h
        · exact Or.inl h
        · exact Or.inr h
      · rcases List.mem_cons.1 h with h | h
        · exact Or.inr (by simp [h])
        · rcases mem_insertChild h with h | h
          · exact Or.inl h
          · exact Or.inr (List.mem_cons_of_mem _ h)

theorem insertChild_sorted (c : Child) : ∀ {l : List Child}, ChildSorted l →
    ChildSorted (insertChild c l)
  | [], _ => by simp [insertChild, ChildSorted]
  | x :: xs, h => by
    have hx : ∀ y ∈ xs, x.name < y.name := (List.pairwise_cons.1 h).1
    have hxs : ChildSorted xs := (List.pairwise_cons.1 h).2
    simp only [insertChild]
    split
    · next heq =>
      have heq' : c.name = x.name := by simpa using heq
      exact List.pairwise_cons.2 ⟨fun y hy => heq' ▸ hx y hy, hxs⟩
    · next hne =>
      have hne' : c.name ≠ x.name := by simpa using hne
      split
      · next hlt =>
        have hlt' : c.name < x.name := by simpa using hlt
        refine List.pairwise_cons.2 ⟨?_, h⟩
        intro y hy
        rcases List.mem_cons.1 hy with rfl | hy
        · exact hlt'
        · exact List.lt_trans hlt' (hx y hy)
      · next hnlt =>
        have hgt : x.name < c.name := name_lt_of_not _ _ (by simpa using hnlt) hne'
        refine List.pairwise_cons.2 ⟨?_, insertChild_sorted c hxs⟩
        intro y hy
        rcases mem_insertChild hy with rfl | hy
        · exact hgt
        · exact hx y hy

theorem insertChild_perm (c : Child) : ∀ {l : List Child}, (∀ y ∈ l, c.name ≠ y.name) →
    (insertChild c l).Perm (c :: l)
  | [], _ => by simp [insertChild]
  | x :: xs, h => by
    have hne : c.name ≠ x.name := h x (by simp)
    simp only [insertChild, beq_iff_eq, hne, if_false]
    split
    · exact List.Perm.refl _
    · exact ((insertChild_perm c (fun y hy => h y (by simp [hy]))).cons x).trans
        (List.Perm.swap c x xs)

theorem sortChildren_sorted : ∀ (cs : List Child), ChildSorted (sortChildren cs)
  | [] => by simp [sortChildren, ChildSorted]
  | c :: cs => by
    have : sortChildren (c :: cs) = insertChild c (sortChildren cs) := by simp [sortChildren]
    rw [this]
    exact insertChild_sorted c (sortChildren_sorted cs)

theorem sortChildren_perm_self : ∀ (cs : List Child), (cs.map (·.name)).Nodup →
    (sortChildren cs).Perm cs
  | [], _ => by simp [sortChildren]
  | c :: cs, h => by
    have hnd : c.name ∉ cs.map (·.name) ∧ (cs.map (·.name)).Nodup :=
      List.nodup_cons.1 (by rw [List.map_cons] at h; exact h)
    have ih := sortChildren_perm_self cs hnd.2
    have : sortChildren (c :: cs) = insertChild c (sortChildren cs) := by simp [sortChildren]
    rw [this]
    refine (insertChild_perm c ?_).trans (ih.cons c)
    intro y hy heq
    exact hnd.1 (List.mem_map.2 ⟨y, ih.mem_iff.1 hy, heq.symm⟩)

/-- On duplicate-free name lists `sortChildren` does not depend on the order of its input. -/
theorem sortChildren_perm {cs1 cs2 : List Child} (hp : cs1.Perm cs2)
    (hnd : (cs1.map (·.name)).Nodup) : sortChildren cs1 = sortChildren cs2 := by
  have hnd2 : (cs2.map (·.name)).Nodup := (hp.map _).nodup_iff.1 hnd
  have hperm : (sortChildren cs1).Perm (sortChildren cs2) :=
    ((sortChildren_perm_self cs1 hnd).trans hp).trans (sortChildren_perm_self cs2 hnd2).symm
  refine List.Perm.eq_of_pairwise ?_ (sortChildren_sorted cs1) (sortChildren_sorted cs2) hperm
  intro a b _ _ hab hba
  exact absurd hba (List.lt_asymm hab)

/-- `childrenOf` is a map over the listing -/
theorem childrenOf_eq_map (ctx : Ctx κ) : ∀ (es : List (Name × Node κ)),
    childrenOf ctx es = es.map (fun e => ⟨e.1, treeDigest ctx e.1 e.2, e.2.isDir⟩)
  | [] => by simp [childrenOf]
  | (nm, n) :: r => by simp [childrenOf, childrenOf_eq_map ctx r]

theorem childrenOf_names (ctx : Ctx κ) (es : List (Name × Node κ)) :
    (childrenOf ctx es).map (·.name) = es.map (·.1) := by
  simp [childrenOf_eq_map, Function.comp_def]

/-- The digest of a directory does not depend on the listing order. -/
theorem treeDigest_perm (ctx : Ctx κ) (nm : Bytes) {es1 es2 : List (Name × Node κ)}
    (hp : es1.Perm es2) (hnd : (es1.map (·.1)).Nodup) :
    treeDigest ctx nm (.dir es1) = treeDigest ctx nm (.dir es2) := by
  simp only [treeDigest]
  rw [sortChildren_perm (cs1 := childrenOf ctx es1) (cs2 := childrenOf ctx es2)]
  · rw [childrenOf_eq_map, childrenOf_eq_map]
    exact hp.map _
  · rw [childrenOf_names]; exact hnd

end Dud
