import DudModel.Lemmas.Crash
import DudModel.Lemmas.Tree
/-!
# Crash safety of the traced directory commit (C03, tree level)

* refinement: erasing the trace of `commitNodeT` / `commitEntriesT` / `commitArtT` gives the logical
  functions of `Model.lean`
* the paths a traced commit mentions (`InFoot`), hence what it leaves alone
* every call of the trace is `Allowed` in the state it is issued in
-/
namespace Dud.Sys
open Dud
variable {κ : Type}

/-! ## refinement: erasing the trace gives the logical functions -/

theorem commitFileT_refines (t : TCfg κ) (skip : Bool) (w : P) (nd : Option (Node κ)) (sum : Digest)
    (s : Store κ) (n : Nat) :
    (commitFileT t skip w nd sum s n).map (·.1) = commitFile t.ctx t.strat skip nd sum s := by
  unfold commitFileT
  cases h : commitFile t.ctx t.strat skip nd sum s with
  | error e => rfl
  | ok r =>
    simp only
    split
    · split <;> rfl
    · rfl

theorem map_fst_eq {α β ε : Type} {x : Except ε (α × β)} {y : Except ε α}
    (h : x.map (·.1) = y) :
    (∀ e, x = .error e → y = .error e) ∧ (∀ a b, x = .ok (a, b) → y = .ok a) := by
  subst h
  constructor
  · intro e he; subst he; rfl
  · intro a b he; subst he; rfl


/-- unfolding of the two entry loops on a non-empty listing, with the recovered-or-fresh child
artifact named -/
theorem commitEntries_cons_both (t : TCfg κ) (pre : List Name) (skipDirs : Bool) (nm : Name)
    (nd : Node κ) (r : List (Name × Node κ)) (old : List Child) (s : Store κ) (n : Nat) :
    ∃ c0 : Child,
      commitEntriesT t pre skipDirs ((nm, nd) :: r) old s n =
        (if skipDirs && nd.isDir then
          match commitEntriesT t pre skipDirs r old s n with
          | .error e => .error e
          | .ok ((r', cs, s'), calls, k) => .ok (((nm, nd) :: r', cs, s'), calls, k)
        else if !t.ctx.nameOK nm then .error .invalid
        else
          match commitNodeT t (pre ++ [nm]) nd c0 s n with
          | .error e => .error e
          | .ok ((nd', c', s1), calls1, n1) =>
            match commitEntriesT t pre skipDirs r old s1 n1 with
            | .error e => .error e
            | .ok ((r', cs, s2), calls2, n2) =>
              .ok (((nm, nd') :: r', c' :: cs, s2), calls1 ++ calls2, n2)) ∧
      commitEntries t.ctx t.strat skipDirs ((nm, nd) :: r) old s =
        (if skipDirs && nd.isDir then
          match commitEntries t.ctx t.strat skipDirs r old s with
          | .error e => .error e
          | .ok (r', cs, s') => .ok ((nm, nd) :: r', cs, s')
        else if !t.ctx.nameOK nm then .error .invalid
        else
          match commitNode t.ctx t.strat nd c0 s with
          | .error e => .error e
          | .ok (n', c', s1) =>
            match commitEntries t.ctx t.strat skipDirs r old s1 with
            | .error e => .error e
            | .ok (r', cs, s2) => .ok ((nm, n') :: r', c' :: cs, s2)) := by
  refine ⟨(match findChild old nm with
        | some k => if k.isDir == nd.isDir then k else { name := nm, sum := "", isDir := nd.isDir }
        | none => { name := nm, sum := "", isDir := nd.isDir }), ?_, ?_⟩
  · rw [commitEntriesT]; rfl
  · rw [commitEntries]; rfl

mutual
theorem commitNodeT_refines (t : TCfg κ) : ∀ (nd : Node κ) (pre : List Name) (c : Child)
    (s : Store κ) (n : Nat),
    (commitNodeT t pre nd c s n).map (·.1) = commitNode t.ctx t.strat nd c s
  | .dir es, pre, c, s, n => by
    simp only [commitNodeT, commitNode]
    split
    · cases hold : oldManifest t.ctx s c.sum with
      | error e => rfl
      | ok old =>
        simp only
        have ih := map_fst_eq (commitEntriesT_refines t es pre false old s n)
        cases hT : commitEntriesT t pre false es old s n with
        | error e => simp [ih.1 e hT, Except.map]
        | ok v =>
          obtain ⟨⟨es', cs, s'⟩, calls, n'⟩ := v
          simp [ih.2 _ _ hT, Except.map]
    · rfl
  | .file x, pre, c, s, n => by
    simp only [commitNodeT, commitNode]
    split
    · rfl
    · have ih := map_fst_eq (commitFileT_refines t false (.ws pre) (some (.file x)) c.sum s n)
      cases hT : commitFileT t false (.ws pre) (some (.file x)) c.sum s n with
      | error e => simp [ih.1 e hT, Except.map]
      | ok v =>
        obtain ⟨⟨n', d, s'⟩, calls, k⟩ := v
        simp [ih.2 _ _ hT, Except.map]
  | .link l, pre, c, s, n => by
    simp only [commitNodeT, commitNode]
    split
    · rfl
    · have ih := map_fst_eq (commitFileT_refines t false (.ws pre) (some (.link l)) c.sum s n)
      cases hT : commitFileT t false (.ws pre) (some (.link l)) c.sum s n with
      | error e => simp [ih.1 e hT, Except.map]
      | ok v =>
        obtain ⟨⟨n', d, s'⟩, calls, k⟩ := v
        simp [ih.2 _ _ hT, Except.map]
  | .other, pre, c, s, n => by
    simp only [commitNodeT, commitNode]
    split
    · rfl
    · have ih := map_fst_eq (commitFileT_refines t false (.ws pre) (some .other) c.sum s n)
      cases hT : commitFileT t false (.ws pre) (some .other) c.sum s n with
      | error e => simp [ih.1 e hT, Except.map]
      | ok v =>
        obtain ⟨⟨n', d, s'⟩, calls, k⟩ := v
        simp [ih.2 _ _ hT, Except.map]
theorem commitEntriesT_refines (t : TCfg κ) : ∀ (es : List (Name × Node κ)) (pre : List Name)
    (skipDirs : Bool) (old : List Child) (s : Store κ) (n : Nat),
    (commitEntriesT t pre skipDirs es old s n).map (·.1) = commitEntries t.ctx t.strat skipDirs es old s
  | [], pre, skipDirs, old, s, n => by simp [commitEntriesT, commitEntries, Except.map]
  | (nm, nd) :: r, pre, skipDirs, old, s, n => by
    obtain ⟨c0, hT0, hL0⟩ := commitEntries_cons_both t pre skipDirs nm nd r old s n
    rw [hT0, hL0]
    split
    · have ih := map_fst_eq (commitEntriesT_refines t r pre skipDirs old s n)
      cases hT : commitEntriesT t pre skipDirs r old s n with
      | error e => simp [ih.1 e hT, Except.map]
      | ok v =>
        obtain ⟨⟨r', cs, s'⟩, calls, k⟩ := v
        simp [ih.2 _ _ hT, Except.map]
    · split
      · rfl
      · have ih1 := map_fst_eq (commitNodeT_refines t nd (pre ++ [nm]) c0 s n)
        cases hT : commitNodeT t (pre ++ [nm]) nd c0 s n with
        | error e => simp [ih1.1 e hT, Except.map]
        | ok v =>
          obtain ⟨⟨nd', c', s1⟩, calls1, n1⟩ := v
          simp only [ih1.2 _ _ hT]
          have ih2 := map_fst_eq (commitEntriesT_refines t r pre skipDirs old s1 n1)
          cases hT2 : commitEntriesT t pre skipDirs r old s1 n1 with
          | error e => simp [ih2.1 e hT2, Except.map]
          | ok v =>
            obtain ⟨⟨r', cs, s2⟩, calls2, n2⟩ := v
            simp [ih2.2 _ _ hT2, Except.map]
end

theorem commitArtT_refines (t : TCfg κ) (a : Art) (pre : List Name) (nd : Option (Node κ))
    (s : Store κ) :
    (commitArtT t a pre nd s).map (·.1) = commitArt t.ctx t.strat a nd s := by
  unfold commitArtT commitArt
  split
  · cases nd with
    | none => rfl
    | some x =>
      cases x with
      | file _ => rfl
      | link _ => rfl
      | other => rfl
      | dir es =>
        simp only
        cases hold : oldManifest t.ctx s a.sum with
        | error e => rfl
        | ok old =>
          simp only
          have ih := map_fst_eq (commitEntriesT_refines t es pre a.noRec old s 1)
          cases hT : commitEntriesT t pre a.noRec es old s 1 with
          | error e => simp [ih.1 e hT, Except.map]
          | ok v =>
            obtain ⟨⟨es', cs, s'⟩, calls, n'⟩ := v
            simp [ih.2 _ _ hT, Except.map]
  · have ih := map_fst_eq (commitFileT_refines t a.skip (.ws pre) nd a.sum s 1)
    cases hT : commitFileT t a.skip (.ws pre) nd a.sum s 1 with
    | error e => simp [ih.1 e hT, Except.map]
    | ok v =>
      obtain ⟨r, calls, k⟩ := v
      simp [ih.2 _ _ hT, Except.map]

/-! ## the regular files of a tree, duplicate-free names -/

mutual
/-- (workspace path, content) of every regular file of the tree rooted at `pre` -/
def trackedOf (pre : List Name) : Node κ → List (P × κ)
  | .file c => [(.ws pre, c)]
  | .dir es => trackedList pre es
  | .link _ => []
  | .other => []
def trackedList (pre : List Name) : List (Name × Node κ) → List (P × κ)
  | [] => []
  | (nm, n) :: r => trackedOf (pre ++ [nm]) n ++ trackedList pre r
end

mutual
/-- entry names are pairwise distinct in every directory -/
def uniqNode : Node κ → Prop
  | .dir es => uniqList es
  | _ => True
def uniqList : List (Name × Node κ) → Prop
  | [] => True
  | (nm, n) :: r => uniqNode n ∧ (∀ e ∈ r, e.1 ≠ nm) ∧ uniqList r
end

mutual
theorem uniqNode_of_sorted : ∀ (n : Node κ), n.sorted = true → uniqNode n
  | .dir es, h => by
    simp only [Node.sorted] at h
    simp only [uniqNode]
    exact uniqList_of_sorted es h
  | .file _, _ => by simp [uniqNode]
  | .link _, _ => by simp [uniqNode]
  | .other, _ => by simp [uniqNode]
theorem uniqList_of_sorted : ∀ (es : List (Name × Node κ)), sortedList es = true → uniqList es
  | [], _ => by simp [uniqList]
  | (nm, n) :: r, h => by
    simp only [uniqList]
    exact ⟨uniqNode_of_sorted n (sortedList_cons h).1,
      fun e he heq => sortedList_head_ne h e he heq.symm,
      uniqList_of_sorted r (sortedList_cons h).2⟩
end

theorem allNames_sub_allNamesList : ∀ {es : List (Name × Node κ)} {e : Name × Node κ} {x : Name},
    e ∈ es → x ∈ allNames e.2 → x ∈ allNamesList es
  | (nm, n) :: r, e, x, he, hx => by
    rcases List.mem_cons.1 he with rfl | he'
    · exact mem_allNamesList_of_node hx
    · exact mem_allNamesList_of_tail (allNames_sub_allNamesList he' hx)

mutual
/-- every tracked path is `pre` followed by entry names of the tree -/
theorem trackedOf_names : ∀ (nd : Node κ) (pre : List Name) (p : P × κ), p ∈ trackedOf pre nd →
    ∃ names, p.1 = .ws (pre ++ names) ∧ ∀ x ∈ names, x ∈ allNames nd
  | .file c, pre, p, h => by
    simp only [trackedOf, List.mem_singleton] at h
    exact ⟨[], by simp [h], by simp⟩
  | .link _, _, _, h => by simp [trackedOf] at h
  | .other, _, _, h => by simp [trackedOf] at h
  | .dir es, pre, p, h => by
    simp only [trackedOf] at h
    obtain ⟨e, he, names, hp, hn⟩ := trackedList_names es pre p h
    refine ⟨e.1 :: names, by simp [hp], ?_⟩
    intro x hx
    simp only [allNames]
    rcases List.mem_cons.1 hx with rfl | hx'
    · exact mem_allNamesList_of_mem he
    · exact allNames_sub_allNamesList he (hn x hx')
theorem trackedList_names : ∀ (es : List (Name × Node κ)) (pre : List Name) (p : P × κ),
    p ∈ trackedList pre es →
    ∃ e ∈ es, ∃ names, p.1 = .ws (pre ++ [e.1] ++ names) ∧ ∀ x ∈ names, x ∈ allNames e.2
  | [], _, _, h => by simp [trackedList] at h
  | (nm, n) :: r, pre, p, h => by
    simp only [trackedList, List.mem_append] at h
    rcases h with h | h
    · obtain ⟨names, hp, hn⟩ := trackedOf_names n (pre ++ [nm]) p h
      exact ⟨(nm, n), by simp, names, hp, hn⟩
    · obtain ⟨e, he, names, hp, hn⟩ := trackedList_names r pre p h
      exact ⟨e, by simp [he], names, hp, hn⟩
end

/-- files below different entries of one directory have different paths -/
theorem sibling_paths_ne {pre : List Name} {a b : Name} {n1 n2 : List Name} (hab : a ≠ b) :
    P.ws (pre ++ [a] ++ n1) ≠ P.ws (pre ++ [b] ++ n2) := by
  intro h
  simp at h
  exact hab h.1

/-! ## the paths a traced commit mentions -/

def paths (l : List (P × κ)) : List P := l.map (·.1)

/-- the paths a (sub)commit with temp counters `lo … hi-1` may mention -/
def InFoot (wsPaths : List P) (lo hi : Nat) : P → Prop
  | .ws q => P.ws q ∈ wsPaths
  | .ctmp k => lo ≤ k ∧ k < hi
  | .shard _ => True
  | .obj _ => True
  | _ => False

def FootOK (wsPaths : List P) (lo hi : Nat) (calls : List (Call κ)) : Prop :=
  ∀ call ∈ calls, ∀ p ∈ callPaths call, InFoot wsPaths lo hi p

theorem InFoot.mono {ws ws' : List P} {lo hi lo' hi' : Nat} (hws : ∀ p ∈ ws, p ∈ ws')
    (hlo : lo' ≤ lo) (hhi : hi ≤ hi') {p : P} (h : InFoot ws lo hi p) : InFoot ws' lo' hi' p := by
  cases p <;> simp only [InFoot] at h ⊢
  · exact hws _ h
  · omega

theorem FootOK.mono {ws ws' : List P} {lo hi lo' hi' : Nat} (hws : ∀ p ∈ ws, p ∈ ws')
    (hlo : lo' ≤ lo) (hhi : hi ≤ hi') {calls : List (Call κ)} (h : FootOK ws lo hi calls) :
    FootOK ws' lo' hi' calls :=
  fun call hc p hp => (h call hc p hp).mono hws hlo hhi

theorem FootOK.append {ws : List P} {lo hi : Nat} {l1 l2 : List (Call κ)}
    (h1 : FootOK ws lo hi l1) (h2 : FootOK ws lo hi l2) : FootOK ws lo hi (l1 ++ l2) := by
  intro call hc
  rcases List.mem_append.1 hc with h | h
  · exact h1 call h
  · exact h2 call h

theorem FootOK.nil (ws : List P) (lo hi : Nat) : FootOK (κ := κ) ws lo hi [] := by
  intro call hc; simp at hc

theorem copyIntoCache_foot (isEmp : κ → Bool) (n : Nat) (c : κ) (d : Digest) :
    FootOK [] n (n + 1) (copyIntoCache isEmp n c d) := by
  intro call hc p hp
  rcases copyIntoCache_paths isEmp n c d call hc p hp with rfl | rfl | rfl <;> simp [InFoot]

theorem commitFileCalls_foot (isEmp : κ → Bool) (strat : Strat) (canRename : Bool) (q : List Name)
    (n : Nat) (c : κ) (d : Digest) :
    FootOK [.ws q] n (if strat == .link && canRename then n else n + 1)
      (commitFileCalls isEmp strat canRename (.ws q) n c d) := by
  intro call hc p hp
  rcases commitFileCalls_paths isEmp strat canRename (.ws q) n c d call hc p hp
    with rfl | ⟨hno, rfl⟩ | rfl | rfl
  · simp [InFoot]
  · cases strat <;> cases canRename <;> simp [InFoot] at hno ⊢
  · simp [InFoot]
  · simp [InFoot]

/-! ## inversion of the traced commit -/

theorem commitFileT_file_ok {t : TCfg κ} {w : P} {x : κ} {sum : Digest} {s : Store κ} {n : Nat}
    {res : Node κ × Digest × Store κ} {calls : List (Call κ)} {k : Nat}
    (h : commitFileT t false w (some (.file x)) sum s n = .ok (res, calls, k)) :
    calls = commitFileCalls t.isEmp t.strat t.canRename w n x (t.ctx.H x) ∧
      k = (if t.strat == .link && t.canRename then n else n + 1) := by
  unfold commitFileT at h
  cases hcf : commitFile t.ctx t.strat false (some (.file x)) sum s with
  | error e => simp [hcf] at h
  | ok r =>
    simp [hcf, quick] at h
    obtain ⟨-, rfl, rfl⟩ := h
    simp

theorem commitFileT_nonfile_ok {t : TCfg κ} {skip : Bool} {w : P} {nd : Option (Node κ)} {sum : Digest}
    {s : Store κ} {n : Nat} {res : Node κ × Digest × Store κ} {calls : List (Call κ)} {k : Nat}
    (hnd : ∀ x, nd ≠ some (.file x))
    (h : commitFileT t skip w nd sum s n = .ok (res, calls, k)) : calls = [] ∧ k = n := by
  unfold commitFileT at h
  cases hcf : commitFile t.ctx t.strat skip nd sum s with
  | error e => simp [hcf] at h
  | ok r =>
    simp only [hcf] at h
    simp at h; exact ⟨h.2.1, h.2.2.symm⟩

theorem commitNodeT_file_ok {t : TCfg κ} {pre : List Name} {x : κ} {c : Child} {s : Store κ} {n : Nat}
    {res : Node κ × Child × Store κ} {calls : List (Call κ)} {k : Nat}
    (h : commitNodeT t pre (.file x) c s n = .ok (res, calls, k)) :
    calls = commitFileCalls t.isEmp t.strat t.canRename (.ws pre) n x (t.ctx.H x) ∧
      k = (if t.strat == .link && t.canRename then n else n + 1) := by
  simp only [commitNodeT] at h
  split at h
  · cases h
  · cases hT : commitFileT t false (.ws pre) (some (.file x)) c.sum s n with
    | error e => simp [hT] at h
    | ok v =>
      obtain ⟨⟨n', d, s'⟩, calls', k'⟩ := v
      simp [hT] at h
      obtain ⟨-, rfl, rfl⟩ := h
      exact commitFileT_file_ok hT

theorem commitNodeT_link_ok {t : TCfg κ} {pre : List Name} {l : Link} {c : Child} {s : Store κ} {n : Nat}
    {res : Node κ × Child × Store κ} {calls : List (Call κ)} {k : Nat}
    (h : commitNodeT t pre (.link l) c s n = .ok (res, calls, k)) : calls = [] ∧ k = n := by
  simp only [commitNodeT] at h
  split at h
  · cases h
  · cases hT : commitFileT t false (.ws pre) (some (.link l)) c.sum s n with
    | error e => simp [hT] at h
    | ok v =>
      obtain ⟨⟨n', d, s'⟩, calls', k'⟩ := v
      simp [hT] at h
      obtain ⟨-, rfl, rfl⟩ := h
      exact commitFileT_nonfile_ok (by simp) hT

theorem commitNodeT_other_ok {t : TCfg κ} {pre : List Name} {c : Child} {s : Store κ} {n : Nat}
    {res : Node κ × Child × Store κ} {calls : List (Call κ)} {k : Nat}
    (h : commitNodeT t pre .other c s n = .ok (res, calls, k)) : calls = [] ∧ k = n := by
  simp only [commitNodeT] at h
  split at h
  · cases h
  · cases hT : commitFileT t false (.ws pre) (some .other) c.sum s n with
    | error e => simp [hT] at h
    | ok v =>
      obtain ⟨⟨n', d, s'⟩, calls', k'⟩ := v
      simp [hT] at h
      obtain ⟨-, rfl, rfl⟩ := h
      exact commitFileT_nonfile_ok (by simp) hT

theorem commitNodeT_dir_ok {t : TCfg κ} {pre : List Name} {es : List (Name × Node κ)} {c : Child}
    {s : Store κ} {n : Nat} {res : Node κ × Child × Store κ} {calls : List (Call κ)} {k : Nat}
    (h : commitNodeT t pre (.dir es) c s n = .ok (res, calls, k)) :
    ∃ old res1 calls1 n1 mb, commitEntriesT t pre false es old s n = .ok (res1, calls1, n1) ∧
      calls = calls1 ++ copyIntoCache t.isEmp n1 mb (t.ctx.H mb) ∧ k = n1 + 1 := by
  simp only [commitNodeT] at h
  split at h
  · cases hold : oldManifest t.ctx s c.sum with
    | error e => simp [hold] at h
    | ok old =>
      simp only [hold] at h
      cases hT : commitEntriesT t pre false es old s n with
      | error e => simp [hT] at h
      | ok v =>
        obtain ⟨⟨es', cs, s'⟩, calls1, n1⟩ := v
        simp [hT] at h
        obtain ⟨-, rfl, rfl⟩ := h
        exact ⟨old, _, _, _, _, hT, rfl, rfl⟩
  · cases h

theorem commitEntriesT_cons_ok {t : TCfg κ} {pre : List Name} {skipDirs : Bool} {nm : Name}
    {nd : Node κ} {r : List (Name × Node κ)} {old : List Child} {s : Store κ} {n : Nat}
    {res : List (Name × Node κ) × List Child × Store κ} {calls : List (Call κ)} {k : Nat}
    (h : commitEntriesT t pre skipDirs ((nm, nd) :: r) old s n = .ok (res, calls, k)) :
    (∃ res', commitEntriesT t pre skipDirs r old s n = .ok (res', calls, k)) ∨
    (∃ c0 nd' c' s1 calls1 n1 res2 calls2, commitNodeT t (pre ++ [nm]) nd c0 s n = .ok ((nd', c', s1), calls1, n1) ∧
      commitEntriesT t pre skipDirs r old s1 n1 = .ok (res2, calls2, k) ∧ calls = calls1 ++ calls2) := by
  obtain ⟨c0, hT0, -⟩ := commitEntries_cons_both t pre skipDirs nm nd r old s n
  rw [hT0] at h
  split at h
  · left
    cases hT : commitEntriesT t pre skipDirs r old s n with
    | error e => simp [hT] at h
    | ok v =>
      obtain ⟨⟨r', cs, s'⟩, calls', k'⟩ := v
      simp [hT] at h
      obtain ⟨-, rfl, rfl⟩ := h
      exact ⟨_, rfl⟩
  · right
    split at h
    · cases h
    · cases hT : commitNodeT t (pre ++ [nm]) nd c0 s n with
      | error e => simp [hT] at h
      | ok v =>
        obtain ⟨⟨nd', c', s1⟩, calls1, n1⟩ := v
        simp only [hT] at h
        cases hT2 : commitEntriesT t pre skipDirs r old s1 n1 with
        | error e => simp [hT2] at h
        | ok v =>
          obtain ⟨⟨r', cs, s2⟩, calls2, n2⟩ := v
          simp [hT2] at h
          obtain ⟨-, rfl, rfl⟩ := h
          exact ⟨c0, nd', c', s1, calls1, n1, _, calls2, hT, hT2, rfl⟩

theorem paths_append (a b : List (P × κ)) : paths (a ++ b) = paths a ++ paths b := by
  simp [paths]

theorem paths_cons_left (pre : List Name) (nm : Name) (nd : Node κ) (r : List (Name × Node κ)) :
    ∀ p ∈ paths (trackedOf (pre ++ [nm]) nd), p ∈ paths (trackedList pre ((nm, nd) :: r)) := by
  intro p hp
  simp only [trackedList, paths_append, List.mem_append]; exact Or.inl hp

theorem paths_cons_right (pre : List Name) (nm : Name) (nd : Node κ) (r : List (Name × Node κ)) :
    ∀ p ∈ paths (trackedList pre r), p ∈ paths (trackedList pre ((nm, nd) :: r)) := by
  intro p hp
  simp only [trackedList, paths_append, List.mem_append]; exact Or.inr hp

mutual
/-- **Footprint.** A traced commit of the tree at `pre` mentions only the workspace paths of the
tree's regular files, the temp files it numbers, shard directories and objects. -/
theorem commitNodeT_foot (t : TCfg κ) : ∀ (nd : Node κ) (pre : List Name) (c : Child) (s : Store κ)
    (n : Nat) (res : Node κ × Child × Store κ) (calls : List (Call κ)) (n' : Nat),
    commitNodeT t pre nd c s n = .ok (res, calls, n') →
      n ≤ n' ∧ FootOK (paths (trackedOf pre nd)) n n' calls
  | .file x, pre, c, s, n, res, calls, n', h => by
    obtain ⟨rfl, rfl⟩ := commitNodeT_file_ok h
    refine ⟨by split <;> omega, ?_⟩
    simpa [paths, trackedOf] using commitFileCalls_foot t.isEmp t.strat t.canRename pre n x (t.ctx.H x)
  | .link l, pre, c, s, n, res, calls, n', h => by
    obtain ⟨rfl, rfl⟩ := commitNodeT_link_ok h
    exact ⟨Nat.le_refl _, FootOK.nil _ _ _⟩
  | .other, pre, c, s, n, res, calls, n', h => by
    obtain ⟨rfl, rfl⟩ := commitNodeT_other_ok h
    exact ⟨Nat.le_refl _, FootOK.nil _ _ _⟩
  | .dir es, pre, c, s, n, res, calls, n', h => by
    obtain ⟨old, res1, calls1, n1, mb, hT, rfl, rfl⟩ := commitNodeT_dir_ok h
    obtain ⟨hle, hf⟩ := commitEntriesT_foot t es pre false old s n res1 calls1 n1 hT
    refine ⟨by omega, FootOK.append ?_ ?_⟩
    · simp only [trackedOf]
      exact hf.mono (fun _ h => h) (Nat.le_refl _) (by omega)
    · exact (copyIntoCache_foot t.isEmp n1 mb _).mono (by simp) hle (Nat.le_refl _)
theorem commitEntriesT_foot (t : TCfg κ) : ∀ (es : List (Name × Node κ)) (pre : List Name)
    (skipDirs : Bool) (old : List Child) (s : Store κ) (n : Nat)
    (res : List (Name × Node κ) × List Child × Store κ) (calls : List (Call κ)) (n' : Nat),
    commitEntriesT t pre skipDirs es old s n = .ok (res, calls, n') →
      n ≤ n' ∧ FootOK (paths (trackedList pre es)) n n' calls
  | [], pre, skipDirs, old, s, n, res, calls, n', h => by
    simp [commitEntriesT] at h
    obtain ⟨-, rfl, rfl⟩ := h
    exact ⟨Nat.le_refl _, FootOK.nil _ _ _⟩
  | (nm, nd) :: r, pre, skipDirs, old, s, n, res, calls, n', h => by
    rcases commitEntriesT_cons_ok h with ⟨res', h'⟩ |
      ⟨c0, nd', c', s1, calls1, n1, res2, calls2, h1, h2, rfl⟩
    · obtain ⟨hle, hf⟩ := commitEntriesT_foot t r pre skipDirs old s n res' calls n' h'
      exact ⟨hle, hf.mono (paths_cons_right pre nm nd r)
        (Nat.le_refl _) (Nat.le_refl _)⟩
    · obtain ⟨hle1, hf1⟩ := commitNodeT_foot t nd (pre ++ [nm]) c0 s n _ calls1 n1 h1
      obtain ⟨hle2, hf2⟩ := commitEntriesT_foot t r pre skipDirs old s1 n1 res2 calls2 n' h2
      refine ⟨by omega, FootOK.append ?_ ?_⟩
      · exact hf1.mono (paths_cons_left pre nm nd r)
          (Nat.le_refl _) hle2
      · exact hf2.mono (paths_cons_right pre nm nd r)
          hle1 (Nat.le_refl _)
end

/-- a trace leaves every path outside its footprint alone -/
theorem replay_get_of_foot {ws : List P} {lo hi : Nat} {calls : List (Call κ)}
    (hf : FootOK ws lo hi calls) {p : P} (hp : ¬ InFoot ws lo hi p) (emp : κ) (fs : FS κ) :
    (replay emp fs calls).get p = fs.get p :=
  replay_get_frame emp calls p fs (fun c hc hmem => hp (hf c hc p (callWrites_sub c p hmem)))

theorem not_inFoot_ctmp (ws : List P) {lo hi k : Nat} (h : hi ≤ k) : ¬ InFoot ws lo hi (.ctmp k) := by
  simp only [InFoot]; omega

/-- files below a later entry are outside the footprint of an earlier sibling -/
theorem not_inFoot_sibling {pre : List Name} {nm : Name} {nd : Node κ} {r : List (Name × Node κ)}
    (hne : ∀ e ∈ r, e.1 ≠ nm) {p : P × κ} (hp : p ∈ trackedList pre r) (lo hi : Nat) :
    ¬ InFoot (paths (trackedOf (pre ++ [nm]) nd)) lo hi p.1 := by
  obtain ⟨e, he, names, hpe, -⟩ := trackedList_names r pre p hp
  rw [hpe]
  simp only [InFoot, paths, List.mem_map]
  rintro ⟨p', hp', heq⟩
  obtain ⟨names', hpe', -⟩ := trackedOf_names nd (pre ++ [nm]) p' hp'
  rw [hpe'] at heq
  exact sibling_paths_ne (Ne.symm (hne e he)) heq

mutual
/-- **Every call of the traced commit is allowed in the state it is issued in**, from any safe
state in which the regular files of the tree are in place and the temp names from `n` on unused. -/
theorem commitNodeT_allowed {t : TCfg κ} (g : Good t.ctx) {tracked : List (P × κ)}
    (htw : TrackedWs tracked) {emp : κ} (hemp : ∀ c, t.isEmp c = true → c = emp) :
    ∀ (nd : Node κ) (pre : List Name) (c : Child) (s : Store κ) (n : Nat)
      (res : Node κ × Child × Store κ) (calls : List (Call κ)) (n' : Nat),
      uniqNode nd → commitNodeT t pre nd c s n = .ok (res, calls, n') →
      ∀ fs : FS κ, Safe t.ctx tracked fs →
        (∀ p ∈ trackedOf pre nd, ∃ m, fs.get p.1 = some (.file p.2 m)) →
        (∀ k, n ≤ k → fs.get (.ctmp k) = none) →
        AllowedTrace t.ctx emp tracked fs calls
  | .file x, pre, c, s, n, res, calls, n', _, h, fs, hs, hin, hfr => by
    obtain ⟨rfl, -⟩ := commitNodeT_file_ok h
    obtain ⟨m, hm⟩ := hin (.ws pre, x) (by simp [trackedOf])
    exact (commitFileCalls_spec g htw hemp hs hm (hfr n (Nat.le_refl _)) t.strat t.canRename).1
  | .link l, pre, c, s, n, res, calls, n', _, h, fs, hs, hin, hfr => by
    obtain ⟨rfl, -⟩ := commitNodeT_link_ok h
    trivial
  | .other, pre, c, s, n, res, calls, n', _, h, fs, hs, hin, hfr => by
    obtain ⟨rfl, -⟩ := commitNodeT_other_ok h
    trivial
  | .dir es, pre, c, s, n, res, calls, n', hu, h, fs, hs, hin, hfr => by
    obtain ⟨old, res1, calls1, n1, mb, hT, rfl, rfl⟩ := commitNodeT_dir_ok h
    simp only [uniqNode] at hu
    simp only [trackedOf] at hin
    have ha1 := commitEntriesT_allowed g htw hemp es pre false old s n res1 calls1 n1 hu hT fs hs hin hfr
    refine AllowedTrace.append ha1 ?_
    obtain ⟨hle, hf⟩ := commitEntriesT_foot t es pre false old s n res1 calls1 n1 hT
    have hfr1 : (replay emp fs calls1).get (.ctmp n1) = none := by
      rw [replay_get_of_foot hf (not_inFoot_ctmp _ (Nat.le_refl _))]
      exact hfr n1 hle
    exact (copyIntoCache_spec htw hemp hfr1 mb).1
theorem commitEntriesT_allowed {t : TCfg κ} (g : Good t.ctx) {tracked : List (P × κ)}
    (htw : TrackedWs tracked) {emp : κ} (hemp : ∀ c, t.isEmp c = true → c = emp) :
    ∀ (es : List (Name × Node κ)) (pre : List Name) (skipDirs : Bool) (old : List Child)
      (s : Store κ) (n : Nat) (res : List (Name × Node κ) × List Child × Store κ)
      (calls : List (Call κ)) (n' : Nat),
      uniqList es → commitEntriesT t pre skipDirs es old s n = .ok (res, calls, n') →
      ∀ fs : FS κ, Safe t.ctx tracked fs →
        (∀ p ∈ trackedList pre es, ∃ m, fs.get p.1 = some (.file p.2 m)) →
        (∀ k, n ≤ k → fs.get (.ctmp k) = none) →
        AllowedTrace t.ctx emp tracked fs calls
  | [], pre, skipDirs, old, s, n, res, calls, n', _, h, fs, hs, hin, hfr => by
    simp [commitEntriesT] at h
    obtain ⟨-, rfl, -⟩ := h
    trivial
  | (nm, nd) :: r, pre, skipDirs, old, s, n, res, calls, n', hu, h, fs, hs, hin, hfr => by
    simp only [uniqList] at hu
    obtain ⟨hun, hne, hur⟩ := hu
    have hin1 : ∀ p ∈ trackedOf (pre ++ [nm]) nd, ∃ m, fs.get p.1 = some (.file p.2 m) :=
      fun p hp => hin p (by simp only [trackedList, List.mem_append]; exact Or.inl hp)
    have hin2 : ∀ p ∈ trackedList pre r, ∃ m, fs.get p.1 = some (.file p.2 m) :=
      fun p hp => hin p (by simp only [trackedList, List.mem_append]; exact Or.inr hp)
    rcases commitEntriesT_cons_ok h with ⟨res', h'⟩ |
      ⟨c0, nd', c', s1, calls1, n1, res2, calls2, h1, h2, rfl⟩
    · exact commitEntriesT_allowed g htw hemp r pre skipDirs old s n res' calls n' hur h' fs hs hin2 hfr
    · have ha1 := commitNodeT_allowed g htw hemp nd (pre ++ [nm]) c0 s n _ calls1 n1 hun h1 fs hs hin1 hfr
      refine AllowedTrace.append ha1 ?_
      obtain ⟨hle1, hf1⟩ := commitNodeT_foot t nd (pre ++ [nm]) c0 s n _ calls1 n1 h1
      have hs1 : Safe t.ctx tracked (replay emp fs calls1) := (ha1.prefixSafe g hs).final
      refine commitEntriesT_allowed g htw hemp r pre skipDirs old s1 n1 res2 calls2 n' hur h2 _ hs1 ?_ ?_
      · intro p hp
        rw [replay_get_of_foot hf1 (not_inFoot_sibling hne hp _ _)]
        exact hin2 p hp
      · intro k hk
        rw [replay_get_of_foot hf1 (not_inFoot_ctmp _ hk)]
        exact hfr k (by omega)
end

/-! ## calls that touch neither workspace paths nor objects -/

def Harmless (c : Call κ) : Prop := ∀ p ∈ callWrites c, p.isObj = false ∧ ∀ q, p ≠ .ws q

theorem allowed_of_harmless {ctx : Ctx κ} {tracked : List (P × κ)} (htw : TrackedWs tracked)
    (fs : FS κ) {c : Call κ} (h : Harmless c) : Allowed ctx tracked fs c := by
  cases c with
  | mkdir p => exact (h p (by simp [callWrites, callPaths])).1
  | createExcl p => exact (h p (by simp [callWrites, callPaths])).1
  | symlink t p => exact (h p (by simp [callWrites])).1
  | createTrunc p =>
    have := h p (by simp [callWrites, callPaths]); exact ⟨this.1, backed_of_notWs htw fs this.2⟩
  | writePart p =>
    have := h p (by simp [callWrites, callPaths]); exact ⟨this.1, backed_of_notWs htw fs this.2⟩
  | write p _ =>
    have := h p (by simp [callWrites, callPaths]); exact ⟨this.1, backed_of_notWs htw fs this.2⟩
  | unlink p =>
    have := h p (by simp [callWrites, callPaths]); exact ⟨this.1, backed_of_notWs htw fs this.2⟩
  | chmod _ _ => trivial
  | rename s d =>
    have hs := h s (by simp [callWrites, callPaths])
    have hd := h d (by simp [callWrites, callPaths])
    refine ⟨hs.1, fun e _ => ⟨fun dd hdd => ?_, fun _ =>
      ⟨backed_of_notWs htw fs hs.2, backed_of_notWs htw fs hd.2⟩⟩⟩
    subst hdd
    simp [P.isObj] at hd

theorem allowedTrace_of_harmless {ctx : Ctx κ} {tracked : List (P × κ)} (htw : TrackedWs tracked)
    (emp : κ) : ∀ (calls : List (Call κ)), (∀ c ∈ calls, Harmless c) →
      ∀ fs : FS κ, AllowedTrace ctx emp tracked fs calls
  | [], _, _ => trivial
  | c :: cs, h, fs => ⟨allowed_of_harmless htw fs (h c (by simp)),
      allowedTrace_of_harmless htw emp cs (fun c' hc' => h c' (by simp [hc'])) _⟩

/-- `MkdirAll(cache)` and the rename probe -/
def headCalls : List (Call κ) := [.mkdir .cacheRoot] ++ probeCalls

theorem headCalls_harmless : ∀ c ∈ (headCalls : List (Call κ)), Harmless c := by
  intro c hc
  simp [headCalls, probeCalls] at hc
  rcases hc with rfl | rfl | rfl | rfl | rfl | rfl <;>
    simp [Harmless, callWrites, callPaths, P.isObj]

theorem headCalls_frame_ws (emp : κ) (fs : FS κ) (q : List Name) :
    (replay emp fs headCalls).get (.ws q) = fs.get (.ws q) :=
  replay_get_frame emp _ _ fs (by
    intro c hc
    simp [headCalls, probeCalls] at hc
    rcases hc with rfl | rfl | rfl | rfl | rfl | rfl <;> simp [callWrites, callPaths])

theorem headCalls_frame_ctmp (emp : κ) (fs : FS κ) {k : Nat} (hk : 1 ≤ k) :
    (replay emp fs headCalls).get (.ctmp k) = fs.get (.ctmp k) :=
  replay_get_frame emp _ _ fs (by
    intro c hc
    simp [headCalls, probeCalls] at hc
    rcases hc with rfl | rfl | rfl | rfl | rfl | rfl <;> simp [callWrites, callPaths] <;> omega)

/-- the regular files of an optional node -/
def trackedOpt (pre : List Name) : Option (Node κ) → List (P × κ)
  | some n => trackedOf pre n
  | none => []

def uniqOpt : Option (Node κ) → Prop
  | some n => uniqNode n
  | none => True

theorem commitFileT_allowed {t : TCfg κ} (g : Good t.ctx) {tracked : List (P × κ)}
    (htw : TrackedWs tracked) {emp : κ} (hemp : ∀ c, t.isEmp c = true → c = emp)
    {skip : Bool} {q : List Name} {nd : Option (Node κ)} {sum : Digest} {s : Store κ} {n : Nat}
    {res : Node κ × Digest × Store κ} {calls : List (Call κ)} {k : Nat}
    (h : commitFileT t skip (.ws q) nd sum s n = .ok (res, calls, k))
    {fs : FS κ} (hs : Safe t.ctx tracked fs)
    (hin : ∀ p ∈ trackedOpt q nd, ∃ m, fs.get p.1 = some (.file p.2 m))
    (hfr : fs.get (.ctmp n) = none) : AllowedTrace t.ctx emp tracked fs calls := by
  unfold commitFileT at h
  cases hcf : commitFile t.ctx t.strat skip nd sum s with
  | error e => simp [hcf] at h
  | ok r =>
    simp only [hcf] at h
    split at h
    · next x =>
      split at h
      · simp at h; obtain ⟨-, rfl, -⟩ := h; trivial
      · simp at h
        obtain ⟨-, rfl, -⟩ := h
        obtain ⟨m, hm⟩ := hin (.ws q, x) (by simp [trackedOpt, trackedOf])
        exact (commitFileCalls_spec g htw hemp hs hm hfr t.strat t.canRename).1
    · simp at h; obtain ⟨-, rfl, -⟩ := h; trivial

/-- **The whole traced `LocalCache.Commit`.** -/
theorem commitArtT_allowed {t : TCfg κ} (g : Good t.ctx) {tracked : List (P × κ)}
    (htw : TrackedWs tracked) {emp : κ} (hemp : ∀ c, t.isEmp c = true → c = emp)
    {a : Art} {pre : List Name} {nd : Option (Node κ)} {s : Store κ}
    {res : Node κ × Digest × Store κ} {calls : List (Call κ)}
    (hu : uniqOpt nd) (h : commitArtT t a pre nd s = .ok (res, calls))
    {fs : FS κ} (hs : Safe t.ctx tracked fs)
    (hin : ∀ p ∈ trackedOpt pre nd, ∃ m, fs.get p.1 = some (.file p.2 m))
    (hfr : ∀ k, 1 ≤ k → fs.get (.ctmp k) = none) : AllowedTrace t.ctx emp tracked fs calls := by
  have hhead : AllowedTrace t.ctx emp tracked fs headCalls :=
    allowedTrace_of_harmless htw emp _ headCalls_harmless fs
  have hs0 : Safe t.ctx tracked (replay emp fs headCalls) := (hhead.prefixSafe g hs).final
  have hin0 : ∀ p ∈ trackedOpt pre nd, ∃ m, (replay emp fs headCalls).get p.1 = some (.file p.2 m) := by
    intro p hp
    obtain ⟨q, hq⟩ : ∃ q, p.1 = .ws q := by
      cases nd with
      | none => simp [trackedOpt] at hp
      | some n =>
        obtain ⟨names, hn, -⟩ := trackedOf_names n pre p hp
        exact ⟨_, hn⟩
    rw [hq, headCalls_frame_ws, ← hq]
    exact hin p hp
  have hfr0 : ∀ k, 1 ≤ k → (replay emp fs headCalls).get (.ctmp k) = none := by
    intro k hk
    rw [headCalls_frame_ctmp emp fs hk]; exact hfr k hk
  unfold commitArtT at h
  split at h
  · cases nd with
    | none => simp at h
    | some x =>
      cases x with
      | file _ => simp at h
      | link _ => simp at h
      | other => simp at h
      | dir es =>
        simp only at h
        cases hold : oldManifest t.ctx s a.sum with
        | error e => simp [hold] at h
        | ok old =>
          simp only [hold] at h
          cases hT : commitEntriesT t pre a.noRec es old s 1 with
          | error e => simp [hT] at h
          | ok v =>
            obtain ⟨⟨es', cs, s'⟩, calls1, n1⟩ := v
            simp [hT] at h
            obtain ⟨-, rfl⟩ := h
            simp only [uniqOpt, uniqNode] at hu
            simp only [trackedOpt, trackedOf] at hin0
            have ha1 := commitEntriesT_allowed g htw hemp es pre a.noRec old s 1 _ calls1 n1 hu hT
              _ hs0 hin0 hfr0
            obtain ⟨hle, hf⟩ := commitEntriesT_foot t es pre a.noRec old s 1 _ calls1 n1 hT
            have hfr1 : (replay emp (replay emp fs headCalls) calls1).get (.ctmp n1) = none := by
              rw [replay_get_of_foot hf (not_inFoot_ctmp _ (Nat.le_refl _))]
              exact hfr0 n1 hle
            have := AllowedTrace.append hhead (AllowedTrace.append ha1
              (copyIntoCache_spec htw hemp hfr1
                ((Obj.man .new a.path (sortChildren cs) : Obj κ).bytes t.ctx)).1)
            simpa [headCalls, List.append_assoc, Obj.digest] using this
  · cases hT : commitFileT t a.skip (.ws pre) nd a.sum s 1 with
    | error e => simp [hT] at h
    | ok v =>
      obtain ⟨r, calls1, k⟩ := v
      simp [hT] at h
      obtain ⟨-, rfl⟩ := h
      have := AllowedTrace.append hhead
        (commitFileT_allowed g htw hemp hT hs0 hin0 (hfr0 1 (Nat.le_refl _)))
      simpa [headCalls, List.append_assoc] using this

/-! ## a workspace tree and a cache as a file system -/

mutual
/-- regular files, directories and links into the cache of the tree rooted at `pre` (foreign links
and special files have no `Entry` kind and are left out: they are never touched) -/
def fsOfNode (pre : List Name) : Node κ → FS κ
  | .file c => [(.ws pre, .file c 0o644)]
  | .dir es => (.ws pre, .dir) :: fsOfList pre es
  | .link (.obj d) => [(.ws pre, .link (.obj d))]
  | .link (.foreign _) => []
  | .other => []
def fsOfList (pre : List Name) : List (Name × Node κ) → FS κ
  | [] => []
  | (nm, n) :: r => fsOfNode (pre ++ [nm]) n ++ fsOfList pre r
end

/-- objects (read-only files holding the object's bytes) and their shard directories -/
def fsOfStore (ctx : Ctx κ) (s : Store κ) : FS κ :=
  s.map (fun e => (P.obj e.1, Entry.file (e.2.bytes ctx) 0o444)) ++
  s.map (fun e => (P.shard (shardOf e.1), Entry.dir))

def fsOf (ctx : Ctx κ) (pre : List Name) (nd : Node κ) (s : Store κ) : FS κ :=
  fsOfNode pre nd ++ fsOfStore ctx s ++ [(.cacheRoot, .dir)]

mutual
theorem fsOfNode_keys : ∀ (nd : Node κ) (pre : List Name) (e : P × Entry κ), e ∈ fsOfNode pre nd →
    ∃ names, e.1 = .ws (pre ++ names)
  | .file c, pre, e, h => by
    simp only [fsOfNode, List.mem_singleton] at h; exact ⟨[], by simp [h]⟩
  | .link (.obj d), pre, e, h => by
    simp only [fsOfNode, List.mem_singleton] at h; exact ⟨[], by simp [h]⟩
  | .link (.foreign _), _, _, h => by simp [fsOfNode] at h
  | .other, _, _, h => by simp [fsOfNode] at h
  | .dir es, pre, e, h => by
    simp only [fsOfNode, List.mem_cons] at h
    rcases h with rfl | h
    · exact ⟨[], by simp⟩
    · obtain ⟨x, -, names, hn⟩ := fsOfList_keys es pre e h
      exact ⟨x.1 :: names, by simp [hn]⟩
theorem fsOfList_keys : ∀ (es : List (Name × Node κ)) (pre : List Name) (e : P × Entry κ),
    e ∈ fsOfList pre es → ∃ x ∈ es, ∃ names, e.1 = .ws (pre ++ [x.1] ++ names)
  | [], _, _, h => by simp [fsOfList] at h
  | (nm, n) :: r, pre, e, h => by
    simp only [fsOfList, List.mem_append] at h
    rcases h with h | h
    · obtain ⟨names, hn⟩ := fsOfNode_keys n (pre ++ [nm]) e h
      exact ⟨(nm, n), by simp, names, hn⟩
    · obtain ⟨x, hx, names, hn⟩ := fsOfList_keys r pre e h
      exact ⟨x, by simp [hx], names, hn⟩
end

mutual
/-- in a tree with duplicate-free names every regular file is found at its path -/
theorem fsOfNode_get_tracked : ∀ (nd : Node κ) (pre : List Name), uniqNode nd →
    ∀ p ∈ trackedOf pre nd, alookup (fsOfNode pre nd) p.1 = some (.file p.2 0o644)
  | .file c, pre, _, p, h => by
    simp only [trackedOf, List.mem_singleton] at h
    subst h
    simp [fsOfNode, alookup]
  | .link _, _, _, _, h => by simp [trackedOf] at h
  | .other, _, _, _, h => by simp [trackedOf] at h
  | .dir es, pre, hu, p, h => by
    simp only [trackedOf] at h
    simp only [uniqNode] at hu
    obtain ⟨e, -, names, hp, -⟩ := trackedList_names es pre p h
    have hne : P.ws pre ≠ p.1 := by
      rw [hp]; intro heq
      have := congrArg (fun x => match x with | P.ws q => q.length | _ => 0) heq
      simp at this
    simp only [fsOfNode, alookup, beq_iff_eq, hne, if_false]
    exact fsOfList_get_tracked es pre hu p h
theorem fsOfList_get_tracked : ∀ (es : List (Name × Node κ)) (pre : List Name), uniqList es →
    ∀ p ∈ trackedList pre es, alookup (fsOfList pre es) p.1 = some (.file p.2 0o644)
  | [], _, _, _, h => by simp [trackedList] at h
  | (nm, n) :: r, pre, hu, p, h => by
    simp only [uniqList] at hu
    obtain ⟨hun, hne, hur⟩ := hu
    simp only [trackedList, List.mem_append] at h
    simp only [fsOfList, alookup_append]
    rcases h with h | h
    · rw [fsOfNode_get_tracked n (pre ++ [nm]) hun p h]
    · have hnone : alookup (fsOfNode (pre ++ [nm]) n) p.1 = none := by
        apply alookup_none_of_keys
        intro e he heq
        obtain ⟨names', hn'⟩ := fsOfNode_keys n (pre ++ [nm]) e he
        obtain ⟨x, hx, names, hp, -⟩ := trackedList_names r pre p h
        rw [hn', hp] at heq
        exact sibling_paths_ne (Ne.symm (hne x hx)) heq
      rw [hnone]
      exact fsOfList_get_tracked r pre hur p h
end

theorem alookup_map_obj (ctx : Ctx κ) (s : Store κ) (d : Digest) :
    alookup (s.map (fun e => (P.obj e.1, Entry.file (e.2.bytes ctx) 0o444))) (.obj d) =
      (s.get d).map (fun o => Entry.file (o.bytes ctx) 0o444) := by
  induction s with
  | nil => simp [alookup, Store.get]
  | cons x xs ih =>
    obtain ⟨k, o⟩ := x
    simp only [List.map_cons, alookup, Store.get, beq_iff_eq, P.obj.injEq]
    split
    · rfl
    · exact ih

theorem fsOf_get_obj (ctx : Ctx κ) (pre : List Name) (nd : Node κ) (s : Store κ) (d : Digest) :
    (fsOf ctx pre nd s).get (.obj d) = (s.get d).map (fun o => Entry.file (o.bytes ctx) 0o444) := by
  have h1 : alookup (fsOfNode pre nd) (.obj d) = none := by
    apply alookup_none_of_keys
    intro e he heq
    obtain ⟨names, hn⟩ := fsOfNode_keys nd pre e he
    rw [hn] at heq; cases heq
  simp only [fsOf, fsOfStore, FS.get, alookup_append, h1, alookup_map_obj]
  cases s.get d with
  | some o => rfl
  | none =>
    simp only [Option.map_none]
    have h2 : alookup (s.map (fun e => (P.shard (shardOf e.1), (Entry.dir : Entry κ)))) (.obj d) = none := by
      apply alookup_none_of_keys
      intro e he heq
      simp only [List.mem_map] at he
      obtain ⟨x, -, rfl⟩ := he
      cases heq
    simp [h2, alookup]

theorem fsOf_get_ctmp (ctx : Ctx κ) (pre : List Name) (nd : Node κ) (s : Store κ) (k : Nat) :
    (fsOf ctx pre nd s).get (.ctmp k) = none := by
  apply alookup_none_of_keys
  intro e he heq
  simp only [fsOf, fsOfStore, List.mem_append, List.mem_map, List.mem_singleton] at he
  rcases he with (he | ⟨x, -, rfl⟩ | ⟨x, -, rfl⟩) | rfl
  · obtain ⟨names, hn⟩ := fsOfNode_keys nd pre e he
    rw [hn] at heq; cases heq
  · cases heq
  · cases heq
  · cases heq

theorem fsOf_get_tracked (ctx : Ctx κ) (pre : List Name) (nd : Node κ) (s : Store κ)
    (hu : uniqNode nd) : ∀ p ∈ trackedOf pre nd, (fsOf ctx pre nd s).get p.1 = some (.file p.2 0o644) := by
  intro p hp
  simp only [fsOf, FS.get, List.append_assoc, alookup_append, fsOfNode_get_tracked nd pre hu p hp]

theorem trackedOf_ws (pre : List Name) (nd : Node κ) : TrackedWs (trackedOf pre nd) := by
  intro p hp
  obtain ⟨names, hn, -⟩ := trackedOf_names nd pre p hp
  exact ⟨_, hn⟩

/-- a workspace tree with duplicate-free names next to a consistent cache is a safe state -/
theorem fsOf_safe (ctx : Ctx κ) (pre : List Name) (nd : Node κ) (s : Store κ) (hu : uniqNode nd)
    (hc : Consistent ctx s) : Safe ctx (trackedOf pre nd) (fsOf ctx pre nd s) := by
  refine ⟨fun p hp => Or.inl ⟨_, fsOf_get_tracked ctx pre nd s hu p hp⟩, ?_⟩
  intro d e he
  rw [fsOf_get_obj] at he
  cases hg : s.get d with
  | none => simp [hg] at he
  | some o =>
    simp [hg] at he
    exact ⟨o.bytes ctx, 0o444, he.symm, hc d o hg⟩

/-! ## inversion and footprint of the whole `LocalCache.Commit` -/

theorem commitArtT_ok_inv {t : TCfg κ} {a : Art} {pre : List Name} {nd : Option (Node κ)} {s : Store κ}
    {res : Node κ × Digest × Store κ} {calls : List (Call κ)}
    (h : commitArtT t a pre nd s = .ok (res, calls)) :
    (∃ es old res1 calls1 n1 mb, nd = some (.dir es) ∧
        commitEntriesT t pre a.noRec es old s 1 = .ok (res1, calls1, n1) ∧
        calls = headCalls ++ calls1 ++ copyIntoCache t.isEmp n1 mb (t.ctx.H mb)) ∨
    (∃ calls1 k, commitFileT t a.skip (.ws pre) nd a.sum s 1 = .ok (res, calls1, k) ∧
        calls = headCalls ++ calls1) := by
  unfold commitArtT at h
  split at h
  · left
    cases nd with
    | none => simp at h
    | some x =>
      cases x with
      | file _ => simp at h
      | link _ => simp at h
      | other => simp at h
      | dir es =>
        simp only at h
        cases hold : oldManifest t.ctx s a.sum with
        | error e => simp [hold] at h
        | ok old =>
          simp only [hold] at h
          cases hT : commitEntriesT t pre a.noRec es old s 1 with
          | error e => simp [hT] at h
          | ok v =>
            obtain ⟨⟨es', cs, s'⟩, calls1, n1⟩ := v
            simp [hT] at h
            obtain ⟨-, rfl⟩ := h
            exact ⟨es, old, _, calls1, n1, (Obj.man .new a.path (sortChildren cs) : Obj κ).bytes t.ctx, rfl, hT,
              by simp [headCalls, Obj.digest]⟩
  · right
    cases hT : commitFileT t a.skip (.ws pre) nd a.sum s 1 with
    | error e => simp [hT] at h
    | ok v =>
      obtain ⟨r, calls1, k⟩ := v
      simp [hT] at h
      obtain ⟨rfl, rfl⟩ := h
      exact ⟨calls1, k, rfl, by simp [headCalls]⟩

theorem commitFileT_foot {t : TCfg κ} {skip : Bool} {q : List Name} {nd : Option (Node κ)}
    {sum : Digest} {s : Store κ} {n : Nat} {res : Node κ × Digest × Store κ}
    {calls : List (Call κ)} {k : Nat}
    (h : commitFileT t skip (.ws q) nd sum s n = .ok (res, calls, k)) :
    n ≤ k ∧ FootOK (paths (trackedOpt q nd)) n k calls := by
  unfold commitFileT at h
  cases hcf : commitFile t.ctx t.strat skip nd sum s with
  | error e => simp [hcf] at h
  | ok r =>
    simp only [hcf] at h
    split at h
    · next x =>
      split at h
      · simp at h; obtain ⟨-, rfl, rfl⟩ := h; exact ⟨Nat.le_refl _, FootOK.nil _ _ _⟩
      · simp at h
        obtain ⟨-, rfl, rfl⟩ := h
        refine ⟨by split <;> omega, ?_⟩
        simpa [paths, trackedOpt, trackedOf] using
          commitFileCalls_foot t.isEmp t.strat t.canRename q n x (t.ctx.H x)
    · simp at h; obtain ⟨-, rfl, rfl⟩ := h; exact ⟨Nat.le_refl _, FootOK.nil _ _ _⟩

theorem headCalls_paths : ∀ c ∈ (headCalls : List (Call κ)), ∀ p ∈ callPaths c,
    p = .cacheRoot ∨ p = .wtmp 0 ∨ p = .ctmp 0 := by
  intro c hc p hp
  simp [headCalls, probeCalls] at hc
  rcases hc with rfl | rfl | rfl | rfl | rfl | rfl <;> simp only [callPaths] at hp <;> grind

/-- paths of the whole traced commit: the cache root and the two probe temp files, then the
footprint of the artifact -/
theorem commitArtT_foot {t : TCfg κ} {a : Art} {pre : List Name} {nd : Option (Node κ)} {s : Store κ}
    {res : Node κ × Digest × Store κ} {calls : List (Call κ)}
    (h : commitArtT t a pre nd s = .ok (res, calls)) :
    ∃ hi, ∀ call ∈ calls, ∀ p ∈ callPaths call,
      (p = .cacheRoot ∨ p = .wtmp 0 ∨ p = .ctmp 0) ∨ InFoot (paths (trackedOpt pre nd)) 1 hi p := by
  rcases commitArtT_ok_inv h with ⟨es, old, res1, calls1, n1, mb, rfl, hT, rfl⟩ | ⟨calls1, k, hT, rfl⟩
  · obtain ⟨hle, hf⟩ := commitEntriesT_foot t es pre a.noRec old s 1 res1 calls1 n1 hT
    refine ⟨n1 + 1, fun call hc p hp => ?_⟩
    simp only [List.mem_append] at hc
    rcases hc with (hc | hc) | hc
    · exact Or.inl (headCalls_paths call hc p hp)
    · exact Or.inr ((hf call hc p hp).mono (fun _ h => h) (Nat.le_refl _) (by omega))
    · exact Or.inr ((copyIntoCache_foot t.isEmp n1 mb _ call hc p hp).mono (by simp) hle (Nat.le_refl _))
  · obtain ⟨hle, hf⟩ := commitFileT_foot hT
    refine ⟨k, fun call hc p hp => ?_⟩
    simp only [List.mem_append] at hc
    rcases hc with hc | hc
    · exact Or.inl (headCalls_paths call hc p hp)
    · exact Or.inr (hf call hc p hp)
end Dud.Sys
