import DudModel.Lemmas.Shuffle
import DudModel.Lemmas.Interleave2
/-!
# `Shuffle` / `ShuffleN` / `All2` ARE `Interleaving` / `InterleavingN` / `Forall2`

The concurrent checkout (`Lemmas/InterleaveCheckout.lean`, `Props/C06par.lean`) cannot import the
vocabulary of the concurrent commit (`Lemmas/Interleave2.lean`): the two import families clash on
`Dud.Sys.Rel`.  It uses copies of the inductive definitions under fresh names (`Lemmas/Shuffle.lean`, no
imports).  This file, which lives in the family of the commit, proves that the copies define the same
relations, so that every statement about `ShuffleN` is a statement about `InterleavingN`, and about the
scheduler view `Sched` (`sched_iff_interleavingN`).
-/
namespace Dud.Sys

theorem shuffle_iff_interleaving {α : Type} {t1 t2 t : List α} :
    Shuffle t1 t2 t ↔ Interleaving t1 t2 t := by
  constructor
  · intro h
    induction h with
    | nil => exact .nil
    | left _ ih => exact .left ih
    | right _ ih => exact .right ih
  · intro h
    induction h with
    | nil => exact .nil
    | left _ ih => exact .left ih
    | right _ ih => exact .right ih

theorem shuffleN_iff_interleavingN {α : Type} {ts : List (List α)} {l : List α} :
    ShuffleN ts l ↔ InterleavingN ts l := by
  constructor
  · intro h
    induction h with
    | nil => exact .nil
    | cons _ hi ih => exact .cons ih (shuffle_iff_interleaving.1 hi)
  · intro h
    induction h with
    | nil => exact .nil
    | cons _ hi ih => exact .cons ih (shuffle_iff_interleaving.2 hi)

/-- the scheduler view: a `ShuffleN` is exactly a run in which, at every step, any worker with calls
left issues its next call -/
theorem shuffleN_iff_sched {α : Type} {ts : List (List α)} {l : List α} :
    ShuffleN ts l ↔ Sched ts l :=
  shuffleN_iff_interleavingN.trans (sched_iff_interleavingN ts l).symm

theorem all2_iff_forall2 {α β : Type} {R : α → β → Prop} {as : List α} {bs : List β} :
    All2 R as bs ↔ Forall2 R as bs := by
  constructor
  · intro h
    induction h with
    | nil => exact .nil
    | cons h _ ih => exact .cons h ih
  · intro h
    induction h with
    | nil => exact .nil
    | cons h _ ih => exact .cons h ih

end Dud.Sys

#print axioms Dud.Sys.shuffleN_iff_interleavingN
#print axioms Dud.Sys.shuffleN_iff_sched
#print axioms Dud.Sys.all2_iff_forall2
