import DudModel.Lemmas.Tree
import DudModel.Lemmas.Checkout
/-!
# Checkout of the entries of a manifest does not depend on the processing order (helpers for C13)

`checkoutChildren f es cs` processes the manifest entries `cs` in list order, each on the node
currently at its name, and writes the result back under that name.  With pairwise distinct names
the entries touch disjoint parts of the listing, so every order gives the same listing *as a finite
map* (`alookup`).  `checkoutNodeS` is `checkoutNode` with an arbitrary processing order in every
directory; its results are equal to those of `checkoutNode` as maps at every level (`MapEq`).
-/
namespace Dud

variable {κ : Type}

/-- outcomes related by `R`: both errors (of any class), or both values, related -/
def ExRel {α β : Type} (R : α → β → Prop) : Except Err α → Except Err β → Prop
  | .error _, .error _ => True
  | .ok a, .ok b => R a b
  | _, _ => False

theorem ExRel.refl {α : Type} {R : α → α → Prop} (h : ∀ a, R a a) (x : Except Err α) :
    ExRel R x x := by
  cases x with
  | error e => trivial
  | ok a => exact h a

theorem ExRel.mono {α β : Type} {R R' : α → β → Prop} (h : ∀ a b, R a b → R' a b)
    {x : Except Err α} {y : Except Err β} (hx : ExRel R x y) : ExRel R' x y := by
  cases x with
  | error e =>
    cases y with
    | error e' => trivial
    | ok b => exact hx
  | ok a =>
    cases y with
    | error e' => exact hx
    | ok b => exact h a b hx

theorem ExRel.ok_left {α β : Type} {R : α → β → Prop} {x : Except Err α} {y : Except Err β}
    (h : ExRel R x y) {a : α} (hx : x = .ok a) : ∃ b, y = .ok b ∧ R a b := by
  subst hx
  cases y with
  | error e => exact h.elim
  | ok b => exact ⟨b, rfl, h⟩

theorem ExRel.ok_right {α β : Type} {R : α → β → Prop} {x : Except Err α} {y : Except Err β}
    (h : ExRel R x y) {b : β} (hy : y = .ok b) : ∃ a, x = .ok a ∧ R a b := by
  subst hy
  cases x with
  | error e => exact h.elim
  | ok a => exact ⟨a, rfl, h⟩

theorem ExRel.error_left {α β : Type} {R : α → β → Prop} {x : Except Err α} {y : Except Err β}
    (h : ExRel R x y) {e : Err} (hx : x = .error e) : ∃ e', y = .error e' := by
  subst hx
  cases y with
  | error e' => exact ⟨e', rfl⟩
  | ok b => exact h.elim

theorem ExRel.error_right {α β : Type} {R : α → β → Prop} {x : Except Err α} {y : Except Err β}
    (h : ExRel R x y) {e : Err} (hy : y = .error e) : ∃ e', x = .error e' := by
  subst hy
  cases x with
  | error e' => exact ⟨e', rfl⟩
  | ok a => exact h.elim

/-- what `checkoutChildren` computes when the manifest names are pairwise distinct: every entry is
processed on the node the *initial* listing has at its name; the final listing has the results
under these names and is unchanged elsewhere; an error is the error of some entry. -/
theorem checkoutChildren_char (f : Option (Node κ) → Child → Except Err (Node κ)) :
    ∀ (cs : List Child) (es : List (Name × Node κ)), (cs.map (·.name)).Nodup →
      (∀ es1, checkoutChildren f es cs = .ok es1 →
        (∀ c ∈ cs, ∃ n, f (alookup es c.name) c = .ok n ∧ alookup es1 c.name = some n) ∧
        (∀ nm, (∀ c ∈ cs, c.name ≠ nm) → alookup es1 nm = alookup es nm)) ∧
      (∀ e, checkoutChildren f es cs = .error e → ∃ c ∈ cs, f (alookup es c.name) c = .error e)
  | [], es, _ => by
    refine ⟨fun es1 h => ?_, fun e h => ?_⟩
    · simp only [checkoutChildren, Except.ok.injEq] at h
      subst h
      exact ⟨fun c hc => (by cases hc), fun _ _ => rfl⟩
    · simp only [checkoutChildren] at h
      cases h
  | c :: cs, es, hnd => by
    simp only [List.map_cons, List.nodup_cons, List.mem_map, not_exists, not_and] at hnd
    obtain ⟨hc, hnd'⟩ := hnd
    cases hf : f (alookup es c.name) c with
    | error e0 =>
      refine ⟨fun es1 h => ?_, fun e h => ?_⟩
      · simp only [checkoutChildren, hf] at h
        cases h
      · simp only [checkoutChildren, hf, Except.error.injEq] at h
        subst h
        exact ⟨c, List.mem_cons_self .., hf⟩
    | ok n =>
      obtain ⟨ih1, ih2⟩ := checkoutChildren_char f cs (setEntry es c.name n) hnd'
      have hlook : ∀ c' ∈ cs, alookup (setEntry es c.name n) c'.name = alookup es c'.name :=
        fun c' hc' => alookup_setEntry_ne es n (fun e => hc c' hc' e.symm)
      refine ⟨fun es1 h => ?_, fun e h => ?_⟩
      · simp only [checkoutChildren, hf] at h
        obtain ⟨h1, h2⟩ := ih1 es1 h
        refine ⟨fun c' hc' => ?_, fun nm hnm => ?_⟩
        · rcases List.mem_cons.1 hc' with rfl | hc'
          · refine ⟨n, hf, ?_⟩
            rw [h2 c'.name (fun k hk => hc k hk), alookup_setEntry_self]
          · obtain ⟨n', hn', hl⟩ := h1 c' hc'
            rw [hlook c' hc'] at hn'
            exact ⟨n', hn', hl⟩
        · rw [h2 nm (fun k hk => hnm k (List.mem_cons_of_mem _ hk)),
            alookup_setEntry_ne es n (hnm c (List.mem_cons_self ..))]
      · simp only [checkoutChildren, hf] at h
        obtain ⟨c', hc', he⟩ := ih2 e h
        rw [hlook c' hc'] at he
        exact ⟨c', List.mem_cons_of_mem _ hc', he⟩

/-- success is decided entry by entry on the initial listing -/
theorem checkoutChildren_ok_iff (f : Option (Node κ) → Child → Except Err (Node κ))
    (cs : List Child) (es : List (Name × Node κ)) (hnd : (cs.map (·.name)).Nodup) :
    (∃ es1, checkoutChildren f es cs = .ok es1) ↔
      ∀ c ∈ cs, ∃ n, f (alookup es c.name) c = .ok n := by
  obtain ⟨h1, h2⟩ := checkoutChildren_char f cs es hnd
  constructor
  · rintro ⟨es1, h⟩ c hc
    obtain ⟨n, hn, _⟩ := (h1 es1 h).1 c hc
    exact ⟨n, hn⟩
  · intro h
    cases hr : checkoutChildren f es cs with
    | ok es1 => exact ⟨es1, rfl⟩
    | error e =>
      obtain ⟨c, hc, he⟩ := h2 e hr
      obtain ⟨n, hn⟩ := h c hc
      rw [hn] at he; cases he

/-- two listings agree as finite maps, up to `R` on the entries that differ -/
def ListingRel (R : Node κ → Node κ → Prop) (es1 es2 : List (Name × Node κ)) : Prop :=
  ∀ nm, alookup es1 nm = alookup es2 nm ∨
    ∃ a b, alookup es1 nm = some a ∧ alookup es2 nm = some b ∧ R a b

/-- **Order independence of `checkoutChildren`**, in the general form needed for the recursion:
two orders of the same manifest entries, processed by two functions whose results on the *initial*
listing are related by `R`. -/
theorem checkoutChildren_perm_rel (R : Node κ → Node κ → Prop)
    {f f' : Option (Node κ) → Child → Except Err (Node κ)} {cs cs' : List Child}
    (hp : cs.Perm cs') (hnd : (cs.map (·.name)).Nodup) (es : List (Name × Node κ))
    (hf : ∀ c ∈ cs, ExRel R (f (alookup es c.name) c) (f' (alookup es c.name) c)) :
    ExRel (ListingRel R) (checkoutChildren f es cs) (checkoutChildren f' es cs') := by
  have hnd' : (cs'.map (·.name)).Nodup := (hp.map _).nodup_iff.1 hnd
  obtain ⟨a1, a2⟩ := checkoutChildren_char f cs es hnd
  obtain ⟨b1, b2⟩ := checkoutChildren_char f' cs' es hnd'
  cases hA : checkoutChildren f es cs with
  | error e =>
    cases hB : checkoutChildren f' es cs' with
    | error e' => trivial
    | ok es2 =>
      obtain ⟨c, hc, he⟩ := a2 e hA
      obtain ⟨n, hn, _⟩ := (b1 es2 hB).1 c (hp.mem_iff.1 hc)
      have := hf c hc
      rw [he, hn] at this
      exact this
  | ok es1 =>
    cases hB : checkoutChildren f' es cs' with
    | error e' =>
      obtain ⟨c, hc, he⟩ := b2 e' hB
      obtain ⟨n, hn, _⟩ := (a1 es1 hA).1 c (hp.mem_iff.2 hc)
      have := hf c (hp.mem_iff.2 hc)
      rw [he, hn] at this
      exact this
    | ok es2 =>
      intro nm
      by_cases hex : ∃ c ∈ cs, c.name = nm
      · obtain ⟨c, hc, rfl⟩ := hex
        obtain ⟨n, hn, hl⟩ := (a1 es1 hA).1 c hc
        obtain ⟨n', hn', hl'⟩ := (b1 es2 hB).1 c (hp.mem_iff.1 hc)
        have := hf c hc
        rw [hn, hn'] at this
        exact Or.inr ⟨n, n', hl, hl', this⟩
      · have h1 : ∀ c ∈ cs, c.name ≠ nm := fun c hc e => hex ⟨c, hc, e⟩
        have h2 : ∀ c ∈ cs', c.name ≠ nm := fun c hc e => hex ⟨c, hp.mem_iff.2 hc, e⟩
        exact Or.inl (((a1 es1 hA).2 nm h1).trans ((b1 es2 hB).2 nm h2).symm)

/-- **Order independence of `checkoutChildren`.**  Same success; the resulting listings are equal
as finite maps. -/
theorem checkoutChildren_perm (f : Option (Node κ) → Child → Except Err (Node κ))
    {cs cs' : List Child} (hp : cs.Perm cs') (hnd : (cs.map (·.name)).Nodup)
    (es : List (Name × Node κ)) :
    ExRel (fun es1 es2 => ∀ nm, alookup es1 nm = alookup es2 nm)
      (checkoutChildren f es cs) (checkoutChildren f es cs') := by
  have h := checkoutChildren_perm_rel (fun a b => a = b) hp hnd es
    (f := f) (f' := f) (fun c _ => ExRel.refl (fun _ => rfl) _)
  refine ExRel.mono (fun es1 es2 hl nm => ?_) h
  rcases hl nm with h | ⟨a, b, ha, hb, rfl⟩
  · exact h
  · rw [ha, hb]

/-! ## every directory in any order -/

/-- equal as finite maps at every level -/
inductive MapEq : Node κ → Node κ → Prop
  | refl (n : Node κ) : MapEq n n
  | dir (es es' : List (Name × Node κ)) :
      (∀ nm, alookup es nm = none ↔ alookup es' nm = none) →
      (∀ nm a b, alookup es nm = some a → alookup es' nm = some b → MapEq a b) →
      MapEq (.dir es) (.dir es')

theorem MapEq.of_listingRel {es es' : List (Name × Node κ)} (h : ListingRel MapEq es es') :
    MapEq (.dir es) (.dir es') := by
  refine MapEq.dir es es' (fun nm => ?_) (fun nm a b ha hb => ?_)
  · rcases h nm with h | ⟨a, b, ha, hb, _⟩
    · rw [h]
    · simp [ha, hb]
  · rcases h nm with h | ⟨a', b', ha', hb', hab⟩
    · rw [ha, hb] at h
      cases h
      exact MapEq.refl _
    · rw [ha] at ha'; rw [hb] at hb'
      cases ha'; cases hb'
      exact hab

theorem alookup_derefList_map (ctx : Ctx κ) (s : Store κ) (nm : Name) :
    ∀ es : List (Name × Node κ),
      alookup (derefList ctx s es) nm = (alookup es nm).map (deref ctx s)
  | [] => by simp [derefList, alookup]
  | (k, v) :: r => by
    by_cases h : k = nm
    · subst h; simp [derefList, alookup]
    · simp [derefList, alookup, h, alookup_derefList_map ctx s nm r]

/-- trees that are equal as maps at every level have logical contents (`deref`: links into the
cache followed) that are equal as maps at every level -/
theorem MapEq.deref (ctx : Ctx κ) (s : Store κ) {n n' : Node κ} (h : MapEq n n') :
    MapEq (Dud.deref ctx s n) (Dud.deref ctx s n') := by
  induction h with
  | refl n => exact MapEq.refl _
  | dir es es' h1 h2 ih =>
    simp only [Dud.deref]
    refine MapEq.dir _ _ (fun nm => ?_) (fun nm a b ha hb => ?_)
    · rw [alookup_derefList_map, alookup_derefList_map]
      simp only [Option.map_eq_none_iff]
      exact h1 nm
    · rw [alookup_derefList_map] at ha hb
      cases ha0 : alookup es nm with
      | none => rw [ha0] at ha; cases ha
      | some a0 =>
        cases hb0 : alookup es' nm with
        | none => rw [hb0] at hb; cases hb
        | some b0 =>
          rw [ha0] at ha; rw [hb0] at hb
          simp only [Option.map_some, Option.some.injEq] at ha hb
          subst ha; subst hb
          exact ih nm a0 b0 ha0 hb0

theorem MapEq.symm {n n' : Node κ} (h : MapEq n n') : MapEq n' n := by
  induction h with
  | refl n => exact MapEq.refl _
  | dir es es' h1 h2 ih =>
    exact MapEq.dir _ _ (fun nm => (h1 nm).symm) (fun nm a b ha hb => ih nm b a hb ha)

/-- `checkoutNode` with the entries of every directory processed in the order `σ` chooses (`σ`
may depend on the nesting level, the directory's record and its manifest) -/
def checkoutNodeS (ctx : Ctx κ) (strat : Strat) (s : Store κ)
    (σ : Nat → Child → List Child → List Child) :
    Nat → Option (Node κ) → Child → Except Err (Node κ)
  | 0, _, _ => .error .other
  | fuel+1, cur, c =>
    if c.isDir then
      if !hasSum c.sum then .error .invalidSum
      else if !s.has c.sum then .error .missingFromCache
      else
        match cur with
        | some (.dir es) =>
          match readManifest ctx s c.sum with
          | .error e => .error e
          | .ok cs =>
            match checkoutChildren (checkoutNodeS ctx strat s σ fuel) es (σ fuel c cs) with
            | .error e => .error e
            | .ok es' => .ok (.dir es')
        | none =>
          match readManifest ctx s c.sum with
          | .error e => .error e
          | .ok cs =>
            match checkoutChildren (checkoutNodeS ctx strat s σ fuel) [] (σ fuel c cs) with
            | .error e => .error e
            | .ok es' => .ok (.dir es')
        | some _ => .error .exists_
    else checkoutFile ctx strat cur c.sum s

/-- wrap a listing outcome into a directory node -/
def dirRes : Except Err (List (Name × Node κ)) → Except Err (Node κ)
  | .error e => .error e
  | .ok es' => .ok (.dir es')

theorem ExRel.dirRes {x y : Except Err (List (Name × Node κ))} (h : ExRel (ListingRel MapEq) x y) :
    ExRel MapEq (Dud.dirRes x) (Dud.dirRes y) := by
  cases x with
  | error e =>
    cases y with
    | error e' => trivial
    | ok b => exact h
  | ok a =>
    cases y with
    | error e' => exact h
    | ok b => exact MapEq.of_listingRel h

/-- **Order independence of `checkoutNode` at every level.**  Whatever order is used in each
directory, the checkout succeeds iff the sequential one does, and the restored trees are equal as
finite maps at every level.  Assumed: manifests list each name once. -/
theorem checkoutNodeS_mapEq (ctx : Ctx κ) (strat : Strat) (s : Store κ)
    (σ : Nat → Child → List Child → List Child) (hσ : ∀ k c cs, (σ k c cs).Perm cs)
    (hm : ManifestsNodup ctx s) :
    ∀ (fuel : Nat) (cur : Option (Node κ)) (c : Child),
      ExRel MapEq (checkoutNodeS ctx strat s σ fuel cur c) (checkoutNode ctx strat s fuel cur c)
  | 0, _, _ => trivial
  | fuel+1, cur, c => by
    have key : ∀ (es : List (Name × Node κ)) (cs : List Child),
        readManifest ctx s c.sum = .ok cs →
        ExRel MapEq
          (Dud.dirRes (checkoutChildren (checkoutNodeS ctx strat s σ fuel) es (σ fuel c cs)))
          (Dud.dirRes (checkoutChildren (checkoutNode ctx strat s fuel) es cs)) := by
      intro es cs hcs
      have hnd : ((σ fuel c cs).map (·.name)).Nodup :=
        ((hσ fuel c cs).map _).nodup_iff.2 (hm _ _ hcs)
      exact ExRel.dirRes (checkoutChildren_perm_rel MapEq (hσ fuel c cs) hnd es
        (fun c' _ => checkoutNodeS_mapEq ctx strat s σ hσ hm fuel _ c'))
    simp only [checkoutNodeS, checkoutNode]
    by_cases hd : c.isDir = true
    · simp only [hd, if_true]
      by_cases h1 : (!hasSum c.sum) = true
      · simp only [h1, if_true]; trivial
      · simp only [h1]
        by_cases h2 : (!s.has c.sum) = true
        · simp only [h2, if_true]; trivial
        · simp only [h2]
          cases cur with
          | none =>
            simp only
            cases hcs : readManifest ctx s c.sum with
            | error e => trivial
            | ok cs =>
              have := key [] cs hcs
              simp only
              cases hA : checkoutChildren (checkoutNodeS ctx strat s σ fuel) [] (σ fuel c cs) <;>
                cases hB : checkoutChildren (checkoutNode ctx strat s fuel) [] cs <;>
                rw [hA, hB] at this <;> exact this
          | some nd =>
            cases nd with
            | dir es =>
              simp only
              cases hcs : readManifest ctx s c.sum with
              | error e => trivial
              | ok cs =>
                have := key es cs hcs
                simp only
                cases hA : checkoutChildren (checkoutNodeS ctx strat s σ fuel) es (σ fuel c cs) <;>
                  cases hB : checkoutChildren (checkoutNode ctx strat s fuel) es cs <;>
                  rw [hA, hB] at this <;> exact this
            | file x => trivial
            | link l => trivial
            | other => trivial
    · simp only [hd]
      exact ExRel.refl MapEq.refl _

/-- decidable sufficient condition for `ManifestsNodup`: every object that reads as a manifest
lists each name once -/
def manifestsNodupB (ctx : Ctx κ) (s : Store κ) : Bool :=
  s.all fun p =>
    match p.2 with
    | .man sch _ cs => decide (((cs.map (ctx.reload sch)).map (·.name)).Nodup)
    | .blob c =>
      match ctx.decBlob c with
      | some cs => decide ((cs.map (·.name)).Nodup)
      | none => true

theorem manifestsNodup_of_check {ctx : Ctx κ} {s : Store κ} (h : manifestsNodupB ctx s = true) :
    ManifestsNodup ctx s := by
  intro d cs hr
  rw [readManifest_eq] at hr
  simp only [manifestsNodupB, List.all_eq_true] at h
  cases hg : s.get d with
  | none => rw [hg] at hr; cases hr
  | some o =>
    rw [hg] at hr
    have hm := h (d, o) (alookup_mem hg)
    cases o with
    | man sch p cs0 =>
      simp only at hr hm
      obtain ⟨rfl, _⟩ := checkedChildren_eq_ok hr
      simpa using hm
    | blob c =>
      simp only at hr hm
      cases hd : ctx.decBlob c with
      | none => rw [hd] at hr; cases hr
      | some cs0 =>
        rw [hd] at hr hm
        obtain ⟨rfl, _⟩ := checkedChildren_eq_ok hr
        simpa using hm

end Dud
