import DudModel.Lemmas.RemoteT
import DudModel.Props.C08
/-!
# World-level helpers for the lift of C11 (`Props/C11world.lean`)

`Props/C11.lean` cannot be imported together with `Props/C08.lean` (both declare
`Dud.mem_insertArt_of_mem`), and its lemma file `Lemmas/Remote.lean` not together with
`Lemmas/Tree.lean`, i.e. not with `Props/C01world.lean`, with which the lift is to be composed.  So
this file builds on `Lemmas/RemoteT.lean` (the same lemmas, proved on top of `Lemmas/Tree.lean`, in
the namespace `Dud.RT`); the two stage-level facts of `Props/C11.lean` needed (`pushAct` / `fetchAct`
post-conditions) are re-derived from them in `Props/C11world.lean`.

* `TravScope` / `CmdScope`: the stages a command acts on;
* `simpleCmd_lift`: an invariant of the actions of a `simpleTrav` command holds at the end, the index
  is unchanged and every stage in scope is done;
* `closed_ext`: a closure that is complete in a store stays the same closure in a larger store;
* `reaches_transfer`, `same_bytes`: closures in two consistent stores;
* `pushAct_inv`, `fetchAct_inv`.

Everything lives in the namespace `Dud.WR`.
-/
namespace Dud.WR

open Dud.RT

variable {κ : Type}

/-! ## scope -/

/-- the stages a traversal with root list `ts` acts on: the roots, and (recursive traversal)
everything upstream of them -/
def TravScope (own : Bytes → List Bytes) (r : Bool) (ts : List Bytes) (sp : Bytes) : Prop :=
  ∃ t, t ∈ ts ∧ (if r = true then Reach own t sp else sp = t)

/-- the stages `dud push/fetch/checkout [--single-stage] [targets]` acts on: the targets (all stages
if none is given) plus, unless `--single-stage` is given together with targets, everything upstream
of them through input ownership -/
def CmdScope (cfg : Cfg κ) (w : World κ) (single : Bool) (targets : List Bytes) (sp : Bytes) : Prop :=
  TravScope (ownIdx cfg w.idx) (targets.isEmpty || !single)
    (if targets.isEmpty then allStages w else targets) sp

theorem TravScope.root {own : Bytes → List Bytes} {r : Bool} {ts : List Bytes} {t : Bytes}
    (h : t ∈ ts) : TravScope own r ts t := by
  refine ⟨t, h, ?_⟩
  split
  · exact .refl _
  · rfl

theorem TravScope.up {own : Bytes → List Bytes} {ts : List Bytes} {sp o : Bytes}
    (h : TravScope own true ts sp) (ho : o ∈ own sp) : TravScope own true ts o := by
  obtain ⟨t, ht, hr⟩ := h
  simp only [if_true] at hr
  exact ⟨t, ht, by simp only [if_true]; exact hr.trans (.step ho (.refl _))⟩

/-! ## commands built on `simpleTrav` -/

/-- **Lifting principle** for `cmdPush` / `cmdFetch`: if `I` holds initially and every action invoked
on a world with the original index keeps it, then after a successful command `I` holds, the index is
the original one, and every stage in scope is done. -/
theorem simpleCmd_lift (cfg : Cfg κ) (act : Bytes → World κ → Except Err (World κ))
    (hframe : ∀ sp w w', act sp w = .ok w' → w'.idx = w.idx ∧ w'.done = sp :: w.done)
    (r : Bool) (ts : List Bytes) (w w' : World κ) (I : World κ → Prop) (h0 : I (fresh w))
    (hstep : ∀ sp u u', u.idx = w.idx → I u → u.done.contains sp = false → act sp u = .ok u' → I u')
    (h : perTarget (fun t u => visit (simpleTrav cfg act) r (u.idx.length + 1) (allStages u) t u) ts
      (fresh w) = .ok w') :
    w'.idx = w.idx ∧ I w' ∧
      ∀ sp, TravScope (ownIdx cfg w.idx) r ts sp → w'.done.contains sp = true := by
  have hT : (simpleTrav cfg act).LawfulOn (ownIdx cfg w.idx) (fun u => u.idx = w.idx) :=
    lawfulOn_of_act cfg w.idx act hframe
  obtain ⟨l', hl⟩ := cmd_logged (simpleTrav cfg act) r (fun u => u.idx.length + 1) allStages ts
    (fresh w) w' h
  have hs := cmd_spec_on _ _ _ hT r (fun u => u.idx.length + 1) allStages ts (fresh w) w' l'
    (show (fresh w).idx = w.idx from rfl) (fun x => by simp [simpleTrav, fresh]) hl
  have hI : I w' := perTarget_preserves (r := r) hT (fun u => u.idx.length + 1) allStages ts
    (Q := fun p => I p.1)
    (fun sp p p' _ hi hq hnd _ hact => by
      obtain ⟨s, hs, rfl⟩ := logged_act_inv hact
      exact hstep sp p.1 s hi hq hnd hs)
    (fresh w, []) (w', l') rfl h0 hl
  refine ⟨hs.1, hI, ?_⟩
  rintro sp ⟨t, ht, hsc⟩
  have hdone : ∀ x, w'.done.contains x = l'.contains x := hs.2.2.2.2.1
  rw [hdone]
  have htl : t ∈ l' := hs.2.2.2.1 t ht
  by_cases hr : r = true
  · rw [if_pos hr] at hsc
    have := reach_mem_log hs.2.1 (hs.2.2.2.2.2 hr) hsc htl
    simpa using this
  · rw [if_neg hr] at hsc
    subst hsc
    simpa using htl

/-! ## closures and larger stores -/

/-- if the closure of `c` in `s` lies inside `s`, a larger store reaches nothing more from `c` -/
theorem closed_ext {ctx : Ctx κ} {s s' : Store κ} (he : Store.ext s s') :
    ∀ (c : Child) (d : Digest), Reaches ctx s' c d →
      (∀ d', Reaches ctx s c d' → s.has d' = true) → Reaches ctx s c d := by
  intro c d h
  induction h with
  | self c => intro _; exact .self c
  | child c cs k d hd hm hk _ ih =>
    intro hcl
    have hhas : s.has c.sum = true := hcl _ (.self c)
    have hm' : readManifest ctx s c.sum = .ok cs := by
      rw [← readManifest_ext ctx he hhas]; exact hm
    exact .child c cs k d hd hm' hk (ih (fun d' hr => hcl d' (.child c cs k d' hd hm' hk hr)))

/-- completeness of a closure is kept by a larger store -/
theorem closed_mono {ctx : Ctx κ} {s s' : Store κ} (he : Store.ext s s') {c : Child}
    (hcl : ∀ d, Reaches ctx s c d → s.has d = true) : ∀ d, Reaches ctx s' c d → s'.has d = true :=
  fun d hr => he.has (hcl d (closed_ext he c d hr hcl))

/-! ## inversions -/

theorem pushAct_inv {cfg : Cfg κ} {sp : Bytes} {w w' : World κ} (h : pushAct cfg sp w = .ok w') :
    ∃ stg ds rem, alookup w.idx sp = some stg ∧
      gatherArts cfg w.store (sortArts stg.outputs) [] = .ok ds ∧
      copyObjs w.store w.remote ds = .ok rem ∧ w' = { w with remote := rem, done := sp :: w.done } := by
  unfold pushAct at h
  split at h
  · cases h
  rename_i stg hs
  split at h
  · cases h
  rename_i ds hg
  split at h
  · cases h
  rename_i rem hc
  simp only [Except.ok.injEq] at h
  exact ⟨stg, ds, rem, World.stage_eq_ok.1 hs, hg, hc, h.symm⟩

theorem fetchAct_inv {cfg : Cfg κ} {sp : Bytes} {w w' : World κ} (h : fetchAct cfg sp w = .ok w') :
    ∃ stg loc, alookup w.idx sp = some stg ∧
      fetchFix cfg.ctx w.remote cfg.fuel w.store
        (((sortArts stg.outputs).filter (fun a => !a.skip)).map Art.child) = .ok loc ∧
      w' = { w with store := loc, done := sp :: w.done } := by
  unfold fetchAct at h
  split at h
  · cases h
  rename_i stg hs
  dsimp only at h
  split at h
  · cases h
  rename_i loc hf
  simp only [Except.ok.injEq] at h
  exact ⟨stg, loc, World.stage_eq_ok.1 hs, hf, h.symm⟩

theorem contains_cons_eq_false {sp x : Bytes} {l : List Bytes} (h : (sp :: l).contains x = true)
    (hx : x ≠ sp) : l.contains x = true := by
  rw [List.contains_cons] at h
  have : (x == sp) = false := by simpa using hx
  simpa [this] using h

/-! ## the same closure in two consistent stores -/

/-- two consistent stores (injective hash) read the same manifest under a digest both hold -/
theorem readManifest_consistent {ctx : Ctx κ} (g : Good ctx) {s s' : Store κ}
    (hc : Consistent ctx s) (hc' : Consistent ctx s') {d : Digest} (h : s.has d = true)
    (h' : s'.has d = true) : readManifest ctx s' d = readManifest ctx s d := by
  obtain ⟨o, ho⟩ := Store.has_eq_true.1 h
  obtain ⟨o', ho'⟩ := Store.has_eq_true.1 h'
  have hb : o'.bytes ctx = o.bytes ctx := g.inj _ _ ((hc' d o' ho').trans (hc d o ho).symm)
  exact readManifest_bytes g ho ho' hb

/-- a closure of `s` is a closure of `s'` when `s'` holds everything it reaches from the entry -/
theorem reaches_transfer {ctx : Ctx κ} (g : Good ctx) {s s' : Store κ} (hc : Consistent ctx s)
    (hc' : Consistent ctx s') : ∀ (c : Child) (d : Digest), Reaches ctx s c d →
      (∀ d', Reaches ctx s' c d' → s'.has d' = true) → Reaches ctx s' c d := by
  intro c d h
  induction h with
  | self c => intro _; exact .self c
  | child c cs k d hd hm hk _ ih =>
    intro hcl
    have hm' : readManifest ctx s' c.sum = .ok cs := by
      rw [readManifest_consistent g hc hc' (readManifest_ok_has hm) (hcl _ (.self c))]; exact hm
    exact .child c cs k d hd hm' hk (ih (fun d' hr => hcl d' (.child c cs k d' hd hm' hk hr)))

/-- objects under the same digest in two consistent stores have the same bytes -/
theorem same_bytes {ctx : Ctx κ} (g : Good ctx) {s s' : Store κ} (hc : Consistent ctx s)
    (hc' : Consistent ctx s') {d : Digest} (h : s.has d = true) (h' : s'.has d = true) :
    ∃ o o', s.get d = some o ∧ s'.get d = some o' ∧ o'.bytes ctx = o.bytes ctx := by
  obtain ⟨o, ho⟩ := Store.has_eq_true.1 h
  obtain ⟨o', ho'⟩ := Store.has_eq_true.1 h'
  exact ⟨o, o', ho, ho', g.inj _ _ ((hc' d o' ho').trans (hc d o ho).symm)⟩

theorem cmdScope_congr (cfg : Cfg κ) {w v : World κ} (h : v.idx = w.idx) (single : Bool)
    (targets : List Bytes) (sp : Bytes) :
    CmdScope cfg v single targets sp ↔ CmdScope cfg w single targets sp := by
  simp only [CmdScope, allStages, h]

end Dud.WR
