import DudModel.Lemmas.FaultWorld
/-!
# `dud commit` writes no workspace path outside the outputs it commits (lemmas for `Props/C04cmd.lean`)

* `commitArtWT_ws`: the workspace paths one `LocalCache.Commit` writes lie below the artifact's path, and a
  `skip-cache` file artifact writes none;
* `WsBelow`, `goTargets_wsBelow`: every workspace path a call of the whole command writes lies below a
  (non-`skip-cache`) output of a stage in scope — by the invariant principle of the traversal
  (`visit_preserves_on`), with the index facts of `CommitInv` (`Props/C01world.lean`);
* `cmdCommit_fault_intact`: hence after the faulted run every regular file outside these outputs is in place
  (`Intact`).
-/
namespace Dud.Sys
open Dud Dud.Retry Dud.WT Dud.WStat
variable {κ : Type}

/-! ## one artifact -/

theorem commitFileT_skip_calls {t : TCfg κ} {w : P} {nd : Option (Node κ)} {sum : Digest} {s : Store κ}
    {n : Nat} {res : Node κ × Digest × Store κ} {calls : List (Call κ)} {k : Nat}
    (h : commitFileT t true w nd sum s n = .ok (res, calls, k)) : calls = [] := by
  unfold commitFileT at h
  cases hcf : commitFile t.ctx t.strat true nd sum s with
  | error e => simp [hcf] at h
  | ok r =>
    simp only [hcf] at h
    split at h
    · simp at h; exact h.2.1
    · simp at h; exact h.2.1

/-- the workspace paths one traced `LocalCache.Commit` writes lie below the artifact's path; a `skip-cache`
file artifact writes none -/
theorem commitArtWT_ws {c : CmdCfg κ} {strat : Strat} {a a' : Art} {w w' : World κ}
    {calls : List (Call κ)} (h : commitArtWT c strat a w = .ok ((a', w'), calls)) :
    ∀ x ∈ calls, ∀ q, P.ws q ∈ callWrites x →
      Path.comps a.path <+: q ∧ ¬ (a.isDir = false ∧ a.skip = true) := by
  unfold commitArtWT at h
  simp only at h
  cases hT : commitArtT (c.tc strat) a (Path.comps a.path) (getPath w.ws (Path.comps a.path)) w.store with
  | error e => rw [hT] at h; cases h
  | ok v =>
    obtain ⟨⟨n, d, s⟩, calls1⟩ := v
    rw [hT] at h
    simp only at h
    cases hset : setPath w.ws (Path.comps a.path) n with
    | none => rw [hset] at h; cases h
    | some ws' =>
      rw [hset] at h
      simp only [Except.ok.injEq, Prod.mk.injEq] at h
      have hcalls : calls = calls1 := h.2.symm
      subst hcalls
      intro x hx q hq
      refine ⟨?_, fun hsk => ?_⟩
      · by_cases hmem : P.ws q ∈ paths (trackedOpt (Path.comps a.path) (getPath w.ws (Path.comps a.path)))
        · exact paths_trackedOpt_prefix hmem
        · exact absurd hq (commitArtT_ws_writes hT hmem x hx)
      · obtain ⟨hd, hs⟩ := hsk
        unfold commitArtT at hT
        simp only [hd, Bool.false_eq_true, if_false, hs] at hT
        cases hF : commitFileT (c.tc strat) true (.ws (Path.comps a.path))
            (getPath w.ws (Path.comps a.path)) a.sum w.store 1 with
        | error e => rw [hF] at hT; cases hT
        | ok v =>
          obtain ⟨r, calls2, k⟩ := v
          rw [hF] at hT
          simp only [Except.ok.injEq, Prod.mk.injEq] at hT
          have := commitFileT_skip_calls hF
          subst this
          rw [← hT.2] at hx
          simp only [List.append_nil] at hx
          exact not_written_by_headCalls q x hx hq

/-- … for a list of artifacts -/
theorem commitArtsT_ws {c : CmdCfg κ} {strat : Strat} : ∀ (as : List Art) (w : World κ)
    (res : List Art × World κ) (segs : List (List (Call κ))),
    commitArtsT c strat as w = .ok (res, segs) →
    ∀ x ∈ segs.flatten, ∀ q, P.ws q ∈ callWrites x →
      ∃ a, a ∈ as ∧ Path.comps a.path <+: q ∧ ¬ (a.isDir = false ∧ a.skip = true)
  | [], w, res, segs, h => by
    simp only [commitArtsT, Except.ok.injEq, Prod.mk.injEq] at h
    obtain ⟨-, rfl⟩ := h
    intro x hx
    simp at hx
  | a :: r, w, res, segs, h => by
    simp only [commitArtsT] at h
    cases h1 : commitArtWT c strat a w with
    | error e => rw [h1] at h; cases h
    | ok v =>
      obtain ⟨⟨a1, w1⟩, calls1⟩ := v
      rw [h1] at h
      simp only at h
      cases h2 : commitArtsT c strat r w1 with
      | error e => rw [h2] at h; cases h
      | ok v =>
        obtain ⟨⟨r', w2⟩, segs2⟩ := v
        rw [h2] at h
        simp only [Except.ok.injEq, Prod.mk.injEq] at h
        obtain ⟨-, rfl⟩ := h
        intro x hx q hq
        simp only [List.flatten_cons, List.mem_append] at hx
        rcases hx with hx | hx
        · obtain ⟨hp, hs⟩ := commitArtWT_ws h1 x hx q hq
          exact ⟨a, List.mem_cons_self, hp, hs⟩
        · obtain ⟨b, hb, hp, hs⟩ := commitArtsT_ws r w1 _ segs2 h2 x hx q hq
          exact ⟨b, List.mem_cons_of_mem _ hb, hp, hs⟩

/-! ## the command -/

/-- every workspace path the call writes lies below a (non-`skip-cache`) output of a stage in scope -/
def WsBelow (Sc : Bytes → Prop) (w0 : World κ) (x : Call κ) : Prop :=
  ∀ q, P.ws q ∈ callWrites x → ∃ sp stg a, Sc sp ∧ alookup w0.idx sp = some stg ∧ a ∈ stg.outputs ∧
    a.skip = false ∧ Path.comps a.path <+: q

/-- the artifacts of one stage whose index entry is the original one -/
theorem commitActT_wsBelow {c : CmdCfg κ} {strat : Strat} {Sc : Bytes → Prop} {w0 : World κ}
    (hok : PipelineOK c.cfg Sc w0) (hfiles : PlainInputsFiles c.cfg Sc w0)
    {sp : Bytes} {stg : Stage} {w w1 : World κ} {segs : List (List (Call κ))} (hsc : Sc sp)
    (hs0 : alookup w0.idx sp = some stg) (hs : alookup w.idx sp = some stg)
    (hsh : SameShape w.idx w0.idx) (h : commitActT c strat sp w = .ok (w1, segs)) :
    ∀ x ∈ segs.flatten, WsBelow Sc w0 x := by
  unfold commitActT at h
  rw [World.stage_eq_ok.2 hs] at h
  simp only at h
  cases h1 : commitArtsT c strat
      (sortArts ((stg.inputs.filter (fun a => (findOwner c.cfg.walkAccumulates w.idx a.path).isNone)).map
        (fun a => { a with skip := true }))) w with
  | error e => rw [h1] at h; cases h
  | ok v =>
    obtain ⟨⟨plain', wa⟩, segs1⟩ := v
    rw [h1] at h
    simp only at h
    cases h2 : commitArtsT c strat (sortArts stg.outputs) wa with
    | error e => rw [h2] at h; cases h
    | ok v =>
      obtain ⟨⟨outs', wb⟩, segs2⟩ := v
      rw [h2] at h
      simp only [Except.ok.injEq, Prod.mk.injEq] at h
      obtain ⟨-, rfl⟩ := h
      intro x hx q hq
      simp only [List.flatten_append, List.mem_append] at hx
      rcases hx with hx | hx
      · -- an input no stage owns: a skip-cache file artifact
        obtain ⟨b, hb, _, hns⟩ := commitArtsT_ws _ w _ segs1 h1 x hx q hq
        exfalso
        have hb' := mem_of_mem_sortArts hb
        obtain ⟨b0, hb0, rfl⟩ := List.mem_map.1 hb'
        obtain ⟨hin, hun⟩ := List.mem_filter.1 hb0
        have hun0 : (findOwner c.cfg.walkAccumulates w0.idx b0.path).isNone = true := by
          rw [← findOwner_isNone_sim _ hsh]; exact hun
        exact hns ⟨hfiles sp stg hsc hs0 b0 hin hun0, rfl⟩
      · obtain ⟨a, ha, hp, hns⟩ := commitArtsT_ws _ wa _ segs2 h2 x hx q hq
        have ha' := mem_of_mem_sortArts ha
        obtain ⟨n, _, hpre⟩ := hok.pre sp stg hsc hs0 a ha'
        refine ⟨sp, stg, a, hsc, hs0, ha', ?_, hp⟩
        cases hsk : a.skip with
        | false => rfl
        | true =>
          exfalso
          refine hns ⟨?_, hsk⟩
          cases hd : a.isDir with
          | false => rfl
          | true => have := (hpre.fresh hd).2; rw [hsk] at this; cases this

/-- invariant of the traced traversal: the logical invariant of `Props/C01world.lean` and the frame of the
calls issued so far -/
def FrameInv (c : CmdCfg κ) (Sc : Bytes → Prop) (w0 : World κ)
    (q : (World κ × List (List (Call κ))) × List Bytes) : Prop :=
  CommitInv c.cfg Sc w0 q.1.1 ∧ ∀ x ∈ q.1.2.flatten, WsBelow Sc w0 x

theorem metaPhase_wsBelow (c : CmdCfg κ) (Sc : Bytes → Prop) (w0 : World κ) (idx : Index) (l : List Bytes) :
    ∀ x ∈ (l.map (stageWriteCalls c idx)).flatten, WsBelow Sc w0 x := by
  intro x hx q hq
  have := metaPhase_metaOnly c idx l x hx _ (callWrites_sub _ _ hq)
  simp [P.isMeta] at this

/-- **the loop over the targets keeps the frame** -/
theorem goTargets_wsBelow {c : CmdCfg κ} {strat : Strat} (g : Good c.cfg.ctx) {w0 : World κ}
    {ts0 : List Bytes}
    (hok : PipelineOK c.cfg (fun sp => ∃ t, t ∈ ts0 ∧ Reach (ownIdx c.cfg w0.idx) t sp) w0)
    (hfiles : PlainInputsFiles c.cfg (fun sp => ∃ t, t ∈ ts0 ∧ Reach (ownIdx c.cfg w0.idx) t sp) w0) :
    ∀ (ts : List Bytes) (p p' : World κ × List (Bool × List (Call κ))), (∀ t, t ∈ ts → t ∈ ts0) →
      SameShape p.1.idx w0.idx →
      CommitInv c.cfg (fun sp => ∃ t, t ∈ ts0 ∧ Reach (ownIdx c.cfg w0.idx) t sp) w0 p.1 →
      (∀ x ∈ flatSegs p.2, WsBelow (fun sp => ∃ t, t ∈ ts0 ∧ Reach (ownIdx c.cfg w0.idx) t sp) w0 x) →
      goTargets c strat ts p = .ok p' →
      ∀ x ∈ flatSegs p'.2, WsBelow (fun sp => ∃ t, t ∈ ts0 ∧ Reach (ownIdx c.cfg w0.idx) t sp) w0 x
  | [], p, p', _, _, _, hw, h => by simp only [goTargets] at h; cases h; exact hw
  | t :: r, p, p', hts, hsh, hinv, hw, h => by
    simp only [goTargets] at h
    split at h
    · cases h
    · cases hv : visit (commitTravT c strat) true (p.1.idx.length + 1) (allStages p.1) t (p.1, []) with
      | error e => rw [hv] at h; cases h
      | ok q =>
        obtain ⟨w', arts⟩ := q
        rw [hv] at h
        simp only at h
        have hT := commitTravT_lawfulOn c strat w0.idx hok.keys
        obtain ⟨l', hl⟩ := visit_ok_logged hv []
        have hstep := visit_preserves_on (r := true) hT
          (Q := FrameInv c (fun sp => ∃ t, t ∈ ts0 ∧ Reach (ownIdx c.cfg w0.idx) t sp) w0)
          (R := fun sp => ∃ t, t ∈ ts0 ∧ Reach (ownIdx c.cfg w0.idx) t sp)
          (fun a o ⟨t', ht', hr⟩ ho => ⟨t', ht', hr.trans (.step ho (.refl _))⟩)
          (fun sp q q' hsc hi hq hnd _ hact => by
            obtain ⟨s, hs, rfl⟩ := logged_act_inv hact
            have hnd' : q.1.1.done.contains sp = false := hnd
            obtain ⟨hci, hfr⟩ := hq
            have hlog := commitTravT_act_ok hs
            refine ⟨commitInv_step c.cfg g strat _ w0 hok sp q.1.1 s.1 hsc hi hci hnd' hlog, ?_⟩
            -- the calls of this action
            simp only [commitTravT] at hs
            cases hA : commitActT c strat sp q.1.1 with
            | error e => rw [hA] at hs; cases hs
            | ok v =>
              obtain ⟨w1, segs⟩ := v
              rw [hA] at hs
              simp only [Except.ok.injEq] at hs
              subst hs
              obtain ⟨stg, hst⟩ : ∃ stg, alookup q.1.1.idx sp = some stg := by
                cases hl : alookup q.1.1.idx sp with
                | some stg => exact ⟨stg, rfl⟩
                | none => simp [commitActT, World.stage, hl] at hA
              have hs0 : alookup w0.idx sp = some stg := by
                rw [← hci.pending_idx sp hnd']; exact hst
              intro x hx
              simp only [List.flatten_append, List.mem_append] at hx
              rcases hx with hx | hx
              · exact hfr x hx
              · exact commitActT_wsBelow hok hfiles hsc hs0 hst hi hA x hx)
          (p.1.idx.length + 1) (allStages p.1) t ((p.1, []), []) ((w', arts), l')
          ⟨t, hts t List.mem_cons_self, .refl _⟩ hsh ⟨hinv, by simp⟩ hl
        obtain ⟨hshape', _⟩ := visit_commitTravT_stable (p := (p.1, [])) hok.keys hsh hv
        refine goTargets_wsBelow g hok hfiles r _ p' (fun t' ht' => hts t' (List.mem_cons_of_mem _ ht'))
          hshape' hstep.1 ?_ h
        intro x hx
        simp only [flatSegs_append, flatSegs_arts, flatSegs_metas, List.mem_append] at hx
        rcases hx with (hx | hx) | hx
        · exact hw x hx
        · exact hstep.2 x hx
        · exact metaPhase_wsBelow c _ w0 w'.idx _ x hx

/-- **After the faulted run every regular file outside the (non-`skip-cache`) outputs in scope is in
place**: no call of `dud commit` writes such a path, and neither do the clean-up and the unlock. -/
theorem cmdCommit_fault_intact {c : CmdCfg κ} {strat : Strat} (g : Good c.cfg.ctx) {emp : κ}
    {targets : List Bytes} {w w' : World κ} {calls : List (Call κ)}
    (hok : PipelineOK c.cfg (InScope c.cfg w targets) w)
    (hfiles : PlainInputsFiles c.cfg (InScope c.cfg w targets) w)
    (hu : uniqNode w.ws) (hc : Consistent c.cfg.ctx w.store)
    (h : cmdCommitGoT c strat targets w = .ok (w', calls)) (k : Nat) :
    Intact (InScope c.cfg w targets) w (runFaultCleanup emp (fsOfWorld c w) calls k) := by
  obtain ⟨segs, hgo, rfl⟩ := cmdCommitGoT_ok_inv h
  have hw := goTargets_wsBelow g (ts0 := if targets.isEmpty then allStages w else targets)
    (w0 := w) hok hfiles _ (fresh w, []) (w', segs) (fun t ht => ht) (SameShape.refl _)
    (CommitInv.init c.cfg _ w hc) (by intro x hx; simp [flatSegs] at hx) hgo
  intro p hp hnb
  obtain ⟨q, hq⟩ := tracked_is_ws hp
  have hnt : p.1.isTemp = false := by rw [hq]; rfl
  have hnl : p.1 ≠ .lock := by rw [hq]; simp
  refine ⟨0o644, ?_⟩
  rw [runFaultCleanup_get_frame emp _ _ k hnt hnl, replay_get_frame emp _ _ _ (fun x hx hmem => ?_),
    fsOfWorld_get c w (by rw [hq]; simp)]
  · exact fsOf_get_tracked c.cfg.ctx [] w.ws w.store hu p hp
  · have hx' := List.mem_of_mem_take hx
    simp only [List.mem_append, List.mem_singleton] at hx'
    rw [hq] at hmem
    rcases hx' with (rfl | hx') | rfl
    · simp [callWrites, callPaths] at hmem
    · obtain ⟨sp, stg, a, hsc, hs, ha, hsk, hpre⟩ := hw x hx' q hmem
      exact hnb sp stg a hsc hs ha hsk q hq hpre
    · simp [callWrites, callPaths] at hmem

end Dud.Sys
