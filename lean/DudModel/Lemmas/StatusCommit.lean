import DudModel.Lemmas.Status
import DudModel.Lemmas.Tree
import DudModel.Lemmas.Checkout
/-!
# Status of a freshly committed tree / of a fresh checkout (helpers for C05)
-/
namespace Dud

variable {κ : Type}

/-- entry-wise: same names in the same order, each committed node up to date w.r.t. the digest of
the original node -/
def Pointwise (ctx : Ctx κ) (s : Store κ) (fuel : Nat) :
    List (Name × Node κ) → List (Name × Node κ) → Prop
  | [], es' => es' = []
  | (nm, n) :: r, es' => ∃ n' r', es' = (nm, n') :: r' ∧
      UpToDate ctx s fuel n.isDir (treeDigest ctx nm n) n' ∧ Pointwise ctx s fuel r r'

theorem mem_childrenOf_name (ctx : Ctx κ) : ∀ (es : List (Name × Node κ)) (k : Child),
    k ∈ childrenOf ctx es → ∃ e ∈ es, e.1 = k.name
  | [], k, h => by simp [childrenOf] at h
  | (nm, n) :: r, k, h => by
    simp only [childrenOf, List.mem_cons] at h
    rcases h with rfl | h
    · exact ⟨(nm, n), by simp, rfl⟩
    · obtain ⟨e, he, hn⟩ := mem_childrenOf_name ctx r k h
      exact ⟨e, by simp [he], hn⟩

theorem findChild_cons_isSome (c : Child) (cs : List Child) (nm : Bytes)
    (h : c.name = nm ∨ (findChild cs nm).isSome = true) : (findChild (c :: cs) nm).isSome = true := by
  simp only [findChild, List.find?_cons]
  by_cases hc : c.name = nm
  · simp [hc]
  · rcases h with h | h
    · exact absurd h hc
    · have hb : (c.name == nm) = false := by simpa using hc
      simp only [hb]; exact h

/-- for a sorted listing the entry-wise statement gives the finite-map statement `UpToDate` wants -/
theorem pointwise_children (ctx : Ctx κ) (s : Store κ) (fuel : Nat) :
    ∀ (es es' : List (Name × Node κ)), sortedList es = true → Pointwise ctx s fuel es es' →
      (∀ k ∈ childrenOf ctx es, ChildOK ctx s fuel es' k) ∧
      (∀ e ∈ es', (findChild (childrenOf ctx es) e.1).isSome = true)
  | [], es', _, hp => by
    simp only [Pointwise] at hp; subst hp
    exact ⟨by simp [childrenOf], by simp⟩
  | (nm, n) :: r, es', hs, hp => by
    simp only [Pointwise] at hp
    obtain ⟨n', r', rfl, hu, hp'⟩ := hp
    obtain ⟨ih1, ih2⟩ := pointwise_children ctx s fuel r r' (sortedList_cons hs).2 hp'
    constructor
    · intro k hk
      simp only [childrenOf, List.mem_cons] at hk
      rcases hk with rfl | hk
      · exact ⟨n', by simp [alookup], hu⟩
      · obtain ⟨e, he, hen⟩ := mem_childrenOf_name ctx r k hk
        have hne : nm ≠ k.name := hen ▸ sortedList_head_ne hs e he
        obtain ⟨nk, hnk, huk⟩ := ih1 k hk
        exact ⟨nk, by rw [alookup_cons_ne _ _ hne]; exact hnk, huk⟩
    · intro e he
      simp only [childrenOf]
      apply findChild_cons_isSome
      rcases List.mem_cons.mp he with rfl | he
      · exact Or.inl rfl
      · exact Or.inr (ih2 e he)

/-! ## fresh checkout -/

theorem mem_setEntry {es : List (Name × Node κ)} {nm : Name} {n : Node κ} {e : Name × Node κ}
    (h : e ∈ setEntry es nm n) : e.1 = nm ∨ e ∈ es := by
  induction es with
  | nil => simp only [setEntry, List.mem_singleton] at h; subst h; exact Or.inl rfl
  | cons x r ih =>
    obtain ⟨k, v⟩ := x
    simp only [setEntry] at h
    split at h
    · rename_i hk
      rcases List.mem_cons.mp h with rfl | h
      · exact Or.inl (by simpa using hk)
      · exact Or.inr (List.mem_cons_of_mem _ h)
    · rcases List.mem_cons.mp h with rfl | h
      · exact Or.inr (List.mem_cons_self ..)
      · rcases ih h with h | h
        · exact Or.inl h
        · exact Or.inr (List.mem_cons_of_mem _ h)

theorem checkoutChildren_names {f : Option (Node κ) → Child → Except Err (Node κ)} :
    ∀ (cs : List Child) (acc es' : List (Name × Node κ)), checkoutChildren f acc cs = .ok es' →
      ∀ e ∈ es', e ∈ acc ∨ ∃ k ∈ cs, k.name = e.1 := by
  intro cs
  induction cs with
  | nil => intro acc es' h e he; simp only [checkoutChildren, Except.ok.injEq] at h; subst h; exact Or.inl he
  | cons c cs ih =>
    intro acc es' h e he
    simp only [checkoutChildren] at h
    split at h; · cases h
    rcases ih _ _ h e he with h1 | ⟨k, hk, hn⟩
    · rcases mem_setEntry h1 with h2 | h2
      · exact Or.inr ⟨c, List.mem_cons_self .., h2.symm⟩
      · exact Or.inl h2
    · exact Or.inr ⟨k, List.mem_cons_of_mem _ hk, hn⟩

theorem checkoutChildren_fresh_upToDate {ctx : Ctx κ} {s : Store κ} {fuel : Nat}
    {f : Option (Node κ) → Child → Except Err (Node κ)}
    (hf : ∀ k n, f none k = .ok n → UpToDate ctx s fuel k.isDir k.sum n) :
    ∀ (cs : List Child) (acc es' : List (Name × Node κ)), (cs.map (·.name)).Nodup →
      (∀ k ∈ cs, alookup acc k.name = none) → checkoutChildren f acc cs = .ok es' →
      ∀ k ∈ cs, ChildOK ctx s fuel es' k := by
  intro cs
  induction cs with
  | nil => intro _ _ _ _ _ k hk; cases hk
  | cons c cs ih =>
    intro acc es' hnd hfresh h k hk
    simp only [List.map_cons, List.nodup_cons, List.mem_map, not_exists, not_and] at hnd
    simp only [checkoutChildren] at h
    rw [hfresh c (List.mem_cons_self ..)] at h
    split at h; · cases h
    rename_i n hn
    have hne : ∀ k ∈ cs, k.name ≠ c.name := fun k hk => hnd.1 k hk
    rcases List.mem_cons.mp hk with rfl | hk
    · refine ⟨n, ?_, hf _ _ hn⟩
      rw [checkoutChildren_untracked cs _ _ k.name h hne, alookup_setEntry_self]
    · refine ih _ _ hnd.2 ?_ h k hk
      intro k' hk'
      rw [alookup_setEntry_ne acc n (fun e => hne k' hk' e.symm)]
      exact hfresh k' (List.mem_cons_of_mem _ hk')

/-- a checkout into an absent place produces an up-to-date node -/
theorem checkoutNode_fresh_upToDate {ctx : Ctx κ} {s : Store κ} {strat : Strat}
    (hnd : ManifestsNodup ctx s) :
    ∀ (fuel : Nat) (c : Child) (r : Node κ), checkoutNode ctx strat s fuel none c = .ok r →
      UpToDate ctx s fuel c.isDir c.sum r := by
  intro fuel
  induction fuel with
  | zero => intro c r h; simp [checkoutNode] at h
  | succ fuel ih =>
    intro c r h
    simp only [checkoutNode] at h
    split at h
    · rename_i hc
      split at h; · cases h
      rename_i hhs
      split at h; · cases h
      rename_i hhas
      split at h; · cases h
      rename_i cs hcs
      split at h; · cases h
      rename_i es' hes
      simp only [Except.ok.injEq] at h; subst h
      have hhs' : hasSum c.sum = true := by simpa using hhs
      have hhas' : s.has c.sum = true := by simpa using hhas
      simp only [UpToDate, hc, if_true]
      refine ⟨es', cs, rfl, ⟨hhs', hhas'⟩, hcs, ?_, ?_⟩
      · exact checkoutChildren_fresh_upToDate ih cs [] es' (hnd _ _ hcs) (fun _ _ => rfl) hes
      · intro e he
        rcases checkoutChildren_names cs [] es' hes e he with h | ⟨k, hk, hn⟩
        · cases h
        · simp only [findChild]
          rw [List.find?_isSome]
          exact ⟨k, hk, by simpa using hn⟩
    · rename_i hc
      have hc' : c.isDir = false := by simpa using hc
      rw [hc', UpToDate_file]
      unfold checkoutFile at h
      simp only at h
      split at h; · cases h
      rename_i hhs
      split at h; · cases h
      split at h; · cases h
      rename_i o ho
      have hhs' : hasSum c.sum = true := by simpa [quick] using hhs
      have hq : (quick s c.sum (none : Option (Node κ))).cm = false := rfl
      simp only [upToDateCopy_none, Bool.false_eq_true, if_false] at h
      refine ⟨hhs', o, ho, ?_⟩
      cases strat with
      | copy =>
        simp only [hq, Bool.false_eq_true, if_false] at h
        split at h
        · simp only [Except.ok.injEq] at h; exact Or.inl h.symm
        · cases h
      | link =>
        simp only [hq, Bool.false_eq_true, if_false, Except.ok.injEq] at h
        exact Or.inr h.symm

end Dud
