import DudModel.Lemmas.RetryArt
import DudModel.Props.C05world
/-!
# `dud commit` from a PARTLY committed world (world level of the retry after a failed `dud commit`)

`w0` is the world before the failed command, `idxF` the index the unfailed command ends with.  A world `wk`
is a *resumption point* (`Resume`) when its index holds, stage by stage, the original record or the final
one; its cache is consistent and extends the original one; below every output in scope its workspace is the
original tree with some files already moved into the cache and linked (`AheadNode`); elsewhere it is the
original workspace.

* `canonStage`: the record a commit of stage `stg` writes, as a function of `w0` and of the recorded
  outputs of the upstream stages;
* `RetryInv`, `retry_step`: the invariant of the commit traversal started in `wk`, and one stage action;
* `commit_from_resume`: **`dud commit` from every resumption point succeeds and records, for every stage
  in scope, `canonStage`**; the cache ends consistent, holds every output tree and has grown by objects of
  these trees only; every output has the logical content it had in `w0`.
-/
namespace Dud.Retry
open Dud Dud.WT Dud.WStat
variable {κ : Type}

/-! ## stores with the same names -/

theorem le_of_has {ctx : Ctx κ} (g : Good ctx) {s s' : Store κ} (hc : Consistent ctx s)
    (hc' : Consistent ctx s') (h : ∀ d, s.has d = true → s'.has d = true) : Store.le ctx s s' := by
  intro d o ho
  have hh := h d (Store.has_of_get ho)
  cases ho' : s'.get d with
  | none => simp [Store.has, ho'] at hh
  | some o' =>
    refine ⟨o', rfl, g.inj _ _ ?_⟩
    have h1 : ctx.H (o'.bytes ctx) = d := hc' d o' ho'
    have h2 : ctx.H (o.bytes ctx) = d := hc d o ho
    exact h1.trans h2.symm

/-! ## the record a commit writes -/

/-- the checksum recorded for an input no stage owns: the digest of the regular file at its path -/
def fileSum (ctx : Ctx κ) (ws0 : Node κ) (b : Art) : Digest :=
  match getPath ws0 (Path.comps b.path) with
  | some (.file c) => ctx.H c
  | _ => b.sum

def setFileSum (ctx : Ctx κ) (ws0 : Node κ) (b : Art) : Art := { b with sum := fileSum ctx ws0 b }

/-- the recorded inputs no stage owns -/
def canonPlain (cfg : Cfg κ) (ws0 : Node κ) (idx : Index) (stg : Stage) : List Art :=
  (sortArts (plainIn cfg idx stg)).map (setFileSum cfg.ctx ws0)

/-- **the record of stage `stg` after a commit**: owned inputs with the checksum the owner records in
`idxF`, un-owned inputs with the digest of their file and `skip-cache`, outputs with the checksum of the
tree found in `ws0`, stage checksum of the definition -/
def canonStage (cfg : Cfg κ) (ws0 : Node κ) (idxF : Index) (stg : Stage) : Stage :=
  newStage cfg stg (sortArts (ownedIn cfg idxF stg ++ canonPlain cfg ws0 idxF stg))
    ((sortArts stg.outputs).map (committedArt cfg.ctx ws0))

/-! ## standing hypotheses -/

/-- the hypotheses of `commit_idem_world` (`Props/C05world.lean`) on the original world, plus: the inputs no
stage owns are regular files -/
structure Std (cfg : Cfg κ) (Sc : Bytes → Prop) (w0 : World κ) : Prop where
  good : Good cfg.ctx
  cons : Consistent cfg.ctx w0.store
  ok : PipelineOK cfg Sc w0
  files : PlainInputsFiles cfg Sc w0
  apart : PlainInputsApartAll cfg Sc w0
  recur : ∀ sp stg, Sc sp → alookup w0.idx sp = some stg → ∀ a, a ∈ stg.outputs → Recursive a
  regular : ∀ sp stg, Sc sp → alookup w0.idx sp = some stg → ∀ b, b ∈ stg.inputs →
    (findOwner cfg.walkAccumulates w0.idx b.path).isNone = true →
    ∃ c, getPath w0.ws (Path.comps b.path) = some (.file c)

/-- `idxF` has the shape of the original index and records, for every stage in scope, the committed
outputs -/
structure OutsF (cfg : Cfg κ) (Sc : Bytes → Prop) (w0 : World κ) (idxF : Index) : Prop where
  shape : SameShape idxF w0.idx
  outs : ∀ sp stg, Sc sp → alookup w0.idx sp = some stg →
    ∃ E, alookup idxF sp = some E ∧ E.outputs = (sortArts stg.outputs).map (committedArt cfg.ctx w0.ws)

/-- **a resumption point** of the commit of `w0` -/
structure Resume (cfg : Cfg κ) (Sc : Bytes → Prop) (w0 : World κ) (idxF : Index) (wk : World κ) : Prop where
  shape : SameShape wk.idx w0.idx
  idx_cases : ∀ sp, alookup wk.idx sp = alookup w0.idx sp ∨
    (Sc sp ∧ alookup wk.idx sp = (alookup w0.idx sp).map (canonStage cfg w0.ws idxF))
  cons : Consistent cfg.ctx wk.store
  outs : ∀ sp stg, Sc sp → alookup w0.idx sp = some stg → ∀ a, a ∈ stg.outputs →
    ∃ t', getPath wk.ws (Path.comps a.path) = some t' ∧
      AheadNode cfg.ctx wk.store (origAt w0.ws a) t' ∧ (a.skip = true → t' = origAt w0.ws a)
  frame : ∀ q, (∀ sp stg, Sc sp → alookup w0.idx sp = some stg → ∀ a, a ∈ stg.outputs →
    Apart (Path.comps a.path) q) → getPath wk.ws q = getPath w0.ws q

/-- the original world is a resumption point of its own commit -/
theorem Resume.self (cfg : Cfg κ) (Sc : Bytes → Prop) (w0 : World κ) (idxF : Index)
    (hc : Consistent cfg.ctx w0.store)
    (hpre : ∀ sp stg, Sc sp → alookup w0.idx sp = some stg → ∀ a, a ∈ stg.outputs →
      ∃ n, getPath w0.ws (Path.comps a.path) = some n) : Resume cfg Sc w0 idxF w0 where
  shape := SameShape.refl _
  idx_cases := fun _ => .inl rfl
  cons := hc
  outs := fun sp stg hsc hs a ha => by
    obtain ⟨n, hn⟩ := hpre sp stg hsc hs a ha
    exact ⟨n, hn, by rw [origAt_of_getPath hn]; exact AheadNode.refl _ _ n,
      fun _ => (origAt_of_getPath hn).symm⟩
  frame := fun _ _ => rfl

/-! ## the owner of an input, in two indexes of the same shape -/

theorem ownerArt_congr (wa : Bool) {E1 E2 : Stage} (h : E1.outputs = E2.outputs) (p : Bytes) :
    ownerArt wa E1 p = ownerArt wa E2 p := by
  simp only [ownerArt, h]

/-- the owning artifact found in two indexes of the same shape is the same when the owner's recorded
outputs are -/
theorem findOwner_of_outputs (wa : Bool) {idx0 idx1 idx2 : Index} (hk : (idx0.map (·.1)).Nodup)
    (h1 : SameShape idx1 idx0) (h2 : SameShape idx2 idx0) {p o : Bytes} {oa : Art}
    (hfo : findOwner wa idx1 p = some (o, oa)) {E1 E2 : Stage} (hl1 : alookup idx1 o = some E1)
    (hl2 : alookup idx2 o = some E2) (ho : E1.outputs = E2.outputs) :
    findOwner wa idx2 p = some (o, oa) := by
  have hk1 : (idx1.map (·.1)).Nodup := by rw [h1.keys]; exact hk
  have hk2 : (idx2.map (·.1)).Nodup := by rw [h2.keys]; exact hk
  have hsim : (findOwner wa idx2 p).map (·.1) = some o := by
    rw [findOwner_sim wa h2 p, ← findOwner_sim wa h1 p, hfo]; rfl
  cases hf2 : findOwner wa idx2 p with
  | none => rw [hf2] at hsim; cases hsim
  | some v =>
    obtain ⟨o2, oa2⟩ := v
    rw [hf2] at hsim
    simp only [Option.map_some, Option.some.injEq] at hsim
    subst hsim
    obtain ⟨s1, e1, a1⟩ := findOwner_some wa idx1 hk1 hfo
    obtain ⟨s2, e2, a2⟩ := findOwner_some wa idx2 hk2 hf2
    rw [hl1] at e1; cases e1
    rw [hl2] at e2; cases e2
    rw [ownerArt_congr wa ho p, a2] at a1
    cases a1
    rfl

/-! ## the inputs no stage owns -/

theorem fileSum_of_file {ctx : Ctx κ} {ws0 : Node κ} {b : Art} {c : κ}
    (h : getPath ws0 (Path.comps b.path) = some (.file c)) : fileSum ctx ws0 b = ctx.H c := by
  simp [fileSum, h]

/-- committing skip-cache file artifacts found as regular files: the digests are recorded, the world is
unchanged -/
theorem commitArts_plainfiles (cfg : Cfg κ) (strat : Strat) (ws0 : Node κ) :
    ∀ (as : List Art) (w : World κ),
      (∀ b, b ∈ as → b.skip = true ∧ b.isDir = false ∧
        ∃ c, getPath w.ws (Path.comps b.path) = some (.file c) ∧
          getPath ws0 (Path.comps b.path) = some (.file c)) →
      commitArts cfg strat as w = .ok (as.map (setFileSum cfg.ctx ws0), w)
  | [], _, _ => rfl
  | b :: r, w, h => by
    obtain ⟨hsk, hd, c, gnd, g0⟩ := h b List.mem_cons_self
    have hw : commitArtW cfg strat b w = .ok (setFileSum cfg.ctx ws0 b, w) := by
      simp only [commitArtW, gnd, commitArt_file_skip cfg.ctx b c hd hsk,
        WT.setPath_getPath_same _ _ _ gnd, setFileSum, fileSum_of_file g0]
    rw [commitArts, hw]
    simp only
    rw [commitArts_plainfiles cfg strat ws0 r w (fun x hx => h x (List.mem_cons_of_mem _ hx))]
    rfl

/-! ## the outputs -/

theorem trackedOf_rec {a : Art} {n : Node κ} (hrec : Recursive a) (hk : n.isDir = a.isDir) :
    trackedOf a n = n := by
  cases n with
  | dir es =>
    have hd : a.isDir = true := by rw [← hk]; rfl
    simp [trackedOf, hrec hd]
  | file _ => rfl
  | link _ => rfl
  | other => rfl

/-- committing the outputs of a stage whose trees are partly committed (`AheadNode`), the recorded
artifacts being the original or the final ones (`f`): the final artifacts are recorded, the cache stays
consistent, grows by objects of these trees only and holds them, every output has its original logical
content, paths apart from the outputs are untouched -/
theorem commitArts_ahead (cfg : Cfg κ) (g : Good cfg.ctx) (strat2 : Strat) (ws0 : Node κ)
    (f : Art → Art) (hf : ∀ a, f a = a ∨ f a = committedArt cfg.ctx ws0 a) :
    ∀ (l : List Art) (u : World κ), ApartArts l → Consistent cfg.ctx u.store →
      (∀ a, a ∈ l → ∃ n t', getPath ws0 (Path.comps a.path) = some n ∧ ArtPre cfg.ctx cfg.fuel a n ∧
        Recursive a ∧ getPath u.ws (Path.comps a.path) = some t' ∧
        AheadNode cfg.ctx u.store n t' ∧ (a.skip = true → t' = n)) →
      ∃ u2, commitArts cfg strat2 (l.map f) u = .ok (l.map (committedArt cfg.ctx ws0), u2) ∧
        Consistent cfg.ctx u2.store ∧ Store.le cfg.ctx u.store u2.store ∧
        u2.idx = u.idx ∧ u2.done = u.done ∧
        (∀ d, u2.store.has d = true → u.store.has d = true ∨
          ∃ a, a ∈ l ∧ a.skip = false ∧ d ∈ allDigests cfg.ctx a.path (origAt ws0 a)) ∧
        (∀ a, a ∈ l → ∃ t'', getPath u2.ws (Path.comps a.path) = some t'' ∧
          deref cfg.ctx u2.store t'' = origAt ws0 a ∧
          (a.skip = false → HoldsNode cfg.ctx u2.store newChoice a.path (origAt ws0 a))) ∧
        (∀ q, (∀ a, a ∈ l → Apart (Path.comps a.path) q) → getPath u2.ws q = getPath u.ws q)
  | [], u, _, hc, _ =>
    ⟨u, rfl, hc, Store.le_refl _ _, rfl, rfl, fun _ hd => .inl hd, by simp, fun _ _ => rfl⟩
  | a :: r, u, hap, hc, hall => by
    have hap' := List.pairwise_cons.1 hap
    obtain ⟨n, t', hn0, hpre, hrec, gt, hah, hskt⟩ := hall a List.mem_cons_self
    obtain ⟨hk, hp, hs, hnm, hfr, _⟩ := hpre
    have horig : origAt ws0 a = n := origAt_of_getPath hn0
    have hfa : (f a).path = a.path ∧ (f a).isDir = a.isDir ∧ (f a).noRec = a.noRec ∧
        (f a).skip = a.skip ∧ ((f a).sum = a.sum ∨ (f a).sum = treeDigest cfg.ctx a.path n) := by
      rcases hf a with h | h <;> rw [h]
      · exact ⟨rfl, rfl, rfl, rfl, .inl rfl⟩
      · refine ⟨rfl, rfl, rfl, rfl, .inr ?_⟩
        simp only [committedArt, horig, trackedOf_rec hrec hk]
    obtain ⟨fp, fd, fnr, fsk, fsum⟩ := hfa
    have hcomm : committedArt cfg.ctx ws0 a = { f a with sum := treeDigest cfg.ctx a.path n } := by
      rcases hf a with h | h <;> rw [h] <;>
        simp only [committedArt, horig, trackedOf_rec hrec hk]
    -- one artifact
    have hone : ∃ t'' s3, commitArt cfg.ctx strat2 (f a) (some t') u.store
          = .ok (t'', treeDigest cfg.ctx a.path n, s3) ∧
        Consistent cfg.ctx s3 ∧ Store.le cfg.ctx u.store s3 ∧
        (∀ d, s3.has d = true → u.store.has d = true ∨
          (a.skip = false ∧ d ∈ allDigests cfg.ctx a.path n)) ∧
        deref cfg.ctx s3 t'' = n ∧ (a.skip = false → HoldsNode cfg.ctx s3 newChoice a.path n) := by
      cases hsk : a.skip with
      | true =>
        have hd : a.isDir = false := by
          cases hd : a.isDir with
          | false => rfl
          | true => have := (hfr hd).2; rw [hsk] at this; cases this
        have ht' : t' = n := hskt hsk
        cases n with
        | file c =>
          refine ⟨.file c, u.store, ?_, hc, Store.le_refl _ _, fun d hd => .inl hd, by simp [deref],
            fun h => by cases h⟩
          rw [ht', commitArt_file_skip cfg.ctx (f a) c (fd.trans hd) (fsk.trans hsk)]
          simp [treeDigest]
        | dir _ => rw [hd] at hk; simp [Node.isDir] at hk
        | link _ => simp [Node.plain] at hp
        | other => simp [Node.plain] at hp
      | false =>
        obtain ⟨t'', s3, hca, hc3, l3, hh3, hk3, hd3⟩ := commitArt_ahead g (f a) n t'
          (by rw [fd]; exact hk) hp hs hnm (by rw [fd, fnr]; exact hrec)
          (fun _ => by rw [fsk]; exact hsk)
          (fun hd => by
            rw [fp]
            rcases fsum with h | h
            · rw [h]; exact .inl (hfr (fd ▸ hd)).1
            · exact .inr h)
          u.store hc hah strat2
        rw [fp] at hca hh3 hk3
        exact ⟨t'', s3, hca, hc3, l3, fun d hd => (hk3 d hd).imp id (fun h => ⟨rfl, h⟩), hd3,
          fun _ => hh3⟩
    obtain ⟨t'', s3, hca, hc3, l3, hkeys3, hd3, hh3⟩ := hone
    obtain ⟨ws', hsp⟩ := WT.writable_of_getPath _ _ _ gt t''
    have hw : commitArtW cfg strat2 (f a) u
        = .ok (committedArt cfg.ctx ws0 a, { u with ws := ws', store := s3 }) := by
      simp only [commitArtW, fp, gt, hca, hsp, hcomm]
    obtain ⟨u2, h2, c2, l2, i2, d2, k2, f2, fr2⟩ := commitArts_ahead cfg g strat2 ws0 f hf r
      { u with ws := ws', store := s3 } hap'.2 hc3
      (fun b hb => by
        obtain ⟨nb, tb, hnb, hpb, hrb, gtb, hab, hsb⟩ := hall b (List.mem_cons_of_mem _ hb)
        refine ⟨nb, tb, hnb, hpb, hrb, ?_, AheadNode.mono l3 nb tb hab, hsb⟩
        show getPath ws' (Path.comps b.path) = some tb
        rw [WT.getPath_setPath_apart (hap'.1 b hb) hsp]
        exact gtb)
    refine ⟨u2, ?_, c2, Store.le_trans l3 l2, i2, d2, ?_, ?_, ?_⟩
    · rw [List.map_cons, commitArts, hw]
      simp only
      rw [h2]
      rfl
    · intro d hd
      rcases k2 d hd with hd | ⟨b, hb, hbs, hbd⟩
      · rcases hkeys3 d hd with hd | ⟨hs', hd⟩
        · exact .inl hd
        · exact .inr ⟨a, List.mem_cons_self, hs', by rw [horig]; exact hd⟩
      · exact .inr ⟨b, List.mem_cons_of_mem _ hb, hbs, hbd⟩
    · intro b hb
      rcases List.mem_cons.1 hb with rfl | hb
      · refine ⟨t'', ?_, ?_, fun hs' => ?_⟩
        · rw [fr2 _ (fun c hc' => (hap'.1 c hc').symm)]
          exact WT.getPath_setPath_self _ _ _ _ hsp
        · rw [horig, ← hd3]
          exact deref_le cfg.ctx l2 t'' (by rw [hd3]; exact hp)
        · rw [horig]
          exact HoldsNode.mono l2 n _ _ (hh3 hs')
      · exact f2 b hb
    · intro q hq
      rw [fr2 q (fun b hb => hq b (List.mem_cons_of_mem _ hb))]
      exact WT.getPath_setPath_apart (hq a List.mem_cons_self) hsp

/-! ## congruence of the input split -/

theorem plainIn_congr {cfg : Cfg κ} {idx1 idx2 : Index} {X : Stage}
    (h : ∀ b, b ∈ X.inputs → (findOwner cfg.walkAccumulates idx1 b.path).isNone =
      (findOwner cfg.walkAccumulates idx2 b.path).isNone) : plainIn cfg idx1 X = plainIn cfg idx2 X := by
  unfold plainIn
  rw [List.filter_congr h]

theorem ownedIn_congr {cfg : Cfg κ} {idx1 idx2 : Index} {X : Stage}
    (h : ∀ b, b ∈ X.inputs → findOwner cfg.walkAccumulates idx1 b.path =
      findOwner cfg.walkAccumulates idx2 b.path) : ownedIn cfg idx1 X = ownedIn cfg idx2 X := by
  unfold ownedIn
  rw [List.filter_congr (fun b hb => by rw [h b hb])]
  refine List.map_congr_left (fun b hb => ?_)
  rw [h b (List.mem_filter.1 hb).1]

theorem plainIn_sim {cfg : Cfg κ} {idx1 idx2 idx0 : Index} (h1 : SameShape idx1 idx0)
    (h2 : SameShape idx2 idx0) (X : Stage) : plainIn cfg idx1 X = plainIn cfg idx2 X :=
  plainIn_congr (fun b _ => by rw [findOwner_isNone_sim _ h1, findOwner_isNone_sim _ h2])

/-! ## the invariant of the commit traversal started in a resumption point -/

structure RetryInv (cfg : Cfg κ) (Sc : Bytes → Prop) (w0 : World κ) (idxF : Index) (wk v : World κ) :
    Prop where
  cons : Consistent cfg.ctx v.store
  le : Store.le cfg.ctx wk.store v.store
  keys : ∀ d, v.store.has d = true → wk.store.has d = true ∨
    ∃ sp stg a, Sc sp ∧ alookup w0.idx sp = some stg ∧ a ∈ stg.outputs ∧ a.skip = false ∧
      d ∈ allDigests cfg.ctx a.path (origAt w0.ws a)
  done_sc : ∀ sp, v.done.contains sp = true → Sc sp
  idx_pending : ∀ sp, v.done.contains sp = false → alookup v.idx sp = alookup wk.idx sp
  idx_done : ∀ sp stg, v.done.contains sp = true → alookup w0.idx sp = some stg →
    alookup v.idx sp = some (canonStage cfg w0.ws idxF stg)
  frame : ∀ q, (∀ sp stg, Sc sp → alookup w0.idx sp = some stg → ∀ a, a ∈ stg.outputs →
    Apart (Path.comps a.path) q) → getPath v.ws q = getPath wk.ws q
  pending : ∀ sp stg, Sc sp → v.done.contains sp = false → alookup w0.idx sp = some stg →
    ∀ a, a ∈ stg.outputs → getPath v.ws (Path.comps a.path) = getPath wk.ws (Path.comps a.path)
  finished : ∀ sp stg, Sc sp → v.done.contains sp = true → alookup w0.idx sp = some stg →
    ∀ a, a ∈ stg.outputs → ∃ t'', getPath v.ws (Path.comps a.path) = some t'' ∧
      deref cfg.ctx v.store t'' = origAt w0.ws a ∧
      (a.skip = false → HoldsNode cfg.ctx v.store newChoice a.path (origAt w0.ws a))

theorem RetryInv.init (cfg : Cfg κ) (Sc : Bytes → Prop) (w0 : World κ) (idxF : Index) (wk : World κ)
    (hc : Consistent cfg.ctx wk.store) : RetryInv cfg Sc w0 idxF wk (fresh wk) where
  cons := hc
  le := Store.le_refl _ _
  keys := fun _ hd => .inl hd
  done_sc := fun sp h => by simp [fresh] at h
  idx_pending := fun _ _ => rfl
  idx_done := fun sp _ h => by simp [fresh] at h
  frame := fun _ _ => rfl
  pending := fun _ _ _ _ _ _ _ => rfl
  finished := fun sp _ _ h => by simp [fresh] at h

theorem canonStage_outputs (cfg : Cfg κ) (ws0 : Node κ) (idxF : Index) (stg : Stage) :
    (canonStage cfg ws0 idxF stg).outputs = (sortArts stg.outputs).map (committedArt cfg.ctx ws0) := rfl

theorem canonStage_inputs (cfg : Cfg κ) (ws0 : Node κ) (idxF : Index) (stg : Stage) :
    (canonStage cfg ws0 idxF stg).inputs =
      sortArts (ownedIn cfg idxF stg ++ canonPlain cfg ws0 idxF stg) := rfl

theorem mem_canonPlain {cfg : Cfg κ} {ws0 : Node κ} {idx : Index} {stg : Stage} {b : Art}
    (h : b ∈ canonPlain cfg ws0 idx stg) :
    ∃ b0, b0 ∈ stg.inputs ∧ (findOwner cfg.walkAccumulates idx b0.path).isNone = true ∧
      b = { b0 with skip := true, sum := fileSum cfg.ctx ws0 b0 } := by
  obtain ⟨b1, hb1, rfl⟩ := List.mem_map.1 h
  obtain ⟨b0, hb0, hun, rfl⟩ := mem_plainIn (mem_of_mem_sortArts hb1)
  exact ⟨b0, hb0, hun, rfl⟩

theorem mem_ownedIn' {cfg : Cfg κ} {idx : Index} {stg : Stage} {b : Art} (h : b ∈ ownedIn cfg idx stg) :
    ∃ b0 o oa, b0 ∈ stg.inputs ∧ findOwner cfg.walkAccumulates idx b0.path = some (o, oa) ∧
      b = { b0 with sum := oa.sum } := by
  obtain ⟨b0, hb0, rfl⟩ := List.mem_map.1 h
  obtain ⟨hin, hown⟩ := List.mem_filter.1 hb0
  cases hfo : findOwner cfg.walkAccumulates idx b0.path with
  | none => rw [hfo] at hown; cases hown
  | some v =>
    obtain ⟨o, oa⟩ := v
    exact ⟨b0, o, oa, hin, hfo, rfl⟩

/-! ## one stage action -/

/-- **One stage action of the commit started in a resumption point**: it succeeds, records `canonStage`,
and keeps the invariant — whether the index held the original record of the stage or already the final
one, and however far the outputs of the stage had been committed. -/
theorem retry_step (cfg : Cfg κ) (strat2 : Strat) (Sc : Bytes → Prop) (w0 : World κ) (idxF : Index)
    (wk : World κ) (hstd : Std cfg Sc w0) (hF : OutsF cfg Sc w0 idxF) (hres : Resume cfg Sc w0 idxF wk)
    (sp : Bytes) (stg : Stage) (v : World κ) (hsc : Sc sp) (hs0 : alookup w0.idx sp = some stg)
    (hi : SameShape v.idx w0.idx) (hinv : RetryInv cfg Sc w0 idxF wk v)
    (hnd : v.done.contains sp = false)
    (hup : ∀ o, o ∈ ownIdx cfg w0.idx sp → v.done.contains o = true) :
    ∃ v1, commitAct cfg strat2 sp v = .ok v1 ∧ RetryInv cfg Sc w0 idxF wk v1 := by
  have g := hstd.good
  have hok := hstd.ok
  have hk := hok.keys
  have hkv : (v.idx.map (·.1)).Nodup := by rw [hi.keys]; exact hk
  -- the owners of the inputs, in the current index and in the final one
  have hfo_eq : ∀ p, p ∈ stg.inputs.map (·.path) →
      findOwner cfg.walkAccumulates v.idx p = findOwner cfg.walkAccumulates idxF p := by
    intro p hp
    cases hfv : findOwner cfg.walkAccumulates v.idx p with
    | none =>
      have h1 := findOwner_isNone_sim cfg.walkAccumulates hi p
      have h2 := findOwner_isNone_sim cfg.walkAccumulates hF.shape p
      rw [hfv] at h1
      have : (findOwner cfg.walkAccumulates idxF p).isNone = true := by rw [h2, ← h1]; rfl
      exact (Option.isNone_iff_eq_none.1 this).symm
    | some val =>
      obtain ⟨o, oa⟩ := val
      have ho : o ∈ ownIdx cfg w0.idx sp :=
        (mem_ownIdx cfg w0.idx sp o).2 ⟨stg, hs0, p, hp, by rw [← findOwner_sim _ hi p, hfv]; rfl⟩
      have hdo := hup o ho
      have hsco := hinv.done_sc o hdo
      obtain ⟨s1, e1, _⟩ := findOwner_some cfg.walkAccumulates v.idx hkv hfv
      obtain ⟨stg_o, e0⟩ : ∃ stg_o, alookup w0.idx o = some stg_o := by
        rcases alookup_sim hi o with ⟨hn', _⟩ | ⟨_, s0, _, a0, _⟩
        · rw [e1] at hn'; cases hn'
        · exact ⟨s0, a0⟩
      have hl1 := hinv.idx_done o stg_o hdo e0
      obtain ⟨E, hE, hEo⟩ := hF.outs o stg_o hsco e0
      exact (findOwner_of_outputs cfg.walkAccumulates hk hi hF.shape hfv hl1 hE
        (by rw [canonStage_outputs, hEo])).symm
  -- the record the index holds
  have hR : alookup v.idx sp = some stg ∨ alookup v.idx sp = some (canonStage cfg w0.ws idxF stg) := by
    rw [hinv.idx_pending sp hnd]
    rcases hres.idx_cases sp with h | ⟨_, h⟩
    · left; rw [h, hs0]
    · right; rw [h, hs0]; rfl
  -- the inputs no stage owns are the regular files of the original workspace
  have hplainfile : ∀ b0, b0 ∈ stg.inputs →
      (findOwner cfg.walkAccumulates w0.idx b0.path).isNone = true →
      ∃ c, getPath v.ws (Path.comps b0.path) = some (.file c) ∧
        getPath w0.ws (Path.comps b0.path) = some (.file c) := by
    intro b0 hb0 hun
    obtain ⟨c, hc0⟩ := hstd.regular sp stg hsc hs0 b0 hb0 hun
    have hapo := hstd.apart sp stg hsc hs0 b0 hb0 hun
    refine ⟨c, ?_, hc0⟩
    rw [hinv.frame _ (fun sp' stg' hsc' hs' a ha => hapo sp' stg' hsc' hs' a ha),
      hres.frame _ (fun sp' stg' hsc' hs' a ha => hapo sp' stg' hsc' hs' a ha)]
    exact hc0
  -- the outputs
  have hap := hok.apart_in sp stg hsc hs0
  have houts : ∀ a, a ∈ sortArts stg.outputs → ∃ n t',
      getPath w0.ws (Path.comps a.path) = some n ∧ ArtPre cfg.ctx cfg.fuel a n ∧ Recursive a ∧
      getPath v.ws (Path.comps a.path) = some t' ∧ AheadNode cfg.ctx v.store n t' ∧
      (a.skip = true → t' = n) := by
    intro a ha
    have ha' := mem_of_mem_sortArts ha
    obtain ⟨n, hn, hp⟩ := hok.pre sp stg hsc hs0 a ha'
    obtain ⟨t', gt, hah, hskt⟩ := hres.outs sp stg hsc hs0 a ha'
    rw [origAt_of_getPath hn] at hah hskt
    exact ⟨n, t', hn, hp, hstd.recur sp stg hsc hs0 a ha',
      by rw [hinv.pending sp stg hsc hnd hs0 a ha']; exact gt, AheadNode.mono hinv.le n t' hah, hskt⟩
  -- the action, in both cases
  obtain ⟨u2, hact, c2, l2, i2, d2, k2, f2, fr2⟩ : ∃ u2 : World κ,
      commitAct cfg strat2 sp v = .ok { u2 with
        idx := setStage u2.idx sp (canonStage cfg w0.ws idxF stg), done := sp :: u2.done } ∧
      Consistent cfg.ctx u2.store ∧ Store.le cfg.ctx v.store u2.store ∧
      u2.idx = v.idx ∧ u2.done = v.done ∧
      (∀ d, u2.store.has d = true → v.store.has d = true ∨
        ∃ a, a ∈ sortArts stg.outputs ∧ a.skip = false ∧
          d ∈ allDigests cfg.ctx a.path (origAt w0.ws a)) ∧
      (∀ a, a ∈ sortArts stg.outputs → ∃ t'', getPath u2.ws (Path.comps a.path) = some t'' ∧
        deref cfg.ctx u2.store t'' = origAt w0.ws a ∧
        (a.skip = false → HoldsNode cfg.ctx u2.store newChoice a.path (origAt w0.ws a))) ∧
      (∀ q, (∀ a, a ∈ sortArts stg.outputs → Apart (Path.comps a.path) q) →
        getPath u2.ws q = getPath v.ws q) := by
    rcases hR with hSv | hSv
    · -- the index holds the original record
      have h1 := commitArts_plainfiles cfg strat2 w0.ws (sortArts (plainIn cfg v.idx stg)) v (by
        intro b hb
        obtain ⟨b0, hb0, hun, rfl⟩ := mem_plainIn (mem_of_mem_sortArts hb)
        have hun0 : (findOwner cfg.walkAccumulates w0.idx b0.path).isNone = true := by
          rw [← findOwner_isNone_sim _ hi]; exact hun
        obtain ⟨c, gv, g0⟩ := hplainfile b0 hb0 hun0
        exact ⟨rfl, hstd.files sp stg hsc hs0 b0 hb0 hun0, c, gv, g0⟩)
      obtain ⟨u2, h2, c2, l2, i2, d2, k2, f2, fr2⟩ := commitArts_ahead cfg g strat2 w0.ws id
        (fun a => .inl rfl) (sortArts stg.outputs) v hap.sortArts hinv.cons houts
      rw [List.map_id] at h2
      have hact := commitAct_of_parts hSv h1 h2
      have hnew : newStage cfg stg (sortArts (ownedIn cfg v.idx stg ++
          (sortArts (plainIn cfg v.idx stg)).map (setFileSum cfg.ctx w0.ws)))
          ((sortArts stg.outputs).map (committedArt cfg.ctx w0.ws)) = canonStage cfg w0.ws idxF stg := by
        unfold canonStage canonPlain
        rw [ownedIn_congr (fun b hb => hfo_eq _ (List.mem_map.2 ⟨b, hb, rfl⟩)),
          plainIn_sim hi hF.shape stg]
      rw [hnew] at hact
      exact ⟨u2, hact, c2, l2, i2, d2, k2, f2, fr2⟩
    · -- the index already holds the final record
      generalize hC : canonStage cfg w0.ws idxF stg = C at hSv ⊢
      have hCout : C.outputs = (sortArts stg.outputs).map (committedArt cfg.ctx w0.ws) := by
        rw [← hC]; rfl
      have hCinp : C.inputs = sortArts (ownedIn cfg idxF stg ++ canonPlain cfg w0.ws idxF stg) := by
        rw [← hC]; rfl
      have hCsum : C.sum = C.defSum cfg := by rw [← hC]; exact newStage_sum _ _ _ _
      have hsortC : sortArts C.outputs = C.outputs := by
        rw [hCout]
        exact sortArts_of_sorted ((sortArts_sorted _).map _ (fun _ => rfl))
      have hCin : ∀ b', b' ∈ C.inputs →
          b' ∈ ownedIn cfg idxF stg ∨ b' ∈ canonPlain cfg w0.ws idxF stg := fun b' hb' => by
        rw [hCinp] at hb'
        exact List.mem_append.1 (mem_of_mem_sortArts hb')
      have hCpath : ∀ b', b' ∈ C.inputs → b'.path ∈ stg.inputs.map (·.path) := by
        intro b' hb'
        rcases hCin b' hb' with h | h
        · obtain ⟨b0, o, oa, hb0, _, rfl⟩ := mem_ownedIn' h
          exact List.mem_map.2 ⟨b0, hb0, rfl⟩
        · obtain ⟨b0, hb0, _, rfl⟩ := mem_canonPlain h
          exact List.mem_map.2 ⟨b0, hb0, rfl⟩
      have hnot : ∀ b', b' ∈ C.inputs → b' ∈ ownedIn cfg idxF stg →
          (findOwner cfg.walkAccumulates v.idx b'.path).isNone = true → False := by
        intro b' hb' h hun
        have := mem_ownedIn h
        rw [← hfo_eq _ (hCpath b' hb')] at this
        cases hf : findOwner cfg.walkAccumulates v.idx b'.path with
        | none => rw [hf] at this; cases this
        | some x => rw [hf] at hun; cases hun
      have hplain_eq : plainIn cfg v.idx C =
          C.inputs.filter (fun a => (findOwner cfg.walkAccumulates v.idx a.path).isNone) :=
        plainIn_eq (fun b' hb' hun => by
          rcases hCin b' hb' with h | h
          · exact (hnot b' hb' h hun).elim
          · obtain ⟨b0, _, _, rfl⟩ := mem_canonPlain h
            rfl)
      have h1 := commitArts_inputOK cfg strat2 (sortArts (plainIn cfg v.idx C)) v (by
        intro b hb
        have hb' := mem_of_mem_sortArts hb
        rw [hplain_eq] at hb'
        obtain ⟨hbin, hun⟩ := List.mem_filter.1 hb'
        rcases hCin b hbin with h | h
        · exact (hnot b hbin h hun).elim
        · obtain ⟨b0, hb0, hun0, rfl⟩ := mem_canonPlain h
          have hun0' : (findOwner cfg.walkAccumulates w0.idx b0.path).isNone = true := by
            rw [← findOwner_isNone_sim _ hF.shape]; exact hun0
          obtain ⟨c, gv, g0⟩ := hplainfile b0 hb0 hun0'
          exact ⟨rfl, hstd.files sp stg hsc hs0 b0 hb0 hun0', .file c, gv,
            .inl ⟨c, rfl, fileSum_of_file g0⟩⟩)
      obtain ⟨u2, h2, c2, l2, i2, d2, k2, f2, fr2⟩ := commitArts_ahead cfg g strat2 w0.ws
        (committedArt cfg.ctx w0.ws) (fun a => .inr rfl) (sortArts stg.outputs) v hap.sortArts
        hinv.cons houts
      have hact := commitAct_of_parts hSv h1 (by rw [hsortC, hCout]; exact h2)
      have hsorted : Sorted C.inputs := by rw [hCinp]; exact sortArts_sorted _
      have hnew : newStage cfg C
          (sortArts (ownedIn cfg v.idx C ++ sortArts (plainIn cfg v.idx C)))
          ((sortArts stg.outputs).map (committedArt cfg.ctx w0.ws)) = C := by
        rw [ownedIn_eq (fun b' hb' o oa hfo => by
          rcases hCin b' hb' with h | h
          · obtain ⟨b0, o', oa', hb0, hfo', rfl⟩ := mem_ownedIn' h
            have : findOwner cfg.walkAccumulates v.idx b0.path = some (o', oa') := by
              rw [hfo_eq _ (List.mem_map.2 ⟨b0, hb0, rfl⟩)]; exact hfo'
            have hfo2 : findOwner cfg.walkAccumulates v.idx b0.path = some (o, oa) := hfo
            rw [this] at hfo2
            cases hfo2
            rfl
          · obtain ⟨b0, hb0, hun0, rfl⟩ := mem_canonPlain h
            have hfo2 : findOwner cfg.walkAccumulates v.idx b0.path = some (o, oa) := hfo
            rw [hfo_eq _ (List.mem_map.2 ⟨b0, hb0, rfl⟩)] at hfo2
            rw [hfo2] at hun0
            cases hun0), hplain_eq]
        have hf : C.inputs.filter (fun a => (findOwner cfg.walkAccumulates v.idx a.path).isNone) =
            C.inputs.filter (fun a => !(findOwner cfg.walkAccumulates v.idx a.path).isSome) :=
          List.filter_congr (fun a _ => by cases findOwner cfg.walkAccumulates v.idx a.path <;> rfl)
        rw [hf, sortArts_split hsorted, ← hCout, newStage_same hCsum]
      rw [hnew] at hact
      exact ⟨u2, hact, c2, l2, i2, d2, k2, f2, fr2⟩
  -- the invariant
  have hS2 : ∃ s0, alookup u2.idx sp = some s0 := by
    rw [i2]
    rcases hR with h | h <;> exact ⟨_, h⟩
  obtain ⟨s0, hs2⟩ := hS2
  have hdone : ∀ x, (sp :: u2.done).contains x = (x == sp || v.done.contains x) := by
    intro x; rw [List.contains_cons, d2]
  refine ⟨_, hact, c2, Store.le_trans hinv.le l2, ?_, ?_, ?_, ?_, ?_, ?_, ?_⟩
  · intro d hd
    rcases k2 d hd with hd | ⟨a, ha, hsk, hda⟩
    · exact hinv.keys d hd
    · exact .inr ⟨sp, stg, a, hsc, hs0, mem_of_mem_sortArts ha, hsk, hda⟩
  · intro x hx
    have hx' : (sp :: u2.done).contains x = true := hx
    rw [hdone] at hx'
    by_cases hxs : x = sp
    · subst hxs; exact hsc
    · have : (x == sp) = false := by simpa using hxs
      rw [this, Bool.false_or] at hx'
      exact hinv.done_sc x hx'
  · intro x hx
    have hx' : (sp :: u2.done).contains x = false := hx
    rw [hdone, Bool.or_eq_false_iff] at hx'
    have hne : x ≠ sp := by simpa using hx'.1
    show alookup (setStage u2.idx sp _) x = _
    rw [WT.alookup_setStage_ne _ _ hne, i2]
    exact hinv.idx_pending x hx'.2
  · intro x stgx hx hsx
    have hx' : (sp :: u2.done).contains x = true := hx
    rw [hdone] at hx'
    show alookup (setStage u2.idx sp _) x = _
    by_cases hxs : x = sp
    · subst hxs
      rw [hs0] at hsx
      cases hsx
      exact WT.alookup_setStage_self _ _ hs2
    · have : (x == sp) = false := by simpa using hxs
      rw [this, Bool.false_or] at hx'
      rw [WT.alookup_setStage_ne _ _ hxs, i2]
      exact hinv.idx_done x stgx hx' hsx
  · intro q hq
    show getPath u2.ws q = _
    rw [fr2 q (fun a ha => hq sp stg hsc hs0 a (mem_of_mem_sortArts ha))]
    exact hinv.frame q hq
  · intro x stgx hscx hx hsx a ha
    have hx' : (sp :: u2.done).contains x = false := hx
    rw [hdone, Bool.or_eq_false_iff] at hx'
    have hne : x ≠ sp := by simpa using hx'.1
    show getPath u2.ws _ = _
    rw [fr2 _ (fun b hb => hok.apart_across sp x stg stgx hsc hscx (Ne.symm hne) hs0 hsx b
      (mem_of_mem_sortArts hb) a ha)]
    exact hinv.pending x stgx hscx hx'.2 hsx a ha
  · intro x stgx hscx hx hsx a ha
    have hx' : (sp :: u2.done).contains x = true := hx
    rw [hdone] at hx'
    by_cases hxs : x = sp
    · subst hxs
      rw [hs0] at hsx
      cases hsx
      exact f2 a (mem_sortArts_of_mem hap.paths_ne ha)
    · have : (x == sp) = false := by simpa using hxs
      rw [this, Bool.false_or] at hx'
      obtain ⟨t'', gt, hd, hh⟩ := hinv.finished x stgx hscx hx' hsx a ha
      obtain ⟨n, hn, hp⟩ := hok.pre x stgx hscx hsx a ha
      refine ⟨t'', ?_, ?_, fun hs' => HoldsNode.mono l2 _ _ _ (hh hs')⟩
      · show getPath u2.ws _ = _
        rw [fr2 _ (fun b hb => hok.apart_across sp x stg stgx hsc hscx (Ne.symm hxs) hs0 hsx b
          (mem_of_mem_sortArts hb) a ha)]
        exact gt
      · show deref cfg.ctx u2.store t'' = _
        rw [← hd]
        refine deref_le cfg.ctx l2 t'' ?_
        rw [hd, origAt_of_getPath hn]
        exact hp.plain

/-! ## the command -/

/-- **`dud commit` from a resumption point.**  If `dud commit [targets]` succeeds in `w0` (standing
hypotheses `Std`), then from EVERY resumption point `wk` of that commit — index entries original or final,
outputs partly committed — `dud commit [targets]` (either strategy) succeeds as well; every stage in scope is
done and recorded as `canonStage`, and the invariant `RetryInv` holds of the final world. -/
theorem commit_from_resume (cfg : Cfg κ) (strat strat2 : Strat) (targets : List Bytes)
    (w0 w' : World κ) (idxF : Index) (wk : World κ)
    (hstd : Std cfg (InScope cfg w0 targets) w0)
    (h : cmdCommit cfg strat targets w0 = .ok w')
    (hF : OutsF cfg (InScope cfg w0 targets) w0 idxF)
    (hres : Resume cfg (InScope cfg w0 targets) w0 idxF wk) :
    ∃ w2, cmdCommit cfg strat2 targets wk = .ok w2 ∧ SameShape w2.idx w0.idx ∧
      RetryInv cfg (InScope cfg w0 targets) w0 idxF wk w2 ∧
      ∀ sp, InScope cfg w0 targets sp → w2.done.contains sp = true := by
  have g := hstd.good
  have hok := hstd.ok
  obtain ⟨hci0, hsh, l', hnd, hiff, hdone, htop, hts, ⟨t0, ht0⟩⟩ :=
    cmdCommit_inv cfg g strat targets w0 w' hstd.cons hok h
  have hall : ∀ sp, InScope cfg w0 targets sp → w'.done.contains sp = true := by
    intro sp hsp
    rw [hdone]
    simpa using (hiff sp).2 hsp
  have hstage0 : ∀ sp, InScope cfg w0 targets sp → ∃ stg, alookup w0.idx sp = some stg := by
    intro sp hsp
    obtain ⟨stg, _, e0, _⟩ := hci0.finished sp hsp (hall sp hsp)
    exact ⟨stg, e0⟩
  have hlook : ∀ (u : World κ) sp, SameShape u.idx w0.idx → InScope cfg w0 targets sp →
      ∃ S, alookup u.idx sp = some S := by
    intro u sp hi hsp
    obtain ⟨stg, e0⟩ := hstage0 sp hsp
    rcases alookup_sim hi sp with ⟨_, h2⟩ | ⟨s, _, h1, _, _⟩
    · rw [e0] at h2; cases h2
    · exact ⟨s, h1⟩
  have hT := commitTrav_lawfulOn cfg strat2 w0.idx hok.keys
  have hts' : (if targets.isEmpty then allStages wk else targets) =
      (if targets.isEmpty then allStages w0 else targets) := by
    have : allStages wk = allStages w0 := by
      simp only [allStages]
      exact hres.shape.keys
    rw [this]
  obtain ⟨w2, hrun, hi', hq'⟩ := WT.perTarget_progress (T := commitTrav cfg strat2)
    (Q := RetryInv cfg (InScope cfg w0 targets) w0 idxF wk) (S := (· ∈ l')) (rank := l'.idxOf) hT
    (fun x hx o ho => ⟨(htop x hx o ho).mem_left, WT.idxOf_lt_of_before hnd (htop x hx o ho)⟩)
    (fun st sp hi hsp => by
      obtain ⟨S, hS⟩ := hlook st sp hi ((hiff sp).1 hsp)
      show ∃ os, ownersOf cfg st sp = .ok os
      simp only [ownersOf, World.stage, hS]
      exact ⟨_, rfl⟩)
    (fun st sp hi hq hsp hndone hup => by
      obtain ⟨stg, e0⟩ := hstage0 sp ((hiff sp).1 hsp)
      exact retry_step cfg strat2 _ w0 idxF wk hstd hF hres sp stg st ((hiff sp).1 hsp) e0 hi hq
        hndone hup)
    (fun u => l'.length + u.idx.length + 1) allStages
    (fun u hi x hx => by
      obtain ⟨S, hl⟩ := hlook u x hi ((hiff x).1 hx)
      refine ⟨?_, WT.mem_keys_of_alookup hl, by rw [hl]; rfl⟩
      have := List.idxOf_le_length (l := l') (a := x)
      omega)
    (if targets.isEmpty then allStages wk else targets) (fresh wk)
    (fun t ht => hts t (hts' ▸ ht)) hres.shape
    (RetryInv.init cfg _ w0 idxF wk hres.cons)
  have hcmd : cmdCommit cfg strat2 targets wk = .ok w2 := by
    have hne : (if targets.isEmpty then allStages wk else targets).isEmpty = false := by
      cases hl : (if targets.isEmpty then allStages wk else targets) with
      | nil =>
        rw [hts'] at hl
        simp only [cmdCommit, hl, List.isEmpty_nil, if_true] at h
        cases h
      | cons _ _ => rfl
    simp only [cmdCommit, hne, Bool.false_eq_true, if_false]
    rw [← hrun]
    refine WT.perTarget_congr (fun t u => ?_) _ _
    refine visit_fuel_irrelevant _ true _ _ (allStages u) t u ?_ ?_
    · simp [allStages]
    · simp only [allStages, List.length_map]; omega
  refine ⟨w2, hcmd, hi', hq', ?_⟩
  have hkeysk : (wk.idx.map (·.1)).Nodup := by rw [hres.shape.keys]; exact hok.keys
  obtain ⟨l'', _, _, hnd'', _, hts'', hdone'', htop''⟩ :=
    cmdCommit_spec cfg strat2 targets wk w2 hkeysk hcmd
  intro sp hsp
  obtain ⟨t, ht, hr⟩ := hsp
  have hr' : Reach (ownIdx cfg wk.idx) t sp :=
    reach_congr_own (fun s x hx => (ownIdx_sim cfg hres.shape s x).2 hx) hr
  have := reach_mem_log hnd'' htop'' hr' (hts'' t (hts' ▸ ht))
  rw [hdone'']
  simpa using this

/-- two indexes with the same keys (pairwise distinct) and the same entries are equal -/
theorem idx_ext : ∀ (l1 l2 : Index), l1.map (·.1) = l2.map (·.1) → (l1.map (·.1)).Nodup →
    (∀ k, alookup l1 k = alookup l2 k) → l1 = l2
  | [], [], _, _, _ => rfl
  | [], _ :: _, h, _, _ => by simp at h
  | _ :: _, [], h, _, _ => by simp at h
  | (k1, v1) :: r1, (k2, v2) :: r2, hkeys, hnd, hall => by
    simp only [List.map_cons, List.cons.injEq] at hkeys
    obtain ⟨hk, hr⟩ := hkeys
    subst hk
    simp only [List.map_cons, List.nodup_cons] at hnd
    have hv : v1 = v2 := by
      have := hall k1
      simpa [alookup] using this
    subst hv
    have ht : r1 = r2 := idx_ext r1 r2 hr hnd.2 (fun k => by
      by_cases hkk : k1 = k
      · subst hkk
        have h1 : alookup r1 k1 = none := by
          cases hl : alookup r1 k1 with
          | none => rfl
          | some s => exact absurd (WT.mem_keys_of_alookup hl) hnd.1
        have h2 : alookup r2 k1 = none := by
          cases hl : alookup r2 k1 with
          | none => rfl
          | some s => exact absurd (hr ▸ WT.mem_keys_of_alookup hl) hnd.1
        rw [h1, h2]
      · have := hall k
        simpa [alookup, hkk] using this)
    rw [ht]

/-- the final index of a successful commit is a fixed point of the outputs -/
theorem outsF_of_commit (cfg : Cfg κ) (strat : Strat) (targets : List Bytes) (w0 w' : World κ)
    (hstd : Std cfg (InScope cfg w0 targets) w0) (h : cmdCommit cfg strat targets w0 = .ok w') :
    OutsF cfg (InScope cfg w0 targets) w0 w'.idx := by
  obtain ⟨hci0, hsh, l', hnd, hiff, hdone, _⟩ :=
    cmdCommit_inv cfg hstd.good strat targets w0 w' hstd.cons hstd.ok h
  refine ⟨hsh, fun sp stg hsc hs => ?_⟩
  have hd : w'.done.contains sp = true := by
    rw [hdone]; simpa using (hiff sp).2 hsc
  obtain ⟨stg0, stg', e0, e1, e2, _⟩ := hci0.finished sp hsc hd
  rw [hs] at e0
  cases e0
  exact ⟨stg', e1, e2⟩

/-- **What a successful `dud commit` leaves**, in the terms of this file (the instance `wk := w0` of
`commit_from_resume`): every stage in scope is recorded as `canonStage`, the cache is consistent, extends the
original one by objects of the output trees only and holds every output tree that is not `skip-cache`; paths
apart from the outputs are untouched. -/
theorem commit_canon (cfg : Cfg κ) (strat : Strat) (targets : List Bytes) (w0 w' : World κ)
    (hstd : Std cfg (InScope cfg w0 targets) w0) (h : cmdCommit cfg strat targets w0 = .ok w') :
    RetryInv cfg (InScope cfg w0 targets) w0 w'.idx w0 w' ∧
      ∀ sp, InScope cfg w0 targets sp → w'.done.contains sp = true := by
  have hF := outsF_of_commit cfg strat targets w0 w' hstd h
  obtain ⟨w2, hcmd, _, hq, hall⟩ := commit_from_resume cfg strat strat targets w0 w' w'.idx w0 hstd h hF
    (Resume.self cfg _ w0 w'.idx hstd.cons (fun sp stg hsc hs a ha => by
      obtain ⟨n, hn, _⟩ := hstd.ok.pre sp stg hsc hs a ha
      exact ⟨n, hn⟩))
  rw [h] at hcmd
  cases hcmd
  exact ⟨hq, hall⟩

/-- **`dud commit` from a resumption point ends in the state of the commit that never failed.**
`wk` is a resumption point of the commit `w0 ↦ w'` whose cache extends the original one and lies inside the
final one.  Then `dud commit [targets]` in `wk` (either strategy) succeeds in a world `w2` with
* the SAME INDEX (`w2.idx = w'.idx`: every stage, input and output checksum),
* the same cache as a map (`Store.le` both ways: the same digests, bound to objects with the same bytes),
  consistent,
* the same logical content (`deref`) at every output in scope — that of the original workspace —, and the
  same node at every path apart from the outputs. -/
theorem commit_retry_world (cfg : Cfg κ) (strat strat2 : Strat) (targets : List Bytes)
    (w0 w' wk : World κ) (hstd : Std cfg (InScope cfg w0 targets) w0)
    (h : cmdCommit cfg strat targets w0 = .ok w')
    (hres : Resume cfg (InScope cfg w0 targets) w0 w'.idx wk)
    (hle0 : Store.le cfg.ctx w0.store wk.store)
    (hsub : ∀ d, wk.store.has d = true → w'.store.has d = true) :
    ∃ w2, cmdCommit cfg strat2 targets wk = .ok w2 ∧ w2.idx = w'.idx ∧
      Consistent cfg.ctx w2.store ∧ Store.le cfg.ctx w'.store w2.store ∧
      Store.le cfg.ctx w2.store w'.store ∧
      (∀ sp stg, InScope cfg w0 targets sp → alookup w0.idx sp = some stg →
        ∀ a, a ∈ stg.outputs → ∃ t1 t2, getPath w'.ws (Path.comps a.path) = some t1 ∧
          getPath w2.ws (Path.comps a.path) = some t2 ∧
          deref cfg.ctx w'.store t1 = origAt w0.ws a ∧ deref cfg.ctx w2.store t2 = origAt w0.ws a) ∧
      (∀ q, (∀ sp stg, InScope cfg w0 targets sp → alookup w0.idx sp = some stg →
          ∀ a, a ∈ stg.outputs → Apart (Path.comps a.path) q) →
        getPath w2.ws q = getPath w'.ws q) := by
  have g := hstd.good
  have hF := outsF_of_commit cfg strat targets w0 w' hstd h
  obtain ⟨hq1, hall1⟩ := commit_canon cfg strat targets w0 w' hstd h
  obtain ⟨w2, hcmd, hsh2, hq2, hall2⟩ :=
    commit_from_resume cfg strat strat2 targets w0 w' w'.idx wk hstd h hF hres
  obtain ⟨hci0, hsh, l', hnd, hiff, hdone, _⟩ :=
    cmdCommit_inv cfg g strat targets w0 w' hstd.cons hstd.ok h
  -- the two stores bind the same digests
  have hsub2 : ∀ d, w2.store.has d = true → w'.store.has d = true := by
    intro d hd
    rcases hq2.keys d hd with hd | ⟨sp, stg, a, hsc, hs, ha, hsk, hda⟩
    · exact hsub d hd
    · obtain ⟨_, _, _, hh⟩ := hq1.finished sp stg hsc (hall1 sp hsc) hs a ha
      exact holds_allDigests _ _ (hh hsk) d hda
  have hsub1 : ∀ d, w'.store.has d = true → w2.store.has d = true := by
    intro d hd
    rcases hq1.keys d hd with hd | ⟨sp, stg, a, hsc, hs, ha, hsk, hda⟩
    · exact Store.has_le hq2.le (Store.has_le hle0 hd)
    · obtain ⟨_, _, _, hh⟩ := hq2.finished sp stg hsc (hall2 sp hsc) hs a ha
      exact holds_allDigests _ _ (hh hsk) d hda
  refine ⟨w2, hcmd, ?_, hq2.cons, le_of_has g hq1.cons hq2.cons hsub1,
    le_of_has g hq2.cons hq1.cons hsub2, ?_, ?_⟩
  · -- the same index
    refine idx_ext _ _ (hsh2.keys.trans hsh.keys.symm) (by rw [hsh2.keys]; exact hstd.ok.keys)
      (fun sp => ?_)
    by_cases hsc : InScope cfg w0 targets sp
    · cases hs : alookup w0.idx sp with
      | none =>
        rcases alookup_sim hsh2 sp with ⟨h1, _⟩ | ⟨_, _, _, h0, _⟩
        · rcases alookup_sim hsh sp with ⟨h1', _⟩ | ⟨_, _, _, h0', _⟩
          · rw [h1, h1']
          · rw [hs] at h0'; cases h0'
        · rw [hs] at h0; cases h0
      | some stg =>
        rw [hq2.idx_done sp stg (hall2 sp hsc) hs, hq1.idx_done sp stg (hall1 sp hsc) hs]
    · have hnd2 : w2.done.contains sp = false := by
        cases hd : w2.done.contains sp with
        | false => rfl
        | true => exact absurd (hq2.done_sc sp hd) hsc
      have hnd1 : w'.done.contains sp = false := by
        cases hd : w'.done.contains sp with
        | false => rfl
        | true => exact absurd (hq1.done_sc sp hd) hsc
      rw [hq2.idx_pending sp hnd2, hq1.idx_pending sp hnd1]
      rcases hres.idx_cases sp with h1 | ⟨h1, _⟩
      · exact h1
      · exact absurd h1 hsc
  · intro sp stg hsc hs a ha
    obtain ⟨t1, g1, d1, _⟩ := hq1.finished sp stg hsc (hall1 sp hsc) hs a ha
    obtain ⟨t2, g2, d2, _⟩ := hq2.finished sp stg hsc (hall2 sp hsc) hs a ha
    exact ⟨t1, t2, g1, g2, d1, d2⟩
  · intro q hq
    rw [hq2.frame q hq, hres.frame q hq, hq1.frame q hq]

end Dud.Retry
