import DudModel.SysConc
/-!
# Lemmas for the concurrent system-call model (`SysConc.lean`): the invariant of every run

`Inv`: the shared file system is the replay of the ghost history; every completed block of the history is a
complete command planned on the file system the serial execution produced; the lock file exists iff the
history has a block in progress, whose owner is the one and only `holding` process and whose calls plus
the owner's remaining calls are `lock ++ plan`.  `execH_inv`: every event preserves it.
-/
namespace Dud.Sys.Conc

open Dud Dud.Sys

variable {κ : Type}

/-! ## `createExcl lock` and `lockFree` -/

theorem lockFree_iff (fs : FS κ) : lockFree fs = true ↔ fs.get .lock = none := by
  unfold lockFree; cases fs.get P.lock <;> simp

theorem lockFree_false_iff (fs : FS κ) : lockFree fs = false ↔ ∃ e, fs.get .lock = some e := by
  unfold lockFree; cases fs.get P.lock <;> simp

/-- on a free path `createExcl` creates the (empty, 0600) lock file -/
theorem createExcl_lock_free (emp : κ) (fs : FS κ) (h : lockFree fs = true) :
    apply emp fs (.createExcl .lock) = fs.set .lock (.file emp 0o600) := by
  rw [lockFree_iff] at h
  simp only [apply, h]

/-- on an existing path `createExcl` changes nothing: this is how `apply` represents its failure -/
theorem createExcl_lock_busy (emp : κ) (fs : FS κ) (h : lockFree fs = false) :
    apply emp fs (.createExcl .lock) = fs := by
  obtain ⟨e, he⟩ := (lockFree_false_iff fs).1 h
  simp only [apply, he]

theorem createExcl_lock_get (emp : κ) (fs : FS κ) (h : lockFree fs = true) :
    (apply emp fs (.createExcl .lock)).get .lock = some (.file emp 0o600) := by
  rw [createExcl_lock_free emp fs h, FS.get_set]; simp

theorem replay_singleton (emp : κ) (fs : FS κ) (c : Call κ) : replay emp fs [c] = apply emp fs c := rfl

/-! ## lists of process states -/

theorem set_holding_imp {procs : List (PSt κ)} {i : Nat} {a : PSt κ} (ha : a.isHolding = false)
    {j : Nat} {r : List (Call κ)} (h : (procs.set i a)[j]? = some (.holding r)) :
    procs[j]? = some (.holding r) ∧ j ≠ i := by
  by_cases hij : i = j
  · subst hij
    rw [List.getElem?_set] at h
    simp only [if_true] at h
    split at h
    · cases h; simp [PSt.isHolding] at ha
    · cases h
  · rw [List.getElem?_set_ne hij] at h
    exact ⟨h, fun e => hij e.symm⟩

theorem get_set_self {procs : List (PSt κ)} {i : Nat} {b : PSt κ} (h : procs[i]? = some b) (a : PSt κ) :
    (procs.set i a)[i]? = some a :=
  List.getElem?_set_self (List.getElem?_eq_some_iff.1 h).1

theorem countP_le_one_of_unique {α : Type} (p : α → Bool) :
    ∀ (l : List α) (i : Nat), (∀ j a, l[j]? = some a → p a = true → j = i) → l.countP p ≤ 1
  | [], _, _ => by simp
  | a :: l, i, h => by
    rw [List.countP_cons]
    by_cases hp : p a = true
    · have hi : 0 = i := h 0 a rfl hp
      have hz : l.countP p = 0 := by
        rw [List.countP_eq_zero]
        intro b hb hpb
        obtain ⟨j, hj⟩ := List.mem_iff_getElem?.1 hb
        have := h (j + 1) b (by simpa using hj) hpb
        omega
      simp [hp, hz]
    · have := countP_le_one_of_unique p l (i - 1) (fun j b hj hpb => by
        have := h (j + 1) b (by simpa using hj) hpb
        omega)
      simp only [hp, Bool.false_eq_true, if_false]
      omega

theorem planOf_bodyOK {plans : List (Plan κ)} (hb : ∀ pl ∈ plans, BodyOK pl) (i : Nat) :
    BodyOK (planOf plans i) := by
  unfold planOf
  rw [List.getD_eq_getElem?_getD]
  cases h : plans[i]? with
  | none => intro fs x hx; simp at hx
  | some pl => exact hb pl (List.mem_of_getElem? h)

theorem failing_bodyOK {plan : Plan κ} (h : BodyOK plan) (k : Nat) : BodyOK (failing plan k) :=
  fun fs x hx => h fs x (List.mem_of_mem_take hx)

/-! ## histories -/

theorem flatBlocks_snoc (bs : List (Nat × List (Call κ))) (b : Nat × List (Call κ)) :
    flatBlocks (bs ++ [b]) = flatBlocks bs ++ b.2 := by
  simp [flatBlocks]

theorem flatBlocks_cons (b : Nat × List (Call κ)) (bs : List (Nat × List (Call κ))) :
    flatBlocks (b :: bs) = b.2 ++ flatBlocks bs := by
  simp [flatBlocks]

theorem complete_snoc (emp : κ) (plans : List (Plan κ)) :
    ∀ (bs : List (Nat × List (Call κ))) (fs : FS κ) (b : Nat × List (Call κ)),
      Complete emp plans fs (bs ++ [b]) ↔
        Complete emp plans fs bs ∧ b.2 = fullBlock emp (planOf plans b.1) (replay emp fs (flatBlocks bs))
  | [], fs, b => by simp [Complete, flatBlocks, replay]
  | a :: bs, fs, b => by
    simp only [List.cons_append, Complete, complete_snoc emp plans bs _ b, flatBlocks_cons, replay_append,
      and_assoc]

/-- the replay of completed blocks is the serial execution of their owners -/
theorem complete_serial (emp : κ) (plans : List (Plan κ)) :
    ∀ (bs : List (Nat × List (Call κ))) (fs : FS κ), Complete emp plans fs bs →
      replay emp fs (flatBlocks bs) = serialRun emp plans fs (bs.map (·.1))
  | [], fs, _ => rfl
  | b :: bs, fs, h => by
    obtain ⟨h1, h2⟩ := h
    rw [flatBlocks_cons, replay_append, complete_serial emp plans bs _ h2]
    simp only [serialRun, List.map_cons, List.foldl_cons]
    rw [← h1]

/-! ## the invariant -/

structure Inv (emp : κ) (plans : List (Plan κ)) (fs0 : FS κ) (st : State κ) (h : Hist κ) : Prop where
  fsEq : st.fs = replay emp fs0 h.calls
  complete : Complete emp plans fs0 h.done
  idleH : h.cur = none → st.fs.get .lock = none ∧ ∀ (j : Nat) (r : List (Call κ)), st.procs[j]? ≠ some (.holding r)
  busyH : ∀ (i : Nat) (cs : List (Call κ)), h.cur = some (i, cs) →
    st.fs.get .lock = some (.file emp 0o600) ∧
    (∀ (j : Nat) (r : List (Call κ)), st.procs[j]? = some (.holding r) → j = i) ∧
    ∃ (pre rest : List (Call κ)), st.procs[i]? = some (.holding rest) ∧ cs = .createExcl .lock :: pre ∧
      pre ++ rest = planOf plans i (apply emp (replay emp fs0 (flatBlocks h.done)) (.createExcl .lock))

theorem inv_init (emp : κ) (plans : List (Plan κ)) (fs0 : FS κ) (h0 : fs0.get .lock = none) (n : Nat) :
    Inv emp plans fs0 (init fs0 n) Hist.empty where
  fsEq := rfl
  complete := trivial
  idleH := fun _ => ⟨h0, fun j r hj => by
    simp only [init, List.getElem?_replicate] at hj
    split at hj <;> cases hj⟩
  busyH := fun i cs hc => by cases hc

theorem retry_inv {emp : κ} {plans : List (Plan κ)} {fs0 : FS κ} {st : State κ} {h : Hist κ}
    (hi : Inv emp plans fs0 st h) (i : Nat) : Inv emp plans fs0 (retry st i) h := by
  have key : ∀ (b : PSt κ), st.procs[i]? = some b → b.isHolding = false →
      Inv emp plans fs0 { st with procs := st.procs.set i .idle } h := by
    intro b hb hnb
    refine ⟨hi.fsEq, hi.complete, fun hc => ⟨(hi.idleH hc).1, fun j r hj => ?_⟩, fun i0 cs hc => ?_⟩
    · exact (hi.idleH hc).2 j r (set_holding_imp (by rfl) hj).1
    · obtain ⟨hl, hu, pre, rest, hp, hcs, hpl⟩ := hi.busyH i0 cs hc
      refine ⟨hl, fun j r hj => hu j r (set_holding_imp (by rfl) hj).1, pre, rest, ?_, hcs, hpl⟩
      have hne : i ≠ i0 := by
        intro e; subst e; rw [hb] at hp; cases hp; simp [PSt.isHolding] at hnb
      simp only
      rw [List.getElem?_set_ne hne]; exact hp
  unfold retry
  split
  · rename_i hb; exact key _ hb rfl
  · rename_i hb; exact key _ hb rfl
  · exact hi

theorem step_inv {emp : κ} {plans : List (Plan κ)} (hb : ∀ i, BodyOK (planOf plans i)) {fs0 : FS κ}
    {st : State κ} {h : Hist κ} (hi : Inv emp plans fs0 st h) (i : Nat) :
    Inv emp plans fs0 (step emp plans st i) (histStep st h i) := by
  unfold step stepX histStep
  cases hp : st.procs[i]? with
  | none => exact hi
  | some b =>
    cases b with
    | refused => exact hi
    | done => exact hi
    | idle =>
      simp only [Bool.true_and]
      cases hf : lockFree st.fs with
      | true =>
        simp only [Bool.not_true, Bool.false_eq_true, if_false, if_true, lockCall]
        -- nobody holds
        have hcur : h.cur = none := by
          cases hc : h.cur with
          | none => rfl
          | some b =>
            obtain ⟨i0, cs⟩ := b
            have := (hi.busyH i0 cs hc).1
            rw [(lockFree_iff _).1 hf] at this; cases this
        have hfs : st.fs = replay emp fs0 (flatBlocks h.done) := by
          rw [hi.fsEq]; simp [Hist.calls, Hist.curCalls, hcur]
        refine ⟨?_, hi.complete, (fun hc => by cases hc), fun i0 cs hc => ?_⟩
        · simp only [Hist.calls, Hist.curCalls]
          rw [replay_append, ← hfs]; rfl
        · simp only [Option.some.injEq, Prod.mk.injEq] at hc
          obtain ⟨rfl, rfl⟩ := hc
          refine ⟨createExcl_lock_get emp _ hf, fun j r hj => ?_, [], _, get_set_self hp _, rfl, ?_⟩
          · by_cases hij : i = j
            · exact hij.symm
            · simp only at hj
              rw [List.getElem?_set_ne hij] at hj
              exact absurd hj ((hi.idleH hcur).2 j r)
          · simp only [List.nil_append]; rw [hfs]
      | false =>
        simp only [Bool.not_false, if_true]
        refine ⟨hi.fsEq, hi.complete, fun hc => ⟨(hi.idleH hc).1, fun j r hj => ?_⟩, fun i0 cs hc => ?_⟩
        · exact (hi.idleH hc).2 j r (set_holding_imp (by rfl) hj).1
        · obtain ⟨hl, hu, pre, rest, hp0, hcs, hpl⟩ := hi.busyH i0 cs hc
          refine ⟨hl, fun j r hj => hu j r (set_holding_imp (by rfl) hj).1, pre, rest, ?_, hcs, hpl⟩
          have hne : i ≠ i0 := by
            intro e; subst e; rw [hp] at hp0; cases hp0
          simp only
          rw [List.getElem?_set_ne hne]; exact hp0
    | holding rest =>
      -- the history has a block in progress, owned by `i`
      have hcur : ∃ cs, h.cur = some (i, cs) := by
        cases hc : h.cur with
        | none => exact absurd hp ((hi.idleH hc).2 i rest)
        | some b =>
          obtain ⟨i0, cs⟩ := b
          have := (hi.busyH i0 cs hc).2.1 i rest hp
          subst this; exact ⟨cs, rfl⟩
      obtain ⟨cs, hc⟩ := hcur
      obtain ⟨hl, hu, pre, rest', hp0, hcs, hpl⟩ := hi.busyH i cs hc
      rw [hp] at hp0
      simp only [Option.some.injEq, PSt.holding.injEq] at hp0
      subst hp0
      have hfs : st.fs = replay emp fs0 (flatBlocks h.done ++ cs) := by
        rw [hi.fsEq]; simp [Hist.calls, Hist.curCalls, hc]
      cases rest with
      | nil =>
        simp only [hc, Option.map_some, Option.toList_some]
        rw [List.append_nil] at hpl
        refine ⟨?_, ?_, fun _ => ⟨?_, fun j r hj => ?_⟩, fun i0 cs0 hc0 => by cases hc0⟩
        · simp only [Hist.calls, Hist.curCalls, List.append_nil, flatBlocks_snoc]
          rw [← List.append_assoc, replay_append, ← hfs]; rfl
        · rw [complete_snoc]
          refine ⟨hi.complete, ?_⟩
          simp only [fullBlock, hcs, hpl, List.cons_append]
        · simp only [apply, FS.get_del, if_true]
        · obtain ⟨hj1, hj2⟩ := set_holding_imp (by rfl) hj
          exact hj2 (hu j r hj1)
      | cons c r =>
        simp only [hc, Option.map_some]
        have hcin : c ∈ planOf plans i (apply emp (replay emp fs0 (flatBlocks h.done)) (.createExcl .lock)) := by
          rw [← hpl]; simp
        have hnl : P.lock ∉ callWrites c := hb i _ c hcin
        refine ⟨?_, hi.complete, (fun hc0 => by cases hc0), fun i0 cs0 hc0 => ?_⟩
        · simp only [Hist.calls, Hist.curCalls]
          rw [← List.append_assoc, replay_append, ← hfs]; rfl
        · simp only [Option.some.injEq, Prod.mk.injEq] at hc0
          obtain ⟨rfl, rfl⟩ := hc0
          refine ⟨?_, fun j r' hj => ?_, pre ++ [c], r, get_set_self hp _, by simp [hcs], by simpa using hpl⟩
          · simp only
            rw [apply_get_frame emp _ c _ hnl]; exact hl
          · by_cases hij : i = j
            · exact hij.symm
            · simp only at hj
              rw [List.getElem?_set_ne hij] at hj
              exact hu j r' hj

theorem execH_inv {emp : κ} {plans : List (Plan κ)} (hb : ∀ i, BodyOK (planOf plans i)) {fs0 : FS κ}
    {p : State κ × Hist κ} (hi : Inv emp plans fs0 p.1 p.2) (e : Ev) :
    Inv emp plans fs0 (execH emp plans p e).1 (execH emp plans p e).2 := by
  cases e with
  | step i => exact step_inv hb hi i
  | retry i => exact retry_inv hi i

theorem runH_inv {emp : κ} {plans : List (Plan κ)} (hb : ∀ i, BodyOK (planOf plans i)) {fs0 : FS κ} :
    ∀ (evs : List Ev) (p : State κ × Hist κ), Inv emp plans fs0 p.1 p.2 →
      Inv emp plans fs0 (runH emp plans p evs).1 (runH emp plans p evs).2
  | [], _, hi => hi
  | e :: evs, p, hi => by
    simp only [runH, List.foldl_cons]
    exact runH_inv hb evs _ (execH_inv hb hi e)

/-- the instrumented run is the plain run -/
theorem runH_fst (emp : κ) (plans : List (Plan κ)) :
    ∀ (evs : List Ev) (p : State κ × Hist κ), (runH emp plans p evs).1 = runE emp plans p.1 evs
  | [], _ => rfl
  | e :: evs, p => by
    simp only [runH, runE, List.foldl_cons]
    have := runH_fst emp plans evs (execH emp plans p e)
    simp only [runH, runE] at this
    rw [this]
    cases e <;> rfl

theorem run_eq_runE (emp : κ) (plans : List (Plan κ)) (st : State κ) (sched : List Nat) :
    run emp plans st sched = runE emp plans st (sched.map .step) := by
  simp only [run, runE, List.foldl_map]; rfl

/-! ## lengths -/

theorem stepX_length (excl : Bool) (emp : κ) (plans : List (Plan κ)) (st : State κ) (i : Nat) :
    (stepX excl emp plans st i).procs.length = st.procs.length := by
  unfold stepX
  split
  · rfl
  · split <;> simp
  · simp
  · simp
  · rfl
  · rfl

theorem retry_length (st : State κ) (i : Nat) : (retry st i).procs.length = st.procs.length := by
  unfold retry
  split <;> simp

theorem runE_length (emp : κ) (plans : List (Plan κ)) :
    ∀ (evs : List Ev) (st : State κ), (runE emp plans st evs).procs.length = st.procs.length
  | [], _ => rfl
  | e :: evs, st => by
    simp only [runE, List.foldl_cons]
    have := runE_length emp plans evs (exec emp plans st e)
    simp only [runE] at this
    rw [this]
    cases e
    · exact stepX_length true emp plans st _
    · exact retry_length st _

end Dud.Sys.Conc
