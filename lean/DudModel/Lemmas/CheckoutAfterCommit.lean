import DudModel.Lemmas.CheckoutIdem
import DudModel.Lemmas.WorldRecommit
/-!
# Helpers for "checkout right after commit is a no-op" (`Props/C15world.lean`)

* `cmdCommit_copy_ws`: `dud commit --copy` never changes the workspace (unconditionally);
* `Held`, `heldEst`: what a commit (either strategy) of an output satisfying `ArtPre` leaves: the
  cache holds the tree and the workspace node is `wsAfter ctx σ n` — an instance of the
  establish-and-keep scheme `WStat.Est` of `Lemmas/WorldStatus.lean`;
* `held_conf`: such a node is a fixed point of checkout (`CI.Conf`) for the link strategy, and for
  the copy strategy when it is the original tree.

Namespace `Dud.CI`.
-/
namespace Dud.CI

open Dud.WT Dud.WStat

variable {κ : Type}

/-! ## `commit --copy` leaves every workspace node as it is -/

theorem commitFile_copy_node {ctx : Ctx κ} {skip : Bool} {n : Option (Node κ)} {sum : Digest}
    {s : Store κ} {n' : Node κ} {d : Digest} {s' : Store κ}
    (h : commitFile ctx .copy skip n sum s = .ok (n', d, s')) : n = some n' := by
  unfold commitFile at h
  cases n with
  | none => cases h
  | some nd =>
    simp only at h
    split at h
    · simp only [Except.ok.injEq, Prod.mk.injEq] at h
      rw [h.1]
    · rcases nd with x | es | ⟨d0 | b⟩ | _
      · simp only at h
        split at h
        · simp only [Except.ok.injEq, Prod.mk.injEq] at h; rw [h.1]
        · simp only [Except.ok.injEq, Prod.mk.injEq] at h; rw [h.1]
      · cases h
      · simp only at h
        split at h
        · simp only [Except.ok.injEq, Prod.mk.injEq] at h; rw [h.1]
        · cases h
      · cases h
      · cases h

mutual
theorem commitNode_copy_node {ctx : Ctx κ} : ∀ (n : Node κ) (c : Child) (s : Store κ) {n' c' s'},
    commitNode ctx .copy n c s = .ok (n', c', s') → n' = n
  | .dir es, c, s, n', c', s', h => by
    rw [commitNode] at h
    split at h
    · split at h
      · cases h
      · split at h
        · cases h
        · rename_i es' cs s1 he
          simp only [Except.ok.injEq, Prod.mk.injEq] at h
          obtain ⟨rfl, _, _⟩ := h
          rw [commitEntries_copy_node false es _ s he]
    · cases h
  | .file x, c, s, n', c', s', h => by
    rw [commitNode] at h
    split at h
    · cases h
    · split at h
      · cases h
      · rename_i hf
        simp only [Except.ok.injEq, Prod.mk.injEq] at h
        obtain ⟨rfl, _, _⟩ := h
        have := commitFile_copy_node hf
        simp only [Option.some.injEq] at this
        exact this.symm
  | .link l, c, s, n', c', s', h => by
    rw [commitNode] at h
    split at h
    · cases h
    · split at h
      · cases h
      · rename_i hf
        simp only [Except.ok.injEq, Prod.mk.injEq] at h
        obtain ⟨rfl, _, _⟩ := h
        have := commitFile_copy_node hf
        simp only [Option.some.injEq] at this
        exact this.symm
  | .other, c, s, n', c', s', h => by
    rw [commitNode] at h
    split at h
    · cases h
    · split at h
      · cases h
      · rename_i hf
        simp only [Except.ok.injEq, Prod.mk.injEq] at h
        obtain ⟨rfl, _, _⟩ := h
        have := commitFile_copy_node hf
        simp only [Option.some.injEq] at this
        exact this.symm
theorem commitEntries_copy_node {ctx : Ctx κ} (skipDirs : Bool) :
    ∀ (es : List (Name × Node κ)) (old : List Child) (s : Store κ) {es' cs s'},
      commitEntries ctx .copy skipDirs es old s = .ok (es', cs, s') → es' = es
  | [], old, s, es', cs, s', h => by
    rw [commitEntries] at h
    simp only [Except.ok.injEq, Prod.mk.injEq] at h
    exact h.1.symm
  | (nm, n) :: r, old, s, es', cs, s', h => by
    rw [commitEntries] at h
    split at h
    · split at h
      · cases h
      · rename_i hr
        simp only [Except.ok.injEq, Prod.mk.injEq] at h
        obtain ⟨rfl, _, _⟩ := h
        rw [commitEntries_copy_node skipDirs r old s hr]
    · split at h
      · cases h
      · dsimp only at h
        split at h
        · cases h
        · rename_i hn
          split at h
          · cases h
          · rename_i hr
            simp only [Except.ok.injEq, Prod.mk.injEq] at h
            obtain ⟨rfl, _, _⟩ := h
            rw [commitNode_copy_node n _ s hn, commitEntries_copy_node skipDirs r old _ hr]
end

theorem commitArt_copy_node {ctx : Ctx κ} {a : Art} {n : Option (Node κ)} {s : Store κ}
    {n' : Node κ} {d : Digest} {s' : Store κ}
    (h : commitArt ctx .copy a n s = .ok (n', d, s')) : n = some n' := by
  unfold commitArt at h
  split at h
  · split at h
    · split at h
      · cases h
      · split at h
        · cases h
        · rename_i he
          simp only [Except.ok.injEq, Prod.mk.injEq] at h
          obtain ⟨rfl, _, _⟩ := h
          rw [commitEntries_copy_node _ _ _ _ he]
    · cases h
    · cases h
  · exact commitFile_copy_node h

theorem commitArtW_copy_ws {cfg : Cfg κ} {a a' : Art} {w w' : World κ}
    (h : commitArtW cfg .copy a w = .ok (a', w')) : w'.ws = w.ws := by
  obtain ⟨n, d, s, ws', hc, hs, _, rfl⟩ := WT.commitArtW_inv h
  have hg := commitArt_copy_node hc
  rw [WT.setPath_getPath_same _ _ _ hg] at hs
  simp only [Option.some.injEq] at hs
  exact hs.symm

theorem commitArts_copy_ws {cfg : Cfg κ} : ∀ (as : List Art) {as' : List Art} {w w' : World κ},
    commitArts cfg .copy as w = .ok (as', w') → w'.ws = w.ws
  | [], as', w, w', h => by
    simp only [commitArts, Except.ok.injEq, Prod.mk.injEq] at h
    rw [← h.2]
  | a :: r, as', w, w', h => by
    rw [commitArts] at h
    split at h
    · cases h
    rename_i a1 w1 h1
    split at h
    · cases h
    rename_i r2 w2 h2
    simp only [Except.ok.injEq, Prod.mk.injEq] at h
    obtain ⟨_, rfl⟩ := h
    rw [commitArts_copy_ws r h2, commitArtW_copy_ws h1]

theorem commitAct_copy_ws {cfg : Cfg κ} {sp : Bytes} {w w' : World κ}
    (h : commitAct cfg .copy sp w = .ok w') : w'.ws = w.ws := by
  cases hl : alookup w.idx sp with
  | none => simp [commitAct, World.stage, hl] at h
  | some stg =>
    obtain ⟨pl, w1, outs, w2, h1, h2, rfl⟩ := commitAct_inv hl h
    show w2.ws = w.ws
    rw [commitArts_copy_ws _ h2, commitArts_copy_ws _ h1]

/-- **`dud commit --copy` does not change the workspace.**  (No hypothesis.) -/
theorem cmdCommit_copy_ws (cfg : Cfg κ) (targets : List Bytes) (w w' : World κ)
    (h : cmdCommit cfg .copy targets w = .ok w') : w'.ws = w.ws := by
  simp only [cmdCommit] at h
  by_cases hts : (if targets.isEmpty then allStages w else targets).isEmpty = true
  · rw [if_pos hts] at h; cases h
  rw [if_neg hts] at h
  exact perTarget_keeps (fun a : World κ => a.ws = w.ws)
    (fun t a b ha hv => visit_keeps (commitTrav cfg .copy) _ (fun a : World κ => a.ws = w.ws)
      (fun sp x y hx hxy => (commitAct_copy_ws hxy).trans hx) _ _ t a b ha hv) _ (fresh w) w' rfl h

/-! ## what a commit leaves at an output -/

/-- the committed artifact is `skip-cache` (checkout ignores it), or the cache holds the original
tree `n` and the node in the workspace is what a commit of `n` with some strategy leaves -/
def Held (cfg : Cfg κ) (a' : Art) (n t' : Node κ) (s : Store κ) : Prop :=
  a'.skip = true ∨ (HoldsNode cfg.ctx s newChoice a'.path n ∧ ∃ σ, t' = wsAfter cfg.ctx σ n)

theorem heldEst (cfg : Cfg κ) (g : Good cfg.ctx) : Est cfg Recursive (Held cfg) where
  mono := by
    intro a' n t' s s1 h hle
    rcases h with h | ⟨hh, hσ⟩
    · exact .inl h
    · exact .inr ⟨HoldsNode.mono hle _ _ _ hh, hσ⟩
  est := by
    intro a n hpre hrec s hc strat t' d s' h
    obtain ⟨hk, hp, hs, hn, hfr, hfu⟩ := hpre
    cases hskip : a.skip with
    | true => exact .inl rfl
    | false =>
      right
      have hsk : a.isDir = false → a.skip = false := fun _ => hskip
      have hcompat : CompatNode cfg.ctx s n a.sum := by
        cases n with
        | dir es =>
          have hd : a.isDir = true := by rw [← hk]; rfl
          rw [(hfr hd).1]
          exact compatNode_empty cfg.ctx s _
        | file _ => simp [CompatNode]
        | link _ => simp [CompatNode]
        | other => simp [CompatNode]
      obtain ⟨s1, hcn, _, _, hh1, _, _⟩ :=
        recommitNode_post g n hp hn ⟨a.path, a.sum, a.isDir⟩ s strat hk.symm hcompat hc
      have h' := commitArt_of_commitNode hk hrec hsk hcn
      rw [h'] at h
      simp only [Except.ok.injEq, Prod.mk.injEq] at h
      obtain ⟨rfl, rfl, rfl⟩ := h
      exact ⟨hh1, strat, rfl⟩

/-- a node a commit left (`wsAfter ctx σ n`, the cache holding `n`) is a fixed point of checkout
with the strategy `strat2`, as soon as `strat2` does not turn links into copies -/
theorem held_conf {ctx : Ctx κ} (g : Good ctx) (s : Store κ) (n : Node κ) (nm : Bytes) (fuel : Nat)
    (hp : n.plain = true) (hs : n.sorted = true) (hn : NamesOK ctx n)
    (hh : HoldsNode ctx s newChoice nm n) (hf : depth n ≤ fuel) (σ strat2 : Strat)
    (hco : coStrat σ strat2 = σ) :
    Conf ctx strat2 s fuel (wsAfter ctx σ n) ⟨nm, treeDigest ctx nm n, n.isDir⟩ := by
  rw [conf_iff_fix]
  have := checkoutNode_over g s σ strat2 n newChoice nm fuel hp hs hn hh hf
  rw [digestAs_new, hco] at this
  exact this

end Dud.CI
