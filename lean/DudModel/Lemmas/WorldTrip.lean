import DudModel.Spec
import DudModel.Lemmas.Tree
import DudModel.Lemmas.Trav
import DudModel.Lemmas.Run
import DudModel.Lemmas.Shape
/-!
# World-level helpers for the lift of C01 (`Props/C01world.lean`)

* path algebra of `getPath` / `setPath` for paths that do not overlap (`Apart`), and when `setPath`
  succeeds (`Writable`);
* `commitArt` on arbitrary nodes keeps the cache consistent and growing (the statement of
  `Props/C02.lean`, re-proved here on top of `Lemmas/Tree.lean`, because `Lemmas/Store.lean` and
  `Lemmas/Tree.lean` cannot be imported together);
* a progress principle for the recursive traversal `visit`: it succeeds on every stage of a set that
  is closed under owners and carries a rank that decreases along owners, provided the action
  succeeds whenever it is invoked on a stage that is not done and all of whose owners are done.

Everything lives in the namespace `Dud.WT`, so that no name can clash with the other lemma files.
-/
namespace Dud.WT

variable {κ : Type}

/-! ## paths that do not overlap -/

/-- neither path is a prefix of the other (in particular they are different) -/
def Apart (p q : List Name) : Prop := ¬ p <+: q ∧ ¬ q <+: p

theorem Apart.symm {p q : List Name} (h : Apart p q) : Apart q p := ⟨h.2, h.1⟩

theorem Apart.irrefl (p : List Name) : ¬ Apart p p := fun h => h.1 (List.prefix_refl p)

theorem Apart.ne {p q : List Name} (h : Apart p q) : p ≠ q := fun e => Apart.irrefl q (e ▸ h)

/-- the two paths part ways at some component -/
theorem apart_iff_diverge {p q : List Name} :
    Apart p q ↔ ∃ (pre : List Name) (x y : Name) (p' q' : List Name),
      x ≠ y ∧ p = pre ++ x :: p' ∧ q = pre ++ y :: q' := by
  constructor
  · intro h
    induction p generalizing q with
    | nil => exact absurd (List.nil_prefix) h.1
    | cons x p' ih =>
      cases q with
      | nil => exact absurd (List.nil_prefix) h.2
      | cons y q' =>
        by_cases hxy : x = y
        · subst hxy
          have h' : Apart p' q' := by
            refine ⟨fun hp => h.1 ?_, fun hq => h.2 ?_⟩
            · exact List.cons_prefix_cons.2 ⟨rfl, hp⟩
            · exact List.cons_prefix_cons.2 ⟨rfl, hq⟩
          obtain ⟨pre, a, b, p2, q2, hab, rfl, rfl⟩ := ih h'
          exact ⟨x :: pre, a, b, p2, q2, hab, rfl, rfl⟩
        · exact ⟨[], x, y, p', q', hxy, rfl, rfl⟩
  · rintro ⟨pre, x, y, p', q', hxy, rfl, rfl⟩
    constructor
    · intro h
      rw [List.prefix_append_right_inj, List.cons_prefix_cons] at h
      exact hxy h.1
    · intro h
      rw [List.prefix_append_right_inj, List.cons_prefix_cons] at h
      exact hxy h.1.symm

/-- a path apart from `q` is apart from everything below `q` … -/
theorem Apart.of_prefix_right {p q q' : List Name} (h : Apart p q) (hq : q <+: q') : Apart p q' := by
  obtain ⟨pre, x, y, p2, q2, hxy, rfl, rfl⟩ := apart_iff_diverge.1 h
  obtain ⟨t, rfl⟩ := hq
  exact apart_iff_diverge.2 ⟨pre, x, y, p2, q2 ++ t, hxy, rfl, by simp⟩

/-! ## `alookup` / `setEntry` -/

theorem alookup_setEntry_ne : ∀ (es : List (Name × Node κ)) (x y : Name) (n : Node κ), x ≠ y →
    alookup (setEntry es x n) y = alookup es y
  | [], x, y, n, h => by simp [setEntry, alookup, h]
  | (k, v) :: r, x, y, n, h => by
    by_cases hk : k = x
    · subst hk
      simp [setEntry, alookup, h]
    · by_cases hy : k = y
      · subst hy
        simp [setEntry, alookup, hk]
      · simp [setEntry, alookup, hk, hy, alookup_setEntry_ne r x y n h]

theorem alookup_setEntry_self : ∀ (es : List (Name × Node κ)) (x : Name) (n : Node κ),
    alookup (setEntry es x n) x = some n
  | [], x, n => by simp [setEntry, alookup]
  | (k, v) :: r, x, n => by
    by_cases hk : k = x
    · subst hk; simp [setEntry, alookup]
    · simp [setEntry, alookup, hk, alookup_setEntry_self r x n]

theorem setEntry_same : ∀ (es : List (Name × Node κ)) (nm : Name) (n : Node κ),
    alookup es nm = some n → setEntry es nm n = es
  | [], _, _, h => by simp [alookup] at h
  | (k, v) :: r, nm, n, h => by
    by_cases hk : k = nm
    · subst hk
      simp only [alookup, beq_self_eq_true, if_true, Option.some.injEq] at h
      simp [setEntry, h]
    · simp only [alookup, beq_iff_eq, hk, if_false] at h
      simp [setEntry, hk, setEntry_same r nm n h]

/-! ## `getPath` after `setPath` -/

/-- what was written at `p` is found at `p` -/
theorem getPath_setPath_self : ∀ (p : List Name) (ws ws' v : Node κ),
    setPath ws p v = some ws' → getPath ws' p = some v
  | [], ws, ws', v, h => by
    simp only [setPath, Option.some.injEq] at h
    subst h
    rfl
  | c :: r, .dir es, ws', v, h => by
    rw [setPath] at h
    split at h
    · rename_i n hn
      injection h with h
      subst h
      simp only [getPath]
      rw [alookup_setEntry_self]
      exact getPath_setPath_self r _ n v hn
    · cases h
  | _ :: _, .file _, _, _, h => by simp [setPath] at h
  | _ :: _, .link _, _, _, h => by simp [setPath] at h
  | _ :: _, .other, _, _, h => by simp [setPath] at h

theorem getPath_nil_dir (q : List Name) (y : Name) : getPath (.dir [] : Node κ) (y :: q) = none := by
  simp [getPath, alookup]

/-- writing at `p` does not change what is found at a diverging path `q` -/
theorem getPath_setPath_diverge : ∀ (pre : List Name) (x y : Name) (p' q' : List Name)
    (ws ws' v : Node κ), x ≠ y → setPath ws (pre ++ x :: p') v = some ws' →
    getPath ws' (pre ++ y :: q') = getPath ws (pre ++ y :: q')
  | [], x, y, p', q', .dir es, ws', v, hne, h => by
    simp only [List.nil_append] at h ⊢
    rw [setPath] at h
    split at h
    · rename_i n hn
      injection h with h
      subst h
      simp only [getPath]
      rw [alookup_setEntry_ne es x y n hne]
    · cases h
  | c :: pre, x, y, p', q', .dir es, ws', v, hne, h => by
    simp only [List.cons_append] at h ⊢
    rw [setPath] at h
    split at h
    · rename_i n hn
      injection h with h
      subst h
      have ih := getPath_setPath_diverge pre x y p' q' _ n v hne hn
      simp only [getPath]
      rw [alookup_setEntry_self]
      simp only
      rw [ih]
      cases hl : alookup es c with
      | some m => simp
      | none =>
        simp only [Option.getD_none]
        cases pre with
        | nil => exact getPath_nil_dir _ _
        | cons c' pre' => exact getPath_nil_dir _ _
    · cases h
  | [], _, _, _, _, .file _, _, _, _, h => by simp [setPath] at h
  | [], _, _, _, _, .link _, _, _, _, h => by simp [setPath] at h
  | [], _, _, _, _, .other, _, _, _, h => by simp [setPath] at h
  | _ :: _, _, _, _, _, .file _, _, _, _, h => by simp [setPath] at h
  | _ :: _, _, _, _, _, .link _, _, _, _, h => by simp [setPath] at h
  | _ :: _, _, _, _, _, .other, _, _, _, h => by simp [setPath] at h

/-- writing at `p` does not change what is found at a path `q` that does not overlap `p` -/
theorem getPath_setPath_apart {p q : List Name} {ws ws' v : Node κ} (h : Apart p q)
    (hs : setPath ws p v = some ws') : getPath ws' q = getPath ws q := by
  obtain ⟨pre, x, y, p', q', hxy, rfl, rfl⟩ := apart_iff_diverge.1 h
  exact getPath_setPath_diverge pre x y p' q' ws ws' v hxy hs

/-- writing back the node found at a path changes nothing -/
theorem setPath_getPath_same : ∀ (p : List Name) (ws n : Node κ),
    getPath ws p = some n → setPath ws p n = some ws
  | [], ws, n, h => by
    simp only [getPath, Option.some.injEq] at h
    subst h
    simp [setPath]
  | c :: r, .dir es, n, h => by
    rw [getPath] at h
    split at h
    · rename_i m hm
      rw [setPath, hm]
      simp only [Option.getD_some]
      rw [setPath_getPath_same r m n h]
      simp only
      rw [setEntry_same es c m hm]
    · cases h
  | _ :: _, .file _, _, h => by simp [getPath] at h
  | _ :: _, .link _, _, h => by simp [getPath] at h
  | _ :: _, .other, _, h => by simp [getPath] at h

/-! ## when `setPath` succeeds -/

/-- `setPath` at `p` succeeds (whatever is written): no proper prefix of `p` leads to something
that is not a directory -/
def Writable (ws : Node κ) (p : List Name) : Prop := ∀ v : Node κ, ∃ ws', setPath ws p v = some ws'

/-- in an empty workspace every path can be written (`MkdirAll`) -/
theorem writable_empty : ∀ (p : List Name), Writable (.dir [] : Node κ) p
  | [], v => ⟨v, rfl⟩
  | c :: r, v => by
    obtain ⟨n, hn⟩ := writable_empty r v
    refine ⟨.dir (setEntry [] c n), ?_⟩
    simp only [setPath, alookup, Option.getD_none]
    rw [hn]

/-- a path whose parent directory exists can be written -/
theorem writable_of_parent : ∀ (pre : List Name) (x : Name) (ws : Node κ) (es : List (Name × Node κ)),
    getPath ws pre = some (.dir es) → Writable ws (pre ++ [x])
  | [], x, ws, es, h, v => by
    simp only [getPath, Option.some.injEq] at h
    subst h
    exact ⟨.dir (setEntry es x v), by simp only [List.nil_append, setPath]⟩
  | c :: pre, x, .dir es0, es, h, v => by
    rw [getPath] at h
    split at h
    · rename_i m hm
      obtain ⟨n, hn⟩ := writable_of_parent pre x m es h v
      refine ⟨.dir (setEntry es0 c n), ?_⟩
      simp only [List.cons_append, setPath, hm, Option.getD_some]
      rw [hn]
    · cases h
  | _ :: _, _, .file _, _, h, _ => by simp [getPath] at h
  | _ :: _, _, .link _, _, h, _ => by simp [getPath] at h
  | _ :: _, _, .other, _, h, _ => by simp [getPath] at h

/-- a path at which something is found can be (over)written -/
theorem writable_of_getPath : ∀ (p : List Name) (ws n : Node κ), getPath ws p = some n → Writable ws p
  | [], _, _, _, v => ⟨v, rfl⟩
  | c :: r, .dir es, n, h, v => by
    rw [getPath] at h
    split at h
    · rename_i m hm
      obtain ⟨n', hn'⟩ := writable_of_getPath r m n h v
      refine ⟨.dir (setEntry es c n'), ?_⟩
      simp only [setPath, hm, Option.getD_some]
      rw [hn']
    · cases h
  | _ :: _, .file _, _, h, _ => by simp [getPath] at h
  | _ :: _, .link _, _, h, _ => by simp [getPath] at h
  | _ :: _, .other, _, h, _ => by simp [getPath] at h

theorem writable_setPath_diverge : ∀ (pre : List Name) (x y : Name) (p' q' : List Name)
    (ws ws' v : Node κ), x ≠ y → setPath ws (pre ++ x :: p') v = some ws' →
    Writable ws (pre ++ y :: q') → Writable ws' (pre ++ y :: q')
  | [], x, y, p', q', .dir es, ws', v, hne, h, hw, u => by
    simp only [List.nil_append] at h hw ⊢
    rw [setPath] at h
    split at h
    · rename_i n hn
      injection h with h
      subst h
      obtain ⟨w1, hw1⟩ := hw u
      rw [setPath] at hw1
      split at hw1
      · rename_i m hm
        refine ⟨.dir (setEntry (setEntry es x n) y m), ?_⟩
        rw [setPath, alookup_setEntry_ne es x y n hne, hm]
      · cases hw1
    · cases h
  | c :: pre, x, y, p', q', .dir es, ws', v, hne, h, hw, u => by
    simp only [List.cons_append] at h hw ⊢
    rw [setPath] at h
    split at h
    · rename_i n hn
      injection h with h
      subst h
      have hw' : Writable ((alookup es c).getD (.dir [])) (pre ++ y :: q') := by
        intro u'
        obtain ⟨w1, hw1⟩ := hw u'
        rw [setPath] at hw1
        split at hw1
        · rename_i m hm; exact ⟨m, hm⟩
        · cases hw1
      obtain ⟨m, hm⟩ := writable_setPath_diverge pre x y p' q' _ n v hne hn hw' u
      refine ⟨.dir (setEntry (setEntry es c n) c m), ?_⟩
      rw [setPath, alookup_setEntry_self]
      simp only [Option.getD_some]
      rw [hm]
    · cases h
  | [], _, _, _, _, .file _, _, _, _, h, _, _ => by simp [setPath] at h
  | [], _, _, _, _, .link _, _, _, _, h, _, _ => by simp [setPath] at h
  | [], _, _, _, _, .other, _, _, _, h, _, _ => by simp [setPath] at h
  | _ :: _, _, _, _, _, .file _, _, _, _, h, _, _ => by simp [setPath] at h
  | _ :: _, _, _, _, _, .link _, _, _, _, h, _, _ => by simp [setPath] at h
  | _ :: _, _, _, _, _, .other, _, _, _, h, _, _ => by simp [setPath] at h

/-- writing at `p` keeps every path that does not overlap `p` writable -/
theorem writable_setPath_apart {p q : List Name} {ws ws' v : Node κ} (h : Apart p q)
    (hs : setPath ws p v = some ws') (hw : Writable ws q) : Writable ws' q := by
  obtain ⟨pre, x, y, p', q', hxy, rfl, rfl⟩ := apart_iff_diverge.1 h
  exact writable_setPath_diverge pre x y p' q' ws ws' v hxy hs hw

/-! ## `commitArt` on arbitrary nodes: the cache stays consistent and loses nothing

(the content of `Props/C02.lean` §1, on top of `Lemmas/Tree.lean`) -/

/-- one step of cache evolution -/
def Step (ctx : Ctx κ) (s s' : Store κ) : Prop :=
  Consistent ctx s → Consistent ctx s' ∧ Store.le ctx s s'

theorem Step.refl (ctx : Ctx κ) (s : Store κ) : Step ctx s s := fun h => ⟨h, Store.le_refl ctx s⟩

theorem Step.trans {ctx : Ctx κ} {s1 s2 s3 : Store κ} (h1 : Step ctx s1 s2) (h2 : Step ctx s2 s3) :
    Step ctx s1 s3 := fun h =>
  ⟨(h2 (h1 h).1).1, Store.le_trans (h1 h).2 (h2 (h1 h).1).2⟩

theorem Step.put {ctx : Ctx κ} (g : Good ctx) (s : Store κ) (o : Obj κ) :
    Step ctx s (s.put (o.digest ctx) o) := fun h => ⟨h.put o, Store.le_put g h o⟩

theorem commitFile_cases {ctx : Ctx κ} {strat skip n sum} {s : Store κ} {n' d s'}
    (h : commitFile ctx strat skip n sum s = .ok (n', d, s')) :
    s' = s ∨ ∃ c, s' = s.put (ctx.H c) (.blob c) := by
  unfold commitFile at h
  repeat' split at h
  all_goals first | cases h | (simp only [Except.ok.injEq, Prod.mk.injEq] at h; obtain ⟨_, _, rfl⟩ := h)
  all_goals first | exact .inl rfl | exact .inr ⟨_, rfl⟩

theorem commitFile_step {ctx : Ctx κ} (g : Good ctx) {strat skip n sum} {s : Store κ} {n' d s'}
    (h : commitFile ctx strat skip n sum s = .ok (n', d, s')) : Step ctx s s' := by
  rcases commitFile_cases h with rfl | ⟨c, rfl⟩
  · exact Step.refl _ _
  · exact Step.put g s (.blob c)

/-- `commitFileArtifact` with `SkipCache`: the node stays, nothing is stored -/
theorem commitFile_skip {ctx : Ctx κ} {strat : Strat} {n : Option (Node κ)} {sum : Digest} {s : Store κ}
    {n' : Node κ} {d : Digest} {s' : Store κ}
    (h : commitFile ctx strat true n sum s = .ok (n', d, s')) : n = some n' ∧ s' = s := by
  unfold commitFile at h
  repeat' split at h
  all_goals first | (cases h; done) | (simp only [Except.ok.injEq, Prod.mk.injEq] at h; obtain ⟨rfl, _, rfl⟩ := h)
  all_goals first | exact ⟨rfl, rfl⟩ | simp_all

mutual
theorem commitNode_step {ctx : Ctx κ} (g : Good ctx) (strat : Strat) :
    ∀ (n : Node κ) (c : Child) (s : Store κ) {n' c' s'},
      commitNode ctx strat n c s = .ok (n', c', s') → Step ctx s s'
  | .dir es, c, s, n', c', s', h => by
    rw [commitNode] at h
    split at h
    · split at h
      · cases h
      · split at h
        · cases h
        · rename_i es' cs s1 he
          simp only [Except.ok.injEq, Prod.mk.injEq] at h
          obtain ⟨_, _, rfl⟩ := h
          exact (commitEntries_step g strat false es _ s he).trans (Step.put g _ _)
    · cases h
  | .file x, c, s, n', c', s', h => by
    rw [commitNode] at h
    split at h
    · cases h
    · split at h
      · cases h
      · rename_i hf
        simp only [Except.ok.injEq, Prod.mk.injEq] at h
        obtain ⟨_, _, rfl⟩ := h
        exact commitFile_step g hf
  | .link l, c, s, n', c', s', h => by
    rw [commitNode] at h
    split at h
    · cases h
    · split at h
      · cases h
      · rename_i hf
        simp only [Except.ok.injEq, Prod.mk.injEq] at h
        obtain ⟨_, _, rfl⟩ := h
        exact commitFile_step g hf
  | .other, c, s, n', c', s', h => by
    rw [commitNode] at h
    split at h
    · cases h
    · split at h
      · cases h
      · rename_i hf
        simp only [Except.ok.injEq, Prod.mk.injEq] at h
        obtain ⟨_, _, rfl⟩ := h
        exact commitFile_step g hf
theorem commitEntries_step {ctx : Ctx κ} (g : Good ctx) (strat : Strat) (skipDirs : Bool) :
    ∀ (es : List (Name × Node κ)) (old : List Child) (s : Store κ) {es' cs s'},
      commitEntries ctx strat skipDirs es old s = .ok (es', cs, s') → Step ctx s s'
  | [], old, s, es', cs, s', h => by
    rw [commitEntries] at h
    simp only [Except.ok.injEq, Prod.mk.injEq] at h
    obtain ⟨_, _, rfl⟩ := h
    exact .refl _ _
  | (nm, n) :: r, old, s, es', cs, s', h => by
    rw [commitEntries] at h
    split at h
    · split at h
      · cases h
      · rename_i hr
        simp only [Except.ok.injEq, Prod.mk.injEq] at h
        obtain ⟨_, _, rfl⟩ := h
        exact commitEntries_step g strat skipDirs r old s hr
    · split at h
      · cases h
      · dsimp only at h
        split at h
        · cases h
        · rename_i hn
          split at h
          · cases h
          · rename_i hr
            simp only [Except.ok.injEq, Prod.mk.injEq] at h
            obtain ⟨_, _, rfl⟩ := h
            exact (commitNode_step g strat n _ s hn).trans (commitEntries_step g strat skipDirs r old _ hr)
end

/-- `LocalCache.Commit` on whatever it finds: consistency is kept and no bytes are lost -/
theorem commitArt_step {ctx : Ctx κ} (g : Good ctx) (strat : Strat) (a : Art) (n : Option (Node κ))
    (s : Store κ) {n' d s'} (h : commitArt ctx strat a n s = .ok (n', d, s')) : Step ctx s s' := by
  unfold commitArt at h
  split at h
  · split at h
    · split at h
      · cases h
      · split at h
        · cases h
        · rename_i he
          simp only [Except.ok.injEq, Prod.mk.injEq] at h
          obtain ⟨_, _, rfl⟩ := h
          exact (commitEntries_step g strat _ _ _ s he).trans (Step.put g _ _)
    · cases h
    · cases h
  · exact commitFile_step g h

/-! ## world level: one artifact, a list of artifacts -/

/-- inversion of a successful `commitArtW` -/
theorem commitArtW_inv {cfg : Cfg κ} {strat : Strat} {a a' : Art} {w w' : World κ}
    (h : commitArtW cfg strat a w = .ok (a', w')) :
    ∃ n d s ws', commitArt cfg.ctx strat a (getPath w.ws (Path.comps a.path)) w.store = .ok (n, d, s) ∧
      setPath w.ws (Path.comps a.path) n = some ws' ∧ a' = { a with sum := d } ∧
      w' = { w with ws := ws', store := s } := by
  unfold commitArtW at h
  dsimp only at h
  split at h
  · cases h
  rename_i n d s hc
  split at h
  · cases h
  rename_i ws' hs
  simp only [Except.ok.injEq, Prod.mk.injEq] at h
  exact ⟨n, d, s, ws', hc, hs, h.1.symm, h.2.symm⟩

/-- committing a skip-cache file artifact changes neither the workspace nor the cache -/
theorem commitArtW_skip (cfg : Cfg κ) (strat : Strat) (a a' : Art) (w w' : World κ)
    (hskip : a.skip = true) (hfile : a.isDir = false) (h : commitArtW cfg strat a w = .ok (a', w')) :
    w' = w := by
  obtain ⟨n, d, s, ws', hc, hs, _, rfl⟩ := commitArtW_inv h
  unfold commitArt at hc
  rw [hfile, hskip] at hc
  simp only [Bool.false_eq_true, if_false] at hc
  obtain ⟨hn, rfl⟩ := commitFile_skip hc
  rw [setPath_getPath_same _ _ _ hn] at hs
  cases hs
  rfl

/-- a list of artifacts each of which is a skip-cache file or lies apart from `q`: what is found
at `q`, and whether `q` can be written, stays; the cache makes a `Step`; index and memo stay -/
theorem commitArts_elsewhere {cfg : Cfg κ} (g : Good cfg.ctx) (strat : Strat) :
    ∀ (as : List Art) {as' : List Art} {w w' : World κ},
      commitArts cfg strat as w = .ok (as', w') →
      Step cfg.ctx w.store w'.store ∧ w'.idx = w.idx ∧ w'.done = w.done ∧
      ∀ q, (∀ b, b ∈ as → (b.skip = true ∧ b.isDir = false) ∨ Apart (Path.comps b.path) q) →
        getPath w'.ws q = getPath w.ws q
  | [], as', w, w', h => by
    simp only [commitArts, Except.ok.injEq, Prod.mk.injEq] at h
    obtain ⟨_, rfl⟩ := h
    exact ⟨.refl _ _, rfl, rfl, fun _ _ => rfl⟩
  | a :: r, as', w, w', h => by
    rw [commitArts] at h
    split at h
    · cases h
    rename_i a1 w1 h1
    split at h
    · cases h
    rename_i r2 w2 h2
    simp only [Except.ok.injEq, Prod.mk.injEq] at h
    obtain ⟨_, rfl⟩ := h
    obtain ⟨st2, i2, d2, f2⟩ := commitArts_elsewhere g strat r h2
    obtain ⟨n, d, s, ws', hc, hs, _, rfl⟩ := commitArtW_inv h1
    refine ⟨(commitArt_step g strat a _ _ hc).trans st2, i2, d2, ?_⟩
    intro q hall
    rw [f2 q (fun b hb => hall b (List.mem_cons_of_mem _ hb))]
    rcases hall a List.mem_cons_self with ⟨hsk, hf⟩ | hd
    · have := commitArtW_skip cfg strat a a1 w _ hsk hf h1
      rw [this]
    · exact getPath_setPath_apart hd hs

/-! ## artifacts with pairwise non-overlapping paths -/

/-- no two artifacts of the list have overlapping paths -/
def ApartArts (as : List Art) : Prop :=
  as.Pairwise (fun a b => Apart (Path.comps a.path) (Path.comps b.path))

theorem ApartArts.paths_ne : ∀ {as : List Art}, ApartArts as →
    as.Pairwise (fun x y => x.path ≠ y.path)
  | [], _ => List.Pairwise.nil
  | a :: r, h => by
    have h' := List.pairwise_cons.1 h
    refine List.pairwise_cons.2 ⟨fun b hb e => ?_, ApartArts.paths_ne h'.2⟩
    have := h'.1 b hb
    rw [e] at this
    exact Apart.irrefl _ this

theorem pairwise_insertArt {R : Art → Art → Prop} (x : Art) : ∀ (m : List Art),
    m.Pairwise R → (∀ y, y ∈ m → R x y ∧ R y x) → (insertArt x m).Pairwise R
  | [], _, _ => by simp [insertArt]
  | y :: ys, hm, hx => by
    rw [List.pairwise_cons] at hm
    simp only [insertArt]
    split
    · exact List.pairwise_cons.2 ⟨fun z hz => (hx z (List.mem_cons_of_mem _ hz)).1, hm.2⟩
    · split
      · exact List.pairwise_cons.2 ⟨fun z hz => (hx z hz).1, List.pairwise_cons.2 hm⟩
      · refine List.pairwise_cons.2 ⟨fun z hz => ?_, pairwise_insertArt x ys hm.2
          (fun z hz => hx z (List.mem_cons_of_mem _ hz))⟩
        rcases mem_insertArt hz with rfl | hz
        · exact (hx y List.mem_cons_self).2
        · exact hm.1 z hz

/-- sorting keeps a symmetric pairwise relation -/
theorem pairwise_sortArts {R : Art → Art → Prop} (hsym : ∀ a b, R a b → R b a) : ∀ (l : List Art),
    l.Pairwise R → (sortArts l).Pairwise R
  | [], _ => by simp [sortArts]
  | x :: xs, h => by
    rw [List.pairwise_cons] at h
    have : sortArts (x :: xs) = insertArt x (sortArts xs) := rfl
    rw [this]
    refine pairwise_insertArt x _ (pairwise_sortArts hsym xs h.2) (fun y hy => ?_)
    have := h.1 y (mem_of_mem_sortArts hy)
    exact ⟨this, hsym _ _ this⟩

theorem ApartArts.sortArts {as : List Art} (h : ApartArts as) : ApartArts (sortArts as) :=
  pairwise_sortArts (fun _ _ h => h.symm) as h

/-- the property depends on the paths only -/
theorem ApartArts.of_paths : ∀ {as as' : List Art}, ApartArts as →
    as'.map (·.path) = as.map (·.path) → ApartArts as'
  | [], [], _, _ => List.Pairwise.nil
  | [], _ :: _, _, hp => by simp at hp
  | _ :: _, [], _, hp => by simp at hp
  | a :: r, a' :: r', h, hp => by
    simp only [List.map_cons, List.cons.injEq] at hp
    have h' := List.pairwise_cons.1 h
    refine List.pairwise_cons.2 ⟨fun b' hb' => ?_, ApartArts.of_paths h'.2 hp.2⟩
    have hm : b'.path ∈ r.map (·.path) := by
      rw [← hp.2]; exact List.mem_map.2 ⟨b', hb', rfl⟩
    obtain ⟨b, hb, hbp⟩ := List.mem_map.1 hm
    have := h'.1 b hb
    rw [hp.1, ← hbp]
    exact this

/-! ## `setStage` -/

theorem alookup_setStage_ne (idx : Index) {sp x : Bytes} (s : Stage) (h : x ≠ sp) :
    alookup (setStage idx sp s) x = alookup idx x := by
  induction idx with
  | nil => rfl
  | cons e r ih =>
    obtain ⟨k, v⟩ := e
    simp only [setStage, List.map_cons] at ih ⊢
    by_cases hk : k = sp
    · subst hk
      have : (k == x) = false := by simpa using fun e => h e.symm
      simp only [beq_self_eq_true, if_true, alookup, this, Bool.false_eq_true, if_false]
      exact ih
    · have hk' : (k == sp) = false := by simpa using hk
      simp only [hk', Bool.false_eq_true, if_false, alookup]
      split
      · rfl
      · exact ih

theorem alookup_setStage_self (idx : Index) {sp : Bytes} (s : Stage) {s0 : Stage}
    (h : alookup idx sp = some s0) : alookup (setStage idx sp s) sp = some s := by
  induction idx with
  | nil => simp [alookup] at h
  | cons e r ih =>
    obtain ⟨k, v⟩ := e
    simp only [setStage, List.map_cons] at ih ⊢
    by_cases hk : k = sp
    · subst hk
      simp [alookup]
    · have hk' : (k == sp) = false := by simpa using hk
      simp only [alookup, hk', Bool.false_eq_true, if_false] at h ⊢
      exact ih h

theorem mem_of_alookup {idx : Index} {sp : Bytes} {s : Stage} (h : alookup idx sp = some s) :
    (sp, s) ∈ idx := alookup_mem h

theorem mem_keys_of_alookup {idx : Index} {sp : Bytes} {s : Stage} (h : alookup idx sp = some s) :
    sp ∈ idx.map (·.1) := List.mem_map.2 ⟨(sp, s), alookup_mem h, rfl⟩

theorem alookup_isSome_of_mem_keys {idx : Index} {sp : Bytes} (h : sp ∈ idx.map (·.1)) :
    ∃ s, alookup idx sp = some s := by
  induction idx with
  | nil => simp at h
  | cons e r ih =>
    obtain ⟨k, v⟩ := e
    by_cases hk : k = sp
    · subst hk; exact ⟨v, by simp [alookup]⟩
    · have hk' : (k == sp) = false := by simpa using hk
      simp only [List.map_cons, List.mem_cons] at h
      rcases h with h | h
      · exact absurd h.symm hk
      · obtain ⟨s, hs⟩ := ih h
        exact ⟨s, by simp [alookup, hk', hs]⟩

/-! ## progress of the recursive traversal -/

section Progress
variable {σ : Type} {T : Trav σ} {own : Bytes → List Bytes} {Inv : σ → Prop}

/-- the position in a duplicate-free log is a rank: `Before` means a smaller position -/
theorem idxOf_lt_of_before {l : List Bytes} (hn : l.Nodup) {o x : Bytes} (h : Before l o x) :
    l.idxOf o < l.idxOf x := by
  obtain ⟨l1, l2, l3, rfl⟩ := h
  have hx : x ∉ l1 ++ o :: l2 := by
    intro hx
    rw [List.nodup_append] at hn
    exact hn.2.2 x hx x List.mem_cons_self rfl
  have ho : o ∈ l1 ++ o :: l2 := by simp
  have e1 : (l1 ++ o :: l2 ++ x :: l3).idxOf o = (l1 ++ o :: l2).idxOf o := by
    rw [List.idxOf_append (l₁ := l1 ++ o :: l2), if_pos ho]
  have e2 : (l1 ++ o :: l2 ++ x :: l3).idxOf x = (l1 ++ o :: l2).length := by
    rw [List.idxOf_append (l₁ := l1 ++ o :: l2), if_neg hx, List.idxOf_cons_self, Nat.zero_add]
  rw [e1, e2]
  exact List.idxOf_lt_length_of_mem ho

/-- visiting owners with `sp` removed from the recursion stack does not finish `sp` -/
theorem visitAll_not_done (hT : T.LawfulOn own Inv) {fuel : Nat} {avail os : List Bytes} {sp : Bytes}
    {st st' : σ} (hi : Inv st) (hnd : T.isDone st sp = false)
    (h : visitAll (visit T true fuel (avail.filter (· != sp))) os st = .ok st') :
    T.isDone st' sp = false := by
  obtain ⟨l', hl⟩ := visitAll_ok_logged h []
  obtain ⟨t1, _⟩ := visitAll_trace
    (fun o q q' hq hv => visit_trace hT fuel (avail.filter (· != sp)) o q q' hq hv)
    os (st, []) (st', l') hi hl
  obtain ⟨d, _, _, _, h4, h5, _⟩ := t1
  rw [h5]
  show (T.isDone st sp || d.contains sp) = false
  rw [hnd, Bool.false_or]
  cases hc : d.contains sp with
  | false => rfl
  | true =>
    have := (h4 sp (by simpa using hc)).1
    simp at this

/-- **Progress.** On a set `S` of stages closed under owners, with a rank decreasing along owners,
the recursive traversal succeeds as soon as the owners can be computed and the action succeeds
whenever it is invoked (stage not done, all its owners done); `Q` is an invariant of these actions. -/
theorem visit_progress (hT : T.LawfulOn own Inv) {Q : σ → Prop} {S : Bytes → Prop} {rank : Bytes → Nat}
    (hrank : ∀ x, S x → ∀ o, o ∈ own x → S o ∧ rank o < rank x)
    (hown : ∀ st sp, Inv st → S sp → ∃ os, T.owners st sp = .ok os)
    (hact : ∀ st sp, Inv st → Q st → S sp → T.isDone st sp = false →
      (∀ o, o ∈ own sp → T.isDone st o = true) → ∃ st', T.act sp st = .ok st' ∧ Q st') :
    ∀ (fuel : Nat) (avail : List Bytes) (sp : Bytes) (st : σ), Inv st → Q st → S sp → rank sp < fuel →
      (∀ x, S x → rank x ≤ rank sp → x ∈ avail) →
      ∃ st', visit T true fuel avail sp st = .ok st' ∧ Q st' := by
  intro fuel
  induction fuel with
  | zero => intro _ _ _ _ _ _ hf; omega
  | succ fuel ih =>
    intro avail sp st hi hq hs hf hav
    by_cases hd : T.isDone st sp = true
    · exact ⟨st, by simp [visit, hd], hq⟩
    · have hnd : T.isDone st sp = false := by simpa using hd
      have hmem : sp ∈ avail := hav sp hs (Nat.le_refl _)
      obtain ⟨os, hos⟩ := hown st sp hi hs
      have hsub := hT.owners_eq st sp os hi hos
      have key : ∀ (l : List Bytes) (st1 : σ), (∀ o, o ∈ l → o ∈ own sp) → Inv st1 → Q st1 →
          ∃ st2, visitAll (visit T true fuel (avail.filter (· != sp))) l st1 = .ok st2 ∧ Q st2 := by
        intro l
        induction l with
        | nil => intro st1 _ _ hq1; exact ⟨st1, rfl, hq1⟩
        | cons o l ihl =>
          intro st1 hl hi1 hq1
          have ho := hrank sp hs o (hl o List.mem_cons_self)
          obtain ⟨st2, hv, hq2⟩ := ih (avail.filter (· != sp)) o st1 hi1 hq1 ho.1 (by omega)
            (fun x hx hrx => List.mem_filter.2 ⟨hav x hx (by omega), by
              simp only [bne_iff_ne, ne_eq]
              rintro rfl
              omega⟩)
          have hi2 := (visit_ok hT hi1 hv).1
          obtain ⟨st3, hv3, hq3⟩ := ihl st2 (fun o' ho' => hl o' (List.mem_cons_of_mem _ ho')) hi2 hq2
          exact ⟨st3, by simp only [visitAll, hv, hv3], hq3⟩
      obtain ⟨st1, hv1, hq1⟩ := key os st (fun o ho => (hsub o).1 ho) hi hq
      obtain ⟨hi1, hd1⟩ := visitAll_ok hT hi hv1
      have hnd1 := visitAll_not_done hT hi hnd hv1
      obtain ⟨st', ha, hq'⟩ := hact st1 sp hi1 hq1 hs hnd1 (fun o ho => hd1 o ((hsub o).2 ho))
      refine ⟨st', ?_, hq'⟩
      have hc : avail.contains sp = true := by simpa using hmem
      simp only [visit, hnd, Bool.false_eq_true, if_false, hc, Bool.not_true, hos, if_true, hv1, ha]

end Progress

section ProgressCmd
variable {T : Trav (World κ)} {own : Bytes → List Bytes} {Inv : World κ → Prop}

/-- progress of a whole recursive command -/
theorem perTarget_progress (hT : T.LawfulOn own Inv) {Q : World κ → Prop} {S : Bytes → Prop}
    {rank : Bytes → Nat}
    (hrank : ∀ x, S x → ∀ o, o ∈ own x → S o ∧ rank o < rank x)
    (hown : ∀ st sp, Inv st → S sp → ∃ os, T.owners st sp = .ok os)
    (hact : ∀ st sp, Inv st → Q st → S sp → T.isDone st sp = false →
      (∀ o, o ∈ own sp → T.isDone st o = true) → ∃ st', T.act sp st = .ok st' ∧ Q st')
    (F : World κ → Nat) (A : World κ → List Bytes)
    (hFA : ∀ w, Inv w → ∀ x, S x → rank x < F w ∧ x ∈ A w ∧ (alookup w.idx x).isSome = true) :
    ∀ (ts : List Bytes) (w : World κ), (∀ t, t ∈ ts → S t) → Inv w → Q w →
      ∃ w', perTarget (fun t w => visit T true (F w) (A w) t w) ts w = .ok w' ∧ Inv w' ∧ Q w'
  | [], w, _, hi, hq => ⟨w, rfl, hi, hq⟩
  | t :: r, w, hts, hi, hq => by
    have hS := hts t List.mem_cons_self
    obtain ⟨w1, hv, hq1⟩ := visit_progress hT hrank hown hact (F w) (A w) t w hi hq hS
      (hFA w hi t hS).1 (fun x hx _ => (hFA w hi x hx).2.1)
    have hi1 := (visit_ok hT hi hv).1
    obtain ⟨w2, hp, hi2, hq2⟩ := perTarget_progress hT hrank hown hact F A hFA r w1
      (fun t' ht' => hts t' (List.mem_cons_of_mem _ ht')) hi1 hq1
    refine ⟨w2, ?_, hi2, hq2⟩
    have hk : (alookup w.idx t).isNone = false := by
      have := (hFA w hi t hS).2.2
      cases h : alookup w.idx t with
      | none => rw [h] at this; cases this
      | some _ => rfl
    simp only [perTarget, hk, Bool.false_eq_true, if_false, hv, hp]

theorem perTarget_congr {f g : Bytes → World κ → Except Err (World κ)} (h : ∀ t w, f t w = g t w) :
    ∀ (ts : List Bytes) (w : World κ), perTarget f ts w = perTarget g ts w
  | [], _ => rfl
  | t :: r, w => by
    simp only [perTarget, h t w]
    split
    · rfl
    · cases g t w with
      | error e => rfl
      | ok w' => exact perTarget_congr h r w'

end ProgressCmd

end Dud.WT
