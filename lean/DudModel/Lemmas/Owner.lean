import DudModel.OwnerSpec
/-!
# Lemmas for C10: Go's path functions on clean relative paths, the owner walk, overlap checks
-/
namespace Dud

/-! ## path algebra on good components -/

namespace Path

theorem splitSlash_ne_nil : ∀ s : Bytes, splitSlash s ≠ []
  | [] => by simp [splitSlash]
  | b :: r => by
    have := splitSlash_ne_nil r
    unfold splitSlash
    split
    · simp
    · split <;> simp

theorem splitSlash_noslash : ∀ {c : Bytes}, slash ∉ c → splitSlash c = [c]
  | [], _ => by simp [splitSlash]
  | b :: r, h => by
    have hb : b ≠ slash := fun e => h (by simp [e])
    have hr : slash ∉ r := fun e => h (by simp [e])
    simp [splitSlash, hb, splitSlash_noslash hr]

theorem splitSlash_append_slash : ∀ {c : Bytes} (r : Bytes), slash ∉ c →
    splitSlash (c ++ slash :: r) = c :: splitSlash r
  | [], r, _ => by simp [splitSlash]
  | b :: c, r, h => by
    have hb : b ≠ slash := fun e => h (by simp [e])
    have hr : slash ∉ c := fun e => h (by simp [e])
    simp [splitSlash, hb, splitSlash_append_slash r hr]

theorem intercalate_cons_cons (x y : Bytes) (r : List Bytes) :
    intercalate (x :: y :: r) = x ++ slash :: intercalate (y :: r) := by
  simp [intercalate]

theorem intercalate_cons_of_ne_nil (x : Bytes) {r : List Bytes} (h : r ≠ []) :
    intercalate (x :: r) = x ++ slash :: intercalate r := by
  cases r with
  | nil => exact absurd rfl h
  | cons y r => exact intercalate_cons_cons x y r

theorem intercalate_snoc : ∀ {cs : List Bytes} (c : Bytes), cs ≠ [] →
    intercalate (cs ++ [c]) = intercalate cs ++ slash :: c
  | [], _, h => absurd rfl h
  | [x], c, _ => by simp [intercalate]
  | x :: y :: r, c, _ => by
    have ih := intercalate_snoc (cs := y :: r) c (by simp)
    rw [intercalate_cons_cons]
    have : (x :: y :: r) ++ [c] = x :: (y :: (r ++ [c])) := by simp
    rw [this, intercalate_cons_cons]
    have : y :: (r ++ [c]) = (y :: r) ++ [c] := by simp
    rw [this, ih]; simp

/-- `strings.Split(strings.Join(cs, "/"), "/") = cs` -/
theorem splitSlash_intercalate : ∀ {cs : List Bytes}, cs ≠ [] → (∀ c ∈ cs, slash ∉ c) →
    splitSlash (intercalate cs) = cs
  | [], h, _ => absurd rfl h
  | [x], _, h => by simpa [intercalate] using splitSlash_noslash (h x (by simp))
  | x :: y :: r, _, h => by
    rw [intercalate_cons_cons, splitSlash_append_slash _ (h x (by simp)),
      splitSlash_intercalate (cs := y :: r) (by simp) (fun c hc => h c (by simp [hc]))]

/-- `strings.Join(strings.Split(s, "/"), "/") = s` -/
theorem intercalate_splitSlash : ∀ s : Bytes, intercalate (splitSlash s) = s
  | [] => by simp [splitSlash, intercalate]
  | b :: r => by
    have ih := intercalate_splitSlash r
    have hne := splitSlash_ne_nil r
    unfold splitSlash
    split
    · rename_i hb
      have : b = slash := by simpa using hb
      rw [intercalate_cons_of_ne_nil _ hne, ih, this]; simp
    · split
      · rename_i h; exact absurd h hne
      · rename_i x xs h
        rw [h] at ih
        cases xs with
        | nil => simp [intercalate] at ih ⊢; exact ih
        | cons y ys =>
          rw [intercalate_cons_cons] at ih ⊢
          rw [← ih]; simp

theorem splitSlash_noslash_mem : ∀ (s : Bytes), ∀ c ∈ splitSlash s, slash ∉ c
  | [], c, hc => by simp [splitSlash] at hc; simp [hc]
  | b :: r, c, hc => by
    have ih := splitSlash_noslash_mem r
    have hne := splitSlash_ne_nil r
    unfold splitSlash at hc
    split at hc
    · rcases List.mem_cons.1 hc with h | h
      · simp [h]
      · exact ih c h
    · rename_i hb
      have hb : b ≠ slash := by simpa using hb
      split at hc
      · rename_i h; exact absurd h hne
      · rename_i x xs h
        rcases List.mem_cons.1 hc with h' | h'
        · have := ih x (by simp [h])
          subst h'
          intro hm
          rcases List.mem_cons.1 hm with e | e
          · exact hb e.symm
          · exact this e
        · exact ih c (by simp [h, h'])

end Path

open Path

theorem GoodComp.ne_nil {c : Bytes} (h : GoodComp c) : c ≠ [] := h.1
theorem GoodComp.noslash {c : Bytes} (h : GoodComp c) : slash ∉ c := h.2.2.2

theorem goodCompB_iff (c : Bytes) : goodCompB c = true ↔ GoodComp c := by
  simp [goodCompB, GoodComp, and_assoc]

/-- leading byte of a good path is not '/' -/
theorem isAbs_intercalate {cs : List Bytes} (hne : cs ≠ []) (h : ∀ c ∈ cs, GoodComp c) :
    isAbs (intercalate cs) = false := by
  cases cs with
  | nil => exact absurd rfl hne
  | cons x r =>
    have hx := h x (by simp)
    cases x with
    | nil => exact absurd rfl hx.1
    | cons b x =>
      have hb : b ≠ slash := fun e => hx.noslash (by simp [e])
      cases r with
      | nil => simp [isAbs, intercalate, hb]
      | cons y r => simp [isAbs, intercalate, hb]

theorem normAux_good (rooted : Bool) : ∀ (cs acc : List Bytes), (∀ c ∈ cs, GoodComp c) →
    normAux rooted acc cs = acc.reverse ++ cs
  | [], acc, _ => by simp [normAux]
  | c :: cs, acc, h => by
    have hc := h c (by simp)
    have ih := normAux_good rooted cs (c :: acc) (fun c hc => h c (by simp [hc]))
    obtain ⟨h1, h2, h3, _⟩ := hc
    simp [normAux, h1, h2, h3, ih]

theorem intercalate_ne_nil {cs : List Bytes} (hne : cs ≠ []) (h : ∀ c ∈ cs, GoodComp c) :
    intercalate cs ≠ [] := by
  cases cs with
  | nil => exact absurd rfl hne
  | cons x r =>
    have hx := (h x (by simp)).1
    cases r with
    | nil => simpa [intercalate] using hx
    | cons y r => simp [intercalate, hx]

/-- `comps` of a clean relative path are the components it was assembled from -/
theorem comps_intercalate {cs : List Bytes} (hne : cs ≠ []) (h : ∀ c ∈ cs, GoodComp c) :
    comps (intercalate cs) = cs := by
  simp [comps, norm, parse, splitSlash_intercalate hne (fun c hc => (h c hc).noslash),
    normAux_good _ _ _ h]

/-- `filepath.Clean` is the identity on clean relative paths -/
theorem clean_intercalate {cs : List Bytes} (hne : cs ≠ []) (h : ∀ c ∈ cs, GoodComp c) :
    clean (intercalate cs) = intercalate cs := by
  have hne' : cs.isEmpty = false := by cases cs <;> simp_all
  simp [clean, render, norm, parse, splitSlash_intercalate hne (fun c hc => (h c hc).noslash),
    normAux_good _ _ _ h, isAbs_intercalate hne h, hne']

theorem clean_good {c : Bytes} (h : GoodComp c) : clean c = c := by
  simpa [intercalate] using clean_intercalate (cs := [c]) (by simp) (by simpa using h)

theorem clean_dot : clean [dot] = [dot] := by decide

theorem splitSlash_dot : splitSlash [dot] = [[dot]] := by decide

theorem comps_dot : comps [dot] = [] := by decide

/-- `filepath.Dir` drops the last component … -/
theorem dir_intercalate_snoc {cs : List Bytes} (c : Bytes) (hne : cs ≠ [])
    (h : ∀ x ∈ cs ++ [c], GoodComp x) : dir (intercalate (cs ++ [c])) = intercalate cs := by
  have hcs : ∀ x ∈ cs, GoodComp x := fun x hx => h x (by simp [hx])
  have h1 : splitSlash (intercalate (cs ++ [c])) = cs ++ [c] :=
    splitSlash_intercalate (by simp) (fun x hx => (h x hx).noslash)
  have hne' : cs.isEmpty = false := by cases cs <;> simp_all
  simp [dir, h1, hne', intercalate_ne_nil hne hcs, clean_intercalate hne hcs]

/-- … and is "." for a single component -/
theorem dir_single {c : Bytes} (h : GoodComp c) : dir c = [dot] := by
  simp [dir, splitSlash_noslash h.noslash]

theorem dir_intercalate_nil_snoc {c : Bytes} (h : GoodComp c) : dir (intercalate ([] ++ [c])) = [dot] := by
  simpa [intercalate] using dir_single h

/-- `filepath.Join(dir, part)` appends a component -/
theorem join_intercalate {cs : List Bytes} (c : Bytes) (hne : cs ≠ [])
    (h : ∀ x ∈ cs ++ [c], GoodComp x) : join [intercalate cs, c] = intercalate (cs ++ [c]) := by
  have hcs : ∀ x ∈ cs, GoodComp x := fun x hx => h x (by simp [hx])
  have hc : c ≠ [] := (h c (by simp)).1
  have h1 : (intercalate cs).isEmpty = false := by
    have := intercalate_ne_nil hne hcs
    cases hh : intercalate cs <;> simp_all
  have h2 : c.isEmpty = false := by cases c <;> simp_all
  have := clean_intercalate (cs := cs ++ [c]) (by simp) h
  rw [intercalate_snoc c hne] at this
  simp [join, h1, h2, intercalate, this, intercalate_snoc c hne]

/-- `filepath.Join("", part) = part` -/
theorem join_nil_good {c : Bytes} (h : GoodComp c) : join [[], c] = c := by
  have h2 : c.isEmpty = false := by cases c <;> simp_all [GoodComp]
  simp [join, h2, intercalate, clean_good h]

theorem join_nil_dot : join [[], [dot]] = [dot] := by decide

/-- `strings.Join(·, "/")` is injective on good components -/
theorem intercalate_inj {cs ds : List Bytes} (hc : cs ≠ []) (hd : ds ≠ [])
    (h1 : ∀ c ∈ cs, GoodComp c) (h2 : ∀ c ∈ ds, GoodComp c)
    (e : intercalate cs = intercalate ds) : cs = ds := by
  rw [← splitSlash_intercalate hc (fun c hx => (h1 c hx).noslash),
    ← splitSlash_intercalate hd (fun c hx => (h2 c hx).noslash), e]

theorem cleanRelB_iff (p : Bytes) : cleanRelB p = true ↔ CleanRel p := by
  constructor
  · intro h
    refine ⟨splitSlash p, splitSlash_ne_nil p, ?_, (intercalate_splitSlash p).symm⟩
    intro c hc
    exact (goodCompB_iff c).1 (List.all_eq_true.1 h c hc)
  · rintro ⟨cs, hne, hg, rfl⟩
    rw [cleanRelB, splitSlash_intercalate hne (fun c hc => (hg c hc).noslash)]
    exact List.all_eq_true.2 fun c hc => (goodCompB_iff c).2 (hg c hc)

instance (p : Bytes) : Decidable (CleanRel p) := decidable_of_iff _ (cleanRelB_iff p)

theorem CleanRel.comps {p : Bytes} (h : CleanRel p) :
    Path.comps p ≠ [] ∧ (∀ c ∈ Path.comps p, GoodComp c) ∧ p = intercalate (Path.comps p) := by
  obtain ⟨cs, hne, hg, rfl⟩ := h
  rw [comps_intercalate hne hg]; exact ⟨hne, hg, rfl⟩

theorem CleanRel.isAbs {p : Bytes} (h : CleanRel p) : Path.isAbs p = false := by
  obtain ⟨cs, hne, hg, rfl⟩ := h; exact isAbs_intercalate hne hg

/-! ## `findArt` -/

theorem findArt_some {arts : List Art} {p : Bytes} {o : Art} (h : findArt arts p = some o) :
    o ∈ arts ∧ o.path = p := by
  refine ⟨List.mem_of_find?_eq_some h, ?_⟩
  simpa using List.find?_some h

theorem findArt_eq_none {arts : List Art} {p : Bytes} :
    findArt arts p = none ↔ ∀ o ∈ arts, o.path ≠ p := by
  simp [findArt]

theorem findArt_isSome {arts : List Art} {p : Bytes} :
    (findArt arts p).isSome = true ↔ ∃ o ∈ arts, o.path = p := by
  simp [findArt]

/-- in a map (one entry per path) looking up the path of an entry returns that entry -/
theorem findArt_of_mem : ∀ {arts : List Art} {o : Art}, (arts.map (·.path)).Nodup → o ∈ arts →
    findArt arts o.path = some o
  | [], _, _, h => by simp at h
  | a :: r, o, hnd, h => by
    rw [List.map_cons, List.nodup_cons] at hnd
    rcases List.mem_cons.1 h with e | e
    · subst e; simp [findArt]
    · have hne : a.path ≠ o.path := by
        intro e'; exact hnd.1 (e' ▸ List.mem_map_of_mem (f := (·.path)) e)
      have ih := findArt_of_mem hnd.2 e
      simp only [findArt] at ih ⊢
      rw [List.find?_cons_of_neg (by simpa using hne)]; exact ih

/-! ## the ancestor walk (accumulating variant) -/

theorem join_step {pre : List Bytes} {part : Bytes} (h : ∀ x ∈ pre ++ [part], GoodComp x) :
    join [intercalate pre, part] = intercalate (pre ++ [part]) := by
  cases pre with
  | nil => simpa [intercalate] using join_nil_good (h part (by simp))
  | cons a pre => exact join_intercalate part (by simp) h

/-- one iteration of the loop of `FindDirArtifactOwnerForPath`, in terms of components -/
theorem ownerWalk_step {arts : List Art} {pre r : List Bytes} {part : Bytes}
    (hg : ∀ x ∈ pre ++ part :: r, GoodComp x) :
    ownerWalk true arts (intercalate (pre ++ part :: r)) (intercalate pre) (part :: r) =
      match findArt arts (intercalate (pre ++ [part])) with
      | some o => if o.noRec = false ∨ r = [] then some o
                  else ownerWalk true arts (intercalate (pre ++ part :: r)) (intercalate (pre ++ [part])) r
      | none => ownerWalk true arts (intercalate (pre ++ part :: r)) (intercalate (pre ++ [part])) r := by
  have hg' : ∀ x ∈ pre ++ [part], GoodComp x := fun x hx => hg x (by
    rcases List.mem_append.1 hx with h | h
    · exact List.mem_append_left _ h
    · simp at h; simp [h])
  have hfull : (intercalate (pre ++ [part]) == intercalate (pre ++ part :: r)) = decide (r = []) := by
    rw [Bool.eq_iff_iff]
    simp only [beq_iff_eq, decide_eq_true_eq]
    constructor
    · intro e
      have := intercalate_inj (by simp) (by simp) hg' hg e
      simpa using this
    · rintro rfl; rfl
  rw [ownerWalk]
  simp only [if_true, join_step hg', hfull]
  cases findArt arts (intercalate (pre ++ [part])) with
  | none => rfl
  | some o => cases o.noRec <;> by_cases hr : r = [] <;> simp [hr]

theorem ownerWalk_sound {arts : List Art} {o : Art} : ∀ (rest pre : List Bytes),
    (∀ x ∈ pre ++ rest, GoodComp x) →
    ownerWalk true arts (intercalate (pre ++ rest)) (intercalate pre) rest = some o →
    ∃ pre' part' r', pre ++ rest = pre' ++ part' :: r' ∧
      findArt arts (intercalate (pre' ++ [part'])) = some o ∧ (o.noRec = false ∨ r' = [])
  | [], pre, _, h => by simp [ownerWalk] at h
  | part :: r, pre, hg, h => by
    rw [ownerWalk_step hg] at h
    have e : pre ++ part :: r = (pre ++ [part]) ++ r := by simp
    have hg2 : ∀ x ∈ (pre ++ [part]) ++ r, GoodComp x := e ▸ hg
    split at h
    · rename_i o' ho'
      split at h
      · rename_i hc
        cases h
        exact ⟨pre, part, r, rfl, ho', hc⟩
      · rw [e] at h ⊢
        exact ownerWalk_sound r (pre ++ [part]) hg2 h
    · rw [e] at h ⊢
      exact ownerWalk_sound r (pre ++ [part]) hg2 h

theorem ownerWalk_complete {arts : List Art} {o : Art} : ∀ (rest pre : List Bytes),
    (∀ x ∈ pre ++ rest, GoodComp x) → ∀ k, pre.length < k → k ≤ (pre ++ rest).length →
    findArt arts (intercalate ((pre ++ rest).take k)) = some o →
    (o.noRec = false ∨ k = (pre ++ rest).length) →
    (ownerWalk true arts (intercalate (pre ++ rest)) (intercalate pre) rest).isSome = true
  | [], pre, _, k, h1, h2, _, _ => by simp at h2; omega
  | part :: r, pre, hg, k, h1, h2, hf, hc => by
    rw [ownerWalk_step hg]
    have e : pre ++ part :: r = (pre ++ [part]) ++ r := by simp
    have hg2 : ∀ x ∈ (pre ++ [part]) ++ r, GoodComp x := e ▸ hg
    by_cases hk : k = pre.length + 1
    · have ht : (pre ++ part :: r).take k = pre ++ [part] := by
        rw [e]; exact List.take_left' (by simp [hk])
      rw [ht] at hf
      rw [hf]
      have : o.noRec = false ∨ r = [] := by
        rcases hc with h | h
        · exact Or.inl h
        · right
          have : r.length = 0 := by simp at h; omega
          exact List.eq_nil_of_length_eq_zero this
      simp [this]
    · have ih := ownerWalk_complete (arts := arts) (o := o) r (pre ++ [part]) hg2 k
        (by simp; omega) (by rw [← e]; exact h2) (by rw [← e]; exact hf) (by rw [← e]; exact hc)
      rw [← e] at ih
      split
      · split
        · rfl
        · exact ih
      · exact ih

/-! ## `Inside` -/

theorem Inside.congr_left {x y d : Art} (h : x.path = y.path) : Inside x d ↔ Inside y d := by
  simp [Inside, h]

theorem Inside.irrefl_path {x d : Art} (h : Inside x d) : x.path ≠ d.path := by
  intro e
  have := h.1
  rw [e] at this
  exact Nat.lt_irrefl _ this

theorem Overlaps.symm {a b : Art} (h : Overlaps a b) : Overlaps b a := by
  rcases h with h | h | h
  · exact Or.inl h.symm
  · exact Or.inr (Or.inr h)
  · exact Or.inr (Or.inl h)

theorem Overlaps.comm {a b : Art} : Overlaps a b ↔ Overlaps b a := ⟨Overlaps.symm, Overlaps.symm⟩

theorem Overlaps.refl (a : Art) : Overlaps a a := Or.inl rfl

/-! ## `findDirOwner` decides `Inside` -/

theorem CleanRel.split {p : Bytes} (h : CleanRel p) :
    ∃ ds c, (∀ x ∈ ds ++ [c], GoodComp x) ∧ p = intercalate (ds ++ [c]) := by
  obtain ⟨cs, hne, hg, rfl⟩ := h
  rcases List.eq_nil_or_concat cs with e | ⟨ds, c, e⟩
  · exact absurd e hne
  · rw [List.concat_eq_append] at e
    subst e
    exact ⟨ds, c, hg, rfl⟩

/-- the walk is sound: a reported owner is an entry of the map and the path lies inside it -/
theorem findDirOwner_sound' {p : Bytes} {arts : List Art} {o : Art} (hp : CleanRel p)
    (h : findDirOwner true p arts = some o) : o ∈ arts ∧ ∀ x : Art, x.path = p → Inside x o := by
  obtain ⟨ds, c, hg, rfl⟩ := hp.split
  have hc : GoodComp c := hg c (by simp)
  have hgd : ∀ x ∈ ds, GoodComp x := fun x hx => hg x (by simp [hx])
  have hpc : comps (intercalate (ds ++ [c])) = ds ++ [c] := comps_intercalate (by simp) hg
  by_cases hds : ds = []
  · subst hds
    simp only [findDirOwner, dir_intercalate_nil_snoc hc, splitSlash_dot, ownerWalk, if_true,
      join_nil_dot, beq_self_eq_true, Bool.or_true] at h
    cases hf : findArt arts [dot] with
    | none => simp [hf] at h
    | some o' =>
      simp [hf] at h
      subst h
      obtain ⟨hm, hpth⟩ := findArt_some hf
      refine ⟨hm, fun x hx => ?_⟩
      have hpc' : comps (intercalate [c]) = [c] := by simpa using hpc
      simp [Inside, hx, hpth, hpc', comps_dot]
  · simp only [findDirOwner, dir_intercalate_snoc c hds hg,
      splitSlash_intercalate hds (fun x hx => (hgd x hx).noslash)] at h
    have h' : ownerWalk true arts (intercalate ([] ++ ds)) (intercalate []) ds = some o := by
      simpa [intercalate] using h
    obtain ⟨pre', part', r', e, hf, hcnd⟩ := ownerWalk_sound ds [] (by simpa using hgd) h'
    simp only [List.nil_append] at e
    obtain ⟨hm, hpth⟩ := findArt_some hf
    have hgo : ∀ x ∈ pre' ++ [part'], GoodComp x := fun x hx => hgd x (by
      rw [e]; rcases List.mem_append.1 hx with h | h
      · exact List.mem_append_left _ h
      · simp at h; simp [h])
    have hoc : comps o.path = pre' ++ [part'] := by rw [hpth]; exact comps_intercalate (by simp) hgo
    refine ⟨hm, fun x hx => ?_⟩
    subst e
    simp only [Inside, hx, hpc, hoc]
    refine ⟨by simp, ?_, ?_⟩
    · have : pre' ++ part' :: r' ++ [c] = (pre' ++ [part']) ++ (r' ++ [c]) := by simp
      rw [this]; exact List.take_left' (by simp)
    rcases hcnd with h | h
    · exact Or.inl h
    · right; simp [h]

/-- the walk is complete: if the path lies inside an entry of the map, some owner is reported -/
theorem findDirOwner_complete' {p : Bytes} {arts : List Art} (hp : CleanRel p)
    (hnd : (arts.map (·.path)).Nodup)
    (h : ∃ o ∈ arts, CleanRel o.path ∧ ∀ x : Art, x.path = p → Inside x o) :
    (findDirOwner true p arts).isSome = true := by
  obtain ⟨o, hm, hoc, hin⟩ := h
  have hin := hin ⟨p, "", false, false, false⟩ rfl
  obtain ⟨ds, c, hg, rfl⟩ := hp.split
  have hc : GoodComp c := hg c (by simp)
  have hgd : ∀ x ∈ ds, GoodComp x := fun x hx => hg x (by simp [hx])
  have hpc : comps (intercalate (ds ++ [c])) = ds ++ [c] := comps_intercalate (by simp) hg
  obtain ⟨hone, _, hop⟩ := hoc.comps
  simp only [Inside, hpc] at hin
  obtain ⟨hlen, htake, hcnd⟩ := hin
  have hk0 : 0 < (comps o.path).length := List.length_pos_iff.2 hone
  have hk1 : (comps o.path).length ≤ ds.length := by simp at hlen; omega
  rw [List.take_append_of_le_length hk1] at htake
  by_cases hds : ds = []
  · subst hds; exact absurd (List.eq_nil_of_length_eq_zero (Nat.le_zero.1 hk1)) hone
  · simp only [findDirOwner, dir_intercalate_snoc c hds hg,
      splitSlash_intercalate hds (fun x hx => (hgd x hx).noslash)]
    have := ownerWalk_complete (arts := arts) (o := o) ds [] (by simpa using hgd)
      (comps o.path).length (by simpa using hk0) (by simpa using hk1)
      (by simp only [List.nil_append]; rw [htake, ← hop]; exact findArt_of_mem hnd hm)
      (by
        rcases hcnd with h | h
        · exact Or.inl h
        · right; simp at h ⊢; omega)
    simpa [intercalate] using this

/-! ## `findDirOwner` on the path of an artifact -/

theorem findDirOwner_sound_art {x o : Art} {arts : List Art} (hp : CleanRel x.path)
    (h : findDirOwner true x.path arts = some o) : o ∈ arts ∧ Inside x o :=
  ⟨(findDirOwner_sound' hp h).1, (findDirOwner_sound' hp h).2 x rfl⟩

theorem findDirOwner_eq_none_iff {x : Art} {arts : List Art} (hp : CleanRel x.path)
    (hnd : (arts.map (·.path)).Nodup) (hcl : ∀ o ∈ arts, CleanRel o.path) :
    findDirOwner true x.path arts = none ↔ ∀ o ∈ arts, ¬ Inside x o := by
  constructor
  · intro h o ho hin
    have := findDirOwner_complete' hp hnd ⟨o, ho, hcl o ho, fun y hy => (Inside.congr_left hy).2 hin⟩
    rw [h] at this; cases this
  · intro h
    cases hf : findDirOwner true x.path arts with
    | none => rfl
    | some o => exact absurd (findDirOwner_sound_art hp hf).2 (h o (findDirOwner_sound_art hp hf).1)

theorem eq_of_path_eq {arts : List Art} {a b : Art} (hnd : (arts.map (·.path)).Nodup)
    (ha : a ∈ arts) (hb : b ∈ arts) (e : a.path = b.path) : a = b := by
  have h1 := findArt_of_mem hnd ha
  have h2 := findArt_of_mem hnd hb
  rw [e, h2] at h1
  exact (Option.some.inj h1).symm

/-! ## `Stage.validate` -/

theorem validate_unfold (stg : Stage) (sp : Bytes) :
    stg.validate true sp = true ↔
      Path.containsDotDot stg.wd = false ∧ Path.isAbs stg.wd = false ∧
      ¬ (stg.inputs = [] ∧ stg.outputs = []) ∧ ¬ (stg.outputs = [] ∧ stg.cmd = []) ∧
      (∀ a ∈ stg.outputs, a.path ≠ sp ∧ findArt stg.inputs a.path = none) ∧
      (∀ a ∈ stg.inputs, a.path ≠ sp) ∧
      (∀ a ∈ stg.outputs ++ stg.inputs, Path.containsDotDot a.path = false ∧
        Path.isAbs a.path = false ∧ findDirOwner true a.path (stg.outputs ++ stg.inputs) = none) := by
  simp only [Stage.validate, Bool.and_eq_true, List.all_eq_true, List.mem_append]
  simp only [Bool.not_eq_true', Bool.and_eq_false_iff, bne_iff_ne, Option.isNone_iff_eq_none,
    ne_eq]
  grind

/-- within one stage, given the two maps are disjoint by path, "nothing has an owner" is
"nothing overlaps" -/
theorem noOwner_iff_noOverlap {arts : List Art} (hnd : (arts.map (·.path)).Nodup)
    (hcl : ∀ o ∈ arts, CleanRel o.path) :
    (∀ a ∈ arts, findDirOwner true a.path arts = none) ↔
      ∀ a ∈ arts, ∀ b ∈ arts, a ≠ b → ¬ Overlaps a b := by
  constructor
  · intro h a ha b hb hne hov
    rcases hov with e | hin | hin
    · exact hne (eq_of_path_eq hnd ha hb e)
    · exact (findDirOwner_eq_none_iff (hcl a ha) hnd hcl).1 (h a ha) b hb hin
    · exact (findDirOwner_eq_none_iff (hcl b hb) hnd hcl).1 (h b hb) a ha hin
  · intro h a ha
    rw [findDirOwner_eq_none_iff (hcl a ha) hnd hcl]
    intro o ho hin
    have hne : a ≠ o := fun e => hin.irrefl_path (e ▸ rfl)
    exact h a ha o ho hne (Or.inr (Or.inl hin))

theorem nodup_all {stg : Stage} (hwf : StageWF stg)
    (hdisj : ∀ a ∈ stg.outputs, ∀ b ∈ stg.inputs, a.path ≠ b.path) :
    ((stg.outputs ++ stg.inputs).map (·.path)).Nodup := by
  rw [List.map_append, List.nodup_append]
  refine ⟨hwf.nodupOut, hwf.nodupIn, ?_⟩
  intro p hp q hq e
  obtain ⟨a, ha, rfl⟩ := List.mem_map.1 hp
  obtain ⟨b, hb, rfl⟩ := List.mem_map.1 hq
  exact hdisj a ha b hb e

theorem validate_iff' {stg : Stage} {sp : Bytes} (hwf : StageWF stg) :
    stg.validate true sp = true ↔ SideOK stg sp ∧ NoSelfOverlap stg := by
  have hcl : ∀ a ∈ stg.outputs ++ stg.inputs, CleanRel a.path := fun a ha => by
    rcases List.mem_append.1 ha with h | h
    · exact hwf.cleanOut a h
    · exact hwf.cleanIn a h
  rw [validate_unfold]
  constructor
  · rintro ⟨h1, h2, h3, h4, h5, h6, h7⟩
    have hdisj : ∀ a ∈ stg.outputs, ∀ b ∈ stg.inputs, a.path ≠ b.path := fun a ha b hb e =>
      findArt_eq_none.1 (h5 a ha).2 b hb e.symm
    refine ⟨⟨h1, h2, h3, h4, ?_, fun a ha => (h7 a ha).1⟩, hdisj, ?_⟩
    · intro a ha
      rcases List.mem_append.1 ha with h | h
      · exact (h5 a h).1
      · exact h6 a h
    · exact (noOwner_iff_noOverlap (nodup_all hwf hdisj) hcl).1 fun a ha => (h7 a ha).2.2
  · rintro ⟨⟨h1, h2, h3, h4, h5, h6⟩, hdisj, hno⟩
    refine ⟨h1, h2, h3, h4, ?_, ?_, ?_⟩
    · intro a ha
      exact ⟨h5 a (List.mem_append_left _ ha), findArt_eq_none.2 fun b hb e => hdisj a ha b hb e.symm⟩
    · intro a ha; exact h5 a (List.mem_append_right _ ha)
    · intro a ha
      exact ⟨h6 a ha, (hcl a ha).isAbs,
        (noOwner_iff_noOverlap (nodup_all hwf hdisj) hcl).2 hno a ha⟩

/-! ## `findOwner`, `ownsExisting`, `addStage` -/

theorem findOwner_eq_none_iff {x : Art} (hx : CleanRel x.path) : ∀ {idx : Index},
    (∀ q ∈ idx, OutWF q.2) →
    (findOwner true idx x.path = none ↔
      ∀ q ∈ idx, ∀ b ∈ q.2.outputs, b.path ≠ x.path ∧ ¬ Inside x b)
  | [], _ => by simp [findOwner]
  | (sp, stg) :: r, hidx => by
    have hwf : OutWF stg := hidx (sp, stg) (by simp)
    have ih := findOwner_eq_none_iff hx (idx := r) (fun q hq => hidx q (by simp [hq]))
    have h2 := findDirOwner_eq_none_iff (x := x) hx hwf.nodup hwf.clean
    rw [findOwner]
    cases hf : findArt stg.outputs x.path with
    | some a =>
      obtain ⟨hm, hp⟩ := findArt_some hf
      simp only [reduceCtorEq, false_iff]
      intro h
      exact (h (sp, stg) (by simp) a hm).1 hp
    | none =>
      have hf' := findArt_eq_none.1 hf
      cases hd : findDirOwner true x.path stg.outputs with
      | some a =>
        obtain ⟨hm, hin⟩ := findDirOwner_sound_art hx hd
        simp only [reduceCtorEq, false_iff]
        intro h
        exact (h (sp, stg) (by simp) a hm).2 hin
      | none =>
        have hd' := h2.1 hd
        simp only [ih, List.mem_cons, forall_eq_or_imp]
        exact ⟨fun h => ⟨fun b hb => ⟨hf' b hb, hd' b hb⟩, h⟩, fun h => h.2⟩

theorem ownsExisting_eq_false_iff {idx : Index} {nw : Stage}
    (hidx : ∀ q ∈ idx, ∀ b ∈ q.2.outputs, CleanRel b.path) (hnw : OutWF nw) :
    ownsExisting true idx nw = false ↔
      ∀ q ∈ idx, ∀ b ∈ q.2.outputs, ∀ a ∈ nw.outputs, a.path ≠ b.path ∧ ¬ Inside b a := by
  have h1 : ownsExisting true idx nw = false ↔ ∀ q ∈ idx, ∀ b ∈ q.2.outputs,
      findArt nw.outputs b.path = none ∧ findDirOwner true b.path nw.outputs = none := by
    simp [ownsExisting]
  rw [h1]
  constructor
  · intro h q hq b hb a ha
    obtain ⟨h1, h2⟩ := h q hq b hb
    exact ⟨findArt_eq_none.1 h1 a ha,
      (findDirOwner_eq_none_iff (hidx q hq b hb) hnw.nodup hnw.clean).1 h2 a ha⟩
  · intro h q hq b hb
    exact ⟨findArt_eq_none.2 fun a ha => (h q hq b hb a ha).1,
      (findDirOwner_eq_none_iff (hidx q hq b hb) hnw.nodup hnw.clean).2
        fun a ha => (h q hq b hb a ha).2⟩

theorem addStage_iff' {idx : Index} {sp : Bytes} {stg : Stage} {r : Index}
    (hidx : ∀ q ∈ idx, OutWF q.2) (hstg : OutWF stg) :
    addStage true true idx sp stg = .ok r ↔
      alookup idx sp = none ∧
      (∀ a ∈ stg.outputs, ∀ q ∈ idx, ∀ b ∈ q.2.outputs, ¬ Overlaps a b) ∧
      r = idx ++ [(sp, stg)] := by
  have hfo : (stg.outputs.any fun a => (findOwner true idx a.path).isSome) = false ↔
      ∀ a ∈ stg.outputs, ∀ q ∈ idx, ∀ b ∈ q.2.outputs, b.path ≠ a.path ∧ ¬ Inside a b := by
    rw [List.any_eq_false]
    constructor
    · intro h a ha
      have := h a ha
      rw [Bool.not_eq_true, Option.isSome_eq_false_iff, Option.isNone_iff_eq_none] at this
      exact (findOwner_eq_none_iff (hstg.clean a ha) hidx).1 this
    · intro h a ha
      rw [Bool.not_eq_true, Option.isSome_eq_false_iff, Option.isNone_iff_eq_none]
      exact (findOwner_eq_none_iff (hstg.clean a ha) hidx).2 (h a ha)
  have hoe := ownsExisting_eq_false_iff (idx := idx) (nw := stg)
    (fun q hq => (hidx q hq).clean) hstg
  unfold addStage
  cases hl : alookup idx sp with
  | some s => simp
  | none =>
    simp only [Option.isSome_none, Bool.false_eq_true, if_false, Bool.true_and, true_and]
    cases h1 : (stg.outputs.any fun a => (findOwner true idx a.path).isSome) with
    | true =>
      simp only [if_true, reduceCtorEq, false_iff]
      rintro ⟨hno, _⟩
      have : (stg.outputs.any fun a => (findOwner true idx a.path).isSome) = false :=
        hfo.2 fun a ha q hq b hb =>
          ⟨fun e => hno a ha q hq b hb (Or.inl e.symm), fun e => hno a ha q hq b hb (Or.inr (Or.inl e))⟩
      rw [h1] at this; cases this
    | false =>
      have h1' := hfo.1 h1
      cases h2 : ownsExisting true idx stg with
      | true =>
        simp only [Bool.false_eq_true, if_false, if_true, reduceCtorEq, false_iff]
        rintro ⟨hno, _⟩
        have : ownsExisting true idx stg = false :=
          hoe.2 fun q hq b hb a ha =>
            ⟨fun e => hno a ha q hq b hb (Or.inl e), fun e => hno a ha q hq b hb (Or.inr (Or.inr e))⟩
        rw [h2] at this; cases this
      | false =>
        have h2' := hoe.1 h2
        simp only [Bool.false_eq_true, if_false, Except.ok.injEq]
        constructor
        · intro e
          refine ⟨?_, e.symm⟩
          intro a ha q hq b hb hov
          rcases hov with e | e | e
          · exact (h1' a ha q hq b hb).1 e.symm
          · exact (h1' a ha q hq b hb).2 e
          · exact (h2' q hq b hb a ha).2 e
        · rintro ⟨_, e⟩; exact e.symm

/-! ## `loadIndex` -/

theorem NoOverlap.symm {x y : Bytes × Stage} (h : NoOverlap x y) : NoOverlap y x :=
  fun a ha b hb hov => h b hb a ha hov.symm

theorem NoOverlap.comm {x y : Bytes × Stage} : NoOverlap x y ↔ NoOverlap y x :=
  ⟨NoOverlap.symm, NoOverlap.symm⟩

theorem alookup_eq_none_iff {β : Type} : ∀ {l : List (Bytes × β)} {a : Bytes},
    alookup l a = none ↔ a ∉ l.map Prod.fst
  | [], a => by simp [alookup]
  | (k, v) :: r, a => by
    by_cases h : k = a
    · subst h; simp [alookup]
    · have ih := alookup_eq_none_iff (l := r) (a := a)
      have h' : ¬ a = k := fun e => h e.symm
      simp [alookup, h, h', ih]

/-- `index.FromFile` succeeds exactly when every stage validates, stage paths are distinct and
fresh, and no two outputs of different stages overlap; it then returns the stages in file order -/
theorem loadIndex_acc : ∀ (l : List (Bytes × Stage)) (idx0 idx : Index),
    (∀ q ∈ idx0, OutWF q.2) → (∀ q ∈ l, OutWF q.2) →
    (loadIndex true true l idx0 = .ok idx ↔
      idx = idx0 ++ l ∧ (∀ q ∈ l, q.2.validate true q.1 = true) ∧
      (∀ q ∈ l, q.1 ∉ idx0.map Prod.fst) ∧ (l.map Prod.fst).Nodup ∧
      (∀ x ∈ idx0, ∀ y ∈ l, NoOverlap y x) ∧ l.Pairwise NoOverlap)
  | [], idx0, idx, _, _ => by
    simp only [loadIndex, Except.ok.injEq, List.append_nil]
    constructor
    · rintro rfl; simp
    · rintro ⟨rfl, _⟩; rfl
  | (sp, stg) :: r, idx0, idx, h0, hl => by
    have hstg : OutWF stg := hl (sp, stg) (by simp)
    have hr : ∀ q ∈ r, OutWF q.2 := fun q hq => hl q (by simp [hq])
    have h0' : ∀ q ∈ idx0 ++ [(sp, stg)], OutWF q.2 := fun q hq => by
      rcases List.mem_append.1 hq with h | h
      · exact h0 q h
      · simp at h; subst h; exact hstg
    have ih := loadIndex_acc r (idx0 ++ [(sp, stg)]) idx h0' hr
    have hadd := fun r' => addStage_iff' (idx := idx0) (sp := sp) (stg := stg) (r := r') h0 hstg
    rw [loadIndex]
    cases hv : stg.validate true sp with
    | false =>
      simp only [Bool.not_false, if_true, reduceCtorEq, false_iff]
      rintro ⟨_, h, _⟩
      have := h (sp, stg) (by simp)
      simp [hv] at this
    | true =>
      simp only [Bool.not_true, Bool.false_eq_true, if_false]
      by_cases hC : alookup idx0 sp = none ∧
          ∀ a ∈ stg.outputs, ∀ q ∈ idx0, ∀ b ∈ q.2.outputs, ¬ Overlaps a b
      · have : addStage true true idx0 sp stg = .ok (idx0 ++ [(sp, stg)]) :=
          (hadd _).2 ⟨hC.1, hC.2, rfl⟩
        rw [this]
        simp only [ih]
        have hC1 := alookup_eq_none_iff.1 hC.1
        have hC2 : ∀ x ∈ idx0, NoOverlap (sp, stg) x := fun x hx a ha b hb => hC.2 a ha x hx b hb
        constructor
        · rintro ⟨h1, h2, h3, h4, h5, h6⟩
          refine ⟨by rw [h1]; simp, ?_, ?_, ?_, ?_, ?_⟩
          · intro q hq
            rcases List.mem_cons.1 hq with rfl | hq
            · exact hv
            · exact h2 q hq
          · intro q hq
            rcases List.mem_cons.1 hq with rfl | hq
            · exact hC1
            · intro hm; exact h3 q hq (by simp [hm])
          · rw [List.map_cons, List.nodup_cons]
            refine ⟨?_, h4⟩
            intro hm
            obtain ⟨q, hq, e'⟩ := List.mem_map.1 hm
            exact h3 q hq (by simp [e'])
          · intro x hx y hy
            rcases List.mem_cons.1 hy with rfl | hy
            · exact hC2 x hx
            · exact h5 x (List.mem_append_left _ hx) y hy
          · rw [List.pairwise_cons]
            exact ⟨fun y hy => (h5 (sp, stg) (by simp) y hy).symm, h6⟩
        · rintro ⟨h1, h2, h3, h4, h5, h6⟩
          rw [List.map_cons, List.nodup_cons] at h4
          rw [List.pairwise_cons] at h6
          refine ⟨by rw [h1]; simp, fun q hq => h2 q (List.mem_cons_of_mem _ hq), ?_, h4.2, ?_, h6.2⟩
          · intro q hq hm
            rw [List.map_append, List.mem_append] at hm
            rcases hm with hm | hm
            · exact h3 q (List.mem_cons_of_mem _ hq) hm
            · simp at hm; exact h4.1 (List.mem_map.2 ⟨q, hq, hm⟩)
          · intro x hx y hy
            rcases List.mem_append.1 hx with hx | hx
            · exact h5 x hx y (List.mem_cons_of_mem _ hy)
            · simp at hx; subst hx; exact (h6.1 y hy).symm
      · have : ∃ e, addStage true true idx0 sp stg = .error e := by
          cases ha : addStage true true idx0 sp stg with
          | error e => exact ⟨e, rfl⟩
          | ok r' => exact absurd ⟨((hadd r').1 ha).1, ((hadd r').1 ha).2.1⟩ hC
        obtain ⟨e, he⟩ := this
        rw [he]
        simp only [reduceCtorEq, false_iff]
        rintro ⟨_, _, h3, _, h5, _⟩
        apply hC
        refine ⟨alookup_eq_none_iff.2 (h3 (sp, stg) (by simp)), ?_⟩
        intro a ha q hq b hb
        exact h5 q hq (sp, stg) (by simp) a ha b hb

theorem loadIndex_iff' {l : List (Bytes × Stage)} {idx : Index} (hl : ∀ q ∈ l, OutWF q.2) :
    loadIndex true true l [] = .ok idx ↔
      idx = l ∧ (∀ q ∈ l, q.2.validate true q.1 = true) ∧ (l.map Prod.fst).Nodup ∧ IndexOK l := by
  rw [loadIndex_acc l [] idx (by simp) hl]
  simp [IndexOK]

/-! ## what `filepath.Clean` + the checks of `Validate` guarantee: `CleanRel` -/

/-- components produced by the normaliser -/
def NormComp (x : Bytes) : Prop := x ≠ [] ∧ x ≠ [dot] ∧ slash ∉ x

theorem normAux_normComp (rooted : Bool) : ∀ (cs acc : List Bytes), (∀ x ∈ acc, NormComp x) →
    (∀ c ∈ cs, slash ∉ c) → ∀ x ∈ normAux rooted acc cs, NormComp x
  | [], acc, ha, _ => by simpa [normAux] using ha
  | c :: cs, acc, ha, hc => by
    have hcs : ∀ c ∈ cs, slash ∉ c := fun x hx => hc x (by simp [hx])
    have hdd : NormComp dotdot := ⟨by decide, by decide, by decide⟩
    unfold normAux
    split
    · exact normAux_normComp rooted cs acc ha hcs
    · rename_i h1
      split
      · split
        · split
          · exact normAux_normComp rooted cs [] (by simp) hcs
          · exact normAux_normComp rooted cs [dotdot] (by simpa using hdd) hcs
        · rename_i a as
          split
          · exact normAux_normComp rooted cs (dotdot :: a :: as)
              (fun x hx => by rcases List.mem_cons.1 hx with rfl | hx; exact hdd; exact ha x hx) hcs
          · exact normAux_normComp rooted cs as (fun x hx => ha x (by simp [hx])) hcs
      · have h1' : c ≠ [] ∧ c ≠ [dot] := by simpa using h1
        exact normAux_normComp rooted cs (c :: acc)
          (fun x hx => by
            rcases List.mem_cons.1 hx with rfl | hx
            · exact ⟨h1'.1, h1'.2, hc _ (by simp)⟩
            · exact ha x hx) hcs

theorem containsDotDot_mid : ∀ (pre post : Bytes), containsDotDot (pre ++ dot :: dot :: post) = true
  | [], post => by simp [containsDotDot]
  | [x], post => by
    have := containsDotDot_mid [] post
    simp only [List.nil_append] at this
    simp [containsDotDot]
  | x :: y :: pre, post => by
    have := containsDotDot_mid (y :: pre) post
    simp only [List.cons_append] at this ⊢
    simp [containsDotDot, this]

theorem mem_intercalate_split : ∀ {cs : List Bytes} {c : Bytes}, c ∈ cs →
    ∃ pre post, intercalate cs = pre ++ c ++ post
  | [x], c, h => by
    simp at h; subst h; exact ⟨[], [], by simp [intercalate]⟩
  | x :: y :: r, c, h => by
    rw [intercalate_cons_cons]
    rcases List.mem_cons.1 h with rfl | h
    · exact ⟨[], slash :: intercalate (y :: r), by simp⟩
    · obtain ⟨pre, post, e⟩ := mem_intercalate_split h
      exact ⟨x ++ slash :: pre, post, by rw [e]; simp⟩

theorem cleanRel_of_render (r : Bool) (cs : List Bytes) (hn : ∀ x ∈ cs, NormComp x)
    (h1 : isAbs (render ⟨r, cs⟩) = false) (h2 : containsDotDot (render ⟨r, cs⟩) = false)
    (h3 : render ⟨r, cs⟩ ≠ [dot]) : CleanRel (render ⟨r, cs⟩) := by
  cases r with
  | true => simp [render, isAbs] at h1
  | false =>
    cases he : cs.isEmpty with
    | true => simp [render, he] at h3
    | false =>
      simp only [render, he, Bool.false_eq_true, if_false] at h2 ⊢
      refine ⟨cs, by intro e; simp [e] at he, ?_, rfl⟩
      intro c hc
      obtain ⟨n1, n2, n3⟩ := hn c hc
      refine ⟨n1, n2, ?_, n3⟩
      intro e
      subst e
      obtain ⟨pre, post, e⟩ := mem_intercalate_split hc
      rw [e] at h2
      have := containsDotDot_mid pre post
      simp only [dotdot, List.append_assoc, List.cons_append, List.nil_append] at h2
      rw [this] at h2; cases h2

/-- the result of `filepath.Clean`, if relative, free of ".." and not ".", is `CleanRel` -/
theorem cleanRel_of_clean (q : Bytes) (h1 : isAbs (clean q) = false)
    (h2 : containsDotDot (clean q) = false) (h3 : clean q ≠ [dot]) : CleanRel (clean q) :=
  cleanRel_of_render _ _
    (normAux_normComp (isAbs q) (splitSlash q) [] (by simp) (splitSlash_noslash_mem q)) h1 h2 h3

theorem dir_dot : dir [dot] = [dot] := by decide

/-- an artifact whose path is "." is reported as its own owner, so `Validate` rejects it -/
theorem findDirOwner_dot {arts : List Art} {a : Art} (ha : a ∈ arts) (hp : a.path = [dot]) :
    (findDirOwner true [dot] arts).isSome = true := by
  have : (findArt arts [dot]).isSome = true := findArt_isSome.2 ⟨a, ha, hp⟩
  simp only [findDirOwner, dir_dot, splitSlash_dot, ownerWalk, if_true, join_nil_dot]
  cases hf : findArt arts [dot] with
  | none => rw [hf] at this; cases this
  | some o => simp

theorem validate_cleanRel' {stg : Stage} {sp : Bytes}
    (hclean : ∀ a ∈ stg.outputs ++ stg.inputs, ∃ q, a.path = Path.clean q)
    (h : stg.validate true sp = true) : ∀ a ∈ stg.outputs ++ stg.inputs, CleanRel a.path := by
  obtain ⟨_, _, _, _, _, _, h7⟩ := (validate_unfold stg sp).1 h
  intro a ha
  obtain ⟨q, hq⟩ := hclean a ha
  obtain ⟨c1, c2, c3⟩ := h7 a ha
  rw [hq] at c1 c2 ⊢
  refine cleanRel_of_clean q c2 c1 ?_
  intro e
  have := findDirOwner_dot ha (hq.trans e)
  rw [hq, e] at c3
  rw [c3] at this; cases this

theorem FromFileShape.wf {stg : Stage} {sp : Bytes} (hs : FromFileShape stg)
    (h : stg.validate true sp = true) : StageWF stg :=
  ⟨fun a ha => validate_cleanRel' hs.cleaned h a (List.mem_append_left _ ha),
   fun a ha => validate_cleanRel' hs.cleaned h a (List.mem_append_right _ ha),
   hs.nodupOut, hs.nodupIn⟩

theorem loadIndex_ok_validates (wa rev : Bool) : ∀ (l : List (Bytes × Stage)) (idx0 idx : Index),
    loadIndex wa rev l idx0 = .ok idx → ∀ q ∈ l, q.2.validate wa q.1 = true
  | [], _, _, _ => by simp
  | (sp, stg) :: r, idx0, idx, h => by
    rw [loadIndex] at h
    cases hv : stg.validate wa sp with
    | false => simp [hv] at h
    | true =>
      simp only [hv, Bool.not_true, Bool.false_eq_true, if_false] at h
      cases ha : addStage wa rev idx0 sp stg with
      | error e => simp [ha] at h
      | ok idx1 =>
        simp only [ha] at h
        intro q hq
        rcases List.mem_cons.1 hq with rfl | hq
        · exact hv
        · exact loadIndex_ok_validates wa rev r idx1 idx h q hq

theorem loadIndex_append (wa rev : Bool) : ∀ (l1 l2 : List (Bytes × Stage)) (idx0 : Index),
    loadIndex wa rev (l1 ++ l2) idx0 =
      match loadIndex wa rev l1 idx0 with
      | .error e => .error e
      | .ok idx1 => loadIndex wa rev l2 idx1
  | [], l2, idx0 => by simp [loadIndex]
  | (sp, stg) :: r, l2, idx0 => by
    simp only [List.cons_append, loadIndex]
    split
    · rfl
    · cases addStage wa rev idx0 sp stg with
      | error e => rfl
      | ok idx1 => exact loadIndex_append wa rev r l2 idx1

/-! ## reading `Inside` as a statement about strings -/

theorem Path.intercalate_append : ∀ {cs ds : List Bytes}, cs ≠ [] → ds ≠ [] →
    intercalate (cs ++ ds) = intercalate cs ++ slash :: intercalate ds
  | [], _, h, _ => absurd rfl h
  | [x], ds, _, hd => by
    have : intercalate [x] = x := rfl
    rw [this]; exact intercalate_cons_of_ne_nil x hd
  | x :: y :: r, ds, _, hd => by
    have ih := Path.intercalate_append (cs := y :: r) (ds := ds) (by simp) hd
    have : (x :: y :: r) ++ ds = x :: ((y :: r) ++ ds) := rfl
    rw [this, intercalate_cons_of_ne_nil x (by simp), ih, intercalate_cons_cons]; simp

theorem Path.splitSlash_intercalate_append : ∀ {cs : List Bytes} (r : Bytes), cs ≠ [] →
    (∀ c ∈ cs, slash ∉ c) → splitSlash (intercalate cs ++ slash :: r) = cs ++ splitSlash r
  | [], _, h, _ => absurd rfl h
  | [x], r, _, h => by simpa [intercalate] using splitSlash_append_slash r (h x (by simp))
  | x :: y :: rest, r, _, h => by
    have ih := Path.splitSlash_intercalate_append (cs := y :: rest) r (by simp)
      (fun c hc => h c (by simp [hc]))
    rw [intercalate_cons_cons]
    have : x ++ slash :: intercalate (y :: rest) ++ slash :: r =
        x ++ slash :: (intercalate (y :: rest) ++ slash :: r) := by simp
    rw [this, splitSlash_append_slash _ (h x (by simp)), ih]; simp

/-- for clean relative paths `Inside x d` says: the path of `x` is the path of `d`, a slash, and a
non-empty rest — a single component if `d` has recursion disabled -/
theorem inside_iff_prefix {x d : Art} (hx : CleanRel x.path) (hd : CleanRel d.path) :
    Inside x d ↔ ∃ r, x.path = d.path ++ slash :: r ∧ (d.noRec = false ∨ slash ∉ r) := by
  obtain ⟨hxne, hxg, hxp⟩ := hx.comps
  obtain ⟨hdne, hdg, hdp⟩ := hd.comps
  constructor
  · rintro ⟨hlen, htake, hc⟩
    have hsplit : comps x.path = comps d.path ++ (comps x.path).drop (comps d.path).length := by
      conv => lhs; rw [← List.take_append_drop (comps d.path).length (comps x.path), htake]
    have htl : (comps x.path).drop (comps d.path).length ≠ [] := by
      intro e
      have := congrArg List.length e
      simp at this; omega
    refine ⟨intercalate ((comps x.path).drop (comps d.path).length), ?_, ?_⟩
    · conv => lhs; rw [hxp, hsplit, Path.intercalate_append hdne htl, ← hdp]
    · rcases hc with h | h
      · exact Or.inl h
      · right
        have hl : ((comps x.path).drop (comps d.path).length).length = 1 := by simp; omega
        match hh : (comps x.path).drop (comps d.path).length, hl with
        | [c], _ =>
          simp only [intercalate]
          exact (hxg c (List.mem_of_mem_drop (hh ▸ List.mem_singleton.2 rfl))).noslash
  · rintro ⟨r, hr, hc⟩
    have e1 : splitSlash x.path = comps x.path :=
      (congrArg splitSlash hxp).trans (splitSlash_intercalate hxne fun c hc => (hxg c hc).noslash)
    have e2 : splitSlash (d.path ++ slash :: r) = comps d.path ++ splitSlash r :=
      (congrArg (fun p => splitSlash (p ++ slash :: r)) hdp).trans
        (Path.splitSlash_intercalate_append r hdne fun c hc => (hdg c hc).noslash)
    have h1 : comps x.path = comps d.path ++ splitSlash r := by rw [← e1, hr, e2]
    have hne := splitSlash_ne_nil r
    have hpos : 0 < (splitSlash r).length := List.length_pos_iff.2 hne
    refine ⟨by rw [h1]; simp; omega, by rw [h1]; exact List.take_left' rfl, ?_⟩
    rcases hc with h | h
    · exact Or.inl h
    · right; rw [h1, splitSlash_noslash h]; simp

end Dud
