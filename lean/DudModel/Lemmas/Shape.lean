import DudModel.Lemmas.Run
/-!
# The owner function depends only on the shape of the index

`commitAct` rewrites the index (checksums, `skip` flags, order of artifacts) but not its *shape*:
the stage paths, per stage the set of input paths and, per output path, the `noRec` flag.
`findOwner` and `ownIdx` see nothing else.
-/
namespace Dud

variable {κ : Type}

/-! ## the owner function of an index -/

/-- the owner function of a fixed index -/
def ownIdx (cfg : Cfg κ) (idx : Index) (sp : Bytes) : List Bytes :=
  match alookup idx sp with
  | some stg => (sortArts stg.inputs).filterMap
      (fun a => (findOwner cfg.walkAccumulates idx a.path).map (·.1))
  | none => []

theorem ownersOf_eq (cfg : Cfg κ) (w : World κ) (sp : Bytes) (os : List Bytes)
    (h : ownersOf cfg w sp = .ok os) : os = ownIdx cfg w.idx sp := by
  simp only [ownersOf, World.stage] at h
  simp only [ownIdx]
  cases hl : alookup w.idx sp with
  | none => rw [hl] at h; cases h
  | some stg => rw [hl] at h; cases h; rfl

/-! ## `findArt` and sorting -/

theorem findArt_cons (x : Art) (l : List Art) (p : Bytes) :
    findArt (x :: l) p = if x.path == p then some x else findArt l p := by
  simp only [findArt, List.find?_cons]
  cases x.path == p <;> rfl

theorem findArt_insertArt (x : Art) (m : List Art) (p : Bytes) :
    findArt (insertArt x m) p = if x.path == p then some x else findArt m p := by
  induction m with
  | nil => simp only [insertArt, findArt_cons]
  | cons y ys ih =>
    simp only [insertArt]
    split
    · rename_i hxy
      have hxy : x.path = y.path := by simpa using hxy
      rw [findArt_cons, findArt_cons]
      by_cases hx : x.path = p
      · simp [hx]
      · have : ¬ y.path = p := hxy ▸ hx
        simp [hx, this]
    · split
      · rw [findArt_cons]
      · rename_i hxy _
        have hxy : ¬ x.path = y.path := by simpa using hxy
        rw [findArt_cons, ih, findArt_cons]
        by_cases hx : x.path = p
        · have : ¬ y.path = p := fun h => hxy (hx.trans h.symm)
          simp [hx, this]
        · simp [hx]

theorem findArt_sortArts (l : List Art) (p : Bytes) : findArt (sortArts l) p = findArt l p := by
  induction l with
  | nil => rfl
  | cons x xs ih =>
    have : sortArts (x :: xs) = insertArt x (sortArts xs) := rfl
    rw [this, findArt_insertArt, findArt_cons, ih]

theorem findArt_isSome (l : List Art) (p : Bytes) :
    (findArt l p).isSome = true ↔ p ∈ l.map (·.path) := by
  simp only [findArt, List.find?_isSome, List.mem_map]
  constructor
  · rintro ⟨a, ha, h⟩; exact ⟨a, ha, by simpa using h⟩
  · rintro ⟨a, ha, h⟩; exact ⟨a, ha, by simpa using h⟩

/-- sorting keeps the set of paths -/
theorem mem_paths_sortArts (l : List Art) (p : Bytes) :
    p ∈ (sortArts l).map (·.path) ↔ p ∈ l.map (·.path) := by
  rw [← findArt_isSome, ← findArt_isSome, findArt_sortArts]

/-! ## artifacts up to their checksum -/

def Art.noSum (a : Art) : Art := { a with sum := "" }

theorem paths_of_noSum {l l' : List Art} (h : l'.map Art.noSum = l.map Art.noSum) :
    l'.map (·.path) = l.map (·.path) := by
  have := congrArg (List.map (·.path)) h
  simpa [List.map_map, Function.comp_def, Art.noSum] using this

theorem findArt_noSum {l l' : List Art} (h : l'.map Art.noSum = l.map Art.noSum) (p : Bytes) :
    (findArt l' p).map Art.noSum = (findArt l p).map Art.noSum := by
  induction l generalizing l' with
  | nil => cases l' with
    | nil => rfl
    | cons _ _ => simp at h
  | cons x xs ih => cases l' with
    | nil => simp at h
    | cons y ys =>
      simp only [List.map_cons, List.cons.injEq] at h
      have hp : y.path = x.path := congrArg (·.path) h.1
      rw [findArt_cons, findArt_cons, hp]
      by_cases hx : x.path = p
      · simp [hx, h.1]
      · simp [hx, ih h.2]

theorem findArt_noRec_of_noSum {l l' : List Art} (h : l'.map Art.noSum = l.map Art.noSum) (p : Bytes) :
    (findArt l' p).map (·.noRec) = (findArt l p).map (·.noRec) := by
  have := congrArg (Option.map (·.noRec)) (findArt_noSum h p)
  simpa [Option.map_map, Function.comp_def, Art.noSum] using this

/-! ## shapes -/

/-- same output paths, with the same `noRec` flags -/
def OutSim (o o0 : List Art) : Prop := ∀ p, (findArt o p).map (·.noRec) = (findArt o0 p).map (·.noRec)

/-- same set of input paths, similar outputs -/
def StageSim (s s0 : Stage) : Prop :=
  (∀ p, p ∈ s.inputs.map (·.path) ↔ p ∈ s0.inputs.map (·.path)) ∧ OutSim s.outputs s0.outputs

/-- the same stage paths in the same order, with similar stages -/
inductive SameShape : Index → Index → Prop
  | nil : SameShape [] []
  | cons {e e0 : Bytes × Stage} {r r0 : Index} : e.1 = e0.1 ∧ StageSim e.2 e0.2 → SameShape r r0 →
      SameShape (e :: r) (e0 :: r0)

theorem OutSim.refl (o : List Art) : OutSim o o := fun _ => rfl
theorem OutSim.trans {a b c : List Art} (h1 : OutSim a b) (h2 : OutSim b c) : OutSim a c :=
  fun p => (h1 p).trans (h2 p)
theorem StageSim.refl (s : Stage) : StageSim s s := ⟨fun _ => Iff.rfl, OutSim.refl _⟩
theorem StageSim.trans {a b c : Stage} (h1 : StageSim a b) (h2 : StageSim b c) : StageSim a c :=
  ⟨fun p => (h1.1 p).trans (h2.1 p), h1.2.trans h2.2⟩

theorem SameShape.refl : ∀ idx : Index, SameShape idx idx
  | [] => .nil
  | _ :: r => .cons ⟨rfl, StageSim.refl _⟩ (SameShape.refl r)

theorem SameShape.trans {a b c : Index} (h1 : SameShape a b) (h2 : SameShape b c) : SameShape a c := by
  induction h1 generalizing c with
  | nil => cases h2; exact .nil
  | cons h _ ih =>
    cases h2 with
    | cons h' t' => exact .cons ⟨h.1.trans h'.1, h.2.trans h'.2⟩ (ih t')

theorem SameShape.keys {a b : Index} (h : SameShape a b) : a.map (·.1) = b.map (·.1) := by
  induction h with
  | nil => rfl
  | cons h _ ih => simp only [List.map_cons, h.1, ih]

theorem OutSim.isSome {o o0 : List Art} (h : OutSim o o0) (p : Bytes) :
    (findArt o p).isSome = (findArt o0 p).isSome := by
  have := congrArg Option.isSome (h p)
  simpa using this

theorem ownerWalk_sim (wa : Bool) {o o0 : List Art} (h : OutSim o o0) (full : Bytes) :
    ∀ (parts : List Bytes) (dir : Bytes),
      (ownerWalk wa o full dir parts).isSome = (ownerWalk wa o0 full dir parts).isSome
  | [], _ => rfl
  | part :: r, dir => by
    simp only [ownerWalk]
    generalize Path.join [if wa then dir else [], part] = d
    have hd := h d
    cases hf : findArt o d with
    | none =>
      cases hf0 : findArt o0 d with
      | none => exact ownerWalk_sim wa h full r _
      | some a0 => rw [hf, hf0] at hd; cases hd
    | some a =>
      cases hf0 : findArt o0 d with
      | none => rw [hf, hf0] at hd; cases hd
      | some a0 =>
        rw [hf, hf0] at hd
        simp only [Option.map_some, Option.some.injEq] at hd
        simp only [hd]
        by_cases hc : (!a0.noRec || d == full) = true
        · simp only [hc, if_true, Option.isSome_some]
        · simp only [hc]
          exact ownerWalk_sim wa h full r _

theorem findDirOwner_sim (wa : Bool) {o o0 : List Art} (h : OutSim o o0) (p : Bytes) :
    (findDirOwner wa p o).isSome = (findDirOwner wa p o0).isSome :=
  ownerWalk_sim wa h _ _ _

/-- the owning STAGE depends only on the shape of the index -/
theorem findOwner_sim (wa : Bool) {idx idx0 : Index} (h : SameShape idx idx0) (p : Bytes) :
    (findOwner wa idx p).map (·.1) = (findOwner wa idx0 p).map (·.1) := by
  induction h with
  | nil => rfl
  | @cons e e0 r r0 he _ ih =>
    obtain ⟨sp, stg⟩ := e
    obtain ⟨sp0, stg0⟩ := e0
    obtain ⟨hsp, -, hout⟩ := he
    simp only at hsp hout
    subst hsp
    simp only [findOwner]
    have h1 := hout.isSome p
    have h2 := findDirOwner_sim wa hout p
    cases hf : findArt stg.outputs p with
    | some a =>
      rw [hf] at h1
      cases hf0 : findArt stg0.outputs p with
      | some a0 => rfl
      | none => rw [hf0] at h1; cases h1
    | none =>
      rw [hf] at h1
      cases hf0 : findArt stg0.outputs p with
      | some a0 => rw [hf0] at h1; cases h1
      | none =>
        simp only
        cases hg : findDirOwner wa p stg.outputs with
        | some a =>
          rw [hg] at h2
          cases hg0 : findDirOwner wa p stg0.outputs with
          | some a0 => rfl
          | none => rw [hg0] at h2; cases h2
        | none =>
          rw [hg] at h2
          cases hg0 : findDirOwner wa p stg0.outputs with
          | some a0 => rw [hg0] at h2; cases h2
          | none => exact ih

theorem alookup_sim {idx idx0 : Index} (h : SameShape idx idx0) (sp : Bytes) :
    (alookup idx sp = none ∧ alookup idx0 sp = none) ∨
    ∃ s s0, alookup idx sp = some s ∧ alookup idx0 sp = some s0 ∧ StageSim s s0 := by
  induction h with
  | nil => exact .inl ⟨rfl, rfl⟩
  | @cons e e0 r r0 he _ ih =>
    obtain ⟨k, stg⟩ := e
    obtain ⟨k0, stg0⟩ := e0
    obtain ⟨hk, hs⟩ := he
    simp only at hk hs
    subst hk
    simp only [alookup]
    by_cases hks : k = sp
    · subst hks
      exact .inr ⟨stg, stg0, by simp, by simp, hs⟩
    · have : (k == sp) = false := by simpa using hks
      simp only [this, Bool.false_eq_true, if_false]
      exact ih

theorem mem_ownIdx (cfg : Cfg κ) (idx : Index) (sp x : Bytes) :
    x ∈ ownIdx cfg idx sp ↔ ∃ stg, alookup idx sp = some stg ∧
      ∃ p, p ∈ stg.inputs.map (·.path) ∧ (findOwner cfg.walkAccumulates idx p).map (·.1) = some x := by
  simp only [ownIdx]
  cases alookup idx sp with
  | none => simp
  | some stg =>
    simp only [List.mem_filterMap, Option.some.injEq, exists_eq_left']
    constructor
    · rintro ⟨a, ha, h⟩
      exact ⟨a.path, (mem_paths_sortArts _ _).1 (List.mem_map.2 ⟨a, ha, rfl⟩), h⟩
    · rintro ⟨p, hp, h⟩
      obtain ⟨a, ha, rfl⟩ := List.mem_map.1 ((mem_paths_sortArts _ _).2 hp)
      exact ⟨a, ha, h⟩

/-- the set of owners of a stage depends only on the shape of the index -/
theorem ownIdx_sim (cfg : Cfg κ) {idx idx0 : Index} (h : SameShape idx idx0) (sp x : Bytes) :
    x ∈ ownIdx cfg idx sp ↔ x ∈ ownIdx cfg idx0 sp := by
  rw [mem_ownIdx, mem_ownIdx]
  rcases alookup_sim h sp with ⟨h1, h2⟩ | ⟨s, s0, h1, h2, hs⟩
  · simp [h1, h2]
  · simp only [h1, h2, Option.some.injEq, exists_eq_left']
    constructor
    · rintro ⟨p, hp, hx⟩
      exact ⟨p, (hs.1 p).1 hp, by rw [← findOwner_sim _ h]; exact hx⟩
    · rintro ⟨p, hp, hx⟩
      exact ⟨p, (hs.1 p).2 hp, by rw [findOwner_sim _ h]; exact hx⟩

/-! ## `setStage` -/

theorem setStage_sim (idx : Index) (sp : Bytes) (stg' : Stage)
    (h : ∀ s, (sp, s) ∈ idx → StageSim stg' s) : SameShape (setStage idx sp stg') idx := by
  induction idx with
  | nil => exact .nil
  | cons e r ih =>
    obtain ⟨k, s⟩ := e
    simp only [setStage, List.map_cons]
    refine .cons ?_ (ih fun s hs => h s (List.mem_cons_of_mem _ hs))
    by_cases hk : k = sp
    · subst hk
      simp only [beq_self_eq_true, if_true]
      exact ⟨trivial, h s List.mem_cons_self⟩
    · have : (k == sp) = false := by simpa using hk
      simp only [this, Bool.false_eq_true, if_false]
      exact ⟨trivial, StageSim.refl _⟩

theorem eq_of_alookup_of_mem {idx : Index} (hn : (idx.map (·.1)).Nodup) {sp : Bytes} {stg s : Stage}
    (hl : alookup idx sp = some stg) (hm : (sp, s) ∈ idx) : s = stg := by
  induction idx with
  | nil => cases hm
  | cons e r ih =>
    obtain ⟨k, v⟩ := e
    simp only [List.map_cons, List.nodup_cons] at hn
    simp only [alookup] at hl
    by_cases hk : k = sp
    · subst hk
      simp only [beq_self_eq_true, if_true, Option.some.injEq] at hl
      rcases List.mem_cons.1 hm with h | h
      · cases h; exact hl
      · exact absurd (List.mem_map.2 ⟨(k, s), h, rfl⟩) hn.1
    · have hk' : (k == sp) = false := by simpa using hk
      simp only [hk', Bool.false_eq_true, if_false] at hl
      rcases List.mem_cons.1 hm with h | h
      · cases h; exact absurd rfl hk
      · exact ih hn.2 hl h

/-! ## `commitAct` keeps the shape -/

theorem commitArtW_frame (cfg : Cfg κ) (strat : Strat) (a a' : Art) (w w' : World κ)
    (h : commitArtW cfg strat a w = .ok (a', w')) :
    w'.idx = w.idx ∧ w'.done = w.done ∧ a'.noSum = a.noSum := by
  simp only [commitArtW] at h
  split at h
  · cases h
  · split at h
    · cases h
    · cases h; exact ⟨rfl, rfl, rfl⟩

theorem commitArts_frame (cfg : Cfg κ) (strat : Strat) : ∀ (as as' : List Art) (w w' : World κ),
    commitArts cfg strat as w = .ok (as', w') →
      w'.idx = w.idx ∧ w'.done = w.done ∧ as'.map Art.noSum = as.map Art.noSum
  | [], as', w, w', h => by simp only [commitArts] at h; cases h; exact ⟨rfl, rfl, rfl⟩
  | a :: as, as', w, w', h => by
    simp only [commitArts] at h
    cases h1 : commitArtW cfg strat a w with
    | error e => rw [h1] at h; cases h
    | ok r1 =>
      obtain ⟨a1, w1⟩ := r1
      rw [h1] at h
      simp only at h
      cases h2 : commitArts cfg strat as w1 with
      | error e => rw [h2] at h; cases h
      | ok r2 =>
        obtain ⟨as2, w2⟩ := r2
        rw [h2] at h
        obtain ⟨f1, f2, f3⟩ := commitArtW_frame cfg strat a a1 w w1 h1
        obtain ⟨g1, g2, g3⟩ := commitArts_frame cfg strat as as2 w1 w2 h2
        cases h
        exact ⟨g1.trans f1, g2.trans f2, by simp only [List.map_cons, f3, g3]⟩

theorem commitAct_frame (cfg : Cfg κ) (strat : Strat) (sp : Bytes) (w w' : World κ)
    (hn : (w.idx.map (·.1)).Nodup) (h : commitAct cfg strat sp w = .ok w') :
    SameShape w'.idx w.idx ∧ w'.done = sp :: w.done := by
  simp only [commitAct] at h
  cases hs : w.stage sp with
  | error e => rw [hs] at h; cases h
  | ok stg =>
    rw [hs] at h
    simp only at h
    have hl := World.stage_eq_ok.1 hs
    split at h
    · cases h
    rename_i plain' w1 hc1
    split at h
    · cases h
    rename_i _ outs' w2 hc2
    cases h
    obtain ⟨f1, f2, f3⟩ := commitArts_frame cfg strat _ _ w w1 hc1
    obtain ⟨g1, g2, g3⟩ := commitArts_frame cfg strat _ _ w1 w2 hc2
    refine ⟨?_, by simp only [g2, f2]⟩
    simp only [g1, f1]
    refine setStage_sim w.idx sp _ fun s hs => ?_
    have := eq_of_alookup_of_mem hn hl hs
    subst this
    refine ⟨fun p => ?_, fun p => ?_⟩
    · -- inputs: the owned ones and the plain ones together are all of them
      simp only
      rw [mem_paths_sortArts, List.map_append, List.mem_append, paths_of_noSum f3, mem_paths_sortArts]
      simp only [List.mem_map, List.mem_filter]
      constructor
      · rintro (⟨a, ⟨b, ⟨hb, _⟩, rfl⟩, rfl⟩ | ⟨a, ⟨b, ⟨hb, _⟩, rfl⟩, rfl⟩)
        · refine ⟨b, hb, ?_⟩
          split <;> rfl
        · exact ⟨b, hb, rfl⟩
      · rintro ⟨b, hb, rfl⟩
        cases ho : (findOwner cfg.walkAccumulates w.idx b.path).isSome with
        | true =>
          refine .inl ⟨_, ⟨b, ⟨hb, ho⟩, rfl⟩, ?_⟩
          split <;> rfl
        | false =>
          refine .inr ⟨_, ⟨b, ⟨hb, by simpa using ho⟩, rfl⟩, rfl⟩
    · -- outputs: sorted, new checksums
      simp only
      rw [findArt_noRec_of_noSum g3, findArt_sortArts]

end Dud
