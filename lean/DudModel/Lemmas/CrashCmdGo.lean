import DudModel.Lemmas.CrashCmd
/-!
# `dud commit` with the stage files written after each target (Go's order): the invariant of the loop

* `flatSegs`, `goTargets_erase` (refinement of the loop over the targets)
* `PrefixAll`: a property of the state after every prefix of a trace, and its composition
* `StageQ`: "the stage file holds what it held before or a complete encoding of a stage"
* `GInv`: invariant of the loop, `goTargets_inv`
-/
namespace Dud.Sys
open Dud
variable {κ : Type}

/-- the flat call sequence of tagged segments -/
def flatSegs (segs : List (Bool × List (Call κ))) : List (Call κ) := (segs.map (·.2)).flatten

theorem flatSegs_nil : flatSegs ([] : List (Bool × List (Call κ))) = [] := rfl

theorem flatSegs_append (a b : List (Bool × List (Call κ))) :
    flatSegs (a ++ b) = flatSegs a ++ flatSegs b := by
  simp [flatSegs]

theorem flatSegs_arts (arts : List (List (Call κ))) :
    flatSegs (arts.map (fun s => (true, s))) = arts.flatten := by
  simp [flatSegs, Function.comp_def]

theorem flatSegs_metas (f : Bytes → List (Call κ)) (l : List Bytes) :
    flatSegs (l.map (fun sp => (false, f sp))) = (l.map f).flatten := by
  simp [flatSegs, Function.comp_def]

theorem goCalls_eq (segs : List (Bool × List (Call κ))) :
    goCalls segs = [.createExcl .lock] ++ flatSegs segs ++ [.unlink .lock] := rfl

/-! ## refinement -/

theorem goTargets_erase (c : CmdCfg κ) (strat : Strat) :
    ∀ (ts : List Bytes) (p : World κ × List (Bool × List (Call κ))),
      (goTargets c strat ts p).map (·.1) =
        perTarget (fun t w => visit (commitTrav c.cfg strat) true (w.idx.length + 1) (allStages w) t w) ts p.1
  | [], _ => rfl
  | t :: r, p => by
    simp only [goTargets, perTarget]
    split
    · rfl
    · have h := visit_commitTravT_refines c strat true (p.1.idx.length + 1) (allStages p.1) t (p.1, [])
      simp only at h
      cases hv : visit (commitTravT c strat) true (p.1.idx.length + 1) (allStages p.1) t (p.1, []) with
      | error e => rw [hv] at h; rw [← h]; rfl
      | ok q =>
        obtain ⟨w', arts⟩ := q
        rw [hv] at h; rw [← h]
        exact goTargets_erase c strat r _

theorem cmdCommitGoSegs_erase (c : CmdCfg κ) (strat : Strat) (targets : List Bytes) (w : World κ) :
    (cmdCommitGoSegs c strat targets w).map (·.1) = cmdCommit c.cfg strat targets w := by
  unfold cmdCommitGoSegs cmdCommit
  simp only
  generalize (if targets.isEmpty then allStages w else targets) = ts
  by_cases hts : ts.isEmpty = true
  · rw [if_pos hts, if_pos hts]; rfl
  · rw [if_neg hts, if_neg hts]
    exact goTargets_erase c strat ts (fresh w, [])

theorem cmdCommitGoT_erase (c : CmdCfg κ) (strat : Strat) (targets : List Bytes) (w : World κ) :
    (cmdCommitGoT c strat targets w).map (·.1) = cmdCommit c.cfg strat targets w := by
  rw [← cmdCommitGoSegs_erase]
  unfold cmdCommitGoT
  cases cmdCommitGoSegs c strat targets w with
  | error e => rfl
  | ok v => rfl

theorem cmdCommitGoT_ok_inv {c : CmdCfg κ} {strat : Strat} {targets : List Bytes} {w w' : World κ}
    {calls : List (Call κ)} (h : cmdCommitGoT c strat targets w = .ok (w', calls)) :
    ∃ segs, goTargets c strat (if targets.isEmpty then allStages w else targets) (fresh w, []) = .ok (w', segs) ∧
      calls = [.createExcl .lock] ++ flatSegs segs ++ [.unlink .lock] := by
  unfold cmdCommitGoT at h
  cases hs : cmdCommitGoSegs c strat targets w with
  | error e => rw [hs] at h; cases h
  | ok v =>
    obtain ⟨w1, segs⟩ := v
    rw [hs] at h
    simp only [Except.ok.injEq, Prod.mk.injEq] at h
    obtain ⟨rfl, rfl⟩ := h
    unfold cmdCommitGoSegs at hs
    simp only at hs
    generalize (if targets.isEmpty then allStages w else targets) = ts at hs ⊢
    by_cases hts : ts.isEmpty = true
    · rw [if_pos hts] at hs; cases hs
    · rw [if_neg hts] at hs
      exact ⟨segs, hs, rfl⟩

/-! ## a property after every prefix -/

/-- `Q` holds of the state after every prefix of the trace -/
def PrefixAll (Q : FS κ → Prop) (emp : κ) (fs : FS κ) (calls : List (Call κ)) : Prop :=
  ∀ k, Q (replay emp fs (calls.take k))

theorem PrefixAll.nil {Q : FS κ → Prop} {emp : κ} {fs : FS κ} (h : Q fs) : PrefixAll Q emp fs [] := by
  intro k; simpa [replay] using h

theorem PrefixAll.final {Q : FS κ → Prop} {emp : κ} {fs : FS κ} {calls : List (Call κ)}
    (h : PrefixAll Q emp fs calls) : Q (replay emp fs calls) := by
  have := h calls.length
  rwa [List.take_length] at this

theorem PrefixAll.append {Q : FS κ → Prop} {emp : κ} {fs : FS κ} {l1 l2 : List (Call κ)}
    (h1 : PrefixAll Q emp fs l1) (h2 : PrefixAll Q emp (replay emp fs l1) l2) :
    PrefixAll Q emp fs (l1 ++ l2) := by
  intro k
  by_cases hk : k ≤ l1.length
  · rw [take_append_le _ _ hk]; exact h1 k
  · rw [take_append_ge _ _ (by omega), replay_append]; exact h2 _

/-! ## stage files -/

/-- the stage file `sp` holds `old` or the complete encoding of some stage -/
def StageQ (c : CmdCfg κ) (sp : Bytes) (old : Option (Entry κ)) (fs : FS κ) : Prop :=
  fs.get (.stageFile sp) = old ∨ ∃ stg m, fs.get (.stageFile sp) = some (.file (c.encStage stg) m)

theorem stageQ_frame (c : CmdCfg κ) (sp : Bytes) (old : Option (Entry κ)) (emp : κ) {fs : FS κ}
    (h : StageQ c sp old fs) {calls : List (Call κ)} (hc : ∀ x ∈ calls, P.stageFile sp ∉ callWrites x) :
    PrefixAll (StageQ c sp old) emp fs calls := by
  intro k
  unfold StageQ
  rw [replay_get_frame emp _ _ _ (fun x hx => hc x (List.mem_of_mem_take hx))]
  exact h

theorem stageQ_metaPhase (c : CmdCfg κ) (hat : stageAtomic = true) {emp : κ}
    (hemp : ∀ x, c.isEmp x = true → x = emp) (idx : Index) (sp : Bytes) (old : Option (Entry κ))
    (l : List Bytes) {fs : FS κ} (htf : StageTmpFree fs) (h : StageQ c sp old fs) :
    PrefixAll (StageQ c sp old) emp fs (l.map (stageWriteCalls c idx)).flatten := by
  intro k
  rcases metaPhase_atomic c hat hemp idx sp l fs (fs.get (.stageFile sp)) htf (.inl rfl) k with h1 | ⟨stg, m, -, h1⟩
  · unfold StageQ; rw [h1]; exact h
  · exact .inr ⟨stg, m, h1⟩

theorem metaPhase_tmp_free (c : CmdCfg κ) (hat : stageAtomic = true) (emp : κ) (idx : Index) :
    ∀ (l : List Bytes) (fs : FS κ), StageTmpFree fs →
      StageTmpFree (replay emp fs (l.map (stageWriteCalls c idx)).flatten)
  | [], fs, hfs => by simpa [replay] using hfs
  | x :: l, fs, hfs => by
    simp only [List.map_cons, List.flatten_cons, replay_append]
    exact metaPhase_tmp_free c hat emp idx l _ (stageWriteCalls_tmp_free c hat emp idx x hfs)

theorem stageTmpFree_frame (emp : κ) {fs : FS κ} (h : StageTmpFree fs) {calls : List (Call κ)}
    (hc : ∀ x ∈ calls, CacheOnly x) : StageTmpFree (replay emp fs calls) := by
  intro sp
  rw [replay_get_frame emp _ _ _ (fun x hx => cacheOnly_not_writes (hc x hx) rfl)]
  exact h sp

theorem metaPhase_no_lock (c : CmdCfg κ) (idx : Index) (l : List Bytes) :
    ∀ x ∈ (l.map (stageWriteCalls c idx)).flatten, P.lock ∉ callWrites x := by
  intro x hx
  simp only [List.mem_flatten, List.mem_map] at hx
  obtain ⟨seg, ⟨sp, -, rfl⟩, hxs⟩ := hx
  intro hmem
  rcases stageWriteCalls_paths c idx sp x hxs _ (callWrites_sub _ _ hmem) with h | h <;> cases h

/-! ## the invariant of the loop over the targets -/

structure GInv (c : CmdCfg κ) (emp : κ) (tracked : List (P × κ)) (fsb : FS κ)
    (p : World κ × List (Bool × List (Call κ))) : Prop where
  allowed : AllowedTrace c.cfg.ctx emp tracked fsb (flatSegs p.2)
  rel : Rel p.1.ws (replay emp fsb (flatSegs p.2))
  noLock : ∀ x ∈ flatSegs p.2, P.lock ∉ callWrites x
  tmpFree : StageTmpFree (replay emp fsb (flatSegs p.2))
  stage : ∀ sp, PrefixAll (StageQ c sp (fsb.get (.stageFile sp))) emp fsb (flatSegs p.2)

theorem GInv.init {c : CmdCfg κ} {emp : κ} {tracked : List (P × κ)} {fsb : FS κ} {w : World κ}
    (hr : Rel w.ws fsb) (htf : StageTmpFree fsb) : GInv c emp tracked fsb (w, []) where
  allowed := trivial
  rel := hr
  noLock := by intro x hx; simp [flatSegs] at hx
  tmpFree := htf
  stage := fun sp => PrefixAll.nil (.inl rfl)

/-- one round of the loop: the traversal of a target, then the stage files it committed -/
theorem go_step {c : CmdCfg κ} {strat : Strat} (g : Good c.cfg.ctx) (hat : stageAtomic = true)
    {tracked : List (P × κ)} (htw : TrackedWs tracked) {emp : κ} (hemp : ∀ x, c.isEmp x = true → x = emp)
    {fsb : FS κ} (hsb : Safe c.cfg.ctx tracked fsb) {t : Bytes}
    {p : World κ × List (Bool × List (Call κ))} {w' : World κ} {arts : List (List (Call κ))}
    (hi : GInv c emp tracked fsb p)
    (hv : visit (commitTravT c strat) true (p.1.idx.length + 1) (allStages p.1) t (p.1, []) = .ok (w', arts)) :
    TInv c emp tracked (replay emp fsb (flatSegs p.2)) (w', arts) ∧
    GInv c emp tracked fsb (w', p.2 ++ arts.map (fun s => (true, s)) ++
      (newlyDone p.1.done w'.done).map (fun sp => (false, stageWriteCalls c w'.idx sp))) := by
  -- the traversal of this target, from the state reached so far
  have hs : Safe c.cfg.ctx tracked (replay emp fsb (flatSegs p.2)) := hi.allowed.safe_final g hsb
  have hT0 : TInv c emp tracked (replay emp fsb (flatSegs p.2)) (p.1, []) := ⟨trivial, hi.rel, by simp⟩
  have hT := visit_inv (commitTravT c strat)
    (fun sp a b ha hb => commitTravT_inv g htw hemp hs sp a b ha hb) true _ _ t _ _ hT0 hv
  have hmeta : ∀ x ∈ ((newlyDone p.1.done w'.done).map (stageWriteCalls c w'.idx)).flatten, MetaOnly x :=
    metaPhase_metaOnly c w'.idx _
  refine ⟨hT, ?_, ?_, ?_, ?_, ?_⟩
  all_goals simp only [flatSegs_append, flatSegs_arts, flatSegs_metas]
  · exact AllowedTrace.append (AllowedTrace.append hi.allowed hT.allowed)
      (allowedTrace_of_harmless htw emp _ (fun x hx => harmless_of_metaOnly (hmeta x hx)) _)
  · rw [replay_append, replay_append]
    exact Rel.frame hT.rel emp _ (fun x hx => metaOnly_frame (hmeta x hx))
  · intro x hx
    rcases List.mem_append.1 hx with hx | hx
    · rcases List.mem_append.1 hx with hx | hx
      · exact hi.noLock x hx
      · exact cacheOnly_not_writes (hT.cacheOnly x hx) rfl
    · exact metaPhase_no_lock c w'.idx _ x hx
  · rw [replay_append, replay_append]
    exact metaPhase_tmp_free c hat emp w'.idx _ _ (stageTmpFree_frame emp hi.tmpFree hT.cacheOnly)
  · intro sp
    refine PrefixAll.append (PrefixAll.append (hi.stage sp) ?_) ?_
    · exact stageQ_frame c sp _ emp (hi.stage sp).final
        (fun x hx => cacheOnly_not_writes (hT.cacheOnly x hx) rfl)
    · refine stageQ_metaPhase c hat hemp w'.idx sp _ _ ?_ ?_
      · rw [replay_append]
        exact stageTmpFree_frame emp hi.tmpFree hT.cacheOnly
      · exact (PrefixAll.append (hi.stage sp) (stageQ_frame c sp _ emp (hi.stage sp).final
          (fun x hx => cacheOnly_not_writes (hT.cacheOnly x hx) rfl))).final

theorem goTargets_inv {c : CmdCfg κ} {strat : Strat} (g : Good c.cfg.ctx) (hat : stageAtomic = true)
    {tracked : List (P × κ)} (htw : TrackedWs tracked) {emp : κ} (hemp : ∀ x, c.isEmp x = true → x = emp)
    {fsb : FS κ} (hsb : Safe c.cfg.ctx tracked fsb) :
    ∀ (ts : List Bytes) (p p' : World κ × List (Bool × List (Call κ))), GInv c emp tracked fsb p →
      goTargets c strat ts p = .ok p' → GInv c emp tracked fsb p'
  | [], p, p', hi, h => by simp only [goTargets] at h; cases h; exact hi
  | t :: r, p, p', hi, h => by
    simp only [goTargets] at h
    split at h
    · cases h
    · cases hv : visit (commitTravT c strat) true (p.1.idx.length + 1) (allStages p.1) t (p.1, []) with
      | error e => rw [hv] at h; cases h
      | ok q =>
        obtain ⟨w', arts⟩ := q
        rw [hv] at h
        simp only at h
        exact goTargets_inv g hat htw hemp hsb r _ p' (go_step g hat htw hemp hsb hi hv).2 h

end Dud.Sys
