import DudModel.Lemmas.Interleave2
/-!
# Concurrent workers committing the entries of a directory (C03 + C13, tree level)

* `EntryWorkers t pre es rs ts`: worker i commits entry i of the directory `pre` — its trace `tsᵢ` is the
  `commitNodeT` trace of that entry with the temp numbers `[rsᵢ.1, rsᵢ.2)` (one level of concurrency: a
  sub-directory is committed sequentially by its worker).
* `ParTrace t pre nd lo hi calls`: the traces of the fully concurrent commit, as in the Go code — the
  entries of EVERY directory, at every depth, are committed by concurrent workers (`commitDirArtifact`
  starts workers, a worker that meets a sub-directory calls `commitDirArtifact` again), and the
  directory's manifest is written after all its workers have finished (`errGroup.Wait`).
  `commitNodeT_parTrace`: the sequential trace of the model is one of them.
* `parTrace_spec` / `parTraces_spec`: every such trace is `Disciplined` from every safe state in which
  the regular files of the tree are in place and no temp file exists, and ends in the expected state
  (`Post`: bytes in the cache under their digest, workspace path a link to it / the untouched file; temp
  files gone).
-/
namespace Dud.Sys

open Dud

variable {κ : Type}

/-! ## private paths of the workers of one directory -/

/-- temp-number ranges `[lo, hi)` that do not overlap -/
def DisjointRanges (rs : List (Nat × Nat)) : Prop := rs.Pairwise (fun a b => a.2 ≤ b.1 ∨ b.2 ≤ a.1)

/-- private paths of worker i: the workspace paths of the regular files below entry i, and its temp names -/
def privsOf (pre : List Name) : List (Name × Node κ) → List (Nat × Nat) → List (P → Prop)
  | (nm, nd) :: es, (lo, hi) :: rs => PrivOf (paths (trackedOf (pre ++ [nm]) nd)) lo hi :: privsOf pre es rs
  | _, _ => []

theorem privsOf_mem (pre : List Name) : ∀ (es : List (Name × Node κ)) (rs : List (Nat × Nat)) (B : P → Prop),
    B ∈ privsOf pre es rs →
      ∃ e ∈ es, ∃ r ∈ rs, B = PrivOf (paths (trackedOf (pre ++ [e.1]) e.2)) r.1 r.2
  | [], _, B, h => by simp [privsOf] at h
  | (nm, nd) :: es, [], B, h => by simp [privsOf] at h
  | (nm, nd) :: es, (lo, hi) :: rs, B, h => by
    simp only [privsOf, List.mem_cons] at h
    rcases h with rfl | h
    · exact ⟨(nm, nd), by simp, (lo, hi), by simp, rfl⟩
    · obtain ⟨e, he, r, hr, hB⟩ := privsOf_mem pre es rs B h
      exact ⟨e, by simp [he], r, by simp [hr], hB⟩

/-- workers of entries with different names and disjoint temp ranges have disjoint private paths -/
theorem privOf_disjoint {pre : List Name} {nm1 nm2 : Name} (hne : nm1 ≠ nm2) (nd1 nd2 : Node κ)
    {a b : Nat × Nat} (hab : a.2 ≤ b.1 ∨ b.2 ≤ a.1) :
    ∀ p, PrivOf (paths (trackedOf (pre ++ [nm1]) nd1)) a.1 a.2 p →
      ¬ PrivOf (paths (trackedOf (pre ++ [nm2]) nd2)) b.1 b.2 p := by
  rintro p (⟨q, rfl, hq⟩ | ⟨k, rfl, hk1, hk2⟩) (⟨q', heq, hq'⟩ | ⟨k', heq, hk1', hk2'⟩)
  · simp only [paths, List.mem_map] at hq hq'
    obtain ⟨p1, hp1, e1⟩ := hq
    obtain ⟨p2, hp2, e2⟩ := hq'
    obtain ⟨names1, hn1, -⟩ := trackedOf_names nd1 _ p1 hp1
    obtain ⟨names2, hn2, -⟩ := trackedOf_names nd2 _ p2 hp2
    rw [hn1] at e1; rw [hn2] at e2
    exact sibling_paths_ne hne (e1.trans e2.symm)
  · cases heq
  · cases heq
  · cases heq; omega

theorem privsOf_disjoint (pre : List Name) : ∀ {es : List (Name × Node κ)} {rs : List (Nat × Nat)},
    uniqList es → DisjointRanges rs → DisjointAll (privsOf pre es rs)
  | [], _, _, _ => by simp [privsOf, DisjointAll]
  | (nm, nd) :: es, [], _, _ => by simp [privsOf, DisjointAll]
  | (nm, nd) :: es, (lo, hi) :: rs, hu, hr => by
    simp only [uniqList] at hu
    obtain ⟨-, hne, hur⟩ := hu
    obtain ⟨hr1, hr2⟩ := List.pairwise_cons.1 hr
    simp only [privsOf, DisjointAll]
    refine List.pairwise_cons.2 ⟨?_, privsOf_disjoint pre hur hr2⟩
    intro B hB
    obtain ⟨e, he, r, hrr, rfl⟩ := privsOf_mem pre es rs B hB
    exact privOf_disjoint (Ne.symm (hne e he)) nd e.2 (a := (lo, hi)) (hr1 r hrr)

theorem paths_trackedList_of_mem (pre : List Name) : ∀ {es : List (Name × Node κ)} {e : Name × Node κ},
    e ∈ es → ∀ p ∈ paths (trackedOf (pre ++ [e.1]) e.2), p ∈ paths (trackedList pre es)
  | (nm, nd) :: es, e, he, p, hp => by
    rcases List.mem_cons.1 he with rfl | he
    · exact paths_cons_left pre _ _ es p hp
    · exact paths_cons_right pre nm nd es p (paths_trackedList_of_mem pre he p hp)

/-- the private paths of the workers of a directory are private paths of the directory's commit -/
theorem privsOf_sub (pre : List Name) {es : List (Name × Node κ)} {rs : List (Nat × Nat)} {lo hi : Nat}
    (hrng : ∀ r ∈ rs, lo ≤ r.1 ∧ r.2 ≤ hi) {p : P} (h : UnionOf (privsOf pre es rs) p) :
    PrivOf (paths (trackedList pre es)) lo hi p := by
  obtain ⟨B, hB, hp⟩ := h
  obtain ⟨e, he, r, hr, rfl⟩ := privsOf_mem pre es rs B hB
  exact hp.mono (paths_trackedList_of_mem pre he) (hrng r hr).1 (hrng r hr).2

theorem privOf_tracked {pre : List Name} {nd : Node κ} {p : P × κ} (hp : p ∈ trackedOf pre nd)
    (lo hi : Nat) : PrivOf (paths (trackedOf pre nd)) lo hi p.1 := by
  obtain ⟨q, hq⟩ := tracked_is_ws hp
  exact Or.inl ⟨q, hq, List.mem_map_of_mem (f := (·.1)) hp⟩

/-! ## what `commitFileArtifact` leaves at the workspace path -/

theorem commitFileCalls_ws_link (emp : κ) (isEmp : κ → Bool) (canRename : Bool) (q : List Name) (n : Nat)
    (c : κ) (d : Digest) (fs : FS κ) :
    (replay emp fs (commitFileCalls isEmp .link canRename (.ws q) n c d)).get (.ws q)
      = some (.link (.obj d)) := by
  cases canRename with
  | true =>
    simp only [commitFileCalls, replay_cons, replay_nil]
    apply get_symlink_self
    rw [apply_get_frame _ _ _ _ (by simp [callWrites, callPaths])]
    exact get_rename_src (by simp)
  | false =>
    simp only [commitFileCalls]
    rw [replay_append]
    generalize replay emp fs _ = fs1
    simp only [replay_cons, replay_nil]
    exact get_symlink_self get_unlink_self

theorem commitFileCalls_ws_copy (emp : κ) (isEmp : κ → Bool) (canRename : Bool) (q : List Name) (n : Nat)
    (c : κ) (d : Digest) (fs : FS κ) :
    (replay emp fs (commitFileCalls isEmp .copy canRename (.ws q) n c d)).get (.ws q) = fs.get (.ws q) := by
  cases canRename <;>
    exact replay_get_frame emp _ _ fs (not_written_by_copyIntoCache isEmp n c d q)

/-! ## the expected final state -/

/-- what the commit of the regular files `tr` leaves behind (`fs`: before, `fs'`: after): the bytes of
every file are in the cache under their digest; under the link strategy the workspace path is a link to
that object, under the copy strategy it is untouched -/
structure Post (t : TCfg κ) (fs fs' : FS κ) (tr : List (P × κ)) : Prop where
  stored : ∀ p ∈ tr, ∃ m, fs'.get (.obj (t.ctx.H p.2)) = some (.file p.2 m)
  wsLink : t.strat = .link → ∀ p ∈ tr, fs'.get p.1 = some (.link (.obj (t.ctx.H p.2)))
  wsCopy : t.strat = .copy → ∀ p ∈ tr, fs'.get p.1 = fs.get p.1

theorem Post.nil (t : TCfg κ) (fs fs' : FS κ) : Post t fs fs' [] :=
  ⟨fun _ h => by simp at h, fun _ _ h => by simp at h, fun _ _ h => by simp at h⟩

/-! ## the traces of the concurrent commit -/

/-- the trace of an entry that is not a directory: the `commitNodeT` trace (a regular file: one of the
three variants of `commitFileArtifact`; a link or a special file: no call) with a temp number in `[lo, hi)` -/
def LeafTrace (t : TCfg κ) (pre : List Name) (nd : Node κ) (lo hi : Nat) (calls : List (Call κ)) : Prop :=
  ∃ (c : Child) (s : Store κ) (n : Nat) (r : Node κ × Child × Store κ) (k : Nat),
    lo ≤ n ∧ k ≤ hi ∧ commitNodeT t pre nd c s n = .ok (r, calls, k)

mutual
/-- **The traces of the concurrent commit of the tree at `pre`**, temp numbers in `[lo, hi)`.
A directory: its entries are committed by workers whose own traces are again concurrent commits, with
pairwise disjoint temp ranges; the calls of the workers interleave in any way (`InterleavingN`); after
the last worker has finished, the manifest (any bytes `mb`) is stored with `copyIntoCache`. -/
def ParTrace (t : TCfg κ) : List Name → Node κ → Nat → Nat → List (Call κ) → Prop
  | pre, .dir es, lo, hi, calls =>
    ∃ (rs : List (Nat × Nat)) (ts : List (List (Call κ))) (l : List (Call κ)) (n : Nat) (mb : κ),
      ParTraces t pre es rs ts ∧ DisjointRanges rs ∧ (∀ r ∈ rs, lo ≤ r.1 ∧ r.2 ≤ hi) ∧
      lo ≤ n ∧ n < hi ∧ InterleavingN ts l ∧
      calls = l ++ copyIntoCache t.isEmp n mb (t.ctx.H mb)
  | pre, .file x, lo, hi, calls => LeafTrace t pre (.file x) lo hi calls
  | pre, .link l, lo, hi, calls => LeafTrace t pre (.link l) lo hi calls
  | pre, .other, lo, hi, calls => LeafTrace t pre .other lo hi calls
/-- one worker per entry: worker i has the temp range `rsᵢ` and issues the trace `tsᵢ` -/
def ParTraces (t : TCfg κ) : List Name → List (Name × Node κ) → List (Nat × Nat) →
    List (List (Call κ)) → Prop
  | _, [], rs, ts => rs = [] ∧ ts = []
  | pre, (nm, nd) :: es, rs, ts =>
    ∃ (lo hi : Nat) (calls : List (Call κ)) (rs' : List (Nat × Nat)) (ts' : List (List (Call κ))),
      rs = (lo, hi) :: rs' ∧ ts = calls :: ts' ∧ ParTrace t (pre ++ [nm]) nd lo hi calls ∧
      ParTraces t pre es rs' ts'
end

/-- **One level of concurrency**: worker i commits entry i of the directory `pre`; its trace is the
(sequential) `commitNodeT` trace of that entry, computed from any child artifact `c` and any store `s`
(in particular: all workers from the same initial store), with the temp numbers `[lo, hi)`. -/
inductive EntryWorkers (t : TCfg κ) (pre : List Name) :
    List (Name × Node κ) → List (Nat × Nat) → List (List (Call κ)) → Prop
  | nil : EntryWorkers t pre [] [] []
  | cons {nm : Name} {nd : Node κ} {c : Child} {s : Store κ} {lo hi : Nat}
      {r : Node κ × Child × Store κ} {calls : List (Call κ)} {es : List (Name × Node κ)}
      {rs : List (Nat × Nat)} {ts : List (List (Call κ))} :
      commitNodeT t (pre ++ [nm]) nd c s lo = .ok (r, calls, hi) → EntryWorkers t pre es rs ts →
      EntryWorkers t pre ((nm, nd) :: es) ((lo, hi) :: rs) (calls :: ts)

/-! ## the sequential trace of the model is one of the concurrent traces -/

theorem commitEntriesT_cons_noskip {t : TCfg κ} {pre : List Name} {nm : Name}
    {nd : Node κ} {r : List (Name × Node κ)} {old : List Child} {s : Store κ} {n : Nat}
    {res : List (Name × Node κ) × List Child × Store κ} {calls : List (Call κ)} {k : Nat}
    (h : commitEntriesT t pre false ((nm, nd) :: r) old s n = .ok (res, calls, k)) :
    ∃ c0 nd' c' s1 calls1 n1 res2 calls2,
      commitNodeT t (pre ++ [nm]) nd c0 s n = .ok ((nd', c', s1), calls1, n1) ∧
      commitEntriesT t pre false r old s1 n1 = .ok (res2, calls2, k) ∧ calls = calls1 ++ calls2 := by
  obtain ⟨c0, hT0, -⟩ := commitEntries_cons_both t pre false nm nd r old s n
  rw [hT0] at h
  split at h
  · next hc => simp at hc
  · split at h
    · cases h
    · cases hT : commitNodeT t (pre ++ [nm]) nd c0 s n with
      | error e => simp [hT] at h
      | ok v =>
        obtain ⟨⟨nd', c', s1⟩, calls1, n1⟩ := v
        simp only [hT] at h
        cases hT2 : commitEntriesT t pre false r old s1 n1 with
        | error e => simp [hT2] at h
        | ok v =>
          obtain ⟨⟨r', cs, s2⟩, calls2, n2⟩ := v
          simp [hT2] at h
          obtain ⟨-, rfl, rfl⟩ := h
          exact ⟨c0, nd', c', s1, calls1, n1, _, calls2, hT, hT2, rfl⟩

mutual
/-- **The sequential trace is one of the concurrent traces** (the schedule in which every worker runs
to completion before the next one starts). -/
theorem commitNodeT_parTrace (t : TCfg κ) : ∀ (nd : Node κ) (pre : List Name) (c : Child) (s : Store κ)
    (n : Nat) (res : Node κ × Child × Store κ) (calls : List (Call κ)) (n' : Nat),
    commitNodeT t pre nd c s n = .ok (res, calls, n') → ParTrace t pre nd n n' calls
  | .file x, pre, c, s, n, res, calls, n', h => by
    simp only [ParTrace]
    exact ⟨c, s, n, res, n', Nat.le_refl _, Nat.le_refl _, h⟩
  | .link l, pre, c, s, n, res, calls, n', h => by
    simp only [ParTrace]
    exact ⟨c, s, n, res, n', Nat.le_refl _, Nat.le_refl _, h⟩
  | .other, pre, c, s, n, res, calls, n', h => by
    simp only [ParTrace]
    exact ⟨c, s, n, res, n', Nat.le_refl _, Nat.le_refl _, h⟩
  | .dir es, pre, c, s, n, res, calls, n', h => by
    obtain ⟨old, res1, calls1, n1, mb, hT, rfl, rfl⟩ := commitNodeT_dir_ok h
    obtain ⟨rs, ts, hpt, rfl, hle, hrng, hdr⟩ := commitEntriesT_parTraces t es pre old s n res1 _ n1 hT
    simp only [ParTrace]
    exact ⟨rs, ts, ts.flatten, n1, mb, hpt, hdr,
      fun r hr => ⟨(hrng r hr).1, Nat.le_succ_of_le (hrng r hr).2⟩, hle, Nat.lt_succ_self _,
      InterleavingN.flatten ts, rfl⟩
theorem commitEntriesT_parTraces (t : TCfg κ) : ∀ (es : List (Name × Node κ)) (pre : List Name)
    (old : List Child) (s : Store κ) (n : Nat) (res : List (Name × Node κ) × List Child × Store κ)
    (calls : List (Call κ)) (n' : Nat),
    commitEntriesT t pre false es old s n = .ok (res, calls, n') →
      ∃ rs ts, ParTraces t pre es rs ts ∧ calls = ts.flatten ∧ n ≤ n' ∧
        (∀ r ∈ rs, n ≤ r.1 ∧ r.2 ≤ n') ∧ DisjointRanges rs
  | [], pre, old, s, n, res, calls, n', h => by
    simp [commitEntriesT] at h
    obtain ⟨-, rfl, rfl⟩ := h
    exact ⟨[], [], by simp [ParTraces], rfl, Nat.le_refl _, by simp, List.Pairwise.nil⟩
  | (nm, nd) :: r, pre, old, s, n, res, calls, n', h => by
    obtain ⟨c0, nd', c', s1, calls1, n1, res2, calls2, h1, h2, rfl⟩ := commitEntriesT_cons_noskip h
    have hp1 := commitNodeT_parTrace t nd (pre ++ [nm]) c0 s n _ calls1 n1 h1
    have hle1 := (commitNodeT_foot t nd (pre ++ [nm]) c0 s n _ calls1 n1 h1).1
    obtain ⟨rs, ts, hpt, rfl, hle2, hrng, hdr⟩ :=
      commitEntriesT_parTraces t r pre old s1 n1 res2 calls2 n' h2
    refine ⟨(n, n1) :: rs, calls1 :: ts, ?_, by simp, by omega, ?_, ?_⟩
    · simp only [ParTraces]
      exact ⟨n, n1, calls1, rs, ts, rfl, rfl, hp1, hpt⟩
    · intro r' hr'
      rcases List.mem_cons.1 hr' with rfl | hr'
      · exact ⟨Nat.le_refl _, hle2⟩
      · have := hrng r' hr'
        exact ⟨by omega, this.2⟩
    · exact List.pairwise_cons.2 ⟨fun r' hr' => Or.inl (hrng r' hr').1, hdr⟩
end

/-- one level of concurrency is a special case: each worker's sequential trace is a concurrent trace -/
theorem EntryWorkers.parTraces {t : TCfg κ} {pre : List Name} {es : List (Name × Node κ)}
    {rs : List (Nat × Nat)} {ts : List (List (Call κ))} (h : EntryWorkers t pre es rs ts) :
    ParTraces t pre es rs ts := by
  induction h with
  | nil => simp [ParTraces]
  | @cons nm nd c s lo hi r calls es rs ts h1 _ ih =>
    simp only [ParTraces]
    exact ⟨lo, hi, calls, rs, ts, rfl, rfl, commitNodeT_parTrace t nd _ c s lo r calls hi h1, ih⟩

/-- the sequential loop of the model (`commitEntriesT`, no entry skipped) is the schedule in which the
entry workers run one after the other: its trace is the concatenation of the workers' traces -/
theorem commitEntriesT_entryWorkers (t : TCfg κ) : ∀ (es : List (Name × Node κ)) (pre : List Name)
    (old : List Child) (s : Store κ) (n : Nat) (res : List (Name × Node κ) × List Child × Store κ)
    (calls : List (Call κ)) (n' : Nat),
    commitEntriesT t pre false es old s n = .ok (res, calls, n') →
      ∃ rs ts, EntryWorkers t pre es rs ts ∧ calls = ts.flatten ∧ n ≤ n' ∧
        (∀ r ∈ rs, n ≤ r.1 ∧ r.2 ≤ n') ∧ DisjointRanges rs
  | [], pre, old, s, n, res, calls, n', h => by
    simp [commitEntriesT] at h
    obtain ⟨-, rfl, rfl⟩ := h
    exact ⟨[], [], .nil, rfl, Nat.le_refl _, by simp, List.Pairwise.nil⟩
  | (nm, nd) :: r, pre, old, s, n, res, calls, n', h => by
    obtain ⟨c0, nd', c', s1, calls1, n1, res2, calls2, h1, h2, rfl⟩ := commitEntriesT_cons_noskip h
    have hle1 := (commitNodeT_foot t nd (pre ++ [nm]) c0 s n _ calls1 n1 h1).1
    obtain ⟨rs, ts, hpt, rfl, hle2, hrng, hdr⟩ :=
      commitEntriesT_entryWorkers t r pre old s1 n1 res2 calls2 n' h2
    refine ⟨(n, n1) :: rs, calls1 :: ts, .cons h1 hpt, by simp, by omega, ?_, ?_⟩
    · intro r' hr'
      rcases List.mem_cons.1 hr' with rfl | hr'
      · exact ⟨Nat.le_refl _, hle2⟩
      · have := hrng r' hr'
        exact ⟨by omega, this.2⟩
    · exact List.pairwise_cons.2 ⟨fun r' hr' => Or.inl (hrng r' hr').1, hdr⟩

/-- the workspace paths among the workers' private paths are paths of regular files of the directory -/
theorem privsOf_ws (pre : List Name) {es : List (Name × Node κ)} {rs : List (Nat × Nat)} {q : List Name}
    (h : UnionOf (privsOf pre es rs) (.ws q)) : P.ws q ∈ paths (trackedList pre es) := by
  obtain ⟨B, hB, hp⟩ := h
  obtain ⟨e, he, r, -, rfl⟩ := privsOf_mem pre es rs B hB
  rcases hp with ⟨q', -, hmem⟩ | ⟨k, heq, -⟩
  · exact paths_trackedList_of_mem pre he _ hmem
  · cases heq

theorem privOf_ws {wsPaths : List P} {lo hi : Nat} {q : List Name} (h : PrivOf wsPaths lo hi (.ws q)) :
    P.ws q ∈ wsPaths := by
  rcases h with ⟨q', -, hmem⟩ | ⟨k, heq, -⟩
  · exact hmem
  · cases heq

/-! ## every concurrent trace is disciplined and ends in the expected state -/

/-- a regular file: all three variants of `commitFileArtifact` -/
theorem leafFile_spec {t : TCfg κ} (g : Good t.ctx) {tracked : List (P × κ)}
    (htw : TrackedWs tracked) {emp : κ} (hemp : ∀ c, t.isEmp c = true → c = emp)
    {pre : List Name} {x : κ} {lo hi : Nat} {calls : List (Call κ)}
    (h : LeafTrace t pre (.file x) lo hi calls) {fs : FS κ} (hs : Safe t.ctx tracked fs)
    (hin : ∀ p ∈ trackedOf pre (.file x), ∃ m, fs.get p.1 = some (.file p.2 m))
    (hfr : ∀ k, fs.get (.ctmp k) = none) :
    Disciplined t.ctx emp tracked fs (PrivOf (paths (trackedOf pre (Node.file x))) lo hi) calls ∧
      Post t fs (replay emp fs calls) (trackedOf pre (Node.file x)) ∧
      ∀ k, (replay emp fs calls).get (.ctmp k) = none := by
  obtain ⟨c, s, n, r, k, hlo, hhi, hT⟩ := h
  obtain ⟨rfl, rfl⟩ := commitNodeT_file_ok hT
  obtain ⟨m, hm⟩ := hin (.ws pre, x) (by simp [trackedOf])
  have hspec := commitFileCalls_spec g htw hemp hs hm (hfr n) t.strat t.canRename
  refine ⟨⟨privOf_priv _ _ _, hspec.1, ?_⟩, ⟨?_, ?_, ?_⟩, ?_⟩
  · have := commitFileCalls_owned t.isEmp t.strat t.canRename pre n x (t.ctx.H x)
    exact this.mono (fun p hp => hp.mono (by simp [paths, trackedOf]) hlo hhi)
  · intro p hp
    simp only [trackedOf, List.mem_singleton] at hp
    subst hp
    exact ⟨_, hspec.2⟩
  · intro hl p hp
    simp only [trackedOf, List.mem_singleton] at hp
    subst hp
    rw [hl]
    exact commitFileCalls_ws_link emp _ _ _ _ _ _ _
  · intro hl p hp
    simp only [trackedOf, List.mem_singleton] at hp
    subst hp
    rw [hl]
    exact commitFileCalls_ws_copy emp _ _ _ _ _ _ _
  · intro k
    exact commitFileCalls_ctmp_free emp _ _ _ _ _ _ _ (lo := 0) (fun k _ => hfr k) k (Nat.zero_le _)

mutual
/-- **Every trace of the concurrent commit** of a tree with duplicate-free entry names, from any safe
state in which the regular files of the tree are in place and no temp file exists:
it is `Disciplined` for the workspace paths of the tree's regular files and its temp range (so it is an
`AllowedTrace`: safe after every prefix), it ends in the expected state (`Post`), and all temp files
are gone. -/
theorem parTrace_spec {t : TCfg κ} (g : Good t.ctx) {tracked : List (P × κ)}
    (htw : TrackedWs tracked) {emp : κ} (hemp : ∀ c, t.isEmp c = true → c = emp) :
    ∀ (nd : Node κ) (pre : List Name) (lo hi : Nat) (calls : List (Call κ)),
      uniqNode nd → ParTrace t pre nd lo hi calls →
      ∀ fs : FS κ, Safe t.ctx tracked fs →
        (∀ p ∈ trackedOf pre nd, ∃ m, fs.get p.1 = some (.file p.2 m)) →
        (∀ k, fs.get (.ctmp k) = none) →
        Disciplined t.ctx emp tracked fs (PrivOf (paths (trackedOf pre nd)) lo hi) calls ∧
          Post t fs (replay emp fs calls) (trackedOf pre nd) ∧
          ∀ k, (replay emp fs calls).get (.ctmp k) = none
  | .file x, pre, lo, hi, calls, _, h, fs, hs, hin, hfr => by
    simp only [ParTrace] at h
    exact leafFile_spec g htw hemp h hs hin hfr
  | .link l, pre, lo, hi, calls, _, h, fs, hs, hin, hfr => by
    simp only [ParTrace] at h
    obtain ⟨c, s, n, r, k, -, -, hT⟩ := h
    obtain ⟨rfl, -⟩ := commitNodeT_link_ok hT
    exact ⟨Disciplined.nil (privOf_priv _ _ _), by simp only [trackedOf]; exact Post.nil _ _ _, hfr⟩
  | .other, pre, lo, hi, calls, _, h, fs, hs, hin, hfr => by
    simp only [ParTrace] at h
    obtain ⟨c, s, n, r, k, -, -, hT⟩ := h
    obtain ⟨rfl, -⟩ := commitNodeT_other_ok hT
    exact ⟨Disciplined.nil (privOf_priv _ _ _), by simp only [trackedOf]; exact Post.nil _ _ _, hfr⟩
  | .dir es, pre, lo, hi, calls, hu, h, fs, hs, hin, hfr => by
    simp only [ParTrace] at h
    obtain ⟨rs, ts, l, n, mb, hpt, hdr, hrng, hlo, hhi, hil, rfl⟩ := h
    simp only [uniqNode] at hu
    simp only [trackedOf] at hin ⊢
    obtain ⟨hF, hct, hpost⟩ := parTraces_spec g htw hemp es pre rs ts hu hpt fs hs hin hfr
    obtain ⟨dl, rel, mrg⟩ := interleavingN_disciplined g emp hs hF (privsOf_disjoint pre hu hdr) hil
    have dl' : Disciplined t.ctx emp tracked fs (PrivOf (paths (trackedList pre es)) lo hi) l :=
      dl.mono (privOf_priv _ _ _) (fun p hp => privsOf_sub pre hrng hp)
    have hsf : Safe t.ctx tracked (replay emp fs l) := dl.safe_final g hs
    have hctf : ∀ k, (replay emp fs l).get (.ctmp k) = none := by
      intro k
      rw [(mrg.nonObj (.ctmp k) rfl).2 (by
        intro s hs
        simp only [List.mem_map] at hs
        obtain ⟨tr, htr, rfl⟩ := hs
        rw [hct tr htr k, hfr k])]
      exact hfr k
    have hspec := copyIntoCache_spec (ctx := t.ctx) (tracked := tracked) htw hemp (hctf n) mb
    have hpl := hpost _ rel
    have hole := objLe_replay g emp hsf hspec.1
    have hwsf : ∀ p ∈ trackedList pre es,
        (replay emp fs (l ++ copyIntoCache t.isEmp n mb (t.ctx.H mb))).get p.1
          = (replay emp fs l).get p.1 := by
      intro p hp
      obtain ⟨q, hq⟩ := trackedList_is_ws hp
      rw [replay_append, hq]
      exact replay_get_frame emp _ _ _ (not_written_by_copyIntoCache _ _ _ _ q)
    refine ⟨⟨privOf_priv _ _ _, AllowedTrace.append dl'.allowed hspec.1,
      OwnedAll.append dl'.owned ((copyIntoCache_owned t.isEmp n mb _).mono
        (fun p hp => hp.mono (by simp) hlo (by omega)))⟩, ⟨?_, ?_, ?_⟩, ?_⟩
    · intro p hp
      obtain ⟨m, hm⟩ := hpl.stored p hp
      rw [replay_append]
      exact hole _ _ _ hm
    · intro hl p hp
      rw [hwsf p hp]; exact hpl.wsLink hl p hp
    · intro hl p hp
      rw [hwsf p hp]; exact hpl.wsCopy hl p hp
    · intro k
      rw [replay_append]
      exact copyIntoCache_ctmp_free emp _ _ _ _ (lo := 0) (fun k _ => hctf k) k (Nat.zero_le _)
/-- the workers of one directory: each is disciplined when run alone from `fs`, leaves no temp file,
and whatever state `f` agrees with each worker's solo final state on that worker's private paths and
has the objects of each solo run (`Rel`) is the expected final state of all entries -/
theorem parTraces_spec {t : TCfg κ} (g : Good t.ctx) {tracked : List (P × κ)}
    (htw : TrackedWs tracked) {emp : κ} (hemp : ∀ c, t.isEmp c = true → c = emp) :
    ∀ (es : List (Name × Node κ)) (pre : List Name) (rs : List (Nat × Nat))
      (ts : List (List (Call κ))),
      uniqList es → ParTraces t pre es rs ts →
      ∀ fs : FS κ, Safe t.ctx tracked fs →
        (∀ p ∈ trackedList pre es, ∃ m, fs.get p.1 = some (.file p.2 m)) →
        (∀ k, fs.get (.ctmp k) = none) →
        Forall2 (Disciplined t.ctx emp tracked fs) (privsOf pre es rs) ts ∧
          (∀ tr ∈ ts, ∀ k, (replay emp fs tr).get (.ctmp k) = none) ∧
          (∀ f : FS κ, Forall2 (fun A tr => Rel A (replay emp fs tr) f) (privsOf pre es rs) ts →
            Post t fs f (trackedList pre es))
  | [], pre, rs, ts, _, h, fs, hs, hin, hfr => by
    simp only [ParTraces] at h
    obtain ⟨rfl, rfl⟩ := h
    exact ⟨by simp only [privsOf]; exact .nil, by simp,
      fun f _ => by simp only [trackedList]; exact Post.nil _ _ _⟩
  | (nm, nd) :: es, pre, rs, ts, hu, h, fs, hs, hin, hfr => by
    simp only [ParTraces] at h
    obtain ⟨lo, hi, calls, rs', ts', rfl, rfl, h1, h2⟩ := h
    simp only [uniqList] at hu
    obtain ⟨hun, hne, hur⟩ := hu
    have hin1 : ∀ p ∈ trackedOf (pre ++ [nm]) nd, ∃ m, fs.get p.1 = some (.file p.2 m) :=
      fun p hp => hin p (by simp only [trackedList, List.mem_append]; exact Or.inl hp)
    have hin2 : ∀ p ∈ trackedList pre es, ∃ m, fs.get p.1 = some (.file p.2 m) :=
      fun p hp => hin p (by simp only [trackedList, List.mem_append]; exact Or.inr hp)
    obtain ⟨d1, p1, c1⟩ := parTrace_spec g htw hemp nd (pre ++ [nm]) lo hi calls hun h1 fs hs hin1 hfr
    obtain ⟨hF, hct, hpost⟩ := parTraces_spec g htw hemp es pre rs' ts' hur h2 fs hs hin2 hfr
    refine ⟨by simp only [privsOf]; exact .cons d1 hF, ?_, ?_⟩
    · intro tr htr k
      rcases List.mem_cons.1 htr with rfl | htr
      · exact c1 k
      · exact hct tr htr k
    · intro f hrel
      simp only [privsOf] at hrel
      cases hrel with
      | cons hr1 hrest =>
        have hp2 := hpost f hrest
        refine ⟨?_, ?_, ?_⟩
        · intro p hp
          simp only [trackedList, List.mem_append] at hp
          rcases hp with hp | hp
          · obtain ⟨m, hm⟩ := p1.stored p hp
            exact hr1.objs _ _ _ hm
          · exact hp2.stored p hp
        · intro hl p hp
          simp only [trackedList, List.mem_append] at hp
          rcases hp with hp | hp
          · rw [hr1.priv p.1 (privOf_tracked hp lo hi)]
            exact p1.wsLink hl p hp
          · exact hp2.wsLink hl p hp
        · intro hl p hp
          simp only [trackedList, List.mem_append] at hp
          rcases hp with hp | hp
          · rw [hr1.priv p.1 (privOf_tracked hp lo hi)]
            exact p1.wsCopy hl p hp
          · exact hp2.wsCopy hl p hp
end

/-! ## permission discipline of the commit traces -/

theorem copyIntoCache_modeOK (isEmp : κ → Bool) (n : Nat) (c : κ) (d : Digest) :
    ModeOK (copyIntoCache isEmp n c d) := by
  unfold copyIntoCache
  cases isEmp c <;> simp [ModeOK]

theorem commitFileCalls_modeOK (isEmp : κ → Bool) (strat : Strat) (canRename : Bool) (w : P) (n : Nat)
    (c : κ) (d : Digest) : ModeOK (commitFileCalls isEmp strat canRename w n c d) := by
  cases strat <;> cases canRename <;> simp only [commitFileCalls]
  · exact ModeOK.append (copyIntoCache_modeOK isEmp n c d) (by simp [ModeOK])
  · simp [ModeOK]
  · exact copyIntoCache_modeOK isEmp n c d
  · exact copyIntoCache_modeOK isEmp n c d

mutual
/-- every trace of the concurrent commit follows the permission discipline -/
theorem parTrace_modeOK (t : TCfg κ) : ∀ (nd : Node κ) (pre : List Name) (lo hi : Nat)
    (calls : List (Call κ)), ParTrace t pre nd lo hi calls → ModeOK calls
  | .file x, pre, lo, hi, calls, h => by
    simp only [ParTrace] at h
    obtain ⟨c, s, n, r, k, -, -, hT⟩ := h
    obtain ⟨rfl, -⟩ := commitNodeT_file_ok hT
    exact commitFileCalls_modeOK _ _ _ _ _ _ _
  | .link l, pre, lo, hi, calls, h => by
    simp only [ParTrace] at h
    obtain ⟨c, s, n, r, k, -, -, hT⟩ := h
    obtain ⟨rfl, -⟩ := commitNodeT_link_ok hT
    trivial
  | .other, pre, lo, hi, calls, h => by
    simp only [ParTrace] at h
    obtain ⟨c, s, n, r, k, -, -, hT⟩ := h
    obtain ⟨rfl, -⟩ := commitNodeT_other_ok hT
    trivial
  | .dir es, pre, lo, hi, calls, h => by
    simp only [ParTrace] at h
    obtain ⟨rs, ts, l, n, mb, hpt, -, -, -, -, hil, rfl⟩ := h
    exact ModeOK.append (ModeOK.interleavingN hil (parTraces_modeOK t es pre rs ts hpt))
      (copyIntoCache_modeOK _ _ _ _)
theorem parTraces_modeOK (t : TCfg κ) : ∀ (es : List (Name × Node κ)) (pre : List Name)
    (rs : List (Nat × Nat)) (ts : List (List (Call κ))), ParTraces t pre es rs ts → ∀ tr ∈ ts, ModeOK tr
  | [], pre, rs, ts, h => by
    simp only [ParTraces] at h
    obtain ⟨-, rfl⟩ := h
    intro tr htr; simp at htr
  | (nm, nd) :: es, pre, rs, ts, h => by
    simp only [ParTraces] at h
    obtain ⟨lo, hi, calls, rs', ts', rfl, rfl, h1, h2⟩ := h
    intro tr htr
    rcases List.mem_cons.1 htr with rfl | htr
    · exact parTrace_modeOK t nd (pre ++ [nm]) lo hi _ h1
    · exact parTraces_modeOK t es pre rs' ts' h2 tr htr
end

/-! ## the workers of one directory, any schedule -/

/-- **n workers committing the entries of one directory** (each worker's own trace any concurrent
trace of its entry), from any safe state in which the regular files are in place and no temp file
exists; `l` ANY schedule of the workers.  The schedule is disciplined; the final state is the merge of
the solo final states, is the expected one (`Post`), and holds no temp file. -/
theorem parTraces_interleavingN {t : TCfg κ} (g : Good t.ctx) {tracked : List (P × κ)}
    (htw : TrackedWs tracked) {emp : κ} (hemp : ∀ c, t.isEmp c = true → c = emp)
    {es : List (Name × Node κ)} {pre : List Name} {rs : List (Nat × Nat)} {ts : List (List (Call κ))}
    (hu : uniqList es) (hpt : ParTraces t pre es rs ts) (hdr : DisjointRanges rs)
    {fs : FS κ} (hs : Safe t.ctx tracked fs)
    (hin : ∀ p ∈ trackedList pre es, ∃ m, fs.get p.1 = some (.file p.2 m))
    (hfr : ∀ k, fs.get (.ctmp k) = none) {l : List (Call κ)} (hil : InterleavingN ts l) :
    Disciplined t.ctx emp tracked fs (UnionOf (privsOf pre es rs)) l ∧
      Merged fs (ts.map (replay emp fs)) (replay emp fs l) ∧
      (∀ tr ∈ ts, Safe t.ctx tracked (replay emp fs tr)) ∧
      Post t fs (replay emp fs l) (trackedList pre es) ∧
      ∀ k, (replay emp fs l).get (.ctmp k) = none := by
  obtain ⟨hF, hct, hpost⟩ := parTraces_spec g htw hemp es pre rs ts hu hpt fs hs hin hfr
  obtain ⟨dl, rel, mrg⟩ := interleavingN_disciplined g emp hs hF (privsOf_disjoint pre hu hdr) hil
  refine ⟨dl, mrg, ?_, hpost _ rel, ?_⟩
  · have : ∀ {As : List (P → Prop)} {ts : List (List (Call κ))},
        Forall2 (Disciplined t.ctx emp tracked fs) As ts →
          ∀ tr ∈ ts, Safe t.ctx tracked (replay emp fs tr) := by
      intro As ts h
      induction h with
      | nil => intro tr htr; simp at htr
      | cons hd _ ih =>
        intro tr htr
        rcases List.mem_cons.1 htr with rfl | htr
        · exact hd.safe_final g hs
        · exact ih tr htr
    exact this hF
  · intro k
    rw [(mrg.nonObj (.ctmp k) rfl).2 (by
      intro s hs
      simp only [List.mem_map] at hs
      obtain ⟨tr, htr, rfl⟩ := hs
      rw [hct tr htr k, hfr k])]
    exact hfr k

/-- a workspace path that is not the path of a regular file of the directory is left alone -/
theorem parTraces_frame_ws {A : P → Prop} {l : List (Call κ)} (ho : OwnedAll A l)
    {q : List Name} (hq : ¬ A (.ws q)) (emp : κ) (fs : FS κ) :
    (replay emp fs l).get (.ws q) = fs.get (.ws q) :=
  ho.replay_frame hq rfl emp fs

/-! ## the single traces are disciplined (rely/guarantee form of `commitNodeT_allowed`) -/

theorem commitFileT_owned {t : TCfg κ} {skip : Bool} {q : List Name} {nd : Option (Node κ)}
    {sum : Digest} {s : Store κ} {n : Nat} {res : Node κ × Digest × Store κ}
    {calls : List (Call κ)} {k : Nat}
    (h : commitFileT t skip (.ws q) nd sum s n = .ok (res, calls, k)) :
    OwnedAll (PrivOf (paths (trackedOpt q nd)) n k) calls := by
  unfold commitFileT at h
  cases hcf : commitFile t.ctx t.strat skip nd sum s with
  | error e => simp [hcf] at h
  | ok r =>
    simp only [hcf] at h
    split at h
    · next x =>
      split at h
      · simp at h; obtain ⟨-, rfl, rfl⟩ := h; intro c hc; simp at hc
      · simp at h
        obtain ⟨-, rfl, rfl⟩ := h
        simpa [paths, trackedOpt, trackedOf] using
          commitFileCalls_owned t.isEmp t.strat t.canRename q n x (t.ctx.H x)
    · simp at h; obtain ⟨-, rfl, rfl⟩ := h; intro c hc; simp at hc

/-- `commitFileArtifact` (all three variants; also the cases without calls: skip, up to date, link) -/
theorem commitFileT_disciplined {t : TCfg κ} (g : Good t.ctx) {tracked : List (P × κ)}
    (htw : TrackedWs tracked) {emp : κ} (hemp : ∀ c, t.isEmp c = true → c = emp)
    {skip : Bool} {q : List Name} {nd : Option (Node κ)} {sum : Digest} {s : Store κ} {n : Nat}
    {res : Node κ × Digest × Store κ} {calls : List (Call κ)} {k : Nat}
    (h : commitFileT t skip (.ws q) nd sum s n = .ok (res, calls, k))
    {fs : FS κ} (hs : Safe t.ctx tracked fs)
    (hin : ∀ p ∈ trackedOpt q nd, ∃ m, fs.get p.1 = some (.file p.2 m))
    (hfr : fs.get (.ctmp n) = none) :
    Disciplined t.ctx emp tracked fs (PrivOf (paths (trackedOpt q nd)) n k) calls :=
  ⟨privOf_priv _ _ _, commitFileT_allowed g htw hemp h hs hin hfr, commitFileT_owned h⟩

/-- the sequential commit of a tree -/
theorem commitNodeT_disciplined {t : TCfg κ} (g : Good t.ctx) {tracked : List (P × κ)}
    (htw : TrackedWs tracked) {emp : κ} (hemp : ∀ c, t.isEmp c = true → c = emp)
    {nd : Node κ} {pre : List Name} {c : Child} {s : Store κ} {n : Nat}
    {res : Node κ × Child × Store κ} {calls : List (Call κ)} {n' : Nat}
    (hu : uniqNode nd) (h : commitNodeT t pre nd c s n = .ok (res, calls, n'))
    {fs : FS κ} (hs : Safe t.ctx tracked fs)
    (hin : ∀ p ∈ trackedOf pre nd, ∃ m, fs.get p.1 = some (.file p.2 m))
    (hfr : ∀ k, n ≤ k → fs.get (.ctmp k) = none) :
    Disciplined t.ctx emp tracked fs (PrivOf (paths (trackedOf pre nd)) n n') calls :=
  ⟨privOf_priv _ _ _, commitNodeT_allowed g htw hemp nd pre c s n res calls n' hu h fs hs hin hfr,
   commitNodeT_owned t nd pre c s n res calls n' h⟩

/-! ## the whole `LocalCache.Commit` of a directory artifact with concurrent workers -/

/-- the entries the workers are started for: with `DisableRecursion` the sub-directories are left out -/
def skipFilter (skipDirs : Bool) (es : List (Name × Node κ)) : List (Name × Node κ) :=
  if skipDirs then es.filter (fun e => !e.2.isDir) else es

theorem skipFilter_nil (skipDirs : Bool) : skipFilter skipDirs ([] : List (Name × Node κ)) = [] := by
  cases skipDirs <;> rfl

theorem skipFilter_cons (skipDirs : Bool) (nm : Name) (nd : Node κ) (es : List (Name × Node κ)) :
    skipFilter skipDirs ((nm, nd) :: es) =
      if skipDirs && nd.isDir then skipFilter skipDirs es else (nm, nd) :: skipFilter skipDirs es := by
  cases skipDirs
  · simp [skipFilter]
  · cases h : nd.isDir <;> simp [skipFilter, h]

theorem skipFilter_sub (skipDirs : Bool) (es : List (Name × Node κ)) :
    ∀ e ∈ skipFilter skipDirs es, e ∈ es := by
  intro e he
  cases skipDirs
  · exact he
  · exact (List.mem_filter.1 he).1

theorem uniqList_skipFilter (skipDirs : Bool) : ∀ (es : List (Name × Node κ)), uniqList es →
    uniqList (skipFilter skipDirs es)
  | [], _ => by rw [skipFilter_nil]; simp [uniqList]
  | (nm, nd) :: es, hu => by
    simp only [uniqList] at hu
    obtain ⟨hun, hne, hur⟩ := hu
    rw [skipFilter_cons]
    split
    · exact uniqList_skipFilter skipDirs es hur
    · simp only [uniqList]
      exact ⟨hun, fun e he => hne e (skipFilter_sub skipDirs es e he), uniqList_skipFilter skipDirs es hur⟩

theorem trackedList_skipFilter_sub (skipDirs : Bool) (pre : List Name) : ∀ (es : List (Name × Node κ)),
    ∀ p ∈ trackedList pre (skipFilter skipDirs es), p ∈ trackedList pre es
  | [], p, hp => by rw [skipFilter_nil] at hp; exact hp
  | (nm, nd) :: es, p, hp => by
    rw [skipFilter_cons] at hp
    simp only [trackedList, List.mem_append]
    split at hp
    · exact .inr (trackedList_skipFilter_sub skipDirs pre es p hp)
    · simp only [trackedList, List.mem_append] at hp
      rcases hp with hp | hp
      · exact .inl hp
      · exact .inr (trackedList_skipFilter_sub skipDirs pre es p hp)

/-- **The traces of `LocalCache.Commit` on a directory artifact with concurrent workers**:
`MkdirAll(cache)` and the rename probe (one goroutine, before any worker is started), then any
schedule of the workers of the entries (sub-directories left out under `DisableRecursion`; each
worker's trace a nested concurrent commit, temp numbers from 1 on, pairwise disjoint), then the manifest. -/
def ParArtTrace (t : TCfg κ) (a : Art) (pre : List Name) (es : List (Name × Node κ))
    (calls : List (Call κ)) : Prop :=
  ∃ (rs : List (Nat × Nat)) (ts : List (List (Call κ))) (l : List (Call κ)) (n : Nat) (mb : κ),
    ParTraces t pre (skipFilter a.noRec es) rs ts ∧ DisjointRanges rs ∧ InterleavingN ts l ∧
    calls = headCalls ++ l ++ copyIntoCache t.isEmp n mb (t.ctx.H mb)

theorem headCalls_ctmp_none (emp : κ) {fs : FS κ} (h : ∀ k, fs.get (.ctmp k) = none) :
    ∀ k, (replay emp fs (headCalls : List (Call κ))).get (.ctmp k) = none := by
  intro k
  cases k with
  | zero =>
    simp only [headCalls, probeCalls, List.cons_append, List.nil_append, replay_cons, replay_nil]
    exact get_unlink_self
  | succ k => rw [headCalls_frame_ctmp emp fs (Nat.succ_le_succ (Nat.zero_le k))]; exact h _

/-- every trace of the concurrent `LocalCache.Commit` of a directory is an `AllowedTrace`, ends in the
expected state for the committed entries, and leaves no temp file -/
theorem parArtTrace_spec {t : TCfg κ} (g : Good t.ctx) {tracked : List (P × κ)}
    (htw : TrackedWs tracked) {emp : κ} (hemp : ∀ c, t.isEmp c = true → c = emp)
    {a : Art} {pre : List Name} {es : List (Name × Node κ)} {calls : List (Call κ)}
    (hu : uniqList es) (h : ParArtTrace t a pre es calls)
    {fs : FS κ} (hs : Safe t.ctx tracked fs)
    (hin : ∀ p ∈ trackedList pre es, ∃ m, fs.get p.1 = some (.file p.2 m))
    (hfr : ∀ k, fs.get (.ctmp k) = none) :
    AllowedTrace t.ctx emp tracked fs calls ∧
      Post t fs (replay emp fs calls) (trackedList pre (skipFilter a.noRec es)) ∧
      (∀ k, (replay emp fs calls).get (.ctmp k) = none) ∧
      (ObjsReadOnly fs → ObjsReadOnly (replay emp fs calls)) := by
  obtain ⟨rs, ts, l, n, mb, hpt, hdr, hil, rfl⟩ := h
  have hhead : AllowedTrace t.ctx emp tracked fs headCalls :=
    allowedTrace_of_harmless htw emp _ headCalls_harmless fs
  have hs0 : Safe t.ctx tracked (replay emp fs headCalls) := (hhead.prefixSafe g hs).final
  have hws0 : ∀ p ∈ trackedList pre es, (replay emp fs headCalls).get p.1 = fs.get p.1 := by
    intro p hp
    obtain ⟨q, hq⟩ := trackedList_is_ws hp
    rw [hq, headCalls_frame_ws]
  have hin0 : ∀ p ∈ trackedList pre (skipFilter a.noRec es),
      ∃ m, (replay emp fs headCalls).get p.1 = some (.file p.2 m) := by
    intro p hp
    have hp' := trackedList_skipFilter_sub a.noRec pre es p hp
    rw [hws0 p hp']; exact hin p hp'
  have hfr0 := headCalls_ctmp_none emp hfr
  obtain ⟨dl, -, -, hpost, hct⟩ := parTraces_interleavingN g htw hemp (uniqList_skipFilter a.noRec es hu)
    hpt hdr hs0 hin0 hfr0 hil
  have hs1 := dl.safe_final g hs0
  have hspec := copyIntoCache_spec (ctx := t.ctx) (tracked := tracked) htw hemp (hct n) mb
  have hole := objLe_replay g emp hs1 hspec.1
  have hwsf : ∀ p ∈ trackedList pre (skipFilter a.noRec es),
      (replay emp fs (headCalls ++ l ++ copyIntoCache t.isEmp n mb (t.ctx.H mb))).get p.1
        = (replay emp (replay emp fs headCalls) l).get p.1 := by
    intro p hp
    obtain ⟨q, hq⟩ := trackedList_is_ws hp
    rw [replay_append, replay_append, hq]
    exact replay_get_frame emp _ _ _ (not_written_by_copyIntoCache _ _ _ _ q)
  refine ⟨AllowedTrace.append (AllowedTrace.append hhead dl.allowed)
    (by rw [replay_append]; exact hspec.1), ⟨?_, ?_, ?_⟩, ?_, ?_⟩
  · intro p hp
    obtain ⟨m, hm⟩ := hpost.stored p hp
    rw [replay_append, replay_append]
    exact hole _ _ _ hm
  · intro hl p hp
    rw [hwsf p hp]; exact hpost.wsLink hl p hp
  · intro hl p hp
    rw [hwsf p hp, hpost.wsCopy hl p hp]
    exact hws0 p (trackedList_skipFilter_sub a.noRec pre es p hp)
  · intro k
    rw [replay_append, replay_append]
    exact copyIntoCache_ctmp_free emp _ _ _ _ (lo := 0) (fun k _ => hct k) k (Nat.zero_le _)
  · intro hro
    have hro0 : ObjsReadOnly (replay emp fs headCalls) := by
      intro d c m hd
      rw [replay_get_frame emp _ _ fs (by
        intro call hcall hmem
        rcases headCalls_paths call hcall _ (callWrites_sub _ _ hmem) with h | h | h <;> cases h)] at hd
      exact hro d c m hd
    have hro1 := (ModeOK.interleavingN hil (parTraces_modeOK t _ pre rs ts hpt)).objsReadOnly dl.priv emp
      dl.owned hro0
    rw [replay_append, replay_append]
    exact (copyIntoCache_modeOK t.isEmp n mb _).objsReadOnly (privOf_priv [] n (n + 1)) emp
      (copyIntoCache_owned t.isEmp n mb _) hro1

/-- the sequential loop with `skipDirs`: the concatenation of the traces of the workers of the entries
that are not skipped -/
theorem commitEntriesT_parTraces_skip (t : TCfg κ) (skipDirs : Bool) : ∀ (es : List (Name × Node κ))
    (pre : List Name) (old : List Child) (s : Store κ) (n : Nat)
    (res : List (Name × Node κ) × List Child × Store κ) (calls : List (Call κ)) (n' : Nat),
    commitEntriesT t pre skipDirs es old s n = .ok (res, calls, n') →
      ∃ rs ts, ParTraces t pre (skipFilter skipDirs es) rs ts ∧ calls = ts.flatten ∧ n ≤ n' ∧
        (∀ r ∈ rs, n ≤ r.1 ∧ r.2 ≤ n') ∧ DisjointRanges rs
  | [], pre, old, s, n, res, calls, n', h => by
    simp [commitEntriesT] at h
    obtain ⟨-, rfl, rfl⟩ := h
    exact ⟨[], [], by rw [skipFilter_nil]; simp [ParTraces], rfl, Nat.le_refl _, by simp, List.Pairwise.nil⟩
  | (nm, nd) :: r, pre, old, s, n, res, calls, n', h => by
    obtain ⟨c0, hT0, -⟩ := commitEntries_cons_both t pre skipDirs nm nd r old s n
    rw [hT0] at h
    rw [skipFilter_cons]
    split at h
    · next hc =>
      rw [if_pos hc]
      cases hT : commitEntriesT t pre skipDirs r old s n with
      | error e => simp [hT] at h
      | ok v =>
        obtain ⟨⟨r', cs, s'⟩, calls', k'⟩ := v
        simp [hT] at h
        obtain ⟨-, rfl, rfl⟩ := h
        exact commitEntriesT_parTraces_skip t skipDirs r pre old s n _ _ _ hT
    · next hc =>
      rw [if_neg hc]
      split at h
      · cases h
      · cases hT : commitNodeT t (pre ++ [nm]) nd c0 s n with
        | error e => simp [hT] at h
        | ok v =>
          obtain ⟨⟨nd', c', s1⟩, calls1, n1⟩ := v
          simp only [hT] at h
          cases hT2 : commitEntriesT t pre skipDirs r old s1 n1 with
          | error e => simp [hT2] at h
          | ok v =>
            obtain ⟨⟨r', cs, s2⟩, calls2, n2⟩ := v
            simp [hT2] at h
            obtain ⟨-, rfl, rfl⟩ := h
            have hp1 := commitNodeT_parTrace t nd (pre ++ [nm]) c0 s n _ calls1 n1 hT
            have hle1 := (commitNodeT_foot t nd (pre ++ [nm]) c0 s n _ calls1 n1 hT).1
            obtain ⟨rs, ts, hpt, rfl, hle2, hrng, hdr⟩ :=
              commitEntriesT_parTraces_skip t skipDirs r pre old s1 n1 _ _ _ hT2
            refine ⟨(n, n1) :: rs, calls1 :: ts, ?_, by simp, by omega, ?_, ?_⟩
            · simp only [ParTraces]
              exact ⟨n, n1, calls1, rs, ts, rfl, rfl, hp1, hpt⟩
            · intro r' hr'
              rcases List.mem_cons.1 hr' with rfl | hr'
              · exact ⟨Nat.le_refl _, hle2⟩
              · have := hrng r' hr'
                exact ⟨by omega, this.2⟩
            · exact List.pairwise_cons.2 ⟨fun r' hr' => Or.inl (hrng r' hr').1, hdr⟩

/-- **the sequential trace of `commitArtT` on a directory is one of the concurrent traces** -/
theorem commitArtT_parArtTrace {t : TCfg κ} {a : Art} {pre : List Name} {es : List (Name × Node κ)}
    {s : Store κ} {res : Node κ × Digest × Store κ} {calls : List (Call κ)}
    (h : commitArtT t a pre (some (.dir es)) s = .ok (res, calls)) : ParArtTrace t a pre es calls := by
  rcases commitArtT_ok_inv h with ⟨es', old, res1, calls1, n1, mb, hes, hT, rfl⟩ | ⟨calls1, k, hT, rfl⟩
  · cases hes
    obtain ⟨rs, ts, hpt, rfl, -, -, hdr⟩ := commitEntriesT_parTraces_skip t a.noRec es pre old s 1 _ _ _ hT
    exact ⟨rs, ts, ts.flatten, n1, mb, hpt, hdr, InterleavingN.flatten ts, rfl⟩
  · exfalso
    have href := commitFileT_refines t a.skip (.ws pre) (some (.dir es)) a.sum s 1
    rw [hT] at href
    obtain ⟨n', d, s'⟩ := res
    rcases commitFile_node (Eq.symm href) with ⟨x, hx, -⟩ | ⟨l, hl, -⟩
    · cases hx
    · cases hl

end Dud.Sys
