import DudModel.Spec
import DudModel.Lemmas.Tree
import DudModel.Lemmas.Holds
/-!
# Compatibility of a tree with the old manifests a recommit starts from

`commitWorker` reuses the child artifact found (by name) in the old manifest when its kind
(`IsDir`) agrees with the workspace entry; otherwise it starts from a fresh child.
`CompatNode ctx s t sum` says that along the tree the old manifests that *are* reused, reachable
from the checksum `sum` through the store `s`, are present (or the checksum is empty) and
readable.
-/
namespace Dud

variable {κ : Type}

mutual
def CompatNode (ctx : Ctx κ) (s : Store κ) : Node κ → Digest → Prop
  | .dir es, sum => (hasSum sum = true → s.has sum = true) ∧
      ∃ old, oldManifest ctx s sum = .ok old ∧ CompatList ctx s es old
  | .file _, _ => True
  | .link _, _ => True
  | .other, _ => True
def CompatList (ctx : Ctx κ) (s : Store κ) : List (Name × Node κ) → List Child → Prop
  | [], _ => True
  | (nm, n) :: r, old =>
    (∀ k, findChild old nm = some k → k.isDir = n.isDir → CompatNode ctx s n k.sum) ∧
      CompatList ctx s r old
end

mutual
/-- compatibility survives growth of the store -/
theorem CompatNode.mono {ctx : Ctx κ} (g : Good ctx) {s s1 : Store κ} (hle : Store.le ctx s s1) :
    ∀ (t : Node κ) (sum : Digest), CompatNode ctx s t sum → CompatNode ctx s1 t sum
  | .dir es, sum, h => by
    simp only [CompatNode] at h ⊢
    obtain ⟨hpres, old, hold, hcl⟩ := h
    refine ⟨fun hh => Store.has_le hle (hpres hh), old, ?_, CompatList.mono g hle es old hcl⟩
    rw [oldManifest_le g hle hpres]
    exact hold
  | .file _, _, _ => by simp [CompatNode]
  | .link _, _, _ => by simp [CompatNode]
  | .other, _, _ => by simp [CompatNode]
theorem CompatList.mono {ctx : Ctx κ} (g : Good ctx) {s s1 : Store κ} (hle : Store.le ctx s s1) :
    ∀ (es : List (Name × Node κ)) (old : List Child), CompatList ctx s es old →
      CompatList ctx s1 es old
  | [], _, _ => by simp [CompatList]
  | (nm, n) :: r, old, h => by
    simp only [CompatList] at h ⊢
    exact ⟨fun k hk hd => CompatNode.mono g hle n k.sum (h.1 k hk hd),
      CompatList.mono g hle r old h.2⟩
end

/-- nothing to be compatible with -/
theorem compatList_nil (ctx : Ctx κ) (s : Store κ) : ∀ (es : List (Name × Node κ)),
    CompatList ctx s es []
  | [] => by simp [CompatList]
  | (nm, n) :: r => by
    simp only [CompatList]
    exact ⟨fun k hk _ => by simp [findChild] at hk, compatList_nil ctx s r⟩

/-- a fresh child artifact (no checksum) is compatible with every tree -/
theorem compatNode_empty (ctx : Ctx κ) (s : Store κ) (t : Node κ) : CompatNode ctx s t "" := by
  cases t with
  | dir es =>
    simp only [CompatNode]
    exact ⟨fun h => by simp [hasSum_empty] at h, [], oldManifest_empty ctx s,
      compatList_nil ctx s es⟩
  | file _ => simp [CompatNode]
  | link _ => simp [CompatNode]
  | other => simp [CompatNode]

mutual
/-- the manifests of a held tree are compatible with that tree -/
theorem compatNode_of_holds {ctx : Ctx κ} (g : Good ctx) {s : Store κ} :
    ∀ (t : Node κ) (ch : Choice) (nm : Bytes), t.sorted = true → NamesOK ctx t →
      HoldsNode ctx s ch nm t → CompatNode ctx s t (digestAs ctx ch nm t)
  | .dir es, ch, nm, hs, hn, h => by
    have hs' : sortedList es = true := by simpa [Node.sorted] using hs
    have hn' : NamesOKList ctx es := namesOK_dir hn
    simp only [CompatNode]
    refine ⟨fun _ => (readManifest_holds g hs' hn' h).1, childrenAs ctx ch es,
      oldManifest_holds g hs' hn' h, ?_⟩
    simp only [HoldsNode] at h
    exact compatList_of_holds g es ch (childrenAs ctx ch es) hs' hn' h.2
      (fun e he => findChild_childrenAs ctx ch es hs' e he)
  | .file _, _, _, _, _, _ => by simp [CompatNode]
  | .link _, _, _, _, _, _ => by simp [CompatNode]
  | .other, _, _, _, _, _ => by simp [CompatNode]
theorem compatList_of_holds {ctx : Ctx κ} (g : Good ctx) {s : Store κ} :
    ∀ (r : List (Name × Node κ)) (ch : Choice) (old : List Child), sortedList r = true →
      NamesOKList ctx r → HoldsList ctx s ch r →
      (∀ e ∈ r, findChild old e.1 =
        some ⟨e.1, digestAs ctx (subChoice ch e.1) e.1 e.2, e.2.isDir⟩) →
      CompatList ctx s r old
  | [], _, _, _, _, _, _ => by simp [CompatList]
  | (nm, n) :: r, ch, old, hs, hn, h, hfind => by
    simp only [HoldsList] at h
    simp only [CompatList]
    refine ⟨?_, compatList_of_holds g r ch old (sortedList_cons hs).2 (namesOK_tail hn) h.2
      (fun e he => hfind e (by simp [he]))⟩
    intro k hk _
    have hf := hfind (nm, n) (by simp)
    rw [hf] at hk
    cases hk
    exact compatNode_of_holds g n (subChoice ch nm) nm (sortedList_cons hs).1
      (namesOK_node hn) h.1
end

/-! ## any tree is compatible with the manifests of a held tree of the same kind -/

theorem holdsList_mem {ctx : Ctx κ} {s : Store κ} {ch : Choice} : ∀ {es : List (Name × Node κ)}
    {e : Name × Node κ}, HoldsList ctx s ch es → e ∈ es → HoldsNode ctx s (subChoice ch e.1) e.1 e.2
  | (nm, n) :: r, e, h, he => by
    simp only [HoldsList] at h
    rcases List.mem_cons.1 he with rfl | he'
    · exact h.1
    · exact holdsList_mem h.2 he'

theorem sortedList_mem : ∀ {es : List (Name × Node κ)} {e : Name × Node κ},
    sortedList es = true → e ∈ es → e.2.sorted = true
  | (nm, n) :: r, e, h, he => by
    rcases List.mem_cons.1 he with rfl | he'
    · exact (sortedList_cons h).1
    · exact sortedList_mem (sortedList_cons h).2 he'

theorem namesOKList_mem {ctx : Ctx κ} : ∀ {es : List (Name × Node κ)} {e : Name × Node κ},
    NamesOKList ctx es → e ∈ es → NamesOK ctx e.2
  | (nm, n) :: r, e, h, he => by
    rcases List.mem_cons.1 he with rfl | he'
    · exact namesOK_node h
    · exact namesOKList_mem (namesOK_tail h) he'

/-- a child found in the manifest of a listing is the child of one of its entries -/
theorem findChild_childrenAs_mem {ctx : Ctx κ} {ch : Choice} {es : List (Name × Node κ)}
    {nm : Bytes} {k : Child} (h : findChild (childrenAs ctx ch es) nm = some k) :
    ∃ e ∈ es, k = ⟨e.1, digestAs ctx (subChoice ch e.1) e.1 e.2, e.2.isDir⟩ := by
  have hm := List.mem_of_find?_eq_some h
  rw [childrenAs_eq_map] at hm
  obtain ⟨e, he, rfl⟩ := List.mem_map.1 hm
  exact ⟨e, he, rfl⟩

mutual
/-- **Any** tree `t2` (edited however) of the same kind as a held tree `t1` is compatible with the
manifests of `t1`: where kinds agree entry by entry the old manifests are present and readable,
where they do not the old child is not reused. -/
theorem compatNode_any {ctx : Ctx κ} (g : Good ctx) {s : Store κ} :
    ∀ (t2 t1 : Node κ) (ch : Choice) (nm : Bytes), t1.sorted = true → NamesOK ctx t1 →
      HoldsNode ctx s ch nm t1 → t1.isDir = t2.isDir → CompatNode ctx s t2 (digestAs ctx ch nm t1)
  | .dir es2, .dir es1, ch, nm, hs, hn, h, _ => by
    have hs' : sortedList es1 = true := by simpa [Node.sorted] using hs
    have hn' : NamesOKList ctx es1 := namesOK_dir hn
    simp only [CompatNode]
    refine ⟨fun _ => (readManifest_holds g hs' hn' h).1, childrenAs ctx ch es1,
      oldManifest_holds g hs' hn' h, ?_⟩
    simp only [HoldsNode] at h
    exact compatList_any g es2 es1 ch hs' hn' h.2
  | .dir _, .file _, _, _, _, _, _, hd => by simp [Node.isDir] at hd
  | .dir _, .link _, _, _, _, _, _, hd => by simp [Node.isDir] at hd
  | .dir _, .other, _, _, _, _, _, hd => by simp [Node.isDir] at hd
  | .file _, _, _, _, _, _, _, _ => by simp [CompatNode]
  | .link _, _, _, _, _, _, _, _ => by simp [CompatNode]
  | .other, _, _, _, _, _, _, _ => by simp [CompatNode]
theorem compatList_any {ctx : Ctx κ} (g : Good ctx) {s : Store κ} :
    ∀ (es2 es1 : List (Name × Node κ)) (ch : Choice), sortedList es1 = true →
      NamesOKList ctx es1 → HoldsList ctx s ch es1 → CompatList ctx s es2 (childrenAs ctx ch es1)
  | [], _, _, _, _, _ => by simp [CompatList]
  | (nm, n2) :: r2, es1, ch, hs, hn, h => by
    simp only [CompatList]
    refine ⟨?_, compatList_any g r2 es1 ch hs hn h⟩
    intro k hk hkind
    obtain ⟨e, he, rfl⟩ := findChild_childrenAs_mem hk
    exact compatNode_any g n2 e.2 (subChoice ch e.1) e.1 (sortedList_mem hs he)
      (namesOKList_mem hn he) (holdsList_mem h he) hkind
end

end Dud
