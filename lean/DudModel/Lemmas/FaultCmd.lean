import DudModel.SysFault
import DudModel.Props.C03cmdGo
/-!
# A failing call of `dud commit`: what the clean-up leaves (lemmas for `Props/C04cmd.lean`)

* `callCreates` / `callRemoves` are sound: a call brings only the paths of `callCreates` into existence,
  the paths of `callRemoves` do not exist after it;
* `LiveInv`, `liveTmps_sound`: a temp path that exists after a prefix is on `liveTmps`;
* `replay_unlinks_get`: the state after unlinking a list of paths;
* `cleanup_tmp_free`: after the clean-up no temp path exists;
* the clean-up and the unlock are harmless for the cache discipline and leave every stage file alone.
-/
namespace Dud.Sys
open Dud
variable {κ : Type}

/-! ## soundness of `callCreates` / `callRemoves` -/

/-- a path that exists after a call and is not one the call may create existed before -/
theorem apply_get_of_not_creates (emp : κ) (fs : FS κ) (c : Call κ) (p : P)
    (hp : p ∉ callCreates c) (h : (apply emp fs c).get p ≠ none) : fs.get p ≠ none := by
  by_cases hw : p ∈ callWrites c
  · cases c with
    | mkdir q => simp [callCreates] at hp; simp [callWrites, callPaths] at hw; exact absurd hw hp
    | createExcl q => simp [callCreates] at hp; simp [callWrites, callPaths] at hw; exact absurd hw hp
    | createTrunc q => simp [callCreates] at hp; simp [callWrites, callPaths] at hw; exact absurd hw hp
    | symlink t q => simp [callCreates] at hp; simp [callWrites] at hw; exact absurd hw hp
    | writePart q =>
      simp [callWrites, callPaths] at hw; subst hw
      intro hn
      simp only [apply, hn] at h
      exact h rfl
    | write q x =>
      simp [callWrites, callPaths] at hw; subst hw
      intro hn
      simp only [apply, hn] at h
      exact h rfl
    | chmod q m =>
      simp [callWrites, callPaths] at hw; subst hw
      intro hn
      simp only [apply, hn] at h
      exact h rfl
    | unlink q =>
      simp [callWrites, callPaths] at hw; subst hw
      exact absurd (get_unlink_self (emp := emp) (fs := fs) (p := p)) h
    | rename s d =>
      simp [callCreates] at hp
      simp [callWrites, callPaths] at hw
      rcases hw with rfl | rfl
      · intro hn
        simp only [apply, hn] at h
        exact h rfl
      · exact absurd rfl hp
  · rw [apply_get_frame emp fs c p hw] at h
    exact h

/-- a path on `callRemoves` does not exist after the call -/
theorem apply_get_of_removes (emp : κ) (fs : FS κ) (c : Call κ) (p : P) (hp : p ∈ callRemoves c) :
    (apply emp fs c).get p = none := by
  cases c with
  | rename s d =>
    simp only [callRemoves] at hp
    split at hp
    · simp at hp
    · rename_i hne
      simp at hp; subst hp
      exact get_rename_src hne
  | unlink q =>
    simp [callRemoves] at hp; subst hp
    exact get_unlink_self
  | mkdir q => simp [callRemoves] at hp
  | createExcl q => simp [callRemoves] at hp
  | createTrunc q => simp [callRemoves] at hp
  | writePart q => simp [callRemoves] at hp
  | write q x => simp [callRemoves] at hp
  | chmod q m => simp [callRemoves] at hp
  | symlink t q => simp [callRemoves] at hp

/-! ## live temp files -/

/-- every temp path that exists is on the list -/
def LiveInv (fs : FS κ) (live : List P) : Prop :=
  ∀ p, p.isTemp = true → fs.get p ≠ none → p ∈ live

theorem LiveInv.step {emp : κ} {fs : FS κ} {live : List P} (h : LiveInv fs live) (c : Call κ) :
    LiveInv (apply emp fs c) (liveStep live c) := by
  intro p hpt hex
  by_cases hrem : p ∈ callRemoves c
  · exact absurd (apply_get_of_removes emp fs c p hrem) hex
  · have hkept : p ∈ live → p ∈ live.filter (fun q => !(callRemoves c).contains q) := by
      intro hl
      refine List.mem_filter.2 ⟨hl, ?_⟩
      simpa using hrem
    simp only [liveStep, List.mem_append]
    by_cases hcr : p ∈ callCreates c
    · by_cases hk : p ∈ live.filter (fun q => !(callRemoves c).contains q)
      · exact .inl hk
      · right
        refine List.mem_filter.2 ⟨hcr, ?_⟩
        rw [Bool.and_eq_true]
        have hc : (List.filter (fun q => !(callRemoves c).contains q) live).contains p = false := by
          rw [List.contains_eq_mem]; exact decide_eq_false hk
        exact ⟨hpt, by rw [hc]; rfl⟩
    · exact .inl (hkept (h p hpt (apply_get_of_not_creates emp fs c p hcr hex)))

theorem LiveInv.replay {emp : κ} : ∀ (calls : List (Call κ)) {fs : FS κ} {live : List P},
    LiveInv fs live → LiveInv (replay emp fs calls) (calls.foldl liveStep live)
  | [], _, _, h => h
  | c :: cs, _, _, h => by
    rw [replay_cons, List.foldl_cons]
    exact LiveInv.replay cs (h.step c)

/-- **a temp path that exists after the prefix is on `liveTmps`**, from any state without temp files -/
theorem liveTmps_sound {emp : κ} {fs : FS κ} (h0 : ∀ p, p.isTemp = true → fs.get p = none)
    (pre : List (Call κ)) : LiveInv (replay emp fs pre) (liveTmps pre) :=
  LiveInv.replay pre (fun p hp hex => absurd (h0 p hp) hex)

theorem liveStep_isTemp {live : List P} (c : Call κ) (h : ∀ p ∈ live, p.isTemp = true) :
    ∀ p ∈ liveStep live c, p.isTemp = true := by
  intro p hp
  simp only [liveStep, List.mem_append, List.mem_filter] at hp
  rcases hp with ⟨hl, -⟩ | ⟨-, hc⟩
  · exact h p hl
  · simp only [Bool.and_eq_true] at hc
    exact hc.1

theorem foldl_liveStep_isTemp : ∀ (calls : List (Call κ)) (live : List P),
    (∀ p ∈ live, p.isTemp = true) → ∀ p ∈ calls.foldl liveStep live, p.isTemp = true
  | [], _, h => h
  | c :: cs, live, h => by
    rw [List.foldl_cons]
    exact foldl_liveStep_isTemp cs _ (liveStep_isTemp c h)

/-- everything on `liveTmps` is a private temp path -/
theorem liveTmps_isTemp (pre : List (Call κ)) : ∀ p ∈ liveTmps pre, p.isTemp = true :=
  foldl_liveStep_isTemp pre [] (by simp)

/-! ## unlinking a list of paths -/

theorem replay_unlinks_get (emp : κ) : ∀ (ps : List P) (fs : FS κ) (q : P),
    (replay emp fs (ps.map Call.unlink)).get q = if q ∈ ps then none else fs.get q
  | [], fs, q => by simp [replay]
  | p :: ps, fs, q => by
    rw [List.map_cons, replay_cons, replay_unlinks_get emp ps]
    by_cases hq : q ∈ ps
    · simp [hq]
    · simp only [hq, if_false, List.mem_cons, or_false]
      by_cases hpq : q = p
      · subst hpq; simp only [if_true]; exact get_unlink_self
      · simp only [hpq, if_false]
        exact apply_get_frame emp fs _ q (by simpa [callWrites, callPaths] using hpq)

/-- **after unlinking the live temp files no temp path exists** -/
theorem cleanup_tmp_free {emp : κ} {fs : FS κ} {live : List P} (h : LiveInv fs live) :
    ∀ p, p.isTemp = true → (replay emp fs (live.map Call.unlink)).get p = none := by
  intro p hp
  rw [replay_unlinks_get]
  split
  · rfl
  · rename_i hnl
    cases hg : fs.get p with
    | none => rfl
    | some e => exact absurd (h p hp (by rw [hg]; simp)) hnl

/-! ## the calls after the fault: shape and harmlessness -/

theorem cleanupCalls_unlinks (pre : List (Call κ)) (failed : Call κ) :
    ∃ ps : List P, cleanupCalls pre failed = ps.map Call.unlink ∧ (∀ p ∈ ps, p.isTemp = true) ∧
      (ps = [] ∨ ps = liveTmps pre) := by
  unfold cleanupCalls
  split
  · split
    · exact ⟨[], rfl, by simp, .inl rfl⟩
    · exact ⟨_, rfl, liveTmps_isTemp pre, .inr rfl⟩
  · exact ⟨_, rfl, liveTmps_isTemp pre, .inr rfl⟩

/-- the clean-up really is the list of live temp files unless the failing call is the removal of a temp
file -/
theorem cleanupCalls_eq (pre : List (Call κ)) (failed : Call κ)
    (h : ∀ p, failed = .unlink p → p.isTemp = false) :
    cleanupCalls pre failed = (liveTmps pre).map Call.unlink := by
  unfold cleanupCalls
  split
  · rename_i p
    simp [h p rfl]
  · rfl

theorem unlockCalls_cases (failed : Call κ) :
    unlockCalls failed = [] ∨ unlockCalls failed = [Call.unlink P.lock] := by
  unfold unlockCalls
  split <;> simp

/-- a call that does not write the lock path is followed by the unlock -/
theorem unlockCalls_of_not_lock {failed : Call κ} (h : P.lock ∉ callWrites failed) :
    unlockCalls failed = [Call.unlink P.lock] := by
  unfold unlockCalls
  split
  · simp [callWrites, callPaths] at h
  · simp [callWrites, callPaths] at h
  · rfl

theorem isTemp_not_special {p : P} (h : p.isTemp = true) :
    p.isObj = false ∧ (∀ q, p ≠ .ws q) ∧ p ≠ .lock ∧ ∀ sp, p ≠ .stageFile sp := by
  cases p <;> simp [P.isTemp] at h <;> simp [P.isObj]

/-- the calls issued after the fault write temp paths and the lock only -/
theorem afterFault_writes (pre : List (Call κ)) (failed : Call κ) :
    ∀ x ∈ cleanupCalls pre failed ++ unlockCalls failed, ∀ p ∈ callWrites x,
      p.isTemp = true ∨ p = .lock := by
  intro x hx p hp
  rcases List.mem_append.1 hx with hx | hx
  · obtain ⟨ps, hps, hpt, -⟩ := cleanupCalls_unlinks pre failed
    rw [hps] at hx
    obtain ⟨q, hq, rfl⟩ := List.mem_map.1 hx
    simp [callWrites, callPaths] at hp
    rw [hp]
    exact .inl (hpt q hq)
  · rcases unlockCalls_cases failed with h | h <;> rw [h] at hx
    · cases hx
    · simp at hx; subst hx
      simp [callWrites, callPaths] at hp
      exact .inr hp

theorem afterFault_harmless (pre : List (Call κ)) (failed : Call κ) :
    ∀ x ∈ cleanupCalls pre failed ++ unlockCalls failed, Harmless x := by
  intro x hx p hp
  rcases afterFault_writes pre failed x hx p hp with h | rfl
  · exact ⟨(isTemp_not_special h).1, (isTemp_not_special h).2.1⟩
  · exact ⟨rfl, by simp⟩

/-- … they leave every stage file alone -/
theorem afterFault_stageFile (pre : List (Call κ)) (failed : Call κ) (sp : Bytes) :
    ∀ x ∈ cleanupCalls pre failed ++ unlockCalls failed, P.stageFile sp ∉ callWrites x := by
  intro x hx hmem
  rcases afterFault_writes pre failed x hx _ hmem with h | h
  · simp [P.isTemp] at h
  · cases h

/-- … and every workspace path, cache object, shard directory -/
theorem afterFault_frame (pre : List (Call κ)) (failed : Call κ) {q : P}
    (hq : q.isTemp = false) (hl : q ≠ .lock) :
    ∀ x ∈ cleanupCalls pre failed ++ unlockCalls failed, q ∉ callWrites x := by
  intro x hx hmem
  rcases afterFault_writes pre failed x hx _ hmem with h | h
  · rw [hq] at h; cases h
  · exact hl h

/-! ## the faulted trace -/

theorem faultTrace_of_lt {calls : List (Call κ)} {k : Nat} (hk : k < calls.length) :
    faultTrace calls k = calls.take k ++ cleanupCalls (calls.take k) calls[k] ++ unlockCalls calls[k] := by
  unfold faultTrace
  rw [List.getElem?_eq_getElem hk]

theorem faultTrace_of_ge {calls : List (Call κ)} {k : Nat} (hk : calls.length ≤ k) :
    faultTrace calls k = calls := by
  unfold faultTrace
  rw [List.getElem?_eq_none hk]

/-- the state after the faulted run is the fault state of `runFault` followed by clean-up and unlock -/
theorem runFaultCleanup_eq (emp : κ) (fs : FS κ) {calls : List (Call κ)} {k : Nat} (hk : k < calls.length) :
    runFaultCleanup emp fs calls k =
      replay emp (runFault emp fs calls k)
        (cleanupCalls (calls.take k) calls[k] ++ unlockCalls calls[k]) := by
  unfold runFaultCleanup
  rw [faultTrace_of_lt hk, runFault_eq_prefix, faultAt, List.append_assoc, replay_append]

/-- what the calls after the fault leave alone -/
theorem runFaultCleanup_get_frame (emp : κ) (fs : FS κ) (calls : List (Call κ)) (k : Nat) {q : P}
    (hq : q.isTemp = false) (hl : q ≠ .lock) :
    (runFaultCleanup emp fs calls k).get q = (replay emp fs (calls.take k)).get q := by
  by_cases hk : k < calls.length
  · rw [runFaultCleanup_eq emp _ hk, runFault_eq_prefix, faultAt]
    exact replay_get_frame emp _ _ _ (afterFault_frame _ _ hq hl)
  · unfold runFaultCleanup
    rw [faultTrace_of_ge (by omega), List.take_of_length_le (by omega)]

/-- the world's file system holds no temp file -/
theorem fsOfWorld_get_tmp (c : CmdCfg κ) (w : World κ) {p : P} (hp : p.isTemp = true) :
    (fsOfWorld c w).get p = none := by
  rw [fsOfWorld_get c w (fun sp => (isTemp_not_special hp).2.2.2 sp)]
  cases p <;> simp [P.isTemp] at hp <;>
    exact fsOf_get_none _ _ _ _ (by simp) (by simp) (by simp) (by simp)

end Dud.Sys
