import DudModel.SysCheckout
import DudModel.Lemmas.SysCmdRefine
import DudModel.Props.C18
/-!
# Erasing the trace of the traced `dud checkout` gives the logical command

`checkoutArtWT_refines`, `checkoutArtsT_refines`, `checkoutActT_refines`, `cmdCheckoutSegs_erase`,
`cmdCheckoutT_erase`, and the inversion of a successful traced command (`cmdCheckoutT_ok_inv`).
-/
namespace Dud.Sys
open Dud
variable {κ : Type}

theorem checkoutArtWT_refines (c : CmdCfg κ) (strat : Strat) (a : Art) (w : World κ)
    (hs : a.skip = false) :
    (checkoutArtWT c strat a w).map (·.1) = checkoutArtW c.cfg strat a w := by
  have ih := map_fst_eq (checkoutNodeT_refines (c.tc strat) w.store c.cfg.fuel (Path.comps a.path)
    (getPath w.ws (Path.comps a.path)) a.child)
  simp only [CmdCfg.tc] at ih
  unfold checkoutArtWT checkoutArtW checkoutArt
  simp only [CmdCfg.tc, hs, Bool.false_eq_true, if_false]
  cases hT : checkoutNodeT { ctx := c.cfg.ctx, isEmp := c.isEmp, strat := strat, canRename := c.canRename }
      w.store c.cfg.fuel (Path.comps a.path) (getPath w.ws (Path.comps a.path)) a.child with
  | error e => simp [ih.1 e hT, Except.map]
  | ok v =>
    obtain ⟨n, calls⟩ := v
    simp only [ih.2 _ _ hT]
    cases setPath w.ws (Path.comps a.path) n <;> rfl

theorem checkoutArtW_skip (cfg : Cfg κ) (strat : Strat) (a : Art) (w : World κ) (hs : a.skip = true) :
    checkoutArtW cfg strat a w = .ok w := by
  unfold checkoutArtW checkoutArt
  simp only [hs, if_true]
  cases getPath w.ws (Path.comps a.path) <;> rfl

theorem checkoutArtsT_refines (c : CmdCfg κ) (strat : Strat) : ∀ (as : List Art) (w : World κ),
    (checkoutArtsT c strat as w).map (·.1) = checkoutArts c.cfg strat as w
  | [], w => rfl
  | a :: r, w => by
    simp only [checkoutArtsT, checkoutArts]
    by_cases hs : a.skip = true
    · rw [if_pos hs, checkoutArtW_skip c.cfg strat a w hs]
      exact checkoutArtsT_refines c strat r w
    · have hs' : a.skip = false := by simpa using hs
      rw [if_neg hs]
      have ih := map_fst_eq (checkoutArtWT_refines c strat a w hs')
      cases hT : checkoutArtWT c strat a w with
      | error e => simp [ih.1 e hT, Except.map]
      | ok v =>
        obtain ⟨w1, calls1⟩ := v
        simp only [ih.2 _ _ hT]
        have ih2 := map_fst_eq (checkoutArtsT_refines c strat r w1)
        cases hT2 : checkoutArtsT c strat r w1 with
        | error e => simp [ih2.1 e hT2, Except.map]
        | ok v =>
          obtain ⟨w2, segs⟩ := v
          simp [ih2.2 _ _ hT2, Except.map]

theorem checkoutActT_refines (c : CmdCfg κ) (strat : Strat) (sp : Bytes) (w : World κ) :
    (checkoutActT c strat sp w).map (·.1) = checkoutAct c.cfg strat sp w := by
  unfold checkoutActT checkoutAct
  cases w.stage sp with
  | error e => rfl
  | ok stg =>
    simp only
    have ih := map_fst_eq (checkoutArtsT_refines c strat (sortArts stg.outputs) w)
    cases hT : checkoutArtsT c strat (sortArts stg.outputs) w with
    | error e => simp [ih.1 e hT, Except.map]
    | ok v =>
      obtain ⟨w', segs⟩ := v
      simp [ih.2 _ _ hT, Except.map]

theorem checkoutTravT_act_refines (c : CmdCfg κ) (strat : Strat) (sp : Bytes)
    (p : World κ × List (List (Call κ))) :
    ((checkoutTravT c strat).act sp p).map (·.1) = (checkoutTrav c.cfg strat).act sp p.1 := by
  have ih := map_fst_eq (checkoutActT_refines c strat sp p.1)
  simp only [checkoutTravT, checkoutTrav]
  cases hT : checkoutActT c strat sp p.1 with
  | error e => simp [ih.1 e hT, Except.map]
  | ok v =>
    obtain ⟨w', segs⟩ := v
    simp [ih.2 _ _ hT, Except.map]

/-- the traced traversal of one target refines the logical one -/
theorem visit_checkoutTravT_refines (c : CmdCfg κ) (strat : Strat) (r : Bool) (fuel : Nat)
    (avail : List Bytes) (sp : Bytes) (p : World κ × List (List (Call κ))) :
    (visit (checkoutTravT c strat) r fuel avail sp p).map (·.1) =
      visit (checkoutTrav c.cfg strat) r fuel avail sp p.1 :=
  visit_lift (·.1) (checkoutTravT c strat) (checkoutTrav c.cfg strat) (fun _ _ => rfl) (fun _ _ => rfl)
    (checkoutTravT_act_refines c strat) r fuel avail sp p

/-- **Refinement, segmented form.** -/
theorem cmdCheckoutSegs_erase (c : CmdCfg κ) (strat : Strat) (single : Bool) (targets : List Bytes)
    (w : World κ) :
    (cmdCheckoutSegs c strat single targets w).map (·.1) = cmdCheckout c.cfg strat single targets w := by
  unfold cmdCheckoutSegs cmdCheckout
  by_cases hi : w.idx.isEmpty = true
  · rw [if_pos hi, if_pos hi]; rfl
  · rw [if_neg hi, if_neg hi]
    exact perTargetP_lift
      (f' := fun t (p : World κ × List (List (Call κ))) =>
        visit (checkoutTravT c strat) (targets.isEmpty || !single) (p.1.idx.length + 1) (allStages p.1) t p)
      (f := fun t w => visit (checkoutTrav c.cfg strat) (targets.isEmpty || !single) (w.idx.length + 1)
        (allStages w) t w)
      (fun t p => visit_checkoutTravT_refines c strat _ _ _ t p)
      _ (fresh w, [])

/-- **Refinement.** Erasing the trace of `cmdCheckoutT` gives exactly `cmdCheckout`. -/
theorem cmdCheckoutT_erase (c : CmdCfg κ) (strat : Strat) (single : Bool) (targets : List Bytes)
    (w : World κ) :
    (cmdCheckoutT c strat single targets w).map (·.1) = cmdCheckout c.cfg strat single targets w := by
  rw [← cmdCheckoutSegs_erase]
  unfold cmdCheckoutT
  cases cmdCheckoutSegs c strat single targets w with
  | error e => rfl
  | ok v => rfl

/-- inversion of a successful traced command -/
theorem cmdCheckoutT_ok_inv {c : CmdCfg κ} {strat : Strat} {single : Bool} {targets : List Bytes}
    {w w' : World κ} {calls : List (Call κ)}
    (h : cmdCheckoutT c strat single targets w = .ok (w', calls)) :
    ∃ segs, perTargetP (fun t (p : World κ × List (List (Call κ))) =>
          visit (checkoutTravT c strat) (targets.isEmpty || !single) (p.1.idx.length + 1)
            (allStages p.1) t p)
        (if targets.isEmpty then allStages w else targets) (fresh w, []) = .ok (w', segs) ∧
      calls = [.createExcl .lock] ++ segs.flatten ++ [.unlink .lock] := by
  unfold cmdCheckoutT at h
  cases hs : cmdCheckoutSegs c strat single targets w with
  | error e => rw [hs] at h; cases h
  | ok v =>
    obtain ⟨w1, segs⟩ := v
    rw [hs] at h
    simp only [Except.ok.injEq, Prod.mk.injEq] at h
    obtain ⟨rfl, rfl⟩ := h
    unfold cmdCheckoutSegs at hs
    by_cases hi : w.idx.isEmpty = true
    · rw [if_pos hi] at hs; cases hs
    · rw [if_neg hi] at hs
      exact ⟨segs, hs, rfl⟩

end Dud.Sys
