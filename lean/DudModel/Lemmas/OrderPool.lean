import DudModel.Lemmas.Pool
/-!
# The worker-pool protocol with the entries made explicit (helpers for C13)

`DudModel/Pool.lean` counts goroutines; `TState` below carries, next to the counters `P`, the
entries themselves: `pend` (not yet handed to a worker, in feeding order), `act` (held by busy
workers), `done` (completely processed, **in completion order**), `lost` (dropped by a worker that
failed or saw the cancellation).  Every `TStep` is a `Step` of the protocol on the counters, and
every `Step` can be performed on the instrumented state.  For a run that ends without error the
list `done` is a permutation of the entries: this is the order "the protocol run induces".
-/
namespace Dud.Pool

/-- protocol state with the entries made explicit -/
structure TState (ι : Type) where
  p : P
  pend : List ι
  act : List ι
  done : List ι
  lost : List ι

variable {ι : Type}

/-- a worker hands its result on -/
def Label.finishes : Label → Bool
  | .deliver | .deliverShort => true
  | _ => false

inductive TStep (D : Nat) : TState ι → TState ι → Prop
  /-- a step that neither takes nor gives back an entry -/
  | loc {s : TState ι} (l : Label) : enabled D l s.p = true → l.consumes = false → l ≠ .take →
      TStep D s { s with p := fire l s.p }
  /-- a worker takes the next entry -/
  | take {s : TState ι} (x : ι) (rest : List ι) : enabled D .take s.p = true →
      s.pend = x :: rest → TStep D s ⟨fire .take s.p, rest, x :: s.act, s.done, s.lost⟩
  /-- a busy worker (any of them) has processed its entry completely and hands the result on -/
  | finish {s : TState ι} (l : Label) (pre : List ι) (x : ι) (post : List ι) :
      enabled D l s.p = true → l.finishes = true → s.act = pre ++ x :: post →
      TStep D s ⟨fire l s.p, s.pend, pre ++ post, s.done ++ [x], s.lost⟩
  /-- a busy worker returns an error, or sees the cancellation instead of sending its result -/
  | drop {s : TState ι} (l : Label) (pre : List ι) (x : ι) (post : List ι) :
      enabled D l s.p = true → l.consumes = true → l.finishes = false →
      s.act = pre ++ x :: post →
      TStep D s ⟨fire l s.p, s.pend, pre ++ post, s.done, x :: s.lost⟩

/-- start of the call for a directory with entries `es` -/
def tinit (es : List ι) (coll : Bool := true) : TState ι :=
  ⟨init es.length coll, es, [], [], []⟩

/-- every instrumented step is a step of the protocol -/
theorem TStep.step {D : Nat} {s t : TState ι} (h : TStep D s t) : Step D s.p t.p := by
  cases h with
  | loc l he _ _ => exact Step.mk l he
  | take x rest he _ => exact Step.mk .take he
  | finish l pre x post he _ _ => exact Step.mk l he
  | drop l pre x post he _ _ _ => exact Step.mk l he

structure TInv (es : List ι) (s : TState ι) : Prop where
  wf : WF s.p
  n_eq : s.p.n = es.length
  pend_len : s.pend.length + s.p.fed = s.p.n
  act_len : s.act.length = s.p.busy
  done_len : s.done.length = s.p.got
  perm : (s.done ++ (s.lost ++ (s.act ++ s.pend))).Perm es

theorem tinv_init (es : List ι) (coll : Bool) : TInv es (tinit es coll) :=
  ⟨wf_init _ _, rfl, by simp [tinit, init], rfl, rfl, by simp [tinit]⟩

theorem finishes_consumes {l : Label} (h : l.finishes = true) : l.consumes = true := by
  cases l <;> first | rfl | cases h

theorem fire_got_finish (l : Label) (p : P) (h : l.finishes = true) :
    (fire l p).got = p.got + 1 := by
  cases l <;> first | rfl | cases h

theorem fire_got_other (l : Label) (p : P) (h : l.finishes = false) : (fire l p).got = p.got := by
  cases l <;> first | rfl | cases h

theorem tinv_step {D : Nat} {es : List ι} {s t : TState ι} (i : TInv es s) (h : TStep D s t) :
    TInv es t := by
  obtain ⟨w, hn, hp, ha, hd, hperm⟩ := i
  cases h with
  | loc l he hcons hne =>
    have hf : l.finishes = false := by
      cases l <;> first | rfl | cases hcons
    exact ⟨wf_fire he w, by simp only [fire_n]; exact hn,
      by simp only [fire_n, fire_fed l _ hne]; exact hp,
      by simp only [fire_busy_loc l _ hne hcons]; exact ha,
      by simp only [fire_got_other l _ hf]; exact hd, hperm⟩
  | take x rest he hpend =>
    obtain ⟨hb, hf, _⟩ := fire_take _ he
    refine ⟨wf_fire he w, by simp only [fire_n]; exact hn, ?_, ?_, ?_, ?_⟩
    · simp only [fire_n, hf]; rw [hpend] at hp; simp at hp; omega
    · simp only [hb, List.length_cons, ha]
    · simp only [fire_got_other .take _ rfl]; exact hd
    · rw [hpend] at hperm
      refine List.Perm.trans ?_ hperm
      refine List.Perm.append_left _ (List.Perm.append_left _ ?_)
      exact (List.perm_middle (l₁ := s.act) (a := x) (l₂ := rest)).symm
  | finish l pre x post he hfin hact =>
    have hcons := finishes_consumes hfin
    obtain ⟨hb, hne⟩ := fire_busy_consumes l _ hcons he
    refine ⟨wf_fire he w, by simp only [fire_n]; exact hn,
      by simp only [fire_n, fire_fed l _ hne]; exact hp, ?_, ?_, ?_⟩
    · rw [hact] at ha; simp at ha ⊢; omega
    · simp only [fire_got_finish l _ hfin, List.length_append, List.length_cons, List.length_nil, hd]
    · rw [hact] at hperm
      refine List.Perm.trans ?_ hperm
      simp only [List.append_assoc]
      refine List.Perm.append_left _ ?_
      -- [x] ++ (lost ++ (pre ++ post ++ pend)) ~ lost ++ (pre ++ x :: post ++ pend)
      have h1 : ([x] ++ (s.lost ++ (pre ++ (post ++ s.pend)))).Perm
          (s.lost ++ (x :: (pre ++ (post ++ s.pend)))) := by
        simpa using (List.perm_middle (l₁ := s.lost) (a := x) (l₂ := pre ++ (post ++ s.pend))).symm
      refine h1.trans (List.Perm.append_left _ ?_)
      simpa using (List.perm_middle (l₁ := pre) (a := x) (l₂ := post ++ s.pend)).symm
  | drop l pre x post he hcons hfin hact =>
    obtain ⟨hb, hne⟩ := fire_busy_consumes l _ hcons he
    refine ⟨wf_fire he w, by simp only [fire_n]; exact hn,
      by simp only [fire_n, fire_fed l _ hne]; exact hp, ?_, ?_, ?_⟩
    · rw [hact] at ha; simp at ha ⊢; omega
    · simp only [fire_got_other l _ hfin]; exact hd
    · rw [hact] at hperm
      refine List.Perm.trans ?_ hperm
      refine List.Perm.append_left _ ?_
      have h1 : (x :: s.lost ++ (pre ++ post ++ s.pend)).Perm
          (s.lost ++ (x :: (pre ++ post ++ s.pend))) := by
        simpa using (List.perm_middle (l₁ := s.lost) (a := x) (l₂ := pre ++ post ++ s.pend)).symm
      refine h1.trans (List.Perm.append_left _ ?_)
      simpa using (List.perm_middle (l₁ := pre) (a := x) (l₂ := post ++ s.pend)).symm

/-- `k`-step reachability of the instrumented instance -/
abbrev TSteps (D : Nat) : TState ι → Nat → TState ι → Prop := Run (TStep D)

theorem tsteps_inv {D : Nat} {es : List ι} {s t : TState ι} {k : Nat} (i : TInv es s)
    (h : TSteps D s k t) : TInv es t := by
  induction h with
  | refl => exact i
  | cons hs _ ih => exact ih (tinv_step i hs)

/-- an instrumented run is a run of the protocol -/
theorem tsteps_steps {D : Nat} {s t : TState ι} {k : Nat} (h : TSteps D s k t) :
    Steps D s.p k t.p := by
  induction h with
  | refl => exact .refl
  | cons hs _ ih => exact .cons hs.step ih

/-- every step of the protocol can be performed on the instrumented state -/
theorem tstep_of_step {D : Nat} {es : List ι} {s : TState ι} (i : TInv es s) {q : P}
    (h : Step D s.p q) : ∃ t, TStep D s t ∧ t.p = q := by
  cases h with
  | mk l he =>
    by_cases ht : l = .take
    · subst ht
      obtain ⟨_, _, hlt⟩ := fire_take _ he
      cases hpend : s.pend with
      | nil =>
        have := i.pend_len
        rw [hpend] at this
        simp at this
        omega
      | cons x rest => exact ⟨_, TStep.take x rest he hpend, rfl⟩
    · cases hc : l.consumes with
      | false => exact ⟨_, TStep.loc l he hc ht, rfl⟩
      | true =>
        obtain ⟨hb, _⟩ := fire_busy_consumes l _ hc he
        cases hact : s.act with
        | nil =>
          have := i.act_len
          rw [hact] at this
          simp at this
          omega
        | cons x post =>
          cases hf : l.finishes with
          | true => exact ⟨_, TStep.finish l [] x post he hf (by simpa using hact), rfl⟩
          | false => exact ⟨_, TStep.drop l [] x post he hc hf (by simpa using hact), rfl⟩

/-- `terminal_complete` of `Props/C13.lean` (re-proved here to keep this file below it) -/
theorem terminal_counts {p : P} (w : WF p) (t : Terminal p) (nf : p.failed = false) :
    p.fed = p.n ∧ p.got = p.n := by
  obtain ⟨_, _, tb, tf, _⟩ := t
  have h2 := w.fed_eq nf
  have h9 := w.feed_stop
  have : p.fed = p.n := by
    rcases tf with h | h
    · exact h
    · rw [h9 h] at nf; cases nf
  omega

/-- **The order a run induces.**  When the call returns without error, every entry has been
processed exactly once: the completion order `done` is a permutation of the entries, nothing is
pending, held or lost. -/
theorem terminal_done_perm {D : Nat} {es : List ι} {coll : Bool} {k : Nat} {s : TState ι}
    (h : TSteps D (tinit es coll) k s) (t : Terminal s.p) (nf : s.p.failed = false) :
    s.done.Perm es ∧ s.pend = [] ∧ s.act = [] ∧ s.lost = [] := by
  have i := tsteps_inv (tinv_init es coll) h
  obtain ⟨hfed, hgot⟩ := terminal_counts i.wf t nf
  have hbusy : s.p.busy = 0 := t.2.2.1
  have hpend : s.pend = [] := List.eq_nil_of_length_eq_zero (by have := i.pend_len; omega)
  have hact : s.act = [] := List.eq_nil_of_length_eq_zero (by have := i.act_len; omega)
  have hperm := i.perm
  rw [hpend, hact] at hperm
  simp only [List.append_nil] at hperm
  have hlost : s.lost = [] := by
    have hl := hperm.length_eq
    have := i.done_len
    have := i.n_eq
    simp only [List.length_append] at hl
    exact List.eq_nil_of_length_eq_zero (by omega)
  rw [hlost] at hperm
  simp only [List.append_nil] at hperm
  exact ⟨hperm, hpend, hact, hlost⟩

/-- at any time: what is done, lost, held and pending is exactly the entries, each once -/
theorem entries_accounted {D : Nat} {es : List ι} {coll : Bool} {k : Nat} {s : TState ι}
    (h : TSteps D (tinit es coll) k s) :
    (s.done ++ (s.lost ++ (s.act ++ s.pend))).Perm es :=
  (tsteps_inv (tinv_init es coll) h).perm

/-! ## every order occurs

With enough tokens from the shared pool (`spawnS`, the environment) all entries are held by
workers at the same time, and the workers may finish in any order: every permutation of the
entries is the completion order of some run that ends without error.  So "for every schedule"
really means "for every permutation". -/

/-- counters while the workers are being spawned / entries are being taken / results delivered -/
def pMid (n : Nat) (coll : Bool) (fed got idle busy spawned : Nat) (loopDone : Bool)
    (exited : Nat) : P :=
  { n := n, coll := coll, fed := fed, got := got, idle := idle, busy := busy, spawned := spawned,
    ded := 0, exited := exited, loopDone := loopDone, failed := false, feedStop := false,
    collStop := false }

theorem run_snoc {α : Type} {r : α → α → Prop} {a b c : α} {k : Nat} (h : Run r a k b)
    (hs : r b c) : Run r a (k + 1) c :=
  Run.append h (.cons hs .refl)

/-- phase 1: `i` workers spawned on shared tokens -/
theorem phase_spawn (D : Nat) (es : List ι) (coll : Bool) :
    ∀ i, i ≤ es.length →
      TSteps D (tinit es coll) i ⟨pMid es.length coll 0 0 i 0 i false 0, es, [], [], []⟩
  | 0, _ => .refl
  | i+1, hi => by
    refine run_snoc (phase_spawn D es coll i (by omega)) ?_
    have he : enabled D .spawnS (pMid es.length coll 0 0 i 0 i false 0) = true := by
      simp [enabled, pMid]
      exact decide_eq_true (by omega)
    exact TStep.loc (s := ⟨pMid es.length coll 0 0 i 0 i false 0, es, [], [], []⟩) .spawnS he rfl
      (by decide)

/-- phase 2: the idle workers take the pending entries one after the other -/
theorem phase_take (D : Nat) (n : Nat) (coll : Bool) :
    ∀ (r a : List ι) (f i : Nat), a.length = f → r.length = i → f + i = n →
      TSteps D ⟨pMid n coll f 0 i f n false 0, r, a, [], []⟩ r.length
        ⟨pMid n coll n 0 0 n n false 0, [], r.reverse ++ a, [], []⟩
  | [], a, f, i, ha, hr, hn => by
    simp only [List.length_nil] at hr
    subst hr
    have : f = n := by omega
    subst this
    exact .refl
  | x :: r, a, f, i, ha, hr, hn => by
    cases i with
    | zero => simp at hr
    | succ i =>
      have he : enabled D .take (pMid n coll f 0 (i+1) f n false 0) = true := by
        simp [enabled, pMid]
        exact decide_eq_true (by omega)
      refine .cons (TStep.take (s := ⟨pMid n coll f 0 (i+1) f n false 0, x :: r, a, [], []⟩) x r
        he rfl) ?_
      have ih := phase_take D n coll r (x :: a) (f+1) i (by simp [ha]) (by simpa using hr)
        (by omega)
      have hf : fire .take (pMid n coll f 0 (i+1) f n false 0) =
          pMid n coll (f+1) 0 i (f+1) n false 0 := rfl
      rw [hf]
      simpa [List.reverse_cons, List.append_assoc] using ih

/-- phase 3: the busy workers finish in the order `σ` -/
theorem phase_deliver (D : Nat) (n : Nat) (coll : Bool) :
    ∀ (σ a d : List ι) (g b : Nat), a.Perm σ → d.length = g → a.length = b → g + b = n →
      TSteps D ⟨pMid n coll n g g b n false 0, [], a, d, []⟩ σ.length
        ⟨pMid n coll n n n 0 n false 0, [], [], d ++ σ, []⟩
  | [], a, d, g, b, hp, hd, ha, hn => by
    have : a = [] := hp.eq_nil
    subst this
    simp only [List.length_nil] at ha
    subst ha
    have : g = n := by omega
    subst this
    simpa using (Run.refl : TSteps D _ 0 _)
  | x :: σ, a, d, g, b, hp, hd, ha, hn => by
    have hx : x ∈ a := hp.mem_iff.2 (List.mem_cons_self ..)
    obtain ⟨pre, post, rfl⟩ := List.append_of_mem hx
    cases b with
    | zero => simp at ha
    | succ b =>
      have he : enabled D .deliver (pMid n coll n g g (b+1) n false 0) = true := by
        simp [enabled, pMid]
      refine .cons (TStep.finish (s := ⟨pMid n coll n g g (b+1) n false 0, [], pre ++ x :: post,
        d, []⟩) .deliver pre x post he rfl rfl) ?_
      have hp' : (pre ++ post).Perm σ :=
        (List.perm_middle.symm.trans hp).cons_inv
      have ih := phase_deliver D n coll σ (pre ++ post) (d ++ [x]) (g+1) b hp'
        (by simp [hd]) (by simp at ha ⊢; omega) (by omega)
      have hf : fire .deliver (pMid n coll n g g (b+1) n false 0) =
          pMid n coll n (g+1) (g+1) b n false 0 := rfl
      rw [hf]
      simpa [List.append_assoc] using ih

/-- phase 5: the idle workers find the channel closed and return -/
theorem phase_exit (D : Nat) (n : Nat) (coll : Bool) (done : List ι) :
    ∀ (i e : Nat), i + e = n →
      TSteps D ⟨pMid n coll n n i 0 n true e, [], [], done, []⟩ i
        ⟨pMid n coll n n 0 0 n true n, [], [], done, []⟩
  | 0, e, h => by
    have : e = n := by omega
    subst this
    exact .refl
  | i+1, e, h => by
    have he : enabled D .exitS (pMid n coll n n (i+1) 0 n true e) = true := by
      simp [enabled, pMid]
    refine .cons (TStep.loc (s := ⟨pMid n coll n n (i+1) 0 n true e, [], [], done, []⟩) .exitS he
      rfl (by decide)) ?_
    exact phase_exit D n coll done i (e+1) (by omega)

/-- **Every permutation is the completion order of some error-free run** (the shared pool grants
one token per entry, so that all entries are in progress at the same time). -/
theorem every_order_occurs (D : Nat) (es σ : List ι) (coll : Bool) (hp : σ.Perm es) :
    ∃ k s, TSteps D (tinit es coll) k s ∧ Terminal s.p ∧ s.p.failed = false ∧ s.done = σ := by
  have h1 := phase_spawn D es coll es.length (Nat.le_refl _)
  have h2 := phase_take D es.length coll es [] 0 es.length rfl rfl (by omega)
  have h3 := phase_deliver D es.length coll σ (es.reverse ++ []) [] 0 es.length
    (by simpa using (List.reverse_perm es).trans hp.symm) rfl (by simp) (by omega)
  have he : enabled D .loopEndN (pMid es.length coll es.length es.length es.length 0 es.length
      false 0) = true := by
    simp [enabled, pMid]
  have h4 : TStep D (⟨pMid es.length coll es.length es.length es.length 0 es.length false 0, [],
      [], [] ++ σ, []⟩ : TState ι) ⟨pMid es.length coll es.length es.length es.length 0 es.length
      true 0, [], [], [] ++ σ, []⟩ :=
    TStep.loc (s := ⟨pMid es.length coll es.length es.length es.length 0 es.length false 0, [],
      [], [] ++ σ, []⟩) .loopEndN he rfl (by decide)
  have h5 := phase_exit D es.length coll ([] ++ σ) es.length 0 (by omega)
  refine ⟨_, _, Run.append (Run.append (Run.append h1 h2) h3) (.cons h4 h5), ?_, rfl, by simp⟩
  simp [Terminal, pMid]

end Dud.Pool
