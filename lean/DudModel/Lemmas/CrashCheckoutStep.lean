import DudModel.Lemmas.CrashCheckout
/-!
# Crash safety of `dud checkout`: one file, one directory, one artifact

See `Lemmas/CrashCheckout.lean` for the vocabulary.
-/
namespace Dud.Sys
open Dud
variable {κ : Type} {st : Strat}

/-! ## what happened to the entries the workspace held before the command -/

/-- **between two artifacts**: every workspace entry of `fs0` is still there, unchanged — or (copy
strategy only) it was a link to a cache object and is now a regular file holding exactly the bytes of that
object -/
def KeptB (st : Strat) (fs0 fs : FS κ) : Prop :=
  ∀ q e, fs0.get (.ws q) = some e →
    fs.get (.ws q) = some e ∨
    st = .copy ∧ ∃ d x m0 m, e = .link (.obj d) ∧ fs0.get (.obj d) = some (.file x m0) ∧
      fs.get (.ws q) = some (.file x m)

/-- **at any instant**: every workspace entry of `fs0` is still there, unchanged — or (copy strategy only)
it was a link to a cache object `d` (holding the bytes `x`) and the path is now absent (the link was
removed), an empty or incomplete regular file (the copy is being written), or a regular file holding `x` -/
def KeptP (st : Strat) (emp : κ) (fs0 fs : FS κ) : Prop :=
  ∀ q e, fs0.get (.ws q) = some e →
    fs.get (.ws q) = some e ∨
    st = .copy ∧ ∃ d x m0, e = .link (.obj d) ∧ fs0.get (.obj d) = some (.file x m0) ∧
      (fs.get (.ws q) = none ∨ ∃ m, fs.get (.ws q) = some (.file emp m) ∨
        fs.get (.ws q) = some (.torn m) ∨ fs.get (.ws q) = some (.file x m))

theorem KeptB.refl (st : Strat) (fs0 : FS κ) : KeptB st fs0 fs0 := fun _ _ h => .inl h

theorem KeptB.toP {fs0 fs : FS κ} (emp : κ) (h : KeptB st fs0 fs) : KeptP st emp fs0 fs := by
  intro q e he
  rcases h q e he with h | ⟨hc, d, x, m0, m, h1, h2, h3⟩
  · exact .inl h
  · exact .inr ⟨hc, d, x, m0, h1, h2, .inr ⟨m, .inr (.inr h3)⟩⟩

/-- a path absent now was absent before the command -/
theorem KeptB.absent0 {fs0 fs : FS κ} (h : KeptB st fs0 fs) {q : List Name} (hq : fs.get (.ws q) = none) :
    fs0.get (.ws q) = none := by
  cases h0 : fs0.get (.ws q) with
  | none => rfl
  | some e =>
    rcases h q e h0 with h | ⟨-, d, x, m0, m, -, -, h3⟩
    · rw [hq] at h; cases h
    · rw [hq] at h3; cases h3

/-- a path holding a link now held the same link before the command, or nothing -/
theorem KeptB.link0 {fs0 fs : FS κ} (h : KeptB st fs0 fs) {q : List Name} {t : P}
    (hq : fs.get (.ws q) = some (.link t)) :
    fs0.get (.ws q) = none ∨ fs0.get (.ws q) = some (.link t) := by
  cases h0 : fs0.get (.ws q) with
  | none => exact .inl rfl
  | some e =>
    rcases h q e h0 with h | ⟨-, d, x, m0, m, -, -, h3⟩
    · rw [hq] at h; cases h; exact .inr rfl
    · rw [hq] at h3; cases h3

theorem KeptB.frame {fs0 fs fs' : FS κ} (h : KeptB st fs0 fs)
    (hfr : ∀ q, fs0.get (.ws q) ≠ none → fs'.get (.ws q) = fs.get (.ws q)) : KeptB st fs0 fs' := by
  intro q e he
  rw [hfr q (by rw [he]; simp)]
  exact h q e he

/-- calls that write only workspace paths that were absent before the command keep everything, after every
prefix -/
theorem keptB_take_of_absent {fs0 fs : FS κ} (hk : KeptB st fs0 fs) (emp : κ) (calls : List (Call κ))
    (hw : ∀ c ∈ calls, ∀ p ∈ callWrites c, ∃ q, p = .ws q ∧ fs0.get (.ws q) = none) (k : Nat) :
    KeptB st fs0 (replay emp fs (calls.take k)) := by
  refine hk.frame (fun q hq => ?_)
  refine replay_take_get_frame emp calls _ fs (fun c hc hmem => ?_) k
  obtain ⟨q', hq', h0⟩ := hw c hc _ hmem
  injection hq' with hq'
  subst hq'
  exact hq h0

theorem pref_keptP_of_absent {fs0 fs : FS κ} (hk : KeptB st fs0 fs) (emp : κ) (calls : List (Call κ))
    (hw : ∀ c ∈ calls, ∀ p ∈ callWrites c, ∃ q, p = .ws q ∧ fs0.get (.ws q) = none) :
    Pref (KeptP st emp fs0) emp fs calls ∧ KeptB st fs0 (replay emp fs calls) := by
  refine ⟨fun k => (keptB_take_of_absent hk emp calls hw k).toP emp, ?_⟩
  have := keptB_take_of_absent hk emp calls hw calls.length
  rwa [List.take_length] at this

/-! ## one file -/

theorem checkoutFileCalls_writes (isEmp : κ → Bool) (strat : Strat) (w : P) (b : Bool) (c : κ) (d : Digest) :
    ∀ call ∈ checkoutFileCalls isEmp strat w b c d, ∀ p ∈ callWrites call, p = w := by
  intro call hcall p hp
  cases strat <;> cases b <;> cases he : isEmp c <;> simp [checkoutFileCalls, he] at hcall
  all_goals (first
    | (rcases hcall with rfl | rfl | rfl | rfl <;> simpa [callWrites, callPaths] using hp)
    | (rcases hcall with rfl | rfl | rfl <;> simpa [callWrites, callPaths] using hp)
    | (rcases hcall with rfl | rfl <;> simpa [callWrites, callPaths] using hp)
    | (subst hcall; simpa [callWrites, callPaths] using hp))

/-- the state of the path after the complete `checkoutFile` -/
theorem checkoutFileCalls_final {emp : κ} {isEmp : κ → Bool} (hemp : ∀ c, isEmp c = true → c = emp)
    (strat : Strat) (w : P) (b : Bool) (x : κ) (d : Digest) {fs : FS κ}
    (hpre : if b then fs.get w = some (.link (.obj d)) else fs.get w = none)
    (hb : b = true → strat = .copy) :
    (replay emp fs (checkoutFileCalls isEmp strat w b x d)).get w =
      match strat with
      | .link => some (.link (.obj d))
      | .copy => some (.file x 0o600) := by
  cases strat with
  | link =>
    cases b with
    | true => cases hb rfl
    | false =>
      simp only [Bool.false_eq_true, if_false] at hpre
      simp [checkoutFileCalls, replay, apply, hpre, FS.get_set]
  | copy =>
    cases b with
    | false =>
      simp only [Bool.false_eq_true, if_false] at hpre
      cases he : isEmp x with
      | true =>
        have := hemp x he; subst this
        simp [checkoutFileCalls, he, replay, apply, hpre, FS.get_set]
      | false =>
        simp [checkoutFileCalls, he, replay, apply, hpre, FS.get_set]
    | true =>
      simp only [if_true] at hpre
      cases he : isEmp x with
      | true =>
        have := hemp x he; subst this
        simp [checkoutFileCalls, he, replay, apply, FS.get_set, FS.get_del]
      | false =>
        simp [checkoutFileCalls, he, replay, apply, FS.get_set, FS.get_del]

/-- copy over a link to the very object: the state of the path after every prefix -/
theorem checkoutFileCalls_copy_over_link {emp : κ} {isEmp : κ → Bool}
    (hemp : ∀ c, isEmp c = true → c = emp) (w : P) (x : κ) (d : Digest) {fs : FS κ}
    (hpre : fs.get w = some (.link (.obj d))) (k : Nat) :
    let e := (replay emp fs ((checkoutFileCalls isEmp .copy w true x d).take k)).get w
    e = some (.link (.obj d)) ∨ e = none ∨ ∃ m, e = some (.file emp m) ∨ e = some (.torn m) ∨
      e = some (.file x m) := by
  cases he : isEmp x with
  | true =>
    have := hemp x he; subst this
    rcases k with _ | _ | _ | k <;>
      simp [checkoutFileCalls, he, replay, apply, hpre, FS.get_set, FS.get_del]
  | false =>
    rcases k with _ | _ | _ | _ | _ | k <;>
      simp [checkoutFileCalls, he, replay, apply, hpre, FS.get_set, FS.get_del]

/-- inversion of the traced `checkoutFile` -/
theorem checkoutFileT_cases {t : TCfg κ} {w : P} {cur : Option (Node κ)} {sum : Digest} {s : Store κ}
    {r : Node κ} {calls : List (Call κ)} (h : checkoutFileT t w cur sum s = .ok (r, calls)) :
    (cur = some r ∧ calls = []) ∨
    (∃ o, s.get sum = some o ∧ cur = none ∧
      calls = checkoutFileCalls t.isEmp t.strat w false (o.bytes t.ctx) sum ∧
      r = (match t.strat with
        | .copy => .file (o.bytes t.ctx)
        | .link => .link (.obj sum))) ∨
    (∃ o, s.get sum = some o ∧ cur = some (.link (.obj sum)) ∧ t.strat = .copy ∧
      calls = checkoutFileCalls t.isEmp .copy w true (o.bytes t.ctx) sum ∧ r = .file (o.bytes t.ctx)) := by
  unfold checkoutFileT at h
  cases hcf : checkoutFile t.ctx t.strat cur sum s with
  | error e => rw [hcf] at h; cases h
  | ok r' =>
    rw [hcf] at h
    simp only at h
    unfold checkoutFile at hcf
    simp only at hcf
    split at hcf
    · cases hcf
    split at hcf
    · cases hcf
    cases hg : s.get sum with
    | none => rw [hg] at hcf; cases hcf
    | some o =>
      rw [hg] at hcf h
      simp only at hcf h
      by_cases hup : upToDateCopy t.ctx cur sum = true
      · rw [if_pos hup] at hcf h
        simp only [Except.ok.injEq, Prod.mk.injEq] at hcf h
        obtain ⟨rfl, rfl⟩ := h
        left
        refine ⟨?_, rfl⟩
        cases cur with
        | none => simp [upToDateCopy] at hup
        | some n => simpa using hcf
      · rw [if_neg hup] at hcf h
        simp only [Except.ok.injEq, Prod.mk.injEq] at h
        obtain ⟨rfl, rfl⟩ := h
        cases hst : t.strat with
        | copy =>
          rw [hst] at hcf
          simp only at hcf
          by_cases hcm : (quick s sum cur).cm = true
          · -- a link to the very object
            have hcur : cur = some (.link (.obj sum)) := by
              cases cur with
              | none => simp [quick] at hcm
              | some n =>
                cases n with
                | link l =>
                  cases l with
                  | obj d => simp [quick] at hcm; rw [hcm.2]
                  | foreign b => simp [quick] at hcm
                | file _ => simp [quick] at hcm
                | dir _ => simp [quick] at hcm
                | other => simp [quick] at hcm
            rw [hcm] at hcf ⊢
            simp only [if_true] at hcf
            split at hcf
            · right; right
              simp only [Except.ok.injEq] at hcf
              exact ⟨o, rfl, hcur, rfl, rfl, hcf.symm⟩
            · cases hcf
          · have hcm' : (quick s sum cur).cm = false := by simpa using hcm
            rw [hcm'] at hcf ⊢
            simp only [Bool.false_eq_true, if_false] at hcf
            cases cur with
            | some n => simp at hcf
            | none =>
              simp only at hcf
              split at hcf
              · right; left
                simp only [Except.ok.injEq] at hcf
                exact ⟨o, rfl, rfl, rfl, hcf.symm⟩
              · cases hcf
        | link =>
          rw [hst] at hcf
          simp only at hcf
          by_cases hcm : (quick s sum cur).cm = true
          · rw [hcm] at hcf ⊢
            simp only [if_true, Except.ok.injEq] at hcf
            left
            refine ⟨?_, rfl⟩
            cases cur with
            | none => simp [quick] at hcm
            | some n => simpa using hcf
          · have hcm' : (quick s sum cur).cm = false := by simpa using hcm
            rw [hcm'] at hcf ⊢
            simp only [Bool.false_eq_true, if_false] at hcf
            cases cur with
            | some n => simp at hcf
            | none =>
              simp only [Except.ok.injEq] at hcf
              right; left
              exact ⟨o, rfl, rfl, rfl, hcf.symm⟩

/-! ## the result of one step -/

/-- all writes of the trace are workspace paths below `pre` -/
def Below (pre : List Name) (calls : List (Call κ)) : Prop :=
  ∀ c ∈ calls, ∀ p ∈ callWrites c, ∃ rel, p = .ws (pre ++ rel)

/-- … strictly below `pre` -/
def BelowStrict (pre : List Name) (calls : List (Call κ)) : Prop :=
  ∀ c ∈ calls, ∀ p ∈ callWrites c, ∃ nm rel, p = .ws (pre ++ nm :: rel)

theorem BelowStrict.below {pre : List Name} {calls : List (Call κ)} (h : BelowStrict pre calls) :
    Below pre calls := by
  intro c hc p hp
  obtain ⟨nm, rel, h⟩ := h c hc p hp
  exact ⟨nm :: rel, h⟩

theorem Below.append {pre : List Name} {l1 l2 : List (Call κ)} (h1 : Below pre l1) (h2 : Below pre l2) :
    Below pre (l1 ++ l2) := by
  intro c hc
  rcases List.mem_append.1 hc with h | h
  · exact h1 c h
  · exact h2 c h

theorem BelowStrict.append {pre : List Name} {l1 l2 : List (Call κ)} (h1 : BelowStrict pre l1)
    (h2 : BelowStrict pre l2) : BelowStrict pre (l1 ++ l2) := by
  intro c hc
  rcases List.mem_append.1 hc with h | h
  · exact h1 c h
  · exact h2 c h

/-- a trace strictly below `pre` leaves `pre` itself alone -/
theorem BelowStrict.frame_self {pre : List Name} {calls : List (Call κ)} (h : BelowStrict pre calls)
    (emp : κ) (fs : FS κ) : (replay emp fs calls).get (.ws pre) = fs.get (.ws pre) := by
  refine replay_get_frame emp calls _ fs (fun c hc hmem => ?_)
  obtain ⟨nm, rel, h⟩ := h c hc _ hmem
  exact ws_append_ne_self pre nm rel h.symm

/-- a trace below `pre ++ [a]` leaves everything below a sibling `pre ++ [b]` alone -/
theorem Below.frame_sibling {pre : List Name} {a b : Name} {calls : List (Call κ)}
    (h : Below (pre ++ [a]) calls) (hab : b ≠ a) (r : List Name) (emp : κ) (fs : FS κ) :
    (replay emp fs calls).get (.ws (pre ++ b :: r)) = fs.get (.ws (pre ++ b :: r)) := by
  refine replay_get_frame emp calls _ fs (fun c hc hmem => ?_)
  obtain ⟨rel, h⟩ := h c hc _ hmem
  exact ws_child_ne hab r rel h

/-- what one traced checkout step (a file, a directory, an artifact) guarantees -/
structure StepRes (st : Strat) (emp : κ) (fs0 : FS κ) (pre : List Name) (r : Node κ) (fs : FS κ)
    (calls : List (Call κ)) : Prop where
  /-- afterwards the file system agrees with the new node -/
  abs : AbsAt pre (some r) (replay emp fs calls)
  /-- after every prefix the old entries are kept (up to a link being replaced by a copy) -/
  pref : Pref (KeptP st emp fs0) emp fs calls
  /-- afterwards the old entries are kept (up to links replaced by complete copies) -/
  kept : KeptB st fs0 (replay emp fs calls)
  below : Below pre calls

/-- the same for the entries of a directory -/
structure ListRes (st : Strat) (emp : κ) (fs0 : FS κ) (pre : List Name) (es : List (Name × Node κ)) (fs : FS κ)
    (calls : List (Call κ)) : Prop where
  abs : AbsList pre es (replay emp fs calls)
  pref : Pref (KeptP st emp fs0) emp fs calls
  kept : KeptB st fs0 (replay emp fs calls)
  below : BelowStrict pre calls

/-! ## one file: the step -/

theorem absAt_leaf_after {pre : List Name} {cur : Option (Node κ)} {r : Node κ} {fs fs' : FS κ}
    (ha : AbsAt pre cur fs) (hcur : ∀ nm r', getOpt cur (nm :: r') = none) (hr : r.isDir = false)
    (h0 : EntOK (some r) (fs'.get (.ws pre)))
    (hfr : ∀ nm r', fs'.get (.ws (pre ++ nm :: r')) = fs.get (.ws (pre ++ nm :: r'))) :
    AbsAt pre (some r) fs' := by
  intro r'
  cases r' with
  | nil => simpa [getOpt, getPath] using h0
  | cons nm r' =>
    rw [getOpt_leaf_cons hr, hfr]
    have := ha (nm :: r')
    rwa [hcur] at this

theorem checkoutFileT_step {t : TCfg κ} {emp : κ} (hemp : ∀ c, t.isEmp c = true → c = emp)
    {pre : List Name} {cur : Option (Node κ)} {sum : Digest} {s : Store κ} {r : Node κ}
    {calls : List (Call κ)} (h : checkoutFileT t (.ws pre) cur sum s = .ok (r, calls))
    {fs0 fs : FS κ} (hcp : t.strat = .copy → st = .copy) (hobj : ObjIn t.ctx s fs0)
    (ha : AbsAt pre cur fs) (hk : KeptB st fs0 fs)
    (hu : uniqOpt cur) : StepRes st emp fs0 pre r fs calls ∧ uniqNode r := by
  have hself : ∀ (b : Bool) (x : κ) (st : Strat),
      Below pre (checkoutFileCalls t.isEmp st (.ws pre) b x sum) := by
    intro b x st c hc p hp
    exact ⟨[], by simpa using checkoutFileCalls_writes _ _ _ _ _ _ c hc p hp⟩
  have hframe : ∀ (b : Bool) (x : κ) (st : Strat) (nm : Name) (r' : List Name) (k : Nat),
      (replay emp fs ((checkoutFileCalls t.isEmp st (.ws pre) b x sum).take k)).get (.ws (pre ++ nm :: r'))
        = fs.get (.ws (pre ++ nm :: r')) := by
    intro b x st nm r' k
    refine replay_take_get_frame emp _ _ fs (fun c hc hmem => ?_) k
    exact ws_append_ne_self pre nm r' (checkoutFileCalls_writes _ _ _ _ _ _ c hc _ hmem)
  have hframe' : ∀ (b : Bool) (x : κ) (st : Strat) (nm : Name) (r' : List Name),
      (replay emp fs (checkoutFileCalls t.isEmp st (.ws pre) b x sum)).get (.ws (pre ++ nm :: r'))
        = fs.get (.ws (pre ++ nm :: r')) := by
    intro b x st nm r'
    have := hframe b x st nm r' (checkoutFileCalls t.isEmp st (.ws pre) b x sum).length
    rwa [List.take_length] at this
  rcases checkoutFileT_cases h with ⟨rfl, rfl⟩ | ⟨o, hg, rfl, rfl, rfl⟩ | ⟨o, hg, rfl, hst, rfl, rfl⟩
  · exact ⟨⟨ha, Pref.nil (hk.toP emp), hk, by intro c hc; cases hc⟩, hu⟩
  · -- nothing at the path
    have hnone : fs.get (.ws pre) = none := by simpa [getOpt, EntOK] using ha []
    have h0 := hk.absent0 hnone
    obtain ⟨hp, hkb⟩ := pref_keptP_of_absent hk emp
      (checkoutFileCalls t.isEmp t.strat (.ws pre) false (o.bytes t.ctx) sum)
      (fun c hc p hp => ⟨pre, checkoutFileCalls_writes _ _ _ _ _ _ c hc p hp, h0⟩)
    have hfin := checkoutFileCalls_final hemp t.strat (.ws pre) false (o.bytes t.ctx) sum
      (fs := fs) (by simpa using hnone) (by intro h; cases h)
    refine ⟨⟨?_, hp, hkb, hself _ _ _⟩, by cases t.strat <;> simp [uniqNode]⟩
    refine absAt_leaf_after ha (fun _ _ => rfl) (by cases t.strat <;> rfl) ?_ (hframe' _ _ _)
    rw [hfin]
    cases t.strat <;> simp [EntOK]
  · -- a link to the very object, copy strategy
    have hlink : fs.get (.ws pre) = some (.link (.obj sum)) := by simpa [getOpt, getPath, EntOK] using ha []
    have hfin := checkoutFileCalls_final hemp .copy (.ws pre) true (o.bytes t.ctx) sum
      (fs := fs) (by simpa using hlink) (fun _ => rfl)
    simp only at hfin
    have habs : AbsAt pre (some (.file (o.bytes t.ctx)))
        (replay emp fs (checkoutFileCalls t.isEmp .copy (.ws pre) true (o.bytes t.ctx) sum)) := by
      refine absAt_leaf_after ha (fun _ _ => rfl) rfl ?_ (hframe' _ _ _)
      rw [hfin]; exact ⟨_, rfl⟩
    refine ⟨⟨habs, ?_, ?_, hself _ _ _⟩, by simp [uniqNode]⟩
    · -- every prefix
      rcases hk.link0 hlink with h0 | h0
      · exact (pref_keptP_of_absent hk emp _
          (fun c hc p hp => ⟨pre, checkoutFileCalls_writes _ _ _ _ _ _ c hc p hp, h0⟩)).1
      · obtain ⟨m0, hm0⟩ := hobj sum o hg
        intro k q e he
        by_cases hq : q = pre
        · subst hq
          rw [h0] at he
          injection he with he
          subst he
          rcases checkoutFileCalls_copy_over_link (isEmp := t.isEmp) hemp (.ws q) (o.bytes t.ctx) sum hlink k
            with h1 | h1 | ⟨m, h1⟩
          · exact .inl h1
          · exact .inr ⟨hcp hst, sum, _, m0, rfl, hm0, .inl h1⟩
          · exact .inr ⟨hcp hst, sum, _, m0, rfl, hm0, .inr ⟨m, h1⟩⟩
        · have hfr : (replay emp fs ((checkoutFileCalls t.isEmp .copy (.ws pre) true (o.bytes t.ctx)
              sum).take k)).get (.ws q) = fs.get (.ws q) := by
            refine replay_take_get_frame emp _ _ fs (fun c hc hmem => ?_) k
            have := checkoutFileCalls_writes _ _ _ _ _ _ c hc _ hmem
            injection this with this
            exact hq this
          rw [hfr]
          exact hk.toP emp q e he
    · -- afterwards
      intro q e he
      by_cases hq : q = pre
      · subst hq
        rcases hk.link0 hlink with h0 | h0
        · rw [h0] at he; cases he
        · obtain ⟨m0, hm0⟩ := hobj sum o hg
          rw [h0] at he
          injection he with he
          subst he
          exact .inr ⟨hcp hst, sum, _, m0, _, rfl, hm0, hfin⟩
      · have hfr : (replay emp fs (checkoutFileCalls t.isEmp .copy (.ws pre) true (o.bytes t.ctx)
            sum)).get (.ws q) = fs.get (.ws q) := by
          refine replay_get_frame emp _ _ fs (fun c hc hmem => ?_)
          have := checkoutFileCalls_writes _ _ _ _ _ _ c hc _ hmem
          injection this with this
          exact hq this
        rw [hfr]
        exact hk q e he

/-! ## the entries of a manifest, a directory -/

/-- the property of one level of the traced checkout the next level builds on -/
def NodeStep (st : Strat) (emp : κ) (fs0 : FS κ)
    (f : List Name → Option (Node κ) → Child → Except Err (Node κ × List (Call κ))) : Prop :=
  ∀ pre cur c r calls, f pre cur c = .ok (r, calls) → ∀ fs, AbsAt pre cur fs → KeptB st fs0 fs →
    uniqOpt cur → StepRes st emp fs0 pre r fs calls ∧ uniqNode r

theorem uniqOpt_alookup {es : List (Name × Node κ)} (hu : uniqList es) (nm : Name) :
    uniqOpt (alookup es nm) := by
  cases h : alookup es nm with
  | none => trivial
  | some n => exact uniqNode_of_alookup hu h

theorem checkoutChildrenT_step {emp : κ} {fs0 : FS κ}
    {f : List Name → Option (Node κ) → Child → Except Err (Node κ × List (Call κ))}
    (hf : NodeStep st emp fs0 f) (pre : List Name) :
    ∀ (cs : List Child) (es es' : List (Name × Node κ)) (calls : List (Call κ)),
      checkoutChildrenT f pre es cs = .ok (es', calls) → ∀ fs, AbsList pre es fs → KeptB st fs0 fs →
      uniqList es → ListRes st emp fs0 pre es' fs calls ∧ uniqList es'
  | [], es, es', calls, h, fs, ha, hk, hu => by
    simp only [checkoutChildrenT, Except.ok.injEq, Prod.mk.injEq] at h
    obtain ⟨rfl, rfl⟩ := h
    exact ⟨⟨ha, Pref.nil (hk.toP emp), hk, by intro c hc; cases hc⟩, hu⟩
  | c :: cs, es, es', calls, h, fs, ha, hk, hu => by
    simp only [checkoutChildrenT] at h
    cases hT : f (pre ++ [c.name]) (alookup es c.name) c with
    | error e => rw [hT] at h; cases h
    | ok v =>
      obtain ⟨n, calls1⟩ := v
      rw [hT] at h
      simp only at h
      cases hT2 : checkoutChildrenT f pre (setEntry es c.name n) cs with
      | error e => rw [hT2] at h; cases h
      | ok v =>
        obtain ⟨es2, calls2⟩ := v
        rw [hT2] at h
        simp only [Except.ok.injEq, Prod.mk.injEq] at h
        obtain ⟨rfl, rfl⟩ := h
        obtain ⟨r1, hun⟩ := hf _ _ _ _ _ hT fs (ha.child c.name) hk (uniqOpt_alookup hu c.name)
        have ha1 : AbsList pre (setEntry es c.name n) (replay emp fs calls1) := by
          intro nm r
          by_cases hnm : nm = c.name
          · subst hnm
            rw [WT.alookup_setEntry_self]
            have := r1.abs r
            simpa [List.append_assoc] using this
          · rw [WT.alookup_setEntry_ne _ _ _ _ (Ne.symm hnm), r1.below.frame_sibling hnm]
            exact ha nm r
        obtain ⟨r2, hu2⟩ := checkoutChildrenT_step hf pre cs _ _ _ hT2 _ ha1 r1.kept
          (uniqList_setEntry hu hun)
        refine ⟨⟨?_, Pref.append r1.pref r2.pref, ?_, BelowStrict.append ?_ r2.below⟩, hu2⟩
        · rw [replay_append]; exact r2.abs
        · rw [replay_append]; exact r2.kept
        · intro x hx p hp
          obtain ⟨rel, hrel⟩ := r1.below x hx p hp
          exact ⟨c.name, rel, by simpa [List.append_assoc] using hrel⟩

/-- inversion of the traced `checkoutDir` / `checkoutFile` dispatch -/
theorem checkoutNodeT_inv {t : TCfg κ} {s : Store κ} {fuel : Nat} {pre : List Name}
    {cur : Option (Node κ)} {c : Child} {r : Node κ} {calls : List (Call κ)}
    (h : checkoutNodeT t s (fuel + 1) pre cur c = .ok (r, calls)) :
    (c.isDir = true ∧ ∃ cs es es' calls1, readManifest t.ctx s c.sum = .ok cs ∧
      checkoutChildrenT (checkoutNodeT t s fuel) pre es cs = .ok (es', calls1) ∧ r = .dir es' ∧
      ((cur = some (.dir es) ∧ calls = calls1) ∨
       (cur = none ∧ es = [] ∧ calls = .mkdir (.ws pre) :: calls1))) ∨
    (c.isDir = false ∧ checkoutFileT t (.ws pre) cur c.sum s = .ok (r, calls)) := by
  simp only [checkoutNodeT] at h
  split at h
  · rename_i hd
    left
    refine ⟨hd, ?_⟩
    split at h
    · cases h
    split at h
    · cases h
    cases cur with
    | none =>
      simp only at h
      cases hm : readManifest t.ctx s c.sum with
      | error e => rw [hm] at h; cases h
      | ok cs =>
        rw [hm] at h
        simp only at h
        cases hT : checkoutChildrenT (checkoutNodeT t s fuel) pre [] cs with
        | error e => rw [hT] at h; cases h
        | ok v =>
          obtain ⟨es', calls1⟩ := v
          rw [hT] at h
          simp only [Except.ok.injEq, Prod.mk.injEq] at h
          obtain ⟨rfl, rfl⟩ := h
          exact ⟨cs, [], es', calls1, rfl, hT, rfl, .inr ⟨rfl, rfl, rfl⟩⟩
    | some x =>
      cases x with
      | file _ => cases h
      | link _ => cases h
      | other => cases h
      | dir es =>
        simp only at h
        cases hm : readManifest t.ctx s c.sum with
        | error e => rw [hm] at h; cases h
        | ok cs =>
          rw [hm] at h
          simp only at h
          cases hT : checkoutChildrenT (checkoutNodeT t s fuel) pre es cs with
          | error e => rw [hT] at h; cases h
          | ok v =>
            obtain ⟨es', calls1⟩ := v
            rw [hT] at h
            simp only [Except.ok.injEq, Prod.mk.injEq] at h
            obtain ⟨rfl, rfl⟩ := h
            exact ⟨cs, es, es', calls1, rfl, hT, rfl, .inl ⟨rfl, rfl⟩⟩
  · rename_i hd
    right
    exact ⟨by simpa using hd, h⟩

/-- **One traced `checkoutDir` / `checkoutFile`**, at any depth. -/
theorem checkoutNodeT_step {t : TCfg κ} {emp : κ} (hemp : ∀ c, t.isEmp c = true → c = emp)
    {s : Store κ} {fs0 : FS κ} (hcp : t.strat = .copy → st = .copy) (hobj : ObjIn t.ctx s fs0) :
    ∀ fuel, NodeStep st emp fs0 (checkoutNodeT t s fuel)
  | 0 => by
    intro pre cur c r calls h
    simp [checkoutNodeT] at h
  | fuel + 1 => by
    intro pre cur c r calls h fs ha hk hu
    rcases checkoutNodeT_inv h with
      ⟨-, cs, es, es', calls1, -, hch, rfl, ⟨rfl, rfl⟩ | ⟨rfl, rfl, rfl⟩⟩ | ⟨-, hf⟩
    · -- an existing directory
      obtain ⟨lr, hul⟩ := checkoutChildrenT_step (checkoutNodeT_step hemp hcp hobj fuel) pre cs es es' calls
        hch fs (AbsList.of_dir ha) hk hu
      have h0 : fs.get (.ws pre) = some .dir := by simpa [getOpt, getPath, EntOK] using ha []
      refine ⟨⟨AbsAt.dir ?_ lr.abs, lr.pref, lr.kept, lr.below.below⟩, hul⟩
      rw [lr.below.frame_self]; exact h0
    · -- an absent directory: `mkdir`, then the entries
      have hnone : fs.get (.ws pre) = none := by simpa [getOpt, EntOK] using ha []
      have hfr : ∀ q, q ≠ pre → (apply emp fs (.mkdir (.ws pre))).get (.ws q) = fs.get (.ws q) := by
        intro q hq
        exact apply_get_frame emp fs _ _ (by simpa [callWrites, callPaths] using hq)
      have hdir : (apply emp fs (.mkdir (.ws pre))).get (.ws pre) = some .dir := by
        simp [apply, hnone, FS.get_set]
      have ha1 : AbsList pre [] (apply emp fs (.mkdir (.ws pre))) := by
        intro nm r
        rw [hfr _ (fun h => ws_append_ne_self pre nm r (by rw [h]))]
        simpa [alookup, getOpt] using ha (nm :: r)
      have hk1 : KeptB st fs0 (apply emp fs (.mkdir (.ws pre))) := by
        refine hk.frame (fun q hq => hfr q (fun h => ?_))
        subst h
        exact hq (hk.absent0 hnone)
      obtain ⟨lr, hul⟩ := checkoutChildrenT_step (checkoutNodeT_step hemp hcp hobj fuel) pre cs [] es' calls1
        hch _ ha1 hk1 (by simp [uniqList])
      refine ⟨⟨?_, Pref.cons (hk.toP emp) lr.pref, ?_, ?_⟩, hul⟩
      · rw [replay_cons]
        refine AbsAt.dir ?_ lr.abs
        rw [lr.below.frame_self]; exact hdir
      · rw [replay_cons]; exact lr.kept
      · intro x hx p hp
        rcases List.mem_cons.1 hx with rfl | hx
        · exact ⟨[], by simpa [callWrites, callPaths] using hp⟩
        · exact lr.below.below x hx p hp
    · exact checkoutFileT_step hemp hf hcp hobj ha hk hu

end Dud.Sys
